/-
  C07 — helper lemmas about the cycle checker (`dfs`, `dfsList`, `cycleCheck`).
-/
import IcingaProofs.C07.Reach

namespace Icinga.C07

/-- a ranking certificate for an arbitrary successor function. -/
def RankedS (succ : Nat → List Nat) (rank : Nat → Nat) : Prop := ∀ v, ∀ w ∈ succ v, rank w < rank v

/-- a non-empty path along `succ`. -/
inductive Path (succ : Nat → List Nat) : Nat → Nat → Prop
  | single {u w : Nat} : w ∈ succ u → Path succ u w
  | cons {u w x : Nat} : w ∈ succ u → Path succ w x → Path succ u x

theorem ranked_path_lt {succ : Nat → List Nat} {rank : Nat → Nat} (hr : RankedS succ rank) :
    ∀ {u w}, Path succ u w → rank w < rank u := by
  intro u w p
  induction p with
  | single h => exact hr _ _ h
  | cons h _ ih => exact Nat.lt_trans ih (hr _ _ h)

theorem ranked_no_cycle {succ : Nat → List Nat} {rank : Nat → Nat} (hr : RankedS succ rank) (v : Nat) :
    ¬ Path succ v v := fun p => Nat.lt_irrefl _ (ranked_path_lt hr p)

/-! ### soundness: the finished list is topologically sorted -/

/-- finished nodes, newest first: no duplicates, and every successor of a node lies behind it. -/
def TopSorted (succ : Nat → List Nat) : List Nat → Prop
  | [] => True
  | u :: rest => u ∉ rest ∧ (∀ w ∈ succ u, w ∈ rest) ∧ TopSorted succ rest

/-- what a successful visit guarantees. -/
def VisitOk (succ : Nat → List Nat) (stack : List Nat) (visit : List Nat → Nat → Res) : Prop :=
  ∀ fin w fin', TopSorted succ fin → visit fin w = .ok fin' →
    TopSorted succ fin' ∧ w ∈ fin' ∧ (∀ x ∈ fin, x ∈ fin') ∧ (∀ x ∈ fin', x ∈ fin ∨ x ∉ stack)

theorem dfsList_ok (succ : Nat → List Nat) (stack : List Nat) (visit : List Nat → Nat → Res)
    (hv : VisitOk succ stack visit) :
    ∀ ws fin fin', TopSorted succ fin → dfsList visit fin ws = .ok fin' →
      TopSorted succ fin' ∧ (∀ w ∈ ws, w ∈ fin') ∧ (∀ x ∈ fin, x ∈ fin') ∧ (∀ x ∈ fin', x ∈ fin ∨ x ∉ stack) := by
  intro ws
  induction ws with
  | nil =>
    intro fin fin' ht h
    simp only [dfsList, Res.ok.injEq] at h
    subst h
    exact ⟨ht, by simp, fun x hx => hx, fun x hx => Or.inl hx⟩
  | cons w ws ih =>
    intro fin fin' ht h
    simp only [dfsList] at h
    cases hvis : visit fin w with
    | cycle => rw [hvis] at h; cases h
    | fuelOut => rw [hvis] at h; cases h
    | ok fin1 =>
      rw [hvis] at h
      obtain ⟨t1, m1, s1, n1⟩ := hv fin w fin1 ht hvis
      obtain ⟨t2, m2, s2, n2⟩ := ih fin1 fin' t1 h
      refine ⟨t2, ?_, fun x hx => s2 x (s1 x hx), ?_⟩
      · intro x hx
        rcases List.mem_cons.1 hx with hx | hx
        · subst hx; exact s2 _ m1
        · exact m2 x hx
      · intro x hx
        rcases n2 x hx with h' | h'
        · exact n1 x h'
        · exact Or.inr h'

theorem dfs_ok (succ : Nat → List Nat) : ∀ f stack, VisitOk succ stack (dfs succ f stack) := by
  intro f
  induction f with
  | zero =>
    intro stack fin w fin' _ h
    simp [dfs] at h
  | succ f ih =>
    intro stack fin v fin' ht h
    simp only [dfs] at h
    split at h
    · cases h
    · rename_i hns
      split at h
      · rename_i hfin
        simp only [Res.ok.injEq] at h
        subst h
        exact ⟨ht, hfin, fun x hx => hx, fun x hx => Or.inl hx⟩
      · rename_i hnf
        cases hl : dfsList (dfs succ f (v :: stack)) fin (succ v) with
        | cycle => rw [hl] at h; cases h
        | fuelOut => rw [hl] at h; cases h
        | ok fin1 =>
          rw [hl] at h
          simp only [Res.ok.injEq] at h
          subst h
          obtain ⟨t1, m1, s1, n1⟩ := dfsList_ok succ (v :: stack) _ (ih (v :: stack)) (succ v) fin fin1 ht hl
          refine ⟨⟨?_, m1, t1⟩, List.mem_cons_self, fun x hx => List.mem_cons_of_mem _ (s1 x hx), ?_⟩
          · intro hv
            rcases n1 v hv with h' | h'
            · exact hnf h'
            · exact h' List.mem_cons_self
          · intro x hx
            rcases List.mem_cons.1 hx with hx | hx
            · subst hx; exact Or.inr hns
            · rcases n1 x hx with h' | h'
              · exact Or.inl h'
              · exact Or.inr (fun hm => h' (List.mem_cons_of_mem _ hm))

/-! ### a topologically sorted list yields a ranking of its members -/

/-- position from the end (1-based) of the first occurrence; 0 for non-members. -/
def rankFin : List Nat → Nat → Nat
  | [], _ => 0
  | u :: rest, v => if v = u then rest.length + 1 else rankFin rest v

theorem rankFin_le (l : List Nat) (v : Nat) : rankFin l v ≤ l.length := by
  induction l with
  | nil => simp [rankFin]
  | cons u rest ih => simp only [rankFin, List.length_cons]; split <;> omega

theorem rankFin_pos {l : List Nat} {v : Nat} (h : v ∈ l) : 0 < rankFin l v := by
  induction l with
  | nil => cases h
  | cons u rest ih =>
    simp only [rankFin]
    split
    · omega
    · rename_i hne
      rcases List.mem_cons.1 h with h | h
      · exact absurd h hne
      · exact ih h

theorem topSorted_rank {succ : Nat → List Nat} :
    ∀ {l : List Nat}, TopSorted succ l → ∀ v ∈ l, ∀ w ∈ succ v, w ∈ l ∧ rankFin l w < rankFin l v := by
  intro l
  induction l with
  | nil => intro _ v hv; cases hv
  | cons u rest ih =>
    intro ht v hv w hw
    obtain ⟨hnu, hsu, htr⟩ := ht
    rcases List.mem_cons.1 hv with hv | hv
    · subst hv
      have hwr := hsu w hw
      have hne : w ≠ v := fun e => hnu (e ▸ hwr)
      refine ⟨List.mem_cons_of_mem _ hwr, ?_⟩
      simp only [rankFin, if_neg hne, if_true]
      have := rankFin_le rest w
      omega
    · obtain ⟨hwr, hlt⟩ := ih htr v hv w hw
      have hne1 : v ≠ u := fun e => hnu (e ▸ hv)
      have hne2 : w ≠ u := fun e => hnu (e ▸ hwr)
      refine ⟨List.mem_cons_of_mem _ hwr, ?_⟩
      simp only [rankFin, if_neg hne1, if_neg hne2]
      exact hlt

/-! ### completeness: on a ranked graph the search neither reports a cycle nor runs out of fuel -/

def IsOk : Res → Prop
  | .ok _ => True
  | _ => False

theorem dfsList_complete (visit : List Nat → Nat → Res) :
    ∀ ws fin, (∀ fin' w, w ∈ ws → IsOk (visit fin' w)) → IsOk (dfsList visit fin ws) := by
  intro ws
  induction ws with
  | nil => intro fin _; simp [dfsList, IsOk]
  | cons w ws ih =>
    intro fin h
    simp only [dfsList]
    have hw := h fin w List.mem_cons_self
    cases hvis : visit fin w with
    | cycle => rw [hvis] at hw; exact hw.elim
    | fuelOut => rw [hvis] at hw; exact hw.elim
    | ok fin1 => exact ih fin1 (fun fin' x hx => h fin' x (List.mem_cons_of_mem _ hx))

theorem dfs_complete (succ : Nat → List Nat) (rank : Nat → Nat) (hr : RankedS succ rank) :
    ∀ f stack fin v, rank v < f → (∀ s ∈ stack, rank v < rank s) → IsOk (dfs succ f stack fin v) := by
  intro f
  induction f with
  | zero => intro _ _ v h; exact absurd h (Nat.not_lt_zero _)
  | succ f ih =>
    intro stack fin v hf hs
    simp only [dfs]
    split
    · rename_i hin; exact absurd (hs v hin) (Nat.lt_irrefl _)
    · split
      · trivial
      · have := dfsList_complete (dfs succ f (v :: stack)) (succ v) fin (by
          intro fin' w hw
          have hlt := hr v w hw
          apply ih (v :: stack) fin' w (by omega)
          intro s hs'
          rcases List.mem_cons.1 hs' with e | e
          · subst e; exact hlt
          · exact Nat.lt_trans hlt (hs s e))
        cases hl : dfsList (dfs succ f (v :: stack)) fin (succ v) with
        | cycle => rw [hl] at this; exact this.elim
        | fuelOut => rw [hl] at this; exact this.elim
        | ok fin1 => trivial

/-! ### `cycleCheck`: combining the ranking of the registered graph with the finished list -/

/-- the graph the checker looks at: registered dependencies plus the batch. -/
def withNew (g : Graph) (new : List Dep) : Graph := { g with deps := g.deps ++ new }

theorem mem_succs {g : Graph} {v w : Nat} :
    w ∈ succs g v ↔ ((g.node v).isService = true ∧ (g.node v).host = some w) ∨
                    ∃ d ∈ g.deps, d.child = v ∧ d.parent = w := by
  unfold succs
  rw [List.mem_append]
  constructor
  · rintro (h | h)
    · left
      cases h1 : (g.node v).isService <;> cases h2 : (g.node v).host <;> simp_all
    · right
      obtain ⟨d, hd, rfl⟩ := List.mem_map.1 h
      obtain ⟨m1, m2⟩ := mem_depsOf.1 hd
      exact ⟨d, m1, m2, rfl⟩
  · rintro (⟨h1, h2⟩ | ⟨d, m1, m2, m3⟩)
    · left; simp [h1, h2]
    · right; exact List.mem_map.2 ⟨d, mem_depsOf.2 ⟨m1, m2⟩, m3⟩

theorem mem_succs_withNew {g : Graph} {new : List Dep} {v w : Nat} :
    w ∈ succs (withNew g new) v ↔ w ∈ succs g v ∨ ∃ d ∈ new, d.child = v ∧ d.parent = w := by
  rw [mem_succs, mem_succs]
  simp only [withNew, List.mem_append]
  constructor
  · rintro (h | ⟨d, hd | hd, m2, m3⟩)
    · exact Or.inl (Or.inl h)
    · exact Or.inl (Or.inr ⟨d, hd, m2, m3⟩)
    · exact Or.inr ⟨d, hd, m2, m3⟩
  · rintro ((h | ⟨d, hd, m2, m3⟩) | ⟨d, hd, m2, m3⟩)
    · exact Or.inl h
    · exact Or.inr ⟨d, Or.inl hd, m2, m3⟩
    · exact Or.inr ⟨d, Or.inr hd, m2, m3⟩

theorem cycleCheck_ok_topSorted (g : Graph) (new : List Dep) (bound : Nat) (fin : List Nat)
    (h : cycleCheck g new bound = .ok fin) :
    TopSorted (succs (withNew g new)) fin ∧ ∀ d ∈ new, d.parent ∈ fin := by
  unfold cycleCheck at h
  obtain ⟨t, m, _, _⟩ := dfsList_ok (succs (withNew g new)) [] _ (dfs_ok _ (bound + 1) []) _ [] fin trivial h
  exact ⟨t, fun d hd => m d.parent (List.mem_map.2 ⟨d, hd, rfl⟩)⟩

/-- ranking of the combined graph: members of the finished list by position, everything else above
    them by the ranking of the registered graph. -/
def combinedRank (fin : List Nat) (rg : Nat → Nat) (v : Nat) : Nat :=
  if v ∈ fin then rankFin fin v else fin.length + 1 + rg v

theorem combinedRank_ranked (g : Graph) (new : List Dep) (fin : List Nat) (rg : Nat → Nat)
    (hg : RankedS (succs g) rg) (ht : TopSorted (succs (withNew g new)) fin)
    (hp : ∀ d ∈ new, d.parent ∈ fin) :
    RankedS (succs (withNew g new)) (combinedRank fin rg) := by
  intro v w hw
  unfold combinedRank
  by_cases hv : v ∈ fin
  · obtain ⟨hwf, hlt⟩ := topSorted_rank ht v hv w hw
    rw [if_pos hv, if_pos hwf]; exact hlt
  · rw [if_neg hv]
    by_cases hwf : w ∈ fin
    · rw [if_pos hwf]; have := rankFin_le fin w; omega
    · rw [if_neg hwf]
      rcases mem_succs_withNew.1 hw with h | ⟨d, hd, _, m3⟩
      · have := hg v w h; omega
      · exact absurd (m3 ▸ hp d hd) hwf

theorem rankedS_ranked {g : Graph} {r : Nat → Nat} (h : RankedS (succs g) r) : Ranked g r := by
  intro d hd
  exact h d.child d.parent (mem_succs.2 (Or.inr ⟨d, hd, rfl, rfl⟩))

/-- well-formed checkables: the host of a service is a host. -/
def WellFormed (g : Graph) : Prop :=
  ∀ v h, (g.node v).isService = true → (g.node v).host = some h → (g.node h).isService = false

/-- without dependencies the implicit service → host edges alone are acyclic. -/
theorem implicit_ranked (g : Graph) (hw : WellFormed g) (he : g.deps = []) :
    RankedS (succs g) (fun v => if (g.node v).isService then 1 else 0) := by
  intro v w hwv
  rcases mem_succs.1 hwv with ⟨h1, h2⟩ | ⟨d, hd, _, _⟩
  · have := hw v w h1 h2
    simp [h1, this]
  · rw [he] at hd; cases hd

/-! ### the specification's own acyclicity decision (peeling) accepts every ranked graph -/

theorem exists_min_rank (r : Nat → Nat) : ∀ (l : List Nat), l ≠ [] → ∃ m ∈ l, ∀ x ∈ l, r m ≤ r x := by
  intro l
  induction l with
  | nil => intro h; exact absurd rfl h
  | cons a t ih =>
    intro _
    by_cases ht : t = []
    · subst ht; exact ⟨a, List.mem_cons_self, by simp⟩
    · obtain ⟨m, hm, hmin⟩ := ih ht
      by_cases hc : r a ≤ r m
      · refine ⟨a, List.mem_cons_self, ?_⟩
        intro x hx
        rcases List.mem_cons.1 hx with rfl | hx
        · exact Nat.le_refl _
        · exact Nat.le_trans hc (hmin x hx)
      · refine ⟨m, List.mem_cons_of_mem _ hm, ?_⟩
        intro x hx
        rcases List.mem_cons.1 hx with rfl | hx
        · omega
        · exact hmin x hx

theorem peel_shrinks (edges : List (Nat × Nat)) (r : Nat → Nat) (hr : ∀ e ∈ edges, r e.2 < r e.1)
    (alive : List Nat) (hne : alive ≠ []) : (peel edges alive).length < alive.length := by
  obtain ⟨m, hm, hmin⟩ := exists_min_rank r alive hne
  unfold peel
  apply List.length_filter_lt_length_iff_exists.2
  refine ⟨m, hm, ?_⟩
  intro hany
  obtain ⟨e, he, hp⟩ := List.any_eq_true.1 hany
  simp only [Bool.and_eq_true, beq_iff_eq, List.contains_iff_mem] at hp
  have h1 := hr e he
  have h2 := hmin e.2 hp.2
  rw [hp.1] at h1
  omega

theorem peelN_length (edges : List (Nat × Nat)) (r : Nat → Nat) (hr : ∀ e ∈ edges, r e.2 < r e.1) :
    ∀ k alive, (peelN edges k alive).length ≤ alive.length - k := by
  intro k
  induction k with
  | zero => intro alive; simp [peelN]
  | succ k ih =>
    intro alive
    simp only [peelN]
    by_cases hne : alive = []
    · subst hne
      have := ih (peel edges [])
      simp [peel] at this ⊢
      exact this
    · have h1 := peel_shrinks edges r hr alive hne
      have h2 := ih (peel edges alive)
      omega

theorem mem_allEdges {n : Nat} {g : Graph} {e : Nat × Nat} (h : e ∈ allEdges n g) : e.2 ∈ succs g e.1 := by
  unfold allEdges at h
  rcases List.mem_append.1 h with h | h
  · obtain ⟨d, hd, rfl⟩ := List.mem_map.1 h
    exact mem_succs.2 (Or.inr ⟨d, hd, rfl, rfl⟩)
  · obtain ⟨v, _, hv⟩ := List.mem_filterMap.1 h
    cases h1 : (g.node v).isService <;> cases h2 : (g.node v).host <;> simp [h1, h2] at hv
    subst hv
    exact mem_succs.2 (Or.inl ⟨h1, h2⟩)

theorem acyclicSpec_of_ranked (n : Nat) (g : Graph) (r : Nat → Nat) (hr : RankedS (succs g) r) :
    acyclicSpec n g = true := by
  unfold acyclicSpec
  have := peelN_length (allEdges n g) r (fun e he => hr e.1 e.2 (mem_allEdges he)) n (List.range n)
  simp only [List.length_range, Nat.sub_self, Nat.le_zero] at this
  simp [List.length_eq_zero_iff.1 this]

/-! ### … and conversely: when peeling empties the graph, the survival count is a ranking ≤ n -/

/-- number of peeling rounds (at most `k`) that `v` survives. -/
def survive (edges : List (Nat × Nat)) : Nat → List Nat → Nat → Nat
  | 0, _, _ => 0
  | k + 1, alive, v => if v ∈ peel edges alive then 1 + survive edges k (peel edges alive) v else 0

theorem survive_le (edges : List (Nat × Nat)) : ∀ k alive v, survive edges k alive v ≤ k := by
  intro k
  induction k with
  | zero => intro _ _; simp [survive]
  | succ k ih =>
    intro alive v
    simp only [survive]
    split
    · have := ih (peel edges alive) v; omega
    · omega

theorem mem_peel {edges : List (Nat × Nat)} {alive : List Nat} {c p : Nat}
    (he : (c, p) ∈ edges) (hc : c ∈ alive) (hp : p ∈ alive) : c ∈ peel edges alive := by
  unfold peel
  rw [List.mem_filter]
  refine ⟨hc, List.any_eq_true.2 ⟨(c, p), he, ?_⟩⟩
  simp [hp]

theorem survive_lt (edges : List (Nat × Nat)) :
    ∀ k alive, peelN edges k alive = [] → ∀ c p, (c, p) ∈ edges → c ∈ alive → p ∈ alive →
      survive edges k alive p < survive edges k alive c := by
  intro k
  induction k with
  | zero =>
    intro alive h c p _ hc _
    simp only [peelN] at h
    rw [h] at hc; cases hc
  | succ k ih =>
    intro alive h c p he hc hp
    simp only [peelN] at h
    have hc' := mem_peel he hc hp
    simp only [survive, if_pos hc']
    by_cases hp' : p ∈ peel edges alive
    · rw [if_pos hp']
      have := ih (peel edges alive) h c p he hc' hp'
      omega
    · rw [if_neg hp']; omega

/-- all edges stay inside the checkables `0 … n-1`. -/
def Closed (n : Nat) (g : Graph) : Prop :=
  (∀ d ∈ g.deps, d.child < n ∧ d.parent < n) ∧
  (∀ v h, (g.node v).isService = true → (g.node v).host = some h → v < n ∧ h < n)

theorem succs_mem_allEdges {n : Nat} {g : Graph} (hc : Closed n g) {v w : Nat} (h : w ∈ succs g v) :
    (v, w) ∈ allEdges n g ∧ v < n ∧ w < n := by
  unfold allEdges
  rcases mem_succs.1 h with ⟨h1, h2⟩ | ⟨d, hd, rfl, rfl⟩
  · obtain ⟨hv, hw⟩ := hc.2 v w h1 h2
    refine ⟨List.mem_append.2 (Or.inr (List.mem_filterMap.2 ⟨v, List.mem_range.2 hv, ?_⟩)), hv, hw⟩
    simp [h1, h2]
  · obtain ⟨h1, h2⟩ := hc.1 d hd
    exact ⟨List.mem_append.2 (Or.inl (List.mem_map.2 ⟨d, hd, rfl⟩)), h1, h2⟩

theorem ranked_of_acyclicSpec (n : Nat) (g : Graph) (hc : Closed n g) (h : acyclicSpec n g = true) :
    RankedS (succs g) (survive (allEdges n g) n (List.range n)) ∧
    ∀ v, survive (allEdges n g) n (List.range n) v ≤ n := by
  refine ⟨?_, survive_le _ n _⟩
  intro v w hw
  obtain ⟨he, hv, hwn⟩ := succs_mem_allEdges hc hw
  unfold acyclicSpec at h
  exact survive_lt _ n _ (List.isEmpty_iff.1 h) v w he (List.mem_range.2 hv) (List.mem_range.2 hwn)


/-! ### the classical step: no closed walk ⇒ peeling empties the graph (pigeonhole) -/

/-- consecutive elements are joined by edges. -/
def IsWalk (succ : Nat → List Nat) : List Nat → Prop
  | [] => True
  | [_] => True
  | u :: v :: t => v ∈ succ u ∧ IsWalk succ (v :: t)

theorem IsWalk.tail {succ : Nat → List Nat} {x : Nat} {t : List Nat} (h : IsWalk succ (x :: t)) : IsWalk succ t := by
  cases t with
  | nil => trivial
  | cons y t' => exact h.2

theorem walk_path {succ : Nat → List Nat} : ∀ (t : List Nat) (x y : Nat), IsWalk succ (x :: t) → y ∈ t → Path succ x y := by
  intro t
  induction t with
  | nil => intro x y _ hy; cases hy
  | cons z t' ih =>
    intro x y hw hy
    rcases List.mem_cons.1 hy with rfl | hy
    · exact Path.single hw.1
    · exact Path.cons hw.1 (ih z y hw.2 hy)

theorem walk_dup_cycle {succ : Nat → List Nat} : ∀ (l : List Nat), IsWalk succ l → ¬ l.Nodup → ∃ v, Path succ v v := by
  intro l
  induction l with
  | nil => intro _ h; exact absurd List.nodup_nil h
  | cons x t ih =>
    intro hw hn
    by_cases hx : x ∈ t
    · exact ⟨x, walk_path t x x hw hx⟩
    · exact ih hw.tail (fun hnd => hn (List.nodup_cons.2 ⟨hx, hnd⟩))

/-- pigeonhole: a duplicate-free list inside `A` is no longer than `A`. -/
theorem nodup_length_le : ∀ (A l : List Nat), (∀ x ∈ l, x ∈ A) → l.Nodup → l.length ≤ A.length := by
  intro A
  induction A with
  | nil =>
    intro l hs _
    cases l with
    | nil => simp
    | cons x t => exact absurd (hs x List.mem_cons_self) (by simp)
  | cons a A' ih =>
    intro l hs hnd
    by_cases ha : a ∈ l
    · have hnd' : (l.erase a).Nodup := hnd.erase a
      have hs' : ∀ x ∈ l.erase a, x ∈ A' := by
        intro x hx
        have hx' := (List.Nodup.mem_erase_iff hnd).1 hx
        rcases List.mem_cons.1 (hs x hx'.2) with e | e
        · exact absurd e hx'.1
        · exact e
      have := ih (l.erase a) hs' hnd'
      have hl := List.length_erase_of_mem ha
      have hpos : 0 < l.length := List.length_pos_of_mem ha
      simp only [List.length_cons]
      omega
    · have hs' : ∀ x ∈ l, x ∈ A' := by
        intro x hx
        rcases List.mem_cons.1 (hs x hx) with e | e
        · exact absurd (e ▸ hx) ha
        · exact e
      have := ih l hs' hnd
      simp only [List.length_cons]; omega

theorem exists_walk {succ : Nat → List Nat} (A : List Nat) (hA : ∀ v ∈ A, ∃ w ∈ succ v, w ∈ A) :
    ∀ k v, v ∈ A → ∃ l, IsWalk succ (v :: l) ∧ l.length = k ∧ ∀ x ∈ v :: l, x ∈ A := by
  intro k
  induction k with
  | zero => intro v hv; exact ⟨[], trivial, rfl, by simpa using hv⟩
  | succ k ih =>
    intro v hv
    obtain ⟨w, hw, hwA⟩ := hA v hv
    obtain ⟨l, hl, hlen, hin⟩ := ih w hwA
    refine ⟨w :: l, ⟨hw, hl⟩, by simp [hlen], ?_⟩
    intro x hx
    rcases List.mem_cons.1 hx with rfl | hx
    · exact hv
    · exact hin x hx

/-- a non-empty set in which every node has a successor contains a closed walk. -/
theorem cycle_of_closed_set {succ : Nat → List Nat} (A : List Nat) (hne : A ≠ [])
    (hA : ∀ v ∈ A, ∃ w ∈ succ v, w ∈ A) : ∃ v, Path succ v v := by
  obtain ⟨v, hv⟩ := List.exists_mem_of_ne_nil A hne
  obtain ⟨l, hw, hlen, hin⟩ := exists_walk A hA A.length v hv
  apply walk_dup_cycle (v :: l) hw
  intro hnd
  have := nodup_length_le A (v :: l) hin hnd
  simp only [List.length_cons, hlen] at this
  omega

theorem peelN_nil (edges : List (Nat × Nat)) : ∀ k, peelN edges k [] = [] := by
  intro k; induction k with
  | zero => rfl
  | succ k ih => simp only [peelN, peel, List.filter_nil]; exact ih

theorem peel_fixpoint_or_shrink (edges : List (Nat × Nat)) :
    ∀ k alive, peelN edges k alive ≠ [] →
      (∃ A, A ≠ [] ∧ peel edges A = A) ∨ (peelN edges k alive).length + k ≤ alive.length := by
  intro k
  induction k with
  | zero => intro alive _; right; simp [peelN]
  | succ k ih =>
    intro alive hne
    simp only [peelN] at hne ⊢
    rcases ih (peel edges alive) hne with h | h
    · exact Or.inl h
    · by_cases hfix : peel edges alive = alive
      · left
        refine ⟨alive, ?_, hfix⟩
        intro he
        subst he
        rw [show peel edges [] = [] from rfl, peelN_nil] at hne
        exact hne rfl
      · right
        have hle : (peel edges alive).length ≤ alive.length := List.length_filter_le _ _
        have hlt : (peel edges alive).length ≠ alive.length := by
          intro he
          apply hfix
          unfold peel at he ⊢
          exact List.filter_eq_self.2 (List.length_filter_eq_length_iff.1 he)
        omega

theorem acyclicSpec_of_no_cycle (n : Nat) (g : Graph) (h : ∀ v, ¬ Path (succs g) v v) : acyclicSpec n g = true := by
  unfold acyclicSpec
  rw [List.isEmpty_iff]
  refine Classical.byContradiction (fun hne => ?_)
  rcases peel_fixpoint_or_shrink (allEdges n g) n (List.range n) hne with ⟨A, hA, hfix⟩ | hlen
  · obtain ⟨v, hv⟩ := cycle_of_closed_set (succ := succs g) A hA (by
      intro v hv
      rw [← hfix] at hv
      unfold peel at hv
      obtain ⟨_, hany⟩ := List.mem_filter.1 hv
      obtain ⟨e, he, hp⟩ := List.any_eq_true.1 hany
      simp only [Bool.and_eq_true, beq_iff_eq, List.contains_iff_mem] at hp
      exact ⟨e.2, hp.1 ▸ mem_allEdges he, hp.2⟩)
    exact h v hv
  · simp only [List.length_range] at hlen
    have : (peelN (allEdges n g) n (List.range n)).length = 0 := by omega
    exact hne (List.length_eq_zero_iff.1 this)


theorem Closed.of_withNew {n : Nat} {g : Graph} {new : List Dep} (h : Closed n (withNew g new)) : Closed n g :=
  ⟨fun d hd => h.1 d (List.mem_append.2 (Or.inl hd)), h.2⟩

end Icinga.C07

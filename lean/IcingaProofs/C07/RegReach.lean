/-
  C07 — `IsReachable` evaluated through the registry's group objects (`reachableR`, the way the code
  walks `GetDependencyGroups()` / `GetDependenciesForChild()` / `IsRedundancyGroup()`) equals `reachable`
  on the live set, in every state satisfying the registry invariant `Inv`.
-/
import IcingaProofs.C07.Registry
import IcingaProofs.C07.Lemmas
namespace Icinga.C07

/-- the graph the configuration declares: the given checkables and the live dependencies. -/
def liveGraph (node : Nat → Node) (eff : Dep → Dep) (L : List LDep) : Graph :=
  { node := node, deps := L.map (fun x => eff x.d) }

/-- `eff` changes nothing the graph's shape depends on (child and group key). -/
def KeepsShape (eff : Dep → Dep) : Prop := ∀ d, (eff d).child = d.child ∧ (eff d).key = d.key

theorem keepsShape_id : KeepsShape id := fun _ => ⟨rfl, rfl⟩

theorem mem_groupsOf {st : RState} {v : Nat} {k : GKey} {i : Ident} :
    (k, i) ∈ groupsOf st v ↔ ((v, k), i) ∈ st.cmap := by
  simp only [groupsOf, List.mem_map, List.mem_filter, beq_iff_eq]
  constructor
  · rintro ⟨⟨⟨c, k'⟩, i'⟩, ⟨hm, hc⟩, heq⟩
    simp only [Prod.mk.injEq] at heq
    obtain ⟨rfl, rfl⟩ := heq
    simp only at hc
    subst hc
    exact hm
  · intro h
    exact ⟨((v, k), i), ⟨h, rfl⟩, rfl⟩

theorem lookup_of_mem {st : RState} {L : List LDep} (h : Inv st L) {c : Nat} {k : GKey} {i : Ident}
    (hi : ((c, k), i) ∈ st.cmap) : cmapLookup st.cmap (c, k) = some i := by
  cases hl : cmapLookup st.cmap (c, k) with
  | none => exact absurd hi (lookup_none hl i)
  | some i' => rw [key_of_entries h.keysNodup (lookup_some hl) hi]

/-- what `GetDependenciesForChild(v)` of a group object held by `v` under key `k` returns: exactly the live
    dependencies of `v` with that key. -/
theorem mem_groupDepsR {st : RState} {L : List LDep} (h : Inv st L) (node : Nat → Node) {eff : Dep → Dep}
    (he : KeepsShape eff) {v : Nat} {k : GKey} {i : Ident}
    (hi : ((v, k), i) ∈ st.cmap) (d : Dep) :
    d ∈ groupDepsR st eff v i ↔ d ∈ groupDeps (liveGraph node eff L) v k := by
  have hv : groupDepsR st eff v i = (viewDeps st v k).map (fun x => eff x.d) := by
    simp only [groupDepsR, viewDeps, lookup_of_mem h hi]
  rw [hv, viewDeps_eq_drop, mem_groupDeps]
  simp only [List.mem_map, (dropGroup_inv h v k).2.1, liveGraph]
  constructor
  · rintro ⟨x, ⟨hx, hc, hk⟩, rfl⟩
    exact ⟨⟨x, hx, rfl⟩, (he x.d).1.trans hc, (he x.d).2.trans hk⟩
  · rintro ⟨⟨x, hx, rfl⟩, hc, hk⟩
    exact ⟨x, ⟨hx, (he x.d).1.symm.trans hc, (he x.d).2.symm.trans hk⟩, rfl⟩

/-- `IsRedundancyGroup()` of the group object agrees with the kind of key the checkable stores it under
    (redundancy group names are non-empty). -/
theorem identIsRedundancy_eq {st : RState} {L : List LDep} (h : Inv st L) {v : Nat} {k : GKey} {i : Ident}
    (hi : ((v, k), i) ∈ st.cmap) : identIsRedundancy i = k.isRedundancy := by
  obtain ⟨hn, _, x, hx, _, hk⟩ := h.centry v k i hi
  unfold identIsRedundancy
  rw [hn]
  cases k with
  | parent p => simp [GKey.name, GKey.isRedundancy]
  | named n =>
    have hg := key_eq_named hk
    have hne : n ≠ "" := by
      intro he
      exact h.names x hx (by rw [hg, he])
    simp [GKey.name, GKey.isRedundancy, hne]

theorem groupState_ok_congr (reach : Nat → Bool) (avail : Dep → Bool) (red : Bool) (l1 l2 : List Dep)
    (hm : ∀ d, d ∈ l1 ↔ d ∈ l2) :
    (groupState reach avail red l1 == .ok) = (groupState reach avail red l2 == .ok) := by
  rw [Bool.eq_iff_iff]
  simp only [beq_iff_eq, groupState_ok_iff]
  cases red
  · simp only [Bool.false_eq_true, if_false]
    exact ⟨fun h d hd => h d ((hm d).2 hd), fun h d hd => h d ((hm d).1 hd)⟩
  · simp only [if_true]
    exact ⟨fun ⟨d, hd, hp⟩ => ⟨d, (hm d).1 hd, hp⟩, fun ⟨d, hd, hp⟩ => ⟨d, (hm d).2 hd, hp⟩⟩

/-- one level: the walk over the group objects is the walk over the live set's keys. -/
theorem reachStepR_eq {st : RState} {L : List LDep} (h : Inv st L) (node : Nat → Node) {eff : Dep → Dep}
    (he : KeepsShape eff) (dt : Aspect) (reach : Nat → Bool) (v : Nat) :
    reachStepR st node eff dt reach v = reachStep (liveGraph node eff L) dt reach v := by
  unfold reachStepR reachStep
  have hh : hostHardDown { node := node, deps := [] } dt v = hostHardDown (liveGraph node eff L) dt v := rfl
  have ha : available { node := node, deps := [] } dt = available (liveGraph node eff L) dt := rfl
  rw [hh, ha]
  congr 1
  rw [Bool.eq_iff_iff]
  simp only [List.all_eq_true]
  constructor
  · intro hall k hk
    obtain ⟨d, hd, hc, hkey⟩ := mem_groupKeys.1 hk
    simp only [liveGraph, List.mem_map] at hd
    obtain ⟨x, hx, rfl⟩ := hd
    obtain ⟨i, hi⟩ := h.live x hx
    rw [(he x.d).1.symm.trans hc, (he x.d).2.symm.trans hkey] at hi
    have := hall (k, i) (mem_groupsOf.2 hi)
    simp only at this
    rw [identIsRedundancy_eq h hi, groupState_ok_congr _ _ _ _ _ (mem_groupDepsR h node he hi)] at this
    exact this
  · rintro hall ⟨k, i⟩ hki
    have hi := mem_groupsOf.1 hki
    obtain ⟨_, _, x, hx, hc, hkey⟩ := h.centry v k i hi
    have hk : k ∈ groupKeys (liveGraph node eff L) v :=
      mem_groupKeys.2 ⟨eff x.d, by simp only [liveGraph, List.mem_map]; exact ⟨x, hx, rfl⟩,
        (he x.d).1.trans hc, (he x.d).2.trans hkey⟩
    have := hall k hk
    simp only
    rw [identIsRedundancy_eq h hi, groupState_ok_congr _ _ _ _ _ (mem_groupDepsR h node he hi)]
    exact this

theorem reachableR_eq {st : RState} {L : List LDep} (h : Inv st L) (node : Nat → Node) {eff : Dep → Dep}
    (he : KeepsShape eff) (dt : Aspect) :
    ∀ fuel v, reachableR st node eff dt fuel v = reachable (liveGraph node eff L) dt fuel v := by
  intro fuel
  induction fuel with
  | zero => intro v; rfl
  | succ f ih =>
    intro v
    simp only [reachableR, reachable]
    have : reachableR st node eff dt f = reachable (liveGraph node eff L) dt f := funext ih
    rw [this]
    exact reachStepR_eq h node he dt _ v

/-- `Cfg.eff` (is the dependency's period closed now) keeps child and key. -/
theorem keepsShape_cfg (c : Cfg) : KeepsShape c.eff := fun _ => ⟨rfl, rfl⟩

/-- `GetParents()` read from the group objects' key sets names exactly the parents of the live dependencies of
    the checkable: a group shared with other children never adds a foreign parent, a removal leaves no stale key. -/
theorem mem_parentsR {st : RState} {L : List LDep} (h : Inv st L) (v p : Nat) :
    p ∈ parentsR st v ↔ ∃ x ∈ L, x.d.child = v ∧ x.d.parent = p := by
  simp only [parentsR, List.mem_flatMap, List.mem_map]
  constructor
  · rintro ⟨⟨k, i⟩, hki, ck, hck, rfl⟩
    have hi := mem_groupsOf.1 hki
    obtain ⟨_, hkeys, _⟩ := h.centry v k i hi
    obtain ⟨x, hx, hc, _, hcomp⟩ := (hkeys ck).1 hck
    exact ⟨x, hx, hc, by rw [← hcomp]; rfl⟩
  · rintro ⟨x, hx, hc, hp⟩
    obtain ⟨i, hi⟩ := h.live x hx
    rw [hc] at hi
    obtain ⟨_, hkeys, _⟩ := h.centry v x.d.key i hi
    exact ⟨(x.d.key, i), mem_groupsOf.2 hi, x.d.composite, (hkeys _).2 ⟨x, hx, hc, rfl, rfl⟩, hp⟩

end Icinga.C07

/-
  C07 — helper lemmas: the fuel of `reachable` is irrelevant on ranked (acyclic, bounded-depth) graphs,
  `reachable` solves the property's equation and the solution is unique.
-/
import IcingaProofs.C07.Lemmas

namespace Icinga.C07

/-- A ranking certificate for the dependency edges: parents rank strictly below children.
    (For a finite graph: exists iff there is no dependency cycle; the rank of a checkable bounds the
    length of every dependency chain above it.) -/
def Ranked (g : Graph) (rank : Nat → Nat) : Prop := ∀ d ∈ g.deps, rank d.parent < rank d.child

theorem Ranked.noSelf {g : Graph} {rank : Nat → Nat} (h : Ranked g rank) : NoSelfDep g := by
  intro d hd he
  have := h d hd
  rw [he] at this
  exact Nat.lt_irrefl _ this

theorem reachStep_congr (g : Graph) (dt : Aspect) (R R' : Nat → Bool) (v : Nat)
    (h : ∀ d ∈ g.deps, d.child = v → R d.parent = R' d.parent) :
    reachStep g dt R v = reachStep g dt R' v := by
  unfold reachStep
  congr 1
  rw [Bool.eq_iff_iff, groups_ok_iff, groups_ok_iff]
  constructor
  · intro H d hd hc
    have := H d hd hc
    cases hg : d.group with
    | none => rw [hg] at this; simpa [← h d hd hc] using this
    | some name =>
      rw [hg] at this
      obtain ⟨d', m1, m2, m3, h1, h2⟩ := this
      exact ⟨d', m1, m2, m3, (h d' m1 m2) ▸ h1, h2⟩
  · intro H d hd hc
    have := H d hd hc
    cases hg : d.group with
    | none => rw [hg] at this; simpa [h d hd hc] using this
    | some name =>
      rw [hg] at this
      obtain ⟨d', m1, m2, m3, h1, h2⟩ := this
      exact ⟨d', m1, m2, m3, (h d' m1 m2).symm ▸ h1, h2⟩

theorem reachable_succ (g : Graph) (dt : Aspect) (f v : Nat) :
    reachable g dt (f + 1) v = reachStep g dt (reachable g dt f) v := rfl

/-- above the rank of `v` the fuel does not matter. -/
theorem reachable_fuel_indep (g : Graph) (dt : Aspect) (rank : Nat → Nat) (hr : Ranked g rank) :
    ∀ f1 f2 v, rank v < f1 → rank v < f2 → reachable g dt f1 v = reachable g dt f2 v := by
  intro f1
  induction f1 with
  | zero => intro f2 v h; exact absurd h (Nat.not_lt_zero _)
  | succ f1 ih =>
    intro f2 v h1 h2
    cases f2 with
    | zero => exact absurd h2 (Nat.not_lt_zero _)
    | succ f2 =>
      rw [reachable_succ, reachable_succ]
      apply reachStep_congr
      intro d hd hc
      have := hr d hd
      rw [hc] at this
      exact ih f2 d.parent (by omega) (by omega)

/-- on a ranked graph `isReachable` satisfies one level of the recursion with itself as the answer for
    the parents. -/
theorem isReachable_unfold (g : Graph) (dt : Aspect) (rank : Nat → Nat) (hr : Ranked g rank)
    (v : Nat) (hv : rank v ≤ 256) :
    isReachable g dt v = reachStep g dt (isReachable g dt) v := by
  show reachable g dt (256 + 1) v = reachStep g dt (reachable g dt (256 + 1)) v
  rw [reachable_succ]
  apply reachStep_congr
  intro d hd hc
  have := hr d hd
  rw [hc] at this
  exact reachable_fuel_indep g dt rank hr 256 (256 + 1) d.parent (by omega) (by omega)

theorem solution_unique (g : Graph) (dt : Aspect) (rank : Nat → Nat) (hr : Ranked g rank)
    (R : Nat → Bool) (hR : ∀ v, rank v ≤ 256 → R v = reachClause g dt R v) :
    ∀ n v, rank v < n → rank v ≤ 256 → R v = isReachable g dt v := by
  intro n
  induction n with
  | zero => intro v h; exact absurd h (Nat.not_lt_zero _)
  | succ n ih =>
    intro v hn hv
    rw [hR v hv, isReachable_unfold g dt rank hr v hv, ← reachStep_eq_clause g hr.noSelf]
    apply reachStep_congr
    intro d hd hc
    have := hr d hd
    rw [hc] at this
    exact ih d.parent (by omega) (by omega)

/-- a chain of `k` dependencies outside redundancy groups hanging above `v`. -/
inductive PlainChain (g : Graph) : Nat → Nat → Prop
  | zero (v : Nat) : PlainChain g 0 v
  | step {k : Nat} (d : Dep) : d ∈ g.deps → d.group = none → PlainChain g k d.parent → PlainChain g (k + 1) d.child

theorem reachable_false_of_chain (g : Graph) (dt : Aspect) :
    ∀ f v, PlainChain g f v → reachable g dt f v = false := by
  intro f
  induction f with
  | zero => intro v _; rfl
  | succ f ih =>
    intro v hc
    cases hc with
    | step d hd hg hp =>
      have hpar := ih d.parent hp
      rw [reachable_succ]
      cases hres : reachStep g dt (reachable g dt f) d.child with
      | false => rfl
      | true =>
        unfold reachStep at hres
        rw [Bool.and_eq_true] at hres
        have := (groups_ok_iff g _ _ _).1 hres.2 d hd rfl
        rw [hg] at this
        rw [hpar] at this
        exact absurd this.1 (by simp)

/-! ### bounding a ranking by the dependencies that exist -/

def maxChildRank (rank : Nat → Nat) : List Dep → Nat
  | [] => 0
  | d :: ds => max (rank d.child) (maxChildRank rank ds)

theorem le_maxChildRank (rank : Nat → Nat) : ∀ (ds : List Dep) d, d ∈ ds → rank d.child ≤ maxChildRank rank ds := by
  intro ds
  induction ds with
  | nil => intro d h; cases h
  | cons x xs ih =>
    intro d h
    simp only [maxChildRank]
    rcases List.mem_cons.1 h with h | h
    · subst h; exact Nat.le_max_left _ _
    · exact Nat.le_trans (ih d h) (Nat.le_max_right _ _)

/-- a ranking can be capped at the largest child rank without ceasing to be one. -/
theorem ranked_capped {g : Graph} {rank : Nat → Nat} (hr : Ranked g rank) :
    Ranked g (fun v => min (rank v) (maxChildRank rank g.deps)) := by
  intro d hd
  have h1 := hr d hd
  have h2 := le_maxChildRank rank g.deps d hd
  simp only
  omega

end Icinga.C07

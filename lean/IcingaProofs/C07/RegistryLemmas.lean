/-
  C07 — helper lemmas about the dependency-group registry (`register`, `unregister`, `membersOf`).
-/
import IcingaModel.C07.Registry
namespace Icinga.C07

theorem keyEq_iff {a b : List CKey} : keyEq a b = true ↔ ∀ k, k ∈ a ↔ k ∈ b := by
  simp only [keyEq, Bool.and_eq_true, List.all_eq_true, List.contains_iff_mem]
  constructor
  · rintro ⟨h1, h2⟩ k; exact ⟨h1 k, h2 k⟩
  · intro h; exact ⟨fun k hk => (h k).1 hk, fun k hk => (h k).2 hk⟩

theorem identEq_iff {a b : Ident} : identEq a b = true ↔ a.1 = b.1 ∧ ∀ k, k ∈ a.2 ↔ k ∈ b.2 := by
  simp [identEq, keyEq_iff]

theorem identEq_refl (a : Ident) : identEq a a = true := identEq_iff.2 ⟨rfl, fun _ => Iff.rfl⟩
theorem identEq_symm {a b : Ident} (h : identEq a b = true) : identEq b a = true := by
  rw [identEq_iff] at h ⊢; exact ⟨h.1.symm, fun k => (h.2 k).symm⟩
theorem identEq_trans {a b c : Ident} (h1 : identEq a b = true) (h2 : identEq b c = true) : identEq a c = true := by
  rw [identEq_iff] at h1 h2 ⊢; exact ⟨h1.1.trans h2.1, fun k => (h1.2 k).trans (h2.2 k)⟩

theorem identEq_comm (a b : Ident) : identEq a b = identEq b a := by
  cases h : identEq b a with
  | true => exact identEq_symm h
  | false =>
    cases h' : identEq a b with
    | false => rfl
    | true => rw [identEq_symm h'] at h; cases h

/-- equivalent identities behave alike. -/
theorem identEq_congr_right {a b : Ident} (c : Ident) (h : identEq a b = true) : identEq c a = identEq c b := by
  cases hcb : identEq c b with
  | true => exact identEq_trans hcb (identEq_symm h)
  | false =>
    cases hca : identEq c a with
    | false => rfl
    | true => rw [identEq_trans hca h] at hcb; cases hcb

def PW (reg : List Group) : Prop := reg.Pairwise (fun g h => identEq g.ident h.ident = false)

/-! ### register -/

theorem register_forall (P : Group → Prop) : ∀ (reg : List Group) (G : Group), (∀ g ∈ reg, P g) → P G →
    (∀ h ∈ reg, P { h with members := h.members ++ G.members }) → ∀ g' ∈ (register reg G).1, P g' := by
  intro reg
  induction reg with
  | nil => intro G _ hG _ g' hg'; simp [register] at hg'; subst hg'; exact hG
  | cons h t ih =>
    intro G hall hG hm g' hg'
    simp only [register] at hg'
    split at hg'
    · rcases List.mem_cons.1 hg' with rfl | hin
      · exact hm h List.mem_cons_self
      · exact hall g' (List.mem_cons_of_mem _ hin)
    · rcases List.mem_cons.1 hg' with rfl | hin
      · exact hall _ List.mem_cons_self
      · exact ih G (fun g hg => hall g (List.mem_cons_of_mem _ hg)) hG
          (fun x hx => hm x (List.mem_cons_of_mem _ hx)) g' hin

theorem register_PW : ∀ (reg : List Group) (G : Group), PW reg → PW (register reg G).1 := by
  intro reg
  induction reg with
  | nil => intro G _; simp [register, PW]
  | cons h t ih =>
    intro G hp
    unfold PW at hp
    rw [List.pairwise_cons] at hp
    simp only [register]
    split
    · unfold PW; rw [List.pairwise_cons]; exact hp
    · rename_i hne
      unfold PW; rw [List.pairwise_cons]
      refine ⟨?_, ih G hp.2⟩
      apply register_forall (fun g' => identEq h.ident g'.ident = false) t G hp.1
      · simpa using hne
      · intro x hx; exact hp.1 x hx

theorem register_ident (reg : List Group) (G : Group) : identEq (register reg G).2 G.ident = true := by
  induction reg with
  | nil => exact identEq_refl _
  | cons h t ih =>
    simp only [register]
    split
    · assumption
    · exact ih

theorem membersOf_register : ∀ (reg : List Group) (G : Group) (i : Ident),
    membersOf (register reg G).1 i =
      if identEq G.ident i then membersOf reg i ++ G.members else membersOf reg i := by
  intro reg
  induction reg with
  | nil => intro G i; simp only [register, membersOf]; split <;> simp
  | cons h t ih =>
    intro G i
    simp only [register]
    by_cases h1 : identEq h.ident G.ident = true
    · rw [if_pos h1]
      simp only [membersOf]
      by_cases h2 : identEq h.ident i = true
      · have : identEq G.ident i = true := identEq_trans (identEq_symm h1) h2
        simp [h2, this]
      · have h2' : identEq h.ident i = false := by simpa using h2
        have : identEq G.ident i = false := by
          cases hx : identEq G.ident i with
          | false => rfl
          | true => rw [identEq_trans h1 hx] at h2'; cases h2'
        simp [h2', this]
    · rw [if_neg h1]
      simp only [membersOf]
      by_cases h2 : identEq h.ident i = true
      · have h1' : identEq h.ident G.ident = false := by simpa using h1
        have : identEq G.ident i = false := by
          cases hx : identEq G.ident i with
          | false => rfl
          | true => rw [identEq_trans h2 (identEq_symm hx)] at h1'; cases h1'
        simp [h2, this]
      · have h2' : identEq h.ident i = false := by simpa using h2
        simp only [h2', Bool.false_eq_true, if_false]
        exact ih G i

/-! ### unregister -/

theorem membersOf_none : ∀ (reg : List Group) (i : Ident), (∀ g ∈ reg, identEq g.ident i = false) → membersOf reg i = [] := by
  intro reg
  induction reg with
  | nil => intro _ _; rfl
  | cons h t ih =>
    intro i hf
    simp only [membersOf, hf h List.mem_cons_self, Bool.false_eq_true, if_false]
    exact ih i (fun g hg => hf g (List.mem_cons_of_mem _ hg))

theorem unregister_forall (P : Group → Prop) (c : Nat) : ∀ (reg : List Group) (i : Ident), (∀ g ∈ reg, P g) →
    (∀ h ∈ reg, h.members.filter (fun x => !(x.d.child == c)) ≠ [] →
      P { h with members := h.members.filter (fun x => !(x.d.child == c)) }) →
    ∀ g' ∈ (unregister reg i c).1, P g' := by
  intro reg
  induction reg with
  | nil => intro i _ _ g' hg'; simp [unregister] at hg'
  | cons h t ih =>
    intro i hall hm g' hg'
    simp only [unregister] at hg'
    split at hg'
    · split at hg'
      · exact hall g' (List.mem_cons_of_mem _ hg')
      · rename_i hne
        rcases List.mem_cons.1 hg' with rfl | hin
        · exact hm h List.mem_cons_self (by simpa [List.isEmpty_iff] using hne)
        · exact hall g' (List.mem_cons_of_mem _ hin)
    · rcases List.mem_cons.1 hg' with rfl | hin
      · exact hall _ List.mem_cons_self
      · exact ih i (fun g hg => hall g (List.mem_cons_of_mem _ hg))
          (fun x hx => hm x (List.mem_cons_of_mem _ hx)) g' hin

theorem unregister_PW (c : Nat) : ∀ (reg : List Group) (i : Ident), PW reg → PW (unregister reg i c).1 := by
  intro reg
  induction reg with
  | nil => intro i _; simp [unregister, PW]
  | cons h t ih =>
    intro i hp
    unfold PW at hp
    rw [List.pairwise_cons] at hp
    simp only [unregister]
    split
    · split
      · exact hp.2
      · unfold PW; rw [List.pairwise_cons]; exact hp
    · unfold PW; rw [List.pairwise_cons]
      refine ⟨?_, ih i hp.2⟩
      exact unregister_forall (fun g' => identEq h.ident g'.ident = false) c t i hp.1 (fun x hx _ => hp.1 x hx)

theorem unregister_snd (c : Nat) : ∀ (reg : List Group) (i : Ident),
    (unregister reg i c).2 = (membersOf reg i).filter (fun x => x.d.child == c) := by
  intro reg
  induction reg with
  | nil => intro i; rfl
  | cons h t ih =>
    intro i
    simp only [unregister, membersOf]
    split
    · rfl
    · exact ih i

theorem membersOf_unregister (c : Nat) : ∀ (reg : List Group) (i0 i : Ident), PW reg →
    membersOf (unregister reg i0 c).1 i =
      if identEq i0 i then (membersOf reg i).filter (fun x => !(x.d.child == c)) else membersOf reg i := by
  intro reg
  induction reg with
  | nil => intro i0 i _; simp [unregister, membersOf]
  | cons h t ih =>
    intro i0 i hp
    unfold PW at hp
    rw [List.pairwise_cons] at hp
    simp only [unregister]
    by_cases h1 : identEq h.ident i0 = true
    · rw [if_pos h1]
      by_cases h2 : identEq h.ident i = true
      · have h3 : identEq i0 i = true := identEq_trans (identEq_symm h1) h2
        simp only [h3, if_true, membersOf, h2]
        split
        · rename_i hemp
          rw [List.isEmpty_iff] at hemp
          rw [hemp]
          apply membersOf_none
          intro g hg
          have := hp.1 g hg
          cases hx : identEq g.ident i with
          | false => rfl
          | true => rw [identEq_trans h2 (identEq_symm hx)] at this; cases this
        · simp [membersOf, h2]
      · have h2' : identEq h.ident i = false := by simpa using h2
        have h3 : identEq i0 i = false := by
          cases hx : identEq i0 i with
          | false => rfl
          | true => rw [identEq_trans h1 hx] at h2'; cases h2'
        simp only [h3, Bool.false_eq_true, if_false, membersOf, h2']
        split
        · rfl
        · simp [membersOf, h2']
    · rw [if_neg h1]
      simp only [membersOf]
      by_cases h2 : identEq h.ident i = true
      · have h1' : identEq h.ident i0 = false := by simpa using h1
        have h3 : identEq i0 i = false := by
          cases hx : identEq i0 i with
          | false => rfl
          | true => rw [identEq_trans h2 (identEq_symm hx)] at h1'; cases h1'
        simp [h2, h3]
      · have h2' : identEq h.ident i = false := by simpa using h2
        simp only [h2', Bool.false_eq_true, if_false]
        exact ih i0 i hp.2

end Icinga.C07

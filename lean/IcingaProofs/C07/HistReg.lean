/-
  C07 — the history model composed with the registry model: the registry is driven by the same operations
  (accepted batches through `addDep`, removals through `removeDep`), and every query of the history is answered by
  the walk over the registry's group objects.
-/
import IcingaProofs.C07.History
import IcingaProofs.C07.RegReach
namespace Icinga.C07

/-- the `Dependency` object of a live entry. -/
def ldepOf (x : Nat × Dep) : LDep := { id := x.1, d := x.2 }

/-- the registry side of one history step (`Dependency::OnAllConfigLoaded` → `AddDependency` for every dependency of an
    accepted batch, `Dependency::Stop` → `RemoveDependency`). -/
def rstep (n : Nat) (hs : HState) (rst : RState) : HOp → RState
  | .load batch =>
    if (runtimeAdd hs.cfg.graph (batch.map (·.2)) n).2 then batch.foldl (fun s x => addDep s (ldepOf x)) rst else rst
  | .remove id => (hs.cfg.live.filter (fun x => x.1 == id)).foldl (fun s x => removeDep s (ldepOf x)) rst
  | _ => rst

/-- well-formed input: a batch brings new objects (ids not live, pairwise different) and non-empty group names. -/
def OpFresh (hs : HState) : HOp → Prop
  | .load batch => (batch.map (·.1)).Nodup ∧ (∀ x ∈ batch, x.1 ∉ hs.cfg.live.map (·.1)) ∧ ∀ x ∈ batch, x.2.group ≠ some ""
  | _ => True

def FreshRun (n : Nat) : HState → List HOp → Prop
  | _, [] => True
  | hs, op :: ops => OpFresh hs op ∧ FreshRun n (hstep n hs op).1 ops

/-- history state and registry state run side by side. -/
def hrunR (n : Nat) : HState → RState → List HOp → HState × RState
  | hs, rst, [] => (hs, rst)
  | hs, rst, op :: ops => hrunR n (hstep n hs op).1 (rstep n hs rst op) ops

structure J (hs : HState) (rst : RState) : Prop where
  inv : Inv rst (hs.cfg.live.map ldepOf)
  ids : (hs.cfg.live.map (·.1)).Nodup

theorem ldepOf_inj_of_id {x y : Nat × Dep} (h : ldepOf x = ldepOf y) : x = y := by
  cases x; cases y; simp only [ldepOf, LDep.mk.injEq] at h; obtain ⟨rfl, rfl⟩ := h; rfl

theorem addAll_inv : ∀ (xs : List (Nat × Dep)) (st : RState) (L : List LDep), Inv st L →
    (∀ x ∈ xs, x.2.group ≠ some "") → (∀ x ∈ xs, ldepOf x ∉ L) → (xs.map ldepOf).Nodup →
    Inv (xs.foldl (fun s x => addDep s (ldepOf x)) st) (L ++ xs.map ldepOf) := by
  intro xs
  induction xs with
  | nil => intro st L h _ _ _; simpa using h
  | cons x xs ih =>
    intro st L h hn hf hnd
    simp only [List.foldl_cons, List.map_cons]
    have h1 := addDep_inv h (ldepOf x) (hn x List.mem_cons_self)
    have hc : L.contains (ldepOf x) = false := by
      cases hcc : L.contains (ldepOf x) with
      | false => rfl
      | true => exact absurd (List.contains_iff_mem.1 hcc) (hf x List.mem_cons_self)
    simp only [liveAfter, hc] at h1
    simp only [List.map_cons, List.nodup_cons] at hnd
    have := ih (addDep st (ldepOf x)) (L ++ [ldepOf x]) h1 (fun y hy => hn y (List.mem_cons_of_mem _ hy))
      (by
        intro y hy hmem
        rcases List.mem_append.1 hmem with hm | hm
        · exact hf y (List.mem_cons_of_mem _ hy) hm
        · simp only [List.mem_singleton] at hm
          exact hnd.1 (hm ▸ List.mem_map_of_mem hy))
      hnd.2
    simpa [List.append_assoc] using this

theorem removeAll_inv : ∀ (xs : List LDep) (st : RState) (L : List LDep), Inv st L →
    Inv (xs.foldl removeDep st) (L.filter (fun y => !xs.contains y)) := by
  intro xs
  induction xs with
  | nil =>
    intro st L h
    have : L.filter (fun y => !([] : List LDep).contains y) = L := by simp
    rw [this]; exact h
  | cons x xs ih =>
    intro st L h
    simp only [List.foldl_cons]
    have h1 := removeDep_inv h x
    simp only [liveAfter] at h1
    have := ih (removeDep st x) _ h1
    refine this.congr (h.lnodup.filter _) (fun y => ?_)
    simp only [List.mem_filter, List.contains_cons, Bool.not_or, Bool.and_eq_true, Bool.not_eq_eq_eq_not,
      Bool.not_true, beq_eq_false_iff_ne, ne_eq]
    constructor
    · rintro ⟨⟨h1, h2⟩, h3⟩; exact ⟨h1, h2, h3⟩
    · rintro ⟨h1, h2, h3⟩; exact ⟨⟨h1, h2⟩, h3⟩

theorem live_graph_eq (c : Cfg) : liveGraph c.node c.eff (c.live.map ldepOf) = c.graph := by
  simp only [liveGraph, Cfg.graph, List.map_map]
  rfl

/-- in every state of the side-by-side run, the walk over the registry's group objects answers every query exactly
    as the history model does. -/
theorem query_via_registry {hs : HState} {rst : RState} (h : J hs rst) (dt : Aspect) (v : Nat) :
    isReachableR rst hs.cfg.node hs.cfg.eff dt v = isReachable hs.cfg.graph dt v := by
  unfold isReachableR isReachable
  rw [reachableR_eq h.inv hs.cfg.node (keepsShape_cfg hs.cfg) dt topFuel v, live_graph_eq]

theorem contains_false_iff {l : List LDep} {a : LDep} : l.contains a = false ↔ a ∉ l := by
  rw [← Bool.not_eq_true, List.contains_iff_mem]

theorem nodup_map_ldepOf : ∀ (l : List (Nat × Dep)), (l.map (·.1)).Nodup → (l.map ldepOf).Nodup := by
  intro l
  induction l with
  | nil => intro _; exact List.nodup_nil
  | cons x xs ih =>
    intro h
    simp only [List.map_cons, List.nodup_cons] at h ⊢
    refine ⟨?_, ih h.2⟩
    intro hmem
    obtain ⟨y, hy, hyx⟩ := List.mem_map.1 hmem
    have := ldepOf_inj_of_id hyx
    subst this
    exact h.1 (List.mem_map_of_mem hy)

theorem j_step (n : Nat) {hs : HState} {rst : RState} (h : J hs rst) (op : HOp) (hf : OpFresh hs op) :
    J (hstep n hs op).1 (rstep n hs rst op) := by
  cases op with
  | load batch =>
    obtain ⟨hnd, hnew, hnames⟩ := hf
    simp only [hstep, rstep]
    cases hacc : (runtimeAdd hs.cfg.graph (batch.map (·.2)) n).2 with
    | false => simpa using h
    | true =>
      simp only [if_true, Cfg.next]
      constructor
      · simp only [List.map_append]
        apply addAll_inv batch rst _ h.inv hnames
        · intro x hx hmem
          obtain ⟨y, hy, hyx⟩ := List.mem_map.1 hmem
          have := ldepOf_inj_of_id hyx
          subst this
          exact hnew y hx (List.mem_map_of_mem hy)
        · exact nodup_map_ldepOf batch hnd
      · simp only [List.map_append]
        rw [List.nodup_append]
        refine ⟨h.ids, hnd, ?_⟩
        intro a ha b hb hab
        obtain ⟨x, hx, rfl⟩ := List.mem_map.1 hb
        exact hnew x hx (hab ▸ ha)
  | remove id =>
    simp only [hstep, rstep, Cfg.next]
    have hsub : ((hs.cfg.live.filter (fun x => x.1 != id)).map (·.1)).Nodup :=
      (List.filter_sublist.map _).nodup h.ids
    refine ⟨?_, hsub⟩
    have h1 := removeAll_inv ((hs.cfg.live.filter (fun x => x.1 == id)).map ldepOf) rst _ h.inv
    rw [List.foldl_map] at h1
    refine h1.congr (nodup_map_ldepOf _ hsub) (fun y => ?_)
    simp only [List.mem_filter, Bool.not_eq_true', contains_false_iff]
    simp only [List.mem_map, List.mem_filter, bne_iff_ne, ne_eq, beq_iff_eq]
    constructor
    · rintro ⟨⟨x, hx, rfl⟩, hnot⟩
      refine ⟨x, ⟨hx, ?_⟩, rfl⟩
      intro hid
      exact hnot ⟨x, ⟨hx, hid⟩, rfl⟩
    · rintro ⟨x, ⟨hx, hid⟩, rfl⟩
      refine ⟨⟨x, hx, rfl⟩, ?_⟩
      rintro ⟨x', ⟨_, hid'⟩, heq⟩
      have := ldepOf_inj_of_id heq
      subst this
      exact hid hid'
  | setState v ck r hd => exact ⟨h.inv, h.ids⟩
  | setPeriod p cl => exact ⟨h.inv, h.ids⟩
  | query => exact ⟨h.inv, h.ids⟩
  | edges => exact ⟨h.inv, h.ids⟩

/-- the invariant holds along every well-formed history. -/
theorem j_run (n : Nat) : ∀ (ops : List HOp) (hs : HState) (rst : RState), J hs rst → FreshRun n hs ops →
    J (hrunR n hs rst ops).1 (hrunR n hs rst ops).2 := by
  intro ops
  induction ops with
  | nil => intro hs rst h _; exact h
  | cons op ops ih =>
    intro hs rst h hf
    simp only [hrunR]
    exact ih _ _ (j_step n h op hf.1) hf.2

theorem j_init (node : Nat → Node) : J ({ cfg := { node := node } } : HState) {} :=
  ⟨inv_empty, List.nodup_nil⟩

theorem hrunR_fst (n : Nat) : ∀ (ops : List HOp) (hs : HState) (rst : RState),
    (hrunR n hs rst ops).1 = ops.foldl (fun hs op => (hstep n hs op).1) hs := by
  intro ops
  induction ops with
  | nil => intro hs rst; rfl
  | cons op ops ih => intro hs rst; simp only [hrunR, List.foldl_cons]; exact ih _ _

end Icinga.C07

/-
  C07 — the registry invariant: after any sequence of runtime additions/removals, and after a fresh
  load, registry and per-checkable maps describe exactly the live set.
-/
import IcingaProofs.C07.RegistryLemmas
namespace Icinga.C07

/-- The registry and the checkables' maps describe exactly the live set `L`. -/
structure Inv (st : RState) (L : List LDep) : Prop where
  lnodup : L.Nodup
  names : ∀ x ∈ L, x.d.group ≠ some ""
  keysNodup : (st.cmap.map (·.1)).Nodup
  pw : PW st.registry
  nonempty : ∀ g ∈ st.registry, g.members ≠ []
  memNodup : ∀ i, (membersOf st.registry i).Nodup
  mem : ∀ i x, x ∈ membersOf st.registry i ↔
    x ∈ L ∧ ∃ i', ((x.d.child, x.d.key), i') ∈ st.cmap ∧ identEq i' i = true
  centry : ∀ c k i, ((c, k), i) ∈ st.cmap →
    i.1 = k.name ∧ (∀ ck, ck ∈ i.2 ↔ ∃ x ∈ L, x.d.child = c ∧ x.d.key = k ∧ x.d.composite = ck) ∧
    (∃ x ∈ L, x.d.child = c ∧ x.d.key = k)
  live : ∀ x ∈ L, ∃ i, ((x.d.child, x.d.key), i) ∈ st.cmap

theorem Inv.congr {st : RState} {L L' : List LDep} (h : Inv st L) (hn : L'.Nodup) (he : ∀ x, x ∈ L ↔ x ∈ L') :
    Inv st L' where
  lnodup := hn
  names := fun x hx => h.names x ((he x).2 hx)
  keysNodup := h.keysNodup
  pw := h.pw
  nonempty := h.nonempty
  memNodup := h.memNodup
  mem := fun i x => by rw [h.mem i x, he x]
  centry := fun c k i hi => by
    obtain ⟨h1, h2, x, hx, h3⟩ := h.centry c k i hi
    refine ⟨h1, ?_, x, (he x).1 hx, h3⟩
    intro ck
    rw [h2 ck]
    constructor
    · rintro ⟨y, hy, r⟩; exact ⟨y, (he y).1 hy, r⟩
    · rintro ⟨y, hy, r⟩; exact ⟨y, (he y).2 hy, r⟩
  live := fun x hx => h.live x ((he x).2 hx)

theorem key_of_entries {cmap : List ((Nat × GKey) × Ident)} (hn : (cmap.map (·.1)).Nodup) {ck : Nat × GKey} {i i' : Ident}
    (h1 : (ck, i) ∈ cmap) (h2 : (ck, i') ∈ cmap) : i = i' := by
  induction cmap with
  | nil => cases h1
  | cons e t ih =>
    rw [List.map_cons, List.nodup_cons] at hn
    rcases List.mem_cons.1 h1 with e1 | m1
    · rcases List.mem_cons.1 h2 with e2 | m2
      · rw [← e1] at e2; cases e2; rfl
      · subst e1; exact absurd (show ck ∈ t.map (·.1) from List.mem_map.2 ⟨(ck, i'), m2, rfl⟩) hn.1
    · rcases List.mem_cons.1 h2 with e2 | m2
      · subst e2; exact absurd (show ck ∈ t.map (·.1) from List.mem_map.2 ⟨(ck, i), m1, rfl⟩) hn.1
      · exact ih hn.2 m1 m2

theorem addGroup_inv {st : RState} {L : List LDep} (h : Inv st L) (c : Nat) (k : GKey) (D : List LDep)
    (hne : D ≠ []) (hnd : D.Nodup)
    (hD : ∀ x ∈ D, x.d.child = c ∧ x.d.key = k ∧ x ∉ L ∧ x.d.group ≠ some "")
    (hno : ∀ x ∈ L, ¬ (x.d.child = c ∧ x.d.key = k)) :
    Inv (addGroup st c k D) (L ++ D) := by
  have hfresh : ∀ i, ((c, k), i) ∉ st.cmap := by
    intro i hi
    obtain ⟨_, _, x, hx, hc⟩ := h.centry c k i hi
    exact hno x hx hc
  have hi2 := register_ident st.registry (newGroup k D)
  have hmo := membersOf_register st.registry (newGroup k D)
  refine ⟨?_, ?_, ?_, ?_, ?_, ?_, ?_, ?_, ?_⟩
  · rw [List.nodup_append]
    exact ⟨h.lnodup, hnd, fun a ha b hb e => (hD b hb).2.2.1 (e ▸ ha)⟩
  · intro x hx
    rcases List.mem_append.1 hx with hx | hx
    · exact h.names x hx
    · exact (hD x hx).2.2.2
  · simp only [addGroup, List.map_cons, List.nodup_cons]
    refine ⟨?_, h.keysNodup⟩
    intro hin
    obtain ⟨e, he, hk⟩ := List.mem_map.1 hin
    exact hfresh e.2 (by rw [← hk]; exact he)
  · exact register_PW _ _ h.pw
  · apply register_forall (fun g => g.members ≠ []) _ _ h.nonempty
    · exact hne
    · intro g hg; simp only [newGroup]; intro he
      exact h.nonempty g hg (List.append_eq_nil_iff.1 he).1
  · intro i
    show (membersOf (register st.registry (newGroup k D)).1 i).Nodup
    rw [hmo i]
    split
    · rw [List.nodup_append]
      refine ⟨h.memNodup i, hnd, ?_⟩
      intro a ha b hb e
      exact (hD b hb).2.2.1 (e ▸ ((h.mem i a).1 ha).1)
    · exact h.memNodup i
  · intro i x
    show x ∈ membersOf (register st.registry (newGroup k D)).1 i ↔ _
    rw [hmo i]
    simp only [addGroup, List.mem_cons, List.mem_append]
    constructor
    · intro hx
      have hcase : x ∈ membersOf st.registry i ∨ (identEq (newGroup k D).ident i = true ∧ x ∈ D) := by
        split at hx
        · rename_i he
          rcases List.mem_append.1 hx with hx | hx
          · exact Or.inl hx
          · exact Or.inr ⟨he, hx⟩
        · exact Or.inl hx
      rcases hcase with hx | ⟨he, hx⟩
      · obtain ⟨h1, i', h2, h3⟩ := (h.mem i x).1 hx
        exact ⟨Or.inl h1, i', Or.inr h2, h3⟩
      · obtain ⟨e1, e2, _, _⟩ := hD x hx
        exact ⟨Or.inr hx, _, Or.inl (by rw [e1, e2]), identEq_trans hi2 he⟩
    · rintro ⟨hxl, i', hent, hie⟩
      rcases hxl with hxl | hxd
      · -- x ∈ L: its entry is an old one
        rcases hent with hent | hent
        · have : x.d.child = c ∧ x.d.key = k := by
            have := congrArg Prod.fst hent
            simp only [Prod.mk.injEq] at this
            exact this
          exact absurd this (hno x hxl)
        · have : x ∈ membersOf st.registry i := (h.mem i x).2 ⟨hxl, i', hent, hie⟩
          split
          · exact List.mem_append.2 (Or.inl this)
          · exact this
      · obtain ⟨e1, e2, _, _⟩ := hD x hxd
        rcases hent with hent | hent
        · have hi' : i' = (register st.registry (newGroup k D)).2 := by
            have := congrArg Prod.snd hent
            exact this
          have he : identEq (newGroup k D).ident i = true :=
            identEq_trans (identEq_symm hi2) (hi' ▸ hie)
          rw [if_pos he]
          exact List.mem_append.2 (Or.inr hxd)
        · rw [e1, e2] at hent
          exact absurd hent (hfresh i')
  · intro c' k' i hi
    simp only [addGroup, List.mem_cons] at hi
    rcases hi with hi | hi
    · simp only [Prod.mk.injEq] at hi
      obtain ⟨⟨rfl, rfl⟩, rfl⟩ := hi
      have hid := identEq_iff.1 hi2
      refine ⟨hid.1, ?_, ?_⟩
      · intro ck
        rw [hid.2 ck]
        simp only [newGroup, List.mem_map, List.mem_append]
        constructor
        · rintro ⟨x, hx, rfl⟩
          exact ⟨x, Or.inr hx, (hD x hx).1, (hD x hx).2.1, rfl⟩
        · rintro ⟨x, hx | hx, h1, h2, h3⟩
          · exact absurd ⟨h1, h2⟩ (hno x hx)
          · exact ⟨x, hx, h3⟩
      · obtain ⟨x, hx⟩ := List.exists_mem_of_ne_nil D hne
        exact ⟨x, List.mem_append.2 (Or.inr hx), (hD x hx).1, (hD x hx).2.1⟩
    · obtain ⟨h1, h2, x, hx, h3⟩ := h.centry c' k' i hi
      refine ⟨h1, ?_, x, List.mem_append.2 (Or.inl hx), h3⟩
      intro ck
      rw [h2 ck]
      constructor
      · rintro ⟨y, hy, r⟩; exact ⟨y, List.mem_append.2 (Or.inl hy), r⟩
      · rintro ⟨y, hy, r1, r2, r3⟩
        rcases List.mem_append.1 hy with hy | hy
        · exact ⟨y, hy, r1, r2, r3⟩
        · exfalso
          have := hD y hy
          rw [r1, r2] at this
          rw [← this.1, ← this.2.1] at hfresh
          exact hfresh i hi
  · intro x hx
    simp only [addGroup, List.mem_cons]
    rcases List.mem_append.1 hx with hx | hx
    · obtain ⟨i, hi⟩ := h.live x hx
      exact ⟨i, Or.inr hi⟩
    · exact ⟨_, Or.inl (by rw [(hD x hx).1, (hD x hx).2.1])⟩

theorem lookup_none {cmap : List ((Nat × GKey) × Ident)} {ck : Nat × GKey} (h : cmapLookup cmap ck = none) :
    ∀ i, (ck, i) ∉ cmap := by
  intro i hi
  simp only [cmapLookup, Option.map_eq_none_iff, List.find?_eq_none] at h
  exact h _ hi (by simp)

theorem lookup_some {cmap : List ((Nat × GKey) × Ident)} {ck : Nat × GKey} {i : Ident} (h : cmapLookup cmap ck = some i) :
    (ck, i) ∈ cmap := by
  simp only [cmapLookup, Option.map_eq_some_iff] at h
  obtain ⟨e, he, rfl⟩ := h
  have h1 := List.mem_of_find?_eq_some he
  have h2 := List.find?_some he
  simp only [beq_iff_eq] at h2
  rw [← h2]; exact h1

theorem mem_cmapErase {cmap : List ((Nat × GKey) × Ident)} {ck : Nat × GKey} {e : (Nat × GKey) × Ident} :
    e ∈ cmapErase cmap ck ↔ e ∈ cmap ∧ e.1 ≠ ck := by
  simp [cmapErase, List.mem_filter]

theorem key_parent_of_none {d : Dep} {p : Nat} (h : d.key = .parent p) : d.parent = p := by
  unfold Dep.key at h
  cases hg : d.group <;> simp_all

theorem key_unique {st : RState} {L : List LDep} (h : Inv st L) {c : Nat} {k k' : GKey} {i i' : Ident}
    (h1 : ((c, k), i) ∈ st.cmap) (h2 : ((c, k'), i') ∈ st.cmap) (he : identEq i' i = true) : k' = k := by
  obtain ⟨n1, s1, x, hx, xc, xk⟩ := h.centry c k i h1
  obtain ⟨n2, s2, y, hy, yc, yk⟩ := h.centry c k' i' h2
  have hid := identEq_iff.1 he
  have hname : k'.name = k.name := by rw [← n1, ← n2]; exact hid.1
  cases k with
  | named n =>
    cases k' with
    | named n' => simp only [GKey.name] at hname; rw [hname]
    | parent p' =>
      exfalso
      simp only [GKey.name] at hname
      have := h.names x hx
      unfold Dep.key at xk
      cases hg : x.d.group with
      | none => simp [hg] at xk
      | some m => simp [hg] at xk; rw [hg, xk, ← hname] at this; exact this rfl
  | parent p =>
    cases k' with
    | named n' =>
      exfalso
      simp only [GKey.name] at hname
      have := h.names y hy
      unfold Dep.key at yk
      cases hg : y.d.group with
      | none => simp [hg] at yk
      | some m => simp [hg] at yk; rw [hg, yk, hname] at this; exact this rfl
    | parent p' =>
      -- a composite key of y's group lies in i, hence belongs to some dependency under key `parent p`
      have hy2 : y.d.composite ∈ i'.2 := (s2 _).2 ⟨y, hy, yc, yk, rfl⟩
      obtain ⟨z, _, _, zk, zcomp⟩ := (s1 _).1 ((hid.2 _).1 hy2)
      have e1 : z.d.parent = p := key_parent_of_none zk
      have e2 : y.d.parent = p' := key_parent_of_none yk
      have e3 : z.d.parent = y.d.parent := congrArg Prod.fst zcomp
      rw [← e1, ← e2, e3]

/-- the live set without the dependencies of child `c` under key `k`. -/
def without (L : List LDep) (c : Nat) (k : GKey) : List LDep :=
  L.filter (fun x => !(x.d.child == c && x.d.key == k))

theorem mem_without {L : List LDep} {c : Nat} {k : GKey} {x : LDep} :
    x ∈ without L c k ↔ x ∈ L ∧ ¬ (x.d.child = c ∧ x.d.key = k) := by
  simp only [without, List.mem_filter, Bool.not_eq_true', Bool.and_eq_false_iff, beq_eq_false_iff_ne, ne_eq, not_and]
  constructor
  · rintro ⟨h1, h2⟩; exact ⟨h1, fun hc hk => by rcases h2 with h2 | h2; exact h2 hc; exact h2 hk⟩
  · rintro ⟨h1, h2⟩; refine ⟨h1, ?_⟩; by_cases hc : x.d.child = c; exact Or.inr (h2 hc); exact Or.inl hc

theorem dropGroup_inv {st : RState} {L : List LDep} (h : Inv st L) (c : Nat) (k : GKey) :
    Inv (dropGroup st c k).1 (without L c k) ∧
    (∀ x, x ∈ (dropGroup st c k).2 ↔ x ∈ L ∧ x.d.child = c ∧ x.d.key = k) ∧
    (dropGroup st c k).2.Nodup := by
  unfold dropGroup
  cases hl : cmapLookup st.cmap (c, k) with
  | none =>
    have hnone := lookup_none hl
    have hno : ∀ x ∈ L, ¬ (x.d.child = c ∧ x.d.key = k) := by
      intro x hx ⟨e1, e2⟩
      obtain ⟨i, hi⟩ := h.live x hx
      rw [e1, e2] at hi
      exact hnone i hi
    refine ⟨?_, ?_, List.nodup_nil⟩
    · apply h.congr (show (without L c k).Nodup from h.lnodup.filter _)
      intro x
      rw [mem_without]
      exact ⟨fun hx => ⟨hx, hno x hx⟩, fun hx => hx.1⟩
    · intro x
      simp only [List.not_mem_nil, false_iff]
      rintro ⟨hx, hc⟩
      exact hno x hx hc
  | some i0 =>
    have hent := lookup_some hl
    have hmo := fun i => membersOf_unregister c st.registry i0 i h.pw
    have hsnd := unregister_snd c st.registry i0
    simp only
    have hsndmem : ∀ x, x ∈ (unregister st.registry i0 c).2 ↔ x ∈ L ∧ x.d.child = c ∧ x.d.key = k := by
      intro x
      rw [hsnd, List.mem_filter, h.mem i0 x]
      simp only [beq_iff_eq]
      constructor
      · rintro ⟨⟨hx, i', hi', hie⟩, hc⟩
        rw [hc] at hi'
        exact ⟨hx, hc, key_unique h hent hi' hie⟩
      · rintro ⟨hx, hc, hk⟩
        exact ⟨⟨hx, i0, by rw [hc, hk]; exact hent, identEq_refl _⟩, hc⟩
    refine ⟨⟨?_, ?_, ?_, ?_, ?_, ?_, ?_, ?_, ?_⟩, hsndmem, ?_⟩
    · exact h.lnodup.filter _
    · intro x hx; exact h.names x (mem_without.1 hx).1
    · have : ((cmapErase st.cmap (c, k)).map (·.1)).Sublist (st.cmap.map (·.1)) :=
        List.Sublist.map _ List.filter_sublist
      exact List.Nodup.sublist this h.keysNodup
    · exact unregister_PW c _ _ h.pw
    · apply unregister_forall (fun g => g.members ≠ []) c _ _ h.nonempty
      intro g _ hg; exact hg
    · intro i
      show (membersOf (unregister st.registry i0 c).1 i).Nodup
      rw [hmo i]
      split
      · exact (h.memNodup i).filter _
      · exact h.memNodup i
    · intro i x
      show x ∈ membersOf (unregister st.registry i0 c).1 i ↔ _
      rw [hmo i, mem_without]
      by_cases hi : identEq i0 i = true
      · rw [if_pos hi, List.mem_filter, h.mem i x]
        simp only [Bool.not_eq_true', beq_eq_false_iff_ne, ne_eq]
        constructor
        · rintro ⟨⟨hx, i', hi', hie⟩, hc⟩
          exact ⟨⟨hx, fun hh => hc hh.1⟩, i', mem_cmapErase.2 ⟨hi', fun e => hc (congrArg Prod.fst e)⟩, hie⟩
        · rintro ⟨⟨hx, hnck⟩, i', hi', hie⟩
          have hi'' := (mem_cmapErase.1 hi').1
          refine ⟨⟨hx, i', hi'', hie⟩, ?_⟩
          intro hc
          rw [hc] at hi''
          have := key_unique h hent hi'' (identEq_trans hie (identEq_symm hi))
          exact hnck ⟨hc, this⟩
      · rw [if_neg hi, h.mem i x]
        constructor
        · rintro ⟨hx, i', hi', hie⟩
          have hne : ¬ (x.d.child = c ∧ x.d.key = k) := by
            rintro ⟨e1, e2⟩
            rw [e1, e2] at hi'
            have := key_of_entries h.keysNodup hi' hent
            rw [this] at hie
            exact hi hie
          refine ⟨⟨hx, hne⟩, i', mem_cmapErase.2 ⟨hi', ?_⟩, hie⟩
          intro e
          simp only [Prod.mk.injEq] at e
          exact hne e
        · rintro ⟨⟨hx, _⟩, i', hi', hie⟩
          exact ⟨hx, i', (mem_cmapErase.1 hi').1, hie⟩
    · intro c' k' i hi
      obtain ⟨hi1, hi2⟩ := mem_cmapErase.1 hi
      obtain ⟨n1, s1, x, hx, xc, xk⟩ := h.centry c' k' i hi1
      have hne : ¬ (c' = c ∧ k' = k) := by
        rintro ⟨rfl, rfl⟩; exact hi2 rfl
      refine ⟨n1, ?_, x, mem_without.2 ⟨hx, by rw [xc, xk]; exact hne⟩, xc, xk⟩
      intro ck
      rw [s1 ck]
      constructor
      · rintro ⟨y, hy, r1, r2, r3⟩
        exact ⟨y, mem_without.2 ⟨hy, by rw [r1, r2]; exact hne⟩, r1, r2, r3⟩
      · rintro ⟨y, hy, r⟩
        exact ⟨y, (mem_without.1 hy).1, r⟩
    · intro x hx
      obtain ⟨hx1, hx2⟩ := mem_without.1 hx
      obtain ⟨i, hi⟩ := h.live x hx1
      refine ⟨i, mem_cmapErase.2 ⟨hi, ?_⟩⟩
      intro e
      simp only [Prod.mk.injEq] at e
      exact hx2 e
    · rw [hsnd]; exact (h.memNodup i0).filter _

theorem mem_dropped_or_without {L : List LDep} {c : Nat} {k : GKey} {y : LDep} :
    y ∈ L ↔ (y ∈ without L c k ∨ (y ∈ L ∧ y.d.child = c ∧ y.d.key = k)) := by
  rw [mem_without]
  constructor
  · intro hy
    by_cases hc : y.d.child = c ∧ y.d.key = k
    · exact Or.inr ⟨hy, hc⟩
    · exact Or.inl ⟨hy, hc⟩
  · rintro (h | h) <;> exact h.1

theorem addDep_inv {st : RState} {L : List LDep} (h : Inv st L) (x : LDep) (hname : x.d.group ≠ some "") :
    Inv (addDep st x) (liveAfter L (.add x)) := by
  obtain ⟨hI, hmem, hnd⟩ := dropGroup_inv h x.d.child x.d.key
  have hno : ∀ y ∈ without L x.d.child x.d.key, ¬ (y.d.child = x.d.child ∧ y.d.key = x.d.key) :=
    fun y hy => (mem_without.1 hy).2
  unfold addDep liveAfter
  simp only
  by_cases hx : x ∈ L
  · have hxr : x ∈ (dropGroup st x.d.child x.d.key).2 := (hmem x).2 ⟨hx, rfl, rfl⟩
    rw [if_pos (List.contains_iff_mem.2 hxr), if_pos (List.contains_iff_mem.2 hx)]
    have := addGroup_inv hI x.d.child x.d.key _ (List.ne_nil_of_mem hxr) hnd
      (fun y hy => by
        obtain ⟨h1, h2, h3⟩ := (hmem y).1 hy
        exact ⟨h2, h3, fun hw => (mem_without.1 hw).2 ⟨h2, h3⟩, h.names y h1⟩) hno
    apply this.congr h.lnodup
    intro y
    rw [List.mem_append, hmem y]
    exact (mem_dropped_or_without).symm
  · have hxr : x ∉ (dropGroup st x.d.child x.d.key).2 := fun hh => hx ((hmem x).1 hh).1
    rw [if_neg (by simpa using hxr), if_neg (by simpa using hx)]
    have := addGroup_inv hI x.d.child x.d.key ((dropGroup st x.d.child x.d.key).2 ++ [x]) (by simp)
      (by rw [List.nodup_append]; exact ⟨hnd, by simp, fun a ha b hb e => by
            simp only [List.mem_singleton] at hb; subst hb; subst e; exact hxr ha⟩)
      (fun y hy => by
        rcases List.mem_append.1 hy with hy | hy
        · obtain ⟨h1, h2, h3⟩ := (hmem y).1 hy
          exact ⟨h2, h3, fun hw => (mem_without.1 hw).2 ⟨h2, h3⟩, h.names y h1⟩
        · simp only [List.mem_singleton] at hy
          subst hy
          exact ⟨rfl, rfl, fun hw => hx (mem_without.1 hw).1, hname⟩) hno
    apply this.congr (by rw [List.nodup_append]; exact ⟨h.lnodup, by simp, fun a ha b hb e => by
            simp only [List.mem_singleton] at hb; subst hb; subst e; exact hx ha⟩)
    intro y
    simp only [List.mem_append, List.mem_singleton, hmem y]
    constructor
    · rintro (h1 | h1 | h1)
      · exact Or.inl (mem_without.1 h1).1
      · exact Or.inl h1.1
      · exact Or.inr h1
    · rintro (h1 | h1)
      · rcases (@mem_dropped_or_without L x.d.child x.d.key y).1 h1 with h2 | h2
        · exact Or.inl h2
        · exact Or.inr (Or.inl h2)
      · exact Or.inr (Or.inr h1)

theorem removeDep_inv {st : RState} {L : List LDep} (h : Inv st L) (x : LDep) :
    Inv (removeDep st x) (liveAfter L (.remove x)) := by
  have hfn : (L.filter (fun y => !(y == x))).Nodup := h.lnodup.filter _
  have hfm : ∀ y, y ∈ L.filter (fun y => !(y == x)) ↔ y ∈ L ∧ y ≠ x := by
    intro y; simp [List.mem_filter]
  unfold removeDep liveAfter
  cases hl : cmapLookup st.cmap (x.d.child, x.d.key) with
  | none =>
    have hx : x ∉ L := by
      intro hx
      obtain ⟨i, hi⟩ := h.live x hx
      exact lookup_none hl i hi
    apply h.congr hfn
    intro y
    rw [hfm]
    exact ⟨fun hy => ⟨hy, fun e => hx (e ▸ hy)⟩, fun hy => hy.1⟩
  | some i0 =>
    obtain ⟨hI, hmem, hnd⟩ := dropGroup_inv h x.d.child x.d.key
    have hno : ∀ y ∈ without L x.d.child x.d.key, ¬ (y.d.child = x.d.child ∧ y.d.key = x.d.key) :=
      fun y hy => (mem_without.1 hy).2
    simp only
    have hdm : ∀ y, y ∈ (dropGroup st x.d.child x.d.key).2.filter (fun y => !(y == x)) ↔
        (y ∈ L ∧ y.d.child = x.d.child ∧ y.d.key = x.d.key) ∧ y ≠ x := by
      intro y; simp [List.mem_filter, hmem y]
    split
    · rename_i hemp
      rw [List.isEmpty_iff] at hemp
      apply hI.congr hfn
      intro y
      rw [hfm, mem_without]
      constructor
      · rintro ⟨hy, hne⟩
        exact ⟨hy, fun e => hne (e ▸ ⟨rfl, rfl⟩)⟩
      · rintro ⟨hy, hne⟩
        refine ⟨hy, fun hc => ?_⟩
        have : y ∈ (dropGroup st x.d.child x.d.key).2.filter (fun y => !(y == x)) := (hdm y).2 ⟨⟨hy, hc⟩, hne⟩
        rw [hemp] at this
        cases this
    · rename_i hnemp
      have hne : (dropGroup st x.d.child x.d.key).2.filter (fun y => !(y == x)) ≠ [] := by
        simpa [List.isEmpty_iff] using hnemp
      have := addGroup_inv hI x.d.child x.d.key _ hne (hnd.filter _)
        (fun y hy => by
          obtain ⟨⟨h1, h2, h3⟩, _⟩ := (hdm y).1 hy
          exact ⟨h2, h3, fun hw => (mem_without.1 hw).2 ⟨h2, h3⟩, h.names y h1⟩) hno
      apply this.congr hfn
      intro y
      rw [List.mem_append, hdm y, hfm, mem_without]
      constructor
      · rintro (⟨hy, hnc⟩ | ⟨⟨hy, _⟩, hne⟩)
        · exact ⟨hy, fun e => hnc (e ▸ ⟨rfl, rfl⟩)⟩
        · exact ⟨hy, hne⟩
      · rintro ⟨hy, hne⟩
        by_cases hc : y.d.child = x.d.child ∧ y.d.key = x.d.key
        · exact Or.inr ⟨⟨hy, hc⟩, hne⟩
        · exact Or.inl ⟨hy, hc⟩

theorem inv_empty : Inv {} [] where
  lnodup := List.nodup_nil
  names := fun _ h => by cases h
  keysNodup := List.nodup_nil
  pw := List.Pairwise.nil
  nonempty := fun _ h => by cases h
  memNodup := fun _ => List.nodup_nil
  mem := fun _ _ => by simp [membersOf]
  centry := fun _ _ _ h => by cases h
  live := fun _ h => by cases h

theorem pushAll_inv (L : List LDep) (hL : L.Nodup) (hnames : ∀ x ∈ L, x.d.group ≠ some "") :
    ∀ (todo : List (Nat × GKey)) (st : RState) (P : Nat × GKey → Bool), todo.Nodup →
      (∀ ck ∈ todo, P ck = false ∧ ∃ x ∈ L, (x.d.child, x.d.key) = ck) →
      Inv st (L.filter (fun x => P (x.d.child, x.d.key))) →
      Inv (pushAll L st todo) (L.filter (fun x => P (x.d.child, x.d.key) || todo.contains (x.d.child, x.d.key))) := by
  intro todo
  induction todo with
  | nil =>
    intro st P _ _ h
    simpa [pushAll] using h
  | cons ck rest ih =>
    intro st P hnd htodo h
    obtain ⟨c, k⟩ := ck
    rw [List.nodup_cons] at hnd
    obtain ⟨hP, x0, hx0, hx0k⟩ := htodo (c, k) List.mem_cons_self
    simp only [pushAll]
    have hD : ∀ x, x ∈ L.filter (fun x => x.d.child == c && x.d.key == k) ↔ x ∈ L ∧ x.d.child = c ∧ x.d.key = k := by
      intro x; simp [List.mem_filter]
    have hstep := addGroup_inv h c k (L.filter (fun x => x.d.child == c && x.d.key == k))
      (List.ne_nil_of_mem ((hD x0).2 ⟨hx0, by simp only [Prod.mk.injEq] at hx0k; exact hx0k⟩))
      (hL.filter _)
      (fun x hx => by
        obtain ⟨h1, h2, h3⟩ := (hD x).1 hx
        refine ⟨h2, h3, ?_, hnames x h1⟩
        intro hin
        have := (List.mem_filter.1 hin).2
        rw [h2, h3, hP] at this
        cases this)
      (fun x hx hc => by
        have := (List.mem_filter.1 hx).2
        rw [hc.1, hc.2, hP] at this
        cases this)
    let P' : Nat × GKey → Bool := fun q => P q || q == (c, k)
    have hstep' : Inv (addGroup st c k (L.filter (fun x => x.d.child == c && x.d.key == k)))
        (L.filter (fun x => P' (x.d.child, x.d.key))) := by
      apply hstep.congr (hL.filter _)
      intro x
      simp only [List.mem_append, List.mem_filter, P', Bool.or_eq_true, Bool.and_eq_true, beq_iff_eq, Prod.mk.injEq]
      constructor
      · rintro (⟨h1, h2⟩ | ⟨h1, h2⟩)
        · exact ⟨h1, Or.inl h2⟩
        · exact ⟨h1, Or.inr h2⟩
      · rintro ⟨h1, h2 | h2⟩
        · exact Or.inl ⟨h1, h2⟩
        · exact Or.inr ⟨h1, h2⟩
    have := ih _ P' hnd.2 (fun q hq => by
      obtain ⟨h1, h2⟩ := htodo q (List.mem_cons_of_mem _ hq)
      refine ⟨?_, h2⟩
      simp only [P', h1, Bool.false_or, beq_eq_false_iff_ne, ne_eq]
      rintro rfl
      exact hnd.1 hq) hstep'
    have heq : (L.filter (fun x => P' (x.d.child, x.d.key) || rest.contains (x.d.child, x.d.key))) =
        (L.filter (fun x => P (x.d.child, x.d.key) || ((c, k) :: rest).contains (x.d.child, x.d.key))) := by
      apply List.filter_congr
      intro x _
      simp only [P', List.contains_cons, Bool.or_assoc]
    rw [← heq]
    exact this

/-! ### what the invariant says about the observable structure -/

theorem viewDeps_eq_drop (st : RState) (c : Nat) (k : GKey) : viewDeps st c k = (dropGroup st c k).2 := by
  unfold viewDeps dropGroup
  cases cmapLookup st.cmap (c, k) with
  | none => rfl
  | some i => simp only [unregister_snd]

/-- identity of the group a fresh load gives to child `c` under key `k`. -/
def specIdent (L : List LDep) (c : Nat) (k : GKey) : Ident :=
  (k.name, (L.filter (fun x => x.d.child == c && x.d.key == k)).map (·.d.composite))

theorem inv_entry_ident {st : RState} {L : List LDep} (h : Inv st L) {c : Nat} {k : GKey} {i : Ident}
    (hi : ((c, k), i) ∈ st.cmap) : identEq i (specIdent L c k) = true := by
  obtain ⟨n1, s1, _⟩ := h.centry c k i hi
  rw [identEq_iff]
  refine ⟨n1, fun ck => ?_⟩
  rw [s1 ck]
  simp only [specIdent, List.mem_map, List.mem_filter, Bool.and_eq_true, beq_iff_eq]
  constructor
  · rintro ⟨x, hx, h1, h2, h3⟩; exact ⟨x, ⟨hx, h1, h2⟩, h3⟩
  · rintro ⟨x, ⟨hx, h1, h2⟩, h3⟩; exact ⟨x, hx, h1, h2, h3⟩

theorem membersOf_of_mem : ∀ (reg : List Group), PW reg → ∀ g ∈ reg, membersOf reg g.ident = g.members := by
  intro reg
  induction reg with
  | nil => intro _ g hg; cases hg
  | cons h t ih =>
    intro hp g hg
    unfold PW at hp
    rw [List.pairwise_cons] at hp
    rcases List.mem_cons.1 hg with rfl | hin
    · simp [membersOf, identEq_refl]
    · simp only [membersOf, hp.1 g hin, Bool.false_eq_true, if_false]
      exact ih hp.2 g hin

theorem exists_of_membersOf_ne_nil : ∀ (reg : List Group) (i : Ident), membersOf reg i ≠ [] →
    ∃ g ∈ reg, identEq g.ident i = true := by
  intro reg
  induction reg with
  | nil => intro i h; exact absurd rfl h
  | cons h t ih =>
    intro i hne
    by_cases h1 : identEq h.ident i = true
    · exact ⟨h, List.mem_cons_self, h1⟩
    · simp only [membersOf, h1] at hne
      obtain ⟨g, hg, he⟩ := ih i hne
      exact ⟨g, List.mem_cons_of_mem _ hg, he⟩

/-- the registry is exactly what a fresh load of `L` builds: pairwise different non-empty groups, one
    for every identity occurring among the (child, key) groups of `L`, each holding all live
    dependencies whose (child, key) group has that identity. -/
def RegistryIs (reg : List Group) (L : List LDep) : Prop :=
  PW reg ∧
  (∀ g ∈ reg, g.members ≠ [] ∧ g.members.Nodup ∧
    ∀ x, x ∈ g.members ↔ x ∈ L ∧ identEq (specIdent L x.d.child x.d.key) g.ident = true) ∧
  (∀ x ∈ L, ∃ g ∈ reg, identEq (specIdent L x.d.child x.d.key) g.ident = true)

theorem inv_registry {st : RState} {L : List LDep} (h : Inv st L) : RegistryIs st.registry L := by
  refine ⟨h.pw, ?_, ?_⟩
  · intro g hg
    have hm := membersOf_of_mem _ h.pw g hg
    refine ⟨h.nonempty g hg, hm ▸ h.memNodup g.ident, ?_⟩
    intro x
    rw [← hm, h.mem g.ident x]
    constructor
    · rintro ⟨hx, i', hi', hie⟩
      exact ⟨hx, identEq_trans (identEq_symm (inv_entry_ident h hi')) hie⟩
    · rintro ⟨hx, hie⟩
      obtain ⟨i', hi'⟩ := h.live x hx
      exact ⟨hx, i', hi', identEq_trans (inv_entry_ident h hi') hie⟩
  · intro x hx
    obtain ⟨i', hi'⟩ := h.live x hx
    have : x ∈ membersOf st.registry i' := (h.mem i' x).2 ⟨hx, i', hi', identEq_refl _⟩
    obtain ⟨g, hg, he⟩ := exists_of_membersOf_ne_nil _ _ (List.ne_nil_of_mem this)
    exact ⟨g, hg, identEq_trans (identEq_symm (inv_entry_ident h hi')) (identEq_symm he)⟩

theorem length_le_of_embeds : ∀ (l1 l2 : List Group), PW l1 →
    (∀ a ∈ l1, ∃ b ∈ l2, identEq a.ident b.ident = true) → l1.length ≤ l2.length := by
  intro l1
  induction l1 with
  | nil => intro _ _ _; simp
  | cons a t ih =>
    intro l2 hp hemb
    unfold PW at hp
    rw [List.pairwise_cons] at hp
    obtain ⟨b, hb, hab⟩ := hemb a List.mem_cons_self
    obtain ⟨s, u, rfl⟩ := List.mem_iff_append.1 hb
    have := ih (s ++ u) hp.2 (by
      intro a' ha'
      obtain ⟨b', hb', hab'⟩ := hemb a' (List.mem_cons_of_mem _ ha')
      refine ⟨b', ?_, hab'⟩
      rcases List.mem_append.1 hb' with h1 | h1
      · exact List.mem_append.2 (Or.inl h1)
      · rcases List.mem_cons.1 h1 with rfl | h1
        · have := hp.1 a' ha'
          rw [identEq_trans hab (identEq_symm hab')] at this; cases this
        · exact List.mem_append.2 (Or.inr h1))
    simp only [List.length_append, List.length_cons] at this ⊢
    omega

theorem registryIs_unique {r1 r2 : List Group} {L : List LDep} (h1 : RegistryIs r1 L) (h2 : RegistryIs r2 L) :
    (∀ g ∈ r1, ∃ g' ∈ r2, identEq g.ident g'.ident = true ∧ ∀ x, x ∈ g.members ↔ x ∈ g'.members) ∧
    r1.length = r2.length := by
  have emb : ∀ {ra rb : List Group}, RegistryIs ra L → RegistryIs rb L →
      ∀ g ∈ ra, ∃ g' ∈ rb, identEq g.ident g'.ident = true ∧ ∀ x, x ∈ g.members ↔ x ∈ g'.members := by
    intro ra rb ha hb g hg
    obtain ⟨hne, _, hm⟩ := ha.2.1 g hg
    obtain ⟨x, hx⟩ := List.exists_mem_of_ne_nil _ hne
    obtain ⟨hxL, hxi⟩ := (hm x).1 hx
    obtain ⟨g', hg', hxi'⟩ := hb.2.2 x hxL
    have hgg : identEq g.ident g'.ident = true := identEq_trans (identEq_symm hxi) hxi'
    refine ⟨g', hg', hgg, fun y => ?_⟩
    rw [hm y, (hb.2.1 g' hg').2.2 y]
    constructor
    · rintro ⟨hy, hyi⟩; exact ⟨hy, identEq_trans hyi hgg⟩
    · rintro ⟨hy, hyi⟩; exact ⟨hy, identEq_trans hyi (identEq_symm hgg)⟩
  refine ⟨emb h1 h2, Nat.le_antisymm ?_ ?_⟩
  · exact length_le_of_embeds r1 r2 h1.1 (fun a ha => by obtain ⟨b, hb, he, _⟩ := emb h1 h2 a ha; exact ⟨b, hb, he⟩)
  · exact length_le_of_embeds r2 r1 h2.1 (fun a ha => by obtain ⟨b, hb, he, _⟩ := emb h2 h1 a ha; exact ⟨b, hb, he⟩)

theorem run_inv : ∀ (ops : List ROp) (st : RState) (L : List LDep), Inv st L →
    (∀ x, ROp.add x ∈ ops → x.d.group ≠ some "") →
    Inv (ops.foldl applyOp st) (ops.foldl liveAfter L) := by
  intro ops
  induction ops with
  | nil => intro st L h _; exact h
  | cons op rest ih =>
    intro st L h hn
    simp only [List.foldl_cons]
    apply ih
    · cases op with
      | add x => exact addDep_inv h x (hn x List.mem_cons_self)
      | remove x => exact removeDep_inv h x
    · intro x hx; exact hn x (List.mem_cons_of_mem _ hx)

end Icinga.C07

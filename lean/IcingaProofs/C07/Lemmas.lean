/-
  C07 — helper lemmas (availability, group state, one level of the reachability recursion).
-/
import IcingaModel.C07.Model
import IcingaModel.C07.Spec

namespace Icinga.C07

/-! ### availability -/

theorem stateBit_and_filter (p : Node) (f : Nat) :
    (stateBit p &&& f != 0) = stateListed p f := by
  unfold stateBit stateListed hostUp
  by_cases hs : p.isService
  · simp only [hs, if_true]
    rcases h : p.stateRaw with _ | _ | _ | _ | k
    · simp [Nat.and_comm 1 f]
    · simp [Nat.and_comm 2 f]
    · simp [Nat.and_comm 4 f]
    · simp [Nat.and_comm 8 f]
    · simp [Nat.and_comm 8 f]
  · simp only [hs]
    by_cases h : (p.stateRaw == 0 || p.stateRaw == 1) = true
    · simp [h, Nat.and_comm 16 f]
    · simp [h, Nat.and_comm 32 f]

theorem aspectNotDisabled_eq (dt : Aspect) (d : Dep) : aspectNotDisabled dt d = aspectFree dt d := by
  cases dt <;> simp [aspectNotDisabled, aspectFree]

/-- the transcription is the five-way disjunction plus the "same object" escape. -/
theorem available_eq (g : Graph) (dt : Aspect) (d : Dep) :
    available g dt d = (d.parent == d.child || availSpec g dt d) := by
  simp only [available, availSpec, stateBit_and_filter, aspectNotDisabled_eq, Bool.or_assoc]
  ac_rfl

/-! ### group state -/

theorem groupState_ok_iff (reach : Nat → Bool) (avail : Dep → Bool) (red : Bool) (deps : List Dep) :
    groupState reach avail red deps = .ok ↔
      (if red then ∃ d ∈ deps, reach d.parent = true ∧ avail d = true
       else ∀ d ∈ deps, reach d.parent = true ∧ avail d = true) := by
  unfold groupState
  simp only [List.filter_filter]
  have hsw : (fun d : Dep => avail d && reach d.parent) = (fun d => reach d.parent && avail d) := by
    funext d; exact Bool.and_comm _ _
  rw [hsw]
  cases red
  · simp only [Bool.false_eq_true, if_false]
    have hr := @List.length_filter_eq_length_iff _ (fun d => reach d.parent) deps
    have ha := @List.length_filter_eq_length_iff _ (fun d => reach d.parent && avail d) deps
    have hle1 := @List.length_filter_le _ (fun d => reach d.parent) deps
    have hle2 := @List.length_filter_le _ (fun d => reach d.parent && avail d) deps
    constructor
    · intro h
      split at h
      · cases h
      · split at h
        · cases h
        · have h2 : (deps.filter (fun d => reach d.parent && avail d)).length = deps.length := by omega
          intro d hd
          have := ha.1 h2 d hd
          simpa using this
    · intro h
      have h1 : (deps.filter (fun d => reach d.parent)).length = deps.length :=
        hr.2 (fun d hd => (h d hd).1)
      have h2 : (deps.filter (fun d => reach d.parent && avail d)).length = deps.length :=
        ha.2 (fun d hd => by simp [(h d hd).1, (h d hd).2])
      rw [if_neg (by omega), if_neg (by omega)]
  · simp only [if_true]
    have hp := @List.length_filter_pos_iff _ deps (fun d => reach d.parent && avail d)
    have hq := @List.length_filter_pos_iff _ deps (fun d => reach d.parent)
    constructor
    · intro h
      split at h
      · cases h
      · split at h
        · cases h
        · rename_i h0
          have : 0 < (deps.filter (fun d => reach d.parent && avail d)).length := by
            simp only [beq_iff_eq] at h0; omega
          obtain ⟨d, hd, hpd⟩ := hp.1 this
          exact ⟨d, hd, by simpa using hpd⟩
    · rintro ⟨d, hd, h1, h2⟩
      have ha : 0 < (deps.filter (fun d => reach d.parent && avail d)).length :=
        hp.2 ⟨d, hd, by simp [h1, h2]⟩
      have hr : 0 < (deps.filter (fun d => reach d.parent)).length := hq.2 ⟨d, hd, h1⟩
      rw [if_neg (by simp only [beq_iff_eq]; omega), if_neg (by simp only [beq_iff_eq]; omega)]

/-! ### one level of IsReachable = the property's clause -/

theorem hostHardDown_eq (g : Graph) (dt : Aspect) (v : Nat) : hostHardDown g dt v = hostDownSpec g dt v := by
  unfold hostHardDown hostDownSpec hostUp
  cases h1 : (g.node v).isService <;> cases h2 : (g.node v).host <;> simp [h1, h2, Bool.and_assoc]

theorem mem_depsOf {g : Graph} {v : Nat} {d : Dep} : d ∈ depsOf g v ↔ d ∈ g.deps ∧ d.child = v := by
  simp [depsOf, List.mem_filter]

theorem mem_groupKeys {g : Graph} {v : Nat} {k : GKey} :
    k ∈ groupKeys g v ↔ ∃ d ∈ g.deps, d.child = v ∧ d.key = k := by
  simp only [groupKeys, List.mem_eraseDups, List.mem_map, mem_depsOf]
  constructor
  · rintro ⟨d, ⟨h1, h2⟩, h3⟩; exact ⟨d, h1, h2, h3⟩
  · rintro ⟨d, h1, h2, h3⟩; exact ⟨d, ⟨h1, h2⟩, h3⟩

theorem mem_groupDeps {g : Graph} {v : Nat} {k : GKey} {d : Dep} :
    d ∈ groupDeps g v k ↔ d ∈ g.deps ∧ d.child = v ∧ d.key = k := by
  simp [groupDeps, List.mem_filter, mem_depsOf, and_assoc]

theorem key_none {d : Dep} (h : d.group = none) : d.key = .parent d.parent := by simp [Dep.key, h]
theorem key_some {d : Dep} {n : String} (h : d.group = some n) : d.key = .named n := by simp [Dep.key, h]

theorem key_eq_parent {d : Dep} {p : Nat} (h : d.key = .parent p) : d.group = none ∧ d.parent = p := by
  unfold Dep.key at h
  cases hg : d.group <;> simp_all

theorem key_eq_named {d : Dep} {n : String} (h : d.key = .named n) : d.group = some n := by
  unfold Dep.key at h
  cases hg : d.group <;> simp_all

/-- the group part of `reachStep`, as a statement about the dependencies of `v`. -/
theorem groups_ok_iff (g : Graph) (reach : Nat → Bool) (avail : Dep → Bool) (v : Nat) :
    ((groupKeys g v).all (fun k => groupState reach avail k.isRedundancy (groupDeps g v k) == .ok)) = true ↔
    ∀ d ∈ g.deps, d.child = v →
      (match d.group with
       | none => reach d.parent = true ∧ avail d = true
       | some name => ∃ d' ∈ g.deps, d'.child = v ∧ d'.group = some name ∧ reach d'.parent = true ∧ avail d' = true) := by
  simp only [List.all_eq_true, beq_iff_eq, groupState_ok_iff]
  constructor
  · intro h d hd hc
    have hk := h d.key (mem_groupKeys.2 ⟨d, hd, hc, rfl⟩)
    cases hg : d.group with
    | none =>
      simp only [key_none hg, GKey.isRedundancy, Bool.false_eq_true, if_false] at hk
      exact hk d (mem_groupDeps.2 ⟨hd, hc, key_none hg⟩)
    | some name =>
      simp only [key_some hg, GKey.isRedundancy, if_true] at hk
      obtain ⟨d', hd', h1, h2⟩ := hk
      obtain ⟨m1, m2, m3⟩ := mem_groupDeps.1 hd'
      exact ⟨d', m1, m2, key_eq_named m3, h1, h2⟩
  · intro h k hk
    obtain ⟨d, hd, hc, hkey⟩ := mem_groupKeys.1 hk
    cases k with
    | parent p =>
      simp only [GKey.isRedundancy, Bool.false_eq_true, if_false]
      intro d' hd'
      obtain ⟨m1, m2, m3⟩ := mem_groupDeps.1 hd'
      have := h d' m1 m2
      rw [(key_eq_parent m3).1] at this
      exact this
    | named name =>
      simp only [GKey.isRedundancy, if_true]
      have := h d hd hc
      rw [key_eq_named hkey] at this
      obtain ⟨d', m1, m2, m3, h1, h2⟩ := this
      exact ⟨d', mem_groupDeps.2 ⟨m1, m2, key_some m3⟩, h1, h2⟩

/-- no dependency of a checkable on itself (implied by acyclicity). -/
def NoSelfDep (g : Graph) : Prop := ∀ d ∈ g.deps, d.parent ≠ d.child

theorem available_of_noSelf {g : Graph} (hns : NoSelfDep g) (dt : Aspect) {d : Dep} (hd : d ∈ g.deps) :
    available g dt d = availSpec g dt d := by
  rw [available_eq]
  have := hns d hd
  simp [this]

theorem reachStep_eq_clause (g : Graph) (hns : NoSelfDep g) (dt : Aspect) (R : Nat → Bool) (v : Nat) :
    reachStep g dt R v = reachClause g dt R v := by
  unfold reachStep reachClause
  rw [hostHardDown_eq]
  congr 1
  rw [Bool.eq_iff_iff, groups_ok_iff]
  simp only [List.all_eq_true, Bool.or_eq_true, Bool.not_eq_true', beq_eq_false_iff_ne, ne_eq]
  constructor
  · intro h d hd
    by_cases hc : d.child = v
    · right
      have := h d hd hc
      cases hg : d.group with
      | none =>
        rw [hg] at this
        simp only [Bool.and_eq_true]
        exact ⟨this.1, (available_of_noSelf hns dt hd) ▸ this.2⟩
      | some name =>
        rw [hg] at this
        obtain ⟨d', m1, m2, m3, h1, h2⟩ := this
        simp only [List.any_eq_true, Bool.and_eq_true, beq_iff_eq]
        exact ⟨d', m1, ⟨⟨⟨m2, m3⟩, h1⟩, (available_of_noSelf hns dt m1) ▸ h2⟩⟩
    · left; exact hc
  · intro h d hd hc
    rcases h d hd with h1 | h1
    · exact absurd hc h1
    · cases hg : d.group with
      | none =>
        rw [hg] at h1
        simp only [Bool.and_eq_true] at h1
        exact ⟨h1.1, (available_of_noSelf hns dt hd).symm ▸ h1.2⟩
      | some name =>
        rw [hg] at h1
        simp only [List.any_eq_true, Bool.and_eq_true, beq_iff_eq] at h1
        obtain ⟨d', m1, ⟨⟨⟨m2, m3⟩, h2⟩, h3⟩⟩ := h1
        exact ⟨d', m1, m2, m3, h2, (available_of_noSelf hns dt m1).symm ▸ h3⟩

end Icinga.C07

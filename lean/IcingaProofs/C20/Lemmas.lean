/-
  C20 — helper lemmas for the netstring theorems: decimal digits, header loop, buffer parser.
-/
import IcingaModel.C20.Model

namespace Icinga.C20

/-! ### digit bytes -/

theorem digitByte_toNat {k : Nat} (h : k < 10) : (digitByte k).toNat = 48 + k := by
  simp [digitByte, UInt8.toNat_ofNat']; omega

theorem isDigit_digitByte {k : Nat} (h : k < 10) : isDigit (digitByte k) = true := by
  simp [isDigit, digitByte_toNat h]; omega

theorem digitVal_digitByte {k : Nat} (h : k < 10) : digitVal (digitByte k) = k := by
  simp [digitVal, digitByte_toNat h]

theorem isDigit_iff {b : UInt8} : isDigit b = true ↔ 48 ≤ b.toNat ∧ b.toNat ≤ 57 := by
  simp [isDigit]

theorem digitVal_lt {b : UInt8} (h : isDigit b = true) : digitVal b < 10 := by
  have := isDigit_iff.mp h; simp [digitVal]; omega

theorem digitByte_digitVal {b : UInt8} (h : isDigit b = true) : digitByte (digitVal b) = b := by
  have h' := isDigit_iff.mp h
  apply UInt8.toNat_inj.mp
  rw [digitByte_toNat (digitVal_lt h)]
  simp [digitVal]; omega

theorem colon_not_digit : isDigit colon = false := by decide
theorem comma_not_digit : isDigit comma = false := by decide

theorem isDigit_ne_colon {b : UInt8} (h : isDigit b = true) : (b == colon) = false := by
  have h' := isDigit_iff.mp h
  simp only [beq_eq_false_iff_ne, ne_eq]
  intro hb; subst hb; simp [colon] at h'

theorem eq48_iff_digitVal {b : UInt8} (h : isDigit b = true) : (b == 48) = true ↔ digitVal b = 0 := by
  have h' := isDigit_iff.mp h
  simp only [beq_iff_eq, digitVal]
  constructor
  · intro hb; subst hb; rfl
  · intro hv; apply UInt8.toNat_inj.mp; simp; omega

/-! ### natDigits -/

theorem natDigitsF_fuel : ∀ (f g n : Nat), n < f → n < g → natDigitsF f n = natDigitsF g n := by
  intro f
  induction f with
  | zero => intro g n h; omega
  | succ f ih =>
    intro g n hf hg
    cases g with
    | zero => omega
    | succ g =>
      simp only [natDigitsF]
      by_cases h10 : n < 10
      · simp [h10]
      · simp only [h10, if_false]
        rw [ih g (n / 10) (by omega) (by omega)]

/-- The defining equation of decimal printing. -/
theorem natDigits_eq (n : Nat) :
    natDigits n = if n < 10 then [digitByte n] else natDigits (n / 10) ++ [digitByte (n % 10)] := by
  show natDigitsF (n + 1) n = if n < 10 then [digitByte n] else natDigitsF (n / 10 + 1) (n / 10) ++ [digitByte (n % 10)]
  rw [natDigitsF]
  by_cases h10 : n < 10
  · simp [h10]
  · simp only [h10, if_false]
    rw [natDigitsF_fuel n (n / 10 + 1) (n / 10) (by omega) (by omega)]

theorem natDigits_lt10 {n : Nat} (h : n < 10) : natDigits n = [digitByte n] := by
  rw [natDigits_eq]; simp [h]

theorem natDigits_ge10 {n : Nat} (h : 10 ≤ n) : natDigits n = natDigits (n / 10) ++ [digitByte (n % 10)] := by
  rw [natDigits_eq]; simp [Nat.not_lt.mpr h]

theorem natDigits_all_digits (n : Nat) : ∀ b ∈ natDigits n, isDigit b = true := by
  induction n using Nat.strongRecOn with
  | _ n ih =>
    by_cases h10 : n < 10
    · rw [natDigits_lt10 h10]; intro b hb; simp at hb; subst hb; exact isDigit_digitByte h10
    · rw [natDigits_ge10 (by omega)]
      intro b hb
      rcases List.mem_append.mp hb with hb | hb
      · exact ih (n / 10) (by omega) b hb
      · simp at hb; subst hb; exact isDigit_digitByte (Nat.mod_lt _ (by omega))

theorem natDigits_ne_nil (n : Nat) : natDigits n ≠ [] := by
  rw [natDigits_eq]; split <;> simp

theorem digitsVal_append (acc : Nat) (xs ys : Bytes) :
    digitsVal acc (xs ++ ys) = digitsVal (digitsVal acc xs) ys := by
  simp [digitsVal, List.foldl_append]

/-- Parsing the printed digits gives the number back. -/
theorem digitsVal_natDigits (n : Nat) : digitsVal 0 (natDigits n) = n := by
  induction n using Nat.strongRecOn with
  | _ n ih =>
    by_cases h10 : n < 10
    · rw [natDigits_lt10 h10]; simp [digitsVal, digitVal_digitByte h10]
    · rw [natDigits_ge10 (by omega), digitsVal_append, ih (n / 10) (by omega)]
      simp [digitsVal, digitVal_digitByte (Nat.mod_lt n (by omega : 0 < 10))]
      omega

/-- Printing a parsed digit string that continues a non-zero prefix appends the digits. -/
theorem natDigits_digitsVal : ∀ (ds : Bytes) (acc : Nat), 1 ≤ acc → (∀ b ∈ ds, isDigit b = true) →
    natDigits (digitsVal acc ds) = natDigits acc ++ ds := by
  intro ds
  induction ds with
  | nil => intro acc _ _; simp [digitsVal]
  | cons d ds ih =>
    intro acc hacc hd
    have hdd : isDigit d = true := hd d (by simp)
    have hlt := digitVal_lt hdd
    have : digitsVal acc (d :: ds) = digitsVal (acc * 10 + digitVal d) ds := by simp [digitsVal]
    rw [this, ih (acc * 10 + digitVal d) (by omega) (fun b hb => hd b (by simp [hb]))]
    rw [natDigits_ge10 (by omega : 10 ≤ acc * 10 + digitVal d)]
    have h1 : (acc * 10 + digitVal d) / 10 = acc := by omega
    have h2 : (acc * 10 + digitVal d) % 10 = digitVal d := by omega
    rw [h1, h2, digitByte_digitVal hdd]; simp

/-- Number of digits: at most 9 exactly for numbers below 10^9. -/
theorem natDigits_length_le (n k : Nat) (hk : 1 ≤ k) : (natDigits n).length ≤ k ↔ n < 10 ^ k := by
  induction k generalizing n with
  | zero => omega
  | succ k ih =>
    by_cases h10 : n < 10
    · rw [natDigits_lt10 h10]
      have : 10 ≤ 10 ^ (k + 1) := by
        have := Nat.one_le_two_pow (n := 0)
        calc 10 = 10 ^ 1 := by rfl
          _ ≤ 10 ^ (k + 1) := Nat.pow_le_pow_right (by omega) (by omega)
      simp; omega
    · rw [natDigits_ge10 (by omega)]
      simp only [List.length_append, List.length_singleton]
      by_cases hk0 : k = 0
      · subst hk0
        have := natDigits_ne_nil (n / 10)
        have : 0 < (natDigits (n / 10)).length := List.length_pos_iff.mpr this
        simp only [Nat.zero_add, Nat.pow_one]; omega
      · have := ih (n / 10) (by omega)
        rw [Nat.pow_succ]
        constructor
        · intro h; have := this.mp (by omega); omega
        · intro h; have := this.mpr (by omega); omega

theorem natDigits_head_nonzero {n : Nat} (h : 1 ≤ n) :
    ∃ d ds, natDigits n = d :: ds ∧ isDigit d = true ∧ 1 ≤ digitVal d := by
  induction n using Nat.strongRecOn with
  | _ n ih =>
    by_cases h10 : n < 10
    · exact ⟨digitByte n, [], natDigits_lt10 h10, isDigit_digitByte h10, by rw [digitVal_digitByte h10]; exact h⟩
    · obtain ⟨d, ds, he, hd, hv⟩ := ih (n / 10) (by omega) (by omega)
      exact ⟨d, ds ++ [digitByte (n % 10)], by rw [natDigits_ge10 (by omega), he]; simp, hd, hv⟩

theorem natDigits_zero : natDigits 0 = [48] := by decide

/-! ### TLS reader: header loop -/

/-- Digits after the first one are consumed as long as fewer than nine have been read. -/
theorem hdrLoop_digits : ∀ (ds : Bytes) (rb len : Nat) (rest : Bytes), (∀ b ∈ ds, isDigit b = true) →
    1 ≤ rb → rb + ds.length ≤ 9 →
    hdrLoop rb len false (ds ++ colon :: rest) = .done (digitsVal len ds) rest := by
  intro ds
  induction ds with
  | nil =>
    intro rb len rest _ hrb _
    have : (rb == 0) = false := by simp; omega
    simp [hdrLoop, colon_not_digit, this, digitsVal]
  | cons d ds ih =>
    intro rb len rest hd hrb hlen
    have hdd : isDigit d = true := hd d (by simp)
    simp only [List.length_cons] at hlen
    have h9 : (rb == 9) = false := by simp; omega
    have h0 : (rb == 0) = false := by simp; omega
    simp only [List.cons_append, hdrLoop, hdd, if_true, h9, h0, Bool.false_and]
    rw [ih (rb + 1) _ rest (fun b hb => hd b (by simp [hb])) (by omega) (by omega)]
    simp [digitsVal]

theorem hdrLoop_natDigits (n : Nat) (hn : n < 10 ^ 9) (rest : Bytes) :
    hdrLoop 0 0 false (natDigits n ++ colon :: rest) = .done n rest := by
  by_cases h0 : n = 0
  · subst h0
    rw [natDigits_zero]
    have h1 : isDigit 48 = true := by decide
    have h2 : digitVal 48 = 0 := by decide
    show hdrLoop 0 0 false (48 :: colon :: rest) = _
    simp [hdrLoop, h1, h2, colon_not_digit]
  · obtain ⟨d, ds, he, hd, hv⟩ := natDigits_head_nonzero (by omega : 1 ≤ n)
    have hall := natDigits_all_digits n
    have hlen := (natDigits_length_le n 9 (by omega)).mpr hn
    have hval := digitsVal_natDigits n
    rw [he] at hall hlen hval ⊢
    have h48 : (d == 48) = false := by
      cases h : (d == 48)
      · rfl
      · have := (eq48_iff_digitVal hd).mp h; omega
    simp only [List.length_cons] at hlen
    simp only [List.cons_append, hdrLoop, hd, if_true, h48, Bool.and_false]
    have : ((0 : Nat) == 9) = false := by decide
    simp only [this]
    rw [hdrLoop_digits ds 1 _ rest (fun b hb => hall b (by simp [hb])) (by omega) (by omega)]
    simp only [digitsVal, List.foldl_cons] at hval
    simp only [digitsVal, hval]
    simp

/-- Whatever the header loop accepts is a digit string followed by ':'. -/
theorem hdrLoop_done : ∀ (bs : Bytes) (rb len : Nat) (lz : Bool) (len' : Nat) (rest : Bytes), rb ≤ 9 →
    hdrLoop rb len lz bs = .done len' rest →
    ∃ ds, bs = ds ++ colon :: rest ∧ (∀ b ∈ ds, isDigit b = true) ∧ len' = digitsVal len ds ∧
      (lz = true → ds = []) ∧ (rb = 0 → ds ≠ []) ∧ rb + ds.length ≤ 9 := by
  intro bs
  induction bs with
  | nil => intro rb len lz len' rest _ h; simp [hdrLoop] at h
  | cons b bs ih =>
    intro rb len lz len' rest hrb h
    simp only [hdrLoop] at h
    by_cases hd : isDigit b = true
    · simp only [hd, if_true] at h
      by_cases h9 : rb = 9
      · simp [h9] at h
      · have : (rb == 9) = false := by simp [h9]
        simp only [this] at h
        cases lz with
        | true => simp at h
        | false =>
          simp only [Bool.false_eq_true, if_false] at h
          obtain ⟨ds, he, hall, hv, _, _, hl⟩ := ih (rb + 1) _ _ len' rest (by omega) h
          refine ⟨b :: ds, by simp [he], ?_, ?_, by simp, by simp, by simp; omega⟩
          · intro x hx; rcases List.mem_cons.mp hx with hx | hx
            · subst hx; exact hd
            · exact hall x hx
          · simp [hv, digitsVal]
    · have hd' : isDigit b = false := by simpa using hd
      simp only [hd', Bool.false_eq_true, if_false] at h
      by_cases hc : (b == colon) = true
      · simp only [hc, if_true] at h
        by_cases h0 : rb = 0
        · simp [h0] at h
        · have : (rb == 0) = false := by simp [h0]
          simp only [this, Bool.false_eq_true, if_false, HdrResult.done.injEq] at h
          obtain ⟨h1, h2⟩ := h
          have hb : b = colon := by simpa using hc
          refine ⟨[], by simp [hb, h2], by simp, by simp [digitsVal, h1], by simp, by simp [h0], by simpa using hrb⟩
      · simp [hc] at h

/-- The header loop accepts exactly the canonical decimal length fields below 10^9. -/
theorem hdrLoop_canonical (bs : Bytes) (len : Nat) (rest : Bytes)
    (h : hdrLoop 0 0 false bs = .done len rest) :
    bs = natDigits len ++ colon :: rest ∧ len < 10 ^ 9 := by
  cases bs with
  | nil => simp [hdrLoop] at h
  | cons b bs =>
    simp only [hdrLoop] at h
    by_cases hd : isDigit b = true
    · simp only [hd, if_true] at h
      have : ((0 : Nat) == 9) = false := by decide
      simp only [this, Bool.false_eq_true, if_false, BEq.rfl, Bool.true_and, Nat.zero_mul, Nat.zero_add] at h
      obtain ⟨ds, he, hall, hv, hlz, _, hl⟩ := hdrLoop_done bs 1 _ _ len rest (by omega) h
      by_cases h48 : (b == 48) = true
      · have hds := hlz h48
        subst hds
        have hv0 := (eq48_iff_digitVal hd).mp h48
        have hb : b = 48 := by simpa using h48
        simp only [digitsVal, List.foldl_nil] at hv
        have hl0 : len = 0 := by omega
        subst hl0
        constructor
        · rw [natDigits_zero, he, hb]; rfl
        · decide
      · have hv1 : 1 ≤ digitVal b := by
          rcases Nat.eq_zero_or_pos (digitVal b) with hz | hp
          · exact absurd ((eq48_iff_digitVal hd).mpr hz) h48
          · exact hp
        have hnd : natDigits len = b :: ds := by
          rw [hv, natDigits_digitsVal ds _ hv1 hall, natDigits_lt10 (digitVal_lt hd), digitByte_digitVal hd]; rfl
        constructor
        · rw [hnd, he]; rfl
        · apply (natDigits_length_le len 9 (by omega)).mp
          rw [hnd]; simp; omega
    · have hd' : isDigit b = false := by simpa using hd
      simp only [hd', Bool.false_eq_true, if_false] at h
      by_cases hc : (b == colon) = true
      · simp [hc] at h
      · simp [hc] at h

/-! ### buffered reader: parsing the context buffer -/

theorem takeWhile_all {α : Type} (p : α → Bool) : ∀ (l : List α), (∀ b ∈ l, p b = true) → l.takeWhile p = l := by
  intro l
  induction l with
  | nil => intro _; rfl
  | cons a l ih =>
    intro h
    simp only [List.takeWhile_cons, h a (by simp), if_true]
    rw [ih (fun b hb => h b (by simp [hb]))]

theorem findColon_digits : ∀ (ds : Bytes) (i : Nat) (rest : Bytes), (∀ b ∈ ds, isDigit b = true) →
    i + ds.length ≤ 17 → 1 ≤ i + ds.length → findColon i (ds ++ colon :: rest) = .found (i + ds.length) := by
  intro ds
  induction ds with
  | nil =>
    intro i rest _ _ h1
    have : (i == 0) = false := by simp at h1 ⊢; omega
    simp [findColon, this]
  | cons d ds ih =>
    intro i rest hd h17 _
    have hdd : isDigit d = true := hd d (by simp)
    simp only [List.length_cons] at h17
    have h16 : ¬ (i > 16) := by omega
    simp only [List.cons_append, findColon, isDigit_ne_colon hdd, Bool.false_eq_true, if_false, h16]
    rw [ih (i + 1) rest (fun b hb => hd b (by simp [hb])) (by omega) (by omega)]
    simp only [List.length_cons]; congr 1; omega

theorem findColon_only_digits : ∀ (ds : Bytes) (i : Nat), (∀ b ∈ ds, isDigit b = true) →
    i + ds.length ≤ 17 → findColon i ds = .notFound := by
  intro ds
  induction ds with
  | nil => intro i _ _; rfl
  | cons d ds ih =>
    intro i hd h17
    have hdd : isDigit d = true := hd d (by simp)
    simp only [List.length_cons] at h17
    have h16 : ¬ (i > 16) := by omega
    simp only [findColon, isDigit_ne_colon hdd, Bool.false_eq_true, if_false, h16]
    exact ih (i + 1) (fun b hb => hd b (by simp [hb])) (by omega)

theorem bufLeadingZero_natDigits (n : Nat) (q : Bytes) : bufLeadingZero (natDigits n ++ colon :: q) = false := by
  by_cases h0 : n = 0
  · subst h0; rw [natDigits_zero]
    show bufLeadingZero (48 :: colon :: q) = false
    simp [bufLeadingZero, colon_not_digit]
  · obtain ⟨d, ds, he, hd, hv⟩ := natDigits_head_nonzero (by omega : 1 ≤ n)
    have h48 : (d == 48) = false := by
      cases h : (d == 48)
      · rfl
      · have := (eq48_iff_digitVal hd).mp h; omega
    rw [he]
    cases ds with
    | nil => simp [bufLeadingZero, h48]
    | cons e es => simp [bufLeadingZero, h48]

/-- What the buffered parser does on a buffer that starts with a canonical header. -/
theorem nsParseBuf_header (max : Option Nat) (n : Nat) (hn : n < 10 ^ 9) (hmax : bufLimitExceeded max n = false)
    (q : Bytes) :
    nsParseBuf max (natDigits n ++ colon :: q) =
      if q.length < n + 1 then .need
      else match q.drop n with
        | [] => .need
        | t :: _ => if t != comma then .error .missingComma
                    else .item (q.take n) ((natDigits n).length + 1 + n + 1) := by
  have hall := natDigits_all_digits n
  have hlen := (natDigits_length_le n 9 (by omega)).mpr hn
  have hpos : 0 < (natDigits n).length := List.length_pos_iff.mpr (natDigits_ne_nil n)
  have hfc : findColon 0 (natDigits n ++ colon :: q) = .found (natDigits n).length := by
    have := findColon_digits (natDigits n) 0 q hall (by omega) (by omega)
    simpa using this
  unfold nsParseBuf
  simp only [hfc, bufLeadingZero_natDigits, Bool.false_eq_true, if_false]
  have htake : List.take (natDigits n).length (natDigits n ++ colon :: q) = natDigits n := by simp
  simp only [htake, takeWhile_all isDigit _ hall, digitsVal_natDigits, hmax, Bool.false_eq_true, if_false]
  have h9 : ¬ ((natDigits n).length > 9) := by omega
  simp only [h9, if_false]
  have hl : (natDigits n ++ colon :: q).length = (natDigits n).length + 1 + q.length := by
    simp; omega
  have hd1 : List.drop ((natDigits n).length + 1 + n) (natDigits n ++ colon :: q) = q.drop n := by
    rw [show (natDigits n).length + 1 + n = (natDigits n).length + (1 + n) by omega]
    rw [List.drop_append]
    simp [List.drop_eq_nil_of_le]
    rw [show 1 + n = n + 1 by omega]; rfl
  have hd2 : List.drop ((natDigits n).length + 1) (natDigits n ++ colon :: q) = q := by
    rw [List.drop_append]
    simp [List.drop_eq_nil_of_le]
  rw [hl, hd1, hd2]
  by_cases hq : q.length < n + 1
  · have : (natDigits n).length + 1 + q.length < (natDigits n).length + 1 + (n + 1) := by omega
    simp [hq, this]
  · have : ¬ ((natDigits n).length + 1 + q.length < (natDigits n).length + 1 + (n + 1)) := by omega
    simp only [hq, this, if_false]
    rfl

/-- A complete frame at the front of the buffer is returned (netstring.cpp:96-100). -/
theorem nsParseBuf_frame (max : Option Nat) (p rest : Bytes) (hn : p.length < 10 ^ 9)
    (hmax : bufLimitExceeded max p.length = false) :
    nsParseBuf max (nsEncode p ++ rest) = .item p (nsEncode p).length := by
  have : nsEncode p ++ rest = natDigits p.length ++ colon :: (p ++ comma :: rest) := by
    simp [nsEncode]
  rw [this, nsParseBuf_header max p.length hn hmax]
  have h1 : ¬ ((p ++ comma :: rest).length < p.length + 1) := by simp
  have h2 : (p ++ comma :: rest).drop p.length = comma :: rest := by simp
  have h3 : (p ++ comma :: rest).take p.length = p := by simp
  simp only [h1, if_false, h2, h3]
  simp [nsEncode]; omega

theorem nsEncode_length (p : Bytes) : (nsEncode p).length = (natDigits p.length).length + 1 + p.length + 1 := by
  simp [nsEncode]; omega

/-- A proper prefix of a frame makes the parser ask for more data — never an error, never an item. -/
theorem nsParseBuf_proper_prefix (max : Option Nat) (p buf suffix : Bytes) (hn : p.length < 10 ^ 9)
    (hmax : bufLimitExceeded max p.length = false) (hs : suffix ≠ []) (he : buf ++ suffix = nsEncode p) :
    nsParseBuf max buf = .need := by
  have hall := natDigits_all_digits p.length
  have hlen := (natDigits_length_le p.length 9 (by omega)).mpr hn
  unfold nsEncode at he
  rcases List.append_eq_append_iff.mp he with ⟨as, h1, _⟩ | ⟨bs, h1, h2⟩
  · -- buf is a prefix of the digits
    have hb : ∀ b ∈ buf, isDigit b = true := fun b hb => hall b (by rw [h1]; simp [hb])
    have hl : buf.length ≤ 9 := by
      have := congrArg List.length h1; simp at this; omega
    unfold nsParseBuf
    rw [findColon_only_digits buf 0 hb (by omega)]
  · cases bs with
    | nil =>
      simp at h1
      unfold nsParseBuf
      rw [h1, findColon_only_digits _ 0 hall (by omega)]
    | cons c q =>
      simp only [List.cons_append, List.cons.injEq] at h2
      obtain ⟨hc, hq⟩ := h2
      subst hc
      rw [h1, nsParseBuf_header max p.length hn hmax]
      have : q.length < p.length + 1 := by
        have := congrArg List.length hq
        simp at this
        have : 0 < suffix.length := List.length_pos_iff.mpr hs
        omega
      simp [this]

theorem findColon_found : ∀ (buf : Bytes) (i hl : Nat), findColon i buf = .found hl → 1 ≤ hl ∧ i ≤ hl := by
  intro buf
  induction buf with
  | nil => intro i hl h; simp [findColon] at h
  | cons b bs ih =>
    intro i hl h
    simp only [findColon] at h
    by_cases hc : (b == colon) = true
    · simp only [hc, if_true] at h
      by_cases h0 : (i == 0) = true
      · simp [h0] at h
      · simp only [h0, Bool.false_eq_true, if_false, ColonResult.found.injEq] at h
        simp at h0; omega
    · simp only [hc, Bool.false_eq_true, if_false] at h
      by_cases h16 : i > 16
      · simp [h16] at h
      · simp only [h16, if_false] at h
        have := ih (i + 1) hl h; omega

/-- An item never reaches beyond the buffer (all reads are inside `Buffer[0..Size)`), and consumes at
    least the framing bytes. -/
theorem nsParseBuf_item_bounds (max : Option Nat) (buf p : Bytes) (n : Nat)
    (h : nsParseBuf max buf = .item p n) : p.length + 3 ≤ n ∧ n ≤ buf.length := by
  unfold nsParseBuf at h
  cases hfc : findColon 0 buf with
  | error e => simp [hfc] at h
  | notFound => simp [hfc] at h
  | found hl =>
    have hl1 := (findColon_found buf 0 hl hfc).1
    simp only [hfc] at h
    by_cases hz : bufLeadingZero buf = true
    · simp [hz] at h
    · simp only [hz, Bool.false_eq_true, if_false] at h
      by_cases h9 : (List.takeWhile isDigit (List.take hl buf)).length > 9
      · simp [h9] at h
      · simp only [h9, if_false] at h
        by_cases hm : bufLimitExceeded max (digitsVal 0 (List.takeWhile isDigit (List.take hl buf))) = true
        · simp [hm] at h
        · simp only [hm, Bool.false_eq_true, if_false] at h
          by_cases hsz : buf.length < hl + 1 + (digitsVal 0 (List.takeWhile isDigit (List.take hl buf)) + 1)
          · simp [hsz] at h
          · simp only [hsz, if_false] at h
            split at h
            · simp at h
            · split at h
              · simp at h
              · simp only [ParseResult.item.injEq] at h
                obtain ⟨hp, hn⟩ := h
                subst hp; subst hn
                simp only [List.length_take, List.length_drop]
                omega

/-! ### buffered reader: one call, and the read loop -/

theorem call_eof_flag (max : Option Nat) (buf : Bytes) (mr : Bool) (s : List Bytes) :
    nsBufCall max ⟨buf, mr, true⟩ s = (.eof, ⟨buf, mr, true⟩, s) := by
  simp [nsBufCall]

theorem call_eof_stream (max : Option Nat) (buf : Bytes) :
    nsBufCall max ⟨buf, true, false⟩ [] = (.eof, ⟨buf, true, true⟩, []) := by
  simp [nsBufCall]

theorem call_fill (max : Option Nat) (buf c : Bytes) (cs : List Bytes) :
    nsBufCall max ⟨buf, true, false⟩ (c :: cs) = nsBufCall max ⟨buf ++ c, false, false⟩ cs := by
  simp [nsBufCall]

theorem call_parse (max : Option Nat) (buf : Bytes) (s : List Bytes) :
    nsBufCall max ⟨buf, false, false⟩ s =
      match nsParseBuf max buf with
      | .need => (.needData, ⟨buf, true, false⟩, s)
      | .error e => (.error e, ⟨buf, false, false⟩, s)
      | .item p n => (.newItem p, ⟨buf.drop n, false, false⟩, s) := by
  simp only [nsBufCall, Bool.false_eq_true, if_false]
  cases nsParseBuf max buf <;> rfl

/-- The loop with fuel `f+1` on a context that must read and a stream `c :: cs` behaves like the loop on
    the filled context (the fill and the parse happen in the same call). -/
theorem run_fill (max : Option Nat) (f : Nat) (buf c : Bytes) (cs : List Bytes) (acc : List Bytes) (k : Nat) :
    nsBufRun max (f + 1) ⟨buf, true, false⟩ (c :: cs) acc k =
      nsBufRun max (f + 1) ⟨buf ++ c, false, false⟩ cs acc k := by
  simp only [nsBufRun, call_fill max buf c cs]

theorem runMeasure_mk (b : Bytes) (mr e : Bool) (s : List Bytes) :
    runMeasure ⟨b, mr, e⟩ s = b.length + s.flatten.length + 2 * s.length + (if mr then 0 else 1) := rfl

/-- A payload the buffered reader accepts: fewer than 10^9 bytes and within the caller's limit. -/
def okPayload (max : Option Nat) (p : Bytes) : Prop := p.length < 10 ^ 9 ∧ bufLimitExceeded max p.length = false

/-- `t` is empty or a proper prefix of a valid frame: a truncated last frame. -/
def tailOk (max : Option Nat) (t : Bytes) : Prop :=
  t = [] ∨ ∃ q suffix, okPayload max q ∧ suffix ≠ [] ∧ t ++ suffix = nsEncode q

theorem nsParseBuf_nil (max : Option Nat) : nsParseBuf max [] = .need := by
  simp [nsParseBuf, findColon]

theorem parse_cases (max : Option Nat) (buf flat : Bytes) (ps : List Bytes) (t : Bytes)
    (hps : ∀ p ∈ ps, okPayload max p) (ht : tailOk max t) (he : buf ++ flat = nsEncodeAll ps ++ t) :
    (∃ p ps', ps = p :: ps' ∧ nsParseBuf max buf = .item p (nsEncode p).length ∧
        (nsEncode p).length ≤ buf.length ∧ buf.drop (nsEncode p).length ++ flat = nsEncodeAll ps' ++ t) ∨
    (nsParseBuf max buf = .need ∧ ∀ p ps', ps = p :: ps' → buf.length < (nsEncode p).length) := by
  cases ps with
  | nil =>
    right
    simp only [nsEncodeAll, List.nil_append] at he
    refine ⟨?_, by intro p ps' h; cases h⟩
    rcases ht with ht | ⟨q, suffix, hq, hs, hqe⟩
    · subst ht
      have : buf = [] := (List.append_eq_nil_iff.mp he).1
      rw [this]; exact nsParseBuf_nil max
    · apply nsParseBuf_proper_prefix max q buf (flat ++ suffix) hq.1 hq.2
      · simp [hs]
      · rw [← List.append_assoc, he, hqe]
  | cons p ps' =>
    have hp := hps p (by simp)
    simp only [nsEncodeAll, List.append_assoc] at he
    by_cases hlen : (nsEncode p).length ≤ buf.length
    · left
      have : ∃ bs, buf = nsEncode p ++ bs ∧ nsEncodeAll ps' ++ t = bs ++ flat := by
        rcases List.append_eq_append_iff.mp he with ⟨as, h1, h2⟩ | ⟨bs, h1, h2⟩
        · have hl := congrArg List.length h1
          simp only [List.length_append] at hl
          have has : as = [] := List.eq_nil_of_length_eq_zero (by omega)
          subst has
          exact ⟨[], by simpa using h1.symm, by simpa using h2.symm⟩
        · exact ⟨bs, h1, h2⟩
      obtain ⟨bs, h1, h2⟩ := this
      refine ⟨p, ps', rfl, ?_, hlen, ?_⟩
      · rw [h1]; exact nsParseBuf_frame max p bs hp.1 hp.2
      · rw [h1]; simp [h2]
    · right
      refine ⟨?_, by intro p0 ps0 h; cases h; omega⟩
      rcases List.append_eq_append_iff.mp he with ⟨as, h1, _⟩ | ⟨bs, h1, _⟩
      · apply nsParseBuf_proper_prefix max p buf as hp.1 hp.2 _ h1.symm
        intro has; subst has; simp at h1; rw [h1] at hlen; omega
      · have hl := congrArg List.length h1
        simp only [List.length_append] at hl; omega

theorem flatten_cons_length (c : Bytes) (cs : List Bytes) : (c :: cs).flatten.length = c.length + cs.flatten.length := by
  simp only [List.flatten_cons, List.length_append]

theorem nsEncode_length_ge (p : Bytes) : 3 ≤ (nsEncode p).length := by
  rw [nsEncode_length]; have := List.length_pos_iff.mpr (natDigits_ne_nil p.length); omega

/-- Main induction: a chunked stream consisting of complete valid frames `ps` followed by a truncated
    frame `t` is split into exactly `ps`, then end-of-file. -/
theorem run_frames (max : Option Nat) : ∀ (fuel : Nat) (buf : Bytes) (mr : Bool) (stream : List Bytes) (acc : List Bytes)
    (k : Nat) (ps : List Bytes) (t : Bytes), (∀ p ∈ ps, okPayload max p) → tailOk max t →
    buf ++ stream.flatten = nsEncodeAll ps ++ t →
    (mr = true → ∀ p ps', ps = p :: ps' → buf.length < (nsEncode p).length) →
    runMeasure ⟨buf, mr, false⟩ stream < fuel →
    (nsBufRun max fuel ⟨buf, mr, false⟩ stream acc k).items = acc.reverse ++ ps ∧
    (nsBufRun max fuel ⟨buf, mr, false⟩ stream acc k).final = .eof := by
  intro fuel
  induction fuel with
  | zero => intro buf mr stream acc k ps t _ _ _ _ hm; omega
  | succ f ih =>
    -- states that parse first (mustRead = false)
    have key : ∀ (buf : Bytes) (stream : List Bytes) (acc : List Bytes) (k : Nat) (ps : List Bytes) (t : Bytes),
        (∀ p ∈ ps, okPayload max p) → tailOk max t →
        buf ++ stream.flatten = nsEncodeAll ps ++ t →
        buf.length + stream.flatten.length + 2 * stream.length + 1 < f + 1 →
        (nsBufRun max (f + 1) ⟨buf, false, false⟩ stream acc k).items = acc.reverse ++ ps ∧
        (nsBufRun max (f + 1) ⟨buf, false, false⟩ stream acc k).final = .eof := by
      intro buf stream acc k ps t hps ht he hm
      simp only [nsBufRun, call_parse max buf stream]
      rcases parse_cases max buf stream.flatten ps t hps ht he with ⟨p, ps', hpp, hit, hle, hd⟩ | ⟨hnd, hlt⟩
      · simp only [hit]
        subst hpp
        have hl3 := nsEncode_length_ge p
        have := ih (buf.drop (nsEncode p).length) false stream (p :: acc) (k + 1) ps' t
          (fun x hx => hps x (by simp [hx])) ht hd (by intro h; cases h)
          (by rw [runMeasure_mk, List.length_drop]; simp only [Bool.false_eq_true, if_false]; omega)
        simpa using this
      · simp only [hnd]
        exact ih buf true stream acc (k + 1) ps t hps ht he (fun _ => hlt)
          (by rw [runMeasure_mk]; simp only [if_true]; omega)
    intro buf mr stream acc k ps t hps ht he hmr hm
    rw [runMeasure_mk] at hm
    cases mr with
    | false =>
      apply key buf stream acc k ps t hps ht he
      simpa using hm
    | true =>
      simp only [if_true] at hm
      cases stream with
      | nil =>
        simp only [nsBufRun, call_eof_stream max buf]
        cases ps with
        | nil => simp
        | cons p ps' =>
          exfalso
          have h1 := hmr rfl p ps' rfl
          have h2 := congrArg List.length he
          simp only [List.flatten_nil, List.append_nil, nsEncodeAll, List.length_append] at h2
          omega
      | cons c cs =>
        rw [run_fill max f buf c cs acc k]
        apply key _ cs acc k ps t hps ht
        · simpa [List.append_assoc] using he
        · rw [flatten_cons_length, List.length_cons] at hm
          simp only [List.length_append]; omega

/-- Totality of the read loop on arbitrary input: with `runMeasure + 1` calls allowed it always ends in
    end-of-file or an error, never by exhausting the fuel. -/
theorem run_total (max : Option Nat) : ∀ (fuel : Nat) (buf : Bytes) (mr eof : Bool) (stream : List Bytes)
    (acc : List Bytes) (k : Nat),
    runMeasure ⟨buf, mr, eof⟩ stream < fuel →
    (nsBufRun max fuel ⟨buf, mr, eof⟩ stream acc k).final ≠ .outOfFuel ∧
    (nsBufRun max fuel ⟨buf, mr, eof⟩ stream acc k).calls ≤ k + runMeasure ⟨buf, mr, eof⟩ stream + 1 := by
  intro fuel
  induction fuel with
  | zero => intro buf mr eof stream acc k hm; omega
  | succ f ih =>
    have key : ∀ (buf : Bytes) (stream : List Bytes) (acc : List Bytes) (k : Nat),
        buf.length + stream.flatten.length + 2 * stream.length + 1 < f + 1 →
        (nsBufRun max (f + 1) ⟨buf, false, false⟩ stream acc k).final ≠ .outOfFuel ∧
        (nsBufRun max (f + 1) ⟨buf, false, false⟩ stream acc k).calls ≤
          k + (buf.length + stream.flatten.length + 2 * stream.length + 1) + 1 := by
      intro buf stream acc k hm
      simp only [nsBufRun, call_parse max buf stream]
      cases hp : nsParseBuf max buf with
      | need =>
        simp only
        have := ih buf true false stream acc (k + 1) (by rw [runMeasure_mk]; simp only [if_true]; omega)
        rw [runMeasure_mk] at this
        simp only [if_true] at this
        exact ⟨this.1, by have := this.2; omega⟩
      | error e => simp
      | item p n =>
        simp only
        have hb := nsParseBuf_item_bounds max buf p n hp
        have := ih (buf.drop n) false false stream (p :: acc) (k + 1)
          (by rw [runMeasure_mk, List.length_drop]; simp only [Bool.false_eq_true, if_false]; omega)
        rw [runMeasure_mk, List.length_drop] at this
        simp only [Bool.false_eq_true, if_false] at this
        exact ⟨this.1, by have := this.2; omega⟩
    intro buf mr eof stream acc k hm
    rw [runMeasure_mk] at hm ⊢
    cases eof with
    | true => simp only [nsBufRun, call_eof_flag max buf mr stream]; simp
    | false =>
      cases mr with
      | false =>
        have := key buf stream acc k (by simpa using hm)
        simpa using this
      | true =>
        simp only [if_true] at hm ⊢
        cases stream with
        | nil => simp only [nsBufRun, call_eof_stream max buf]; simp
        | cons c cs =>
          rw [run_fill max f buf c cs acc k]
          rw [flatten_cons_length, List.length_cons] at hm ⊢
          have := key (buf ++ c) cs acc k (by simp only [List.length_append]; omega)
          refine ⟨this.1, ?_⟩
          have h2 := this.2
          simp only [List.length_append] at h2
          omega

/-! ### hostile input: what the items returned can be -/

def cost (ps : List Bytes) : Nat := (ps.map (fun p => p.length + 3)).sum

theorem cost_append (a b : List Bytes) : cost (a ++ b) = cost a + cost b := by
  simp [cost, List.map_append, List.sum_append]

/-- The items returned never cost more than the bytes that were available: every item consumes its length
    plus at least three framing bytes of the buffer, and the buffer only grows by what the stream delivers. -/
theorem run_items_bound (max : Option Nat) : ∀ (fuel : Nat) (buf : Bytes) (mr eof : Bool) (stream : List Bytes)
    (acc : List Bytes) (k : Nat),
    cost (nsBufRun max fuel ⟨buf, mr, eof⟩ stream acc k).items ≤ cost acc.reverse + buf.length + stream.flatten.length := by
  intro fuel
  induction fuel with
  | zero => intro buf mr eof stream acc k; simp [nsBufRun]; omega
  | succ f ih =>
    have key : ∀ (buf : Bytes) (stream : List Bytes) (acc : List Bytes) (k : Nat),
        cost (nsBufRun max (f + 1) ⟨buf, false, false⟩ stream acc k).items ≤ cost acc.reverse + buf.length + stream.flatten.length := by
      intro buf stream acc k
      simp only [nsBufRun, call_parse max buf stream]
      cases hp : nsParseBuf max buf with
      | need => simp only; exact ih buf true false stream acc (k + 1)
      | error e => simp; omega
      | item p n =>
        simp only
        have hb := nsParseBuf_item_bounds max buf p n hp
        have := ih (buf.drop n) false false stream (p :: acc) (k + 1)
        simp only [List.reverse_cons, cost_append, List.length_drop] at this
        have hc : cost [p] = p.length + 3 := by simp [cost]
        omega
    intro buf mr eof stream acc k
    cases eof with
    | true => simp [nsBufRun, call_eof_flag max buf mr stream]; omega
    | false =>
      cases mr with
      | false => exact key buf stream acc k
      | true =>
        cases stream with
        | nil => simp [nsBufRun, call_eof_stream max buf]
        | cons c cs =>
          rw [run_fill max f buf c cs acc k]
          have := key (buf ++ c) cs acc k
          rw [flatten_cons_length]
          simp only [List.length_append] at this
          omega

theorem findColon_found_split : ∀ (buf : Bytes) (i hl : Nat), findColon i buf = .found hl →
    ∃ pre post, buf = pre ++ colon :: post ∧ i + pre.length = hl ∧ colon ∉ pre := by
  intro buf
  induction buf with
  | nil => intro i hl h; simp [findColon] at h
  | cons b bs ih =>
    intro i hl h
    simp only [findColon] at h
    by_cases hc : (b == colon) = true
    · simp only [hc, if_true] at h
      by_cases h0 : (i == 0) = true
      · simp [h0] at h
      · simp only [h0, Bool.false_eq_true, if_false, ColonResult.found.injEq] at h
        have hb : b = colon := by simpa using hc
        exact ⟨[], bs, by simp [hb], by simpa using h, by simp⟩
    · simp only [hc, Bool.false_eq_true, if_false] at h
      by_cases h16 : i > 16
      · simp [h16] at h
      · simp only [h16, if_false] at h
        obtain ⟨pre, post, he, hl', hn⟩ := ih (i + 1) hl h
        refine ⟨b :: pre, post, by simp [he], by simp; omega, ?_⟩
        intro hm
        rcases List.mem_cons.mp hm with hm | hm
        · have : (b == colon) = true := by simp [hm]
          exact hc this
        · exact hn hm

/-- Whatever the buffered parser returns as an item is framed in the buffer: a non-empty header without ':',
    then ':', the item, ','; the item's length is the number the header's leading digits denote, and it is
    within the limit. -/
theorem nsParseBuf_item_shape (max : Option Nat) (buf p : Bytes) (n : Nat)
    (h : nsParseBuf max buf = .item p n) :
    ∃ pre rest, buf = pre ++ colon :: (p ++ comma :: rest) ∧ n = pre.length + 1 + p.length + 1 ∧ pre ≠ [] ∧
      colon ∉ pre ∧ p.length = digitsVal 0 (pre.takeWhile isDigit) ∧ bufLimitExceeded max p.length = false := by
  unfold nsParseBuf at h
  cases hfc : findColon 0 buf with
  | error e => simp [hfc] at h
  | notFound => simp [hfc] at h
  | found hl =>
    have hl1 := (findColon_found buf 0 hl hfc).1
    obtain ⟨pre, post, hbuf, hpl, hnc⟩ := findColon_found_split buf 0 hl hfc
    simp only [Nat.zero_add] at hpl
    simp only [hfc] at h
    have htake : List.take hl buf = pre := by rw [hbuf, ← hpl]; simp
    rw [htake] at h
    by_cases hz : bufLeadingZero buf = true
    · simp [hz] at h
    · simp only [hz, Bool.false_eq_true, if_false] at h
      by_cases h9 : (List.takeWhile isDigit pre).length > 9
      · simp [h9] at h
      · simp only [h9, if_false] at h
        by_cases hm : bufLimitExceeded max (digitsVal 0 (List.takeWhile isDigit pre)) = true
        · simp [hm] at h
        · simp only [hm, Bool.false_eq_true, if_false] at h
          by_cases hsz : buf.length < hl + 1 + (digitsVal 0 (List.takeWhile isDigit pre) + 1)
          · simp [hsz] at h
          · simp only [hsz, if_false] at h
            have hd1 : List.drop (hl + 1) buf = post := by
              rw [hbuf, ← hpl, List.drop_append]; simp [List.drop_eq_nil_of_le]
            have hd2 : List.drop (hl + 1 + digitsVal 0 (List.takeWhile isDigit pre)) buf =
                post.drop (digitsVal 0 (List.takeWhile isDigit pre)) := by
              rw [← hd1, List.drop_drop]
            rw [hd1, hd2] at h
            have hlen : buf.length = hl + 1 + post.length := by rw [hbuf, ← hpl]; simp; omega
            cases hdp : post.drop (digitsVal 0 (List.takeWhile isDigit pre)) with
            | nil => simp [hdp] at h
            | cons t rest =>
              simp only [hdp] at h
              by_cases htc : (t != comma) = true
              · simp [htc] at h
              · simp only [htc, Bool.false_eq_true, if_false, ParseResult.item.injEq] at h
                obtain ⟨hp, hn⟩ := h
                have ht : t = comma := by simpa using htc
                have hpl2 : p.length = digitsVal 0 (List.takeWhile isDigit pre) := by
                  rw [← hp]; simp; omega
                have hpost : post = p ++ comma :: rest := by
                  rw [← List.take_append_drop (digitsVal 0 (List.takeWhile isDigit pre)) post, hdp, hp, ht]
                refine ⟨pre, rest, by rw [hbuf, hpost], by omega, ?_, hnc, hpl2, by rw [hpl2]; simpa using hm⟩
                intro he; rw [he] at hpl; simp at hpl; omega

end Icinga.C20

/-
  C20 — lemmas that connect the specification predicates of IcingaModel/C20/Spec.lean (read off the
  frame *format*) with the format's encoder: `specFrame`/`specHeader` recognise exactly canonical frames/headers.
-/
import IcingaProofs.C20.Lemmas
import IcingaModel.C20.Spec

namespace Icinga.C20

theorem takeWhile_append_stop {α : Type} (p : α → Bool) : ∀ (l : List α) (x : α) (r : List α),
    (∀ b ∈ l, p b = true) → p x = false → (l ++ x :: r).takeWhile p = l := by
  intro l
  induction l with
  | nil => intro x r _ hx; simp [hx]
  | cons a l ih =>
    intro x r h hx
    simp only [List.cons_append, List.takeWhile_cons, h a (by simp), if_true]
    rw [ih x r (fun b hb => h b (by simp [hb])) hx]

theorem takeWhile_natDigits (n : Nat) (r : Bytes) : (natDigits n ++ colon :: r).takeWhile isDigit = natDigits n :=
  takeWhile_append_stop isDigit _ colon r (natDigits_all_digits n) colon_not_digit

theorem specFrame_complete (p rest : Bytes) (hn : p.length < 10 ^ 9) :
    specFrame (nsEncode p ++ rest) = some (p, rest) := by
  have he : nsEncode p ++ rest = natDigits p.length ++ colon :: (p ++ comma :: rest) := by simp [nsEncode]
  have hlen := (natDigits_length_le p.length 9 (by omega)).mpr hn
  unfold specFrame
  simp only
  rw [he, takeWhile_natDigits, digitsVal_natDigits]
  have h1 : List.take p.length (List.drop ((natDigits p.length).length + 1) (natDigits p.length ++ colon :: (p ++ comma :: rest))) = p := by
    rw [List.drop_append]; simp [List.drop_eq_nil_of_le]
  rw [h1, ← he]
  have h2 : (nsEncode p).isPrefixOf (nsEncode p ++ rest) = true := by
    simp [List.isPrefixOf_iff_prefix]
  simp [h2, hlen]

theorem specFrame_sound (bs p rest : Bytes) (h : specFrame bs = some (p, rest)) :
    bs = nsEncode p ++ rest ∧ p.length < 10 ^ 9 := by
  unfold specFrame at h
  simp only at h
  split at h
  · rename_i hc
    simp only [Option.some.injEq, Prod.mk.injEq] at h
    obtain ⟨hp, hr⟩ := h
    rw [hp] at hc hr
    obtain ⟨h9, hpre⟩ := hc
    have hpre' := List.isPrefixOf_iff_prefix.mp hpre
    obtain ⟨t, ht⟩ := hpre'
    have hbs : bs = nsEncode p ++ rest := by
      rw [← hr, ← ht]; simp
    refine ⟨hbs, ?_⟩
    have he : bs = natDigits p.length ++ colon :: (p ++ comma :: rest) := by rw [hbs]; simp [nsEncode]
    rw [he, takeWhile_natDigits] at h9
    exact (natDigits_length_le p.length 9 (by omega)).mp h9
  · simp at h


theorem takeWhile_append_drop_length {α : Type} (p : α → Bool) : ∀ (l : List α),
    l.takeWhile p ++ l.drop (l.takeWhile p).length = l := by
  intro l
  induction l with
  | nil => rfl
  | cons a l ih =>
    by_cases h : p a = true
    · simp only [List.takeWhile_cons, h, if_true, List.length_cons, List.drop_succ_cons, List.cons_append, ih]
    · simp [h]

theorem specHeader_complete (n : Nat) (tail : Bytes) (hn : n < 10 ^ 9) :
    specHeader (natDigits n ++ colon :: tail) = some (n, tail.length) := by
  have hlen := (natDigits_length_le n 9 (by omega)).mpr hn
  unfold specHeader
  simp only
  rw [takeWhile_natDigits, digitsVal_natDigits]
  have : List.drop (natDigits n).length (natDigits n ++ colon :: tail) = colon :: tail := by simp
  rw [this]
  simp [natDigits_ne_nil, hlen]

theorem withinLimit_iff (max : Option Nat) (n : Nat) : withinLimit max n = !tlsLimitExceeded max n := by
  cases max with
  | none => rfl
  | some m => by_cases h : m < n <;> simp [withinLimit, tlsLimitExceeded, h] <;> omega

theorem acceptedPrefix_all (max : Option Nat) : ∀ ps : List Bytes, (∀ p ∈ ps, bufWithin max p = true) →
    acceptedPrefix max ps = (ps, true) := by
  intro ps
  induction ps with
  | nil => intro _; rfl
  | cons p ps ih =>
    intro h
    simp only [acceptedPrefix, h p (by simp), if_true, ih (fun q hq => h q (by simp [hq]))]

theorem itemsOf_items (ps : List Bytes) (tl : List SObs) : itemsOf (ps.map .item ++ tl) = ps ++ itemsOf tl := by
  induction ps with
  | nil => rfl
  | cons p ps ih => simp [itemsOf, ih]

end Icinga.C20

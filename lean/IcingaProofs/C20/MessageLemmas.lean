/-
  C20 — lemmas about JsonRpc::DecodeMessage's model: a decoded object comes from a text starting with '{'.
-/
import IcingaModel.C20.Message
import IcingaProofs.C20.JsonLemmas

namespace Icinga.C20

theorem decodeValueF_obj_head {N : Type} (c : NumCodec N) (f : Nat) (bs : List UInt8)
    (kvs : List (List Char × JValue N)) (r : List UInt8)
    (h : decodeValueF c f bs = some (.obj kvs, r)) : ∃ t, bs = 123 :: t := by
  cases f with
  | zero => simp [decodeValueF] at h
  | succ f =>
    cases bs with
    | nil => simp [decodeValueF] at h
    | cons b rest =>
      by_cases hb : b = 123
      · exact ⟨rest, by rw [hb]⟩
      · exfalso
        simp only [decodeValueF] at h
        repeat' split at h
        all_goals first
          | contradiction
          | (simp [Option.map] at h; done)
          | (simp [Option.map_eq_some_iff] at h; done)
          | (rcases Option.map_eq_some_iff.mp h with ⟨_, _, hx⟩; simp at hx; done)
          | (simp [decodeNumber] at h; split at h <;> simp at h; done)

theorem firstNonWs_cons_brace (t : List UInt8) : firstNonWs (123 :: t) = some 123 := by
  simp [firstNonWs]

theorem depth_nest {N : Type} (n : Nat) : depth (nest n : JValue N) = n + 1 := by
  induction n with
  | zero => simp [nest, depth, depthElems]
  | succ n ih => simp [nest, depth, depthElems, ih]

theorem encode_nest_length {N : Type} (c : NumCodec N) (n : Nat) : (jsonEncode c (nest n : JValue N)).length = 2 * (n + 1) := by
  induction n with
  | zero => simp [nest, jsonEncode]
  | succ n ih => simp [nest, jsonEncode, encodeRestElems, ih]; omega

end Icinga.C20

/-
  C20 — UTF-8 sanitising (`Utility::ValidateUTF8` / utf8cpp `replace_invalid`) around the JSON codec:
  lemmas and theorems for IcingaModel/C20/Utf8.lean.

  Main results (the `_aux` ones are re-exported under their plain names elsewhere):
  * `validateNext_utf8EncodeChar`, `validateNext_ok_inv` — `validateNext` accepts exactly the
    encodings of scalar values;
  * `utf8_roundtrip_aux`, `utf8Decode_eq_some_aux`, `utf8Decode_eq_some_iff`;
  * `sanitise_fixes_wellformed_aux`, `sanitise_wellformed_aux`, `sanitise_idempotent_aux`,
    `sanitise_cons` (fuel-free unfolding of the loop; fuel is adequate), `sanitise_ascii`;
  * `validateNext_invalidLead_iff`, `validateNext_notEnoughRoom` — error classes;
  * `jsonEncode_ascii`, `toJ_toB`, `json_roundtrip_bytes_aux`, `json_roundtrip_bytes_wellformed`,
    `json_roundtrip_bytes_toB`.
-/
import IcingaModel.C20.Utf8
import IcingaProofs.C20.JsonLemmas
namespace Icinga.C20

/-! ## Octets and predicates -/

theorem u8_toNat_ofNat_lt (n : Nat) (h : n < 256) : (UInt8.ofNat n).toNat = n := by
  simp [UInt8.toNat_ofNat']; omega

theorem isTrail_iff (b : UInt8) : isTrail b = true ↔ b.toNat / 64 = 2 := by
  simp [isTrail]

theorem isCodePointValid_iff (cp : Nat) : isCodePointValid cp = true ↔ cp.isValidChar := by
  simp only [isCodePointValid, isSurrogate, Nat.isValidChar, Bool.and_eq_true, Bool.not_eq_true',
    decide_eq_true_eq, Bool.and_eq_false_iff, decide_eq_false_iff_not]
  omega

/-- Number of bytes of the shortest encoding. -/
def utf8ShortestLength (cp : Nat) : Nat :=
  if cp < 0x80 then 1 else if cp < 0x800 then 2 else if cp < 0x10000 then 3 else 4

theorem isOverlong_false_iff (cp len : Nat) : isOverlongSequence cp len = false ↔
    (cp < 0x10000 → len = utf8ShortestLength cp) := by
  unfold isOverlongSequence utf8ShortestLength
  split
  · simp; omega
  · split
    · simp; omega
    · split
      · simp; omega
      · simp; omega

theorem checkCodePoint_ok_iff (cp len : Nat) : checkCodePoint cp len = .ok () ↔
    cp.isValidChar ∧ (cp < 0x10000 → len = utf8ShortestLength cp) := by
  rw [← isCodePointValid_iff, ← isOverlong_false_iff]
  unfold checkCodePoint
  cases isCodePointValid cp <;> cases isOverlongSequence cp len <;> simp


/-! ## `validateNext`: success cases -/

theorem validateNext_of_getSequence (lead : UInt8) (after rest : List UInt8) (cp : Nat)
    (hg : getSequence (sequenceLength lead) lead after = .ok (cp, rest))
    (hc : checkCodePoint cp (sequenceLength lead) = .ok ()) :
    validateNext (lead :: after) = .ok (cp, rest) := by
  simp [validateNext, hg, hc]

theorem increaseSafely_trail (b : UInt8) (rest : List UInt8) (h : b.toNat / 64 = 2) :
    increaseSafely (b :: rest) = .ok (b, rest) := by
  simp [increaseSafely, isTrail, h]

theorem validateNext_len1 (b : UInt8) (rest : List UInt8) (h : b.toNat < 0x80) :
    validateNext (b :: rest) = .ok (b.toNat, rest) := by
  have hs : sequenceLength b = 1 := by simp [sequenceLength, h]
  apply validateNext_of_getSequence
  · rw [hs]; rfl
  · rw [hs, checkCodePoint_ok_iff]
    refine ⟨by simp only [Nat.isValidChar]; omega, ?_⟩
    intro _; simp only [utf8ShortestLength]; rw [if_pos h]

theorem validateNext_len2 (b0 b1 : UInt8) (rest : List UInt8) (h0 : b0.toNat / 32 = 6)
    (h1 : b1.toNat / 64 = 2) (hcp : 0x80 ≤ b0.toNat * 64 % 0x800 + b1.toNat % 64) :
    validateNext (b0 :: b1 :: rest) = .ok (b0.toNat * 64 % 0x800 + b1.toNat % 64, rest) := by
  have hs : sequenceLength b0 = 2 := by
    unfold sequenceLength; rw [if_neg (by omega), if_pos h0]
  apply validateNext_of_getSequence
  · rw [hs]
    show getSequence2 _ _ = _
    rw [getSequence2, increaseSafely_trail _ _ h1]
  · rw [hs, checkCodePoint_ok_iff]
    refine ⟨by simp only [Nat.isValidChar]; omega, ?_⟩
    intro _; simp only [utf8ShortestLength]; rw [if_neg (by omega), if_pos (by omega)]

theorem validateNext_len3 (b0 b1 b2 : UInt8) (rest : List UInt8) (h0 : b0.toNat / 16 = 14)
    (h1 : b1.toNat / 64 = 2) (h2 : b2.toNat / 64 = 2)
    (hcp : 0x800 ≤ b0.toNat * 4096 % 0x10000 + b1.toNat * 64 % 0x1000 + b2.toNat % 64)
    (hv : (b0.toNat * 4096 % 0x10000 + b1.toNat * 64 % 0x1000 + b2.toNat % 64).isValidChar) :
    validateNext (b0 :: b1 :: b2 :: rest) =
      .ok (b0.toNat * 4096 % 0x10000 + b1.toNat * 64 % 0x1000 + b2.toNat % 64, rest) := by
  have hs : sequenceLength b0 = 3 := by
    unfold sequenceLength; rw [if_neg (by omega), if_neg (by omega), if_pos h0]
  apply validateNext_of_getSequence
  · rw [hs]
    show getSequence3 _ _ = _
    rw [getSequence3, increaseSafely_trail _ _ h1]
    simp only
    rw [increaseSafely_trail _ _ h2]
  · rw [hs, checkCodePoint_ok_iff]
    refine ⟨hv, ?_⟩
    intro _; simp only [utf8ShortestLength]; rw [if_neg (by omega), if_neg (by omega), if_pos (by omega)]

theorem validateNext_len4 (b0 b1 b2 b3 : UInt8) (rest : List UInt8) (h0 : b0.toNat / 8 = 30)
    (h1 : b1.toNat / 64 = 2) (h2 : b2.toNat / 64 = 2) (h3 : b3.toNat / 64 = 2)
    (hcp : 0x10000 ≤ b0.toNat * 262144 % 0x200000 + b1.toNat * 4096 % 0x40000
      + b2.toNat * 64 % 0x1000 + b3.toNat % 64)
    (hv : (b0.toNat * 262144 % 0x200000 + b1.toNat * 4096 % 0x40000
      + b2.toNat * 64 % 0x1000 + b3.toNat % 64).isValidChar) :
    validateNext (b0 :: b1 :: b2 :: b3 :: rest) =
      .ok (b0.toNat * 262144 % 0x200000 + b1.toNat * 4096 % 0x40000
        + b2.toNat * 64 % 0x1000 + b3.toNat % 64, rest) := by
  have hs : sequenceLength b0 = 4 := by
    unfold sequenceLength
    rw [if_neg (by omega), if_neg (by omega), if_neg (by omega), if_pos h0]
  apply validateNext_of_getSequence
  · rw [hs]
    show getSequence4 _ _ = _
    rw [getSequence4, increaseSafely_trail _ _ h1]
    simp only
    rw [increaseSafely_trail _ _ h2]
    simp only
    rw [increaseSafely_trail _ _ h3]
  · rw [hs, checkCodePoint_ok_iff]
    refine ⟨hv, ?_⟩
    intro h; omega

/-- Theorem 1, per character. -/
theorem validateNext_utf8EncodeChar (c : Char) (rest : List UInt8) :
    validateNext (utf8EncodeChar c ++ rest) = .ok (c.toNat, rest) := by
  have hv : c.toNat < 55296 ∨ 57343 < c.toNat ∧ c.toNat < 1114112 := c.valid
  unfold utf8EncodeChar
  simp only
  by_cases h1 : c.toNat < 0x80
  · rw [if_pos h1]
    have hb := u8_toNat_ofNat_lt c.toNat (by omega)
    have := validateNext_len1 (UInt8.ofNat c.toNat) rest (by omega)
    rw [hb] at this
    exact this
  rw [if_neg h1]
  by_cases h2 : c.toNat < 0x800
  · rw [if_pos h2]
    have e0 := u8_toNat_ofNat_lt (c.toNat / 64 + 0xC0) (by omega)
    have e1 := u8_toNat_ofNat_lt (c.toNat % 64 + 0x80) (by omega)
    have := validateNext_len2 (UInt8.ofNat (c.toNat / 64 + 0xC0)) (UInt8.ofNat (c.toNat % 64 + 0x80))
      rest (by omega) (by omega) (by omega)
    rw [e0, e1] at this
    rw [show (c.toNat / 64 + 0xC0) * 64 % 0x800 + (c.toNat % 64 + 0x80) % 64 = c.toNat by omega] at this
    exact this
  rw [if_neg h2]
  by_cases h3 : c.toNat < 0x10000
  · rw [if_pos h3]
    have e0 := u8_toNat_ofNat_lt (c.toNat / 4096 + 0xE0) (by omega)
    have e1 := u8_toNat_ofNat_lt (c.toNat / 64 % 64 + 0x80) (by omega)
    have e2 := u8_toNat_ofNat_lt (c.toNat % 64 + 0x80) (by omega)
    have e : (c.toNat / 4096 + 0xE0) * 4096 % 0x10000 + (c.toNat / 64 % 64 + 0x80) * 64 % 0x1000
        + (c.toNat % 64 + 0x80) % 64 = c.toNat := by omega
    have := validateNext_len3 (UInt8.ofNat (c.toNat / 4096 + 0xE0))
      (UInt8.ofNat (c.toNat / 64 % 64 + 0x80)) (UInt8.ofNat (c.toNat % 64 + 0x80))
      rest (by omega) (by omega) (by omega) (by rw [e0, e1, e2, e]; omega)
      (by rw [e0, e1, e2, e]; exact c.valid)
    rw [e0, e1, e2, e] at this
    exact this
  · rw [if_neg h3]
    have e0 := u8_toNat_ofNat_lt (c.toNat / 262144 + 0xF0) (by omega)
    have e1 := u8_toNat_ofNat_lt (c.toNat / 4096 % 64 + 0x80) (by omega)
    have e2 := u8_toNat_ofNat_lt (c.toNat / 64 % 64 + 0x80) (by omega)
    have e3 := u8_toNat_ofNat_lt (c.toNat % 64 + 0x80) (by omega)
    have e : (c.toNat / 262144 + 0xF0) * 262144 % 0x200000
        + (c.toNat / 4096 % 64 + 0x80) * 4096 % 0x40000
        + (c.toNat / 64 % 64 + 0x80) * 64 % 0x1000
        + (c.toNat % 64 + 0x80) % 64 = c.toNat := by omega
    have := validateNext_len4 (UInt8.ofNat (c.toNat / 262144 + 0xF0))
      (UInt8.ofNat (c.toNat / 4096 % 64 + 0x80))
      (UInt8.ofNat (c.toNat / 64 % 64 + 0x80)) (UInt8.ofNat (c.toNat % 64 + 0x80))
      rest (by omega) (by omega) (by omega) (by omega) (by rw [e0, e1, e2, e3, e]; omega)
      (by rw [e0, e1, e2, e3, e]; exact c.valid)
    rw [e0, e1, e2, e3, e] at this
    exact this


/-! ## `validateNext`: inversion -/

theorem increaseSafely_ok_inv (l : List UInt8) (b : UInt8) (r : List UInt8)
    (h : increaseSafely l = .ok (b, r)) : l = b :: r ∧ b.toNat / 64 = 2 := by
  cases l with
  | nil => simp [increaseSafely] at h
  | cons x xs =>
    simp only [increaseSafely] at h
    split at h
    · rename_i ht
      simp only [Except.ok.injEq, Prod.mk.injEq] at h
      rw [isTrail_iff] at ht
      obtain ⟨rfl, rfl⟩ := h
      exact ⟨rfl, ht⟩
    · simp at h

theorem validateNext_cons_ok_inv (lead : UInt8) (after rest : List UInt8) (cp : Nat)
    (h : validateNext (lead :: after) = .ok (cp, rest)) :
    getSequence (sequenceLength lead) lead after = .ok (cp, rest) ∧
      checkCodePoint cp (sequenceLength lead) = .ok () := by
  simp only [validateNext] at h
  split at h
  · simp at h
  · rename_i cp' rest' hg
    split at h
    · simp at h
    · rename_i hc
      simp only [Except.ok.injEq, Prod.mk.injEq] at h
      obtain ⟨rfl, rfl⟩ := h
      exact ⟨hg, hc⟩

theorem getSequence2_ok_inv (lead : UInt8) (after rest : List UInt8) (cp : Nat)
    (h : getSequence2 lead after = .ok (cp, rest)) :
    ∃ b1, after = b1 :: rest ∧ b1.toNat / 64 = 2 ∧ cp = lead.toNat * 64 % 0x800 + b1.toNat % 64 := by
  unfold getSequence2 at h
  split at h
  · simp at h
  · rename_i b1 r1 h1
    obtain ⟨rfl, t1⟩ := increaseSafely_ok_inv _ _ _ h1
    simp only [Except.ok.injEq, Prod.mk.injEq] at h
    obtain ⟨rfl, rfl⟩ := h
    exact ⟨b1, rfl, t1, rfl⟩

theorem getSequence3_ok_inv (lead : UInt8) (after rest : List UInt8) (cp : Nat)
    (h : getSequence3 lead after = .ok (cp, rest)) :
    ∃ b1 b2, after = b1 :: b2 :: rest ∧ b1.toNat / 64 = 2 ∧ b2.toNat / 64 = 2 ∧
      cp = lead.toNat * 4096 % 0x10000 + b1.toNat * 64 % 0x1000 + b2.toNat % 64 := by
  unfold getSequence3 at h
  split at h
  · simp at h
  · rename_i b1 r1 h1
    obtain ⟨rfl, t1⟩ := increaseSafely_ok_inv _ _ _ h1
    split at h
    · simp at h
    · rename_i b2 r2 h2
      obtain ⟨rfl, t2⟩ := increaseSafely_ok_inv _ _ _ h2
      simp only [Except.ok.injEq, Prod.mk.injEq] at h
      obtain ⟨rfl, rfl⟩ := h
      exact ⟨b1, b2, rfl, t1, t2, rfl⟩

theorem getSequence4_ok_inv (lead : UInt8) (after rest : List UInt8) (cp : Nat)
    (h : getSequence4 lead after = .ok (cp, rest)) :
    ∃ b1 b2 b3, after = b1 :: b2 :: b3 :: rest ∧ b1.toNat / 64 = 2 ∧ b2.toNat / 64 = 2 ∧
      b3.toNat / 64 = 2 ∧
      cp = lead.toNat * 262144 % 0x200000 + b1.toNat * 4096 % 0x40000 + b2.toNat * 64 % 0x1000
        + b3.toNat % 64 := by
  unfold getSequence4 at h
  split at h
  · simp at h
  · rename_i b1 r1 h1
    obtain ⟨rfl, t1⟩ := increaseSafely_ok_inv _ _ _ h1
    split at h
    · simp at h
    · rename_i b2 r2 h2
      obtain ⟨rfl, t2⟩ := increaseSafely_ok_inv _ _ _ h2
      split at h
      · simp at h
      · rename_i b3 r3 h3
        obtain ⟨rfl, t3⟩ := increaseSafely_ok_inv _ _ _ h3
        simp only [Except.ok.injEq, Prod.mk.injEq] at h
        obtain ⟨rfl, rfl⟩ := h
        exact ⟨b1, b2, b3, rfl, t1, t2, t3, rfl⟩

theorem sequenceLength_cases (b : UInt8) :
    (sequenceLength b = 1 ∧ b.toNat < 0x80) ∨ (sequenceLength b = 2 ∧ b.toNat / 32 = 6) ∨
    (sequenceLength b = 3 ∧ b.toNat / 16 = 14) ∨ (sequenceLength b = 4 ∧ b.toNat / 8 = 30) ∨
    (sequenceLength b = 0 ∧ (0x80 ≤ b.toNat ∧ b.toNat < 0xC0 ∨ 0xF8 ≤ b.toNat)) := by
  unfold sequenceLength
  split
  · exact .inl ⟨rfl, by assumption⟩
  · split
    · exact .inr (.inl ⟨rfl, by assumption⟩)
    · split
      · exact .inr (.inr (.inl ⟨rfl, by assumption⟩))
      · split
        · exact .inr (.inr (.inr (.inl ⟨rfl, by assumption⟩)))
        · exact .inr (.inr (.inr (.inr ⟨rfl, by omega⟩)))

theorem utf8ShortestLength_spec (cp : Nat) :
    (utf8ShortestLength cp = 1 ∧ cp < 0x80) ∨ (utf8ShortestLength cp = 2 ∧ 0x80 ≤ cp ∧ cp < 0x800) ∨
    (utf8ShortestLength cp = 3 ∧ 0x800 ≤ cp ∧ cp < 0x10000) ∨ (utf8ShortestLength cp = 4 ∧ 0x10000 ≤ cp) := by
  unfold utf8ShortestLength
  split
  · exact .inl ⟨rfl, by omega⟩
  · split
    · exact .inr (.inl ⟨rfl, by omega⟩)
    · split
      · exact .inr (.inr (.inl ⟨rfl, by omega⟩))
      · exact .inr (.inr (.inr ⟨rfl, by omega⟩))

theorem char_toNat_ofNatAux (n : Nat) (h : n.isValidChar) : (Char.ofNatAux n h).toNat = n := rfl

/-- Theorem 3, per sequence: what `validateNext` accepts is the encoding of a scalar value. -/
theorem validateNext_ok_inv (bs rest : List UInt8) (cp : Nat)
    (h : validateNext bs = .ok (cp, rest)) :
    ∃ c : Char, c.toNat = cp ∧ bs = utf8EncodeChar c ++ rest := by
  cases bs with
  | nil => simp [validateNext] at h
  | cons lead after =>
    obtain ⟨hg, hc⟩ := validateNext_cons_ok_inv _ _ _ _ h
    rw [checkCodePoint_ok_iff] at hc
    obtain ⟨hv, hs⟩ := hc
    refine ⟨Char.ofNatAux cp hv, char_toNat_ofNatAux cp hv, ?_⟩
    have hlt := lead.toNat_lt
    unfold utf8EncodeChar
    simp only [char_toNat_ofNatAux]
    have hsl := utf8ShortestLength_spec cp
    rcases sequenceLength_cases lead with ⟨hl, hb⟩ | ⟨hl, hb⟩ | ⟨hl, hb⟩ | ⟨hl, hb⟩ | ⟨hl, hb⟩
    · rw [hl] at hg hs
      simp only [getSequence, getSequence1, Except.ok.injEq, Prod.mk.injEq] at hg
      obtain ⟨rfl, rfl⟩ := hg
      rw [if_pos hb]
      simp
    · rw [hl] at hg hs
      obtain ⟨b1, rfl, t1, hcp⟩ := getSequence2_ok_inv _ _ _ _ hg
      have l1 := b1.toNat_lt
      have : ¬ cp < 0x80 := by omega
      rw [if_neg this, if_pos (by omega)]
      simp only [List.cons_append, List.nil_append, List.cons.injEq, and_true]
      refine ⟨UInt8.toNat_inj.mp ?_, UInt8.toNat_inj.mp ?_⟩
      · rw [u8_toNat_ofNat_lt _ (by omega)]; omega
      · rw [u8_toNat_ofNat_lt _ (by omega)]; omega
    · rw [hl] at hg hs
      obtain ⟨b1, b2, rfl, t1, t2, hcp⟩ := getSequence3_ok_inv _ _ _ _ hg
      have l1 := b1.toNat_lt
      have l2 := b2.toNat_lt
      have h800 : ¬ cp < 0x800 := by omega
      rw [if_neg (by omega), if_neg h800, if_pos (by omega)]
      simp only [List.cons_append, List.nil_append, List.cons.injEq, and_true]
      refine ⟨UInt8.toNat_inj.mp ?_, UInt8.toNat_inj.mp ?_, UInt8.toNat_inj.mp ?_⟩
      · rw [u8_toNat_ofNat_lt _ (by omega)]; omega
      · rw [u8_toNat_ofNat_lt _ (by omega)]; omega
      · rw [u8_toNat_ofNat_lt _ (by omega)]; omega
    · rw [hl] at hg hs
      obtain ⟨b1, b2, b3, rfl, t1, t2, t3, hcp⟩ := getSequence4_ok_inv _ _ _ _ hg
      have l1 := b1.toNat_lt
      have l2 := b2.toNat_lt
      have l3 := b3.toNat_lt
      have hv' : cp < 55296 ∨ 57343 < cp ∧ cp < 1114112 := hv
      have h10000 : ¬ cp < 0x10000 := by omega
      rw [if_neg (by omega), if_neg (by omega), if_neg h10000]
      simp only [List.cons_append, List.nil_append, List.cons.injEq, and_true]
      refine ⟨UInt8.toNat_inj.mp ?_, UInt8.toNat_inj.mp ?_, UInt8.toNat_inj.mp ?_,
        UInt8.toNat_inj.mp ?_⟩
      · rw [u8_toNat_ofNat_lt _ (by omega)]; omega
      · rw [u8_toNat_ofNat_lt _ (by omega)]; omega
      · rw [u8_toNat_ofNat_lt _ (by omega)]; omega
      · rw [u8_toNat_ofNat_lt _ (by omega)]; omega
    · rw [hl] at hg
      simp [getSequence] at hg


/-! ## Lists of code points -/

theorem utf8EncodeChar_length_pos (c : Char) : 1 ≤ (utf8EncodeChar c).length := by
  unfold utf8EncodeChar
  simp only
  repeat' split
  all_goals simp

theorem utf8EncodeChar_cons (c : Char) : ∃ b t, utf8EncodeChar c = b :: t := by
  have := utf8EncodeChar_length_pos c
  cases h : utf8EncodeChar c with
  | nil => rw [h] at this; simp at this
  | cons b t => exact ⟨b, t, rfl⟩

theorem consumed_append (xs rest : List UInt8) : consumed (xs ++ rest) rest = xs := by
  unfold consumed
  exact List.take_left' (by simp)

theorem replacementMark_eq : replacementMark = utf8EncodeChar (Char.ofNat 0xFFFD) := by decide

theorem utf8DecodeF_utf8Encode (s : List Char) : ∀ f : Nat, (utf8Encode s).length ≤ f →
    utf8DecodeF f (utf8Encode s) = some s := by
  induction s with
  | nil => intro f _; cases f <;> simp [utf8Encode, utf8DecodeF]
  | cons c cs ih =>
    intro f hf
    obtain ⟨b, t, hbt⟩ := utf8EncodeChar_cons c
    have hv := validateNext_utf8EncodeChar c (utf8Encode cs)
    simp only [utf8Encode, List.length_append] at hf ⊢
    rw [hbt] at hv hf ⊢
    simp only [List.cons_append, List.length_cons] at hv hf ⊢
    obtain ⟨f, rfl⟩ : ∃ g, f = g + 1 := ⟨f - 1, by omega⟩
    rw [utf8DecodeF, hv]
    simp only
    rw [charOfNat?_toNat]
    simp only
    rw [ih f (by omega)]

/-- Theorem 1. -/
theorem utf8_roundtrip_aux (s : List Char) : utf8Decode (utf8Encode s) = some s :=
  utf8DecodeF_utf8Encode s _ (Nat.le_refl _)

theorem sanitiseF_utf8Encode (s : List Char) : ∀ f : Nat, (utf8Encode s).length ≤ f →
    sanitiseF f (utf8Encode s) = utf8Encode s := by
  induction s with
  | nil => intro f _; cases f <;> simp [utf8Encode, sanitiseF]
  | cons c cs ih =>
    intro f hf
    obtain ⟨b, t, hbt⟩ := utf8EncodeChar_cons c
    have hv := validateNext_utf8EncodeChar c (utf8Encode cs)
    have hc := consumed_append (utf8EncodeChar c) (utf8Encode cs)
    simp only [utf8Encode, List.length_append] at hf ⊢
    rw [hbt] at hv hf hc ⊢
    simp only [List.cons_append, List.length_cons] at hv hf hc ⊢
    obtain ⟨f, rfl⟩ : ∃ g, f = g + 1 := ⟨f - 1, by omega⟩
    rw [sanitiseF, hv]
    simp only
    rw [hc, ih f (by omega)]
    simp

/-- Theorem 2: well-formed input is left unchanged. -/
theorem sanitise_fixes_wellformed_aux (s : List Char) : sanitise (utf8Encode s) = utf8Encode s :=
  sanitiseF_utf8Encode s _ (Nat.le_refl _)

theorem sanitiseF_wellformed : ∀ (f : Nat) (bs : List UInt8), ∃ s, sanitiseF f bs = utf8Encode s := by
  intro f
  induction f with
  | zero => intro bs; exact ⟨[], by simp [sanitiseF, utf8Encode]⟩
  | succ f ih =>
    intro bs
    cases bs with
    | nil => exact ⟨[], by simp [sanitiseF, utf8Encode]⟩
    | cons b after =>
      rw [sanitiseF]
      split
      · rename_i cp rest hv
        obtain ⟨c, _, hbs⟩ := validateNext_ok_inv _ _ _ hv
        obtain ⟨s, hs⟩ := ih rest
        refine ⟨c :: s, ?_⟩
        rw [hbs, consumed_append, hs]; rfl
      · exact ⟨[Char.ofNat 0xFFFD], by rw [replacementMark_eq]; simp [utf8Encode]⟩
      · obtain ⟨s, hs⟩ := ih after
        exact ⟨Char.ofNat 0xFFFD :: s, by rw [replacementMark_eq, hs]; rfl⟩
      · obtain ⟨s, hs⟩ := ih (skipTrail after)
        exact ⟨Char.ofNat 0xFFFD :: s, by rw [replacementMark_eq, hs]; rfl⟩
      · obtain ⟨s, hs⟩ := ih (skipTrail after)
        exact ⟨Char.ofNat 0xFFFD :: s, by rw [replacementMark_eq, hs]; rfl⟩
      · obtain ⟨s, hs⟩ := ih (skipTrail after)
        exact ⟨Char.ofNat 0xFFFD :: s, by rw [replacementMark_eq, hs]; rfl⟩

/-- Theorem 3: the output is always well-formed UTF-8. -/
theorem sanitise_wellformed_aux (bs : List UInt8) : ∃ s, sanitise bs = utf8Encode s :=
  sanitiseF_wellformed _ bs

theorem sanitise_idempotent_aux (bs : List UInt8) : sanitise (sanitise bs) = sanitise bs := by
  obtain ⟨s, hs⟩ := sanitise_wellformed_aux bs
  rw [hs, sanitise_fixes_wellformed_aux]


/-! ## Fuel is adequate: unfolding equation for `sanitise` -/

theorem validateNext_ok_length (b : UInt8) (after rest : List UInt8) (cp : Nat)
    (h : validateNext (b :: after) = .ok (cp, rest)) : rest.length ≤ after.length := by
  obtain ⟨c, _, hbs⟩ := validateNext_ok_inv _ _ _ h
  have hl := utf8EncodeChar_length_pos c
  have := congrArg List.length hbs
  simp only [List.length_cons, List.length_append] at this
  omega

theorem skipTrail_length_le (bs : List UInt8) : (skipTrail bs).length ≤ bs.length := by
  unfold skipTrail
  induction bs with
  | nil => simp
  | cons b bs ih =>
    rw [List.dropWhile_cons]
    split
    · simp only [List.length_cons]; omega
    · exact Nat.le_refl _

theorem sanitiseF_fuel : ∀ (f g : Nat) (bs : List UInt8), bs.length ≤ f → bs.length ≤ g →
    sanitiseF f bs = sanitiseF g bs := by
  intro f
  induction f with
  | zero =>
    intro g bs hf _
    have : bs = [] := List.length_eq_zero_iff.mp (by omega)
    subst this
    cases g <;> simp [sanitiseF]
  | succ f ih =>
    intro g bs hf hg
    cases bs with
    | nil => cases g <;> simp [sanitiseF]
    | cons b after =>
      simp only [List.length_cons] at hf hg
      obtain ⟨g, rfl⟩ : ∃ g', g = g' + 1 := ⟨g - 1, by omega⟩
      have hsk := skipTrail_length_le after
      rw [sanitiseF, sanitiseF]
      split
      · rename_i cp rest hv
        have := validateNext_ok_length _ _ _ _ hv
        rw [ih g rest (by omega) (by omega)]
      · rfl
      · rw [ih g after (by omega) (by omega)]
      · rw [ih g _ (by omega) (by omega)]
      · rw [ih g _ (by omega) (by omega)]
      · rw [ih g _ (by omega) (by omega)]

theorem sanitise_nil : sanitise [] = [] := rfl

/-- `replace_invalid`'s loop body as an equation on `sanitise` itself (no fuel): the fuel
    `bs.length` never runs out. -/
theorem sanitise_cons (b : UInt8) (after : List UInt8) :
    sanitise (b :: after) =
      match validateNext (b :: after) with
      | .ok (_, rest) => consumed (b :: after) rest ++ sanitise rest
      | .error .notEnoughRoom => replacementMark
      | .error .invalidLead => replacementMark ++ sanitise after
      | .error .incompleteSequence => replacementMark ++ sanitise (skipTrail after)
      | .error .overlongSequence => replacementMark ++ sanitise (skipTrail after)
      | .error .invalidCodePoint => replacementMark ++ sanitise (skipTrail after) := by
  have hsk := skipTrail_length_le after
  unfold sanitise
  simp only [List.length_cons]
  rw [sanitiseF]
  split
  · rename_i cp rest hv
    have := validateNext_ok_length _ _ _ _ hv
    simp only [hv]
    rw [sanitiseF_fuel after.length rest.length rest (by omega) (Nat.le_refl _)]
  · rename_i hv; simp only [hv]
  · rename_i hv; simp only [hv]
  · rename_i hv; simp only [hv]
    rw [sanitiseF_fuel after.length _ _ (by omega) (Nat.le_refl _)]
  · rename_i hv; simp only [hv]
    rw [sanitiseF_fuel after.length _ _ (by omega) (Nat.le_refl _)]
  · rename_i hv; simp only [hv]
    rw [sanitiseF_fuel after.length _ _ (by omega) (Nat.le_refl _)]

/-! ## The strict decoder accepts only canonical encodings -/

theorem utf8DecodeF_eq_some : ∀ (f : Nat) (bs : List UInt8) (s : List Char),
    utf8DecodeF f bs = some s → bs = utf8Encode s := by
  intro f
  induction f with
  | zero =>
    intro bs s h
    cases bs with
    | nil => simp only [utf8DecodeF, Option.some.injEq] at h; rw [← h]; rfl
    | cons b after => simp [utf8DecodeF] at h
  | succ f ih =>
    intro bs s h
    cases bs with
    | nil => simp only [utf8DecodeF, Option.some.injEq] at h; rw [← h]; rfl
    | cons b after =>
      rw [utf8DecodeF] at h
      split at h
      · simp at h
      · rename_i cp rest hv
        obtain ⟨c, hc, hbs⟩ := validateNext_ok_inv _ _ _ hv
        rw [← hc, charOfNat?_toNat] at h
        simp only at h
        split at h
        · simp at h
        · rename_i cs hcs
          simp only [Option.some.injEq] at h
          rw [← h, hbs, ih rest cs hcs]; rfl

/-- Theorem 4. -/
theorem utf8Decode_eq_some_aux (bs : List UInt8) (s : List Char) (h : utf8Decode bs = some s) :
    bs = utf8Encode s :=
  utf8DecodeF_eq_some _ bs s h

theorem utf8Decode_eq_some_iff (bs : List UInt8) (s : List Char) :
    utf8Decode bs = some s ↔ bs = utf8Encode s :=
  ⟨utf8Decode_eq_some_aux bs s, fun h => by rw [h]; exact utf8_roundtrip_aux s⟩

/-! ## `decodeLossy` -/

theorem utf8Decode_sanitise_isSome (bs : List UInt8) : (utf8Decode (sanitise bs)).isSome = true := by
  obtain ⟨s, hs⟩ := sanitise_wellformed_aux bs
  rw [hs, utf8_roundtrip_aux]; rfl

theorem utf8Encode_decodeLossy (bs : List UInt8) : utf8Encode (decodeLossy bs) = sanitise bs := by
  obtain ⟨s, hs⟩ := sanitise_wellformed_aux bs
  unfold decodeLossy
  rw [hs, utf8_roundtrip_aux]


/-! ## ASCII -/

/-- All bytes below 0x80. -/
def IsAscii (bs : List UInt8) : Prop := ∀ b ∈ bs, b.toNat < 0x80

instance (bs : List UInt8) : Decidable (IsAscii bs) := by unfold IsAscii; infer_instance

theorem isAscii_nil : IsAscii [] := by intro b hb; simp at hb

theorem isAscii_cons (b : UInt8) (bs : List UInt8) : IsAscii (b :: bs) ↔ b.toNat < 0x80 ∧ IsAscii bs := by
  simp [IsAscii]

theorem isAscii_append (xs ys : List UInt8) : IsAscii (xs ++ ys) ↔ IsAscii xs ∧ IsAscii ys := by
  simp only [IsAscii, List.mem_append]
  constructor
  · intro h; exact ⟨fun b hb => h b (.inl hb), fun b hb => h b (.inr hb)⟩
  · intro h b hb; rcases hb with hb | hb
    · exact h.1 b hb
    · exact h.2 b hb

theorem sanitiseF_ascii : ∀ (f : Nat) (bs : List UInt8), bs.length ≤ f → IsAscii bs →
    sanitiseF f bs = bs := by
  intro f
  induction f with
  | zero =>
    intro bs hf _
    have : bs = [] := List.length_eq_zero_iff.mp (by omega)
    subst this; rfl
  | succ f ih =>
    intro bs hf ha
    cases bs with
    | nil => rfl
    | cons b after =>
      rw [isAscii_cons] at ha
      simp only [List.length_cons] at hf
      rw [sanitiseF, validateNext_len1 b after ha.1]
      simp only
      rw [ih after (by omega) ha.2]
      have := consumed_append [b] after
      simp only [List.cons_append, List.nil_append] at this
      rw [this]; rfl

/-- Theorem 5a: ASCII input is left unchanged. -/
theorem sanitise_ascii (bs : List UInt8) (h : IsAscii bs) : sanitise bs = bs :=
  sanitiseF_ascii _ bs (Nat.le_refl _) h

theorem isNumChar_ascii (b : UInt8) (h : isNumChar b = true) : b.toNat < 0x80 := by
  simp only [isNumChar, Bool.or_eq_true, beq_iff_eq, Bool.and_eq_true, decide_eq_true_eq] at h
  rcases h with ((((h | h) | h) | h) | h) | h
  all_goals first
    | (rw [h]; decide)
    | omega

theorem hexDigit_ascii (k : Nat) : (hexDigit (k % 16)).toNat < 0x80 := by
  have : ∀ k : Fin 16, (hexDigit k.val).toNat < 0x80 := by decide
  exact this ⟨k % 16, by omega⟩

theorem hex4_ascii (n : Nat) : IsAscii (hex4 n) := by
  intro b hb
  simp only [hex4, List.mem_cons, List.not_mem_nil, or_false] at hb
  rcases hb with rfl | rfl | rfl | rfl <;> exact hexDigit_ascii _

theorem encodeChar_ascii (c : Char) : IsAscii (encodeChar c) := by
  unfold encodeChar
  simp only
  repeat' split
  all_goals first
    | (intro b hb; simp only [List.mem_cons, List.not_mem_nil, or_false] at hb
       rcases hb with rfl | rfl <;> decide)
    | skip
  · rw [isAscii_cons, isAscii_cons]
    exact ⟨by decide, by decide, hex4_ascii _⟩
  · rw [isAscii_cons, isAscii_cons, isAscii_append, isAscii_cons, isAscii_cons]
    exact ⟨by decide, by decide, hex4_ascii _, by decide, by decide, hex4_ascii _⟩
  · rename_i hesc
    intro b hb
    simp only [List.mem_cons, List.not_mem_nil, or_false] at hb
    rw [hb, u8_toNat_ofNat_lt _ (by omega)]; omega

theorem encodeChars_ascii (s : List Char) : IsAscii (encodeChars s) := by
  induction s with
  | nil => exact isAscii_nil
  | cons c cs ih => rw [encodeChars, isAscii_append]; exact ⟨encodeChar_ascii c, ih⟩

theorem jsonEncodeString_ascii (s : List Char) : IsAscii (jsonEncodeString s) := by
  rw [jsonEncodeString, isAscii_cons, isAscii_append, isAscii_cons]
  exact ⟨by decide, encodeChars_ascii s, by decide, isAscii_nil⟩


mutual
/-- Theorem 5b: the encoder emits ASCII only (non-ASCII code points are `\\u`-escaped). -/
theorem jsonEncode_ascii {N : Type} (c : NumCodec N) (hc : c.Lawful) :
    (v : JValue N) → IsAscii (jsonEncode c v)
  | .null => by simp only [jsonEncode]; decide
  | .bool true => by simp only [jsonEncode]; decide
  | .bool false => by simp only [jsonEncode]; decide
  | .num n => by
    simp only [jsonEncode]
    intro b hb; exact isNumChar_ascii b (hc.chars n b hb)
  | .str s => by simp only [jsonEncode]; exact jsonEncodeString_ascii s
  | .arr [] => by simp only [jsonEncode]; decide
  | .arr (x :: xs) => by
    simp only [jsonEncode]
    rw [isAscii_cons, isAscii_append]
    exact ⟨by decide, jsonEncode_ascii c hc x, encodeRestElems_ascii c hc xs⟩
  | .obj [] => by simp only [jsonEncode]; decide
  | .obj ((k, v) :: kvs) => by
    simp only [jsonEncode]
    rw [isAscii_cons, isAscii_append, isAscii_cons, isAscii_append]
    exact ⟨by decide, jsonEncodeString_ascii k, by decide, jsonEncode_ascii c hc v,
      encodeRestMembers_ascii c hc kvs⟩
theorem encodeRestElems_ascii {N : Type} (c : NumCodec N) (hc : c.Lawful) :
    (xs : List (JValue N)) → IsAscii (encodeRestElems c xs)
  | [] => by simp only [encodeRestElems]; decide
  | x :: xs => by
    simp only [encodeRestElems]
    rw [isAscii_cons, isAscii_append]
    exact ⟨by decide, jsonEncode_ascii c hc x, encodeRestElems_ascii c hc xs⟩
theorem encodeRestMembers_ascii {N : Type} (c : NumCodec N) (hc : c.Lawful) :
    (kvs : List (List Char × JValue N)) → IsAscii (encodeRestMembers c kvs)
  | [] => by simp only [encodeRestMembers]; decide
  | (k, v) :: kvs => by
    simp only [encodeRestMembers]
    rw [isAscii_cons, isAscii_append, isAscii_cons, isAscii_append]
    exact ⟨by decide, jsonEncodeString_ascii k, by decide, jsonEncode_ascii c hc v,
      encodeRestMembers_ascii c hc kvs⟩
end

/-! ## Values -/

mutual
theorem toJ_toB {N : Type} : (v : BValue N) → v.toJ.toB = v.sanitised
  | .null => rfl
  | .bool _ => rfl
  | .num _ => rfl
  | .str s => by simp only [BValue.toJ, JValue.toB, BValue.sanitised, utf8Encode_decodeLossy]
  | .arr xs => by
    simp only [BValue.toJ, JValue.toB, BValue.sanitised, toJElems_toBElems xs]
  | .obj kvs => by
    simp only [BValue.toJ, JValue.toB, BValue.sanitised, toJMembers_toBMembers kvs]
theorem toJElems_toBElems {N : Type} :
    (xs : List (BValue N)) → JValue.toBElems (BValue.toJElems xs) = BValue.sanitisedElems xs
  | [] => rfl
  | x :: xs => by
    simp only [BValue.toJElems, JValue.toBElems, BValue.sanitisedElems, toJ_toB x,
      toJElems_toBElems xs]
theorem toJMembers_toBMembers {N : Type} : (kvs : List (List UInt8 × BValue N)) →
    JValue.toBMembers (BValue.toJMembers kvs) = BValue.sanitisedMembers kvs
  | [] => rfl
  | (k, v) :: kvs => by
    simp only [BValue.toJMembers, JValue.toBMembers, BValue.sanitisedMembers, toJ_toB v,
      toJMembers_toBMembers kvs, utf8Encode_decodeLossy]
end

/-- Theorem 6: encoding a value and decoding the bytes yields the value with every string and key
    sanitised. -/
theorem json_roundtrip_bytes_aux {N : Type} (c : NumCodec N) (hc : c.Lawful) (v : BValue N) :
    jsonDecodeB c (jsonEncodeB c v) = some v.sanitised := by
  unfold jsonDecodeB jsonEncodeB
  rw [sanitise_ascii _ (jsonEncode_ascii c hc v.toJ), jsonValue_roundtrip_aux c hc, Option.map_some,
    toJ_toB]

/-- Corollary: values whose strings and keys are all well-formed UTF-8 survive unchanged. -/
theorem json_roundtrip_bytes_wellformed {N : Type} (c : NumCodec N) (hc : c.Lawful) (v : BValue N)
    (hv : v.sanitised = v) : jsonDecodeB c (jsonEncodeB c v) = some v := by
  rw [json_roundtrip_bytes_aux c hc v, hv]

mutual
/-- Values in the image of `JValue.toB` (every string is the encoding of a code point list) are
    fixed by `sanitised`. -/
theorem sanitised_toB {N : Type} : (j : JValue N) → j.toB.sanitised = j.toB
  | .null => rfl
  | .bool _ => rfl
  | .num _ => rfl
  | .str s => by simp only [JValue.toB, BValue.sanitised, sanitise_fixes_wellformed_aux]
  | .arr xs => by simp only [JValue.toB, BValue.sanitised, sanitisedElems_toBElems xs]
  | .obj kvs => by simp only [JValue.toB, BValue.sanitised, sanitisedMembers_toBMembers kvs]
theorem sanitisedElems_toBElems {N : Type} :
    (xs : List (JValue N)) → BValue.sanitisedElems (JValue.toBElems xs) = JValue.toBElems xs
  | [] => rfl
  | x :: xs => by
    simp only [JValue.toBElems, BValue.sanitisedElems, sanitised_toB x, sanitisedElems_toBElems xs]
theorem sanitisedMembers_toBMembers {N : Type} : (kvs : List (List Char × JValue N)) →
    BValue.sanitisedMembers (JValue.toBMembers kvs) = JValue.toBMembers kvs
  | [] => rfl
  | (k, v) :: kvs => by
    simp only [JValue.toBMembers, BValue.sanitisedMembers, sanitised_toB v,
      sanitisedMembers_toBMembers kvs, sanitise_fixes_wellformed_aux]
end

/-- `sanitised` is idempotent, so the corollary applies to every `v.sanitised`. -/
theorem sanitised_sanitised {N : Type} (v : BValue N) : v.sanitised.sanitised = v.sanitised := by
  rw [← toJ_toB v, sanitised_toB]

theorem json_roundtrip_bytes_toB {N : Type} (c : NumCodec N) (hc : c.Lawful) (j : JValue N) :
    jsonDecodeB c (jsonEncodeB c j.toB) = some j.toB :=
  json_roundtrip_bytes_wellformed c hc j.toB (sanitised_toB j)

/-! ## Error classes of `validateNext`, universally quantified -/

theorem increaseSafely_error (l : List UInt8) (e : Utf8Err) (h : increaseSafely l = .error e) :
    e = .notEnoughRoom ∨ e = .incompleteSequence := by
  cases l with
  | nil =>
    simp only [increaseSafely, Except.error.injEq] at h
    exact .inl h.symm
  | cons b r =>
    simp only [increaseSafely] at h
    split at h
    · simp at h
    · simp only [Except.error.injEq] at h
      exact .inr h.symm

theorem getSequence_error (n : Nat) (hn : n ≠ 0) (hn4 : n ≤ 4) (lead : UInt8) (after : List UInt8)
    (e : Utf8Err) (h : getSequence n lead after = .error e) :
    e = .notEnoughRoom ∨ e = .incompleteSequence := by
  obtain rfl | rfl | rfl | rfl : n = 1 ∨ n = 2 ∨ n = 3 ∨ n = 4 := by omega
  · simp [getSequence, getSequence1] at h
  · simp only [getSequence, getSequence2] at h
    split at h
    · rename_i e1 h1
      simp only [Except.error.injEq] at h
      rw [← h]; exact increaseSafely_error _ _ h1
    · simp at h
  · simp only [getSequence, getSequence3] at h
    split at h
    · rename_i e1 h1
      simp only [Except.error.injEq] at h
      rw [← h]; exact increaseSafely_error _ _ h1
    · split at h
      · rename_i e2 h2
        simp only [Except.error.injEq] at h
        rw [← h]; exact increaseSafely_error _ _ h2
      · simp at h
  · simp only [getSequence, getSequence4] at h
    split at h
    · rename_i e1 h1
      simp only [Except.error.injEq] at h
      rw [← h]; exact increaseSafely_error _ _ h1
    · split at h
      · rename_i e2 h2
        simp only [Except.error.injEq] at h
        rw [← h]; exact increaseSafely_error _ _ h2
      · split at h
        · rename_i e3 h3
          simp only [Except.error.injEq] at h
          rw [← h]; exact increaseSafely_error _ _ h3
        · simp at h

theorem checkCodePoint_error (cp len : Nat) (e : Utf8Err) (h : checkCodePoint cp len = .error e) :
    e = .overlongSequence ∨ e = .invalidCodePoint := by
  unfold checkCodePoint at h
  split at h
  · split at h
    · simp at h
    · simp only [Except.error.injEq] at h; exact .inl h.symm
  · simp only [Except.error.injEq] at h; exact .inr h.symm

/-- `INVALID_LEAD` is reported exactly for the bytes 0x80..0xBF and 0xF8..0xFF. -/
theorem validateNext_invalidLead_iff (b : UInt8) (after : List UInt8) :
    validateNext (b :: after) = .error .invalidLead ↔
      (0x80 ≤ b.toNat ∧ b.toNat < 0xC0) ∨ 0xF8 ≤ b.toNat := by
  have key : sequenceLength b ≠ 0 → sequenceLength b ≤ 4 →
      validateNext (b :: after) ≠ .error .invalidLead := by
    intro h0 h4 h
    simp only [validateNext] at h
    split at h
    · rename_i e hg
      simp only [Except.error.injEq] at h
      subst h
      rcases getSequence_error _ h0 h4 _ _ _ hg with h | h <;> cases h
    · split at h
      · rename_i e hc
        simp only [Except.error.injEq] at h
        subst h
        rcases checkCodePoint_error _ _ _ hc with h | h <;> cases h
      · simp at h
  rcases sequenceLength_cases b with ⟨hl, hb⟩ | ⟨hl, hb⟩ | ⟨hl, hb⟩ | ⟨hl, hb⟩ | ⟨hl, hb⟩
  · exact ⟨fun h => absurd h (key (by omega) (by omega)), fun h => by omega⟩
  · exact ⟨fun h => absurd h (key (by omega) (by omega)), fun h => by omega⟩
  · exact ⟨fun h => absurd h (key (by omega) (by omega)), fun h => by omega⟩
  · exact ⟨fun h => absurd h (key (by omega) (by omega)), fun h => by omega⟩
  · exact ⟨fun _ => hb, fun _ => by simp [validateNext, hl, getSequence]⟩


theorem increaseSafely_notEnoughRoom (l : List UInt8)
    (h : increaseSafely l = .error .notEnoughRoom) : l = [] := by
  cases l with
  | nil => rfl
  | cons b r =>
    simp only [increaseSafely] at h
    split at h <;> simp at h

theorem increaseSafely_cases (l : List UInt8) :
    (l = [] ∧ increaseSafely l = .error .notEnoughRoom) ∨
    (∃ b r, l = b :: r ∧ isTrail b = true ∧ increaseSafely l = .ok (b, r)) ∨
    (∃ b r, l = b :: r ∧ isTrail b = false ∧ increaseSafely l = .error .incompleteSequence) := by
  cases l with
  | nil => exact .inl ⟨rfl, rfl⟩
  | cons b r =>
    cases ht : isTrail b
    · exact .inr (.inr ⟨b, r, rfl, ht, by simp [increaseSafely, ht]⟩)
    · exact .inr (.inl ⟨b, r, rfl, ht, by simp [increaseSafely, ht]⟩)

/-- `NOT_ENOUGH_ROOM` from the `get_sequence_x` switch: the input ends inside the sequence, and
    everything after the lead is trail bytes. -/
theorem getSequence_notEnoughRoom (n : Nat) (lead : UInt8) (after : List UInt8)
    (h : getSequence n lead after = .error .notEnoughRoom) :
    (∀ x ∈ after, isTrail x = true) ∧ after.length + 1 < n := by
  rcases n with _ | _ | _ | _ | _ | n
  · simp [getSequence] at h
  · simp [getSequence, getSequence1] at h
  · simp only [getSequence, getSequence2] at h
    rcases increaseSafely_cases after with ⟨rfl, _⟩ | ⟨b1, r1, rfl, t1, e1⟩ | ⟨b1, r1, rfl, t1, e1⟩
    · simp
    · rw [e1] at h; simp at h
    · rw [e1] at h; simp at h
  · simp only [getSequence, getSequence3] at h
    rcases increaseSafely_cases after with ⟨rfl, _⟩ | ⟨b1, r1, rfl, t1, e1⟩ | ⟨b1, r1, rfl, t1, e1⟩
    · simp
    · rw [e1] at h
      simp only at h
      rcases increaseSafely_cases r1 with ⟨rfl, _⟩ | ⟨b2, r2, rfl, t2, e2⟩ | ⟨b2, r2, rfl, t2, e2⟩
      · simp [t1]
      · rw [e2] at h; simp at h
      · rw [e2] at h; simp at h
    · rw [e1] at h; simp at h
  · simp only [getSequence, getSequence4] at h
    rcases increaseSafely_cases after with ⟨rfl, _⟩ | ⟨b1, r1, rfl, t1, e1⟩ | ⟨b1, r1, rfl, t1, e1⟩
    · simp
    · rw [e1] at h
      simp only at h
      rcases increaseSafely_cases r1 with ⟨rfl, _⟩ | ⟨b2, r2, rfl, t2, e2⟩ | ⟨b2, r2, rfl, t2, e2⟩
      · simp [t1]
      · rw [e2] at h
        simp only at h
        rcases increaseSafely_cases r2 with ⟨rfl, _⟩ | ⟨b3, r3, rfl, t3, e3⟩ | ⟨b3, r3, rfl, t3, e3⟩
        · simp [t1, t2]
        · rw [e3] at h; simp at h
        · rw [e3] at h; simp at h
      · rw [e2] at h; simp at h
    · rw [e1] at h; simp at h
  · simp [getSequence] at h

theorem skipTrail_eq_nil (bs : List UInt8) (h : ∀ x ∈ bs, isTrail x = true) : skipTrail bs = [] := by
  unfold skipTrail
  induction bs with
  | nil => rfl
  | cons b bs ih =>
    rw [List.dropWhile_cons, if_pos (h b (by simp))]
    exact ih (fun x hx => h x (by simp [hx]))

/-- `NOT_ENOUGH_ROOM`: at most two bytes follow the lead, all of them trail bytes; so the
    `start = end` of checked.h:96 discards exactly the truncated sequence, the same bytes the
    "skip the lead and the following trail bytes" of the other error classes would discard. -/
theorem validateNext_notEnoughRoom (b : UInt8) (after : List UInt8)
    (h : validateNext (b :: after) = .error .notEnoughRoom) :
    (∀ x ∈ after, isTrail x = true) ∧ after.length + 1 < sequenceLength b ∧ skipTrail after = [] := by
  have hg : getSequence (sequenceLength b) b after = .error .notEnoughRoom := by
    simp only [validateNext] at h
    split at h
    · rename_i e hg
      simp only [Except.error.injEq] at h
      rw [hg, h]
    · split at h
      · rename_i e hc
        simp only [Except.error.injEq] at h
        subst h
        rcases checkCodePoint_error _ _ _ hc with h | h <;> cases h
      · simp at h
  obtain ⟨ht, hl⟩ := getSequence_notEnoughRoom _ _ _ hg
  refine ⟨ht, hl, ?_⟩
  exact skipTrail_eq_nil after ht


/-! ## Non-vacuity -/

/-- For the examples only. -/
private instance : DecidableEq (Except Utf8Err (Nat × List UInt8)) := fun a b =>
  match a, b with
  | .ok x, .ok y => if h : x = y then isTrue (by rw [h]) else isFalse (by intro e; cases e; exact h rfl)
  | .error x, .error y =>
    if h : x = y then isTrue (by rw [h]) else isFalse (by intro e; cases e; exact h rfl)
  | .ok _, .error _ => isFalse (by intro e; cases e)
  | .error _, .ok _ => isFalse (by intro e; cases e)

-- every error class of `validate_next` is reachable
example : validateNext [] = .error .notEnoughRoom := by decide +kernel
example : validateNext [0xE2, 0x82] = .error .notEnoughRoom := by decide +kernel
example : validateNext [0xF0, 0x9F, 0x98] = .error .notEnoughRoom := by decide +kernel
example : validateNext [0xC3] = .error .notEnoughRoom := by decide +kernel
example : validateNext [0x80] = .error .invalidLead := by decide +kernel
example : validateNext [0xBF, 0x41] = .error .invalidLead := by decide +kernel
example : validateNext [0xF8, 0x88, 0x80, 0x80, 0x80] = .error .invalidLead := by decide +kernel
example : validateNext [0xFF] = .error .invalidLead := by decide +kernel
example : validateNext [0xE2, 0x28, 0xA1] = .error .incompleteSequence := by decide +kernel
example : validateNext [0xE2, 0x82, 0x28] = .error .incompleteSequence := by decide +kernel
-- a non-trail byte is noticed before the end of input is: INCOMPLETE, not NOT_ENOUGH_ROOM
example : validateNext [0xF0, 0x28] = .error .incompleteSequence := by decide +kernel
-- 0xC0, 0xC1 are leads; their sequences are overlong
example : validateNext [0xC0, 0x80] = .error .overlongSequence := by decide +kernel
example : validateNext [0xC1, 0xBF] = .error .overlongSequence := by decide +kernel
example : validateNext [0xE0, 0x9F, 0xBF] = .error .overlongSequence := by decide +kernel
example : validateNext [0xF0, 0x8F, 0xBF, 0xBF] = .error .overlongSequence := by decide +kernel
-- surrogates, above U+10FFFF; 0xF5..0xF7 are leads whose code points are too large
example : validateNext [0xED, 0xA0, 0x80] = .error .invalidCodePoint := by decide +kernel
example : validateNext [0xED, 0xBF, 0xBF] = .error .invalidCodePoint := by decide +kernel
example : validateNext [0xF4, 0x90, 0x80, 0x80] = .error .invalidCodePoint := by decide +kernel
example : validateNext [0xF5, 0x80, 0x80, 0x80] = .error .invalidCodePoint := by decide +kernel
example : validateNext [0xF7, 0xBF, 0xBF, 0xBF] = .error .invalidCodePoint := by decide +kernel
-- boundaries of the accepted ranges
example : validateNext [0x7F, 0x41] = .ok (0x7F, [0x41]) := by decide +kernel
example : validateNext [0xC2, 0x80] = .ok (0x80, []) := by decide +kernel
example : validateNext [0xDF, 0xBF] = .ok (0x7FF, []) := by decide +kernel
example : validateNext [0xE0, 0xA0, 0x80] = .ok (0x800, []) := by decide +kernel
example : validateNext [0xED, 0x9F, 0xBF] = .ok (0xD7FF, []) := by decide +kernel
example : validateNext [0xEE, 0x80, 0x80] = .ok (0xE000, []) := by decide +kernel
example : validateNext [0xEF, 0xBF, 0xBF] = .ok (0xFFFF, []) := by decide +kernel
example : validateNext [0xF0, 0x90, 0x80, 0x80] = .ok (0x10000, []) := by decide +kernel
example : validateNext [0xF4, 0x8F, 0xBF, 0xBF, 0x80] = .ok (0x10FFFF, [0x80]) := by decide +kernel

-- `sanitise`: one U+FFFD per bad sequence
example : sanitise [0xC0, 0x80] = [0xEF, 0xBF, 0xBD] := by decide +kernel
example : sanitise [0xED, 0xA0, 0x80] = [0xEF, 0xBF, 0xBD] := by decide +kernel
example : sanitise [0xF4, 0x90, 0x80, 0x80] = [0xEF, 0xBF, 0xBD] := by decide +kernel
example : sanitise [0xE2, 0x82] = [0xEF, 0xBF, 0xBD] := by decide +kernel
example : sanitise [0xE2, 0x28, 0xA1] = [0xEF, 0xBF, 0xBD, 0x28, 0xEF, 0xBF, 0xBD] := by
  decide +kernel
example : sanitise [0xFF] = [0xEF, 0xBF, 0xBD] := by decide +kernel
example : sanitise [0x80] = [0xEF, 0xBF, 0xBD] := by decide +kernel
-- invalid lead: only that byte is replaced, the trail bytes after it one by one
example : sanitise [0xFF, 0x80, 0x41] = [0xEF, 0xBF, 0xBD, 0xEF, 0xBF, 0xBD, 0x41] := by
  decide +kernel
-- overlong: trail bytes beyond the sequence are swallowed by the same replacement mark
example : sanitise [0xC0, 0x80, 0x80, 0x80, 0x41] = [0xEF, 0xBF, 0xBD, 0x41] := by decide +kernel
-- truncated at the end after valid text; text on both sides of a bad sequence survives
example : sanitise [0x41, 0xF0, 0x9F, 0x98] = [0x41, 0xEF, 0xBF, 0xBD] := by decide +kernel
example : sanitise [0x41, 0xED, 0xA0, 0x80, 0xC3, 0xA9] = [0x41, 0xEF, 0xBF, 0xBD, 0xC3, 0xA9] := by
  decide +kernel
-- valid text ("Aé€😀", U+FFFD itself, the empty string) is unchanged
example : sanitise [0x41, 0xC3, 0xA9, 0xE2, 0x82, 0xAC, 0xF0, 0x9F, 0x98, 0x80] =
    [0x41, 0xC3, 0xA9, 0xE2, 0x82, 0xAC, 0xF0, 0x9F, 0x98, 0x80] := by decide +kernel
example : sanitise [0xEF, 0xBF, 0xBD] = [0xEF, 0xBF, 0xBD] := by decide +kernel
example : sanitise [] = [] := by decide +kernel

-- `utf8Encode`/`utf8Decode` agree with Lean's own UTF-8 encoder on a sample; the strict decoder
-- rejects each of the malformed inputs above
example : utf8Encode "Aé€😀".toList = "Aé€😀".toUTF8.toList := by decide +kernel
example : utf8Decode [0x41, 0xC3, 0xA9, 0xE2, 0x82, 0xAC, 0xF0, 0x9F, 0x98, 0x80] =
    some "Aé€😀".toList := by decide +kernel
example : utf8Decode [0xC0, 0x80] = none := by decide +kernel
example : utf8Decode [0xED, 0xA0, 0x80] = none := by decide +kernel
example : utf8Decode [0xF4, 0x90, 0x80, 0x80] = none := by decide +kernel
example : utf8Decode [0xE2, 0x82] = none := by decide +kernel
example : utf8Decode [0xE2, 0x28, 0xA1] = none := by decide +kernel
example : utf8Decode [0xFF] = none := by decide +kernel
example : utf8Decode [0x80] = none := by decide +kernel
example : utf8Decode [0x41, 0xF0, 0x9F, 0x98] = none := by decide +kernel
example : decodeLossy [0x41, 0xC0, 0x80, 0xC3, 0xA9] = ['A', Char.ofNat 0xFFFD, 'é'] := by
  decide +kernel

/-- Keys and strings with an overlong sequence, a lone surrogate, a truncated sequence, next to
    well-formed non-ASCII text. -/
def sampleBValue : BValue Int :=
  .obj [([0x6B, 0xC0, 0x80], .arr [.str [0xED, 0xA0, 0x80, 0x41], .num (-3), .str [0xC3, 0xA9]]),
        ([0xE2, 0x82, 0xAC], .str [0x41, 0xF0, 0x9F])]

example : jsonEncodeB intCodec sampleBValue =
    asciiBytes "{\"k\\ufffd\":[\"\\ufffdA\",-3,\"\\u00e9\"],\"\\u20ac\":\"A\\ufffd\"}" := by
  decide +kernel
example : sampleBValue.sanitised =
    .obj [([0x6B, 0xEF, 0xBF, 0xBD],
            .arr [.str [0xEF, 0xBF, 0xBD, 0x41], .num (-3), .str [0xC3, 0xA9]]),
          ([0xE2, 0x82, 0xAC], .str [0x41, 0xEF, 0xBF, 0xBD])] := by
  simp only [sampleBValue, BValue.sanitised, BValue.sanitisedMembers, BValue.sanitisedElems]
  rw [show sanitise [0x6B, 0xC0, 0x80] = [0x6B, 0xEF, 0xBF, 0xBD] by decide +kernel,
    show sanitise [0xED, 0xA0, 0x80, 0x41] = [0xEF, 0xBF, 0xBD, 0x41] by decide +kernel,
    show sanitise [0xC3, 0xA9] = [0xC3, 0xA9] by decide +kernel,
    show sanitise [0xE2, 0x82, 0xAC] = [0xE2, 0x82, 0xAC] by decide +kernel,
    show sanitise [0x41, 0xF0, 0x9F] = [0x41, 0xEF, 0xBF, 0xBD] by decide +kernel]
example : jsonDecodeB intCodec (jsonEncodeB intCodec sampleBValue) = some sampleBValue.sanitised :=
  json_roundtrip_bytes_aux intCodec intCodec_lawful_aux sampleBValue
-- the decoder turns escapes into UTF-8 bytes
example : (match jsonDecodeB intCodec (asciiBytes "[\"\\u00e9\\ud83d\\ude00\"]") with
    | some (.arr [.str s]) => s == [0xC3, 0xA9, 0xF0, 0x9F, 0x98, 0x80]
    | _ => false) = true := by decide +kernel
-- raw invalid bytes in the JSON text are replaced before parsing; Json.lean's parser then rejects
-- the raw non-ASCII U+FFFD (raw multi-byte sequences are outside that model)
example : (jsonDecodeB intCodec [34, 0xFF, 34]).isNone = true := by decide +kernel

end Icinga.C20

/-
  C20 — helper lemma for NumberFloat's integer path (IcingaModel/C20/Number.lean).
-/
import IcingaModel.C20.Number

namespace Icinga.C20

/-- When the magnitude of a double is integral, `b64NatMag` is exactly that magnitude: m·2^e2 = n·2^d2. -/
theorem b64NatMag_exact (bits n : Nat) (h : b64NatMag bits = some n) :
    (b64Mag bits).1 * 2 ^ (b64Mag bits).2.1 = n * 2 ^ (b64Mag bits).2.2 := by
  unfold b64NatMag at h
  split at h
  · simp at h
  · rcases hm : b64Mag bits with ⟨m, e2, d2⟩
    simp only [hm] at h ⊢
    split at h
    · rename_i hdiv
      simp only [Option.some.injEq] at h
      subst h
      have hd : m % 2 ^ d2 = 0 := by simpa using hdiv
      have : m / 2 ^ d2 * 2 ^ d2 = m := Nat.div_mul_cancel (Nat.dvd_of_mod_eq_zero hd)
      calc m * 2 ^ e2 = (m / 2 ^ d2 * 2 ^ d2) * 2 ^ e2 := by rw [this]
        _ = m / 2 ^ d2 * 2 ^ e2 * 2 ^ d2 := by rw [Nat.mul_assoc, Nat.mul_comm (2 ^ d2), ← Nat.mul_assoc]
    · simp at h

end Icinga.C20

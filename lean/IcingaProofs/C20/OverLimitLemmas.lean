/-
  C20 — the buffered read loop on a frame sequence that contains a frame over the caller's limit: the frames before it
  are returned, then the loop ends in the limit error as soon as the oversized frame's header is complete — under every
  chunking.  (Counterpart of `run_frames` in Lemmas.lean.)
-/
import IcingaProofs.C20.Lemmas
import IcingaProofs.C20.SpecLemmas

namespace Icinga.C20

/-- A complete header that declares more than the limit: rejected whatever follows (netstring.cpp:77-84). -/
theorem nsParseBuf_header_over (max : Option Nat) (n : Nat) (hn : n < 10 ^ 9) (hmax : bufLimitExceeded max n = true)
    (q : Bytes) : nsParseBuf max (natDigits n ++ colon :: q) = .error .maxExceeded := by
  have hall := natDigits_all_digits n
  have hlen := (natDigits_length_le n 9 (by omega)).mpr hn
  have hpos : 0 < (natDigits n).length := List.length_pos_iff.mpr (natDigits_ne_nil n)
  have hfc : findColon 0 (natDigits n ++ colon :: q) = .found (natDigits n).length := by
    have := findColon_digits (natDigits n) 0 q hall (by omega) (by omega)
    simpa using this
  unfold nsParseBuf
  simp only [hfc, bufLeadingZero_natDigits, Bool.false_eq_true, if_false]
  have htake : List.take (natDigits n).length (natDigits n ++ colon :: q) = natDigits n := by simp
  have h9 : ¬ ((natDigits n).length > 9) := by omega
  simp only [htake, takeWhile_all isDigit _ hall, digitsVal_natDigits, hmax, h9, if_false, if_true]

/-- Only digits so far (a cut inside the length field): the parser asks for more data. -/
theorem nsParseBuf_digit_prefix (max : Option Nat) (buf : Bytes) (hb : ∀ b ∈ buf, isDigit b = true) (hl : buf.length ≤ 9) :
    nsParseBuf max buf = .need := by
  unfold nsParseBuf
  rw [findColon_only_digits buf 0 hb (by omega)]

theorem parse_cases_over (max : Option Nat) (buf flat : Bytes) (ps : List Bytes) (n : Nat) (tail : Bytes)
    (hps : ∀ p ∈ ps, okPayload max p) (hn : n < 10 ^ 9) (hmax : bufLimitExceeded max n = true)
    (he : buf ++ flat = nsEncodeAll ps ++ (natDigits n ++ colon :: tail)) :
    (∃ p ps', ps = p :: ps' ∧ nsParseBuf max buf = .item p (nsEncode p).length ∧
        (nsEncode p).length ≤ buf.length ∧
        buf.drop (nsEncode p).length ++ flat = nsEncodeAll ps' ++ (natDigits n ++ colon :: tail)) ∨
    (nsParseBuf max buf = .need ∧ (∀ p ps', ps = p :: ps' → buf.length < (nsEncode p).length) ∧
        (ps = [] → buf.length ≤ (natDigits n).length)) ∨
    (ps = [] ∧ nsParseBuf max buf = .error .maxExceeded) := by
  cases ps with
  | nil =>
    simp only [nsEncodeAll, List.nil_append] at he
    by_cases hl : buf.length ≤ (natDigits n).length
    · right; left
      refine ⟨?_, (by intro p ps' h; cases h), fun _ => hl⟩
      have hlen := (natDigits_length_le n 9 (by omega)).mpr hn
      rcases List.append_eq_append_iff.mp he with ⟨as, h1, _⟩ | ⟨bs, h1, _⟩
      · apply nsParseBuf_digit_prefix max buf _ (by omega)
        intro b hb
        exact natDigits_all_digits n b (by rw [h1]; simp [hb])
      · have hl2 := congrArg List.length h1
        simp only [List.length_append] at hl2
        have hbs : bs = [] := List.eq_nil_of_length_eq_zero (by omega)
        subst hbs
        simp only [List.append_nil] at h1
        apply nsParseBuf_digit_prefix max buf _ (by omega)
        intro b hb
        exact natDigits_all_digits n b (by rw [← h1]; exact hb)
    · right; right
      refine ⟨rfl, ?_⟩
      rcases List.append_eq_append_iff.mp he with ⟨as, h1, _⟩ | ⟨bs, h1, h2⟩
      · have hl2 := congrArg List.length h1
        simp only [List.length_append] at hl2
        omega
      · cases bs with
        | nil => simp at h1; rw [h1] at hl; omega
        | cons b bs' =>
          simp only [List.cons_append, List.cons.injEq] at h2
          rw [h1, ← h2.1]
          exact nsParseBuf_header_over max n hn hmax bs'
  | cons p ps' =>
    have hp := hps p (by simp)
    simp only [nsEncodeAll, List.append_assoc] at he
    by_cases hlen : (nsEncode p).length ≤ buf.length
    · left
      have : ∃ bs, buf = nsEncode p ++ bs ∧ nsEncodeAll ps' ++ (natDigits n ++ colon :: tail) = bs ++ flat := by
        rcases List.append_eq_append_iff.mp he with ⟨as, h1, h2⟩ | ⟨bs, h1, h2⟩
        · have hl := congrArg List.length h1
          simp only [List.length_append] at hl
          have has : as = [] := List.eq_nil_of_length_eq_zero (by omega)
          subst has
          exact ⟨[], by simpa using h1.symm, by simpa using h2.symm⟩
        · exact ⟨bs, h1, h2⟩
      obtain ⟨bs, h1, h2⟩ := this
      refine ⟨p, ps', rfl, ?_, hlen, ?_⟩
      · rw [h1]; exact nsParseBuf_frame max p bs hp.1 hp.2
      · rw [h1]; simp [h2]
    · right; left
      refine ⟨?_, (by intro p0 ps0 h; cases h; omega), (by intro h; cases h)⟩
      rcases List.append_eq_append_iff.mp he with ⟨as, h1, _⟩ | ⟨bs, h1, _⟩
      · apply nsParseBuf_proper_prefix max p buf as hp.1 hp.2 _ h1.symm
        intro has; subst has; simp at h1; rw [h1] at hlen; omega
      · have hl := congrArg List.length h1
        simp only [List.length_append] at hl; omega

/-- Main induction: complete valid frames `ps`, then a header declaring `n` > limit, then anything. -/
theorem run_over (max : Option Nat) : ∀ (fuel : Nat) (buf : Bytes) (mr : Bool) (stream : List Bytes) (acc : List Bytes)
    (k : Nat) (ps : List Bytes) (n : Nat) (tail : Bytes), (∀ p ∈ ps, okPayload max p) → n < 10 ^ 9 →
    bufLimitExceeded max n = true →
    buf ++ stream.flatten = nsEncodeAll ps ++ (natDigits n ++ colon :: tail) →
    (mr = true → (∀ p ps', ps = p :: ps' → buf.length < (nsEncode p).length) ∧ (ps = [] → buf.length ≤ (natDigits n).length)) →
    runMeasure ⟨buf, mr, false⟩ stream < fuel →
    (nsBufRun max fuel ⟨buf, mr, false⟩ stream acc k).items = acc.reverse ++ ps ∧
    (nsBufRun max fuel ⟨buf, mr, false⟩ stream acc k).final = .error .maxExceeded := by
  intro fuel
  induction fuel with
  | zero => intro buf mr stream acc k ps n tail _ _ _ _ _ hm; omega
  | succ f ih =>
    have key : ∀ (buf : Bytes) (stream : List Bytes) (acc : List Bytes) (k : Nat) (ps : List Bytes) (n : Nat) (tail : Bytes),
        (∀ p ∈ ps, okPayload max p) → n < 10 ^ 9 → bufLimitExceeded max n = true →
        buf ++ stream.flatten = nsEncodeAll ps ++ (natDigits n ++ colon :: tail) →
        buf.length + stream.flatten.length + 2 * stream.length + 1 < f + 1 →
        (nsBufRun max (f + 1) ⟨buf, false, false⟩ stream acc k).items = acc.reverse ++ ps ∧
        (nsBufRun max (f + 1) ⟨buf, false, false⟩ stream acc k).final = .error .maxExceeded := by
      intro buf stream acc k ps n tail hps hn hmax he hm
      simp only [nsBufRun, call_parse max buf stream]
      rcases parse_cases_over max buf stream.flatten ps n tail hps hn hmax he with
        ⟨p, ps', hpp, hit, hle, hd⟩ | ⟨hnd, hlt, hnil⟩ | ⟨hnil, herr⟩
      · simp only [hit]
        subst hpp
        have hl3 := nsEncode_length_ge p
        have := ih (buf.drop (nsEncode p).length) false stream (p :: acc) (k + 1) ps' n tail
          (fun x hx => hps x (by simp [hx])) hn hmax hd (by intro h; cases h)
          (by rw [runMeasure_mk, List.length_drop]; simp only [Bool.false_eq_true, if_false]; omega)
        simpa using this
      · simp only [hnd]
        exact ih buf true stream acc (k + 1) ps n tail hps hn hmax he (fun _ => ⟨hlt, hnil⟩)
          (by rw [runMeasure_mk]; simp only [if_true]; omega)
      · subst hnil
        simp [herr]
    intro buf mr stream acc k ps n tail hps hn hmax he hmr hm
    rw [runMeasure_mk] at hm
    cases mr with
    | false =>
      apply key buf stream acc k ps n tail hps hn hmax he
      simpa using hm
    | true =>
      simp only [if_true] at hm
      cases stream with
      | nil =>
        exfalso
        obtain ⟨h1, h2⟩ := hmr rfl
        have h3 := congrArg List.length he
        cases ps with
        | nil =>
          have := h2 rfl
          simp only [List.flatten_nil, List.append_nil, nsEncodeAll, List.nil_append, List.length_append, List.length_cons] at h3
          omega
        | cons p ps' =>
          have := h1 p ps' rfl
          simp only [List.flatten_nil, List.append_nil, nsEncodeAll, List.length_append] at h3
          omega
      | cons c cs =>
        rw [run_fill max f buf c cs acc k]
        apply key _ cs acc k ps n tail hps hn hmax
        · simpa [List.append_assoc] using he
        · rw [flatten_cons_length, List.length_cons] at hm
          simp only [List.length_append]; omega

/-- A payload list is either entirely within the limit or splits at its first oversized payload. -/
theorem acceptedPrefix_split (max : Option Nat) : ∀ ps : List Bytes, (∀ p ∈ ps, p.length < 10 ^ 9) →
    (∀ p ∈ ps, bufWithin max p = true) ∨
    ∃ a q r, ps = a ++ q :: r ∧ (∀ p ∈ a, bufWithin max p = true) ∧ bufLimitExceeded max q.length = true ∧
      acceptedPrefix max ps = (a, false) := by
  intro ps
  induction ps with
  | nil => intro _; left; intro p hp; cases hp
  | cons p r ih =>
    intro hlen
    by_cases hp : bufWithin max p = true
    · rcases ih (fun x hx => hlen x (by simp [hx])) with hall | ⟨a, q, r', hr, ha, hq, hacc⟩
      · left; intro x hx; simp at hx; rcases hx with rfl | hx; exact hp; exact hall x hx
      · right
        refine ⟨p :: a, q, r', by simp [hr], ?_, hq, ?_⟩
        · intro x hx; simp at hx; rcases hx with rfl | hx; exact hp; exact ha x hx
        · simp [acceptedPrefix, hp, hacc]
    · right
      refine ⟨[], p, r, rfl, (by intro x hx; cases hx), ?_, ?_⟩
      · have := hlen p (by simp)
        simp [bufWithin, this] at hp
        exact hp
      · simp [acceptedPrefix, hp]

end Icinga.C20

/-
  C20 — JSON wire codec: lemmas and round-trip theorems for IcingaModel/C20/Json.lean.
-/
import IcingaModel.C20.Json
namespace Icinga.C20

theorem hexVal_hexDigit (k : Nat) (h : k < 16) : hexVal (hexDigit k) = some k := by
  have : ∀ k : Fin 16, hexVal (hexDigit k.val) = some k.val := by decide
  exact this ⟨k, h⟩

theorem parseHex4_hex4 (n : Nat) (h : n < 65536) (rest : List UInt8) :
    parseHex4 (hex4 n ++ rest) = some (n, rest) := by
  simp only [hex4, List.cons_append, List.nil_append, parseHex4]
  rw [hexVal_hexDigit _ (by omega), hexVal_hexDigit _ (by omega), hexVal_hexDigit _ (by omega),
    hexVal_hexDigit _ (by omega)]
  simp only [Option.some.injEq, Prod.mk.injEq, and_true]
  omega

theorem charOfNat?_toNat (c : Char) : charOfNat? c.toNat = some c := by
  have h : c.toNat.isValidChar := c.valid
  unfold charOfNat?
  rw [dif_pos h]
  rfl

theorem char_eq_ofNat (c : Char) (n : Nat) (h : c.toNat = n) : Char.ofNat n = c := by
  rw [← h, Char.ofNat_toNat]

theorem decodeChar1_u (r : List UInt8) : decodeChar1 (92 :: 117 :: r) = decodeUEscape r := by
  simp [decodeChar1]

theorem bmp_roundtrip (c : Char) (h : c.toNat ≤ 0xFFFF) (rest : List UInt8) :
    decodeChar1 (92 :: 117 :: hex4 c.toNat ++ rest) = some (c, rest) := by
  have hv : c.toNat < 55296 ∨ 57343 < c.toNat ∧ c.toNat < 1114112 := c.valid
  simp only [List.cons_append]
  rw [decodeChar1_u, decodeUEscape, parseHex4_hex4 _ (by omega)]
  simp only
  rw [if_neg (by omega), charOfNat?_toNat]
  rfl

theorem surrogate_roundtrip_aux (c : Char) (h : 0x10000 ≤ c.toNat) (rest : List UInt8) :
    decodeChar1 (92 :: 117 :: (hex4 (0xD7C0 + c.toNat / 1024) ++
      92 :: 117 :: hex4 (0xDC00 + c.toNat % 1024)) ++ rest) = some (c, rest) := by
  have hv : c.toNat < 55296 ∨ 57343 < c.toNat ∧ c.toNat < 1114112 := c.valid
  have e : 0x10000 + (0xD7C0 + c.toNat / 1024 - 0xD800) * 1024 + (0xDC00 + c.toNat % 1024 - 0xDC00)
      = c.toNat := by omega
  simp only [List.cons_append, List.append_assoc]
  rw [decodeChar1_u, decodeUEscape, parseHex4_hex4 _ (by omega)]
  simp only
  rw [if_pos (by omega)]
  rw [if_pos (by simp), parseHex4_hex4 _ (by omega)]
  simp only
  rw [if_pos (by omega), e, charOfNat?_toNat]
  rfl

theorem raw_roundtrip (c : Char) (h1 : 0x20 ≤ c.toNat) (h2 : c.toNat < 0x7F) (h3 : c.toNat ≠ 0x22)
    (h4 : c.toNat ≠ 0x5C) (rest : List UInt8) :
    decodeChar1 ([UInt8.ofNat c.toNat] ++ rest) = some (c, rest) := by
  have hb : (UInt8.ofNat c.toNat).toNat = c.toNat := by simp [UInt8.toNat_ofNat']; omega
  have n92 : UInt8.ofNat c.toNat ≠ 92 := by
    intro h; rw [h] at hb; simp at hb; omega
  have n34 : UInt8.ofNat c.toNat ≠ 34 := by
    intro h; rw [h] at hb; simp at hb; omega
  simp only [List.cons_append, List.nil_append, decodeChar1]
  rw [if_neg n92, if_neg n34, hb, if_pos (by omega), charOfNat?_toNat]
  rfl

theorem decodeChar1_encodeChar (c : Char) (rest : List UInt8) :
    decodeChar1 (encodeChar c ++ rest) = some (c, rest) := by
  unfold encodeChar
  simp only
  by_cases h08 : c.toNat = 0x08
  · rw [if_pos h08]; simp [decodeChar1]; exact char_eq_ofNat c _ h08
  rw [if_neg h08]
  by_cases h09 : c.toNat = 0x09
  · rw [if_pos h09]; simp [decodeChar1]; exact char_eq_ofNat c _ h09
  rw [if_neg h09]
  by_cases h0A : c.toNat = 0x0A
  · rw [if_pos h0A]; simp [decodeChar1]; exact char_eq_ofNat c _ h0A
  rw [if_neg h0A]
  by_cases h0C : c.toNat = 0x0C
  · rw [if_pos h0C]; simp [decodeChar1]; exact char_eq_ofNat c _ h0C
  rw [if_neg h0C]
  by_cases h0D : c.toNat = 0x0D
  · rw [if_pos h0D]; simp [decodeChar1]; exact char_eq_ofNat c _ h0D
  rw [if_neg h0D]
  by_cases h22 : c.toNat = 0x22
  · rw [if_pos h22]; simp [decodeChar1]; exact char_eq_ofNat c _ h22
  rw [if_neg h22]
  by_cases h5C : c.toNat = 0x5C
  · rw [if_pos h5C]; simp [decodeChar1]; exact char_eq_ofNat c _ h5C
  rw [if_neg h5C]
  by_cases hesc : c.toNat ≤ 0x1F ∨ c.toNat ≥ 0x7F
  · rw [if_pos hesc]
    by_cases hb : c.toNat ≤ 0xFFFF
    · rw [if_pos hb]; exact bmp_roundtrip c hb rest
    · rw [if_neg hb]; exact surrogate_roundtrip_aux c (by omega) rest
  · rw [if_neg hesc]; exact raw_roundtrip c (by omega) (by omega) h22 h5C rest

theorem encodeChar_length_pos (c : Char) : 1 ≤ (encodeChar c).length := by
  unfold encodeChar
  simp only
  repeat' split
  all_goals simp [hex4]

theorem encodeChar_head_ne_quote (c : Char) (rest : List UInt8) :
    ∃ b r, encodeChar c ++ rest = b :: r ∧ b ≠ 34 := by
  unfold encodeChar
  simp only
  repeat' split
  all_goals first
    | exact ⟨92, _, rfl, by decide⟩
    | skip
  rename_i h22 _ hesc
  refine ⟨_, _, rfl, ?_⟩
  have hb : (UInt8.ofNat c.toNat).toNat = c.toNat := by simp [UInt8.toNat_ofNat']; omega
  intro h; rw [h] at hb; simp at hb; omega

theorem decodeCharsF_encodeChars (s : List Char) : ∀ (f : Nat) (acc : List Char) (rest : List UInt8),
    (encodeChars s ++ 34 :: rest).length ≤ f →
    decodeCharsF f (encodeChars s ++ 34 :: rest) acc = some (acc.reverse ++ s, rest) := by
  induction s with
  | nil =>
    intro f acc rest hf
    cases f with
    | zero => simp [encodeChars] at hf
    | succ f => simp [encodeChars, decodeCharsF]
  | cons c cs ih =>
    intro f acc rest hf
    cases f with
    | zero => simp [encodeChars] at hf
    | succ f =>
      have hl := encodeChar_length_pos c
      simp only [encodeChars, List.append_assoc, List.length_append] at hf ⊢
      obtain ⟨b, r, hbr, hb⟩ := encodeChar_head_ne_quote c (encodeChars cs ++ 34 :: rest)
      have hd := decodeChar1_encodeChar c (encodeChars cs ++ 34 :: rest)
      rw [hbr] at hd
      rw [hbr, decodeCharsF]
      rw [if_neg hb, hd]
      simp only
      rw [ih f (c :: acc) rest (by simp only [List.length_append]; omega)]
      simp

theorem jsonString_roundtrip_aux (s : List Char) (rest : List UInt8) :
    jsonDecodeString (jsonEncodeString s ++ rest) = some (s, rest) := by
  simp only [jsonEncodeString, List.cons_append, List.append_assoc, List.nil_append,
    jsonDecodeString, if_true]
  rw [decodeCharsF_encodeChars s _ [] rest (Nat.le_refl _)]
  simp

/-! ## `intCodec` -/

theorem decByte_toNat (k : Nat) (h : k < 10) : (UInt8.ofNat (48 + k)).toNat = 48 + k := by
  simp [UInt8.toNat_ofNat']; omega

theorem revDigitsVal_revDigitsF : ∀ (f n : Nat), n < f → revDigitsVal (revDigitsF f n) = some n := by
  intro f
  induction f with
  | zero => intro n h; omega
  | succ f ih =>
    intro n h
    unfold revDigitsF
    split
    · rename_i h10
      simp only [revDigitsVal, decByte_toNat n h10]
      rw [if_pos (by omega)]
      simp
    · rename_i h10
      simp only [revDigitsVal, decByte_toNat (n % 10) (by omega)]
      rw [if_pos (by omega), ih (n / 10) (by omega)]
      simp only [Option.some.injEq]
      omega

theorem revDigitsF_digits : ∀ (f n : Nat), ∀ b ∈ revDigitsF f n, 48 ≤ b.toNat ∧ b.toNat ≤ 57 := by
  intro f
  induction f with
  | zero => intro n b hb; simp [revDigitsF] at hb
  | succ f ih =>
    intro n b hb
    unfold revDigitsF at hb
    split at hb
    · rename_i h10
      simp only [List.mem_singleton] at hb
      rw [hb, decByte_toNat n h10]; omega
    · simp only [List.mem_cons] at hb
      rcases hb with hb | hb
      · rw [hb, decByte_toNat (n % 10) (by omega)]; omega
      · exact ih _ b hb

theorem natToDec_ne_nil (n : Nat) : natToDec n ≠ [] := by
  unfold natToDec revDigitsF
  split <;> simp

theorem natToDec_digits (n : Nat) : ∀ b ∈ natToDec n, 48 ≤ b.toNat ∧ b.toNat ≤ 57 := by
  intro b hb
  unfold natToDec at hb
  exact revDigitsF_digits _ _ b (List.mem_reverse.mp hb)

theorem decToNat?_natToDec (n : Nat) : decToNat? (natToDec n) = some n := by
  have hne := natToDec_ne_nil n
  unfold decToNat?
  split
  · rename_i h; exact absurd h hne
  · rename_i h
    rw [natToDec, List.reverse_reverse]
    exact revDigitsVal_revDigitsF _ _ (by omega)

theorem intParseLoose_natToDec (n : Nat) : intParseLoose (natToDec n) = some (Int.ofNat n) := by
  have hne := natToDec_ne_nil n
  have hd := natToDec_digits n
  have hv := decToNat?_natToDec n
  cases h : natToDec n with
  | nil => exact absurd h hne
  | cons b rest =>
    rw [h] at hd hv
    have hb := hd b (by simp)
    have n45 : b ≠ 45 := by intro e; rw [e] at hb; simp at hb
    simp only [intParseLoose]
    rw [if_neg n45, hv]

theorem intParseLoose_intFmt (x : Int) : intParseLoose (intFmt x) = some x := by
  cases x with
  | ofNat n => exact intParseLoose_natToDec n
  | negSucc n =>
    simp only [intFmt, intParseLoose, if_true]
    rw [decToNat?_natToDec]
    simp only [Option.some.injEq]
    rfl

theorem isNumChar_of_digit (b : UInt8) (h : 48 ≤ b.toNat ∧ b.toNat ≤ 57) : isNumChar b = true := by
  simp [isNumChar, h.1, h.2]

theorem intCodec_lawful_aux : intCodec.Lawful where
  roundtrip := by
    intro x
    show intParse (intFmt x) = some x
    unfold intParse
    rw [intParseLoose_intFmt]
    simp
  nonempty := by
    intro x
    show intFmt x ≠ []
    cases x with
    | ofNat n => exact natToDec_ne_nil n
    | negSucc n => simp [intFmt]
  chars := by
    intro x b hb
    change b ∈ intFmt x at hb
    cases x with
    | ofNat n => exact isNumChar_of_digit b (natToDec_digits n b hb)
    | negSucc n =>
      simp only [intFmt, List.mem_cons] at hb
      rcases hb with hb | hb
      · rw [hb]; decide
      · exact isNumChar_of_digit b (natToDec_digits _ b hb)

/-- `intParse` is canonical: it accepts exactly the image of `intFmt`. -/
theorem intParse_canonical (bs : List UInt8) (x : Int) (h : intCodec.parse bs = some x) :
    intCodec.fmt x = bs := by
  change intParse bs = some x at h
  unfold intParse at h
  split at h
  · simp at h
  · split at h
    · rename_i he; simp only [Option.some.injEq] at h; rw [← h]; exact he
    · simp at h

/-! ## Values -/

/-- What may follow a number token: nothing, or a byte that cannot continue the token. -/
def NumSafe (rest : List UInt8) : Prop := ∀ b r, rest = b :: r → isNumChar b = false

theorem numSafe_nil : NumSafe [] := by intro b r h; cases h

theorem numSafe_cons (b : UInt8) (r : List UInt8) (h : isNumChar b = false) : NumSafe (b :: r) := by
  intro b' r' e; cases e; exact h

theorem takeWhile_numChars (xs rest : List UInt8) (hx : ∀ b ∈ xs, isNumChar b = true)
    (hr : NumSafe rest) :
    (xs ++ rest).takeWhile isNumChar = xs ∧ (xs ++ rest).dropWhile isNumChar = rest := by
  induction xs with
  | nil =>
    cases rest with
    | nil => simp
    | cons b r => simp [hr b r rfl]
  | cons x xs ih =>
    have hx' : isNumChar x = true := hx x (by simp)
    have := ih (fun b hb => hx b (by simp [hb]))
    simp [hx', this.1, this.2]

theorem decodeNumber_fmt {N : Type} (c : NumCodec N) (hc : c.Lawful) (n : N) (rest : List UInt8)
    (hr : NumSafe rest) : decodeNumber c (c.fmt n ++ rest) = some (JValue.num n, rest) := by
  have := takeWhile_numChars (c.fmt n) rest (hc.chars n) hr
  unfold decodeNumber
  rw [this.1, this.2, hc.roundtrip]

/-- A number token starts with a number character, hence not with any other token's first byte. -/
theorem decodeValueF_numStart {N : Type} (c : NumCodec N) (f : Nat) (b : UInt8) (t : List UInt8)
    (hb : isNumChar b = true) : decodeValueF c (f + 1) (b :: t) = decodeNumber c (b :: t) := by
  have h1 : b ≠ 110 := by intro e; rw [e] at hb; revert hb; decide
  have h2 : b ≠ 116 := by intro e; rw [e] at hb; revert hb; decide
  have h3 : b ≠ 102 := by intro e; rw [e] at hb; revert hb; decide
  have h4 : b ≠ 34 := by intro e; rw [e] at hb; revert hb; decide
  have h5 : b ≠ 91 := by intro e; rw [e] at hb; revert hb; decide
  have h6 : b ≠ 123 := by intro e; rw [e] at hb; revert hb; decide
  simp only [decodeValueF]
  rw [if_neg h1, if_neg h2, if_neg h3, if_neg h4, if_neg h5, if_neg h6, if_pos hb]

theorem jsonEncodeString_cons (s : List Char) (rest : List UInt8) :
    jsonEncodeString s ++ rest = 34 :: (encodeChars s ++ 34 :: rest) := by
  simp [jsonEncodeString]

/-- First byte of an encoded value: never `]`. -/
theorem jsonEncode_head {N : Type} (c : NumCodec N) (hc : c.Lawful) (v : JValue N)
    (rest : List UInt8) : ∃ b r, jsonEncode c v ++ rest = b :: r ∧ b ≠ 93 := by
  cases v with
  | null => (simp only [jsonEncode, List.cons_append]; exact ⟨_, _, rfl, by decide⟩)
  | bool b => cases b
              · (simp only [jsonEncode, List.cons_append]; exact ⟨_, _, rfl, by decide⟩)
              · (simp only [jsonEncode, List.cons_append]; exact ⟨_, _, rfl, by decide⟩)
  | num n =>
    have hne := hc.nonempty n
    have hch := hc.chars n
    simp only [jsonEncode]
    cases h : c.fmt n with
    | nil => exact absurd h hne
    | cons b t =>
      rw [h] at hch
      have hb := hch b (by simp)
      exact ⟨b, t ++ rest, by simp, by intro e; rw [e] at hb; revert hb; decide⟩
  | str s => (simp only [jsonEncode, jsonEncodeString, List.cons_append]; exact ⟨_, _, rfl, by decide⟩)
  | arr xs =>
    cases xs with
    | nil => (simp only [jsonEncode, List.cons_append]; exact ⟨_, _, rfl, by decide⟩)
    | cons x xs => (simp only [jsonEncode, List.cons_append]; exact ⟨_, _, rfl, by decide⟩)
  | obj kvs =>
    cases kvs with
    | nil => (simp only [jsonEncode, List.cons_append]; exact ⟨_, _, rfl, by decide⟩)
    | cons kv kvs =>
      obtain ⟨k, v⟩ := kv
      (simp only [jsonEncode, List.cons_append]; exact ⟨_, _, rfl, by decide⟩)

theorem jsonEncode_length_pos {N : Type} (c : NumCodec N) (hc : c.Lawful) (v : JValue N) :
    1 ≤ (jsonEncode c v).length := by
  obtain ⟨b, r, h, _⟩ := jsonEncode_head c hc v []
  simp only [List.append_nil] at h
  rw [h]; simp

theorem encodeRestElems_length_pos {N : Type} (c : NumCodec N) (xs : List (JValue N)) :
    1 ≤ (encodeRestElems c xs).length := by
  cases xs <;> simp [encodeRestElems]

theorem encodeRestMembers_length_pos {N : Type} (c : NumCodec N)
    (kvs : List (List Char × JValue N)) : 1 ≤ (encodeRestMembers c kvs).length := by
  cases kvs with
  | nil => simp [encodeRestMembers]
  | cons kv kvs => obtain ⟨k, v⟩ := kv; simp [encodeRestMembers]

/-- The statement proved for every value by the mutual induction below. -/
def ValueOk {N : Type} (c : NumCodec N) (v : JValue N) : Prop :=
  ∀ (f : Nat) (rest : List UInt8), (jsonEncode c v).length ≤ f → NumSafe rest →
    decodeValueF c f (jsonEncode c v ++ rest) = some (v, rest)


mutual
theorem valueOk {N : Type} (c : NumCodec N) (hc : c.Lawful) : (v : JValue N) → ValueOk c v
  | .null => by
    intro f rest hf _
    obtain ⟨f, rfl⟩ : ∃ g, f = g + 1 := ⟨f - 1, by simp [jsonEncode] at hf; omega⟩
    simp [jsonEncode, decodeValueF, stripPrefix]
  | .bool true => by
    intro f rest hf _
    obtain ⟨f, rfl⟩ : ∃ g, f = g + 1 := ⟨f - 1, by simp [jsonEncode] at hf; omega⟩
    simp [jsonEncode, decodeValueF, stripPrefix]
  | .bool false => by
    intro f rest hf _
    obtain ⟨f, rfl⟩ : ∃ g, f = g + 1 := ⟨f - 1, by simp [jsonEncode] at hf; omega⟩
    simp [jsonEncode, decodeValueF, stripPrefix]
  | .num n => by
    intro f rest hf hr
    have hpos := jsonEncode_length_pos c hc (.num n)
    obtain ⟨f, rfl⟩ : ∃ g, f = g + 1 := ⟨f - 1, by omega⟩
    simp only [jsonEncode]
    cases h : c.fmt n with
    | nil => exact absurd h (hc.nonempty n)
    | cons b t =>
      have hb : isNumChar b = true := hc.chars n b (by simp [h])
      rw [List.cons_append, decodeValueF_numStart c f b _ hb, ← List.cons_append, ← h]
      exact decodeNumber_fmt c hc n rest hr
  | .str s => by
    intro f rest hf _
    obtain ⟨f, rfl⟩ : ∃ g, f = g + 1 :=
      ⟨f - 1, by simp [jsonEncode, jsonEncodeString] at hf; omega⟩
    have hs := jsonString_roundtrip_aux s rest
    rw [jsonEncodeString_cons] at hs
    simp only [jsonEncode]
    rw [jsonEncodeString_cons]
    simp [decodeValueF, hs]
  | .arr [] => by
    intro f rest hf _
    obtain ⟨f, rfl⟩ : ∃ g, f = g + 1 := ⟨f - 1, by simp [jsonEncode] at hf; omega⟩
    simp [jsonEncode, decodeValueF]
  | .arr (x :: xs) => by
    intro f rest hf _
    simp only [jsonEncode, List.length_cons, List.length_append] at hf
    obtain ⟨f, rfl⟩ : ∃ g, f = g + 1 := ⟨f - 1, by omega⟩
    obtain ⟨b, r, hbr, hb⟩ := jsonEncode_head c hc x (encodeRestElems c xs ++ rest)
    have he := elemsOk c hc xs f x rest (by omega) (valueOk c hc x)
    simp only [jsonEncode, List.cons_append, List.append_assoc]
    rw [hbr] at he
    rw [hbr]
    simp [decodeValueF, hb, he]
  | .obj [] => by
    intro f rest hf _
    obtain ⟨f, rfl⟩ : ∃ g, f = g + 1 := ⟨f - 1, by simp [jsonEncode] at hf; omega⟩
    simp [jsonEncode, decodeValueF]
  | .obj ((k, v) :: kvs) => by
    intro f rest hf _
    simp only [jsonEncode, List.length_cons, List.length_append] at hf
    obtain ⟨f, rfl⟩ : ∃ g, f = g + 1 := ⟨f - 1, by omega⟩
    have he := membersOk c hc kvs f k v rest (by omega) (valueOk c hc v)
    simp only [jsonEncode, List.cons_append, List.append_assoc]
    rw [jsonEncodeString_cons] at he
    rw [jsonEncodeString_cons]
    simp [decodeValueF, he]
theorem elemsOk {N : Type} (c : NumCodec N) (hc : c.Lawful) : (xs : List (JValue N)) →
    ∀ (f : Nat) (x : JValue N) (rest : List UInt8),
      (jsonEncode c x).length + (encodeRestElems c xs).length ≤ f → ValueOk c x →
      decodeElemsF c f (jsonEncode c x ++ (encodeRestElems c xs ++ rest)) = some (x :: xs, rest)
  | [] => by
    intro f x rest hf hx
    simp only [encodeRestElems, List.length_cons, List.length_nil] at hf
    obtain ⟨f, rfl⟩ : ∃ g, f = g + 1 := ⟨f - 1, by omega⟩
    simp only [decodeElemsF, encodeRestElems, List.cons_append, List.nil_append]
    rw [hx f (93 :: rest) (by omega) (numSafe_cons _ _ (by decide))]
    simp
  | y :: ys => by
    intro f x rest hf hx
    simp only [encodeRestElems, List.length_cons, List.length_append] at hf
    obtain ⟨f, rfl⟩ : ∃ g, f = g + 1 := ⟨f - 1, by omega⟩
    have ih := elemsOk c hc ys f y rest (by omega) (valueOk c hc y)
    simp only [decodeElemsF, encodeRestElems, List.cons_append, List.append_assoc]
    rw [hx f _ (by omega) (numSafe_cons 44 _ (by decide))]
    simp [ih]
theorem membersOk {N : Type} (c : NumCodec N) (hc : c.Lawful) :
    (kvs : List (List Char × JValue N)) →
    ∀ (f : Nat) (k : List Char) (v : JValue N) (rest : List UInt8),
      (jsonEncodeString k).length + (1 + ((jsonEncode c v).length + (encodeRestMembers c kvs).length))
        ≤ f → ValueOk c v →
      decodeMembersF c f (jsonEncodeString k ++
        (58 :: (jsonEncode c v ++ (encodeRestMembers c kvs ++ rest)))) = some ((k, v) :: kvs, rest)
  | [] => by
    intro f k v rest hf hv
    simp only [encodeRestMembers, List.length_cons, List.length_nil] at hf
    obtain ⟨f, rfl⟩ : ∃ g, f = g + 1 := ⟨f - 1, by omega⟩
    simp only [decodeMembersF, encodeRestMembers, List.cons_append, List.nil_append]
    rw [jsonString_roundtrip_aux]
    simp only [if_true]
    rw [hv f (125 :: rest) (by omega) (numSafe_cons _ _ (by decide))]
    simp
  | (k', v') :: kvs => by
    intro f k v rest hf hv
    simp only [encodeRestMembers, List.length_cons, List.length_append] at hf
    obtain ⟨f, rfl⟩ : ∃ g, f = g + 1 := ⟨f - 1, by omega⟩
    have ih := membersOk c hc kvs f k' v' rest (by omega) (valueOk c hc v')
    simp only [decodeMembersF, encodeRestMembers, List.cons_append, List.append_assoc]
    rw [jsonString_roundtrip_aux]
    simp only [if_true]
    rw [hv f _ (by omega) (numSafe_cons 44 _ (by decide))]
    simp [ih]
end

/-- Generalised round trip: a value followed by anything that cannot extend a number token. -/
theorem decodeValueF_jsonEncode {N : Type} (c : NumCodec N) (hc : c.Lawful) (v : JValue N)
    (f : Nat) (rest : List UInt8) (hf : (jsonEncode c v).length ≤ f) (hr : NumSafe rest) :
    decodeValueF c f (jsonEncode c v ++ rest) = some (v, rest) :=
  valueOk c hc v f rest hf hr

theorem jsonValue_roundtrip_aux {N : Type} (c : NumCodec N) (hc : c.Lawful) (v : JValue N) :
    jsonDecode c (jsonEncode c v) = some v := by
  have h := valueOk c hc v ((jsonEncode c v).length + 1) [] (by omega) numSafe_nil
  simp only [List.append_nil] at h
  simp [jsonDecode, h]


/-! ## Non-vacuity -/

/-- ASCII text as bytes (for the examples only). -/
def asciiBytes (s : String) : List UInt8 := s.toList.map (fun c => UInt8.ofNat c.toNat)

-- control characters, quote, non-ASCII BMP, astral (surrogate pair), DEL, unescaped '/'
example : jsonEncodeString "a\"\né😀/\x7f".toList =
    asciiBytes "\"a\\\"\\n\\u00e9\\ud83d\\ude00/\\u007f\"" := by decide +kernel
example : jsonDecodeString (asciiBytes "\"a\\\"\\n\\u00e9\\ud83d\\ude00/\\u007f\"tail") =
    some ("a\"\né😀/\x7f".toList, asciiBytes "tail") := by decide +kernel
-- upper-case hex and `\/` are accepted although never emitted
example : jsonDecodeString (asciiBytes "\"\\u00E9\\/\"") = some ("é/".toList, []) := by
  decide +kernel
-- lone high surrogate, lone low surrogate, high surrogate followed by a non-surrogate
example : jsonDecodeString (asciiBytes "\"\\ud800\"") = none := by decide +kernel
example : jsonDecodeString (asciiBytes "\"\\udc00\"") = none := by decide +kernel
example : jsonDecodeString (asciiBytes "\"\\ud83d\\u0041\"") = none := by decide +kernel
-- unterminated string, truncated escape, raw control byte
example : jsonDecodeString (asciiBytes "\"abc") = none := by decide +kernel
example : jsonDecodeString (asciiBytes "\"\\u00e\"") = none := by decide +kernel
example : jsonDecodeString [34, 10, 34] = none := by decide +kernel

/-- A nested object with empty containers, duplicate keys and negative numbers. -/
def sampleValue : JValue Int :=
  .obj [("k".toList, .arr [.num (-12), .null, .bool true, .obj [], .arr []]),
        ("é\"".toList, .str "x\ty".toList), ("k".toList, .num 0)]

def sampleBytes : List UInt8 :=
  asciiBytes "{\"k\":[-12,null,true,{},[]],\"\\u00e9\\\"\":\"x\\ty\",\"k\":0}"

example : jsonEncode intCodec sampleValue = sampleBytes := by decide +kernel
example : jsonDecode intCodec sampleBytes = some sampleValue := by
  rw [← (by decide +kernel : jsonEncode intCodec sampleValue = sampleBytes)]
  exact jsonValue_roundtrip_aux intCodec intCodec_lawful_aux sampleValue
-- rejected: trailing comma, truncated input, trailing garbage, non-canonical numbers, bare comma
example : (jsonDecode intCodec (asciiBytes "[1,]")).isNone = true := by decide +kernel
example : (jsonDecode intCodec (asciiBytes "[1,2")).isNone = true := by decide +kernel
example : (jsonDecode intCodec (asciiBytes "{\"a\":1")).isNone = true := by decide +kernel
example : (jsonDecode intCodec (asciiBytes "{\"a\"}")).isNone = true := by decide +kernel
example : (jsonDecode intCodec (asciiBytes "[1]]")).isNone = true := by decide +kernel
example : (jsonDecode intCodec (asciiBytes "01")).isNone = true := by decide +kernel
example : (jsonDecode intCodec (asciiBytes "-0")).isNone = true := by decide +kernel
example : (jsonDecode intCodec (asciiBytes "nul")).isNone = true := by decide +kernel
example : (jsonDecode intCodec (asciiBytes "")).isNone = true := by decide +kernel
example : (jsonDecode intCodec (asciiBytes "[[1,[2,{\"a\":null}]],-7]")).isSome = true := by
  decide +kernel
-- the codec laws are satisfiable and `intParse` is not the constant `none`
example : intCodec.parse (asciiBytes "-120") = some (-120) := by decide +kernel
example : intCodec.fmt (-120) = asciiBytes "-120" := by decide +kernel

end Icinga.C20

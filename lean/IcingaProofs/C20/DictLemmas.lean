/-
  C20 — JSON wire codec, dictionary layer: lemmas for IcingaModel/C20/Dict.lean.

  1. `keyLt` is a strict total order.
  2. `dictSet` (`m_Data[k] = v`) keeps the key order, `dictGet` after `dictSet`; the dictionary built
     from a member list is sorted and holds, for every key, the value of its LAST member
     (`canon_last_wins_aux`), and is the only sorted list that does (`dictOfMembers_unique_aux`).
  3. `canonV` yields canonical values, fixes canonical values, is idempotent.
  4. Round trip `icingaDecode ∘ jsonEncode`: identity on Icinga values, `canonV` in general.
  5. Examples.
-/
import IcingaModel.C20.Dict
import IcingaProofs.C20.JsonLemmas

set_option autoImplicit false

namespace Icinga.C20

/-! ## 1. `keyLt` is a strict total order -/

theorem keyLt_irrefl_aux : ∀ (a : List Char), keyLt a a = false
  | [] => by simp [keyLt]
  | a :: as => by simp [keyLt, keyLt_irrefl_aux as]

theorem keyLt_trans_aux : ∀ (a b c : List Char), keyLt a b = true → keyLt b c = true →
    keyLt a c = true
  | [], [], _ => by simp [keyLt]
  | [], _ :: _, [] => by simp [keyLt]
  | [], _ :: _, _ :: _ => by simp [keyLt]
  | _ :: _, [], _ => by simp [keyLt]
  | _ :: _, _ :: _, [] => by simp [keyLt]
  | a :: as, b :: bs, c :: cs => by
    have ih := keyLt_trans_aux as bs cs
    simp only [keyLt]
    intro h1 h2
    split at h1
    · split at h2
      · rw [if_pos (by omega)]
      · split at h2
        · cases h2
        · rw [if_pos (by omega)]
    · split at h1
      · cases h1
      · split at h2
        · rw [if_pos (by omega)]
        · split at h2
          · cases h2
          · rw [if_neg (by omega), if_neg (by omega)]
            exact ih h1 h2

theorem keyLt_trichotomy_aux : ∀ (a b : List Char),
    keyLt a b = true ∨ a = b ∨ keyLt b a = true
  | [], [] => by simp
  | [], _ :: _ => by simp [keyLt]
  | _ :: _, [] => by simp [keyLt]
  | a :: as, b :: bs => by
    simp only [keyLt]
    by_cases h1 : a.toNat < b.toNat
    · simp [h1]
    · by_cases h2 : b.toNat < a.toNat
      · simp [h2]
      · have hab : a = b := Char.toNat_inj.mp (by omega)
        subst hab
        simp only [h1, if_false]
        rcases keyLt_trichotomy_aux as bs with h | h | h
        · exact Or.inl h
        · exact Or.inr (Or.inl (by rw [h]))
        · exact Or.inr (Or.inr h)

theorem keyLt_asymm_aux (a b : List Char) (h : keyLt a b = true) : keyLt b a = false := by
  cases hba : keyLt b a with
  | false => rfl
  | true =>
    have := keyLt_trans_aux a b a h hba
    rw [keyLt_irrefl_aux] at this
    cases this

theorem keyLt_ne (a b : List Char) (h : keyLt a b = true) : a ≠ b := by
  intro hab
  subst hab
  rw [keyLt_irrefl_aux] at h
  cases h

/-- `std::map` equivalence (`!(a<b) && !(b<a)`) is equality. -/
theorem keyLt_equiv_eq (a b : List Char) (h1 : keyLt a b = false) (h2 : keyLt b a = false) :
    a = b := by
  rcases keyLt_trichotomy_aux a b with h | h | h
  · rw [h1] at h; cases h
  · exact h
  · rw [h2] at h; cases h

/-! ## 2. `dictSet`, `dictGet`, `dictOfMembers` -/

variable {N : Type}

/-- `keysSorted` is `List.Pairwise` on the keys. -/
theorem keysSorted_iff_pairwise : ∀ (m : List (List Char × JValue N)),
    keysSorted m = true ↔ m.Pairwise (fun a b => keyLt a.1 b.1 = true)
  | [] => by simp [keysSorted]
  | [_] => by simp [keysSorted]
  | (k1, v1) :: (k2, v2) :: m => by
    have ih := keysSorted_iff_pairwise ((k2, v2) :: m)
    simp only [keysSorted, Bool.and_eq_true, ih]
    constructor
    · rintro ⟨h12, hp⟩
      refine List.pairwise_cons.mpr ⟨?_, hp⟩
      intro y hy
      rcases List.mem_cons.mp hy with rfl | hy
      · exact h12
      · exact keyLt_trans_aux _ _ _ h12 ((List.pairwise_cons.mp hp).1 y hy)
    · intro hp
      have := List.pairwise_cons.mp hp
      exact ⟨this.1 (k2, v2) (by simp), this.2⟩

theorem keysSorted_cons (k : List Char) (v : JValue N) (m : List (List Char × JValue N)) :
    keysSorted ((k, v) :: m) = true ↔
      (∀ y ∈ m, keyLt k y.1 = true) ∧ keysSorted m = true := by
  rw [keysSorted_iff_pairwise, keysSorted_iff_pairwise, List.pairwise_cons]

/-- Keys after a `Set`: the new key or an old one. -/
theorem mem_dictSet (k : List Char) (v : JValue N) : ∀ (m : List (List Char × JValue N))
    (y : List Char × JValue N), y ∈ dictSet k v m → y.1 = k ∨ ∃ z ∈ m, y.1 = z.1
  | [], y => by
    intro h
    simp only [dictSet, List.mem_singleton] at h
    exact Or.inl (by rw [h])
  | (k', v') :: m, y => by
    intro h
    simp only [dictSet] at h
    split at h
    · rcases List.mem_cons.mp h with rfl | h
      · exact Or.inl rfl
      · exact Or.inr ⟨y, h, rfl⟩
    · split at h
      · rcases List.mem_cons.mp h with rfl | h
        · exact Or.inr ⟨(k', v'), by simp, rfl⟩
        · rcases mem_dictSet k v m y h with h | ⟨z, hz, hyz⟩
          · exact Or.inl h
          · exact Or.inr ⟨z, List.mem_cons_of_mem _ hz, hyz⟩
      · rcases List.mem_cons.mp h with rfl | h
        · exact Or.inr ⟨(k', v'), by simp, rfl⟩
        · exact Or.inr ⟨y, List.mem_cons_of_mem _ h, rfl⟩

/-- `Set` keeps the key order. -/
theorem dictSet_sorted_aux (k : List Char) (v : JValue N) : ∀ (m : List (List Char × JValue N)),
    keysSorted m = true → keysSorted (dictSet k v m) = true
  | [] => by simp [dictSet, keysSorted]
  | (k', v') :: m => by
    intro hs
    have hs' := (keysSorted_cons k' v' m).mp hs
    simp only [dictSet]
    split
    · rename_i h
      simp only [keysSorted, Bool.and_eq_true]
      exact ⟨h, hs⟩
    · split
      · rename_i h
        refine (keysSorted_cons _ _ _).mpr ⟨?_, dictSet_sorted_aux k v m hs'.2⟩
        intro y hy
        rcases mem_dictSet k v m y hy with hk | ⟨z, hz, hyz⟩
        · rw [hk]; exact h
        · rw [hyz]; exact hs'.1 z hz
      · exact (keysSorted_cons _ _ _).mpr hs'

/-- Reading back the key just written (no sortedness needed). -/
theorem dictGet_dictSet_same_aux (k : List Char) (v : JValue N) :
    ∀ (m : List (List Char × JValue N)), dictGet k (dictSet k v m) = some v
  | [] => by simp [dictSet, dictGet]
  | (k', v') :: m => by
    simp only [dictSet]
    split
    · simp [dictGet]
    · rename_i h1
      split
      · rename_i h2
        have hne : k' ≠ k := keyLt_ne _ _ h2
        simp only [dictGet, if_neg hne]
        exact dictGet_dictSet_same_aux k v m
      · rename_i h2
        have : k = k' := keyLt_equiv_eq k k' (by simpa using h1) (by simpa using h2)
        simp [dictGet, this]

/-- Other keys are not affected (no sortedness needed). -/
theorem dictGet_dictSet_other_aux (k k' : List Char) (v : JValue N) (hne : k' ≠ k) :
    ∀ (m : List (List Char × JValue N)), dictGet k' (dictSet k v m) = dictGet k' m
  | [] => by simp [dictSet, dictGet, Ne.symm hne]
  | (k₀, v₀) :: m => by
    simp only [dictSet]
    split
    · simp [dictGet, Ne.symm hne]
    · rename_i h1
      split
      · simp only [dictGet]
        rw [dictGet_dictSet_other_aux k k' v hne m]
      · rename_i h2
        have : k = k₀ := keyLt_equiv_eq k k₀ (by simpa using h1) (by simpa using h2)
        subst this
        simp [dictGet, Ne.symm hne]

/-- `Get` after `Set`, both cases. -/
theorem dictGet_dictSet_aux (k k' : List Char) (v : JValue N) (m : List (List Char × JValue N)) :
    dictGet k' (dictSet k v m) = if k' = k then some v else dictGet k' m := by
  by_cases h : k' = k
  · subst h; simp [dictGet_dictSet_same_aux]
  · simp [h, dictGet_dictSet_other_aux k k' v h]

theorem foldl_dictSet_sorted (kvs : List (List Char × JValue N)) :
    ∀ (acc : List (List Char × JValue N)), keysSorted acc = true →
      keysSorted (kvs.foldl (fun m kv => dictSet kv.1 kv.2 m) acc) = true := by
  induction kvs with
  | nil => intro acc h; exact h
  | cons kv kvs ih => intro acc h; exact ih _ (dictSet_sorted_aux kv.1 kv.2 acc h)

/-- The dictionary built from any member list is key-sorted. -/
theorem dictOfMembers_sorted_aux (kvs : List (List Char × JValue N)) :
    keysSorted (dictOfMembers kvs) = true :=
  foldl_dictSet_sorted kvs [] (by simp [keysSorted])

theorem dictGet_append (k : List Char) : ∀ (a b : List (List Char × JValue N)),
    dictGet k (a ++ b) = (dictGet k a).or (dictGet k b)
  | [], b => by simp [dictGet]
  | (k', v) :: a, b => by
    simp only [List.cons_append, dictGet]
    split
    · simp
    · exact dictGet_append k a b

theorem dictGet_foldl_dictSet (k : List Char) (kvs : List (List Char × JValue N)) :
    ∀ (acc : List (List Char × JValue N)),
      dictGet k (kvs.foldl (fun m kv => dictSet kv.1 kv.2 m) acc) =
        (dictGet k kvs.reverse).or (dictGet k acc) := by
  induction kvs with
  | nil => intro acc; simp [dictGet]
  | cons kv kvs ih =>
    intro acc
    simp only [List.foldl_cons, List.reverse_cons]
    rw [ih, dictGet_append, Option.or_assoc, dictGet_dictSet_aux]
    congr 1
    obtain ⟨k₀, v₀⟩ := kv
    simp only [dictGet]
    by_cases h : k₀ = k
    · subst h; simp
    · simp [h, Ne.symm h]

/-- Duplicate keys: the LAST member with key `k` (= the first one in the reversed list) is the one
    the dictionary holds; a key without a member is absent. -/
theorem canon_last_wins_aux (k : List Char) (kvs : List (List Char × JValue N)) :
    dictGet k (dictOfMembers kvs) = dictGet k kvs.reverse := by
  rw [dictOfMembers, dictGet_foldl_dictSet]
  simp [dictGet]

/-! ## Sorted association lists are determined by their lookups -/

theorem dictGet_none_of_lt (k : List Char) : ∀ (m : List (List Char × JValue N)),
    (∀ y ∈ m, keyLt k y.1 = true) → dictGet k m = none
  | [] => by simp [dictGet]
  | (k', v') :: m => by
    intro h
    have hne : k' ≠ k := Ne.symm (keyLt_ne _ _ (h (k', v') (by simp)))
    simp only [dictGet, if_neg hne]
    exact dictGet_none_of_lt k m (fun y hy => h y (List.mem_cons_of_mem _ hy))

/-- Two key-sorted lists with the same lookups are equal: a `std::map` is determined by `Get`. -/
theorem sorted_ext_aux : ∀ (m₁ m₂ : List (List Char × JValue N)),
    keysSorted m₁ = true → keysSorted m₂ = true →
    (∀ k, dictGet k m₁ = dictGet k m₂) → m₁ = m₂
  | [], [] => by simp
  | [], (k, v) :: m => by
    intro _ _ h
    have := h k
    simp [dictGet] at this
  | (k, v) :: m, [] => by
    intro _ _ h
    have := h k
    simp [dictGet] at this
  | (k1, v1) :: m₁, (k2, v2) :: m₂ => by
    intro h1 h2 h
    have s1 := (keysSorted_cons k1 v1 m₁).mp h1
    have s2 := (keysSorted_cons k2 v2 m₂).mp h2
    rcases keyLt_trichotomy_aux k1 k2 with hlt | heq | hlt
    · have := h k1
      have hne : k2 ≠ k1 := Ne.symm (keyLt_ne _ _ hlt)
      rw [dictGet, if_pos rfl, dictGet, if_neg hne,
        dictGet_none_of_lt k1 m₂ (fun y hy => keyLt_trans_aux _ _ _ hlt (s2.1 y hy))] at this
      cases this
    · subst heq
      have hv := h k1
      simp only [dictGet, if_true] at hv
      have hv : v1 = v2 := Option.some.inj hv
      subst hv
      have htl : ∀ k, dictGet k m₁ = dictGet k m₂ := by
        intro k
        by_cases hk : k1 = k
        · subst hk
          rw [dictGet_none_of_lt k1 m₁ s1.1, dictGet_none_of_lt k1 m₂ s2.1]
        · have := h k
          simpa only [dictGet, if_neg hk] using this
      rw [sorted_ext_aux m₁ m₂ s1.2 s2.2 htl]
    · have := h k2
      have hne : k1 ≠ k2 := Ne.symm (keyLt_ne _ _ hlt)
      rw [dictGet, if_neg hne, dictGet, if_pos rfl,
        dictGet_none_of_lt k2 m₁ (fun y hy => keyLt_trans_aux _ _ _ hlt (s1.1 y hy))] at this
      cases this

/-- `dictOfMembers kvs` is THE key-sorted list in which every key is bound to the value of its last
    member in `kvs` (specification of `JsonDecode`'s object handling up to uniqueness). -/
theorem dictOfMembers_unique_aux (kvs m : List (List Char × JValue N))
    (hs : keysSorted m = true) (hg : ∀ k, dictGet k m = dictGet k kvs.reverse) :
    m = dictOfMembers kvs :=
  sorted_ext_aux m _ hs (dictOfMembers_sorted_aux kvs)
    (fun k => by rw [hg k, canon_last_wins_aux])

/-! ## 3. `canonV` produces canonical values and fixes them -/

theorem canonElems_eq_map (xs : List (JValue N)) : canonElems xs = xs.map canonV := by
  induction xs with
  | nil => simp [canonElems]
  | cons x xs ih => simp [canonElems, ih]

theorem canonMembers_eq_map (kvs : List (List Char × JValue N)) :
    canonMembers kvs = kvs.map (fun kv => (kv.1, canonV kv.2)) := by
  induction kvs with
  | nil => simp [canonMembers]
  | cons kv kvs ih => obtain ⟨k, v⟩ := kv; simp [canonMembers, ih]

/-- The left-fold reading of `canonV` on objects, spelled out. -/
theorem canonV_obj_aux (kvs : List (List Char × JValue N)) :
    canonV (.obj kvs) =
      .obj ((kvs.map (fun kv => (kv.1, canonV kv.2))).foldl (fun m kv => dictSet kv.1 kv.2 m) []) := by
  simp [canonV, dictOfMembers, canonMembers_eq_map]

theorem canonicalMembers_dictSet (k : List Char) (v : JValue N) (hv : canonicalB v = true) :
    ∀ (m : List (List Char × JValue N)), canonicalMembers m = true →
      canonicalMembers (dictSet k v m) = true
  | [] => by simp [dictSet, canonicalMembers, hv]
  | (k', v') :: m => by
    intro hm
    simp only [canonicalMembers, Bool.and_eq_true] at hm
    simp only [dictSet]
    split
    · simp [canonicalMembers, hv, hm]
    · split
      · simp [canonicalMembers, hm, canonicalMembers_dictSet k v hv m hm.2]
      · simp [canonicalMembers, hv, hm]

theorem canonicalMembers_foldl (kvs : List (List Char × JValue N)) :
    ∀ (acc : List (List Char × JValue N)), canonicalMembers kvs = true →
      canonicalMembers acc = true →
      canonicalMembers (kvs.foldl (fun m kv => dictSet kv.1 kv.2 m) acc) = true := by
  induction kvs with
  | nil => intro acc _ h; exact h
  | cons kv kvs ih =>
    intro acc hk ha
    obtain ⟨k, v⟩ := kv
    simp only [canonicalMembers, Bool.and_eq_true] at hk
    exact ih _ hk.2 (canonicalMembers_dictSet k v hk.1 acc ha)

mutual
theorem canonV_canonicalB : (v : JValue N) → canonicalB (canonV v) = true
  | .null => by simp [canonV, canonicalB]
  | .bool _ => by simp [canonV, canonicalB]
  | .num _ => by simp [canonV, canonicalB]
  | .str _ => by simp [canonV, canonicalB]
  | .arr xs => by simp only [canonV, canonicalB]; exact canonElems_canonical xs
  | .obj kvs => by
    simp only [canonV, canonicalB, Bool.and_eq_true]
    exact ⟨dictOfMembers_sorted_aux _,
      canonicalMembers_foldl _ [] (canonMembers_canonical kvs) (by simp [canonicalMembers])⟩
theorem canonElems_canonical : (xs : List (JValue N)) → canonicalElems (canonElems xs) = true
  | [] => by simp [canonElems, canonicalElems]
  | x :: xs => by
    simp [canonElems, canonicalElems, canonV_canonicalB x, canonElems_canonical xs]
theorem canonMembers_canonical : (kvs : List (List Char × JValue N)) →
    canonicalMembers (canonMembers kvs) = true
  | [] => by simp [canonMembers, canonicalMembers]
  | (_, v) :: kvs => by
    simp [canonMembers, canonicalMembers, canonV_canonicalB v, canonMembers_canonical kvs]
end

/-- What `JsonDecode` hands out is an Icinga value: all dictionaries sorted and duplicate-free. -/
theorem canonV_canonical_aux (v : JValue N) : Canonical (canonV v) := canonV_canonicalB v

/-- Writing a key above all present keys appends at the end. -/
theorem dictSet_append_of_lt (k : List Char) (v : JValue N) :
    ∀ (m : List (List Char × JValue N)), (∀ y ∈ m, keyLt y.1 k = true) →
      dictSet k v m = m ++ [(k, v)]
  | [] => by simp [dictSet]
  | (k', v') :: m => by
    intro h
    have hk' : keyLt k' k = true := h (k', v') (by simp)
    have hn : keyLt k k' = false := keyLt_asymm_aux _ _ hk'
    simp only [dictSet, hn, hk', if_true, List.cons_append]
    rw [dictSet_append_of_lt k v m (fun y hy => h y (List.mem_cons_of_mem _ hy))]
    simp

theorem foldl_dictSet_of_sorted (kvs : List (List Char × JValue N)) :
    ∀ (acc : List (List Char × JValue N)), keysSorted (acc ++ kvs) = true →
      kvs.foldl (fun m kv => dictSet kv.1 kv.2 m) acc = acc ++ kvs := by
  induction kvs with
  | nil => intro acc _; simp
  | cons kv kvs ih =>
    intro acc h
    obtain ⟨k, v⟩ := kv
    have hp := (keysSorted_iff_pairwise _).mp h
    have hlt : ∀ y ∈ acc, keyLt y.1 k = true := fun y hy =>
      (List.pairwise_append.mp hp).2.2 y hy (k, v) (by simp)
    simp only [List.foldl_cons]
    rw [dictSet_append_of_lt k v acc hlt, ih (acc ++ [(k, v)]) (by simpa using h)]
    simp

/-- A strictly ascending member list is rebuilt unchanged. -/
theorem dictOfMembers_of_sorted_aux (kvs : List (List Char × JValue N))
    (h : keysSorted kvs = true) : dictOfMembers kvs = kvs := by
  have := foldl_dictSet_of_sorted kvs [] (by simpa using h)
  simpa [dictOfMembers] using this

mutual
theorem canonV_of_canonicalB : (v : JValue N) → canonicalB v = true → canonV v = v
  | .null => by simp [canonV]
  | .bool _ => by simp [canonV]
  | .num _ => by simp [canonV]
  | .str _ => by simp [canonV]
  | .arr xs => by
    intro h
    simp only [canonicalB] at h
    simp only [canonV, canonElems_of_canonical xs h]
  | .obj kvs => by
    intro h
    simp only [canonicalB, Bool.and_eq_true] at h
    simp only [canonV, canonMembers_of_canonical kvs h.2, dictOfMembers_of_sorted_aux kvs h.1]
theorem canonElems_of_canonical : (xs : List (JValue N)) → canonicalElems xs = true →
    canonElems xs = xs
  | [] => by simp [canonElems]
  | x :: xs => by
    intro h
    simp only [canonicalElems, Bool.and_eq_true] at h
    simp only [canonElems, canonV_of_canonicalB x h.1, canonElems_of_canonical xs h.2]
theorem canonMembers_of_canonical : (kvs : List (List Char × JValue N)) →
    canonicalMembers kvs = true → canonMembers kvs = kvs
  | [] => by simp [canonMembers]
  | (k, v) :: kvs => by
    intro h
    simp only [canonicalMembers, Bool.and_eq_true] at h
    simp only [canonMembers, canonV_of_canonicalB v h.1, canonMembers_of_canonical kvs h.2]
end

/-- Icinga values are fixed points: nothing is reordered or dropped. -/
theorem canonV_of_canonical_aux (v : JValue N) (hv : Canonical v) : canonV v = v :=
  canonV_of_canonicalB v hv

theorem canon_idempotent_aux (v : JValue N) : canonV (canonV v) = canonV v :=
  canonV_of_canonical_aux _ (canonV_canonical_aux v)

/-- Conversely only canonical trees are fixed points, so `Canonical` is exactly the image of
    `canonV`. -/
theorem canonical_iff_fixed_aux (v : JValue N) : Canonical v ↔ canonV v = v :=
  ⟨canonV_of_canonical_aux v, fun h => h ▸ canonV_canonical_aux v⟩

/-! ## 4. Round trip through the wire format -/

/-- Any tree: encoding and decoding yields the dictionary reading of it (objects sorted by key,
    duplicate keys collapsed to the last member). -/
theorem icingaDecode_jsonEncode_aux (c : NumCodec N) (hc : c.Lawful) (v : JValue N) :
    icingaDecode c (jsonEncode c v) = some (canonV v) := by
  simp [icingaDecode, jsonValue_roundtrip_aux c hc v]

/-- Icinga values (all dictionaries sorted, duplicate-free) survive the round trip unchanged. -/
theorem json_roundtrip_dict_aux (c : NumCodec N) (hc : c.Lawful) (v : JValue N)
    (hv : Canonical v) : icingaDecode c (jsonEncode c v) = some v := by
  rw [icingaDecode_jsonEncode_aux c hc v, canonV_of_canonical_aux v hv]

/-- Whatever `icingaDecode` returns is an Icinga value. -/
theorem icingaDecode_canonical_aux (c : NumCodec N) (bs : List UInt8) (v : JValue N)
    (h : icingaDecode c bs = some v) : Canonical v := by
  simp only [icingaDecode, Option.map_eq_some_iff] at h
  obtain ⟨w, _, rfl⟩ := h
  exact canonV_canonical_aux w

/-- Encoding what was decoded and decoding again changes nothing (decode ∘ encode is the identity
    on the decoder's range). -/
theorem icingaDecode_reencode_aux (c : NumCodec N) (hc : c.Lawful) (bs : List UInt8) (v : JValue N)
    (h : icingaDecode c bs = some v) : icingaDecode c (jsonEncode c v) = some v :=
  json_roundtrip_dict_aux c hc v (icingaDecode_canonical_aux c bs v h)

/-! ## 5. Non-vacuity -/

/-- Decode as Icinga does and render the result again (`JValue` has no `DecidableEq`; values are
    compared through their wire text). -/
def icingaRecode (s : String) : Option (List UInt8) :=
  (icingaDecode intCodec (asciiBytes s)).map (jsonEncode intCodec)

-- key order: by code point, a proper prefix (also the empty key) first
example : keyLt "a".toList "b".toList = true := by decide
example : keyLt "b".toList "a".toList = false := by decide
example : keyLt "".toList "a".toList = true := by decide
example : keyLt "a".toList "ab".toList = true := by decide
example : keyLt "ab".toList "b".toList = true := by decide
example : keyLt "B".toList "a".toList = true := by decide
example : keyLt "z".toList "é".toList = true := by decide
-- U+FFFD < U+1F600 by code point (and in UTF-8), although its UTF-16 escape `\ufffd` is
-- greater than `\ud83d\ude00`
example : keyLt "\uFFFD".toList "😀".toList = true := by decide

/-- `{"b":1,"a":2,"b":3}` as parsed: textual order, duplicate kept. -/
def dupSample : JValue Int :=
  .obj [("b".toList, .num 1), ("a".toList, .num 2), ("b".toList, .num 3)]

example : jsonDecode intCodec (asciiBytes "{\"b\":1,\"a\":2,\"b\":3}") = some dupSample := by
  rw [← (by decide +kernel :
    jsonEncode intCodec dupSample = asciiBytes "{\"b\":1,\"a\":2,\"b\":3}")]
  exact jsonValue_roundtrip_aux intCodec intCodec_lawful_aux dupSample
-- sorted, last duplicate wins
example : jsonEncode intCodec (canonV dupSample) = asciiBytes "{\"a\":2,\"b\":3}" := by
  decide +kernel
example : icingaRecode "{\"b\":1,\"a\":2,\"b\":3}" = some (asciiBytes "{\"a\":2,\"b\":3}") := by
  decide +kernel
example : ¬ Canonical dupSample := by decide +kernel
example : Canonical (canonV dupSample) := by decide +kernel
example : (dictGet "b".toList (dictOfMembers [("b".toList, JValue.num (1 : Int)),
    ("a".toList, .num 2), ("b".toList, .num 3)])).map (jsonEncode intCodec) =
    some (asciiBytes "3") := by decide +kernel
example : (dictGet "c".toList (dictOfMembers [("b".toList, JValue.num (1 : Int)),
    ("a".toList, .num 2), ("b".toList, .num 3)])).isNone = true := by decide +kernel

-- nested: objects inside objects inside arrays are all converted; arrays keep their order
example : icingaRecode ("{\"z\":{\"y\":1,\"x\":[{\"b\":1,\"a\":2},3,1],\"y\":2},\"a\":null," ++
      "\"z\":{\"y\":1,\"x\":[{\"b\":1,\"a\":2},3,1],\"y\":[]}}") =
    some (asciiBytes "{\"a\":null,\"z\":{\"x\":[{\"a\":2,\"b\":1},3,1],\"y\":[]}}") := by
  decide +kernel
-- a key that is a prefix of another one, and the empty key
example : icingaRecode "{\"ab\":1,\"b\":0,\"a\":2,\"\":3,\"aa\":4}" =
    some (asciiBytes "{\"\":3,\"a\":2,\"aa\":4,\"ab\":1,\"b\":0}") := by decide +kernel
-- non-ASCII keys order by code point: z (7A) < é (E9) < U+FFFD < 😀 (1F600)
example : icingaRecode "{\"\\ud83d\\ude00\":1,\"\\ufffd\":2,\"z\":3,\"\\u00e9\":4}" =
    some (asciiBytes "{\"z\":3,\"\\u00e9\":4,\"\\ufffd\":2,\"\\ud83d\\ude00\":1}") := by
  decide +kernel
-- nothing to do: empty object, scalars, already sorted input
example : icingaRecode "{}" = some (asciiBytes "{}") := by decide +kernel
example : icingaRecode "[3,1,2,1]" = some (asciiBytes "[3,1,2,1]") := by decide +kernel
example : icingaRecode "{\"a\":1,\"b\":{\"c\":[],\"d\":\"x\"}}" =
    some (asciiBytes "{\"a\":1,\"b\":{\"c\":[],\"d\":\"x\"}}") := by decide +kernel
-- a syntax error stays an error
example : icingaRecode "{\"a\":1,}" = none := by decide +kernel

/-- An Icinga value with nested dictionaries: `Canonical` is satisfiable by a non-trivial tree and
    the round-trip theorem applies to it. -/
def goodSample : JValue Int :=
  .obj [("".toList, .arr [.obj [("a".toList, .num 2), ("b".toList, .num (-1))], .null]),
        ("a".toList, .obj []), ("ab".toList, .str "x".toList), ("é".toList, .bool false)]

example : Canonical goodSample := by decide +kernel
example : icingaDecode intCodec (jsonEncode intCodec goodSample) = some goodSample :=
  json_roundtrip_dict_aux intCodec intCodec_lawful_aux goodSample (by decide +kernel)
-- an unsorted inner object makes the whole tree non-canonical
example : ¬ Canonical (JValue.arr [JValue.obj [("b".toList, JValue.num (1 : Int)),
    ("a".toList, .num 2)]]) := by decide +kernel
-- equal neighbours are not "ascending"
example : keysSorted [("a".toList, JValue.num (1 : Int)), ("a".toList, .num 2)] = false := by
  decide +kernel

end Icinga.C20

/-
  C20 — helper lemmas for the state-file theorems (specFramesAll, the probe record among the items).
-/
import IcingaModel.C20.Conn
import IcingaProofs.C20.SpecLemmas

namespace Icinga.C20

/-- A byte string the specification reads as canonical frames only IS the writer's encoding of those payloads. -/
theorem specFramesAll_sound : ∀ (fuel : Nat) (bs : Bytes) (ps : List Bytes), specFramesAll fuel bs = some ps →
    bs = nsEncodeAll ps ∧ ∀ p ∈ ps, p.length < 10 ^ 9 := by
  intro fuel
  induction fuel with
  | zero => intro bs ps h; simp [specFramesAll] at h
  | succ f ih =>
    intro bs ps h
    unfold specFramesAll at h
    by_cases he : bs.isEmpty = true
    · simp [he] at h
      subst h
      simp [List.isEmpty_iff] at he
      simp [he, nsEncodeAll]
    · simp only [he, Bool.false_eq_true, if_false] at h
      cases hf : specFrame bs with
      | none => simp [hf] at h
      | some pr =>
        obtain ⟨p, rest⟩ := pr
        simp only [hf] at h
        cases hr : specFramesAll f rest with
        | none => simp [hr] at h
        | some qs =>
          simp [hr] at h
          subst h
          obtain ⟨hbs, hp⟩ := specFrame_sound bs p rest hf
          obtain ⟨hrest, hq⟩ := ih rest qs hr
          refine ⟨by rw [hbs, hrest]; simp [nsEncodeAll], ?_⟩
          intro x hx
          simp at hx
          rcases hx with rfl | hx
          · exact hp
          · exact hq x hx

/-- Among the records of a file only the applicable one writes into the probe object. -/
theorem filterMap_apply_good (apply : Bytes → Option Nat) (good : Bytes) (want : Nat)
    (hgood : apply good = some want) (hother : ∀ p, p ≠ good → apply p = none) :
    ∀ ps : List Bytes, ps.filterMap apply = List.replicate (ps.filter (· == good)).length want := by
  intro ps
  induction ps with
  | nil => rfl
  | cons p r ih =>
    by_cases hp : p = good
    · subst hp
      simp [hgood, ih, List.replicate_succ]
    · have hne : (p == good) = false := by simpa using hp
      simp [hother p hp, ih, hne]

end Icinga.C20

/-
  Tie of the C03 model's type and state filter bits to lib/icinga/notification.hpp (see Tie/EnumsC01.lean).
-/
import IcingaModel.C03.Model
import IcingaProofs.Gen.Enums

namespace Icinga.Tie.EnumsC03
open Icinga.C03 Icinga.Gen

theorem c03_notification_type_bits :
    [NType.downtimeStart, .downtimeEnd, .downtimeRemoved, .custom, .ack, .problem, .recovery, .flapStart, .flapEnd].map NType.bit
      = Enums.notificationTypes := by decide

/-- every enumerator of `NotificationType` is a power of two and they are pairwise distinct: a type filter is a
    set of types. -/
theorem c03_type_bits_are_distinct_powers_of_two :
    (∀ b ∈ Enums.notificationTypes, ∃ k ∈ List.range 16, b = 2 ^ k) ∧ Enums.notificationTypes.Nodup := by decide

theorem c03_state_bits_are_distinct_powers_of_two :
    (∀ b ∈ Enums.stateFilters, ∃ k ∈ List.range 16, b = 2 ^ k) ∧ Enums.stateFilters.Nodup := by decide

/-- `stateBit` is `ServiceStateToFilter` / `HostStateToFilter` over the source's numbering of states and filter bits. -/
theorem c03_state_bit_service :
    stateBit false Enums.serviceOK = Enums.stateFilterOK ∧ stateBit false Enums.serviceWarning = Enums.stateFilterWarning ∧
    stateBit false Enums.serviceCritical = Enums.stateFilterCritical ∧ stateBit false Enums.serviceUnknown = Enums.stateFilterUnknown := by decide

theorem c03_state_bit_host :
    stateBit true Enums.hostUp = Enums.stateFilterUp ∧ stateBit true Enums.hostDown = Enums.stateFilterDown := by decide

end Icinga.Tie.EnumsC03

/-
  Tie of the C02 model's notification-type bits to lib/icinga/notification.hpp (see Tie/EnumsC01.lean).
-/
import IcingaModel.C02.Model
import IcingaProofs.Gen.Enums

namespace Icinga.Tie.EnumsC02
open Icinga.C02 Icinga.Gen

theorem c02_notification_type_bits :
    NType.problem.bit = Enums.notificationProblem ∧ NType.recovery.bit = Enums.notificationRecovery ∧
    NType.flapStart.bit = Enums.notificationFlappingStart ∧ NType.flapEnd.bit = Enums.notificationFlappingEnd := by decide

/-- the four bits are pairwise disjoint in the source's numbering, so a set of withheld types is a bit mask. -/
theorem c02_bits_disjoint :
    ∀ a ∈ [Enums.notificationProblem, Enums.notificationRecovery, Enums.notificationFlappingStart, Enums.notificationFlappingEnd],
    ∀ b ∈ [Enums.notificationProblem, Enums.notificationRecovery, Enums.notificationFlappingStart, Enums.notificationFlappingEnd],
      a ≠ b → a &&& b = 0 := by decide

end Icinga.Tie.EnumsC02

/-
  Tie of the C01 model's numeric encodings to the source: `Icinga.Gen.Enums` is regenerated from /repo by
  gen/enums.py (a probe compiled against the real headers) at the start of every check; these theorems are
  re-checked against it.  A changed enumerator value breaks exactly this module.
-/
import IcingaModel.C01.Model
import IcingaProofs.Gen.Enums

namespace Icinga.Tie.EnumsC01
open Icinga.C01 Icinga.Gen

/-- `SState.toNat` is the numbering of `ServiceState` in lib/icinga/checkresult.ti. -/
theorem c01_service_state_encoding :
    SState.ok.toNat = Enums.serviceOK ∧ SState.warning.toNat = Enums.serviceWarning ∧
    SState.critical.toNat = Enums.serviceCritical ∧ SState.unknown.toNat = Enums.serviceUnknown := by decide

/-- `SType.toNat` is the numbering of `StateType`. -/
theorem c01_state_type_encoding :
    SType.soft.toNat = Enums.stateTypeSoft ∧ SType.hard.toNat = Enums.stateTypeHard := by decide

/-- The host projection of the model (`proj .host`) yields `HostUp`/`HostDown` as the source numbers them,
    for every raw state. -/
theorem c01_host_state_encoding (s : SState) :
    proj .host s = (if hostUp s then Enums.hostUp else Enums.hostDown) := by
  cases s <;> decide

/-- decoding inverts encoding for every value the source defines, and rejects everything else. -/
theorem c01_service_state_decode (n : Nat) :
    (SState.ofNat? n).isSome = decide (n ∈ [Enums.serviceOK, Enums.serviceWarning, Enums.serviceCritical, Enums.serviceUnknown]) := by
  match n with
  | 0 | 1 | 2 | 3 => decide
  | n + 4 => simp [SState.ofNat?, Enums.serviceOK, Enums.serviceWarning, Enums.serviceCritical, Enums.serviceUnknown]

end Icinga.Tie.EnumsC01

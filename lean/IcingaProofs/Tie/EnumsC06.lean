/-
  Tie of the C06 model's acknowledgement encoding to lib/icinga/checkable.ti (see Tie/EnumsC01.lean).
-/
import IcingaModel.C06.Model
import IcingaProofs.Gen.Enums

namespace Icinga.Tie.EnumsC06
open Icinga.C06 Icinga.Gen

theorem c06_acknowledgement_encoding :
    Ack.none.toNat = Enums.acknowledgementNone ∧ Ack.normal.toNat = Enums.acknowledgementNormal ∧
    Ack.sticky.toNat = Enums.acknowledgementSticky := by decide

theorem c06_acknowledgement_decode (n : Nat) :
    (Ack.ofNat? n).isSome = decide (n ∈ [Enums.acknowledgementNone, Enums.acknowledgementNormal, Enums.acknowledgementSticky]) := by
  match n with
  | 0 | 1 | 2 => decide
  | n + 3 => simp [Ack.ofNat?, Enums.acknowledgementNone, Enums.acknowledgementNormal, Enums.acknowledgementSticky]

end Icinga.Tie.EnumsC06

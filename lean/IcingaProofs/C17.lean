/-
  C17 — Runtime objects: all-or-nothing, faithful creation; values cannot inject config.
  Property theorems (helper lemmas: IcingaProofs/C17/*.lean).
-/
import IcingaProofs.C17.Lemmas
import IcingaProofs.C17.ObjLemmas
import IcingaProofs.C17.DeleteLemmas
import IcingaProofs.C17.InvLemmas
import IcingaProofs.C17.SpecLemmas
import IcingaProofs.C17.CascadeLemmas
import IcingaProofs.C17.PathLemmas
import IcingaProofs.C17.RoundTrip
import IcingaModel.C17.Spec

namespace Icinga.C17

/-! ## String literals -/

/-- Every NUL-free byte string survives `EmitString` → string-literal lexer unchanged, and the lexer
    stops exactly at the closing quote the writer put there: whatever follows (`rest`) is left
    untouched, so no byte of `s` can end the literal early or swallow what comes after it.
    (Full statement without `hs` is false: `string_nul_counterexample`, F-C17b.) -/
theorem string_emit_lex_roundtrip (s : Str) (hs : chNUL ∉ s) (rest : Str) :
    lexString (emitString s ++ rest) = some (s, rest) :=
  lexString_emitString s hs rest

example : lexString (emitString ['a', '"', '\\', '\n', '}', '}', '}', '*', '/', '#'] ++ ['\n', 'x']) =
    some (['a', '"', '\\', '\n', '}', '}', '}', '*', '/', '#'], ['\n', 'x']) := by decide

/-- F-C17b: a string containing U+0000 is truncated at the NUL up to the next escape sequence
    (`while (*yptr)` copy loop, config_lexer.ll:97-100): `"ab\0cd"` is read back as `"ab"`. -/
theorem string_nul_counterexample :
    lexString (emitString ['a', 'b', chNUL, 'c', 'd']) = some (['a', 'b'], []) := by decide


/-! ## Numbers -/

/-- The emitted literal denotes the number rounded to six fractional digits: kernel-evaluated WITNESS for one
    number with seven fractional digits (the statement for all numbers is part of `emit_parse_roundtrip`, whose
    right-hand side carries `round6Ms attrs`) … -/
theorem number_emit_denotes_round6 :
    emitNumber ⟨true, 12345671234567, 7⟩ = ['-','1','2','3','4','5','6','7','.','1','2','3','4','5','7'] ∧
    parseNumber ['1','2','3','4','5','6','7','.','1','2','3','4','5','7', '\n'] =
      some (⟨false, 1234567123457, 6⟩, ['\n']) := by decide

/-- … hence a number with at most six fractional decimal digits is written exactly
    (`faithful_attributes` for numbers holds under this hypothesis only). -/
theorem faithful_number_partial (d : Dec) (h : d.scale ≤ 6) :
    (round6 d).neg = d.neg ∧ (round6 d).mant * 10 ^ d.scale = d.mant * 10 ^ (round6 d).scale := by
  simp only [round6, micro, h, if_true]
  refine ⟨trivial, ?_⟩
  rw [Nat.mul_assoc, ← Nat.pow_add]
  congr 2
  omega

example : (round6 ⟨false, 5, 1⟩).mant = 500000 := by decide

/-- F-C17a: `1e-7` is written as `0.000000` and read back as 0. -/
theorem number_precision_counterexample :
    emitNumber ⟨false, 1, 7⟩ = ['0', '.', '0', '0', '0', '0', '0', '0'] ∧
    (round6 ⟨false, 1, 7⟩).mant = 0 := by decide

/-! ## Structure of the generated text -/

/-- What the round trip asks of the inputs: name, template names, keys and string values are free of
    U+0000 (F-C17b).  Nothing else: quotes, backslashes, line breaks, comment markers, `}}}`, `$`, dots,
    EVERY keyword of the lexer (incl. `in` and `debugger`, which the writer knows since 3c83e1d), any bytes,
    any nesting, any numbers; no condition on the type name. -/
structure InputOk (ty name : Str) (imports : List Str) (attrs : List (Str × Value)) : Prop where
  name : chNUL ∉ name
  imports : ∀ t ∈ imports, chNUL ∉ t
  attrs : ∀ kv ∈ attrs, chNUL ∉ kv.1 ∧ VSafe kv.2

/-- `emit_parse_roundtrip`: for EVERY type, name, template list and attribute dictionary (as above)
    the text `EmitConfigItem` generates is read back by the lexer/parser as exactly ONE statement
    `object <type> "<name>" [ignore_on_error]` whose body imports exactly the given templates and assigns
    exactly the supplied paths (dotted keys split) the supplied values, numbers rounded to six fractional
    digits — and nothing else (the parser rejects any text with a further statement or foreign token). -/
theorem emit_parse_roundtrip (ty name : Str) (ioe : Bool) (imports : List Str) (attrs : List (Str × Value))
    (text : Str) (h : InputOk ty name imports attrs)
    (he : emitConfigItem ty name ioe imports attrs = some text) :
    parseItem text = some { ty := ty, name := name, ioe := ioe, imports := imports,
                            assigns := pathsOf (round6Ms attrs) } :=
  parseItem_emit ty name ioe imports attrs text h.name h.imports
    (fun kv hkv => by
      obtain ⟨k, v⟩ := kv
      have := h.attrs (k, v) hkv
      exact AttrOk.of k v this.1 this.2) he

/-- `no_injection`: the STRUCTURE of the generated configuration depends on the inputs only through
    the list of keys: same type, same name, same templates, one assignment per supplied key with
    exactly that key's path, in order — whatever the name, the keys and the values contain. -/
theorem no_injection (ty name : Str) (ioe : Bool) (imports : List Str) (attrs : List (Str × Value))
    (text : Str) (h : InputOk ty name imports attrs)
    (he : emitConfigItem ty name ioe imports attrs = some text) :
    ∃ it, parseItem text = some it ∧ it.ty = ty ∧ it.name = name ∧ it.ioe = ioe ∧ it.imports = imports ∧
      it.assigns.map (·.1) = attrs.map (fun kv => splitDots kv.1) := by
  refine ⟨_, emit_parse_roundtrip ty name ioe imports attrs text h he, rfl, rfl, rfl, rfl, ?_⟩
  clear h he
  induction attrs with
  | nil => rfl
  | cons kv r ih => obtain ⟨k, v⟩ := kv; simpa [pathsOf, round6Ms] using ih

/-- The same for `CreateObjectConfig` (attribute whitelist, name parts, `version`): if it returns a
    text, that text is the one object statement over `allAttrs`. -/
theorem create_config_roundtrip (ti : TypeInfo) (fullName : Str) (ioe : Bool) (templates : List Str)
    (attrs : List (Str × Value)) (parts : Option (List (Str × Value))) (now : Dec) (text : Str)
    (h : InputOk ti.name (shortName fullName parts)
          templates (allAttrs attrs parts now))
    (he : createObjectConfig ti fullName ioe templates attrs parts now = some text) :
    parseItem text = some { ty := ti.name,
                            name := shortName fullName parts,
                            ioe := ioe, imports := templates,
                            assigns := pathsOf (round6Ms (allAttrs attrs parts now)) } := by
  unfold createObjectConfig at he
  split at he
  · exact emit_parse_roundtrip _ _ ioe templates _ text h he
  · cases he

/-- `faithful_attributes_partial`: the values the text assigns denote exactly the supplied ones when
    every number has at most six fractional decimal digits (full statement false: F-C17a,
    `number_precision_counterexample`). -/
theorem faithful_attributes_partial (attrs : List (Str × Value)) (h : MsExact attrs) :
    MsEq (round6Ms attrs) attrs :=
  round6Ms_faithful attrs h

example : InputOk ['H','o','s','t'] ['h','"','\n','}'] [['t','"']]
    [(['v','a','r','s','.','x'], .dict [(['a','\n','b'], .str ['*','/'])])] :=
  ⟨by decide, by decide, by
    intro kv hkv
    simp at hkv; subst hkv
    refine ⟨by decide, ?_⟩
    simp [VSafe, MsSafe, KeyOk]
    decide⟩

set_option maxRecDepth 100000 in
/-- A concrete hostile-but-harmless input, evaluated by the kernel (regression witness; the general
    statement is `emit_parse_roundtrip`). -/
theorem emit_parse_roundtrip_witness :
    ((emitConfigItem ['H','o','s','t'] ['h','"','\n','}','1'] true [['t','p','l']]
        [(['v','a','r','s'], .dict [(['a',' ','b'], .num ⟨false, 15, 1⟩), (['i','f'], .arr [.empty, .bool true, .dict []]),
            (['k'], .str ['*','/','"','\\','\n','}','}','}','#','/','/'])]),
         (['v','a','r','s','.','x','.','y'], .num ⟨true, 5, 0⟩)]).bind parseItem).map
      (fun it => itemBeq it
        { ty := ['H','o','s','t'], name := ['h','"','\n','}','1'], ioe := true, imports := [['t','p','l']],
          assigns := [((['v','a','r','s'], []), .dict [(['a',' ','b'], .num ⟨false, 1500000, 6⟩),
              (['i','f'], .arr [.empty, .bool true, .dict []]),
              (['k'], .str ['*','/','"','\\','\n','}','}','}','#','/','/'])]),
            ((['v','a','r','s'], [['x'], ['y']]), .num ⟨true, 5000000, 6⟩)] }) = some true := by decide

set_option maxRecDepth 100000 in
/-- Regression for F-C17c (fixed by 917b518): the multi-line key `"x = 1\nb"` is written as a quoted
    string and comes back as ONE key. -/
example :
    emitKey ['x',' ','=',' ','1','\n','b'] = ['"','x',' ','=',' ','1','\\','n','b','"'] ∧
    ((emitConfigItem ['H'] ['h'] false []
        [(['v','a','r','s'], .dict [(['x',' ','=',' ','1','\n','b'], .bool true)])]).bind parseItem).map
      (fun it => assignsBeq it.assigns
        [((['v','a','r','s'], []), .dict [(['x',' ','=',' ','1','\n','b'], .bool true)])]) = some true := by decide

set_option maxRecDepth 100000 in
/-- Regression for F-C17d (fixed by d511a4f): a template name with a quote and line breaks is escaped
    and comes back as that one template name. -/
example :
    ((emitConfigItem ['H'] ['h'] false [['t','"','\n','g','.','x',' ','=',' ','1','\n','/','/']] []).bind parseItem).map
      (fun it => it.imports == [['t','"','\n','g','.','x',' ','=',' ','1','\n','/','/']] && it.assigns.isEmpty)
      = some true := by decide

set_option maxRecDepth 100000 in
/-- Regression for 3c83e1d (`in` and `debugger` added to `ConfigWriter::GetKeywords`): a nested key `in` or
    `debugger` is written `@in` / `@debugger` and comes back as that key (before, it was written bare, the
    lexer read a keyword and the text was rejected).  The general statement is `emit_parse_roundtrip`, which no
    longer excludes these keys. -/
theorem lexer_keyword_key_roundtrip :
    emitKey ['i','n'] = ['@','i','n'] ∧ emitKey ['d','e','b','u','g','g','e','r'] = ['@','d','e','b','u','g','g','e','r'] ∧
    ((emitConfigItem ['H'] ['h'] false []
        [(['v','a','r','s'], .dict [(['i','n'], .bool true), (['d','e','b','u','g','g','e','r'], .empty)])]).bind parseItem).map
      (fun it => assignsBeq it.assigns
        [((['v','a','r','s'], []), .dict [(['i','n'], .bool true), (['d','e','b','u','g','g','e','r'], .empty)])]) = some true := by
  decide

/-- Every keyword of the lexer (transcribed from config_lexer.ll) is in the writer's list (transcribed from
    `ConfigWriter::GetKeywords`), and vice versa: no key is written bare that the lexer reads as a keyword.
    (False before 3c83e1d: `in` and `debugger` were missing.) -/
theorem lexer_keywords_known_to_writer :
    (∀ k ∈ lexerKeywords, k ∈ writerKeywords) ∧ (∀ k ∈ writerKeywords, k ∈ lexerKeywords) := by
  constructor <;> decide

/-- keys are written bare only if the whole key is an identifier -/
theorem bare_key_is_identifier_witness :
    emitKey ['a','-','b'] = ['"','a','-','b','"'] ∧ emitKey ['i','f'] = ['@','i','f'] ∧
    emitKey ['a','_','1'] = ['a','_','1'] ∧ emitKey [] = ['"','"'] ∧
    emitKey ['a','\n','b'] = ['"','a','\\','n','b','"'] := by decide

/-! ## The file of a runtime object ("one .conf file per runtime-created object") -/

/-- `EscapeName` can be undone (by `Utility::UnescapeString`), for EVERY name: no two names are written
    the same way, whatever `%`, `/`, `..`, quotes or bytes they contain. -/
theorem escapeName_injective (a b : Str) (h : escapeName a = escapeName b) : a = b := by
  have := congrArg unescapeName h
  rwa [unescape_escapeName, unescape_escapeName] at this

/-- Two objects of one type get the same file only if they have the same name: a create can never overwrite
    (or, failing, remove) the file of ANOTHER object. -/
theorem confPath_injective (plural a b : Str) (h : confPath plural a = confPath plural b) : a = b := by
  unfold confPath at h
  exact escapeName_injective a b (List.append_cancel_right (List.append_cancel_left h))

/-- The file lies directly in the type's directory below `conf.d`: after the directory prefix no `/` follows,
    whatever the name contains (`../up`, `/abs`, `a/../b` cannot leave the directory). -/
theorem confPath_in_type_dir (plural name : Str) :
    ∃ base, confPath plural name = confDirPrefix plural ++ base ∧ '/' ∉ base := by
  refine ⟨escapeName name ++ confSuffix, rfl, ?_⟩
  simp only [List.mem_append, not_or]
  exact ⟨escapeName_no_slash name, by decide⟩

example : confPath ['h','o','s','t','s'] ['.','.','/','u','p'] =
    ['c','o','n','f','.','d','/','h','o','s','t','s','/','.','.','%','2','F','u','p','.','c','o','n','f'] := by decide
example : confPath ['h'] ['a','/','b'] ≠ confPath ['h'] ['a','%','2','F','b'] := by decide
example : pathExpected ['h'] ['a','/','b'] (confPath ['h'] ['a','%','2','F','b']) = false := by decide
example : pathExpected ['h'] ['a','/','b'] (confPath ['h'] ['a','/','b']) = true := by decide

/-! ## Create / delete state machine -/

/-- All-or-nothing for every fault — including a committed object whose name differs from the requested
    one (F-C17e, fixed by 86ebd6a: fault `nameMismatch`) — except an exception out of `ActivateItems` (see
    `activate_exception_counterexample`; that hypothesis is why the theorem keeps its `_partial` name): either the call reports success without a fault and the state
    gained exactly the active `_api` object, its item and its file; or the state is exactly as before
    (no object, item or file left behind) and `true` is returned only for `ignore_on_error`.
    Second exclusion, `hs`: the rolled-back Service of a failed name check stays in its host's service map
    (F-C17k, `rolled_back_service_resolvable_counterexample`).
    Full statement (no `hf`) fails in the model AND in the real code (known finding F-C17i, witness
    corpus/C17/f_c17i_start_throws.ops: a FileLogger whose log file cannot be opened): the catch block at
    configobjectutility.cpp:287-295 removes the file but does not unregister the committed object.
    `hfresh` is what `confPath_injective` gives for an object that does not exist yet (the invariant that
    every file belongs to a live object is not proved along `run`).  `generated` = children generated by
    apply rules (committed and rolled back together with the object). -/
theorem create_all_or_nothing_partial (st : St) (k : Key) (path : Str) (parents : List Key) (fault : Fault) (api : Bool)
    (generated : List Key)
    (hfresh : path ∉ st.files) (hitem : k ∉ st.items) (hf : fault ≠ .activateThrows) (hs : fault.leftInHostMap = []) :
    ((createObject st k path parents fault api generated).2 = .ok ∧ fault = .none ∧ st.has k = false ∧
        (createObject st k path parents fault api generated).1.objs =
          { key := k, api := api, active := true, file := path } ::
            (generated.map (fun g => { key := g, api := false, active := true, file := [] }) ++ st.objs) ∧
        (createObject st k path parents fault api generated).1.items = k :: (generated ++ st.items) ∧
        (createObject st k path parents fault api generated).1.files = path :: st.files)
    ∨ ((createObject st k path parents fault api generated).1 = st ∧
        ((createObject st k path parents fault api generated).2 = .ok → fault = .ignored)) := by
  unfold createObject
  by_cases hk : st.has k = true
  · simp [hk]
  · have hk' : st.has k = false := by simpa using hk
    have h1 := rmFile_fresh path st.files hfresh
    have h2 : List.filter (fun x => !decide (x = k)) st.items = st.items := by
      simpa only [ne_eq, decide_not] using filter_ne_fresh k st.items hitem
    have h3 : rmFile path (path :: st.files) = st.files := by
      simp [rmFile]; simpa [rmFile] using h1
    by_cases hg : genOk st k generated = true
    · cases fault <;> simp [hk', hg, h1, h2, h3, Fault.leftInHostMap] at hf hs ⊢
    · have hg' : genOk st k generated = false := by simpa using hg
      cases fault <;> simp [hk', hg', h1, h2, h3, Fault.leftInHostMap] at hf hs ⊢

/-- Every registered configuration item belongs to a registered object — in every state reachable by ANY sequence
    of creates (every fault) and deletes (cascading or not, aborted by an exception or not). -/
theorem items_owned_invariant (st : St) (h : ItemsOwned st) (ops : List Op) : ItemsOwned (run st ops) := by
  induction ops generalizing st with
  | nil => exact h
  | cons op ops ih => exact ih (step st op) (step_itemsOwned st op h)

/-- `create_all_or_nothing_partial` in every REACHABLE state: the hypothesis that no item of the requested name is
    registered (`hitem`) is discharged by `items_owned_invariant`, and nothing is asked about whether the object
    exists (an existing one is refused and nothing changes).  Remaining hypotheses: the file name is fresh
    (`confPath_injective` is the reason it is) and the fault is not F-C17i. -/
theorem create_all_or_nothing_reachable (st0 : St) (h0 : ItemsOwned st0) (ops : List Op)
    (k : Key) (path : Str) (parents : List Key) (fault : Fault) (api : Bool) (generated : List Key)
    (hfresh : path ∉ (run st0 ops).files) (hf : fault ≠ .activateThrows) (hs : fault.leftInHostMap = []) :
    ((createObject (run st0 ops) k path parents fault api generated).2 = .ok ∧ fault = .none ∧ (run st0 ops).has k = false ∧
        (createObject (run st0 ops) k path parents fault api generated).1.objs =
          { key := k, api := api, active := true, file := path } ::
            (generated.map (fun g => { key := g, api := false, active := true, file := [] }) ++ (run st0 ops).objs) ∧
        (createObject (run st0 ops) k path parents fault api generated).1.items = k :: (generated ++ (run st0 ops).items) ∧
        (createObject (run st0 ops) k path parents fault api generated).1.files = path :: (run st0 ops).files)
    ∨ ((createObject (run st0 ops) k path parents fault api generated).1 = run st0 ops ∧
        ((createObject (run st0 ops) k path parents fault api generated).2 = .ok → fault = .ignored)) := by
  have hinv := items_owned_invariant st0 h0 ops
  by_cases hk : (run st0 ops).has k = true
  · right
    unfold createObject
    simp [hk]
  · have hitem : k ∉ (run st0 ops).items := fun hm => hk (hinv k hm)
    exact create_all_or_nothing_partial _ k path parents fault api generated hfresh hitem hf hs

example : ItemsOwned ⟨[], [], [], [], []⟩ := by intro k hk; cases hk

/-- All-or-nothing covers the children apply rules generate: a create that fails for ANY reason (here:
    a generated sibling is invalid, `commitFails`) leaves neither the object nor any generated child. -/
example : createObject ⟨[], [], [], [], []⟩ ⟨['H'], ['h']⟩ ['f'] [] .commitFails true [⟨['S'], ['h','!','a']⟩] =
    (⟨[], [], [], [], []⟩, .fail) := by decide

example : (createObject ⟨[], [], [], [], []⟩ ⟨['H'], ['h']⟩ ['f'] [] .none true [⟨['S'], ['h','!','a']⟩]).1.keys =
    [⟨['H'], ['h']⟩, ⟨['S'], ['h','!','a']⟩] := by decide

/-- Regression for F-C17e (fixed by 86ebd6a): a name mismatch after commit fails and leaves nothing. -/
example : createObject ⟨[], [], [], [], []⟩ ⟨['N'], ['s','h','!','!','b']⟩ ['f'] [] .nameMismatch = (⟨[], [], [], [], []⟩, .fail) := by
  decide

example : (createObject ⟨[], [], [], [], []⟩ ⟨['H'], ['h']⟩ ['f'] [] .none).2 = .ok ∧
    (createObject ⟨[], [], [], [], []⟩ ⟨['H'], ['h']⟩ ['f'] [] .commitFails) = (⟨[], [], [], [], []⟩, .fail) := by decide

/-- The excluded case (F-C17i, reproduced on the real code: `PUT /v1/objects/fileloggers/x` with a `path` that
    cannot be opened makes `FileLogger::Start` throw): an exception from `ActivateItems` leaves the registered
    object, marked active, and its item behind while the file is removed and `false` is returned. -/
theorem activate_exception_counterexample :
    createObject ⟨[], [], [], [], []⟩ ⟨['H'], ['h']⟩ ['f'] [] .activateThrows =
      (⟨[⟨⟨['H'], ['h']⟩, true, true, ['f']⟩], [⟨['H'], ['h']⟩], [], [], []⟩, .fail) := by decide

/-- The other excluded case (F-C17k, reproduced on the real code, corpus/C17/f_c17k_rolled_back_service.ops):
    `PUT /v1/objects/services/sh!n0!x` fails the name check (the committed Service is called `sh!n0`) and is rolled
    back — no object, no item, no file — but the rolled-back Service stays in its host's service map:
    `Service::GetByNamePair("sh", "n0")` finds it, and a Downtime, Comment, Notification or Dependency can then be
    created for a service that does not exist.  (Hypothesis `hs` of `create_all_or_nothing_partial`.) -/
theorem rolled_back_service_resolvable_counterexample :
    let req : Key := ⟨tyService, ['s', 'h', '!', 'n', '0', '!', 'x']⟩
    let got : Key := ⟨tyService, ['s', 'h', '!', 'n', '0']⟩
    createObject ⟨[], [], [], [], []⟩ req ['f'] [] (.nameMismatchSvc got) = (⟨[], [], [], [], [got]⟩, .fail) ∧
      (createObject ⟨[], [], [], [], []⟩ req ['f'] [] (.nameMismatchSvc got)).1.resolvesService got = true := by decide

/-- A delete that reports success has removed the object, its item and (for an `_api` object) its file, and the
    object is no longer resolved through its host (F-C17f, fixed by edf9289: nothing can be created for
    a deleted service any more) — for every state, with or without cascade, and whatever deactivation the
    environment answers with an exception (`thr`). -/
theorem delete_removes_object_and_file (st : St) (k : Key) (cascade : Bool) (o : Obj) (thr : Option Key)
    (ho : st.find k = some o) (hok : (deleteObject st k cascade thr).2 = .ok) :
    k ∉ (deleteObject st k cascade thr).1.keys ∧ k ∉ (deleteObject st k cascade thr).1.items ∧
      o.file ∉ (deleteObject st k cascade thr).1.files ∧
      (deleteObject st k cascade thr).1.resolvesService k = false := by
  have hkey : o.key = k := by
    have := List.find?_some ho
    simpa using this
  unfold deleteObject at hok ⊢
  rw [ho] at hok ⊢
  by_cases hapi : o.api = true
  · simp only [hapi, Bool.not_true, Bool.false_eq_true, if_false] at hok ⊢
    simp only [deleteHelper, List.contains_nil, Bool.false_eq_true, if_false] at hok ⊢
    split
    · rename_i hc; simp [hc] at hok
    · rename_i hc
      simp only [hc] at hok
      split
      · rename_i hr
        simp only [hr, if_true] at hok
        unfold finishDelete at hok ⊢
        split
        · rename_i ht; simp [ht] at hok
        · simp [removeObj, St.keys, St.resolvesService, rmFile, hapi, hkey]
      · rename_i hr; simp [hr] at hok
  · simp [hapi] at hok

/-- Regression for F-C17f (fixed by edf9289): a created and then deleted Service is not resolvable through
    its host any more.  (General statement: last conjunct of `delete_removes_object_and_file`.) -/
theorem deleted_service_unresolvable_regression :
    let k : Key := ⟨tyService, ['h', '!', 's']⟩
    let st1 := (createObject ⟨[], [], [], [], []⟩ k ['f'] [] .none).1
    st1.resolvesService k = true ∧ (deleteObject st1 k false).2 = .ok ∧
      (deleteObject st1 k false).1.resolvesService k = false := by decide

/-- Regression for F-C17g (fixed by 6a109cb): an object that depends on itself (a TimePeriod whose
    `includes` names itself can be created) is deleted by a cascading delete — each object is visited
    once — and a non-cascading delete is refused like any delete of an object with dependents. -/
theorem cyclic_cascade_delete_regression :
    let k : Key := ⟨['T'], ['t', 'p']⟩
    let j : Key := ⟨['T'], ['t', 'q']⟩
    let st1 := (createObject ⟨[], [], [], [], []⟩ k ['f'] [k] .none).1
    -- a two-cycle k ↔ j
    let st2 := (createObject (createObject ⟨[], [], [], [], []⟩ k ['f'] [] .none).1 j ['g'] [k] .none).1
    let st3 : St := { st2 with deps := (k, j) :: st2.deps }
    (deleteObject st1 k true).2 = .ok ∧ (deleteObject st1 k true).1.keys = [] ∧ (deleteObject st1 k true).1.files = [] ∧
      deleteObject st1 k false = (st1, .fail) ∧
      (deleteObject st3 k true).2 = .ok ∧ (deleteObject st3 k true).1.keys = [] ∧ (deleteObject st3 k true).1.files = [] := by
  decide

/-- Objects not created through the API are refused and nothing changes. -/
theorem refuse_non_api (st : St) (k : Key) (cascade : Bool) (o : Obj)
    (ho : st.find k = some o) (hapi : o.api = false) :
    deleteObject st k cascade = (st, .fail) := by
  simp [deleteObject, ho, hapi]

/-- Without `cascade`: an object with live dependents is refused and nothing changes; otherwise at
    most the object itself goes (no other object is removed). -/
theorem cascade_only_when_asked (st : St) (k : Key) (o : Obj) (ho : st.find k = some o) :
    (children st o.key ≠ [] → deleteObject st k false = (st, .fail)) ∧
    ((deleteObject st k false).1 = st ∨ (deleteObject st k false).1 = removeObj st o) := by
  constructor
  · intro hch
    unfold deleteObject
    rw [ho]
    by_cases hapi : o.api = true
    · simp [hapi, deleteHelper, hch]
    · simp [hapi]
  · unfold deleteObject
    rw [ho]
    by_cases hapi : o.api = true
    · by_cases hch : children st o.key = []
      · right; simp [hapi, deleteHelper, deleteChildren, finishDelete, hch]
      · left; simp [hapi, deleteHelper, hch]
    · left; simp [hapi]

example : deleteObject ⟨[⟨⟨['H'], ['h']⟩, true, true, ['f']⟩, ⟨⟨['S'], ['s']⟩, true, true, ['g']⟩],
      [], [['f'], ['g']], [(⟨['S'], ['s']⟩, ⟨['H'], ['h']⟩)], []⟩ ⟨['H'], ['h']⟩ true =
    (⟨[], [], [], [], []⟩, .ok) := by decide

/-- A delete — cascading or not, successful, refused or aborted by an exception out of a deactivation (`thr`),
    whatever the dependency graph looks like (cycles included) — only ever REMOVES: the names, items and files
    afterwards are sub-lists of those before, and every object that is still there is the object it was, at most
    deactivated; nothing is added, re-ordered or replaced. -/
theorem delete_only_removes (st : St) (k : Key) (cascade : Bool) (thr : Option Key) :
    (deleteObject st k cascade thr).1.keys.Sublist st.keys ∧ (deleteObject st k cascade thr).1.items.Sublist st.items ∧
      (deleteObject st k cascade thr).1.files.Sublist st.files ∧
      ∀ x ∈ (deleteObject st k cascade thr).1.objs, ∃ y ∈ st.objs, x = y ∨ x = { y with active := false } :=
  ⟨(deleteObject_shrunk st k cascade thr).keys, (deleteObject_shrunk st k cascade thr).items,
   (deleteObject_shrunk st k cascade thr).files, (deleteObject_shrunk st k cascade thr).objs⟩

/-- A cascade that reports success is complete one level down — for every state, every graph (cycles included: an
    object visited again further down is skipped there, `busy`, and removed by the call that is under way for it)
    and whatever deactivation the environment answers with an exception: the object and EVERY live object that
    depends on it directly are gone.  (Before 0ce9ca7 this needed the exception "except a dependent whose
    deactivation fails": F-C17j.  Spec clause `cascade_complete` demands the transitive closure on the
    implementation's trace; for the model this level, `cascade_only_dependents` and `delete_only_removes` are proved.) -/
theorem cascade_success_complete (st : St) (k : Key) (o : Obj) (thr : Option Key) (ho : st.find k = some o)
    (hok : (deleteObject st k true thr).2 = .ok) :
    (deleteObject st k true thr).1.has k = false ∧
      ∀ c ∈ children st k, (deleteObject st k true thr).1.has c = false := by
  have hkey : o.key = k := find_key st k o ho
  unfold deleteObject at hok ⊢
  rw [ho] at hok ⊢
  by_cases hapi : o.api = true
  · simp only [hapi, Bool.not_true, Bool.false_eq_true, if_false] at hok ⊢
    simp only [deleteHelper, Bool.not_true, Bool.and_false, Bool.false_eq_true, if_false, List.contains_nil] at hok ⊢
    split
    · rename_i hr
      simp only [hr, if_true] at hok
      have hfin : (finishDelete (deleteChildren (fun s co => deleteHelper st.objs.length s co true [o.key] thr)
          (children st o.key) st).1 o thr).2 = true := by
        cases h : (finishDelete (deleteChildren (fun s co => deleteHelper st.objs.length s co true [o.key] thr)
          (children st o.key) st).1 o thr).2
        · simp [h] at hok
        · rfl
      refine ⟨?_, ?_⟩
      · rw [← hkey]; exact finishDelete_ok_removes _ o thr hfin
      · intro c hc
        by_cases hck : c = o.key
        · rw [hck]; exact finishDelete_ok_removes _ o thr hfin
        · apply (finishDelete_shrunk _ o thr).has_false
          apply deleteChildren_removed _ _ _ _ _ _ _ _ _ hr
          · rw [hkey]; exact hc
          · simpa using hck
    · rename_i hr; simp [hr] at hok
  · simp [hapi] at hok

/-- Without a fault a cascading delete of a runtime-created object always succeeds (and is then complete:
    `cascade_success_complete`). -/
theorem cascade_removes_children (st : St) (k : Key) (o : Obj) (ho : st.find k = some o) (hapi : o.api = true) :
    (deleteObject st k true).2 = .ok ∧ (deleteObject st k true).1.has k = false ∧
      ∀ c ∈ children st k, (deleteObject st k true).1.has c = false := by
  have hok : (deleteObject st k true).2 = .ok := by
    unfold deleteObject
    rw [ho]
    simp [hapi, deleteHelper_nofault_ok]
  exact ⟨hok, cascade_success_complete st k o none ho hok⟩

/-- A delete that reports FAILURE — refused, or aborted by an exception out of the deactivation of the object or,
    since 0ce9ca7, of any dependent visited by the cascade — has not removed the object: it is still registered.
    (With `delete_removes_object_and_file`: the result says what happened to the object, for every state, graph
    and fault.) -/
theorem failed_delete_keeps_target (st : St) (k : Key) (cascade : Bool) (thr : Option Key) (o : Obj)
    (ho : st.find k = some o) (hfail : (deleteObject st k cascade thr).2 = .fail) :
    (deleteObject st k cascade thr).1.has k = true := by
  have hkey : o.key = k := find_key st k o ho
  have hhas : st.has k = true := find_has st k o ho
  unfold deleteObject at hfail ⊢
  rw [ho] at hfail ⊢
  by_cases hapi : o.api = true
  · simp only [hapi, Bool.not_true, Bool.false_eq_true, if_false] at hfail ⊢
    simp only [deleteHelper, List.contains_nil, Bool.false_eq_true, if_false] at hfail ⊢
    split
    · exact hhas
    · have hch := deleteChildren_preserves (fun s => s.has k = true)
        (fun s co => deleteHelper st.objs.length s co cascade [o.key] thr)
        (fun s co h => deleteHelper_keeps_busy _ s co cascade [o.key] thr k (by simp [hkey]) h)
        (children st o.key) st hhas
      split
      · rename_i hc hr
        simp only [hc, hr, if_true] at hfail
        unfold finishDelete at hfail ⊢
        split
        · rw [has_true_iff, deactivateObj_keys, ← has_true_iff]; exact hch
        · rename_i ht; simp [ht] at hfail
      · exact hch
  · simpa [hapi] using hhas

/-- Regression for F-C17j (fixed by 0ce9ca7; corpus/C17/fixed_c17j_cascade_aborted_dependent.ops): the deactivation of a
    dependent fails in the middle of a cascade — the dependent stays (deactivated, with its item and file), and so
    does the object it refers to, with its item and file; failure is reported.  (Before the fix the object was
    removed and success reported.) -/
theorem cascade_aborted_dependent_regression :
    let h : Key := ⟨['H'], ['h']⟩
    let s : Key := ⟨['S'], ['s']⟩
    let st : St := ⟨[⟨h, true, true, ['f']⟩, ⟨s, true, true, ['g']⟩], [h, s], [['f'], ['g']], [(s, h)], []⟩
    deleteObject st h true (some s) =
      (⟨[⟨h, true, true, ['f']⟩, ⟨s, true, false, ['g']⟩], [h, s], [['f'], ['g']], [], []⟩, .fail) := by decide

/-- A deletion aborted by an exception out of the object's deactivation, then tried again (the history of seeded
    change C17-12): for EVERY state and every active runtime object without live dependents, the aborted call
    reports failure and leaves the object whole (registered, item and file untouched, only deactivated) — and the
    next delete of it, on whatever thread, succeeds and removes object, item and file: nothing of the aborted
    attempt (such as an entry in `l_DeletionInProgress`, which is released at EVERY exit) stands in its way. -/
theorem aborted_delete_then_retry (st : St) (k : Key) (c c' : Bool) (o : Obj) (ho : st.find k = some o)
    (hapi : o.api = true) (hact : o.active = true) (hch : children st k = []) :
    deleteObject st k c (some k) = (deactivateObj st o, .fail) ∧
      (deactivateObj st o).has k = true ∧ (deactivateObj st o).items = st.items ∧ (deactivateObj st o).files = st.files ∧
      (deleteObject (deactivateObj st o) k c').2 = .ok ∧
      k ∉ (deleteObject (deactivateObj st o) k c').1.keys ∧ k ∉ (deleteObject (deactivateObj st o) k c').1.items ∧
      o.file ∉ (deleteObject (deactivateObj st o) k c').1.files := by
  have hkey : o.key = k := find_key st k o ho
  have hfind := deactivateObj_find st k o ho
  have hch' := deactivateObj_children st o k hch
  have hok : (deleteObject (deactivateObj st o) k c').2 = .ok := by
    unfold deleteObject
    rw [hfind]
    simp [hapi, deleteHelper, deleteChildren, finishDelete, hkey, hch']
  have hrm := delete_removes_object_and_file (deactivateObj st o) k c' _ none hfind hok
  refine ⟨?_, ?_, rfl, rfl, hok, hrm.1, hrm.2.1, hrm.2.2.1⟩
  · unfold deleteObject
    rw [ho]
    simp [hapi, deleteHelper, deleteChildren, finishDelete, hkey, hch, hact]
  · have : k ∈ (deactivateObj st o).keys := by
      rw [deactivateObj_keys]
      have hm := List.mem_of_find?_eq_some ho
      simp only [St.keys, List.mem_map]
      exact ⟨o, hm, hkey⟩
    cases h : (deactivateObj st o).has k
    · exact absurd this ((has_false_iff _ k).mp h)
    · rfl

example : children ⟨[⟨⟨['U'], ['u']⟩, true, true, ['f']⟩], [⟨['U'], ['u']⟩], [['f']], [], []⟩ ⟨['U'], ['u']⟩ = [] ∧
    deleteObject ⟨[⟨⟨['U'], ['u']⟩, true, true, ['f']⟩], [⟨['U'], ['u']⟩], [['f']], [], []⟩ ⟨['U'], ['u']⟩ false (some ⟨['U'], ['u']⟩) =
      (⟨[⟨⟨['U'], ['u']⟩, true, false, ['f']⟩], [⟨['U'], ['u']⟩], [['f']], [], []⟩, .fail) := by decide

example : children ⟨[⟨⟨['H'], ['h']⟩, true, true, ['f']⟩, ⟨⟨['S'], ['s']⟩, true, true, ['g']⟩],
      [], [['f'], ['g']], [(⟨['S'], ['s']⟩, ⟨['H'], ['h']⟩)], []⟩ ⟨['H'], ['h']⟩ = [⟨['S'], ['s']⟩] := by decide

/-- Whatever a delete removes — cascading or not, aborted by an exception or not, whatever the dependency graph looks
    like (cycles included) — is the object itself or an object that depends on it, directly or through others, along
    the dependency edges of the state before (`DependsOn`: reflexive-transitive closure): nothing unrelated ever goes.
    (Spec clause `cascade_only_dependents`, here proved of the model for every state; with `delete_only_removes`:
    the effect of a delete is confined to removing dependents.) -/
theorem cascade_only_dependents (st : St) (k : Key) (cascade : Bool) (thr : Option Key) (x : Key)
    (hx : x ∈ st.keys) (hn : x ∉ (deleteObject st k cascade thr).1.keys) : DependsOn st.deps x k :=
  deleteObject_only_dependents st k cascade thr x hx hn

example : DependsOn [((⟨['S'], ['s']⟩ : Key), (⟨['H'], ['h']⟩ : Key))] ⟨['S'], ['s']⟩ ⟨['H'], ['h']⟩ :=
  .step (.refl _) (by decide)

/-- an unrelated object survives a cascade -/
example : (deleteObject ⟨[⟨⟨['H'], ['h']⟩, true, true, ['f']⟩, ⟨⟨['S'], ['s']⟩, true, true, ['g']⟩, ⟨⟨['U'], ['u']⟩, true, true, ['e']⟩],
      [], [['f'], ['g'], ['e']], [(⟨['S'], ['s']⟩, ⟨['H'], ['h']⟩)], []⟩ ⟨['H'], ['h']⟩ true).1.keys = [⟨['U'], ['u']⟩] := by decide

/-- What appears as a side effect of a create (the children apply rules generate for the new object) is
    never a runtime (`_api`) object: whatever the outcome, every object of the resulting state is the
    requested one, or was there before, or does not carry the `_api` package — so `DeleteObject` refuses it
    when addressed directly (`refuse_non_api`) and never removes a file for it (`removeObj`). -/
theorem generated_children_not_runtime (st : St) (k : Key) (path : Str) (parents : List Key) (fault : Fault) (api : Bool)
    (generated : List Key) :
    ∀ x ∈ (createObject st k path parents fault api generated).1.objs, x.key = k ∨ x ∈ st.objs ∨ x.api = false := by
  unfold createObject
  by_cases hk : st.has k = true
  · simp [hk]; grind
  · have hk' : st.has k = false := by simpa using hk
    by_cases hg : genOk st k generated = true
    · cases fault <;> simp [hk', hg, Fault.leftInHostMap] <;> grind
    · have hg' : genOk st k generated = false := by simpa using hg
      cases fault <;> simp [hk', hg'] <;> grind

example : ((createObject ⟨[], [], [], [], []⟩ ⟨['H'], ['h']⟩ ['f'] [] .none true [⟨['S'], ['h','!','a']⟩]).1.objs.map (·.api)) =
    [true, false] := by decide

/-- Never two objects of one type with the same name: invariant of every create/delete sequence,
    whatever faults occur. -/
theorem unique_names (st : St) (h : st.keys.Nodup) (ops : List Op) : (run st ops).keys.Nodup := by
  induction ops generalizing st with
  | nil => exact h
  | cons op ops ih => exact ih (step st op) (step_nodup st op h)

example : (St.keys ⟨[], [], [], [], []⟩).Nodup := by decide

/-! ## The specification predicate on the model's own steps -/

/-- THE SPECIFICATION ON THE MODEL'S OWN STEP, non-cascading deletes: in every state with unique names in which
    distinct runtime objects have distinct files (`confPath_injective`), `specDelete` — the predicate the check
    evaluates on the implementation's observations — accepts what the model does for `delete k` without cascade,
    whatever `k` is: absent, not created at runtime, refused because of live dependents, or deleted.  (`created`,
    `fileOf`, `deps`: the driver's book-keeping, here read off the state.) -/
theorem noncascading_delete_meets_spec (st : St) (k : Key) (hnd : st.keys.Nodup)
    (hfiles : ∀ a ∈ st.objs, ∀ b ∈ st.objs, a.api = true → b.api = true → a.file = b.file → a = b) :
    specDelete (observe st) k false (st.has k)
      (if st.has k then some (deleteObject st k false).2 else none)
      (createdOf st) (fileOfSt st) st.deps (observe (deleteObject st k false).1) = none := by
  have hshr := deleteObject_shrunk st k false none
  have hnd' : nodupKeys ((observe (deleteObject st k false).1).objs.map (·.key)) = true := by
    rw [observe_keys]; exact nodupKeys_of_nodup _ (hshr.keys.nodup hnd)
  have hreg := observe_allRegistered (deleteObject st k false).1
  cases ho : st.find k with
  | none =>
    have hhas := find_none_has st k ho
    have hst : (deleteObject st k false).1 = st := by simp [deleteObject, ho]
    simp only [hst] at hnd' hreg
    unfold specDelete
    simp [hnd', hreg, hhas, hst]
  | some o =>
    have hkey := find_key st k o ho
    have hhas := find_has st k o ho
    have hfind : (observe st).find k = some (observeObj o) := by rw [observe_find, ho]; rfl
    by_cases hapi : o.api = true
    · have hcr := createdOf_contains st k o ho hapi
      by_cases hch : children st k = []
      · have hst : deleteObject st k false = (removeObj st o, .ok) := by
          simp [deleteObject, ho, hapi, deleteHelper, deleteChildren, finishDelete, hkey, hch]
        simp only [hst] at hnd' hreg
        unfold specDelete
        simp only [hnd', hreg, hhas, hst, hfind, observeObj, hapi, hcr, kids_eq_children, hch]
        simp
        have hom : o ∈ st.objs := List.mem_of_find?_eq_some ho
        have fa : (observe (removeObj st o)).has k = false := by
          rw [observe_has, ← hkey]; exact removeObj_has_false st o
        have fb : k ∉ (observe (removeObj st o)).items := by simp [observe, removeObj, hkey]
        have fc : o.file ∉ (observe (removeObj st o)).files := by simp [observe, removeObj, hapi, rmFile]
        have hfk := fileOfKey_find st k o ho hapi
        have G : ∀ x ∈ (observe st).objs, (observe (removeObj st o)).has x.key = false → x.key = k := by
          intro x hx hgone
          simp only [observe, List.mem_map] at hx
          obtain ⟨a, ha, rfl⟩ := hx
          by_cases hne : a.key = o.key
          · simpa [observeObj, hkey] using hne
          · have := removeObj_has_other st o a ha hne
            rw [observe_has] at hgone
            simp only [observeObj] at hgone
            rw [this] at hgone
            cases hgone
        have hsub : subsetKeys (List.map (fun x => x.key)
            (List.filter (fun x => !(observe (removeObj st o)).has x.key) (observe st).objs)) [k] = true := by
          simp only [subsetKeys, List.all_eq_true, List.mem_map, List.mem_filter]
          rintro y ⟨x, ⟨hx, hg⟩, rfl⟩
          have := G x hx (by simpa using hg)
          simp [this]
        simp only [hfk]
        split
        · rename_i h
          exfalso
          simp [fa, fb, fc] at h
        split
        · rename_i h
          rw [hsub] at h
          cases h
        split
        · rename_i h
          exfalso
          rcases h with h | ⟨x, hx, hg, h⟩
          · rw [fa] at h; cases h
          · have hxk := G x hx hg
            rw [hxk, hfk] at h
            rcases h with h | h
            · exact fb h
            · exact fc (by simpa using h)
        split
        · rename_i h
          exfalso
          obtain ⟨x, hx, ⟨hstay, _⟩, h⟩ := h
          have hxk : x.key ≠ k := by
            intro e; rw [e, fa] at hstay; cases hstay
          rcases h with ⟨hi, hni⟩ | h
          · apply hni
            simp only [observe, removeObj, List.mem_filter] at hi ⊢
            exact ⟨hi, by simpa [hkey] using hxk⟩
          · cases hp : fileOfKey (fileOfSt st) x.key with
            | none => simp [hp] at h
            | some p =>
              simp only [hp, Bool.and_eq_true, decide_eq_true_eq, Bool.not_eq_true', decide_eq_false_iff_not] at h
              obtain ⟨b, hb, hbapi, hbk, hbf⟩ := fileOfKey_owner st x.key p hp
              by_cases hpo : p = o.file
              · have := hfiles b hb o hom hbapi hapi (by rw [hbf, hpo])
                apply hxk
                rw [← hbk, this, hkey]
              · apply h.2
                simp only [observe, removeObj, hapi, if_true, rmFile, List.mem_filter]
                exact ⟨h.1, by simpa using hpo⟩
        split
        · rename_i h
          exfalso
          rcases h with ⟨x, hx, hnx⟩ | h
          · apply hnx
            simp only [observe, removeObj, List.mem_map, List.mem_filter] at hx ⊢
            obtain ⟨a, ⟨ha, _⟩, rfl⟩ := hx
            exact ⟨a, ha, rfl⟩
          · exact h rfl
        · rfl
      · have hst : deleteObject st k false = (st, .fail) := by
          simp [deleteObject, ho, hapi, deleteHelper, hkey, hch]
        simp only [hst] at hnd' hreg
        unfold specDelete
        simp [hnd', hreg, hhas, hst, hfind, observeObj, hapi, kids_eq_children, hch]
    · have hst : deleteObject st k false = (st, .fail) := by
        simp [deleteObject, ho, hapi]
      simp only [hst] at hnd' hreg
      unfold specDelete
      simp [hnd', hreg, hhas, hst, hfind, observeObj, hapi]

/-- … and the aborted delete (the exception out of the object's deactivation, fault `thr = some k`): the model fails,
    leaves the object deactivated and otherwise whole, and `specDelete` with that fault accepts exactly this. -/
theorem aborted_delete_meets_spec (st : St) (k : Key) (o : Obj) (hnd : st.keys.Nodup)
    (ho : st.find k = some o) (hapi : o.api = true) (hact : o.active = true) (hch : children st k = []) :
    deleteObject st k false (some k) = (deactivateObj st o, .fail) ∧
    specDelete (observe st) k false true (some .fail)
      (createdOf st) (fileOfSt st) st.deps (observe (deactivateObj st o)) (some k) = none := by
  have hkey := find_key st k o ho
  have hst : deleteObject st k false (some k) = (deactivateObj st o, .fail) := by
    simp [deleteObject, ho, hapi, deleteHelper, deleteChildren, finishDelete, hkey, hch, hact]
  refine ⟨hst, ?_⟩
  have hnd' : nodupKeys ((observe (deactivateObj st o)).objs.map (·.key)) = true := by
    rw [observe_keys, deactivateObj_keys]; exact nodupKeys_of_nodup _ hnd
  have hreg := observe_allRegistered (deactivateObj st o)
  have hfind : (observe st).find k = some (observeObj o) := by rw [observe_find, ho]; rfl
  have hcr := createdOf_contains st k o ho hapi
  have hhas : ∀ x, (observe (deactivateObj st o)).has x = (observe st).has x := by
    intro x
    rw [observe_has, observe_has]
    cases h : st.has x
    · rw [has_false_iff] at h ⊢; rw [deactivateObj_keys]; exact h
    · rw [has_true_iff] at h ⊢; rw [deactivateObj_keys]; exact h
  unfold specDelete
  simp only [hnd', hreg, hfind, observeObj, hapi, hcr, kids_eq_children, hch, hhas]
  simp
  have hlive : ∀ x ∈ (observe st).objs, (observe st).has x.key = true := by
    intro x hx
    simp only [World.has, List.any_eq_true]
    exact ⟨x, hx, by simp⟩
  have hitems : (observe (deactivateObj st o)).items = (observe st).items := rfl
  have hfilesEq : (observe (deactivateObj st o)).files = (observe st).files := rfl
  split
  · rename_i h
    exfalso
    have : subsetKeys (List.map (fun x => x.key) (List.filter (fun x => !(observe st).has x.key) (observe st).objs)) [k] = true := by
      simp only [subsetKeys, List.all_eq_true, List.mem_map, List.mem_filter]
      rintro y ⟨x, ⟨hx, hg⟩, rfl⟩
      rw [hlive x hx] at hg
      cases hg
    rw [this] at h
    cases h
  split
  · rename_i h
    exfalso
    obtain ⟨x, hx, hg, _⟩ := h
    rw [hlive x hx] at hg
    cases hg
  split
  · rename_i h
    exfalso
    obtain ⟨x, hx, _, h⟩ := h
    rw [hitems, hfilesEq] at h
    rcases h with ⟨hi, hni⟩ | h
    · exact hni hi
    · cases hp : fileOfKey (fileOfSt st) x.key with
      | none => simp [hp] at h
      | some p => simp [hp] at h
  split
  · rename_i h
    exfalso
    rcases h with ⟨x, hx, hnx, hd⟩ | h
    · simp only [observe, deactivateObj, List.mem_map] at hx
      obtain ⟨a', ⟨a, ha, rfl⟩, rfl⟩ := hx
      by_cases hak : a.key = o.key
      · simp only [hak, if_true] at hnx hd
        exact hd (by simp [observeObj, hkey]) (observeObj a) (by simp only [observe, List.mem_map]; exact ⟨a, ha, rfl⟩)
          (by simp [deactivated, observeObj, hak])
      · simp only [hak, if_false] at hnx
        exact hnx (by simp only [observe, List.mem_map]; exact ⟨a, ha, rfl⟩)
    · exact h rfl
  · rfl

/-- Along every operation sequence (any creates with any faults, any deletes, aborted or not) from a state with
    unique names: what the model does for a non-cascading delete in the state reached meets the specification.
    `hfiles` (distinct runtime objects have distinct files in the state reached) is what `confPath_injective` gives
    when every create writes to `confPath`; it is not proved as an invariant of `run` (the path is an oracle input). -/
theorem noncascading_delete_meets_spec_along_run (st0 : St) (h0 : st0.keys.Nodup) (ops : List Op) (k : Key)
    (hfiles : ∀ a ∈ (run st0 ops).objs, ∀ b ∈ (run st0 ops).objs, a.api = true → b.api = true → a.file = b.file → a = b) :
    specDelete (observe (run st0 ops)) k false ((run st0 ops).has k)
      (if (run st0 ops).has k then some (deleteObject (run st0 ops) k false).2 else none)
      (createdOf (run st0 ops)) (fileOfSt (run st0 ops)) (run st0 ops).deps
      (observe (deleteObject (run st0 ops) k false).1) = none :=
  noncascading_delete_meets_spec (run st0 ops) k (unique_names st0 h0 ops) hfiles

/-- the specification is not vacuous: the trace of seeded change C17-12 (a retry that reports success and removes
    nothing) is rejected -/
example :
    let u : Key := ⟨['U'], ['u']⟩
    let st : St := ⟨[⟨u, true, false, ['f']⟩], [u], [['f']], [], []⟩
    specDelete (observe st) u false true (some .ok) (createdOf st) (fileOfSt st) st.deps (observe st) =
      some "delete_removes_object_and_file" := by decide

/-- the hypotheses are satisfiable on a non-trivial state, and the accepted step is the deletion -/
example :
    let u : Key := ⟨['U'], ['u']⟩
    let g : Key := ⟨['G'], ['g']⟩
    let st : St := ⟨[⟨u, true, true, ['f']⟩, ⟨g, true, true, ['h']⟩], [u, g], [['f'], ['h']], [(u, g)], []⟩
    st.keys.Nodup ∧ (deleteObject st u false).2 = .ok ∧ (deleteObject st g false).2 = .fail := by decide

end Icinga.C17

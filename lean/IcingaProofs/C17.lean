/-
  C17 — Runtime objects: all-or-nothing, faithful creation; values cannot inject config.
  Property theorems (helper lemmas: IcingaProofs/C17/*.lean).
-/
import IcingaProofs.C17.Lemmas
import IcingaProofs.C17.ObjLemmas
import IcingaProofs.C17.DeleteLemmas
import IcingaProofs.C17.PathLemmas
import IcingaProofs.C17.RoundTrip
import IcingaModel.C17.Spec

namespace Icinga.C17

/-! ## String literals -/

/-- Every NUL-free byte string survives `EmitString` → string-literal lexer unchanged, and the lexer
    stops exactly at the closing quote the writer put there: whatever follows (`rest`) is left
    untouched, so no byte of `s` can end the literal early or swallow what comes after it.
    (Full statement without `hs` is false: `string_nul_counterexample`, F-C17b.) -/
theorem string_emit_lex_roundtrip (s : Str) (hs : chNUL ∉ s) (rest : Str) :
    lexString (emitString s ++ rest) = some (s, rest) :=
  lexString_emitString s hs rest

example : lexString (emitString ['a', '"', '\\', '\n', '}', '}', '}', '*', '/', '#'] ++ ['\n', 'x']) =
    some (['a', '"', '\\', '\n', '}', '}', '}', '*', '/', '#'], ['\n', 'x']) := by decide

/-- F-C17b: a string containing U+0000 is truncated at the NUL up to the next escape sequence
    (`while (*yptr)` copy loop, config_lexer.ll:97-100): `"ab\0cd"` is read back as `"ab"`. -/
theorem string_nul_counterexample :
    lexString (emitString ['a', 'b', chNUL, 'c', 'd']) = some (['a', 'b'], []) := by decide


/-! ## Numbers -/

/-- The emitted literal denotes the number rounded to six fractional digits: kernel-evaluated WITNESS for one
    number with seven fractional digits (the statement for all numbers is part of `emit_parse_roundtrip`, whose
    right-hand side carries `round6Ms attrs`) … -/
theorem number_emit_denotes_round6 :
    emitNumber ⟨true, 12345671234567, 7⟩ = ['-','1','2','3','4','5','6','7','.','1','2','3','4','5','7'] ∧
    parseNumber ['1','2','3','4','5','6','7','.','1','2','3','4','5','7', '\n'] =
      some (⟨false, 1234567123457, 6⟩, ['\n']) := by decide

/-- … hence a number with at most six fractional decimal digits is written exactly
    (`faithful_attributes` for numbers holds under this hypothesis only). -/
theorem faithful_number_partial (d : Dec) (h : d.scale ≤ 6) :
    (round6 d).neg = d.neg ∧ (round6 d).mant * 10 ^ d.scale = d.mant * 10 ^ (round6 d).scale := by
  simp only [round6, micro, h, if_true]
  refine ⟨trivial, ?_⟩
  rw [Nat.mul_assoc, ← Nat.pow_add]
  congr 2
  omega

example : (round6 ⟨false, 5, 1⟩).mant = 500000 := by decide

/-- F-C17a: `1e-7` is written as `0.000000` and read back as 0. -/
theorem number_precision_counterexample :
    emitNumber ⟨false, 1, 7⟩ = ['0', '.', '0', '0', '0', '0', '0', '0'] ∧
    (round6 ⟨false, 1, 7⟩).mant = 0 := by decide

/-! ## Structure of the generated text -/

/-- What the round trip asks of the inputs: name, template names, keys and string values are free of
    U+0000 (F-C17b).  Nothing else: quotes, backslashes, line breaks, comment markers, `}}}`, `$`, dots,
    EVERY keyword of the lexer (incl. `in` and `debugger`, which the writer knows since 3c83e1d), any bytes,
    any nesting, any numbers; no condition on the type name. -/
structure InputOk (ty name : Str) (imports : List Str) (attrs : List (Str × Value)) : Prop where
  name : chNUL ∉ name
  imports : ∀ t ∈ imports, chNUL ∉ t
  attrs : ∀ kv ∈ attrs, chNUL ∉ kv.1 ∧ VSafe kv.2

/-- `emit_parse_roundtrip`: for EVERY type, name, template list and attribute dictionary (as above)
    the text `EmitConfigItem` generates is read back by the lexer/parser as exactly ONE statement
    `object <type> "<name>" [ignore_on_error]` whose body imports exactly the given templates and assigns
    exactly the supplied paths (dotted keys split) the supplied values, numbers rounded to six fractional
    digits — and nothing else (the parser rejects any text with a further statement or foreign token). -/
theorem emit_parse_roundtrip (ty name : Str) (ioe : Bool) (imports : List Str) (attrs : List (Str × Value))
    (text : Str) (h : InputOk ty name imports attrs)
    (he : emitConfigItem ty name ioe imports attrs = some text) :
    parseItem text = some { ty := ty, name := name, ioe := ioe, imports := imports,
                            assigns := pathsOf (round6Ms attrs) } :=
  parseItem_emit ty name ioe imports attrs text h.name h.imports
    (fun kv hkv => by
      obtain ⟨k, v⟩ := kv
      have := h.attrs (k, v) hkv
      exact AttrOk.of k v this.1 this.2) he

/-- `no_injection`: the STRUCTURE of the generated configuration depends on the inputs only through
    the list of keys: same type, same name, same templates, one assignment per supplied key with
    exactly that key's path, in order — whatever the name, the keys and the values contain. -/
theorem no_injection (ty name : Str) (ioe : Bool) (imports : List Str) (attrs : List (Str × Value))
    (text : Str) (h : InputOk ty name imports attrs)
    (he : emitConfigItem ty name ioe imports attrs = some text) :
    ∃ it, parseItem text = some it ∧ it.ty = ty ∧ it.name = name ∧ it.ioe = ioe ∧ it.imports = imports ∧
      it.assigns.map (·.1) = attrs.map (fun kv => splitDots kv.1) := by
  refine ⟨_, emit_parse_roundtrip ty name ioe imports attrs text h he, rfl, rfl, rfl, rfl, ?_⟩
  clear h he
  induction attrs with
  | nil => rfl
  | cons kv r ih => obtain ⟨k, v⟩ := kv; simpa [pathsOf, round6Ms] using ih

/-- The same for `CreateObjectConfig` (attribute whitelist, name parts, `version`): if it returns a
    text, that text is the one object statement over `allAttrs`. -/
theorem create_config_roundtrip (ti : TypeInfo) (fullName : Str) (ioe : Bool) (templates : List Str)
    (attrs : List (Str × Value)) (parts : Option (List (Str × Value))) (now : Dec) (text : Str)
    (h : InputOk ti.name (shortName fullName parts)
          templates (allAttrs attrs parts now))
    (he : createObjectConfig ti fullName ioe templates attrs parts now = some text) :
    parseItem text = some { ty := ti.name,
                            name := shortName fullName parts,
                            ioe := ioe, imports := templates,
                            assigns := pathsOf (round6Ms (allAttrs attrs parts now)) } := by
  unfold createObjectConfig at he
  split at he
  · exact emit_parse_roundtrip _ _ ioe templates _ text h he
  · cases he

/-- `faithful_attributes_partial`: the values the text assigns denote exactly the supplied ones when
    every number has at most six fractional decimal digits (full statement false: F-C17a,
    `number_precision_counterexample`). -/
theorem faithful_attributes_partial (attrs : List (Str × Value)) (h : MsExact attrs) :
    MsEq (round6Ms attrs) attrs :=
  round6Ms_faithful attrs h

example : InputOk ['H','o','s','t'] ['h','"','\n','}'] [['t','"']]
    [(['v','a','r','s','.','x'], .dict [(['a','\n','b'], .str ['*','/'])])] :=
  ⟨by decide, by decide, by
    intro kv hkv
    simp at hkv; subst hkv
    refine ⟨by decide, ?_⟩
    simp [VSafe, MsSafe, KeyOk]
    decide⟩

set_option maxRecDepth 100000 in
/-- A concrete hostile-but-harmless input, evaluated by the kernel (regression witness; the general
    statement is `emit_parse_roundtrip`). -/
theorem emit_parse_roundtrip_witness :
    ((emitConfigItem ['H','o','s','t'] ['h','"','\n','}','1'] true [['t','p','l']]
        [(['v','a','r','s'], .dict [(['a',' ','b'], .num ⟨false, 15, 1⟩), (['i','f'], .arr [.empty, .bool true, .dict []]),
            (['k'], .str ['*','/','"','\\','\n','}','}','}','#','/','/'])]),
         (['v','a','r','s','.','x','.','y'], .num ⟨true, 5, 0⟩)]).bind parseItem).map
      (fun it => itemBeq it
        { ty := ['H','o','s','t'], name := ['h','"','\n','}','1'], ioe := true, imports := [['t','p','l']],
          assigns := [((['v','a','r','s'], []), .dict [(['a',' ','b'], .num ⟨false, 1500000, 6⟩),
              (['i','f'], .arr [.empty, .bool true, .dict []]),
              (['k'], .str ['*','/','"','\\','\n','}','}','}','#','/','/'])]),
            ((['v','a','r','s'], [['x'], ['y']]), .num ⟨true, 5000000, 6⟩)] }) = some true := by decide

set_option maxRecDepth 100000 in
/-- Regression for F-C17c (fixed by 917b518): the multi-line key `"x = 1\nb"` is written as a quoted
    string and comes back as ONE key. -/
example :
    emitKey ['x',' ','=',' ','1','\n','b'] = ['"','x',' ','=',' ','1','\\','n','b','"'] ∧
    ((emitConfigItem ['H'] ['h'] false []
        [(['v','a','r','s'], .dict [(['x',' ','=',' ','1','\n','b'], .bool true)])]).bind parseItem).map
      (fun it => assignsBeq it.assigns
        [((['v','a','r','s'], []), .dict [(['x',' ','=',' ','1','\n','b'], .bool true)])]) = some true := by decide

set_option maxRecDepth 100000 in
/-- Regression for F-C17d (fixed by d511a4f): a template name with a quote and line breaks is escaped
    and comes back as that one template name. -/
example :
    ((emitConfigItem ['H'] ['h'] false [['t','"','\n','g','.','x',' ','=',' ','1','\n','/','/']] []).bind parseItem).map
      (fun it => it.imports == [['t','"','\n','g','.','x',' ','=',' ','1','\n','/','/']] && it.assigns.isEmpty)
      = some true := by decide

set_option maxRecDepth 100000 in
/-- Regression for 3c83e1d (`in` and `debugger` added to `ConfigWriter::GetKeywords`): a nested key `in` or
    `debugger` is written `@in` / `@debugger` and comes back as that key (before, it was written bare, the
    lexer read a keyword and the text was rejected).  The general statement is `emit_parse_roundtrip`, which no
    longer excludes these keys. -/
theorem lexer_keyword_key_roundtrip :
    emitKey ['i','n'] = ['@','i','n'] ∧ emitKey ['d','e','b','u','g','g','e','r'] = ['@','d','e','b','u','g','g','e','r'] ∧
    ((emitConfigItem ['H'] ['h'] false []
        [(['v','a','r','s'], .dict [(['i','n'], .bool true), (['d','e','b','u','g','g','e','r'], .empty)])]).bind parseItem).map
      (fun it => assignsBeq it.assigns
        [((['v','a','r','s'], []), .dict [(['i','n'], .bool true), (['d','e','b','u','g','g','e','r'], .empty)])]) = some true := by
  decide

/-- Every keyword of the lexer (transcribed from config_lexer.ll) is in the writer's list (transcribed from
    `ConfigWriter::GetKeywords`), and vice versa: no key is written bare that the lexer reads as a keyword.
    (False before 3c83e1d: `in` and `debugger` were missing.) -/
theorem lexer_keywords_known_to_writer :
    (∀ k ∈ lexerKeywords, k ∈ writerKeywords) ∧ (∀ k ∈ writerKeywords, k ∈ lexerKeywords) := by
  constructor <;> decide

/-- keys are written bare only if the whole key is an identifier -/
theorem bare_key_is_identifier_witness :
    emitKey ['a','-','b'] = ['"','a','-','b','"'] ∧ emitKey ['i','f'] = ['@','i','f'] ∧
    emitKey ['a','_','1'] = ['a','_','1'] ∧ emitKey [] = ['"','"'] ∧
    emitKey ['a','\n','b'] = ['"','a','\\','n','b','"'] := by decide

/-! ## The file of a runtime object ("one .conf file per runtime-created object") -/

/-- `EscapeName` can be undone (by `Utility::UnescapeString`), for EVERY name: no two names are written
    the same way, whatever `%`, `/`, `..`, quotes or bytes they contain. -/
theorem escapeName_injective (a b : Str) (h : escapeName a = escapeName b) : a = b := by
  have := congrArg unescapeName h
  rwa [unescape_escapeName, unescape_escapeName] at this

/-- Two objects of one type get the same file only if they have the same name: a create can never overwrite
    (or, failing, remove) the file of ANOTHER object. -/
theorem confPath_injective (plural a b : Str) (h : confPath plural a = confPath plural b) : a = b := by
  unfold confPath at h
  exact escapeName_injective a b (List.append_cancel_right (List.append_cancel_left h))

/-- The file lies directly in the type's directory below `conf.d`: after the directory prefix no `/` follows,
    whatever the name contains (`../up`, `/abs`, `a/../b` cannot leave the directory). -/
theorem confPath_in_type_dir (plural name : Str) :
    ∃ base, confPath plural name = confDirPrefix plural ++ base ∧ '/' ∉ base := by
  refine ⟨escapeName name ++ confSuffix, rfl, ?_⟩
  simp only [List.mem_append, not_or]
  exact ⟨escapeName_no_slash name, by decide⟩

example : confPath ['h','o','s','t','s'] ['.','.','/','u','p'] =
    ['c','o','n','f','.','d','/','h','o','s','t','s','/','.','.','%','2','F','u','p','.','c','o','n','f'] := by decide
example : confPath ['h'] ['a','/','b'] ≠ confPath ['h'] ['a','%','2','F','b'] := by decide
example : pathExpected ['h'] ['a','/','b'] (confPath ['h'] ['a','%','2','F','b']) = false := by decide
example : pathExpected ['h'] ['a','/','b'] (confPath ['h'] ['a','/','b']) = true := by decide

/-! ## Create / delete state machine -/

/-- All-or-nothing for every fault — including a committed object whose name differs from the requested
    one (F-C17e, fixed by 86ebd6a: fault `nameMismatch`) — except an exception out of `ActivateItems` (see
    `activate_exception_counterexample`; that hypothesis is why the theorem keeps its `_partial` name): either the call reports success without a fault and the state
    gained exactly the active `_api` object, its item and its file; or the state is exactly as before
    (no object, item or file left behind) and `true` is returned only for `ignore_on_error`.
    Full statement (no `hf`) fails in the model AND in the real code (known finding F-C17i, witness
    corpus/C17/f_c17i_start_throws.ops: a FileLogger whose log file cannot be opened): the catch block at
    configobjectutility.cpp:287-295 removes the file but does not unregister the committed object.
    `hfresh` is what `confPath_injective` gives for an object that does not exist yet (the invariant that
    every file belongs to a live object is not proved along `run`).  `generated` = children generated by
    apply rules (committed and rolled back together with the object). -/
theorem create_all_or_nothing_partial (st : St) (k : Key) (path : Str) (parents : List Key) (fault : Fault) (api : Bool)
    (generated : List Key)
    (hfresh : path ∉ st.files) (hitem : k ∉ st.items) (hf : fault ≠ .activateThrows) :
    ((createObject st k path parents fault api generated).2 = .ok ∧ fault = .none ∧ st.has k = false ∧
        (createObject st k path parents fault api generated).1.objs =
          { key := k, api := api, active := true, file := path } ::
            (generated.map (fun g => { key := g, api := false, active := true, file := [] }) ++ st.objs) ∧
        (createObject st k path parents fault api generated).1.items = k :: (generated ++ st.items) ∧
        (createObject st k path parents fault api generated).1.files = path :: st.files)
    ∨ ((createObject st k path parents fault api generated).1 = st ∧
        ((createObject st k path parents fault api generated).2 = .ok → fault = .ignored)) := by
  unfold createObject
  by_cases hk : st.has k = true
  · simp [hk]
  · have hk' : st.has k = false := by simpa using hk
    have h1 := rmFile_fresh path st.files hfresh
    have h2 : List.filter (fun x => !decide (x = k)) st.items = st.items := by
      simpa only [ne_eq, decide_not] using filter_ne_fresh k st.items hitem
    have h3 : rmFile path (path :: st.files) = st.files := by
      simp [rmFile]; simpa [rmFile] using h1
    by_cases hg : genOk st k generated = true
    · cases fault <;> simp [hk', hg, h1, h2, h3] at hf ⊢
    · have hg' : genOk st k generated = false := by simpa using hg
      cases fault <;> simp [hk', hg', h1, h2, h3] at hf ⊢

/-- All-or-nothing covers the children apply rules generate: a create that fails for ANY reason (here:
    a generated sibling is invalid, `commitFails`) leaves neither the object nor any generated child. -/
example : createObject ⟨[], [], [], [], []⟩ ⟨['H'], ['h']⟩ ['f'] [] .commitFails true [⟨['S'], ['h','!','a']⟩] =
    (⟨[], [], [], [], []⟩, .fail) := by decide

example : (createObject ⟨[], [], [], [], []⟩ ⟨['H'], ['h']⟩ ['f'] [] .none true [⟨['S'], ['h','!','a']⟩]).1.keys =
    [⟨['H'], ['h']⟩, ⟨['S'], ['h','!','a']⟩] := by decide

/-- Regression for F-C17e (fixed by 86ebd6a): a name mismatch after commit fails and leaves nothing. -/
example : createObject ⟨[], [], [], [], []⟩ ⟨['N'], ['s','h','!','!','b']⟩ ['f'] [] .nameMismatch = (⟨[], [], [], [], []⟩, .fail) := by
  decide

example : (createObject ⟨[], [], [], [], []⟩ ⟨['H'], ['h']⟩ ['f'] [] .none).2 = .ok ∧
    (createObject ⟨[], [], [], [], []⟩ ⟨['H'], ['h']⟩ ['f'] [] .commitFails) = (⟨[], [], [], [], []⟩, .fail) := by decide

/-- The excluded case (F-C17i, reproduced on the real code: `PUT /v1/objects/fileloggers/x` with a `path` that
    cannot be opened makes `FileLogger::Start` throw): an exception from `ActivateItems` leaves the registered
    object, marked active, and its item behind while the file is removed and `false` is returned. -/
theorem activate_exception_counterexample :
    createObject ⟨[], [], [], [], []⟩ ⟨['H'], ['h']⟩ ['f'] [] .activateThrows =
      (⟨[⟨⟨['H'], ['h']⟩, true, true, ['f']⟩], [⟨['H'], ['h']⟩], [], [], []⟩, .fail) := by decide

/-- A successful delete removes the object, its item and (for an `_api` object) its file, and the
    object is no longer resolved through its host (F-C17f, fixed by edf9289: nothing can be created for
    a deleted service any more). -/
theorem delete_removes_object_and_file (st : St) (k : Key) (cascade : Bool) (o : Obj)
    (ho : st.find k = some o) (hok : (deleteObject st k cascade).2 = .ok) :
    k ∉ (deleteObject st k cascade).1.keys ∧ k ∉ (deleteObject st k cascade).1.items ∧
      o.file ∉ (deleteObject st k cascade).1.files ∧
      (deleteObject st k cascade).1.resolvesService k = false := by
  have hkey : o.key = k := by
    have := List.find?_some ho
    simpa using this
  unfold deleteObject at hok ⊢
  rw [ho] at hok ⊢
  by_cases hapi : o.api = true
  · simp only [hapi, Bool.not_true, Bool.false_eq_true, if_false] at hok ⊢
    simp only [deleteHelper, List.contains_nil, Bool.false_eq_true, if_false] at hok ⊢
    split
    · rename_i hc; simp [hc] at hok
    · simp [removeObj, St.keys, St.resolvesService, rmFile, hapi, hkey]
  · simp [hapi] at hok

/-- Regression for F-C17f (fixed by edf9289): a created and then deleted Service is not resolvable through
    its host any more.  (General statement: last conjunct of `delete_removes_object_and_file`.) -/
theorem deleted_service_unresolvable_regression :
    let k : Key := ⟨tyService, ['h', '!', 's']⟩
    let st1 := (createObject ⟨[], [], [], [], []⟩ k ['f'] [] .none).1
    st1.resolvesService k = true ∧ (deleteObject st1 k false).2 = .ok ∧
      (deleteObject st1 k false).1.resolvesService k = false := by decide

/-- Regression for F-C17g (fixed by 6a109cb): an object that depends on itself (a TimePeriod whose
    `includes` names itself can be created) is deleted by a cascading delete — each object is visited
    once — and a non-cascading delete is refused like any delete of an object with dependents. -/
theorem cyclic_cascade_delete_regression :
    let k : Key := ⟨['T'], ['t', 'p']⟩
    let j : Key := ⟨['T'], ['t', 'q']⟩
    let st1 := (createObject ⟨[], [], [], [], []⟩ k ['f'] [k] .none).1
    -- a two-cycle k ↔ j
    let st2 := (createObject (createObject ⟨[], [], [], [], []⟩ k ['f'] [] .none).1 j ['g'] [k] .none).1
    let st3 : St := { st2 with deps := (k, j) :: st2.deps }
    (deleteObject st1 k true).2 = .ok ∧ (deleteObject st1 k true).1.keys = [] ∧ (deleteObject st1 k true).1.files = [] ∧
      deleteObject st1 k false = (st1, .fail) ∧
      (deleteObject st3 k true).2 = .ok ∧ (deleteObject st3 k true).1.keys = [] ∧ (deleteObject st3 k true).1.files = [] := by
  decide

/-- Objects not created through the API are refused and nothing changes. -/
theorem refuse_non_api (st : St) (k : Key) (cascade : Bool) (o : Obj)
    (ho : st.find k = some o) (hapi : o.api = false) :
    deleteObject st k cascade = (st, .fail) := by
  simp [deleteObject, ho, hapi]

/-- Without `cascade`: an object with live dependents is refused and nothing changes; otherwise at
    most the object itself goes (no other object is removed). -/
theorem cascade_only_when_asked (st : St) (k : Key) (o : Obj) (ho : st.find k = some o) :
    (children st o.key ≠ [] → deleteObject st k false = (st, .fail)) ∧
    ((deleteObject st k false).1 = st ∨ (deleteObject st k false).1 = removeObj st o) := by
  have hpos : st.objs.length ≠ 0 := by
    intro h
    have : st.objs = [] := List.length_eq_zero_iff.mp h
    simp [St.find, this] at ho
  obtain ⟨f, hf⟩ : ∃ f, st.objs.length = f + 1 := ⟨st.objs.length - 1, by omega⟩
  constructor
  · intro hch
    unfold deleteObject
    rw [ho, hf]
    by_cases hapi : o.api = true
    · simp [hapi, deleteHelper, hch]
    · simp [hapi]
  · unfold deleteObject
    rw [ho, hf]
    by_cases hapi : o.api = true
    · by_cases hch : children st o.key = []
      · right; simp [hapi, deleteHelper, hch]
      · left; simp [hapi, deleteHelper, hch]
    · left; simp [hapi]

example : deleteObject ⟨[⟨⟨['H'], ['h']⟩, true, true, ['f']⟩, ⟨⟨['S'], ['s']⟩, true, true, ['g']⟩],
      [], [['f'], ['g']], [(⟨['S'], ['s']⟩, ⟨['H'], ['h']⟩)], []⟩ ⟨['H'], ['h']⟩ true =
    (⟨[], [], [], [], []⟩, .ok) := by decide

/-- A delete — cascading or not, successful or refused, whatever the dependency graph looks like (cycles
    included) — only ever REMOVES: objects, items and files afterwards are sub-lists of those before; nothing
    is added, re-ordered or replaced. -/
theorem delete_only_removes (st : St) (k : Key) (cascade : Bool) :
    (deleteObject st k cascade).1.objs.Sublist st.objs ∧ (deleteObject st k cascade).1.items.Sublist st.items ∧
      (deleteObject st k cascade).1.files.Sublist st.files :=
  ⟨(deleteObject_shrunk st k cascade).objs, (deleteObject_shrunk st k cascade).items, (deleteObject_shrunk st k cascade).files⟩

/-- A cascading delete of a runtime-created object always succeeds and is complete one level down: the
    object and EVERY live object that depends on it directly are gone afterwards — also when the dependency
    graph has cycles (an object visited again further down is skipped there, `busy`, and removed by the
    call that is under way for it).  (Spec clause `cascade_complete` demands the transitive closure on the
    implementation's trace; for the model only this level and `delete_only_removes` are proved.) -/
theorem cascade_removes_children (st : St) (k : Key) (o : Obj) (ho : st.find k = some o) (hapi : o.api = true) :
    (deleteObject st k true).2 = .ok ∧ (deleteObject st k true).1.has k = false ∧
      ∀ c ∈ children st k, (deleteObject st k true).1.has c = false := by
  have hkey : o.key = k := find_key st k o ho
  unfold deleteObject
  rw [ho]
  simp only [hapi, Bool.not_true, Bool.false_eq_true, if_false]
  simp only [deleteHelper, Bool.not_true, Bool.and_false, Bool.false_eq_true, if_false, List.contains_nil, if_true]
  refine ⟨trivial, ?_, ?_⟩
  · rw [← hkey]; exact removeObj_has_false _ o
  · intro c hc
    by_cases hck : c = o.key
    · rw [hck]; exact removeObj_has_false _ o
    · apply (removeObj_shrunk _ o).has_false
      apply foldl_children_removed
      · rw [hkey]; exact hc
      · simpa using hck

example : children ⟨[⟨⟨['H'], ['h']⟩, true, true, ['f']⟩, ⟨⟨['S'], ['s']⟩, true, true, ['g']⟩],
      [], [['f'], ['g']], [(⟨['S'], ['s']⟩, ⟨['H'], ['h']⟩)], []⟩ ⟨['H'], ['h']⟩ = [⟨['S'], ['s']⟩] := by decide

/-- What appears as a side effect of a create (the children apply rules generate for the new object) is
    never a runtime (`_api`) object: whatever the outcome, every object of the resulting state is the
    requested one, or was there before, or does not carry the `_api` package — so `DeleteObject` refuses it
    when addressed directly (`refuse_non_api`) and never removes a file for it (`removeObj`). -/
theorem generated_children_not_runtime (st : St) (k : Key) (path : Str) (parents : List Key) (fault : Fault) (api : Bool)
    (generated : List Key) :
    ∀ x ∈ (createObject st k path parents fault api generated).1.objs, x.key = k ∨ x ∈ st.objs ∨ x.api = false := by
  unfold createObject
  by_cases hk : st.has k = true
  · simp [hk]; grind
  · have hk' : st.has k = false := by simpa using hk
    by_cases hg : genOk st k generated = true
    · cases fault <;> simp [hk', hg] <;> grind
    · have hg' : genOk st k generated = false := by simpa using hg
      cases fault <;> simp [hk', hg'] <;> grind

example : ((createObject ⟨[], [], [], [], []⟩ ⟨['H'], ['h']⟩ ['f'] [] .none true [⟨['S'], ['h','!','a']⟩]).1.objs.map (·.api)) =
    [true, false] := by decide

/-- Never two objects of one type with the same name: invariant of every create/delete sequence,
    whatever faults occur. -/
theorem unique_names (st : St) (h : st.keys.Nodup) (ops : List Op) : (run st ops).keys.Nodup := by
  induction ops generalizing st with
  | nil => exact h
  | cons op ops ih => exact ih (step st op) (step_nodup st op h)

example : (St.keys ⟨[], [], [], [], []⟩).Nodup := by decide

end Icinga.C17

/-
  C10 — helper lemmas: the byte order is a strict total order, insertion sort is a permutation-invariant
  normal form, what `authority` computes for the layouts of the property, and the step invariant of the
  two-member system.
-/
import IcingaModel.C10.Model
import IcingaModel.C10.Spec

namespace Icinga.C10

/-! ### `std::string::operator<` on bytes is a strict total order -/

theorem nameLt_irrefl : ∀ a : Name, nameLt a a = false
  | [] => rfl
  | x :: xs => by simp [nameLt, nameLt_irrefl xs]

theorem nameLt_total : ∀ a b : Name, nameLt a b = false → nameLt b a = false → a = b
  | [], [], _, _ => rfl
  | [], _ :: _, h, _ => by simp [nameLt] at h
  | _ :: _, [], _, h => by simp [nameLt] at h
  | x :: xs, y :: ys, h1, h2 => by
    simp only [nameLt, Bool.or_eq_false_iff, Bool.and_eq_false_iff, decide_eq_false_iff_not] at h1 h2
    have hxy : x.toNat = y.toNat := by omega
    have hx : x = y := UInt8.toNat_inj.mp hxy
    subst hx
    have := nameLt_total xs ys (by simpa using h1.2) (by simpa using h2.2)
    rw [this]

theorem nameLt_trans : ∀ a b c : Name, nameLt a b = true → nameLt b c = true → nameLt a c = true
  | [], [], _, h, _ => by simp [nameLt] at h
  | [], _ :: _, [], _, h => by simp [nameLt] at h
  | [], _ :: _, _ :: _, _, _ => by simp [nameLt]
  | _ :: _, [], _, h, _ => by simp [nameLt] at h
  | _ :: _, _ :: _, [], _, h => by simp [nameLt] at h
  | x :: xs, y :: ys, z :: zs, h1, h2 => by
    simp only [nameLt, Bool.or_eq_true, Bool.and_eq_true, decide_eq_true_eq] at h1 h2 ⊢
    rcases h1 with h1 | ⟨e1, h1⟩ <;> rcases h2 with h2 | ⟨e2, h2⟩
    · left; omega
    · left; omega
    · left; omega
    · right; exact ⟨by omega, nameLt_trans xs ys zs h1 h2⟩

theorem nameLt_asymm (a b : Name) (h : nameLt a b = true) : nameLt b a = false := by
  cases h2 : nameLt b a with
  | false => rfl
  | true =>
    have := nameLt_trans a b a h h2
    simp [nameLt_irrefl] at this

/-- `a ≤ b` in the sort order. -/
def nameLe (a b : Name) : Prop := nameLt b a = false

theorem nameLe_trans {a b c : Name} (h1 : nameLe a b) (h2 : nameLe b c) : nameLe a c := by
  unfold nameLe at *
  cases h : nameLt c a with
  | false => rfl
  | true =>
    cases hab : nameLt a b with
    | true =>
      have := nameLt_trans c a b h hab
      simp [h2] at this
    | false =>
      have := nameLt_total a b hab h1
      subst this
      simp [h] at h2

/-! ### insertion sort: permutation, sortedness, normal form -/

theorem insertName_perm (x : Name) : ∀ ys : List Name, (insertName x ys).Perm (x :: ys)
  | [] => List.Perm.refl _
  | y :: ys => by
    simp only [insertName]
    split
    · exact ((List.perm_cons y).2 (insertName_perm x ys)).trans (List.Perm.swap x y ys)
    · exact List.Perm.refl _

theorem sortNames_perm : ∀ l : List Name, (sortNames l).Perm l
  | [] => List.Perm.refl _
  | x :: xs => (insertName_perm x (sortNames xs)).trans ((List.perm_cons x).2 (sortNames_perm xs))

theorem insertName_sorted (x : Name) : ∀ ys : List Name, ys.Pairwise nameLe → (insertName x ys).Pairwise nameLe
  | [], _ => by simp [insertName]
  | y :: ys, h => by
    have hy := List.pairwise_cons.1 h
    simp only [insertName]
    split
    · rename_i hlt
      refine List.pairwise_cons.2 ⟨?_, insertName_sorted x ys hy.2⟩
      intro z hz
      have hz' := (insertName_perm x ys).mem_iff.1 hz
      rcases List.mem_cons.1 hz' with rfl | hz''
      · exact nameLt_asymm _ _ hlt
      · exact hy.1 z hz''
    · rename_i hnlt
      have hxy : nameLe x y := by simpa [nameLe] using hnlt
      refine List.pairwise_cons.2 ⟨?_, h⟩
      intro z hz
      rcases List.mem_cons.1 hz with rfl | hz'
      · exact hxy
      · exact nameLe_trans hxy (hy.1 z hz')

theorem sortNames_sorted : ∀ l : List Name, (sortNames l).Pairwise nameLe
  | [] => List.Pairwise.nil
  | x :: xs => insertName_sorted x _ (sortNames_sorted xs)

/-- Two nodes that hold the same *set* of candidate endpoints — in whatever order their `std::set<Endpoint::Ptr>`
    iterates — sort it to the same vector. -/
theorem sortNames_congr {l₁ l₂ : List Name} (h : l₁.Perm l₂) : sortNames l₁ = sortNames l₂ := by
  refine List.Perm.eq_of_pairwise (le := nameLe) ?_ (sortNames_sorted l₁) (sortNames_sorted l₂)
    ((sortNames_perm l₁).trans (h.trans (sortNames_perm l₂).symm))
  intro a b _ _ hab hba
  exact nameLt_total a b hba hab

/-! ### the owner -/

theorem ownerOf_mem {L : List Name} {name o : Name} (h : ownerOf L name = some o) : o ∈ L := by
  unfold ownerOf at h
  obtain ⟨hlt, rfl⟩ := List.getElem?_eq_some_iff.1 h
  exact List.getElem_mem hlt

theorem ownerOf_some {L : List Name} (hne : L ≠ []) (name : Name) : ∃ o, ownerOf L name = some o := by
  unfold ownerOf
  have hpos : 0 < L.length := List.length_pos_iff.2 hne
  exact ⟨_, List.getElem?_eq_getElem (Nat.mod_lt _ hpos)⟩

theorem ownerOf_singleton (self name : Name) : ownerOf [self] name = some self := by
  simp [ownerOf, Nat.mod_one]

/-! ### candidates -/

theorem candidates_all {ms : List Name} {self : Name} {conn : Name → Bool}
    (h : ∀ e ∈ ms, e = self ∨ conn e = true) : candidates ms self conn = ms := by
  unfold candidates
  apply List.filter_eq_self.2
  intro e he
  rcases h e he with rfl | hc
  · simp
  · simp [hc]

theorem candidates_alone : ∀ (ms : List Name) (self : Name) (conn : Name → Bool),
    ms.Nodup → self ∈ ms → (∀ e ∈ ms, e ≠ self → conn e = false) → candidates ms self conn = [self]
  | [], _, _, _, hmem, _ => by simp at hmem
  | x :: xs, self, conn, hnd, hmem, hc => by
    have hnd' := List.nodup_cons.1 hnd
    by_cases hx : x = self
    · subst hx
      have hrest : candidates xs x conn = [] := by
        unfold candidates
        apply List.filter_eq_nil_iff.2
        intro e he
        have hne : e ≠ x := fun h => hnd'.1 (h ▸ he)
        simp [hne, hc e (List.mem_cons_of_mem _ he) hne]
      simp only [candidates] at hrest ⊢
      simp [hrest]
    · have hmem' : self ∈ xs := by
        rcases List.mem_cons.1 hmem with h | h
        · exact absurd h.symm hx
        · exact h
      have ih := candidates_alone xs self conn hnd'.2 hmem' (fun e he => hc e (List.mem_cons_of_mem _ he))
      simp only [candidates] at ih ⊢
      simp [hx, hc x (List.mem_cons_self) hx, ih]

/-! ### what `authority` computes in the layouts of the property -/

/-- Which member the sorted two-member vector assigns the name to. -/
def own (nA nB name : Name) : Side → Bool
  | .A => ownerOf (sortNames [nA, nB]) name == some nA
  | .B => ownerOf (sortNames [nA, nB]) name == some nB

theorem pair_owner (nA nB name : Name) :
    ∃ o, ownerOf (sortNames [nA, nB]) name = some o ∧ (o = nA ∨ o = nB) := by
  have hne : sortNames [nA, nB] ≠ [] := by
    intro h
    have := (sortNames_perm [nA, nB]).length_eq
    simp [h] at this
  obtain ⟨o, ho⟩ := ownerOf_some hne name
  have hm := (sortNames_perm [nA, nB]).mem_iff.1 (ownerOf_mem ho)
  refine ⟨o, ho, ?_⟩
  simpa using hm

theorem own_xor (nA nB name : Name) (hne : nA ≠ nB) : own nA nB name .A = !own nA nB name .B := by
  obtain ⟨o, ho, h⟩ := pair_owner nA nB name
  unfold own
  rw [ho]
  rcases h with rfl | rfl
  · have : ¬ (o = nB) := hne
    simp [this]
  · have : ¬ (o = nA) := fun h => hne h.symm
    simp [this]

/-- The verdict as a function of what the property talks about. -/
def absVerdict (l : Layout) (sees : Bool) (start now : Int) (ow : Bool) : Verdict :=
  match l with
  | .pair => if sees then .set ow else if inGrace start now then .keep else .set true
  | _ => .set true

theorem authority_single (self : Name) (conn : Name → Bool) (start now : Int) (name : Name) :
    authority (some [self]) self conn start now name = .set true := by
  have hc : candidates [self] self conn = [self] := by simp [candidates]
  simp [authority, hc, coldStart, sortNames, insertName, ownerOf_singleton]

theorem authority_two_sees (nA nB self other : Name) (hs : (self = nA ∧ other = nB) ∨ (self = nB ∧ other = nA))
    (conn : Name → Bool) (hconn : conn other = true) (start now : Int) (name : Name) :
    authority (some [nA, nB]) self conn start now name
      = .set (ownerOf (sortNames [nA, nB]) name == some self) := by
  have hc : candidates [nA, nB] self conn = [nA, nB] := by
    apply candidates_all
    intro e he
    simp only [List.mem_cons, List.not_mem_nil, or_false] at he
    rcases hs with ⟨rfl, rfl⟩ | ⟨rfl, rfl⟩ <;> rcases he with rfl | rfl <;> simp [hconn]
  obtain ⟨o, ho, _⟩ := pair_owner nA nB name
  simp only [authority, hc, ho]
  simp [coldStart]

theorem authority_two_alone (nA nB self other : Name) (hne : nA ≠ nB)
    (hs : (self = nA ∧ other = nB) ∨ (self = nB ∧ other = nA))
    (conn : Name → Bool) (hconn : ∀ e, conn e = false) (start now : Int) (name : Name) :
    authority (some [nA, nB]) self conn start now name
      = if inGrace start now then .keep else .set true := by
  have hc : candidates [nA, nB] self conn = [self] := by
    apply candidates_alone
    · simp [hne]
    · rcases hs with ⟨rfl, _⟩ | ⟨rfl, _⟩ <;> simp
    · intro e _ _; exact hconn e
  have hcs : coldStart 2 1 start now = inGrace start now := by simp [coldStart, inGrace]
  simp only [authority, hc, List.length_cons, List.length_nil, Nat.zero_add, Nat.reduceAdd, hcs]
  cases inGrace start now <;> simp [sortNames, insertName, ownerOf_singleton]

theorem authority_abs (l : Layout) (nA nB : Name) (hne : nA ≠ nB) (s : Side) (sees : Bool) (start now : Int) (name : Name) :
    authority (zoneOf l nA nB s) (selfOf nA nB s) (fun e => sees && e == otherOf nA nB s) start now name
      = absVerdict l sees start now (own nA nB name s) := by
  cases l with
  | noZone => rfl
  | single => cases s <;> simp [zoneOf, selfOf, absVerdict, authority_single]
  | pair =>
    have hs : (selfOf nA nB s = nA ∧ otherOf nA nB s = nB) ∨ (selfOf nA nB s = nB ∧ otherOf nA nB s = nA) := by
      cases s <;> simp [selfOf, otherOf]
    cases sees with
    | true =>
      rw [show zoneOf .pair nA nB s = some [nA, nB] from rfl,
        authority_two_sees nA nB _ _ hs _ (by simp)]
      cases s <;> simp [absVerdict, own, selfOf]
    | false =>
      rw [show zoneOf .pair nA nB s = some [nA, nB] from rfl,
        authority_two_alone nA nB _ _ hne hs _ (by simp)]
      simp [absVerdict]

/-! ### the set of clients -/

theorem mem_setInsert {α : Type} [BEq α] [LawfulBEq α] (l : List α) (x y : α) : y ∈ setInsert l x ↔ y = x ∨ y ∈ l := by
  unfold setInsert
  split
  · rename_i h
    have hx : x ∈ l := List.contains_iff_mem.1 h
    constructor
    · exact Or.inr
    · rintro (rfl | h') <;> assumption
  · simp

theorem mem_setErase {α : Type} [BEq α] [LawfulBEq α] (l : List α) (x y : α) : y ∈ setErase l x ↔ y ∈ l ∧ y ≠ x := by
  simp [setErase, List.mem_filter]

/-! ### sequences of connection events on one Endpoint object -/

/-- The client set after a sequence of `(connection number, attach?)` events. -/
def applyLinks (cs : List Nat) (evs : List (Nat × Bool)) : List Nat :=
  evs.foldl (fun cs e => if e.2 then setInsert cs e.1 else setErase cs e.1) cs

/-- Is connection `id` open after the events (`init`: it was open before them)?  Its last event decides. -/
def openAfter (init : Bool) (id : Nat) (evs : List (Nat × Bool)) : Bool :=
  evs.foldl (fun b e => if e.1 == id then e.2 else b) init

theorem mem_applyLinks : ∀ (evs : List (Nat × Bool)) (cs : List Nat) (id : Nat),
    id ∈ applyLinks cs evs ↔ openAfter (decide (id ∈ cs)) id evs = true
  | [], cs, id => by simp [applyLinks, openAfter]
  | e :: evs, cs, id => by
    have ih := mem_applyLinks evs (if e.2 then setInsert cs e.1 else setErase cs e.1) id
    simp only [applyLinks, openAfter, List.foldl_cons] at ih ⊢
    rw [ih]
    have : decide (id ∈ (if e.2 then setInsert cs e.1 else setErase cs e.1)) = (if e.1 == id then e.2 else decide (id ∈ cs)) := by
      cases he : e.2
      · by_cases hid : e.1 = id
        · simp [mem_setErase, hid]
        · have : id ≠ e.1 := fun h => hid h.symm
          simp [mem_setErase, hid, this]
      · by_cases hid : e.1 = id
        · simp [mem_setInsert, hid]
        · have : id ≠ e.1 := fun h => hid h.symm
          simp [mem_setInsert, hid, this]
    rw [this]

/-- The abstraction of the two-member system ("sees the other member") is `Endpoint::GetConnected()` on the set of clients
    attached to the other member's Endpoint object. -/
theorem connectedTo_map (other : Name) : ∀ (conns : List Nat) (e : Name),
    connectedTo (conns.map (fun i => (other, i))) e = (!conns.isEmpty && e == other)
  | [], _ => by simp [connectedTo]
  | i :: is, e => by
    have ih := connectedTo_map other is e
    simp only [connectedTo, List.map_cons, List.any_cons] at ih ⊢
    rw [ih]
    have hc : (other == e) = (e == other) := Bool.beq_comm
    cases is <;> simp [hc]

/-! ### SetAuthority -/

theorem setAuthority_paused (o : Obj) (b : Bool) : (setAuthority o b).paused = !b := by
  unfold setAuthority
  cases b <;> cases h : o.paused <;> simp [h]

theorem deltaOk_refl (o : Obj) : deltaOk o o = true := by simp [deltaOk]

theorem deltaOk_setAuthority (o : Obj) (b : Bool) : deltaOk o (setAuthority o b) = true := by
  unfold setAuthority deltaOk
  cases b <;> cases h : o.paused <;> simp [h]

theorem fresh_paused_runEverywhere (c : ObjCfg) (ha : c.active = true) (hr : c.runOnce = false) :
    (fresh c).paused = false := by
  simp [fresh, ha, hr, setAuthority]

/-! ### counting authority changes -/

/-- Number of false→true changes in a sequence of authority decisions, `prev` being the authority before it. -/
def ups (prev : Bool) : List Bool → Nat
  | [] => 0
  | a :: as => (if !prev && a then 1 else 0) + ups a as

/-- Number of true→false changes. -/
def downs (prev : Bool) : List Bool → Nat
  | [] => 0
  | a :: as => (if prev && !a then 1 else 0) + downs a as

/-! ### the step invariant of the two-member system -/

/-! facts about the per-object functions -/

@[simp] theorem setAuthority_execs (o : Obj) (b : Bool) : (setAuthority o b).execs = o.execs := by
  unfold setAuthority; split <;> (try split) <;> rfl

@[simp] theorem setAuthority_stash (o : Obj) (b : Bool) : (setAuthority o b).stash = o.stash := by
  unfold setAuthority; split <;> (try split) <;> rfl

@[simp] theorem setAuthority_reqs (o : Obj) (b : Bool) : (setAuthority o b).reqs = o.reqs := by
  unfold setAuthority; split <;> (try split) <;> rfl

@[simp] theorem applyVerdict_reqs (c : ObjCfg) (o : Obj) (v : Verdict) : (applyVerdict c o v).reqs = o.reqs := by
  unfold applyVerdict; split <;> (try split) <;> simp

@[simp] theorem applyVerdict_execs (c : ObjCfg) (o : Obj) (v : Verdict) : (applyVerdict c o v).execs = o.execs := by
  unfold applyVerdict; split <;> (try split) <;> simp

@[simp] theorem applyVerdict_stash (c : ObjCfg) (o : Obj) (v : Verdict) : (applyVerdict c o v).stash = o.stash := by
  unfold applyVerdict; split <;> (try split) <;> simp

theorem applyVerdict_bound (c : ObjCfg) (o : Obj) (v : Verdict) (n : Nat) (h : o.execs + o.stash ≤ n) :
    (applyVerdict c o v).execs + (applyVerdict c o v).stash ≤ n := by simpa using h

theorem fresh_work (c : ObjCfg) : (fresh c).execs = 0 ∧ (fresh c).stash = 0 := by
  unfold fresh; split <;> simp

@[simp] theorem fresh_reqs (c : ObjCfg) : (fresh c).reqs = 0 := by
  unfold fresh; split <;> simp

theorem freshLike_restart (c : ObjCfg) (old : Obj) (keep : Bool) : freshLike c (restart c old keep) = true := by
  simp [freshLike, restart, (fresh_work c).1]

theorem freshLike_created (c : ObjCfg) : freshLike c (created c) = true := by
  simp [freshLike, created, (fresh_work c).1]

theorem relHalf_sees {sh : SpecHalf} {h : Half} (hr : sh.conns = h.conns) : sh.sees = h.sees := by
  simp [SpecHalf.sees, Half.sees, hr]

theorem mode_kept {p : Prop} [Decidable p] {m x : Mode} (h : (if p then m else Mode.unknown) = x) (hx : x ≠ .unknown) :
    m = x := by
  split at h
  · exact h
  · exact absurd h.symm hx


/-- What a notification request does to an object, as far as the property is concerned. -/
theorem requestObj_props (u : Bool) (c : ObjCfg) (o : Obj) :
    sameAuth o (requestObj u c o) = true ∧ o.execs ≤ (requestObj u c o).execs ∧
    (requestObj u c o).execs + (requestObj u c o).stash ≤ o.execs + o.stash + 1 ∧
    (o.paused = true → (requestObj u c o).execs = o.execs) ∧
    (c.kind = .other → requestObj u c o = o) ∧ (requestObj u c o).reqs = o.reqs := by
  unfold requestObj sameAuth
  cases hk : c.kind <;> cases u <;> cases hp : o.paused <;> simp [hp] <;> (try split) <;> (try simp) <;> (try omega)

/-- What a run of the notification timer does to an object. -/
theorem ntimerObj_props (u ep : Bool) (c : ObjCfg) (o : Obj) :
    sameAuth o (ntimerObj u ep c o) = true ∧ o.execs ≤ (ntimerObj u ep c o).execs ∧
    (ntimerObj u ep c o).execs + (ntimerObj u ep c o).stash ≤ o.execs + o.stash ∧
    (ep = true → o.paused = true → (ntimerObj u ep c o).execs = o.execs) ∧
    (c.kind = .other → ntimerObj u ep c o = o) ∧ (ntimerObj u ep c o).reqs = o.reqs := by
  unfold ntimerObj sameAuth
  cases hk : c.kind <;> cases ha : c.active <;> cases u <;> cases ep <;> cases hp : o.paused <;> simp [hp]

/-- What a due check does to an object. -/
theorem dueObj_props (c : ObjCfg) (o : Obj) :
    sameAuth o (dueObj c o) = true ∧ o.execs ≤ (dueObj c o).execs ∧
    (dueObj c o).execs + (dueObj c o).stash ≤ o.execs + o.stash + 1 ∧
    (o.paused = true → (dueObj c o).execs = o.execs) ∧
    (c.kind = .other → dueObj c o = o) ∧
    (c.kind = .checkable → c.active = true → o.paused = false → (dueObj c o).execs = o.execs + 1) ∧
    (dueObj c o).reqs = o.reqs := by
  unfold dueObj sameAuth
  cases hk : c.kind <;> cases ha : c.active <;> cases hp : o.paused <;> simp [hp] <;> (try omega)

/-- `checkWork` passes when the new object state has the properties above. -/
theorem checkWork_ok (c : ObjCfg) (sh sh' : SpecHalf) (silent : Bool) (o o' : Obj)
    (hprev : sh.prev = o) (h1 : sameAuth o o' = true) (h2 : o.execs ≤ o'.execs) (h3 : o'.execs ≤ sh'.asked)
    (h4 : silent = true → o.paused = true → o'.execs = o.execs) (h5 : c.kind = .other → o' = o)
    (h6 : o'.reqs = o.reqs) :
    checkWork c sh sh' silent o' = none := by
  unfold checkWork
  rw [hprev]
  have e1 : (!sameAuth o o') = false := by simp [h1]
  have e3 : (decide (o'.execs < o.execs) || decide (o'.execs > sh'.asked)) = false := by
    simp only [Bool.or_eq_false_iff, decide_eq_false_iff_not]; omega
  have e2 : (silent && o.paused && (o'.execs != o.execs)) = false := by
    cases hs : silent <;> cases hp : o.paused <;> simp
    exact h4 hs hp
  have e4 : (c.kind == .other && (o'.execs != o.execs)) = false := by
    cases hk : c.kind <;> simp
    rw [h5 hk]
  simp only [e1, e2, e3, e4, h6]
  simp

/-- How the specification's bookkeeping relates to one side of the model. -/
structure RelHalf (c : ObjCfg) (ow : Bool) (sh : SpecHalf) (h : Half) : Prop where
  conns : sh.conns = h.conns
  start : sh.start = h.start
  prev : sh.prev = h.obj
  paired : touched c = true → sh.mode = .paired → h.obj.paused = !ow
  alone : touched c = true → sh.mode = .alone → h.obj.paused = false
  everywhere : c.active = true → c.runOnce = false → h.obj.paused = false
  bound : h.obj.execs + h.obj.stash ≤ sh.asked

structure Rel (nA nB : Name) (c : ObjCfg) (sp : SpecSt) (p : Pair) : Prop where
  a : RelHalf c (own nA nB c.name .A) sp.a p.a
  b : RelHalf c (own nA nB c.name .B) sp.b p.b
  split : ∀ x, sp.split = some x → x = own nA nB c.name .A

theorem rel_init (nA nB : Name) (c : ObjCfg) : Rel nA nB c (specInit c) (initPair c) := by
  have hw := fresh_work c
  refine ⟨⟨rfl, rfl, rfl, ?_, ?_, ?_, ?_⟩, ⟨rfl, rfl, rfl, ?_, ?_, ?_, ?_⟩, ?_⟩ <;>
    simp [specInit, initPair, hw.1, hw.2] <;> intro ha hr <;> exact fresh_paused_runEverywhere c ha hr

theorem touched_not_everywhere (c : ObjCfg) (ht : touched c = false) (o : Obj) (v : Verdict) :
    applyVerdict c o v = o := by simp [applyVerdict, ht]

/-- The work events (request / notification timer / due check): `paused`, the counters and the modes stay, the
    checks pass. -/
theorem work_step (c : ObjCfg) (ow : Bool) (sh : SpecHalf) (h : Half) (hr : RelHalf c ow sh h)
    (o' : Obj) (k : Nat) (hauth : sameAuth h.obj o' = true) (hb : o'.execs + o'.stash ≤ sh.asked + k) :
    RelHalf c ow { sh with prev := o', asked := sh.asked + k } { h with obj := o' } := by
  simp only [sameAuth, Bool.and_eq_true, beq_iff_eq] at hauth
  obtain ⟨⟨hp, _⟩, _⟩ := hauth
  refine ⟨hr.conns, hr.start, rfl, ?_, ?_, ?_, hb⟩
  · intro ht hm; rw [hp]; exact hr.paired ht hm
  · intro ht hm; rw [hp]; exact hr.alone ht hm
  · intro ha hro; rw [hp]; exact hr.everywhere ha hro

/-- One side: the addressed side passes its own checks and keeps the relation. -/
theorem half_step (l : Layout) (nA nB : Name) (hne : nA ≠ nB) (c : ObjCfg) (s : Side) (e : Ev)
    (sh : SpecHalf) (h : Half) (hr : RelHalf c (own nA nB c.name s) sh h) :
    let h' := stepHalf l nA nB c s h e
    let sh' := specHalfNext l sh e h'.obj
    checkOwn l c sh sh' e h'.obj = none ∧ RelHalf c (own nA nB c.name s) sh' h' := by
  have hr0 := hr
  obtain ⟨hsees, hstart, hprev, hpaired, halone, hev, hbound⟩ := hr
  cases e with
  | request s' =>
    obtain ⟨p1, p2, p3, p4, p5, p7⟩ := requestObj_props h.updated c h.obj
    simp only [stepHalf]
    refine ⟨?_, work_step c _ sh h hr0 _ 1 p1 (by omega)⟩
    exact checkWork_ok c sh _ true h.obj _ hprev p1 p2 (by simp only [specHalfNext]; omega) (fun _ => p4) p5 p7
  | ntimer s' =>
    obtain ⟨p1, p2, p3, p4, p5, p7⟩ := ntimerObj_props h.updated (l != .noZone) c h.obj
    simp only [stepHalf]
    refine ⟨?_, ?_⟩
    · exact checkWork_ok c sh _ (l != .noZone) h.obj _ hprev p1 p2 (by simp only [specHalfNext]; omega) p4 p5 p7
    · have := work_step c _ sh h hr0 _ 0 p1 (by omega)
      simpa [specHalfNext, stepHalf] using this
  | due s' =>
    obtain ⟨p1, p2, p3, p4, p5, p6, p7⟩ := dueObj_props c h.obj
    simp only [stepHalf]
    refine ⟨?_, work_step c _ sh h hr0 _ 1 p1 (by omega)⟩
    have hw := checkWork_ok c sh (specHalfNext l sh (.due s') (dueObj c h.obj)) true h.obj _ hprev p1 p2
      (by simp only [specHalfNext]; omega) (fun _ => p4) p5 p7
    simp only [checkOwn, hw, hprev]
    cases hk : c.kind <;> cases ha : c.active <;> cases hp : h.obj.paused <;> simp
    exact p6 hk ha hp
  | fire s' =>
    have hf : sameAuth h.obj (fireObj c h.obj) = true ∧ (fireObj c h.obj).execs = h.obj.execs ∧
        (fireObj c h.obj).stash = h.obj.stash := by
      unfold fireObj sameAuth; split <;> simp
    simp only [stepHalf]
    refine ⟨?_, ?_⟩
    · simp only [checkOwn, checkFire, hprev]
      unfold fireObj sameAuth
      cases hk : c.kind <;> cases ha : c.active <;> cases hp : h.obj.paused <;> simp [hp]
    · have := work_step c _ sh h hr0 _ 0 hf.1 (by rw [hf.2.1, hf.2.2]; omega)
      simpa [specHalfNext, stepHalf] using this
  | create s' =>
    have hw := fresh_work c
    refine ⟨by simp [stepHalf, checkOwn, freshLike_created], ⟨hsees, hstart, rfl, ?_, ?_, ?_, ?_⟩⟩
    · intro _ hm; simp [specHalfNext] at hm
    · intro _ hm; simp [specHalfNext] at hm
    · intro ha hr
      have := fresh_paused_runEverywhere c ha hr
      simpa [stepHalf, created] using this
    · simp [stepHalf, specHalfNext, created, hw.1, hw.2]
  | boot s' start keep =>
    have hw := fresh_work c
    refine ⟨by simp [stepHalf, checkOwn, freshLike_restart], ⟨rfl, rfl, rfl, ?_, ?_, ?_, ?_⟩⟩
    · intro _ hm; simp [specHalfNext] at hm
    · intro _ hm; simp [specHalfNext] at hm
    · intro ha hr
      have := fresh_paused_runEverywhere c ha hr
      simpa [stepHalf, restart] using this
    · cases keep
      · simp [stepHalf, specHalfNext, restart, hw.1]
      · simp only [stepHalf, specHalfNext, restart, hw.1, hprev, if_true]
        omega
  | link s' id up =>
    refine ⟨by simp [stepHalf, checkOwn, hprev], ⟨by simp [stepHalf, specHalfNext, hsees], hstart, rfl, ?_, ?_, ?_, hbound⟩⟩
    · intro ht hm
      simp only [specHalfNext] at hm
      exact hpaired ht (mode_kept hm (by decide))
    · intro ht hm
      simp only [specHalfNext] at hm
      exact halone ht (mode_kept hm (by decide))
    · exact hev
  | idle s' =>
    refine ⟨by simp [stepHalf, checkOwn, hprev], ⟨hsees, hstart, rfl, ?_, ?_, ?_, hbound⟩⟩
    · intro ht hm; exact hpaired ht (by simpa [specHalfNext] using hm)
    · intro ht hm; exact halone ht (by simpa [specHalfNext] using hm)
    · exact hev
  | upd s' now =>
    simp only [stepHalf, authority_abs l nA nB hne s h.sees h.start now c.name]
    by_cases ht : touched c = true
    · -- the loop body runs for this object
      cases l with
      | pair =>
        cases hs : h.sees with
        | true =>
          have hss : sh.sees = true := by rw [relHalf_sees hsees, hs]
          refine ⟨?_, ⟨hsees, hstart, rfl, ?_, ?_, ?_, applyVerdict_bound _ _ _ _ hbound⟩⟩
          · simp [checkOwn, specHalfNext, applyVerdict, ht, absVerdict, hss, ← hprev, deltaOk_setAuthority]
          · intro _ _; simp [applyVerdict, ht, absVerdict, setAuthority_paused]
          · intro _ hm; simp [specHalfNext, hss] at hm
          · intro ha hr; simp [touched, ha, hr] at ht
        | false =>
          have hss : sh.sees = false := by rw [relHalf_sees hsees, hs]
          by_cases hg : inGrace h.start now = true
          · have hg' : inGrace sh.start now = true := by rw [hstart]; exact hg
            refine ⟨?_, ⟨hsees, hstart, rfl, ?_, ?_, ?_, applyVerdict_bound _ _ _ _ hbound⟩⟩
            · simp [checkOwn, specHalfNext, applyVerdict, ht, absVerdict, hss, hg, hg', ← hprev, deltaOk_refl]
              intro hm
              have := halone ht hm
              rw [← hprev] at this
              exact this
            · intro _ hm
              simp only [specHalfNext, hss, hg'] at hm
              simpa [applyVerdict, ht, absVerdict, hg] using hpaired ht (by simpa using hm)
            · intro _ hm
              simp only [specHalfNext, hss, hg'] at hm
              simpa [applyVerdict, ht, absVerdict, hg] using halone ht (by simpa using hm)
            · intro ha hr; simp [touched, ha, hr] at ht
          · have hgf : inGrace h.start now = false := by simpa using hg
            have hg' : inGrace sh.start now = false := by rw [hstart]; exact hgf
            refine ⟨?_, ⟨hsees, hstart, rfl, ?_, ?_, ?_, applyVerdict_bound _ _ _ _ hbound⟩⟩
            · simp [checkOwn, specHalfNext, applyVerdict, ht, absVerdict, hss, hgf, hg', ← hprev,
                deltaOk_setAuthority, setAuthority_paused]
            · intro _ hm; simp [specHalfNext, hss, hg'] at hm
            · intro _ _; simp [applyVerdict, ht, absVerdict, hgf, setAuthority_paused]
            · intro ha hr; simp [touched, ha, hr] at ht
      | single =>
        refine ⟨?_, ⟨hsees, hstart, rfl, ?_, ?_, ?_, applyVerdict_bound _ _ _ _ hbound⟩⟩
        · simp [checkOwn, specHalfNext, applyVerdict, ht, absVerdict, ← hprev, deltaOk_setAuthority, setAuthority_paused]
        · intro _ hm; simp [specHalfNext] at hm
        · intro _ _; simp [applyVerdict, ht, absVerdict, setAuthority_paused]
        · intro ha hr; simp [touched, ha, hr] at ht
      | noZone =>
        refine ⟨?_, ⟨hsees, hstart, rfl, ?_, ?_, ?_, applyVerdict_bound _ _ _ _ hbound⟩⟩
        · simp [checkOwn, specHalfNext, applyVerdict, ht, absVerdict, ← hprev, deltaOk_setAuthority, setAuthority_paused]
        · intro _ hm; simp [specHalfNext] at hm
        · intro _ _; simp [applyVerdict, ht, absVerdict, setAuthority_paused]
        · intro ha hr; simp [touched, ha, hr] at ht
    · -- inactive or run-everywhere: the loop skips the object
      have htf : touched c = false := by simpa using ht
      rw [touched_not_everywhere c htf]
      refine ⟨?_, ⟨hsees, hstart, rfl, ?_, ?_, hev, hbound⟩⟩
      · simp [checkOwn, htf, hprev, deltaOk_refl]
      · intro ht'; simp [htf] at ht'
      · intro ht'; simp [htf] at ht'

/-- The joint checks once both sides are known to be related. -/
theorem joint_ok (nA nB : Name) (hne : nA ≠ nB) (c : ObjCfg) (split : Option Bool)
    (a' b' : SpecHalf) (pa pb : Half)
    (ha : RelHalf c (own nA nB c.name .A) a' pa) (hb : RelHalf c (own nA nB c.name .B) b' pb)
    (hsplit : ∀ x, split = some x → x = own nA nB c.name .A) :
    let settled := touched c && a'.mode == .paired && b'.mode == .paired
    (if c.active && !c.runOnce && (pa.obj.paused || pb.obj.paused) then some Clause.runEverywhereActive
      else if settled && pa.obj.paused == pb.obj.paused then some Clause.exactlyOne
      else if settled && split.isSome && split != some (!pa.obj.paused) then some Clause.sameSplit
      else none) = none ∧
    (∀ x, (if settled && split.isNone then some (!pa.obj.paused) else split) = some x → x = own nA nB c.name .A) := by
  intro settled
  have hx := own_xor nA nB c.name hne
  by_cases hre : c.active = true ∧ c.runOnce = false
  · -- run-everywhere: never touched, always active
    have h1 := ha.everywhere hre.1 hre.2
    have h2 := hb.everywhere hre.1 hre.2
    have ht : touched c = false := by simp [touched, hre.1, hre.2]
    have hs : settled = false := by simp [settled, ht]
    refine ⟨by simp [h1, h2, hs], ?_⟩
    intro x hx'
    simp [hs] at hx'
    exact hsplit x hx'
  · have hre' : (c.active && !c.runOnce) = false := by
      cases h1 : c.active <;> cases h2 : c.runOnce <;> simp_all
    by_cases hs : settled = true
    · have hs' := hs
      simp only [settled, Bool.and_eq_true, beq_iff_eq] at hs'
      obtain ⟨⟨ht, hma⟩, hmb⟩ := hs'
      have hpa := ha.paired ht hma
      have hpb := hb.paired ht hmb
      refine ⟨?_, ?_⟩
      · simp only [hre', hs, Bool.false_and, Bool.true_and]
        have hne' : (pa.obj.paused == pb.obj.paused) = false := by
          rw [hpa, hpb, hx]; cases own nA nB c.name .B <;> rfl
        simp only [hne']
        cases hsp : split with
        | none => simp
        | some x =>
          have := hsplit x hsp
          simp [this, hpa]
      · intro x hx'
        cases hsp : split with
        | none =>
          simp [hs, hsp] at hx'
          rw [hpa] at hx'
          cases x <;> cases hq : own nA nB c.name .A <;> simp_all
        | some y =>
          simp [hsp] at hx'
          rw [← hx']; exact hsplit y hsp
    · have hsf : settled = false := by simpa using hs
      refine ⟨by simp [hre', hsf], ?_⟩
      intro x hx'
      simp [hsf] at hx'
      exact hsplit x hx'

theorem step_rel (l : Layout) (nA nB : Name) (hne : nA ≠ nB) (c : ObjCfg) (sp : SpecSt) (p : Pair) (e : Ev)
    (hr : Rel nA nB c sp p) :
    (specStep l c sp e (step l nA nB c p e).a.obj (step l nA nB c p e).b.obj).1 = none ∧
    Rel nA nB c (specStep l c sp e (step l nA nB c p e).a.obj (step l nA nB c p e).b.obj).2 (step l nA nB c p e) := by
  cases hs : e.side with
  | A =>
    obtain ⟨hown, hrel⟩ := half_step l nA nB hne c .A e sp.a p.a hr.a
    have hj := joint_ok nA nB hne c sp.split _ sp.b _ p.b hrel hr.b hr.split
    have hob : (p.b.obj != sp.b.prev) = false := by simp [hr.b.prev]
    simp only [specStep, step, hs, hown, hob] at hj ⊢
    refine ⟨?_, ⟨hrel, hr.b, ?_⟩⟩
    · simpa using hj.1
    · exact hj.2
  | B =>
    obtain ⟨hown, hrel⟩ := half_step l nA nB hne c .B e sp.b p.b hr.b
    have hj := joint_ok nA nB hne c sp.split sp.a _ p.a _ hr.a hrel hr.split
    have hoa : (p.a.obj != sp.a.prev) = false := by simp [hr.a.prev]
    simp only [specStep, step, hs, hown, hoa] at hj ⊢
    refine ⟨?_, ⟨hr.a, hrel, ?_⟩⟩
    · simpa using hj.1
    · exact hj.2

theorem trace_rel (l : Layout) (nA nB : Name) (hne : nA ≠ nB) (c : ObjCfg) :
    ∀ (es : List Ev) (sp : SpecSt) (p : Pair), Rel nA nB c sp p →
      specTrace l c sp (trace l nA nB c p es) = none
  | [], _, _, _ => rfl
  | e :: es, sp, p, hr => by
    obtain ⟨h1, h2⟩ := step_rel l nA nB hne c sp p e hr
    simp only [trace, specTrace]
    generalize hq : specStep l c sp e (step l nA nB c p e).a.obj (step l nA nB c p e).b.obj = q at h1 h2
    obtain ⟨r, sp'⟩ := q
    simp only at h1 h2
    subst h1
    exact trace_rel l nA nB hne c es sp' _ h2

/-! ### events addressed to one object of a node -/

theorem atList_getElem (f : ObjCfg → Obj → Obj) (i : Nat) : ∀ (cfgs : List ObjCfg) (k : Nat) (objs : List Obj) (j : Nat) (c : ObjCfg) (o : Obj),
    cfgs[j]? = some c → objs[j]? = some o →
    (atList f i k cfgs objs)[j]? = some (if k + j == i then f c o else o)
  | [], _, _, j, _, _, hc, _ => by simp at hc
  | _ :: _, _, [], j, _, _, _, ho => by simp at ho
  | c0 :: cs, k, o0 :: os, 0, c, o, hc, ho => by
    simp at hc ho; subst hc; subst ho; simp [atList]
  | c0 :: cs, k, o0 :: os, j + 1, c, o, hc, ho => by
    simp at hc ho
    have := atList_getElem f i cs (k + 1) os j c o hc ho
    simp only [atList, List.getElem?_cons_succ, this]
    have : k + 1 + j = k + (j + 1) := by omega
    rw [this]


end Icinga.C10

/-
  C16 — property theorems.  Every `theorem` in this file is a proof obligation of the check:
  `./check C16` lists them, runs `#print axioms` on each and fails if a required one is missing.
  Helper lemmas live in IcingaProofs/C16/Lemmas.lean.

  All statements quantify over every filter expression of the modelled language (with arbitrary opaque
  sub-expressions `other i`), every list of labelled apply rules (any source type, target type, `for` term,
  loop variable names, `use` scope), every inventory and every `World` (globals, values of the opaque atoms,
  all other field accesses) — no bound on sizes.
-/
import IcingaProofs.C16.Order

namespace Icinga.C16

/-! ## The recogniser is sound and complete for the names it extracts -/

/-- **target_hosts_sound_complete.**  If `GetTargetHosts` extracts `names` from a filter, then in every
    environment in which `host` is bound to the host object `h` (and the recogniser's constants are what the
    evaluation sees) the filter evaluates — without raising — to exactly `h ∈ names`. -/
theorem target_hosts_sound_complete (consts : Consts) (env : Env) (e : Expr) (names : List String) (h : String)
    (hrec : getTargetHosts consts e = some names) (hc : ConstsAgree consts env)
    (hv : env.vars "host" = some (.host h)) :
    evalFilter env e = some (decide (h ∈ names)) := by
  simp [evalFilter, getTargetHosts_sound hc hv hrec, Val.truthy]

/-- … and for services with (host, service) pairs. -/
theorem target_services_sound_complete (consts : Consts) (env : Env) (e : Expr) (names : List (String × String))
    (h s : String) (hrec : getTargetServices consts e = some names) (hc : ConstsAgree consts env)
    (hvh : env.vars "host" = some (.host h)) (hvs : env.vars "service" = some (.service h s)) :
    evalFilter env e = some (decide ((h, s) ∈ names)) := by
  simp [evalFilter, getTargetServices_sound hc hvh hvs hrec, Val.truthy]

/-- hypotheses satisfiable, non-trivially: `"h2" == host.name || host.name == "h1"` on host `h1` -/
example :
    let e := Expr.or (.eq (.lit (.str "h2")) (.idx (.var "host") (.lit (.str "name"))))
                     (.eq (.idx (.var "host") (.lit (.str "name"))) (.lit (.str "h1")))
    let env : Env := { vars := bind "host" (.host "h1") fun _ => none, other := fun _ => none, field := fun _ _ => none }
    getTargetHosts none e = some ["h2", "h1"] ∧ env.vars "host" = some (.host "h1") ∧
      evalFilter env e = some true := by decide

/-- near misses are not recognised: `!=`, a non-literal operand without constants, an extra conjunct -/
example : getTargetHosts none (.ne (.idx (.var "host") (.lit (.str "name"))) (.lit (.str "h1"))) = none ∧
    getTargetHosts none (.eq (.idx (.var "host") (.lit (.str "name"))) (.var "X")) = none ∧
    getTargetHosts none (.and (.eq (.idx (.var "host") (.lit (.str "name"))) (.lit (.str "h1"))) (.lit (.bool true))) = none ∧
    getTargetServices none (.eq (.idx (.var "host") (.lit (.str "name"))) (.lit (.str "h1"))) = none := by decide

/-! ## The name index creates what plain evaluation creates

  Before commit b11cb6d this held only for rules whose loop variables are not named `host`/`service` (F-C16a)
  and whose `for` value has the expected kind on every target (F-C16b); since then a rule with `for` is never
  indexed (applyrule-targeted.cpp:65-70) and the statement holds outright. -/

/-- **indexed_eq_plain.**  For every rule list and inventory the load with the name index is accepted exactly
    when the load with every filter evaluated is, and creates the same set of objects. -/
theorem indexed_eq_plain (w : World) (rules : Rules) (inv : Inventory) :
    (indexed w rules inv).Equiv (plain w rules inv) := by
  apply loadResult_equiv
  intro o ho
  exact indexedOutcomes_iff_plainOutcomes w (fun p _ => indexSafe_all inv p.2) o ho

def cexWorld : World :=
  { globals := fun _ => none, other := fun _ _ _ _ => none, field := fun _ _ => none, nav := fun _ _ => .empty,
    navNames := defaultNavNames }

def hostNameIs (n : String) : Expr := .eq (.idx (.var "host") (.lit (.str "name"))) (.lit (.str n))

/-- `apply Service "x-" for (host in ["a"]) to Host { assign where host.name == "h0" }` -/
def cexShadowRule : Rule :=
  { src := .service, tgt := .host, name := "x-", assign := [hostNameIs "h0"], ignore := [],
    loop := some { term := fun _ => .arr [.str "a"], kvar := "host" } }

/-- regression for F-C16a: the rule is not indexed any more; both loads read the loop variable (`"a".name`
    raises) and reject the configuration -/
example : targetedNames cexShadowRule = none ∧
    indexed cexWorld [(0, cexShadowRule)] ⟨["h0"], []⟩ = .rejected ∧
    plain cexWorld [(0, cexShadowRule)] ⟨["h0"], []⟩ = .rejected := by decide

/-- `apply Service "x-" for (k in host.vars.mix) to Host { assign where host.name == "h0" }` where
    `vars.mix` is an array on h0 and a dictionary on h1 -/
def cexKindRule : Rule :=
  { src := .service, tgt := .host, name := "x-", assign := [hostNameIs "h0"], ignore := [],
    loop := some { term := fun t => if t = .host "h0" then .arr [.str "a"] else .dict [("x", .str "a")], kvar := "k" } }

/-- regression for F-C16b: both loads raise "Array iterator requires value to be an array" on h1 -/
example : indexed cexWorld [(0, cexKindRule)] ⟨["h0", "h1"], []⟩ = .rejected ∧
    plain cexWorld [(0, cexKindRule)] ⟨["h0", "h1"], []⟩ = .rejected := by decide

/-- not vacuous: a rule without `for` is indexed under the names of its filter and creates its object through
    the index; the same rule with `for` is evaluated on every host -/
example :
    let r : Rule := { src := .service, tgt := .host, name := "x", assign := [.or (hostNameIs "h0") (hostNameIs "h9")],
                      ignore := [], loop := none }
    let rf : Rule := { r with loop := some { term := fun _ => .arr [.str "a", .str "b"], kvar := "k" } }
    targetedNames r = some [.host "h0", .host "h9"] ∧ targetedNames rf = none ∧
      indexed cexWorld [(0, r), (1, rf)] ⟨["h0", "h1"], []⟩
        = .accepted [mkCreated 1 rf (.host "h0") ⟨"a", [("k", .str "a")]⟩, mkCreated 1 rf (.host "h0") ⟨"b", [("k", .str "b")]⟩,
                     mkCreated 0 r (.host "h0") ⟨"", []⟩] := by
  decide

/-! ## Plain evaluation creates exactly the matching objects -/

/-- **apply_exactly_matching.**  When the configuration loads, an object exists for rule `p`, target `t` and
    instance `i` exactly when `t` is a target of the rule's type, `i` is an element of the rule's `for` set on
    `t` (one instance `""` without `for`), some `assign where` is true (or there is none) and no
    `ignore where` is — evaluated with the target and the instance's loop variables in scope. -/
theorem apply_exactly_matching (w : World) (rules : Rules) (inv : Inventory) (objs : List Created)
    (hacc : plain w rules inv = .accepted objs) (c : Created) :
    c ∈ objs ↔ ∃ p ∈ rules, ∃ t ∈ targets inv p.2.tgt, ∃ is, instances p.2 t = some is ∧ ∃ i ∈ is,
      c = mkCreated p.1 p.2 t i ∧ Matches (instEnv w p.2 t i) p.2 := by
  unfold plain loadResult at hacc
  split at hacc
  · cases hacc
  · next hne =>
    cases hacc
    rw [mem_created, mem_plainOutcomes]
    constructor
    · rintro ⟨t, ht, p, hp, hty, ho⟩
      refine ⟨p, hp, t, mem_allTargets_tgt ht hty, ?_⟩
      unfold evalRule at ho
      cases his : instances p.2 t with
      | none => simp [his] at ho
      | some is =>
        simp only [his, List.mem_map] at ho
        obtain ⟨i, hi, he⟩ := ho
        refine ⟨is, rfl, i, hi, ?_⟩
        simp only [evalInstance, Bool.false_eq_true, if_false] at he
        cases hf : evalFilter (instEnv w p.2 t i) p.2.filter with
        | none => simp [hf] at he
        | some b =>
          cases b with
          | false => simp [hf] at he
          | true =>
            simp only [hf, Outcome.create.injEq] at he
            exact ⟨he.symm, (filter_truth hf).mp rfl⟩
    · rintro ⟨p, hp, t, ht, is, his, i, hi, rfl, hm⟩
      have hta : t ∈ allTargets inv ∧ tgtOf t = some p.2.tgt := by
        cases htg : p.2.tgt with
        | host =>
          rw [htg] at ht
          obtain ⟨n, rfl⟩ := mem_targets_host ht
          exact ⟨by simp only [allTargets, List.mem_append]; exact Or.inl ht, rfl⟩
        | service =>
          rw [htg] at ht
          obtain ⟨a, b, rfl⟩ := mem_targets_service ht
          exact ⟨by simp only [allTargets, List.mem_append]; exact Or.inr ht, rfl⟩
      refine ⟨t, hta.1, p, hp, hta.2, ?_⟩
      simp only [evalRule, his, List.mem_map]
      refine ⟨i, hi, ?_⟩
      -- the load was accepted, so this instance's filter did not raise
      have hmem : evalInstance w false p.1 p.2 t i ∈ plainOutcomes w rules inv := by
        rw [mem_plainOutcomes]
        exact ⟨t, hta.1, p, hp, hta.2, by simp only [evalRule, his, List.mem_map]; exact ⟨i, hi, rfl⟩⟩
      simp only [evalInstance, Bool.false_eq_true, if_false] at hmem ⊢
      cases hf : evalFilter (instEnv w p.2 t i) p.2.filter with
      | none =>
        simp only [hf] at hmem
        exact absurd (any_isError.mpr hmem) hne
      | some b =>
        have := (filter_truth hf).mpr hm
        subst this
        rfl

/-- not vacuous: `assign where host.name == "h0" || true; ignore where host.name == "h1"` on two hosts -/
example :
    let r : Rule := { src := .notification, tgt := .host, name := "n", loop := none,
                      assign := [hostNameIs "h0", .lit (.bool true)], ignore := [hostNameIs "h1"] }
    plain cexWorld [(7, r)] ⟨["h0", "h1"], []⟩ = .accepted [mkCreated 7 r (.host "h0") ⟨"", []⟩] := by decide

/-! ## Order independence -/

/-- **order_independent.**  Permuting the rules, the hosts or the services changes neither whether the
    configuration loads nor the set of created objects — with and without the index.  (Parallel evaluation
    is an interleaving of the same per-target evaluations; the harness runs Concurrency 1 and 16.) -/
theorem order_independent (w : World) (r₁ r₂ : Rules) (i₁ i₂ : Inventory) (hr : r₁.Perm r₂)
    (hh : i₁.hosts.Perm i₂.hosts) (hs : i₁.services.Perm i₂.services) :
    (plain w r₁ i₁).Equiv (plain w r₂ i₂) ∧ (indexed w r₁ i₁).Equiv (indexed w r₂ i₂) :=
  ⟨loadResult_equiv fun o _ => plainOutcomes_perm w hr hh hs o,
   loadResult_equiv fun o _ => indexedOutcomes_perm w hr hh hs o⟩

/-! ## API queries

  Before commit 77a9c63 this held only when no `filter_vars` key is one of the names the evaluator binds itself
  (`obj`, `host`, `service`, the navigation fields; F-C16c); since then the fast path is not taken on such a
  collision (filterutility.cpp:119-141,303).  As *lists* the two still differ: the fast path returns one entry
  per disjunct (Q-C16b); the property speaks of sets. -/

/-- **api_fast_path_eq_plain.**  `GetFilterTargets` returns the same set of objects (or raises alike) whether or
    not the filter takes the name-index fast path, for every filter, `filter_vars`, type and inventory, and for
    every set of navigation fields the types may have — provided only that `host`/`service` denote the target
    (`NavOk`: no navigation field of Host is called `host`; a Service has the navigation field `host` and none
    called `service`; checked on the implementation's type reflection in every run). -/
theorem api_fast_path_eq_plain (w : World) (fvars : Option (List (String × Val))) (ty : TgtType) (e : Expr)
    (inv : Inventory) (hnav : NavOk w ty) : ApiEquiv (apiTargets w fvars ty e inv) (apiSlow w fvars ty e inv) := by
  unfold apiTargets
  cases hcol : fvarsCollide w ty fvars with
  | true => exact ApiEquiv.refl _
  | false =>
    have hd := fvarsDisjoint_of_not_collide hcol
    simp only [Bool.false_eq_true, if_false]
    cases ty with
    | host =>
      simp only
      split
      · next names hn =>
        rw [api_host_case w fvars e inv hnav hd hn]
        intro t
        simp only [List.mem_filter, List.contains_eq_mem, decide_eq_true_eq, and_comm]
      · exact ApiEquiv.refl _
    | service =>
      simp only
      split
      · next names hn =>
        rw [api_service_case w fvars e inv hnav hd hn]
        intro t
        simp only [List.mem_filter, List.contains_eq_mem, decide_eq_true_eq, and_comm]
      · exact ApiEquiv.refl _

/-- `NavOk` holds of today's types (and is checked by the driver on the reflected field names) -/
example : NavOk cexWorld .host ∧ NavOk cexWorld .service := by
  refine ⟨?_, ?_⟩ <;> simp [NavOk, cexWorld, defaultNavNames]

/-- regression for F-C16c — `filter = host.name == obj`, `filter_vars = { obj = "h0" }`: evaluation sees `obj`
    bound to the target object and returns nothing; so does `GetFilterTargets` now -/
example :
    apiTargets cexWorld (some [("obj", .str "h0")]) .host
      (.eq (.idx (.var "host") (.lit (.str "name"))) (.var "obj")) ⟨["h0"], []⟩ = some [] ∧
    apiSlow cexWorld (some [("obj", .str "h0")]) .host
      (.eq (.idx (.var "host") (.lit (.str "name"))) (.var "obj")) ⟨["h0"], []⟩ = some [] := by decide

/-- not vacuous, with a constant: `host.name == c || host.name == c`, `filter_vars = {c = "h1"}` —
    the fast path returns h1 twice (Q-C16b), evaluation once; the same set. -/
example :
    let e := Expr.or (.eq (.idx (.var "host") (.lit (.str "name"))) (.var "c"))
                     (.eq (.idx (.var "host") (.lit (.str "name"))) (.var "c"))
    apiTargets cexWorld (some [("c", .str "h1")]) .host e ⟨["h0", "h1"], []⟩ = some [.host "h1", .host "h1"] ∧
    apiSlow cexWorld (some [("c", .str "h1")]) .host e ⟨["h0", "h1"], []⟩ = some [.host "h1"] := by decide

/-! ## The whole load, including the cascade

  Services created by `apply Service` rules are targets of the `to Service` rules (`extend`).  `plainFull` /
  `indexedFull` are the complete loads. -/

/-- **indexed_eq_plain for whole loads.** -/
theorem indexed_full_eq_plain_full (w : World) (rules : Rules) (inv : Inventory) :
    (indexedFull w rules inv).Equiv (plainFull w rules inv) :=
  indexedFull_equiv_plainFull w rules inv fun p _ => indexSafe_all _ p.2

/-- the services that are targets in the second round: the declared ones and, for every `apply Service` object
    created on a host in the first round, that host with the object's name -/
theorem extended_services (inv : Inventory) (os : List Outcome) (p : String × String) :
    p ∈ (extend inv os).services ↔
      (p ∈ inv.services ∨ ∃ c, Outcome.create c ∈ os ∧ c.src = .service ∧ p = (targetHostName c.target, c.name)) := by
  simp only [extend, List.mem_append, mem_createdServices]

/-- **apply_exactly_matching for whole loads**: `apply_exactly_matching` with the extended target set. -/
theorem apply_exactly_matching_full (w : World) (rules : Rules) (inv : Inventory) (objs : List Created)
    (hacc : plainFull w rules inv = .accepted objs) (c : Created) :
    c ∈ objs ↔ ∃ p ∈ rules, ∃ t ∈ targets (extend inv (plainOutcomes w rules inv)) p.2.tgt, ∃ is,
      instances p.2 t = some is ∧ ∃ i ∈ is, c = mkCreated p.1 p.2 t i ∧ Matches (instEnv w p.2 t i) p.2 :=
  apply_exactly_matching w rules _ objs hacc c

/-- **order_independent for whole loads.** -/
theorem order_independent_full (w : World) (r₁ r₂ : Rules) (i₁ i₂ : Inventory) (hr : r₁.Perm r₂)
    (hh : i₁.hosts.Perm i₂.hosts) (hs : i₁.services.Perm i₂.services) :
    (plainFull w r₁ i₁).Equiv (plainFull w r₂ i₂) ∧ (indexedFull w r₁ i₁).Equiv (indexedFull w r₂ i₂) := by
  have hi : InvEquiv i₁ i₂ := ⟨fun _ => hh.mem_iff, fun _ => hs.mem_iff⟩
  have hrm : ∀ p, p ∈ r₁ ↔ p ∈ r₂ := fun _ => hr.mem_iff
  constructor
  · apply loadResult_equiv
    intro o _
    refine plainOutcomes_equiv w hrm ?_ o
    have h0 : ∀ o, o ≠ Outcome.skip → (o ∈ plainOutcomes w r₁ i₁ ↔ o ∈ plainOutcomes w r₂ i₂) :=
      fun o _ => plainOutcomes_equiv w hrm hi o
    refine ⟨fun _ => hh.mem_iff, fun s => ?_⟩
    simp only [extended_services, hs.mem_iff]
    constructor
    · rintro (h | ⟨c, hc, hx⟩)
      · exact Or.inl h
      · exact Or.inr ⟨c, (h0 _ (by simp)).mp hc, hx⟩
    · rintro (h | ⟨c, hc, hx⟩)
      · exact Or.inl h
      · exact Or.inr ⟨c, (h0 _ (by simp)).mpr hc, hx⟩
  · apply loadResult_equiv
    intro o _
    refine indexedOutcomes_equiv w hrm ?_ o
    have h0 : ∀ o, o ≠ Outcome.skip → (o ∈ indexedOutcomes w r₁ i₁ ↔ o ∈ indexedOutcomes w r₂ i₂) :=
      fun o _ => indexedOutcomes_equiv w hrm hi o
    refine ⟨fun _ => hh.mem_iff, fun s => ?_⟩
    simp only [extended_services, hs.mem_iff]
    constructor
    · rintro (h | ⟨c, hc, hx⟩)
      · exact Or.inl h
      · exact Or.inr ⟨c, (h0 _ (by simp)).mp hc, hx⟩
    · rintro (h | ⟨c, hc, hx⟩)
      · exact Or.inl h
      · exact Or.inr ⟨c, (h0 _ (by simp)).mpr hc, hx⟩

/-- the cascade, concretely: `apply Service "s-" for (k in ["a"]) to Host` on h0, and a Notification targeted at
    the created service `h0!s-a` by name -/
example :
    let rs : Rule := { src := .service, tgt := .host, name := "s-", assign := [hostNameIs "h0"], ignore := [],
                       loop := some { term := fun _ => .arr [.str "a"], kvar := "k" } }
    let rn : Rule := { src := .notification, tgt := .service, name := "n", loop := none, ignore := [],
                       assign := [.and (hostNameIs "h0") (.eq (.idx (.var "service") (.lit (.str "name"))) (.lit (.str "s-a")))] }
    indexedFull cexWorld [(0, rs), (1, rn)] ⟨["h0", "h1"], []⟩
      = .accepted [mkCreated 0 rs (.host "h0") ⟨"a", [("k", .str "a")]⟩, mkCreated 1 rn (.service "h0" "s-a") ⟨"", []⟩] ∧
    plainFull cexWorld [(0, rs), (1, rn)] ⟨["h0", "h1"], []⟩
      = .accepted [mkCreated 0 rs (.host "h0") ⟨"a", [("k", .str "a")]⟩, mkCreated 1 rn (.service "h0" "s-a") ⟨"", []⟩] := by
  decide

/-! ## The order in which the configuration is written

  `order_independent(_full)` above permute whole rules and objects.  The statements INSIDE a rule body can be permuted
  as well: the parser collects the `assign where` and the `ignore where` expressions separately and combines them at
  the end of the rule (`collectStmts`, `Rule.filter`), so the filters of `assign a1; ignore i; assign a2` and of
  `assign a2; assign a1; ignore i` differ only in the order of the operands of `||`.  Because `||` short-circuits,
  that order decides whether an operand that raises is reached at all; the property's reading ("the assign expression
  is true and the ignore expression is not") is defined exactly where every expression has a value, and there the order
  is immaterial. -/

/-- **statement_order_independent.**  Two ways of writing the same configuration — the rules in any order, each rule's
    `assign where` / `ignore where` statements in any order, hosts and services in any order — load alike and create
    the same set of objects, with and without the name index, wherever the property's reading is defined (every assign
    and ignore expression has a value on every target and `for` instance, in both rounds of the load). -/
theorem statement_order_independent (w : World) (rs rs' : Rules) (inv inv' : Inventory)
    (hr : RulesStmtEquiv rs rs') (hi : InvEquiv inv inv') (hdef : (expectedCreated w rs inv).isSome = true) :
    (plainFull w rs inv).Equiv (plainFull w rs' inv') ∧ (indexedFull w rs inv).Equiv (indexedFull w rs' inv') :=
  ⟨plainFull_stmtEquiv hr hi hdef, indexedFull_stmtEquiv hr hi hdef⟩

/-- **statement_permutation.**  Permuting the statements of a rule body yields the same rule up to the order of its two
    expression lists (the relation `statement_order_independent` quantifies over), however the two kinds interleave. -/
theorem statement_permutation (r : Rule) (ss ss' : List Stmt) (h : ss.Perm ss') :
    RuleStmtEquiv (r.withStmts ss) (r.withStmts ss') :=
  ruleStmtEquiv_withStmts r h

/-- not vacuous: `assign where host.name == "h0"; ignore where host.name == "h1"; assign where true` and the same
    statements in reverse order, on h0 and h1 (listed in either order): defined, and only `h0!n` is created -/
example :
    let r : Rule := { src := .notification, tgt := .host, name := "n", loop := none, assign := [], ignore := [] }
    let ss := [Stmt.assign (hostNameIs "h0"), .ignore (hostNameIs "h1"), .assign (.lit (.bool true))]
    (expectedCreated cexWorld [(0, r.withStmts ss)] ⟨["h0", "h1"], []⟩).isSome = true ∧
    indexedFull cexWorld [(0, r.withStmts ss)] ⟨["h0", "h1"], []⟩
      = .accepted [mkCreated 0 (r.withStmts ss) (.host "h0") ⟨"", []⟩] ∧
    indexedFull cexWorld [(0, r.withStmts ss.reverse)] ⟨["h1", "h0"], []⟩
      = .accepted [mkCreated 0 (r.withStmts ss.reverse) (.host "h0") ⟨"", []⟩] := by decide

/-- the hypothesis is needed, in the model as in the code: `assign where true; assign where nosuchvar` loads (the second
    operand of `||` is never evaluated), `assign where nosuchvar; assign where true` is rejected -/
theorem statement_order_counterexample :
    let r : Rule := { src := .notification, tgt := .host, name := "n", loop := none, assign := [], ignore := [] }
    let ss := [Stmt.assign (.lit (.bool true)), .assign (.var "nosuchvar")]
    plainFull cexWorld [(0, r.withStmts ss)] ⟨["h0"], []⟩ = .accepted [mkCreated 0 (r.withStmts ss) (.host "h0") ⟨"", []⟩] ∧
    plainFull cexWorld [(0, r.withStmts ss.reverse)] ⟨["h0"], []⟩ = .rejected ∧
    expectedCreated cexWorld [(0, r.withStmts ss)] ⟨["h0"], []⟩ = none := by decide

/-! ## How often the API fast path returns an object (F-C16d)

  FULL STATEMENT (violated by the unchanged code): for every filter, `filter_vars`, type and inventory
  `specApi … (modelApiObs …) = none`, i.e. also the NUMBER of entries `GetFilterTargets` returns — hence how often the
  object query lists an object and how often an action is run on it — is the same with and without the fast path.
  The fast path pushes one entry per name the recogniser collected (filterutility.cpp:333-339,349-355): a filter that names an
  existing object twice (`host.name == "h1" || host.name == "h1"`, typical for generated filters) returns it twice, the
  evaluation of the same filter once.  Proved below: the statement holds whenever the looked-up names are pairwise
  distinct; the counterexample is the duplicate. -/

/-- **api_multiplicity_partial.**  When the names the fast path looks up are pairwise distinct (and object names are
    unique), `GetFilterTargets` returns the same number of entries with and without the fast path. -/
theorem api_multiplicity_partial (w : World) (fvars : Option (List (String × Val))) (ty : TgtType) (e : Expr)
    (inv : Inventory) (hnav : NavOk w ty) (hinv : (targets inv ty).Nodup)
    (hnd : ∀ names, fastPathNames w fvars ty e = some names → names.Nodup) :
    (apiTargets w fvars ty e inv).map List.length = (apiSlow w fvars ty e inv).map List.length := by
  cases hn : fastPathNames w fvars ty e with
  | none => rw [apiTargets_eq_slow_of_no_names hn]
  | some names =>
    have heq := api_fast_path_eq_plain w fvars ty e inv hnav
    rw [apiTargets_eq_of_names hn] at heq ⊢
    cases hs : apiSlow w fvars ty e inv with
    | none => rw [hs] at heq; exact absurd heq (by simp [ApiEquiv])
    | some l =>
      rw [hs] at heq
      simp only [ApiEquiv] at heq
      have h1 : (names.filter fun t => (targets inv ty).contains t).Nodup := (hnd names hn).filter _
      have h2 : l.Nodup := List.Nodup.sublist (apiSlow_sublist hs) hinv
      simp only [Option.map_some, Option.some.injEq]
      exact ((List.perm_ext_iff_of_nodup h1 h2).mpr heq).length_eq

/-- hypotheses satisfiable with a fast path that returns something: `host.name == "h1" || host.name == "h0"` -/
example :
    let e := Expr.or (hostNameIs "h1") (hostNameIs "h0")
    fastPathNames cexWorld none .host e = some [.host "h1", .host "h0"] ∧ (targets ⟨["h0", "h1"], []⟩ .host).Nodup ∧
      apiTargets cexWorld none .host e ⟨["h0", "h1"], []⟩ = some [.host "h1", .host "h0"] := by decide

/-- **api_multiplicity_counterexample** (F-C16d).  `host.name == "h1" || host.name == "h1"` on hosts h0, h1: the fast
    path returns h1 twice, evaluation once; the object query lists it twice and an action runs twice on it. -/
theorem api_multiplicity_counterexample :
    let e := Expr.or (hostNameIs "h1") (hostNameIs "h1")
    let inv : Inventory := ⟨["h0", "h1"], []⟩
    apiTargets cexWorld none .host e inv = some [.host "h1", .host "h1"] ∧
    apiSlow cexWorld none .host e inv = some [.host "h1"] ∧
    specApi cexWorld none .host e inv (modelApiObs cexWorld none .host e inv) = some .apiMultiplicityIndependent := by
  decide

/-! ## The model's whole trace meets the specification

  `modelObs` is what the model says the harness observes of one configuration: as written = `indexedFull`,
  every filter wrapped = `plainFull`, 16 commit threads = the same, the permuted text = the same two loads of
  `permRules` / `permInv`. -/

/-- **model_load_meets_spec.**  For every configuration the model's observable trace satisfies the executable
    specification of the property: fast-path independence, parallel independence, independence of the order of rules,
    statements and objects, and — wherever the property's reading is defined — exactly the matching objects with the
    target in scope (whatever cases `silentIf` excludes). -/
theorem model_load_meets_spec (w : World) (rules : Rules) (inv : Inventory) (silentIf : List ObjObs → Bool)
    (l : Late) : specLoad w rules inv silentIf (modelObs w rules inv l) = none :=
  model_load_meets_spec_aux w rules inv silentIf l

/-- **model_api_meets_spec.**  The API model satisfies the set-valued clauses of `specApi` for every query. -/
theorem model_api_meets_spec (w : World) (fvars : Option (List (String × Val))) (ty : TgtType) (e : Expr)
    (inv : Inventory) (hnav : NavOk w ty) :
    specApiSets w fvars ty e inv (modelApiObs w fvars ty e inv) = none :=
  model_api_meets_spec_aux w fvars ty e inv _ (api_fast_path_eq_plain w fvars ty e inv hnav)

/-- **model_api_meets_spec_partial.**  … and the whole of `specApi`, including the multiplicity clause, when the names
    the fast path looks up are pairwise distinct (see `api_multiplicity_counterexample` for the other case). -/
theorem model_api_meets_spec_partial (w : World) (fvars : Option (List (String × Val))) (ty : TgtType) (e : Expr)
    (inv : Inventory) (hnav : NavOk w ty) (hinv : (targets inv ty).Nodup)
    (hnd : ∀ names, fastPathNames w fvars ty e = some names → names.Nodup) :
    specApi w fvars ty e inv (modelApiObs w fvars ty e inv) = none := by
  have hlen := api_multiplicity_partial w fvars ty e inv hnav hinv hnd
  unfold specApi
  rw [model_api_meets_spec w fvars ty e inv hnav]
  simp only [specApiMult, modelApiObs, queryResults, hlen, actionResults_eq_of_length hlen, beq_self_eq_true,
    Bool.and_self, if_true]

/-! ## Targets committed later in the same process

  The rule registry outlives the commit that filled it.  An object committed afterwards (runtime object creation through
  the API: `ConfigObjectUtility::CreateObject` → `ConfigItem::CommitItems`) is evaluated against all rules — the regular
  list and the name index — like the objects of the first commit; `ApplyRule::CheckMatches` at the end of a commit
  only reports. -/

/-- **staged_commit_eq_single.**  Committing any part of the inventory (hosts with their services, single services) in a
    second stage against the same rules is accepted exactly when the one commit of everything is, and creates the same
    set of objects — for every rule list (regular and indexed rules, `for` loops, cascade included), inventory, world and
    choice of late objects. -/
theorem staged_commit_eq_single (w : World) (rules : Rules) (inv : Inventory) (l : Late) :
    (indexedStaged w rules inv l).Equiv (indexedFull w rules inv) :=
  indexedStaged_equiv w rules inv l

/-- … hence, by `indexed_full_eq_plain_full` and `apply_exactly_matching_full`, the staged commit creates exactly the
    matching objects of plain evaluation. -/
theorem staged_commit_eq_plain (w : World) (rules : Rules) (inv : Inventory) (l : Late) :
    (indexedStaged w rules inv l).Equiv (plainFull w rules inv) :=
  (indexedStaged_equiv w rules inv l).trans (indexed_full_eq_plain_full w rules inv)

/-- not vacuous: `assign where host.name == "late"` matches nothing in the first stage (h0 only); the host `late`
    committed in the second stage gets its service through the name index, and a regular rule
    (`assign where host.name != "h0"`) creates its object there too; the created service is a target of the
    `to Service` rule in the second stage's cascade -/
example :
    let r : Rule := { src := .service, tgt := .host, name := "x", loop := none, assign := [hostNameIs "late"], ignore := [] }
    let r2 : Rule := { src := .notification, tgt := .host, name := "n", loop := none,
                       assign := [.ne (.idx (.var "host") (.lit (.str "name"))) (.lit (.str "h0"))], ignore := [] }
    let r3 : Rule := { src := .notification, tgt := .service, name := "m", loop := none, assign := [.lit (.bool true)], ignore := [] }
    let inv : Inventory := ⟨["h0", "late"], []⟩
    targetedNames r = some [.host "late"] ∧ targetedNames r2 = none ∧
    (earlyInv inv ⟨["late"], []⟩).hosts = ["h0"] ∧ (lateInv inv ⟨["late"], []⟩).hosts = ["late"] ∧
    indexedFullOutcomes cexWorld [(0, r), (1, r2), (2, r3)] (earlyInv inv ⟨["late"], []⟩) = [.skip] ∧
    indexedStaged cexWorld [(0, r), (1, r2), (2, r3)] inv ⟨["late"], []⟩
      = .accepted [mkCreated 1 r2 (.host "late") ⟨"", []⟩, mkCreated 0 r (.host "late") ⟨"", []⟩,
                   mkCreated 2 r3 (.service "late" "x") ⟨"", []⟩] := by
  decide

/-! ## Every rule is evaluated in a scope of its own

  `EvaluateApplyRule` sets up a fresh `ScriptFrame` per rule and target (service-apply.cpp:64-67): the rule's closure
  variables, `host`/`service`, then - per instance - its loop variables.  Nothing another rule bound for the same target
  is visible; a name none of these bind resolves to the global of that name. -/

/-- **rule_scope_only_own.**  In the frame a rule's filter is evaluated in, every name that is not one of the rule's own
    loop variables (of this instance), `host`, `service` or one of its own closure variables is the global of that name
    (or undefined) - whatever other rules were evaluated for the same target before. -/
theorem rule_scope_only_own (w : World) (r : Rule) (t : Val) (i : Inst) (x : String)
    (hb : ∀ p ∈ i.binds, p.1 ≠ x) (hs : ∀ p ∈ r.scope, p.1 ≠ x) (hh : x ≠ "host") (hsv : x ≠ "service") :
    (instEnv w r t i).vars x = w.globals x := by
  simp only [instEnv]
  rw [bindAll_of_not_mem hb]
  unfold baseVars
  cases t <;> simp only [bind, hh, hsv, if_false] <;> exact bindAll_of_not_mem hs

/-- **rule_isolation.**  What a rule creates (and whether it raises) on the objects of a commit does not depend on which
    other rules are loaded with it, for regular and indexed rules alike. -/
theorem rule_isolation (w : World) (rules : Rules) (inv : Inventory) (o : Outcome) :
    o ∈ indexedOutcomes w rules inv ↔ ∃ p ∈ rules, o ∈ indexedOutcomes w [p] inv := by
  simp only [indexedOutcomes, indexedOn, List.mem_flatMap, List.mem_append, List.mem_filter, List.mem_singleton]
  constructor
  · rintro ⟨t, ht, (⟨p, ⟨hp, hc⟩, ho⟩ | ⟨p, ⟨hp, hc⟩, ho⟩)⟩
    · exact ⟨p, hp, t, ht, Or.inl ⟨p, ⟨rfl, hc⟩, ho⟩⟩
    · exact ⟨p, hp, t, ht, Or.inr ⟨p, ⟨rfl, hc⟩, ho⟩⟩
  · rintro ⟨p, hp, t, ht, (⟨q, ⟨rfl, hc⟩, ho⟩ | ⟨q, ⟨rfl, hc⟩, ho⟩)⟩
    · exact ⟨t, ht, Or.inl ⟨q, ⟨hp, hc⟩, ho⟩⟩
    · exact ⟨t, ht, Or.inr ⟨q, ⟨hp, hc⟩, ho⟩⟩

/-- not vacuous: `const k = "h0"`; `apply Service "a-" for (k in ["x", "y"])` next to
    `apply Service "b" { assign where host.name == k }`: the second rule reads the global `k` whatever the first one bound,
    in either order of the rules -/
example :
    let w : World := { cexWorld with globals := fun x => if x = "k" then some (.str "h0") else none }
    let ra : Rule := { src := .service, tgt := .host, name := "a-", assign := [], ignore := [],
                       loop := some { term := fun _ => .arr [.str "x", .str "y"], kvar := "k" } }
    let rb : Rule := { src := .service, tgt := .host, name := "b", loop := none, ignore := [],
                       assign := [.eq (.idx (.var "host") (.lit (.str "name"))) (.var "k")] }
    (instEnv w rb (.host "h0") ⟨"", []⟩).vars "k" = some (.str "h0") ∧
    (instEnv w ra (.host "h0") ⟨"y", [("k", .str "y")]⟩).vars "k" = some (.str "y") ∧
    indexed w [(0, ra), (1, rb)] ⟨["h0"], []⟩
      = .accepted [mkCreated 0 ra (.host "h0") ⟨"x", [("k", .str "x")]⟩, mkCreated 0 ra (.host "h0") ⟨"y", [("k", .str "y")]⟩,
                   mkCreated 1 rb (.host "h0") ⟨"", []⟩] ∧
    indexed w [(1, rb), (0, ra)] ⟨["h0"], []⟩
      = .accepted [mkCreated 1 rb (.host "h0") ⟨"", []⟩, mkCreated 0 ra (.host "h0") ⟨"x", [("k", .str "x")]⟩,
                   mkCreated 0 ra (.host "h0") ⟨"y", [("k", .str "y")]⟩] := by
  decide

/-! ## API queries of a user whose permission carries a filter (F-C16e)

  FULL STATEMENT (violated by the unchanged code): for every permission filter `perm : Val → Option Bool` (`none`: it
  raises on that object), filter, `filter_vars`, type and inventory
  `ApiEquiv (apiTargetsP … perm) (apiSlowP … perm)` and `specApiPerm … perm (modelApiObsP … perm) = none`.
  Evaluation runs the permission filter on EVERY object of the type (`FilteredAddTarget`, filterutility.cpp:158-166) and
  the query fails when it raises on any of them; the fast path runs it only on the objects the filter names
  (filterutility.cpp:362-368).  Proved below: the statement holds for every permission filter that raises on no object;
  the counterexample is a permission filter that raises on an object the query does not name. -/

/-- **api_permission_fast_path_partial.**  For an ApiUser whose permission filter admits the objects `perm` (any predicate
    that raises on no object), `GetFilterTargets` returns the same set of objects (or raises alike) whether the looked-up
    objects of the fast path are passed through the permission filter or every object is passed through the permission
    filter and then the user's filter: in both cases the query ranges over the admitted objects only. -/
theorem api_permission_fast_path_partial (w : World) (fvars : Option (List (String × Val))) (ty : TgtType) (e : Expr)
    (inv : Inventory) (perm : Val → Bool) (hnav : NavOk w ty) :
    ApiEquiv (apiTargetsP w fvars ty e inv (totalPerm perm)) (apiSlowP w fvars ty e inv (totalPerm perm)) := by
  rw [apiTargetsP_eq, apiSlowP_eq]
  exact api_fast_path_eq_plain w fvars ty e (restrictInv inv perm) hnav

/-- **api_permission_respected.**  No object the permission filter does not admit is ever returned, on either path, for
    every permission filter (raising or not). -/
theorem api_permission_respected (w : World) (fvars : Option (List (String × Val))) (ty : TgtType) (e : Expr)
    (inv : Inventory) (perm : Val → Option Bool) (l : List Val) (t : Val)
    (h : apiTargetsP w fvars ty e inv perm = some l ∨ apiSlowP w fvars ty e inv perm = some l) (ht : t ∈ l) :
    perm t = some true := by
  rcases h with h | h
  · unfold apiTargetsP at h
    split at h
    · exact apiSlowP_mem h t ht
    · cases ty with
      | host =>
        simp only at h
        split at h
        · exact permFilter_mem h t ht
        · exact apiSlowP_mem h t ht
      | service =>
        simp only at h
        split at h
        · exact permFilter_mem h t ht
        · exact apiSlowP_mem h t ht
  · exact apiSlowP_mem h t ht

/-- what the model says is observed of a restricted user's query -/
def modelApiObsP (w : World) (fvars : Option (List (String × Val))) (ty : TgtType) (e : Expr) (inv : Inventory)
    (perm : Val → Option Bool) : ApiObs :=
  { fast := apiTargetsP w fvars ty e inv perm, slow := apiSlowP w fvars ty e inv perm }

/-- **model_api_perm_meets_spec_partial.**  The model of a restricted user's query satisfies the specification for every
    permission predicate that raises on no object, every filter, `filter_vars`, type and inventory. -/
theorem model_api_perm_meets_spec_partial (w : World) (fvars : Option (List (String × Val))) (ty : TgtType) (e : Expr)
    (inv : Inventory) (perm : Val → Bool) (hnav : NavOk w ty) :
    specApiPerm w fvars ty e inv (totalPerm perm) (modelApiObsP w fvars ty e inv (totalPerm perm)) = none := by
  have hall : ((targets inv ty).all fun t => (totalPerm perm t).isSome) = true := by simp [totalPerm]
  have hp : (fun t => totalPerm perm t == some true) = perm := by
    funext t; cases h : perm t <;> simp [totalPerm, h]
  unfold specApiPerm
  rw [if_pos hall, hp]
  unfold specApi modelApiObsP
  rw [apiTargetsP_eq, apiSlowP_eq]
  rw [model_api_meets_spec_aux w fvars ty e (restrictInv inv perm) none
    (api_fast_path_eq_plain w fvars ty e (restrictInv inv perm) hnav)]
  rfl

/-- not vacuous: `host.name == "red" || host.name == "blue"` asked by a user who may only see `blue`: the fast path
    looks both up and the permission filter drops `red`; evaluation never gets to see `red`; a fast path that skips the
    permission filter is rejected by the spec -/
example :
    let e := Expr.or (hostNameIs "red") (hostNameIs "blue")
    let inv : Inventory := ⟨["red", "blue"], []⟩
    let perm : Val → Option Bool := totalPerm fun t => t == .host "blue"
    apiTargetsP cexWorld none .host e inv perm = some [.host "blue"] ∧
    apiSlowP cexWorld none .host e inv perm = some [.host "blue"] ∧
    apiTargets cexWorld none .host e inv = some [.host "red", .host "blue"] ∧
    specApiPerm cexWorld none .host e inv perm { fast := some [.host "red", .host "blue"], slow := some [.host "blue"] }
      = some .apiFastpathIndependent ∧
    specApiPerm cexWorld none .host e inv perm { fast := some [.host "red", .host "blue"], slow := some [.host "red", .host "blue"] }
      = some .apiNoExtra := by decide

/-- **api_permission_fast_path_counterexample** (F-C16e).  A permission filter that raises on `h0` (say
    `host.vars.os.foo == "x"` where `vars.os` is a string on h0 only) and the query `host.name == "h1"`: the fast path
    looks up h1 alone and returns it; evaluation runs the permission filter on h0 first and the query fails. -/
theorem api_permission_fast_path_counterexample :
    let e := hostNameIs "h1"
    let inv : Inventory := ⟨["h0", "h1"], []⟩
    let perm : Val → Option Bool := fun t => if t = .host "h0" then none else some true
    apiTargetsP cexWorld none .host e inv perm = some [.host "h1"] ∧
    apiSlowP cexWorld none .host e inv perm = none ∧
    specApiPerm cexWorld none .host e inv perm (modelApiObsP cexWorld none .host e inv perm) = some .apiFastpathIndependent := by
  decide

/-! ## The specification predicate is not vacuous -/

/-- an object on a host the filter does not name, a missing object, a body that saw another host, and a
    fast-path dependence are each rejected by the spec; the right observation is accepted -/
example :
    let r : Rule := { src := .service, tgt := .host, name := "x", loop := none, assign := [hostNameIs "h0"], ignore := [] }
    let good : ObjObs := { src := .service, name := "h0!x", k := .empty, v := .empty, hn := some "h0", sn := none }
    let bad : ObjObs := { good with name := "h1!x", hn := some "h1" }
    let inv : Inventory := ⟨["h0", "h1"], []⟩
    specLoad cexWorld [(0, r)] inv (fun _ => false) { plain1 := some [good], wrap1 := some [good] } = none ∧
    specLoad cexWorld [(0, r)] inv (fun _ => false) { plain1 := some [good, bad], wrap1 := some [good, bad] }
      = some .noExtraObject ∧
    specLoad cexWorld [(0, r)] inv (fun _ => false) { plain1 := some [], wrap1 := some [] } = some .noMissingObject ∧
    specLoad cexWorld [(0, r)] inv (fun _ => false)
      { plain1 := some [{ good with hn := some "h1" }], wrap1 := some [{ good with hn := some "h1" }] }
      = some .targetInScope ∧
    specLoad cexWorld [(0, r)] inv (fun _ => false) { plain1 := some [good], wrap1 := none }
      = some .fastpathIndependent ∧
    specApi cexWorld none .host (hostNameIs "h0") inv { fast := some [.host "h0"], slow := some [.host "h0"] } = none ∧
    specApi cexWorld none .host (hostNameIs "h0") inv { fast := some [.host "h0"], slow := some [] }
      = some .apiFastpathIndependent ∧
    specApi cexWorld none .host (hostNameIs "h0") inv { fast := some [.host "h1"], slow := some [.host "h1"] }
      = some .apiNoMissing ∧
    specLoad cexWorld [(0, r)] inv (fun _ => false) { plain1 := some [good], wrap1 := some [good], perm1 := some (some []) }
      = some .orderIndependent ∧
    specLoad cexWorld [(0, r)] inv (fun _ => false) { plain1 := some [good], wrap1 := some [good], late1 := some (some []) }
      = some .stageIndependent ∧
    specApi cexWorld none .host (hostNameIs "h0") inv
        { fast := some [.host "h0"], slow := some [.host "h0"], counts := some ⟨some 2, some 1, some 2, some 1, some 2, some 1⟩ }
      = some .apiMultiplicityIndependent := by decide

end Icinga.C16

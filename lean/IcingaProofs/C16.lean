/-
  C16 — property theorems.  Every `theorem` in this file is a proof obligation of the check:
  `./check C16` lists them, runs `#print axioms` on each and fails if a required one is missing.
  Helper lemmas live in IcingaProofs/C16/Lemmas.lean.

  All statements quantify over every filter expression of the modelled language (with arbitrary opaque
  sub-expressions `other i`), every list of labelled apply rules (any source type, target type, `for` term,
  loop variable names, `use` scope), every inventory and every `World` (globals, values of the opaque atoms,
  all other field accesses) — no bound on sizes.
-/
import IcingaProofs.C16.Lemmas

namespace Icinga.C16

/-! ## The recogniser is sound and complete for the names it extracts -/

/-- **target_hosts_sound_complete.**  If `GetTargetHosts` extracts `names` from a filter, then in every
    environment in which `host` is bound to the host object `h` (and the recogniser's constants are what the
    evaluation sees) the filter evaluates — without raising — to exactly `h ∈ names`. -/
theorem target_hosts_sound_complete (consts : Consts) (env : Env) (e : Expr) (names : List String) (h : String)
    (hrec : getTargetHosts consts e = some names) (hc : ConstsAgree consts env)
    (hv : env.vars "host" = some (.host h)) :
    evalFilter env e = some (decide (h ∈ names)) := by
  simp [evalFilter, getTargetHosts_sound hc hv hrec, Val.truthy]

/-- … and for services with (host, service) pairs. -/
theorem target_services_sound_complete (consts : Consts) (env : Env) (e : Expr) (names : List (String × String))
    (h s : String) (hrec : getTargetServices consts e = some names) (hc : ConstsAgree consts env)
    (hvh : env.vars "host" = some (.host h)) (hvs : env.vars "service" = some (.service h s)) :
    evalFilter env e = some (decide ((h, s) ∈ names)) := by
  simp [evalFilter, getTargetServices_sound hc hvh hvs hrec, Val.truthy]

/-- hypotheses satisfiable, non-trivially: `"h2" == host.name || host.name == "h1"` on host `h1` -/
example :
    let e := Expr.or (.eq (.lit (.str "h2")) (.idx (.var "host") (.lit (.str "name"))))
                     (.eq (.idx (.var "host") (.lit (.str "name"))) (.lit (.str "h1")))
    let env : Env := { vars := bind "host" (.host "h1") fun _ => none, other := fun _ => none, field := fun _ _ => none }
    getTargetHosts none e = some ["h2", "h1"] ∧ env.vars "host" = some (.host "h1") ∧
      evalFilter env e = some true := by decide

/-- near misses are not recognised: `!=`, a non-literal operand without constants, an extra conjunct -/
example : getTargetHosts none (.ne (.idx (.var "host") (.lit (.str "name"))) (.lit (.str "h1"))) = none ∧
    getTargetHosts none (.eq (.idx (.var "host") (.lit (.str "name"))) (.var "X")) = none ∧
    getTargetHosts none (.and (.eq (.idx (.var "host") (.lit (.str "name"))) (.lit (.str "h1"))) (.lit (.bool true))) = none ∧
    getTargetServices none (.eq (.idx (.var "host") (.lit (.str "name"))) (.lit (.str "h1"))) = none := by decide

/-! ## The name index creates what plain evaluation creates

  Full statement (false of the unchanged code, see the two counterexamples):
    `∀ w rules inv, (indexed w rules inv).Equiv (plain w rules inv)`.
  Proved with the hypothesis `IndexSafe` for every rule: a rule the recogniser accepts
    (a) does not name a loop variable `host`/`service` (F-C16a), and
    (b) has a `for` value of the kind its loop header expects on every target of its type (F-C16b). -/

/-- **indexed_eq_plain** (partial). -/
theorem indexed_eq_plain_partial (w : World) (rules : Rules) (inv : Inventory)
    (hsafe : ∀ p ∈ rules, IndexSafe inv p.2) : (indexed w rules inv).Equiv (plain w rules inv) := by
  apply loadResult_equiv
  intro o ho
  simp only [indexedOutcomes, plainOutcomes, List.mem_flatMap]
  constructor
  · rintro ⟨t, ht, hm⟩; exact ⟨t, ht, (indexedOn_iff_plainOn w hsafe ht o ho).mp hm⟩
  · rintro ⟨t, ht, hm⟩; exact ⟨t, ht, (indexedOn_iff_plainOn w hsafe ht o ho).mpr hm⟩

/-- rules without `for` (and hence without loop variables) are always safe -/
theorem indexSafe_of_no_for (inv : Inventory) (r : Rule) (hf : r.fterm = none) (hk : r.fkvar = "") (hv : r.fvvar = "") :
    IndexSafe inv r := by
  intro _
  refine ⟨?_, ?_⟩
  · cases htg : r.tgt <;> simp [NoShadow, boundNames, hk, hv, htg]
  · intro t _
    simp [instances, forVal, hf, instancesOf, hv]

/-- … so for rule lists without `for` the full statement holds outright. -/
theorem indexed_eq_plain_without_for (w : World) (rules : Rules) (inv : Inventory)
    (h : ∀ p ∈ rules, p.2.fterm = none ∧ p.2.fkvar = "" ∧ p.2.fvvar = "") :
    (indexed w rules inv).Equiv (plain w rules inv) :=
  indexed_eq_plain_partial w rules inv fun p hp =>
    indexSafe_of_no_for inv p.2 (h p hp).1 (h p hp).2.1 (h p hp).2.2

def cexWorld : World :=
  { globals := fun _ => none, other := fun _ _ _ _ => none, field := fun _ _ => none, nav := fun _ _ => .empty }

def hostNameIs (n : String) : Expr := .eq (.idx (.var "host") (.lit (.str "name"))) (.lit (.str n))

/-- `apply Service "x-" for (host in ["a"]) to Host { assign where host.name == "h0" }` -/
def cexShadowRule : Rule :=
  { src := .service, tgt := .host, name := "x-", assign := [hostNameIs "h0"], ignore := [],
    fterm := some fun _ => .arr [.str "a"], fkvar := "host" }

/-- **F-C16a** — a loop variable named `host`: the index creates `h0!x-a`; plain evaluation reads the loop
    variable (`"a".name` raises) and the configuration is rejected. -/
theorem indexed_eq_plain_counterexample_shadow :
    ¬ (indexed cexWorld [(0, cexShadowRule)] ⟨["h0"], []⟩).Equiv (plain cexWorld [(0, cexShadowRule)] ⟨["h0"], []⟩) := by
  have h1 : indexed cexWorld [(0, cexShadowRule)] ⟨["h0"], []⟩
      = .accepted [⟨0, .host "h0", "a", [("host", .str "a")]⟩] := by decide
  have h2 : plain cexWorld [(0, cexShadowRule)] ⟨["h0"], []⟩ = .rejected := by decide
  rw [h1, h2]; exact id

/-- `apply Service "x-" for (k in host.vars.mix) to Host { assign where host.name == "h0" }` where
    `vars.mix` is an array on h0 and a dictionary on h1 -/
def cexKindRule : Rule :=
  { src := .service, tgt := .host, name := "x-", assign := [hostNameIs "h0"], ignore := [],
    fterm := some fun t => if t = .host "h0" then .arr [.str "a"] else .dict [("x", .str "a")], fkvar := "k" }

/-- **F-C16b** — a `for` value of the wrong kind on a host the rule does not name: plain evaluation raises
    ("Array iterator requires value to be an array") on h1, the index never evaluates the rule there. -/
theorem indexed_eq_plain_counterexample_forkind :
    ¬ (indexed cexWorld [(0, cexKindRule)] ⟨["h0", "h1"], []⟩).Equiv (plain cexWorld [(0, cexKindRule)] ⟨["h0", "h1"], []⟩) := by
  have h1 : indexed cexWorld [(0, cexKindRule)] ⟨["h0", "h1"], []⟩
      = .accepted [⟨0, .host "h0", "a", [("k", .str "a")]⟩] := by decide
  have h2 : plain cexWorld [(0, cexKindRule)] ⟨["h0", "h1"], []⟩ = .rejected := by decide
  rw [h1, h2]; exact id

/-- hypotheses satisfiable on a non-trivial state: a recognised `for` rule over two hosts creates objects -/
example :
    let r : Rule := { src := .service, tgt := .host, name := "x-", assign := [hostNameIs "h0"], ignore := [],
                      fterm := some fun _ => .arr [.str "a", .str "b"], fkvar := "k" }
    (targetedNames r).isSome ∧ NoShadow r ∧
      indexed cexWorld [(0, r)] ⟨["h0", "h1"], []⟩
        = .accepted [⟨0, .host "h0", "a", [("k", .str "a")]⟩, ⟨0, .host "h0", "b", [("k", .str "b")]⟩] := by
  intro r
  exact ⟨by decide, by unfold NoShadow; decide, by decide⟩

/-! ## Plain evaluation creates exactly the matching objects -/

/-- **apply_exactly_matching.**  When the configuration loads, an object exists for rule `p`, target `t` and
    instance `i` exactly when `t` is a target of the rule's type, `i` is an element of the rule's `for` set on
    `t` (one instance `""` without `for`), some `assign where` is true (or there is none) and no
    `ignore where` is — evaluated with the target and the instance's loop variables in scope. -/
theorem apply_exactly_matching (w : World) (rules : Rules) (inv : Inventory) (objs : List Created)
    (hacc : plain w rules inv = .accepted objs) (c : Created) :
    c ∈ objs ↔ ∃ p ∈ rules, ∃ t ∈ targets inv p.2.tgt, ∃ is, instances p.2 t = some is ∧ ∃ i ∈ is,
      c = ⟨p.1, t, i.key, i.binds⟩ ∧ Matches (instEnv w p.2 t i) p.2 := by
  unfold plain loadResult at hacc
  split at hacc
  · cases hacc
  · next hne =>
    cases hacc
    rw [mem_created, mem_plainOutcomes]
    constructor
    · rintro ⟨t, ht, p, hp, hty, ho⟩
      refine ⟨p, hp, t, mem_allTargets_tgt ht hty, ?_⟩
      unfold evalRule at ho
      cases his : instances p.2 t with
      | none => simp [his] at ho
      | some is =>
        simp only [his, List.mem_map] at ho
        obtain ⟨i, hi, he⟩ := ho
        refine ⟨is, rfl, i, hi, ?_⟩
        simp only [evalInstance, Bool.false_eq_true, if_false] at he
        cases hf : evalFilter (instEnv w p.2 t i) p.2.filter with
        | none => simp [hf] at he
        | some b =>
          cases b with
          | false => simp [hf] at he
          | true =>
            simp only [hf, Outcome.create.injEq] at he
            exact ⟨he.symm, (filter_truth hf).mp rfl⟩
    · rintro ⟨p, hp, t, ht, is, his, i, hi, rfl, hm⟩
      have hta : t ∈ allTargets inv ∧ tgtOf t = some p.2.tgt := by
        cases htg : p.2.tgt with
        | host =>
          rw [htg] at ht
          obtain ⟨n, rfl⟩ := mem_targets_host ht
          exact ⟨by simp only [allTargets, List.mem_append]; exact Or.inl ht, rfl⟩
        | service =>
          rw [htg] at ht
          obtain ⟨a, b, rfl⟩ := mem_targets_service ht
          exact ⟨by simp only [allTargets, List.mem_append]; exact Or.inr ht, rfl⟩
      refine ⟨t, hta.1, p, hp, hta.2, ?_⟩
      simp only [evalRule, his, List.mem_map]
      refine ⟨i, hi, ?_⟩
      -- the load was accepted, so this instance's filter did not raise
      have hmem : evalInstance w false p.1 p.2 t i ∈ plainOutcomes w rules inv := by
        rw [mem_plainOutcomes]
        exact ⟨t, hta.1, p, hp, hta.2, by simp only [evalRule, his, List.mem_map]; exact ⟨i, hi, rfl⟩⟩
      simp only [evalInstance, Bool.false_eq_true, if_false] at hmem ⊢
      cases hf : evalFilter (instEnv w p.2 t i) p.2.filter with
      | none =>
        simp only [hf] at hmem
        exact absurd (any_isError.mpr hmem) hne
      | some b =>
        have := (filter_truth hf).mpr hm
        subst this
        rfl

/-- not vacuous: `assign where host.name == "h0" || true; ignore where host.name == "h1"` on two hosts -/
example :
    let r : Rule := { src := .notification, tgt := .host, name := "n", fterm := none,
                      assign := [hostNameIs "h0", .lit (.bool true)], ignore := [hostNameIs "h1"] }
    plain cexWorld [(7, r)] ⟨["h0", "h1"], []⟩ = .accepted [⟨7, .host "h0", "", []⟩] := by decide

/-! ## Order independence -/

/-- **order_independent.**  Permuting the rules, the hosts or the services changes neither whether the
    configuration loads nor the set of created objects — with and without the index.  (Parallel evaluation
    is an interleaving of the same per-target evaluations; the harness runs Concurrency 1 and 16.) -/
theorem order_independent (w : World) (r₁ r₂ : Rules) (i₁ i₂ : Inventory) (hr : r₁.Perm r₂)
    (hh : i₁.hosts.Perm i₂.hosts) (hs : i₁.services.Perm i₂.services) :
    (plain w r₁ i₁).Equiv (plain w r₂ i₂) ∧ (indexed w r₁ i₁).Equiv (indexed w r₂ i₂) :=
  ⟨loadResult_equiv fun o _ => plainOutcomes_perm w hr hh hs o,
   loadResult_equiv fun o _ => indexedOutcomes_perm w hr hh hs o⟩

/-! ## API queries

  Full statement (false of the unchanged code, see the counterexample):
    `∀ w fvars ty e inv, ApiEquiv (apiTargets w fvars ty e inv) (apiSlow w fvars ty e inv)`.
  Proved with the hypothesis that no `filter_vars` key is one of the names the evaluator binds itself
  (`obj`, `host`, `service`, the navigation fields). As *lists* the two differ: the fast path returns one
  entry per disjunct (Q-C16b); the property speaks of sets. -/

/-- **api_fast_path_eq_plain** (partial). -/
theorem api_fast_path_eq_plain_partial (w : World) (fvars : Option (List (String × Val))) (ty : TgtType) (e : Expr)
    (inv : Inventory) (hd : FvarsDisjoint ty fvars) :
    ApiEquiv (apiTargets w fvars ty e inv) (apiSlow w fvars ty e inv) := by
  unfold apiTargets
  cases ty with
  | host =>
    simp only
    split
    · next names hn =>
      rw [api_host_case w fvars e inv hd hn]
      intro t
      simp only [List.mem_filter, List.contains_eq_mem, decide_eq_true_eq, and_comm]
    · exact ApiEquiv.refl _
  | service =>
    simp only
    split
    · next names hn =>
      rw [api_service_case w fvars e inv hd hn]
      intro t
      simp only [List.mem_filter, List.contains_eq_mem, decide_eq_true_eq, and_comm]
    · exact ApiEquiv.refl _

/-- **F-C16c** — `filter = host.name == obj`, `filter_vars = { obj = "h0" }`: the fast path reads the constant
    and returns h0; evaluation sees `obj` bound to the target object and returns nothing. -/
theorem api_fast_path_counterexample_shadowed_constant :
    ¬ ApiEquiv (apiTargets cexWorld (some [("obj", .str "h0")]) .host
                  (.eq (.idx (.var "host") (.lit (.str "name"))) (.var "obj")) ⟨["h0"], []⟩)
               (apiSlow cexWorld (some [("obj", .str "h0")]) .host
                  (.eq (.idx (.var "host") (.lit (.str "name"))) (.var "obj")) ⟨["h0"], []⟩) := by
  have h1 : apiTargets cexWorld (some [("obj", .str "h0")]) .host
      (.eq (.idx (.var "host") (.lit (.str "name"))) (.var "obj")) ⟨["h0"], []⟩ = some [.host "h0"] := by decide
  have h2 : apiSlow cexWorld (some [("obj", .str "h0")]) .host
      (.eq (.idx (.var "host") (.lit (.str "name"))) (.var "obj")) ⟨["h0"], []⟩ = some [] := by decide
  rw [h1, h2]
  intro h
  exact absurd ((h (.host "h0")).mp (by simp)) (by simp)

/-- hypotheses satisfiable, with a constant: `host.name == c || host.name == c`, `filter_vars = {c = "h1"}` —
    the fast path returns h1 twice (Q-C16b), evaluation once; the same set. -/
example :
    let e := Expr.or (.eq (.idx (.var "host") (.lit (.str "name"))) (.var "c"))
                     (.eq (.idx (.var "host") (.lit (.str "name"))) (.var "c"))
    apiTargets cexWorld (some [("c", .str "h1")]) .host e ⟨["h0", "h1"], []⟩ = some [.host "h1", .host "h1"] ∧
    apiSlow cexWorld (some [("c", .str "h1")]) .host e ⟨["h0", "h1"], []⟩ = some [.host "h1"] := by decide

/-! ## The specification predicate is not vacuous -/

/-- an object on a host the filter does not name, a missing object, a body that saw another host, and a
    fast-path dependence are each rejected by the spec; the right observation is accepted -/
example :
    let r : Rule := { src := .service, tgt := .host, name := "x", fterm := none, assign := [hostNameIs "h0"], ignore := [] }
    let good : ObjObs := { src := .service, name := "h0!x", k := .empty, v := .empty, hn := some "h0", sn := none }
    let bad : ObjObs := { good with name := "h1!x", hn := some "h1" }
    let inv : Inventory := ⟨["h0", "h1"], []⟩
    specLoad cexWorld [(0, r)] inv (fun _ => false) { plain1 := some [good], wrap1 := some [good] } = none ∧
    specLoad cexWorld [(0, r)] inv (fun _ => false) { plain1 := some [good, bad], wrap1 := some [good, bad] }
      = some .noExtraObject ∧
    specLoad cexWorld [(0, r)] inv (fun _ => false) { plain1 := some [], wrap1 := some [] } = some .noMissingObject ∧
    specLoad cexWorld [(0, r)] inv (fun _ => false)
      { plain1 := some [{ good with hn := some "h1" }], wrap1 := some [{ good with hn := some "h1" }] }
      = some .targetInScope ∧
    specLoad cexWorld [(0, r)] inv (fun _ => false) { plain1 := some [good], wrap1 := none }
      = some .fastpathIndependent ∧
    specApi cexWorld none .host (hostNameIs "h0") inv { fast := some [.host "h0"], slow := some [.host "h0"] } = none ∧
    specApi cexWorld none .host (hostNameIs "h0") inv { fast := some [.host "h0"], slow := some [] }
      = some .apiFastpathIndependent ∧
    specApi cexWorld none .host (hostNameIs "h0") inv { fast := some [.host "h1"], slow := some [.host "h1"] }
      = some .apiNoMissing := by decide

end Icinga.C16

/-
  C17 — the model's states as the specification sees them (`observe`), and helper lemmas for evaluating
  `specDelete` on the model's own steps.
-/
import IcingaProofs.C17.InvLemmas
import IcingaModel.C17.Spec
namespace Icinga.C17

/-- what the harness prints for an object (content hash constant: the model has no attributes) -/
def observeObj (o : Obj) : OObj := { key := o.key, api := o.api, active := o.active, hash := [], reg := true }
def observe (st : St) : World := { objs := st.objs.map observeObj, items := st.items, files := st.files, glob := [] }
/-- the runtime-created objects of a state, and their files, as the driver's book-keeping has them -/
def createdOf (st : St) : List Key := (st.objs.filter (·.api)).map (·.key)
def fileOfSt (st : St) : List (Key × Str) := (st.objs.filter (·.api)).map (fun o => (o.key, o.file))

theorem observe_has (st : St) (k : Key) : (observe st).has k = st.has k := by
  simp only [World.has, observe, St.has, List.any_map, observeObj, Function.comp_def]
  rfl

theorem observe_find (st : St) (k : Key) : (observe st).find k = (st.find k).map observeObj := by
  simp only [World.find, St.find, observe, List.find?_map, Function.comp_def, observeObj]
  rfl

theorem observe_keys (st : St) : (observe st).objs.map (·.key) = st.keys := by
  simp [observe, St.keys, List.map_map, Function.comp_def, observeObj]

theorem nodupKeys_of_nodup : ∀ l : List Key, l.Nodup → nodupKeys l = true
  | [], _ => rfl
  | k :: r, h => by
    have h' := List.nodup_cons.mp h
    simp [nodupKeys, h'.1, nodupKeys_of_nodup r h'.2]

theorem observe_allRegistered (st : St) : allRegistered (observe st) = true := by
  simp [allRegistered, observe, observeObj]

theorem kids_eq_children (st : St) (k : Key) :
    (st.deps.filter (fun e => decide (e.2 = k) && (observe st).has e.1)).map (·.1) = children st k := by
  simp [children, List.filter_map, List.filter_filter, observe_has, Function.comp_def, Bool.and_comm]

theorem createdOf_contains (st : St) (k : Key) (o : Obj) (ho : st.find k = some o) (hapi : o.api = true) :
    (createdOf st).contains k = true := by
  have hm := List.mem_of_find?_eq_some ho
  have hk := find_key st k o ho
  simp only [createdOf, List.contains_iff_mem, List.mem_map, List.mem_filter]
  exact ⟨o, ⟨hm, hapi⟩, hk⟩

theorem fileOfKey_find (st : St) (k : Key) (o : Obj) (ho : st.find k = some o) (hapi : o.api = true) :
    fileOfKey (fileOfSt st) k = some o.file := by
  unfold fileOfKey fileOfSt St.find at *
  generalize st.objs = l at ho
  induction l with
  | nil => cases ho
  | cons x r ih =>
    simp only [List.find?_cons] at ho
    by_cases hx : x.key = k
    · simp only [hx, decide_true] at ho
      cases ho
      simp [hapi, hx]
    · simp only [hx, decide_false] at ho
      by_cases hxa : x.api = true
      · simp [hxa, hx]; simpa using ih ho
      · simp [hxa]; simpa using ih ho

theorem fileOfKey_owner (st : St) (x : Key) (p : Str) (h : fileOfKey (fileOfSt st) x = some p) :
    ∃ a ∈ st.objs, a.api = true ∧ a.key = x ∧ a.file = p := by
  unfold fileOfKey at h
  cases hf : (fileOfSt st).find? (·.1 = x) with
  | none => simp [hf] at h
  | some e =>
    simp [hf] at h
    have hm := List.mem_of_find?_eq_some hf
    have hk := List.find?_some hf
    simp only [fileOfSt, List.mem_map, List.mem_filter] at hm
    obtain ⟨a, ⟨ha, hapi⟩, rfl⟩ := hm
    exact ⟨a, ha, hapi, by simpa using hk, h⟩

theorem find_has (st : St) (k : Key) (o : Obj) (ho : st.find k = some o) : st.has k = true := by
  have hm := List.mem_of_find?_eq_some ho
  have hk := find_key st k o ho
  simp only [St.has, List.any_eq_true]
  exact ⟨o, hm, by simpa using hk⟩

theorem removeObj_has_other (st : St) (o x : Obj) (hx : x ∈ st.objs) (hne : x.key ≠ o.key) :
    (removeObj st o).has x.key = true := by
  simp only [removeObj, St.has, List.any_eq_true, List.mem_filter]
  exact ⟨x, ⟨hx, by simpa using hne⟩, by simp⟩

end Icinga.C17

/-
  C17 — helper lemmas for the create/delete state machine.
-/
import IcingaModel.C17.Objects

namespace Icinga.C17

theorem rmFile_fresh (p : Str) (fs : List Str) (h : p ∉ fs) : rmFile p fs = fs := by
  unfold rmFile
  rw [List.filter_eq_self]
  intro a ha
  have : a ≠ p := fun e => h (e ▸ ha)
  simpa using this

theorem filter_ne_fresh (k : Key) (ks : List Key) (h : k ∉ ks) : ks.filter (· ≠ k) = ks := by
  rw [List.filter_eq_self]
  intro a ha
  have : a ≠ k := fun e => h (e ▸ ha)
  simpa using this

theorem removeObj_objs_sublist (st : St) (o : Obj) : (removeObj st o).objs.Sublist st.objs := by
  simp [removeObj]

theorem deleteChild_sublist (rec : St → Obj → St) (hrec : ∀ s co, (rec s co).objs.Sublist s.objs)
    (s : St) (c : Key) : (deleteChild rec s c).objs.Sublist s.objs := by
  unfold deleteChild
  split
  · exact hrec _ _
  · exact List.Sublist.refl _

theorem foldl_sublist (g : St → Key → St) (hg : ∀ s c, (g s c).objs.Sublist s.objs) (cs : List Key) :
    ∀ st : St, (cs.foldl g st).objs.Sublist st.objs := by
  induction cs with
  | nil => intro st; exact List.Sublist.refl _
  | cons c cs ih => intro st; exact (ih (g st c)).trans (hg st c)

theorem deleteHelper_sublist : ∀ (f : Nat) (st : St) (o : Obj) (c : Bool),
    (deleteHelper f st o c).1.objs.Sublist st.objs := by
  intro f
  induction f with
  | zero => intro st o c; exact removeObj_objs_sublist st o
  | succ f ih =>
    intro st o c
    simp only [deleteHelper]
    split
    · exact List.Sublist.refl _
    · refine (removeObj_objs_sublist _ o).trans ?_
      exact foldl_sublist _ (fun s k => deleteChild_sublist _ (fun s co => ih s co c) s k) _ st

theorem deleteObject_sublist (st : St) (k : Key) (c : Bool) :
    (deleteObject st k c).1.objs.Sublist st.objs := by
  unfold deleteObject
  split
  · exact List.Sublist.refl _
  · split
    · exact List.Sublist.refl _
    · exact deleteHelper_sublist _ _ _ _

theorem has_false_iff (st : St) (k : Key) : st.has k = false ↔ k ∉ st.keys := by
  simp [St.has, St.keys]

theorem createObject_keys (st : St) (k : Key) (p : Str) (ps : List Key) (f : Fault) (api : Bool) :
    (createObject st k p ps f api).1.keys = st.keys ∨
      (st.has k = false ∧ (createObject st k p ps f api).1.keys = k :: st.keys) := by
  unfold createObject
  by_cases hk : st.has k = true
  · simp [hk]
  · have hk' : st.has k = false := by simpa using hk
    cases f <;> simp [hk', St.keys]

theorem step_nodup (st : St) (op : Op) (h : st.keys.Nodup) : (step st op).keys.Nodup := by
  cases op with
  | create k p ps f =>
    rcases createObject_keys st k p ps f true with e | ⟨hk, e⟩
    · simpa [step, e] using h
    · simp only [step, e]
      exact List.nodup_cons.mpr ⟨(has_false_iff st k).mp hk, h⟩
  | delete k c =>
    simp only [step, St.keys]
    exact ((deleteObject_sublist st k c).map _).nodup h

end Icinga.C17

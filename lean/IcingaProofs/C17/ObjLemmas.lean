/-
  C17 — helper lemmas for the create/delete state machine.
-/
import IcingaModel.C17.Objects

namespace Icinga.C17

theorem rmFile_fresh (p : Str) (fs : List Str) (h : p ∉ fs) : rmFile p fs = fs := by
  unfold rmFile
  rw [List.filter_eq_self]
  intro a ha
  have : a ≠ p := fun e => h (e ▸ ha)
  simpa using this

theorem filter_ne_fresh (k : Key) (ks : List Key) (h : k ∉ ks) : ks.filter (· ≠ k) = ks := by
  rw [List.filter_eq_self]
  intro a ha
  have : a ≠ k := fun e => h (e ▸ ha)
  simpa using this

theorem removeObj_keys_sublist (st : St) (o : Obj) : (removeObj st o).keys.Sublist st.keys := by
  simp only [removeObj, St.keys]
  exact List.Sublist.map _ List.filter_sublist

theorem deactivateObj_keys (st : St) (o : Obj) : (deactivateObj st o).keys = st.keys := by
  simp only [deactivateObj, St.keys, List.map_map]
  apply List.map_congr_left
  intro x _
  simp only [Function.comp]
  split <;> rfl

theorem finishDelete_keys_sublist (st : St) (o : Obj) (thr : Option Key) :
    (finishDelete st o thr).1.keys.Sublist st.keys := by
  unfold finishDelete
  split
  · rw [deactivateObj_keys]; exact List.Sublist.refl _
  · exact removeObj_keys_sublist st o

theorem deleteChildren_sublist (rec : St → Obj → St × Bool) (hrec : ∀ s co, (rec s co).1.keys.Sublist s.keys) :
    ∀ (cs : List Key) (s : St), (deleteChildren rec cs s).1.keys.Sublist s.keys := by
  intro cs
  induction cs with
  | nil => intro s; exact List.Sublist.refl _
  | cons c cs ih =>
    intro s
    simp only [deleteChildren]
    split
    · split
      · exact (ih _).trans (hrec _ _)
      · exact hrec _ _
    · exact ih s

theorem deleteHelper_sublist : ∀ (f : Nat) (st : St) (o : Obj) (c : Bool) (busy : List Key) (thr : Option Key),
    (deleteHelper f st o c busy thr).1.keys.Sublist st.keys := by
  intro f
  induction f with
  | zero =>
    intro st o c busy thr
    simp only [deleteHelper]
    split
    · exact List.Sublist.refl _
    · exact finishDelete_keys_sublist st o thr
  | succ f ih =>
    intro st o c busy thr
    simp only [deleteHelper]
    split
    · exact List.Sublist.refl _
    · split
      · exact List.Sublist.refl _
      · have hch := deleteChildren_sublist (fun s co => deleteHelper f s co c (o.key :: busy) thr)
          (fun s co => ih s co c _ thr) (children st o.key) st
        split
        · exact (finishDelete_keys_sublist _ o thr).trans hch
        · exact hch

theorem deleteObject_sublist (st : St) (k : Key) (c : Bool) (thr : Option Key) :
    (deleteObject st k c thr).1.keys.Sublist st.keys := by
  unfold deleteObject
  split
  · exact List.Sublist.refl _
  · split
    · exact List.Sublist.refl _
    · exact deleteHelper_sublist _ _ _ _ _ _

theorem has_false_iff (st : St) (k : Key) : st.has k = false ↔ k ∉ st.keys := by
  simp [St.has, St.keys]

theorem nodupK_nodup : ∀ l : List Key, nodupK l = true → l.Nodup
  | [], _ => List.nodup_nil
  | k :: r, h => by
    simp [nodupK] at h
    exact List.nodup_cons.mpr ⟨h.1, nodupK_nodup r h.2⟩

theorem createObject_keys (st : St) (k : Key) (p : Str) (ps : List Key) (f : Fault) (api : Bool) (g : List Key) :
    (createObject st k p ps f api g).1.keys = st.keys ∨
      (st.has k = false ∧ genOk st k g = true ∧ (createObject st k p ps f api g).1.keys = k :: (g ++ st.keys)) ∨
      (st.has k = false ∧ (createObject st k p ps f api g).1.keys = k :: st.keys) := by
  unfold createObject
  by_cases hk : st.has k = true
  · simp [hk]
  · have hk' : st.has k = false := by simpa using hk
    by_cases hg : genOk st k g = true
    · cases f <;> simp [hk', hg, St.keys, List.map_map, Function.comp_def, Fault.leftInHostMap]
    · have hg' : genOk st k g = false := by simpa using hg
      cases f <;> simp [hk', hg', St.keys]

theorem step_nodup (st : St) (op : Op) (h : st.keys.Nodup) : (step st op).keys.Nodup := by
  cases op with
  | create k p ps f a g =>
    rcases createObject_keys st k p ps f a g with e | ⟨hk, hg, e⟩ | ⟨hk, e⟩
    · simpa [step, e] using h
    · simp only [step, e]
      have hkn : k ∉ st.keys := (has_false_iff st k).mp hk
      simp only [genOk, Bool.and_eq_true, List.all_eq_true] at hg
      have hgn : g.Nodup := nodupK_nodup g hg.2
      have hfresh : ∀ x ∈ g, x ∉ st.keys ∧ x ≠ k := by
        intro x hx
        have := hg.1 x hx
        simp at this
        exact ⟨(has_false_iff st x).mp this.1, this.2⟩
      refine List.nodup_cons.mpr ⟨?_, ?_⟩
      · intro hmem
        rcases List.mem_append.mp hmem with hm | hm
        · exact (hfresh k hm).2 rfl
        · exact hkn hm
      · refine List.nodup_append.mpr ⟨hgn, h, ?_⟩
        intro a ha b hb hab
        subst hab
        exact (hfresh a ha).1 hb
    · simp only [step, e]
      exact List.nodup_cons.mpr ⟨(has_false_iff st k).mp hk, h⟩
  | delete k c t =>
    simp only [step]
    exact (deleteObject_sublist st k c t).nodup h

end Icinga.C17

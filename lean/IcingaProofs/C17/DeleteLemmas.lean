/-
  C17 — helper lemmas for the cascade of `DeleteObjectHelper`: a delete only ever removes (objects, items,
  files), the object a helper call is made for is gone afterwards, every child visited by the loop is gone
  after the loop.
-/
import IcingaProofs.C17.ObjLemmas

namespace Icinga.C17

/-- `r` arose from `s` by removals only. -/
structure Shrunk (r s : St) : Prop where
  objs : r.objs.Sublist s.objs
  items : r.items.Sublist s.items
  files : r.files.Sublist s.files

theorem Shrunk.refl (s : St) : Shrunk s s := ⟨List.Sublist.refl _, List.Sublist.refl _, List.Sublist.refl _⟩

theorem Shrunk.trans {a b c : St} (h1 : Shrunk a b) (h2 : Shrunk b c) : Shrunk a c :=
  ⟨h1.objs.trans h2.objs, h1.items.trans h2.items, h1.files.trans h2.files⟩

theorem removeObj_shrunk (st : St) (o : Obj) : Shrunk (removeObj st o) st := by
  refine ⟨by simp [removeObj], by simp [removeObj], ?_⟩
  simp only [removeObj]
  split
  · simp [rmFile]
  · exact List.Sublist.refl _

theorem deleteChild_shrunk (rec : St → Obj → St) (hrec : ∀ s co, Shrunk (rec s co) s) (s : St) (c : Key) :
    Shrunk (deleteChild rec s c) s := by
  unfold deleteChild
  split
  · exact hrec _ _
  · exact Shrunk.refl _

theorem foldl_shrunk (g : St → Key → St) (hg : ∀ s c, Shrunk (g s c) s) (cs : List Key) :
    ∀ st : St, Shrunk (cs.foldl g st) st := by
  induction cs with
  | nil => intro st; exact Shrunk.refl _
  | cons c cs ih => intro st; exact (ih (g st c)).trans (hg st c)

theorem deleteHelper_shrunk : ∀ (f : Nat) (st : St) (o : Obj) (c : Bool) (busy : List Key),
    Shrunk (deleteHelper f st o c busy).1 st := by
  intro f
  induction f with
  | zero => intro st o c busy; exact removeObj_shrunk st o
  | succ f ih =>
    intro st o c busy
    simp only [deleteHelper]
    split
    · exact Shrunk.refl _
    · split
      · exact Shrunk.refl _
      · refine (removeObj_shrunk _ o).trans ?_
        exact foldl_shrunk _ (fun s k => deleteChild_shrunk _ (fun s co => ih s co c _) s k) _ st

theorem deleteObject_shrunk (st : St) (k : Key) (c : Bool) : Shrunk (deleteObject st k c).1 st := by
  unfold deleteObject
  split
  · exact Shrunk.refl _
  · split
    · exact Shrunk.refl _
    · exact deleteHelper_shrunk _ _ _ _ _

/-- what is absent stays absent -/
theorem Shrunk.has_false {r s : St} (h : Shrunk r s) (k : Key) (hk : s.has k = false) : r.has k = false := by
  rw [has_false_iff] at hk ⊢
  intro hm
  apply hk
  simp only [St.keys, List.mem_map] at hm ⊢
  obtain ⟨x, hx, e⟩ := hm
  exact ⟨x, h.objs.subset hx, e⟩

theorem removeObj_has_false (st : St) (o : Obj) : (removeObj st o).has o.key = false := by
  simp [removeObj, St.has]

/-- a cascading helper call for an object whose deletion is not already under way removes that object -/
theorem deleteHelper_removes (f : Nat) (st : St) (o : Obj) (busy : List Key) (hb : o.key ∉ busy) :
    (deleteHelper f st o true busy).1.has o.key = false := by
  cases f with
  | zero => exact removeObj_has_false st o
  | succ f =>
    have hb' : busy.contains o.key = false := by simpa using hb
    simp only [deleteHelper, Bool.not_true, Bool.and_false, Bool.false_eq_true, if_false, hb']
    exact removeObj_has_false _ o

theorem find_key (st : St) (k : Key) (o : Obj) (h : st.find k = some o) : o.key = k := by
  have := List.find?_some h
  simpa using this

theorem find_none_has (st : St) (k : Key) (h : st.find k = none) : st.has k = false := by
  simp only [St.find, List.find?_eq_none] at h
  simp only [St.has, List.any_eq_false]
  intro x hx
  simpa using h x hx

/-- the loop over the dependents (cascading): every one of them other than the objects whose deletion is
    under way is gone after the loop -/
theorem foldl_children_removed (f : Nat) (busy : List Key) (cs : List Key) :
    ∀ (st : St) (c : Key), c ∈ cs → c ∉ busy →
      (cs.foldl (deleteChild (fun s co => (deleteHelper f s co true busy).1)) st).has c = false := by
  induction cs with
  | nil => intro st c hc; cases hc
  | cons a cs ih =>
    intro st c hc hb
    simp only [List.foldl_cons]
    by_cases hin : c ∈ cs
    · exact ih _ c hin hb
    · have hca : c = a := by
        rcases List.mem_cons.mp hc with h | h
        · exact h
        · exact absurd h hin
      subst hca
      have hrest := foldl_shrunk (deleteChild (fun s co => (deleteHelper f s co true busy).1))
        (fun s k => deleteChild_shrunk _ (fun s co => deleteHelper_shrunk f s co true busy) s k) cs
        (deleteChild (fun s co => (deleteHelper f s co true busy).1) st c)
      apply hrest.has_false
      unfold deleteChild
      split
      · rename_i co hfind
        have hk := find_key st c co hfind
        have := deleteHelper_removes f st co busy (by rw [hk]; exact hb)
        rw [hk] at this
        exact this
      · rename_i hfind
        exact find_none_has st c hfind

end Icinga.C17

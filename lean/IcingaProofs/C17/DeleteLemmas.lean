/-
  C17 — helper lemmas for the cascade of `DeleteObjectHelper`: a delete only ever removes (objects, items,
  files), the object a helper call is made for is gone afterwards, every child visited by the loop is gone
  after the loop.
-/
import IcingaProofs.C17.ObjLemmas

namespace Icinga.C17

/-- `x` is `y`, or `y` merely deactivated. -/
def SameOrDeactivated (x y : Obj) : Prop := x = y ∨ x = { y with active := false }

/-- `r` arose from `s` by removals only (and, when a deletion was aborted, by deactivating objects). -/
structure Shrunk (r s : St) : Prop where
  keys : r.keys.Sublist s.keys
  objs : ∀ x ∈ r.objs, ∃ y ∈ s.objs, SameOrDeactivated x y
  items : r.items.Sublist s.items
  files : r.files.Sublist s.files

theorem Shrunk.refl (s : St) : Shrunk s s :=
  ⟨List.Sublist.refl _, fun x hx => ⟨x, hx, Or.inl rfl⟩, List.Sublist.refl _, List.Sublist.refl _⟩

theorem Shrunk.trans {a b c : St} (h1 : Shrunk a b) (h2 : Shrunk b c) : Shrunk a c := by
  refine ⟨h1.keys.trans h2.keys, ?_, h1.items.trans h2.items, h1.files.trans h2.files⟩
  intro x hx
  obtain ⟨y, hy, hxy⟩ := h1.objs x hx
  obtain ⟨z, hz, hyz⟩ := h2.objs y hy
  refine ⟨z, hz, ?_⟩
  rcases hxy with e | e <;> rcases hyz with e' | e' <;> subst e <;> subst e'
  · exact Or.inl rfl
  · exact Or.inr rfl
  · exact Or.inr rfl
  · exact Or.inr rfl

theorem removeObj_shrunk (st : St) (o : Obj) : Shrunk (removeObj st o) st := by
  refine ⟨removeObj_keys_sublist st o, ?_, by simp [removeObj], ?_⟩
  · intro x hx
    simp only [removeObj, List.mem_filter] at hx
    exact ⟨x, hx.1, Or.inl rfl⟩
  · simp only [removeObj]
    split
    · simp [rmFile]
    · exact List.Sublist.refl _

theorem deactivateObj_shrunk (st : St) (o : Obj) : Shrunk (deactivateObj st o) st := by
  refine ⟨by rw [deactivateObj_keys]; exact List.Sublist.refl _, ?_, List.Sublist.refl _, List.Sublist.refl _⟩
  intro x hx
  simp only [deactivateObj, List.mem_map] at hx
  obtain ⟨y, hy, e⟩ := hx
  refine ⟨y, hy, ?_⟩
  split at e
  · exact Or.inr e.symm
  · exact Or.inl e.symm

theorem finishDelete_shrunk (st : St) (o : Obj) (thr : Option Key) : Shrunk (finishDelete st o thr).1 st := by
  unfold finishDelete
  split
  · exact deactivateObj_shrunk st o
  · exact removeObj_shrunk st o

theorem deleteChild_shrunk (rec : St → Obj → St) (hrec : ∀ s co, Shrunk (rec s co) s) (s : St) (c : Key) :
    Shrunk (deleteChild rec s c) s := by
  unfold deleteChild
  split
  · exact hrec _ _
  · exact Shrunk.refl _

theorem foldl_shrunk (g : St → Key → St) (hg : ∀ s c, Shrunk (g s c) s) (cs : List Key) :
    ∀ st : St, Shrunk (cs.foldl g st) st := by
  induction cs with
  | nil => intro st; exact Shrunk.refl _
  | cons c cs ih => intro st; exact (ih (g st c)).trans (hg st c)

theorem deleteHelper_shrunk : ∀ (f : Nat) (st : St) (o : Obj) (c : Bool) (busy : List Key) (thr : Option Key),
    Shrunk (deleteHelper f st o c busy thr).1 st := by
  intro f
  induction f with
  | zero => intro st o c busy thr; exact finishDelete_shrunk st o thr
  | succ f ih =>
    intro st o c busy thr
    simp only [deleteHelper]
    split
    · exact Shrunk.refl _
    · split
      · exact Shrunk.refl _
      · refine (finishDelete_shrunk _ o thr).trans ?_
        exact foldl_shrunk _ (fun s k => deleteChild_shrunk _ (fun s co => ih s co c _ thr) s k) _ st

theorem deleteObject_shrunk (st : St) (k : Key) (c : Bool) (thr : Option Key := none) :
    Shrunk (deleteObject st k c thr).1 st := by
  unfold deleteObject
  split
  · exact Shrunk.refl _
  · split
    · exact Shrunk.refl _
    · exact deleteHelper_shrunk _ _ _ _ _ _

/-- what is absent stays absent -/
theorem Shrunk.has_false {r s : St} (h : Shrunk r s) (k : Key) (hk : s.has k = false) : r.has k = false := by
  rw [has_false_iff] at hk ⊢
  exact fun hm => hk (h.keys.subset hm)

theorem removeObj_has_false (st : St) (o : Obj) : (removeObj st o).has o.key = false := by
  simp [removeObj, St.has]

/-- the fault does not concern this object: the tail of the helper removes it -/
theorem finishDelete_removes (st : St) (o : Obj) (thr : Option Key) (ht : thr ≠ some o.key) :
    (finishDelete st o thr).1.has o.key = false ∧ (finishDelete st o thr).2 = true := by
  have : (thr = some o.key) = False := by simpa using ht
  simp only [finishDelete, this, decide_false, Bool.false_and, Bool.false_eq_true, if_false]
  exact ⟨removeObj_has_false st o, trivial⟩

/-- a cascading helper call for an object whose deletion is not already under way, and whose deactivation is not
    the one that fails, removes that object — whatever happens to its dependents -/
theorem deleteHelper_removes (f : Nat) (st : St) (o : Obj) (busy : List Key) (thr : Option Key)
    (hb : o.key ∉ busy) (ht : thr ≠ some o.key) :
    (deleteHelper f st o true busy thr).1.has o.key = false := by
  cases f with
  | zero => exact (finishDelete_removes st o thr ht).1
  | succ f =>
    have hb' : busy.contains o.key = false := by simpa using hb
    simp only [deleteHelper, Bool.not_true, Bool.and_false, Bool.false_eq_true, if_false, hb']
    exact (finishDelete_removes _ o thr ht).1

theorem find_key (st : St) (k : Key) (o : Obj) (h : st.find k = some o) : o.key = k := by
  have := List.find?_some h
  simpa using this

theorem find_none_has (st : St) (k : Key) (h : st.find k = none) : st.has k = false := by
  simp only [St.find, List.find?_eq_none] at h
  simp only [St.has, List.any_eq_false]
  intro x hx
  simpa using h x hx

/-- the loop over the dependents (cascading): every one of them other than the objects whose deletion is
    under way, and other than the one whose deactivation fails, is gone after the loop -/
theorem foldl_children_removed (f : Nat) (busy : List Key) (thr : Option Key) (cs : List Key) :
    ∀ (st : St) (c : Key), c ∈ cs → c ∉ busy → thr ≠ some c →
      (cs.foldl (deleteChild (fun s co => (deleteHelper f s co true busy thr).1)) st).has c = false := by
  induction cs with
  | nil => intro st c hc; cases hc
  | cons a cs ih =>
    intro st c hc hb ht
    simp only [List.foldl_cons]
    by_cases hin : c ∈ cs
    · exact ih _ c hin hb ht
    · have hca : c = a := by
        rcases List.mem_cons.mp hc with h | h
        · exact h
        · exact absurd h hin
      subst hca
      have hrest := foldl_shrunk (deleteChild (fun s co => (deleteHelper f s co true busy thr).1))
        (fun s k => deleteChild_shrunk _ (fun s co => deleteHelper_shrunk f s co true busy thr) s k) cs
        (deleteChild (fun s co => (deleteHelper f s co true busy thr).1) st c)
      apply hrest.has_false
      unfold deleteChild
      split
      · rename_i co hfind
        have hk := find_key st c co hfind
        have := deleteHelper_removes f st co busy thr (by rw [hk]; exact hb) (by rw [hk]; exact ht)
        rw [hk] at this
        exact this
      · rename_i hfind
        exact find_none_has st c hfind

theorem deactivateObj_find (st : St) (k : Key) (o : Obj) (ho : st.find k = some o) :
    (deactivateObj st o).find k = some { o with active := false } := by
  have hkey : o.key = k := find_key st k o ho
  unfold St.find at ho ⊢
  simp only [deactivateObj]
  generalize st.objs = l at ho
  induction l with
  | nil => cases ho
  | cons x r ih =>
    simp only [List.map_cons, List.find?_cons] at ho ⊢
    by_cases hx : x.key = k
    · simp only [hx, decide_true] at ho
      cases ho
      simp [hkey]
    · have hxo : ¬ x.key = o.key := by rw [hkey]; exact hx
      simp only [hx, decide_false] at ho
      simp only [hxo, if_false, hx, decide_false]
      exact ih ho

theorem deactivateObj_children (st : St) (o : Obj) (k : Key) (h : children st k = []) :
    children (deactivateObj st o) k = [] := by
  unfold children at h ⊢
  rw [List.filter_eq_nil_iff] at h ⊢
  intro c hc
  simp only [List.mem_map, List.mem_filter] at hc
  obtain ⟨e, ⟨he, hek⟩, rfl⟩ := hc
  have hmem : e ∈ st.deps := by
    simp only [deactivateObj, List.mem_filter] at he
    exact he.1
  have := h e.1 (by
    simp only [List.mem_map, List.mem_filter]
    exact ⟨e, ⟨hmem, hek⟩, rfl⟩)
  have hf : st.has e.1 = false := by simpa using this
  have : (deactivateObj st o).has e.1 = false := by
    rw [has_false_iff, deactivateObj_keys, ← has_false_iff]; exact hf
  simp [this]

end Icinga.C17

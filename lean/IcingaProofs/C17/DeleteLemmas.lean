/-
  C17 — helper lemmas for the cascade of `DeleteObjectHelper`: a delete only ever removes (objects, items,
  files), the object a helper call is made for is gone afterwards, every child visited by the loop is gone
  after the loop.
-/
import IcingaProofs.C17.ObjLemmas

namespace Icinga.C17

/-- `x` is `y`, or `y` merely deactivated. -/
def SameOrDeactivated (x y : Obj) : Prop := x = y ∨ x = { y with active := false }

/-- `r` arose from `s` by removals only (and, when a deletion was aborted, by deactivating objects). -/
structure Shrunk (r s : St) : Prop where
  keys : r.keys.Sublist s.keys
  objs : ∀ x ∈ r.objs, ∃ y ∈ s.objs, SameOrDeactivated x y
  items : r.items.Sublist s.items
  files : r.files.Sublist s.files

theorem Shrunk.refl (s : St) : Shrunk s s :=
  ⟨List.Sublist.refl _, fun x hx => ⟨x, hx, Or.inl rfl⟩, List.Sublist.refl _, List.Sublist.refl _⟩

theorem Shrunk.trans {a b c : St} (h1 : Shrunk a b) (h2 : Shrunk b c) : Shrunk a c := by
  refine ⟨h1.keys.trans h2.keys, ?_, h1.items.trans h2.items, h1.files.trans h2.files⟩
  intro x hx
  obtain ⟨y, hy, hxy⟩ := h1.objs x hx
  obtain ⟨z, hz, hyz⟩ := h2.objs y hy
  refine ⟨z, hz, ?_⟩
  rcases hxy with e | e <;> rcases hyz with e' | e' <;> subst e <;> subst e'
  · exact Or.inl rfl
  · exact Or.inr rfl
  · exact Or.inr rfl
  · exact Or.inr rfl

theorem removeObj_shrunk (st : St) (o : Obj) : Shrunk (removeObj st o) st := by
  refine ⟨removeObj_keys_sublist st o, ?_, by simp [removeObj], ?_⟩
  · intro x hx
    simp only [removeObj, List.mem_filter] at hx
    exact ⟨x, hx.1, Or.inl rfl⟩
  · simp only [removeObj]
    split
    · simp [rmFile]
    · exact List.Sublist.refl _

theorem deactivateObj_shrunk (st : St) (o : Obj) : Shrunk (deactivateObj st o) st := by
  refine ⟨by rw [deactivateObj_keys]; exact List.Sublist.refl _, ?_, List.Sublist.refl _, List.Sublist.refl _⟩
  intro x hx
  simp only [deactivateObj, List.mem_map] at hx
  obtain ⟨y, hy, e⟩ := hx
  refine ⟨y, hy, ?_⟩
  split at e
  · exact Or.inr e.symm
  · exact Or.inl e.symm

theorem finishDelete_shrunk (st : St) (o : Obj) (thr : Option Key) : Shrunk (finishDelete st o thr).1 st := by
  unfold finishDelete
  split
  · exact deactivateObj_shrunk st o
  · exact removeObj_shrunk st o

theorem deleteChildren_shrunk (rec : St → Obj → St × Bool) (hrec : ∀ s co, Shrunk (rec s co).1 s) :
    ∀ (cs : List Key) (s : St), Shrunk (deleteChildren rec cs s).1 s := by
  intro cs
  induction cs with
  | nil => intro s; exact Shrunk.refl _
  | cons c cs ih =>
    intro s
    simp only [deleteChildren]
    split
    · split
      · exact (ih _).trans (hrec _ _)
      · exact hrec _ _
    · exact ih s

theorem deleteHelper_shrunk : ∀ (f : Nat) (st : St) (o : Obj) (c : Bool) (busy : List Key) (thr : Option Key),
    Shrunk (deleteHelper f st o c busy thr).1 st := by
  intro f
  induction f with
  | zero =>
    intro st o c busy thr
    simp only [deleteHelper]
    split
    · exact Shrunk.refl _
    · exact finishDelete_shrunk st o thr
  | succ f ih =>
    intro st o c busy thr
    simp only [deleteHelper]
    split
    · exact Shrunk.refl _
    · split
      · exact Shrunk.refl _
      · have hch := deleteChildren_shrunk (fun s co => deleteHelper f s co c (o.key :: busy) thr)
          (fun s co => ih s co c _ thr) (children st o.key) st
        split
        · exact (finishDelete_shrunk _ o thr).trans hch
        · exact hch

theorem deleteObject_shrunk (st : St) (k : Key) (c : Bool) (thr : Option Key := none) :
    Shrunk (deleteObject st k c thr).1 st := by
  unfold deleteObject
  split
  · exact Shrunk.refl _
  · split
    · exact Shrunk.refl _
    · exact deleteHelper_shrunk _ _ _ _ _ _

/-- what is absent stays absent -/
theorem Shrunk.has_false {r s : St} (h : Shrunk r s) (k : Key) (hk : s.has k = false) : r.has k = false := by
  rw [has_false_iff] at hk ⊢
  exact fun hm => hk (h.keys.subset hm)

theorem removeObj_has_false (st : St) (o : Obj) : (removeObj st o).has o.key = false := by
  simp [removeObj, St.has]

/-- a tail of the helper that reports success has removed the object -/
theorem finishDelete_ok_removes (st : St) (o : Obj) (thr : Option Key) (h : (finishDelete st o thr).2 = true) :
    (finishDelete st o thr).1.has o.key = false := by
  unfold finishDelete at h ⊢
  split
  · rename_i ht; simp [ht] at h
  · exact removeObj_has_false st o

/-- a helper call that reports success, made for an object whose deletion is not already under way, has removed
    that object — whatever the graph and whatever deactivation fails -/
theorem deleteHelper_ok_removes (f : Nat) (st : St) (o : Obj) (c : Bool) (busy : List Key) (thr : Option Key)
    (hb : o.key ∉ busy) (hok : (deleteHelper f st o c busy thr).2 = true) :
    (deleteHelper f st o c busy thr).1.has o.key = false := by
  have hb' : busy.contains o.key = false := by simpa using hb
  cases f with
  | zero =>
    simp only [deleteHelper, hb', Bool.false_eq_true, if_false] at hok ⊢
    exact finishDelete_ok_removes st o thr hok
  | succ f =>
    simp only [deleteHelper, hb', Bool.false_eq_true, if_false] at hok ⊢
    split at hok
    · cases hok
    · rename_i h1
      simp only [h1] at hok ⊢
      split at hok
      · rename_i h2
        simp only [h2, if_true] at hok ⊢
        exact finishDelete_ok_removes _ o thr hok
      · cases hok

theorem find_key (st : St) (k : Key) (o : Obj) (h : st.find k = some o) : o.key = k := by
  have := List.find?_some h
  simpa using this

theorem find_none_has (st : St) (k : Key) (h : st.find k = none) : st.has k = false := by
  simp only [St.find, List.find?_eq_none] at h
  simp only [St.has, List.any_eq_false]
  intro x hx
  simpa using h x hx

/-- the loop over the dependents: if it reports success, every one of them other than the objects whose deletion
    is under way is gone after the loop -/
theorem deleteChildren_removed (f : Nat) (cas : Bool) (busy : List Key) (thr : Option Key) (cs : List Key) :
    ∀ (st : St) (c : Key), c ∈ cs → c ∉ busy →
      (deleteChildren (fun s co => deleteHelper f s co cas busy thr) cs st).2 = true →
      (deleteChildren (fun s co => deleteHelper f s co cas busy thr) cs st).1.has c = false := by
  induction cs with
  | nil => intro st c hc; cases hc
  | cons a cs ih =>
    intro st c hc hb hok
    simp only [deleteChildren] at hok ⊢
    split at hok
    · rename_i co hfind
      try simp only [hfind]
      split at hok
      · rename_i hr
        simp only [hr, if_true]
        by_cases hin : c ∈ cs
        · exact ih _ c hin hb hok
        · have hca : c = a := by
            rcases List.mem_cons.mp hc with h | h
            · exact h
            · exact absurd h hin
          subst hca
          apply (deleteChildren_shrunk _ (fun s co => deleteHelper_shrunk f s co cas busy thr) cs _).has_false
          have hk := find_key st c co hfind
          have := deleteHelper_ok_removes f st co cas busy thr (by rw [hk]; exact hb) hr
          rwa [hk] at this
      · cases hok
    · rename_i hfind
      try simp only [hfind]
      by_cases hin : c ∈ cs
      · exact ih _ c hin hb hok
      · have hca : c = a := by
          rcases List.mem_cons.mp hc with h | h
          · exact h
          · exact absurd h hin
        subst hca
        exact (deleteChildren_shrunk _ (fun s co => deleteHelper_shrunk f s co cas busy thr) cs _).has_false c
          (find_none_has st c hfind)

theorem deleteChildren_all_ok (rec : St → Obj → St × Bool) (hrec : ∀ s co, (rec s co).2 = true) :
    ∀ (cs : List Key) (s : St), (deleteChildren rec cs s).2 = true := by
  intro cs
  induction cs with
  | nil => intro s; rfl
  | cons c cs ih =>
    intro s
    simp only [deleteChildren]
    split
    · simp only [hrec, if_true]; exact ih _
    · exact ih s

/-- without a fault a cascading helper call always reports success -/
theorem deleteHelper_nofault_ok : ∀ (f : Nat) (st : St) (o : Obj) (busy : List Key),
    (deleteHelper f st o true busy none).2 = true := by
  intro f
  induction f with
  | zero => intro st o busy; simp only [deleteHelper, finishDelete]; split <;> simp
  | succ f ih =>
    intro st o busy
    simp only [deleteHelper, Bool.not_true, Bool.and_false, Bool.false_eq_true, if_false]
    split
    · rfl
    · rw [deleteChildren_all_ok _ (fun s co => ih s co _)]
      simp [finishDelete]

theorem deactivateObj_find (st : St) (k : Key) (o : Obj) (ho : st.find k = some o) :
    (deactivateObj st o).find k = some { o with active := false } := by
  have hkey : o.key = k := find_key st k o ho
  unfold St.find at ho ⊢
  simp only [deactivateObj]
  generalize st.objs = l at ho
  induction l with
  | nil => cases ho
  | cons x r ih =>
    simp only [List.map_cons, List.find?_cons] at ho ⊢
    by_cases hx : x.key = k
    · simp only [hx, decide_true] at ho
      cases ho
      simp [hkey]
    · have hxo : ¬ x.key = o.key := by rw [hkey]; exact hx
      simp only [hx, decide_false] at ho
      simp only [hxo, if_false, hx, decide_false]
      exact ih ho

theorem deactivateObj_children (st : St) (o : Obj) (k : Key) (h : children st k = []) :
    children (deactivateObj st o) k = [] := by
  unfold children at h ⊢
  rw [List.filter_eq_nil_iff] at h ⊢
  intro c hc
  simp only [List.mem_map, List.mem_filter] at hc
  obtain ⟨e, ⟨he, hek⟩, rfl⟩ := hc
  have hmem : e ∈ st.deps := by
    simp only [deactivateObj, List.mem_filter] at he
    exact he.1
  have := h e.1 (by
    simp only [List.mem_map, List.mem_filter]
    exact ⟨e, ⟨hmem, hek⟩, rfl⟩)
  have hf : st.has e.1 = false := by simpa using this
  have : (deactivateObj st o).has e.1 = false := by
    rw [has_false_iff, deactivateObj_keys, ← has_false_iff]; exact hf
  simp [this]

end Icinga.C17

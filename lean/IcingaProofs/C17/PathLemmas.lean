/-
  C17 — helper lemmas for the path of a runtime object's file: `EscapeName` can be undone
  (`Utility::UnescapeString`), so it is injective; what it writes contains no `/`.
-/
import IcingaModel.C17.Model

namespace Icinga.C17

/-- the ten characters `EscapeName` replaces -/
theorem nameSpecial_cases (c : Char) (h : nameSpecial c = true) :
    c = '<' ∨ c = '>' ∨ c = ':' ∨ c = '"' ∨ c = '/' ∨ c = '\\' ∨ c = '|' ∨ c = '?' ∨ c = '*' ∨ c = '%' := by
  have : ((((((((c = '<' ∨ c = '>') ∨ c = ':') ∨ c = '"') ∨ c = '/') ∨ c = '\\') ∨ c = '|') ∨ c = '?') ∨ c = '*') ∨ c = '%' := by
    simpa [nameSpecial] using h
  rcases this with ((((((((e | e) | e) | e) | e) | e) | e) | e) | e) | e <;> simp [e]

theorem unescape_escNameChar_special (c : Char) (h : nameSpecial c = true) (r : Str) :
    unescapeName (escNameChar c ++ r) = c :: unescapeName r := by
  rcases nameSpecial_cases c h with e | e | e | e | e | e | e | e | e | e <;> subst e <;>
    simp [escNameChar, nameSpecial, unescapeName, hexUpper, hexValUpper, isDigit] <;> decide

theorem unescapeName_cons_plain (c : Char) (t : Str) (h : c ≠ '%') : unescapeName (c :: t) = c :: unescapeName t := by
  match t with
  | [] => simp [unescapeName]
  | [d] => simp [unescapeName]
  | x :: y :: r => simp [unescapeName, h]

theorem unescape_escapeName : ∀ s : Str, unescapeName (escapeName s) = s
  | [] => by simp [escapeName, unescapeName]
  | c :: r => by
    simp only [escapeName]
    by_cases h : nameSpecial c = true
    · rw [unescape_escNameChar_special c h, unescape_escapeName r]
    · have hp : c ≠ '%' := by
        intro e; subst e; exact h (by decide)
      have : escNameChar c = [c] := by simp [escNameChar, h]
      rw [this, List.singleton_append, unescapeName_cons_plain c _ hp, unescape_escapeName r]

theorem hexUpper_ne_slash : ∀ n, n < 16 → hexUpper n ≠ '/' := by decide

theorem escNameChar_no_slash (c : Char) : '/' ∉ escNameChar c := by
  unfold escNameChar
  by_cases h : nameSpecial c = true
  · simp only [h, if_true, List.mem_cons, List.not_mem_nil, or_false, not_or]
    refine ⟨by decide, ?_, ?_⟩
    · exact fun e => hexUpper_ne_slash _ (Nat.mod_lt _ (by decide)) e.symm
    · exact fun e => hexUpper_ne_slash _ (Nat.mod_lt _ (by decide)) e.symm
  · have hf : nameSpecial c = false := by simpa using h
    simp only [hf, Bool.false_eq_true, if_false, List.mem_singleton]
    intro e
    subst e
    exact h (by decide)

theorem escapeName_no_slash : ∀ s : Str, '/' ∉ escapeName s
  | [] => by simp [escapeName]
  | c :: r => by
    simp only [escapeName, List.mem_append, not_or]
    exact ⟨escNameChar_no_slash c, escapeName_no_slash r⟩

end Icinga.C17

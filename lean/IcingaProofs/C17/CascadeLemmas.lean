/-
  C17 — a delete removes only the object and what depends on it: the relation `DependsOn` (reflexive-transitive
  closure of the dependency edges) and the induction over the recursion of `DeleteObjectHelper`.
-/
import IcingaProofs.C17.InvLemmas
namespace Icinga.C17

/-- `x` is `k`, or depends on it directly or through other objects, along the edges (dependent, object) of `deps` -/
inductive DependsOn (deps : List (Key × Key)) : Key → Key → Prop
  | refl (k : Key) : DependsOn deps k k
  | step {x c k : Key} : DependsOn deps x c → (c, k) ∈ deps → DependsOn deps x k

theorem DependsOn.mono {d1 d2 : List (Key × Key)} (h : ∀ e ∈ d1, e ∈ d2) {x k : Key} (hd : DependsOn d1 x k) :
    DependsOn d2 x k := by
  induction hd with
  | refl => exact DependsOn.refl _
  | step _ he ih => exact DependsOn.step ih (h _ he)

theorem children_edge (st : St) (k c : Key) (h : c ∈ children st k) : (c, k) ∈ st.deps := by
  simp only [children, List.mem_filter, List.mem_map] at h
  obtain ⟨⟨e, ⟨he, hek⟩, rfl⟩, _⟩ := h
  have : e.2 = k := by simpa using hek
  rw [← this]
  exact he

theorem removeObj_deps (s : St) (o : Obj) : ∀ e ∈ (removeObj s o).deps, e ∈ s.deps := by
  intro e he
  simp only [removeObj, List.mem_filter] at he
  exact he.1

theorem deactivateObj_deps (s : St) (o : Obj) : ∀ e ∈ (deactivateObj s o).deps, e ∈ s.deps := by
  intro e he
  simp only [deactivateObj, List.mem_filter] at he
  exact he.1

theorem deleteHelper_deps (f : Nat) (st : St) (o : Obj) (c : Bool) (busy : List Key) (thr : Option Key) :
    ∀ e ∈ (deleteHelper f st o c busy thr).1.deps, e ∈ st.deps :=
  deleteHelper_preserves (fun s => ∀ e ∈ s.deps, e ∈ st.deps)
    (fun s o h e he => h e (removeObj_deps s o e he)) (fun s o h e he => h e (deactivateObj_deps s o e he))
    f st o c busy thr (fun _ he => he)

/-- the tail of the helper removes at most the object itself -/
theorem finishDelete_gone (s : St) (o : Obj) (thr : Option Key) (x : Key) (hx : x ∈ s.keys)
    (hg : x ∉ (finishDelete s o thr).1.keys) : x = o.key := by
  unfold finishDelete at hg
  split at hg
  · rw [deactivateObj_keys] at hg; exact absurd hx hg
  · by_cases hxo : x = o.key
    · exact hxo
    · exfalso
      apply hg
      simp only [St.keys, List.mem_map] at hx ⊢
      obtain ⟨a, ha, rfl⟩ := hx
      refine ⟨a, ?_, rfl⟩
      simp only [removeObj, List.mem_filter]
      exact ⟨ha, by simpa using hxo⟩

theorem deleteChildren_only_dependents (rec : St → Obj → St × Bool)
    (hdeps : ∀ s co, ∀ e ∈ (rec s co).1.deps, e ∈ s.deps)
    (hg : ∀ s co x, x ∈ s.keys → x ∉ (rec s co).1.keys → DependsOn s.deps x co.key) (cs : List Key) :
    ∀ (st : St) (x : Key), x ∈ st.keys → x ∉ (deleteChildren rec cs st).1.keys → ∃ c ∈ cs, DependsOn st.deps x c := by
  induction cs with
  | nil => intro st x hx hn; exact absurd hx hn
  | cons c cs ih =>
    intro st x hx hn
    simp only [deleteChildren] at hn
    split at hn
    · rename_i co hfind
      have hk := find_key st c co hfind
      by_cases hmid : x ∈ (rec st co).1.keys
      · split at hn
        · obtain ⟨c', hc', hd⟩ := ih _ x hmid hn
          exact ⟨c', List.mem_cons_of_mem _ hc', hd.mono (hdeps st co)⟩
        · exact absurd hmid hn
      · exact ⟨c, List.mem_cons_self, by rw [← hk]; exact hg st co x hx hmid⟩
    · obtain ⟨c', hc', hd⟩ := ih st x hx hn
      exact ⟨c', List.mem_cons_of_mem _ hc', hd⟩

/-- a helper call never removes an object whose deletion is under way further up the call stack -/
theorem finishDelete_has_other (s : St) (o : Obj) (thr : Option Key) (x : Key) (hx : s.has x = true) (hne : x ≠ o.key) :
    (finishDelete s o thr).1.has x = true := by
  rw [has_true_iff] at hx ⊢
  exact Classical.byContradiction fun hn => hne (finishDelete_gone s o thr x hx hn)

theorem deleteHelper_keeps_busy : ∀ (f : Nat) (st : St) (o : Obj) (c : Bool) (busy : List Key) (thr : Option Key)
    (b : Key), b ∈ busy → st.has b = true → (deleteHelper f st o c busy thr).1.has b = true := by
  intro f
  induction f with
  | zero =>
    intro st o c busy thr b hb hs
    simp only [deleteHelper]
    split
    · exact hs
    · rename_i hc
      have hne : b ≠ o.key := by
        intro e; subst e; exact hc (by simpa using hb)
      exact finishDelete_has_other st o thr b hs hne
  | succ f ih =>
    intro st o c busy thr b hb hs
    simp only [deleteHelper]
    split
    · exact hs
    · split
      · exact hs
      · rename_i hc
        have hne : b ≠ o.key := by
          intro e; subst e; exact hc (by simpa using hb)
        have hch := deleteChildren_preserves (fun s => s.has b = true)
          (fun s co => deleteHelper f s co c (o.key :: busy) thr)
          (fun s co h => ih s co c _ thr b (List.mem_cons_of_mem _ hb) h) (children st o.key) st hs
        split
        · exact finishDelete_has_other _ o thr b hch hne
        · exact hch

/-- whatever a helper call removes is the object it was made for or depends on it -/
theorem deleteHelper_only_dependents : ∀ (f : Nat) (st : St) (o : Obj) (c : Bool) (busy : List Key) (thr : Option Key)
    (x : Key), x ∈ st.keys → x ∉ (deleteHelper f st o c busy thr).1.keys → DependsOn st.deps x o.key := by
  intro f
  induction f with
  | zero =>
    intro st o c busy thr x hx hn
    simp only [deleteHelper] at hn
    split at hn
    · exact absurd hx hn
    · rw [finishDelete_gone st o thr x hx hn]
      exact DependsOn.refl _
  | succ f ih =>
    intro st o c busy thr x hx hn
    simp only [deleteHelper] at hn
    split at hn
    · exact absurd hx hn
    · split at hn
      · exact absurd hx hn
      · have hloop := deleteChildren_only_dependents (fun s co => deleteHelper f s co c (o.key :: busy) thr)
          (fun s co => deleteHelper_deps _ _ _ _ _ _) (fun s co y hy hny => ih s co c _ thr y hy hny)
          (children st o.key) st x hx
        by_cases hmid : x ∈ (deleteChildren (fun s co => deleteHelper f s co c (o.key :: busy) thr)
            (children st o.key) st).1.keys
        · split at hn
          · rw [finishDelete_gone _ o thr x hmid hn]
            exact DependsOn.refl _
          · exact absurd hmid hn
        · obtain ⟨ch, hch, hd⟩ := hloop hmid
          exact DependsOn.step hd (children_edge st o.key ch hch)

theorem deleteObject_only_dependents (st : St) (k : Key) (c : Bool) (thr : Option Key) (x : Key)
    (hx : x ∈ st.keys) (hn : x ∉ (deleteObject st k c thr).1.keys) : DependsOn st.deps x k := by
  unfold deleteObject at hn
  split at hn
  · exact absurd hx hn
  · rename_i o ho
    split at hn
    · exact absurd hx hn
    · have := deleteHelper_only_dependents _ st o c [] thr x hx hn
      rwa [find_key st k o ho] at this

end Icinga.C17

/-
  C17 — a delete removes only the object and what depends on it: the relation `DependsOn` (reflexive-transitive
  closure of the dependency edges) and the induction over the recursion of `DeleteObjectHelper`.
-/
import IcingaProofs.C17.InvLemmas
namespace Icinga.C17

/-- `x` is `k`, or depends on it directly or through other objects, along the edges (dependent, object) of `deps` -/
inductive DependsOn (deps : List (Key × Key)) : Key → Key → Prop
  | refl (k : Key) : DependsOn deps k k
  | step {x c k : Key} : DependsOn deps x c → (c, k) ∈ deps → DependsOn deps x k

theorem DependsOn.mono {d1 d2 : List (Key × Key)} (h : ∀ e ∈ d1, e ∈ d2) {x k : Key} (hd : DependsOn d1 x k) :
    DependsOn d2 x k := by
  induction hd with
  | refl => exact DependsOn.refl _
  | step _ he ih => exact DependsOn.step ih (h _ he)

theorem children_edge (st : St) (k c : Key) (h : c ∈ children st k) : (c, k) ∈ st.deps := by
  simp only [children, List.mem_filter, List.mem_map] at h
  obtain ⟨⟨e, ⟨he, hek⟩, rfl⟩, _⟩ := h
  have : e.2 = k := by simpa using hek
  rw [← this]
  exact he

theorem removeObj_deps (s : St) (o : Obj) : ∀ e ∈ (removeObj s o).deps, e ∈ s.deps := by
  intro e he
  simp only [removeObj, List.mem_filter] at he
  exact he.1

theorem deactivateObj_deps (s : St) (o : Obj) : ∀ e ∈ (deactivateObj s o).deps, e ∈ s.deps := by
  intro e he
  simp only [deactivateObj, List.mem_filter] at he
  exact he.1

theorem deleteHelper_deps (f : Nat) (st : St) (o : Obj) (c : Bool) (busy : List Key) (thr : Option Key) :
    ∀ e ∈ (deleteHelper f st o c busy thr).1.deps, e ∈ st.deps :=
  deleteHelper_preserves (fun s => ∀ e ∈ s.deps, e ∈ st.deps)
    (fun s o h e he => h e (removeObj_deps s o e he)) (fun s o h e he => h e (deactivateObj_deps s o e he))
    f st o c busy thr (fun _ he => he)

/-- the tail of the helper removes at most the object itself -/
theorem finishDelete_gone (s : St) (o : Obj) (thr : Option Key) (x : Key) (hx : x ∈ s.keys)
    (hg : x ∉ (finishDelete s o thr).1.keys) : x = o.key := by
  unfold finishDelete at hg
  split at hg
  · rw [deactivateObj_keys] at hg; exact absurd hx hg
  · by_cases hxo : x = o.key
    · exact hxo
    · exfalso
      apply hg
      simp only [St.keys, List.mem_map] at hx ⊢
      obtain ⟨a, ha, rfl⟩ := hx
      refine ⟨a, ?_, rfl⟩
      simp only [removeObj, List.mem_filter]
      exact ⟨ha, by simpa using hxo⟩

theorem foldl_only_dependents (g : St → Key → St)
    (hdeps : ∀ s c, ∀ e ∈ (g s c).deps, e ∈ s.deps)
    (hg : ∀ s c x, x ∈ s.keys → x ∉ (g s c).keys → DependsOn s.deps x c) (cs : List Key) :
    ∀ (st : St) (x : Key), x ∈ st.keys → x ∉ (cs.foldl g st).keys → ∃ c ∈ cs, DependsOn st.deps x c := by
  induction cs with
  | nil => intro st x hx hn; exact absurd hx hn
  | cons c cs ih =>
    intro st x hx hn
    simp only [List.foldl_cons] at hn
    by_cases hmid : x ∈ (g st c).keys
    · obtain ⟨c', hc', hd⟩ := ih (g st c) x hmid hn
      exact ⟨c', List.mem_cons_of_mem _ hc', hd.mono (hdeps st c)⟩
    · exact ⟨c, List.mem_cons_self, hg st c x hx hmid⟩

/-- whatever a helper call removes is the object it was made for or depends on it -/
theorem deleteHelper_only_dependents : ∀ (f : Nat) (st : St) (o : Obj) (c : Bool) (busy : List Key) (thr : Option Key)
    (x : Key), x ∈ st.keys → x ∉ (deleteHelper f st o c busy thr).1.keys → DependsOn st.deps x o.key := by
  intro f
  induction f with
  | zero =>
    intro st o c busy thr x hx hn
    rw [finishDelete_gone st o thr x hx hn]
    exact DependsOn.refl _
  | succ f ih =>
    intro st o c busy thr x hx hn
    simp only [deleteHelper] at hn
    split at hn
    · exact absurd hx hn
    · split at hn
      · exact absurd hx hn
      · by_cases hmid : x ∈ (List.foldl (deleteChild fun s co => (deleteHelper f s co c (o.key :: busy) thr).fst) st
            (children st o.key)).keys
        · rw [finishDelete_gone _ o thr x hmid hn]
          exact DependsOn.refl _
        · obtain ⟨ch, hch, hd⟩ := foldl_only_dependents
            (deleteChild fun s co => (deleteHelper f s co c (o.key :: busy) thr).fst)
            (by
              intro s k e he
              unfold deleteChild at he
              split at he
              · exact deleteHelper_deps _ _ _ _ _ _ e he
              · exact he)
            (by
              intro s k y hy hny
              unfold deleteChild at hny
              split at hny
              · rename_i co hfind
                have := ih s co c (o.key :: busy) thr y hy hny
                rwa [find_key s k co hfind] at this
              · exact absurd hy hny)
            (children st o.key) st x hx hmid
          exact DependsOn.step hd (children_edge st o.key ch hch)

theorem deleteObject_only_dependents (st : St) (k : Key) (c : Bool) (thr : Option Key) (x : Key)
    (hx : x ∈ st.keys) (hn : x ∉ (deleteObject st k c thr).1.keys) : DependsOn st.deps x k := by
  unfold deleteObject at hn
  split at hn
  · exact absurd hx hn
  · rename_i o ho
    split at hn
    · exact absurd hx hn
    · have := deleteHelper_only_dependents _ st o c [] thr x hx hn
      rwa [find_key st k o ho] at this

end Icinga.C17

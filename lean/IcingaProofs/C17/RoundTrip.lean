/-
  C17 — the emit/parse round trip for values (mutual induction over the value tree) and for the
  whole object statement.
-/
import IcingaProofs.C17.ParseLemmas

namespace Icinga.C17

/-! ## inputs covered -/

mutual
/-- every string is NUL-free and every key is `KeyOk` -/
def VSafe : Value → Prop
  | .str s => chNUL ∉ s
  | .arr xs => VsSafe xs
  | .dict kvs => MsSafe kvs
  | .empty => True
  | .bool _ => True
  | .num _ => True
def VsSafe : List Value → Prop
  | [] => True
  | x :: xs => VSafe x ∧ VsSafe xs
def MsSafe : List (Str × Value) → Prop
  | [] => True
  | (k, v) :: r => KeyOk k ∧ VSafe v ∧ MsSafe r
end

/-! ## first character of an emitted value -/

def valHead (c : Char) : Prop := solid c = true ∧ c ≠ ']' ∧ c ≠ '}'

theorem emitValue_head (ind : Nat) (v : Value) (tail : Str) :
    ∃ c t, emitValue ind v ++ tail = c :: t ∧ valHead c := by
  cases v with
  | empty => exact ⟨'n', _, rfl, by decide, by decide, by decide⟩
  | bool b =>
    cases b with
    | false => exact ⟨'f', _, rfl, by decide, by decide, by decide⟩
    | true => exact ⟨'t', _, rfl, by decide, by decide, by decide⟩
  | num d =>
    obtain ⟨c, t, hct, hc⟩ := natToDec_head (micro d / 1000000)
    cases hneg : d.neg with
    | true => exact ⟨'-', natToDec (micro d / 1000000) ++ '.' :: (pad6 (micro d % 1000000) ++ tail),
        by simp [emitValue, emitNumber, hneg], by decide, by decide, by decide⟩
    | false =>
      refine ⟨c, t ++ ('.' :: pad6 (micro d % 1000000)) ++ tail, by simp [emitValue, emitNumber, hneg, hct], digit_solid hc, ?_, ?_⟩
      · exact ne_of_class hc (by decide)
      · exact ne_of_class hc (by decide)
  | str s => exact ⟨'"', escapeIcingaString s ++ '"' :: tail, by simp [emitValue, emitString], by decide, by decide, by decide⟩
  | arr xs =>
    cases xs with
    | nil => exact ⟨'[', ' ' :: ']' :: tail, by simp [emitValue], by decide, by decide, by decide⟩
    | cons x xs => exact ⟨'[', ' ' :: (emitValue ind x ++ (emitRestElems ind xs ++ tail)), by simp [emitValue], by decide, by decide, by decide⟩
  | dict kvs => exact ⟨'{', '\n' :: (membersTail ind kvs ++ tail), by simp [emitValue], by decide, by decide, by decide⟩

theorem ws_emitValue (nl : Bool) (ind : Nat) (v : Value) (tail : Str) :
    ws nl .norm (emitValue ind v ++ tail) = some (emitValue ind v ++ tail) := by
  obtain ⟨c, t, h, hc⟩ := emitValue_head ind v tail
  rw [h]; exact ws_solid nl c t hc.1

/-- ` = ` followed by a value -/
theorem expectEq_emit (ind : Nat) (v : Value) (tail : Str) :
    expectEq (' ' :: '=' :: ' ' :: (emitValue ind v ++ tail)) = some (emitValue ind v ++ tail) := by
  have h1 : ws false .norm (' ' :: '=' :: ' ' :: (emitValue ind v ++ tail)) =
      some ('=' :: ' ' :: (emitValue ind v ++ tail)) := by
    rw [ws_space]; exact ws_solid false '=' _ (by decide)
  simp only [expectEq, h1]
  simp [ws_space, ws_emitValue]

theorem closeBrace_none (c : Char) (r : Str) (h : c ≠ '}') : closeBrace (c :: r) = none := by
  simp [closeBrace, h]

theorem closeBrace_ok (rest : Str) (hr : RestOk rest) : closeBrace ('}' :: rest) = some rest := by
  cases rest with
  | nil => simp [closeBrace]
  | cons c t => simp [closeBrace, (hr c t rfl).2.2]

/-! ## bare words -/

theorem parseValueF_word (f : Nat) (w rest : Str) (v : Value) (hw : isIdent w = true)
    (hq : ∀ c t, w = c :: t → c ≠ '"' ∧ c ≠ '[' ∧ c ≠ '{' ∧ c ≠ '-' ∧ isDigit c = false)
    (hv : (if w = kwNull then some (Value.empty, rest) else if w = kwTrue then some (.bool true, rest)
            else if w = kwFalse then some (.bool false, rest) else none) = some (v, rest))
    (hr : RestOk rest) : parseValueF (f + 1) (w ++ rest) = some (v, rest) := by
  have hs := spanIdent_ident w rest hw hr.stopsId
  obtain ⟨c, t, rfl, _, _⟩ := isIdent_cons hw
  obtain ⟨h1, h2, h3, h4, h5⟩ := hq c t rfl
  simp only [List.cons_append] at hs ⊢
  simp only [parseValueF, h1, h2, h3, h4, h5, if_false, hs, Bool.false_eq_true]
  exact hv

/-! ## the mutual induction -/

/-- what is proved for every value -/
def PV (v : Value) : Prop :=
  ∀ (ind f : Nat) (rest : Str), (emitValue ind v).length ≤ f → RestOk rest →
    parseValueF f (emitValue ind v ++ rest) = some (round6V v, rest)

theorem parseMembersF_nl (f : Nat) (bs : Str) :
    parseMembersF (f + 1) ('\n' :: bs) = parseMembersF (f + 1) bs := by
  simp only [parseMembersF, ws_true_nl]

mutual
theorem valueOk : (v : Value) → VSafe v → PV v
  | .empty, _ => by
    intro ind f rest hf hr
    obtain ⟨f, rfl⟩ : ∃ g, f = g + 1 := ⟨f - 1, by simp [emitValue] at hf; omega⟩
    exact parseValueF_word f kwNull rest _ (by decide) (by intro c t h; cases h; decide) (by simp [round6V]) hr
  | .bool true, _ => by
    intro ind f rest hf hr
    obtain ⟨f, rfl⟩ : ∃ g, f = g + 1 := ⟨f - 1, by simp [emitValue] at hf; omega⟩
    exact parseValueF_word f kwTrue rest _ (by decide) (by intro c t h; cases h; decide)
      (by simp [round6V, (by decide : kwTrue ≠ kwNull)]) hr
  | .bool false, _ => by
    intro ind f rest hf hr
    obtain ⟨f, rfl⟩ : ∃ g, f = g + 1 := ⟨f - 1, by simp [emitValue] at hf; omega⟩
    exact parseValueF_word f kwFalse rest _ (by decide) (by intro c t h; cases h; decide)
      (by simp [round6V, (by decide : kwFalse ≠ kwNull), (by decide : kwFalse ≠ kwTrue)]) hr
  | .num d, _ => by
    intro ind f rest hf hr
    have hpos : 0 < (emitValue ind (.num d)).length := by
      obtain ⟨c, t, h, _⟩ := emitValue_head ind (.num d) []
      simp at h; simp [h]
    obtain ⟨f, rfl⟩ : ∃ g, f = g + 1 := ⟨f - 1, by omega⟩
    simpa [emitValue, round6V] using parseValueF_emitNumber d f rest hr
  | .str s, hs => by
    intro ind f rest hf hr
    obtain ⟨f, rfl⟩ : ∃ g, f = g + 1 := ⟨f - 1, by simp [emitValue, emitString] at hf; omega⟩
    have hs' : chNUL ∉ s := by simpa [VSafe] using hs
    have := lexStr_escape s hs' rest
    simp only [emitValue, emitString, List.cons_append, List.append_assoc, parseValueF, if_true, round6V]
    simp only [List.nil_append] at this ⊢
    rw [this]
  | .arr [], _ => by
    intro ind f rest hf hr
    obtain ⟨f, rfl⟩ : ∃ g, f = g + 1 := ⟨f - 1, by simp [emitValue] at hf; omega⟩
    have hw : ws false .norm (' ' :: ']' :: rest) = some (']' :: rest) := by
      rw [ws_space]; exact ws_solid false ']' rest (by decide)
    simp [emitValue, parseValueF, hw, round6V, round6Vs]
  | .arr (x :: xs), hs => by
    intro ind f rest hf hr
    have hs' : VSafe x ∧ VsSafe xs := by simpa [VSafe, VsSafe] using hs
    simp only [emitValue, List.length_cons, List.length_append] at hf
    obtain ⟨f, rfl⟩ : ∃ g, f = g + 1 := ⟨f - 1, by omega⟩
    have he := elemsOk xs hs'.2 ind f x rest (by omega) (valueOk x hs'.1) hr
    obtain ⟨c, t, hct, hc⟩ := emitValue_head ind x (emitRestElems ind xs ++ rest)
    have hw : ws false .norm (' ' :: (emitValue ind x ++ (emitRestElems ind xs ++ rest))) =
        some (c :: t) := by
      rw [ws_space, hct]; exact ws_solid false c t hc.1
    rw [hct] at he
    simp only [emitValue, List.cons_append, List.append_assoc, parseValueF, hw, hc.2.1, if_false, he, round6V, round6Vs]
    simp
  | .dict kvs, hs => by
    intro ind f rest hf hr
    have hs' : MsSafe kvs := by simpa [VSafe] using hs
    simp only [emitValue, List.length_cons] at hf
    have hpos : 0 < (membersTail ind kvs).length := by
      cases kvs with
      | nil => simp [membersTail]
      | cons kv r => obtain ⟨k, v⟩ := kv; simp [membersTail]; omega
    obtain ⟨f, rfl⟩ : ∃ g, f = g + 1 := ⟨f - 1, by omega⟩
    obtain ⟨f, rfl⟩ : ∃ g, f = g + 1 := ⟨f - 1, by omega⟩
    have hm := membersOk kvs hs' ind (f + 1) rest (by omega) hr
    simp only [emitValue, List.cons_append, parseValueF, parseMembersF_nl, hm, round6V]
    simp
theorem elemsOk : (xs : List Value) → VsSafe xs →
    ∀ (ind f : Nat) (x : Value) (rest : Str),
      (emitValue ind x).length + (emitRestElems ind xs).length ≤ f → PV x → RestOk rest →
      parseElemsF f (emitValue ind x ++ (emitRestElems ind xs ++ rest)) = some (round6V x :: round6Vs xs, rest)
  | [], _ => by
    intro ind f x rest hf hx hr
    simp only [emitRestElems, List.length_cons, List.length_nil] at hf
    obtain ⟨f, rfl⟩ : ∃ g, f = g + 1 := ⟨f - 1, by omega⟩
    have hv := hx ind f (' ' :: ']' :: rest) (by omega) (RestOk.cons _ _ (by decide) (by decide) (by decide))
    have hw : ws false .norm (' ' :: ']' :: rest) = some (']' :: rest) := by
      rw [ws_space]; exact ws_solid false ']' rest (by decide)
    simp only [emitRestElems, List.cons_append, List.nil_append, parseElemsF, hv, hw, round6Vs]
    simp
  | y :: ys, hs => by
    intro ind f x rest hf hx hr
    have hs' : VSafe y ∧ VsSafe ys := by simpa [VsSafe] using hs
    simp only [emitRestElems, List.length_cons, List.length_append] at hf
    obtain ⟨f, rfl⟩ : ∃ g, f = g + 1 := ⟨f - 1, by omega⟩
    have ih := elemsOk ys hs'.2 ind f y rest (by omega) (valueOk y hs'.1) hr
    have hv := hx ind f (',' :: ' ' :: (emitValue ind y ++ (emitRestElems ind ys ++ rest))) (by omega)
      (RestOk.cons _ _ (by decide) (by decide) (by decide))
    have hw1 : ws false .norm (',' :: ' ' :: (emitValue ind y ++ (emitRestElems ind ys ++ rest))) =
        some (',' :: ' ' :: (emitValue ind y ++ (emitRestElems ind ys ++ rest))) := ws_solid false ',' _ (by decide)
    have hw2 : ws false .norm (' ' :: (emitValue ind y ++ (emitRestElems ind ys ++ rest))) =
        some (emitValue ind y ++ (emitRestElems ind ys ++ rest)) := by
      rw [ws_space]; exact ws_emitValue false ind y _
    simp only [emitRestElems, List.cons_append, List.append_assoc, parseElemsF, hv, hw1, hw2, ih, round6Vs]
    simp
theorem membersOk : (kvs : List (Str × Value)) → MsSafe kvs →
    ∀ (ind f : Nat) (rest : Str), (membersTail ind kvs).length ≤ f → RestOk rest →
      parseMembersF f (membersTail ind kvs ++ rest) = some (round6Ms kvs, rest)
  | [], _ => by
    intro ind f rest hf hr
    simp only [membersTail, List.length_append, List.length_cons, List.length_nil] at hf
    obtain ⟨f, rfl⟩ : ∃ g, f = g + 1 := ⟨f - 1, by omega⟩
    have hw : ws true .norm (tabs (ind - 1) ++ '}' :: rest) = some ('}' :: rest) := by
      rw [ws_tabs]; exact ws_solid true '}' rest (by decide)
    simp only [membersTail, List.append_assoc, List.cons_append, List.nil_append, parseMembersF, hw,
      closeBrace_ok rest hr, round6Ms]
  | (k, v) :: kvs, hs => by
    intro ind f rest hf hr
    have hs' : KeyOk k ∧ VSafe v ∧ MsSafe kvs := by simpa [MsSafe] using hs
    simp only [membersTail, List.length_append, List.length_cons] at hf
    obtain ⟨f, rfl⟩ : ∃ g, f = g + 1 := ⟨f - 1, by omega⟩
    have ih := membersOk kvs hs'.2.2 ind f rest (by omega) hr
    -- the text after the indentation
    let V := emitValue (ind + 1) v ++ ('\n' :: (membersTail ind kvs ++ rest))
    obtain ⟨c, t, hct, hc⟩ := emitKey_head k (' ' :: '=' :: ' ' :: V)
    have hw : ws true .norm (tabs ind ++ (emitKey k ++ (' ' :: '=' :: ' ' :: V))) = some (c :: t) := by
      rw [ws_tabs, hct]; exact ws_solid true c t hc.1
    have hk : parseKey (c :: t) = some (k, ' ' :: '=' :: ' ' :: V) := by
      rw [← hct]; exact parseKey_emitKey k _ hs'.1 (by intro c' t' e; cases e; decide)
    have he : expectEq (' ' :: '=' :: ' ' :: V) = some V := expectEq_emit (ind + 1) v _
    have hv : parseValueF f V = some (round6V v, '\n' :: (membersTail ind kvs ++ rest)) :=
      valueOk v hs'.2.1 (ind + 1) f _ (by omega) (RestOk.cons _ _ (by decide) (by decide) (by decide))
    have hn : ws false .norm ('\n' :: (membersTail ind kvs ++ rest)) = some ('\n' :: (membersTail ind kvs ++ rest)) :=
      ws_false_nl _
    have hcb : closeBrace (c :: t) = none := closeBrace_none c t hc.2
    have htext : membersTail ind ((k, v) :: kvs) ++ rest = tabs ind ++ (emitKey k ++ (' ' :: '=' :: ' ' :: V)) := by
      simp [membersTail, V]
    rw [htext]
    simp only [parseMembersF, hw, hcb, hk, he, hv, hn, ih, round6Ms]
    simp [isNl]
end

/-! ## the object statement -/

theorem emitIndexers_stops (ts : List Str) (R : Str) : Stops isIdChar (emitIndexers ts ++ ' ' :: R) := by
  intro c t e
  cases ts with
  | nil => simp [emitIndexers] at e; rw [← e.1]; decide
  | cons a as => simp [emitIndexers] at e; rw [← e.1]; decide

theorem emitIndexers_length (ts : List Str) : ts.length ≤ (emitIndexers ts).length := by
  induction ts with
  | nil => simp
  | cons t ts ih => simp [emitIndexers]; omega

theorem parseIndexersF_emit (ts : List Str) (hts : ∀ t ∈ ts, chNUL ∉ t) (R : Str) :
    ∀ f, ts.length ≤ f → parseIndexersF f (emitIndexers ts ++ ' ' :: R) = some (ts, ' ' :: R) := by
  induction ts with
  | nil =>
    intro f _
    cases f with
    | zero => simp [parseIndexersF, emitIndexers]
    | succ f => simp [parseIndexersF, emitIndexers]
  | cons t ts ih =>
    intro f hf
    obtain ⟨f, rfl⟩ : ∃ g, f = g + 1 := ⟨f - 1, by simp at hf; omega⟩
    have hl := lexString_emitString t (hts t (by simp)) (']' :: (emitIndexers ts ++ ' ' :: R))
    have ih' := ih (fun x hx => hts x (by simp [hx])) f (by simp at hf; omega)
    simp only [emitIndexers, List.cons_append, List.append_assoc, parseIndexersF, if_true, hl, ih']

def attrStmts : List (Str × Value) → List Stmt
  | [] => []
  | (k, v) :: r => .assign (splitDots k).1 (splitDots k).2 (round6V v) :: attrStmts r

def importStmts : List Str → List Stmt
  | [] => []
  | t :: ts => .imp t :: importStmts ts

/-- an attribute the round trip covers -/
def AttrOk (kv : Str × Value) : Prop :=
  KeyOk (splitDots kv.1).1 ∧ (∀ t ∈ (splitDots kv.1).2, chNUL ∉ t) ∧ VSafe kv.2

theorem parseAssign_emit (k : Str) (v : Value) (h : AttrOk (k, v)) (tail : Str) (ht : RestOk tail) :
    parseAssign (emitLhs k ++ (' ' :: '=' :: ' ' :: (emitValue 2 v ++ tail))) =
      some (.assign (splitDots k).1 (splitDots k).2 (round6V v), tail) := by
  let V := emitValue 2 v ++ tail
  let X := emitIndexers (splitDots k).2 ++ ' ' :: '=' :: ' ' :: V
  have htext : emitLhs k ++ (' ' :: '=' :: ' ' :: (emitValue 2 v ++ tail)) = emitKey (splitDots k).1 ++ X := by
    simp [emitLhs, X, V]
  have hk : parseKey (emitKey (splitDots k).1 ++ X) = some ((splitDots k).1, X) :=
    parseKey_emitKey _ _ h.1 (emitIndexers_stops _ _)
  have hi : parseIndexersF X.length X = some ((splitDots k).2, ' ' :: '=' :: ' ' :: V) :=
    parseIndexersF_emit _ h.2.1 _ _ (by
      have := emitIndexers_length (splitDots k).2
      simp [X]; omega)
  have he : expectEq (' ' :: '=' :: ' ' :: V) = some V := expectEq_emit 2 v tail
  have hv : parseValueF (V.length + 1) V = some (round6V v, tail) :=
    valueOk v h.2.2 2 _ tail (by simp [V]; omega) ht
  rw [htext]
  simp only [parseAssign, hk, hi, he, hv]

theorem parseStmt_assign (k : Str) (X : Str) (hX : Stops isIdChar X) :
    parseStmt (emitKey k ++ X) = parseAssign (emitKey k ++ X) := by
  unfold emitKey
  split
  · simp [parseStmt, spanIdent, (by decide : isIdStart '@' = false)]
  · rename_i hkw
    split
    · rename_i hid
      have hs := spanIdent_ident k X hid hX
      have hne : k ≠ kwImport := fun e => hkw (e ▸ (by decide))
      simp [parseStmt, hs, hne]
    · simp [parseStmt, spanIdent, emitString, (by decide : isIdStart '"' = false)]

theorem parseStmtsF_nl (f : Nat) (bs : Str) :
    parseStmtsF (f + 1) ('\n' :: bs) = parseStmtsF (f + 1) bs := by
  simp only [parseStmtsF, ws_true_nl]

theorem attrsStmtsOk : (attrs : List (Str × Value)) → (∀ kv ∈ attrs, AttrOk kv) →
    ∀ (f : Nat) (rest : Str), attrs.length + 1 ≤ f → RestOk rest →
      parseStmtsF f (topTail attrs ++ rest) = some (attrStmts attrs, rest)
  | [], _ => by
    intro f rest hf hr
    obtain ⟨f, rfl⟩ : ∃ g, f = g + 1 := ⟨f - 1, by simp at hf; omega⟩
    have hw : ws true .norm ('}' :: rest) = some ('}' :: rest) := ws_solid true '}' rest (by decide)
    simp only [topTail, List.cons_append, List.nil_append, parseStmtsF, hw, closeBrace_ok rest hr, attrStmts]
  | (k, v) :: r, h => by
    intro f rest hf hr
    obtain ⟨f, rfl⟩ : ∃ g, f = g + 1 := ⟨f - 1, by simp at hf; omega⟩
    have hkv : AttrOk (k, v) := h (k, v) (by simp)
    have ih := attrsStmtsOk r (fun kv hkv => h kv (by simp [hkv])) f rest (by simp at hf; omega) hr
    let T := '\n' :: (topTail r ++ rest)
    let L := emitLhs k ++ (' ' :: '=' :: ' ' :: (emitValue 2 v ++ T))
    have htext : topTail ((k, v) :: r) ++ rest = '\t' :: L := by simp [topTail, L, T]
    let X := emitIndexers (splitDots k).2 ++ ' ' :: '=' :: ' ' :: (emitValue 2 v ++ T)
    have hL : L = emitKey (splitDots k).1 ++ X := by simp [L, X, emitLhs]
    obtain ⟨c, t, hct, hc⟩ := emitKey_head (splitDots k).1 X
    have hw : ws true .norm ('\t' :: L) = some (c :: t) := by
      rw [ws_tab, hL, hct]; exact ws_solid true c t hc.1
    have hcb : closeBrace (c :: t) = none := closeBrace_none c t hc.2
    have hst : parseStmt (c :: t) = some (.assign (splitDots k).1 (splitDots k).2 (round6V v), T) := by
      rw [← hct, parseStmt_assign _ _ (emitIndexers_stops _ _), ← hL]
      exact parseAssign_emit k v hkv T (RestOk.cons _ _ (by decide) (by decide) (by decide))
    have hn : ws false .norm T = some ('\n' :: (topTail r ++ rest)) := ws_false_nl _
    rw [htext]
    simp only [parseStmtsF, hw, hcb, hst, hn, ih, attrStmts]
    simp [isNl]

theorem parseStmt_import (t : Str) (ht : chNUL ∉ t) (R : Str) :
    parseStmt ('i' :: 'm' :: 'p' :: 'o' :: 'r' :: 't' :: ' ' :: (emitString t ++ R)) = some (.imp t, R) := by
  have hs : spanIdent (kwImport ++ (' ' :: (emitString t ++ R))) = some (kwImport, ' ' :: (emitString t ++ R)) :=
    spanIdent_ident kwImport _ (by decide) (by intro c t e; cases e; decide)
  have hw : ws false .norm (' ' :: (emitString t ++ R)) = some (emitString t ++ R) := by
    rw [ws_space]; exact ws_solid false '"' _ (by decide)
  have hl := lexString_emitString t ht R
  simp only [kwImport, List.cons_append, List.nil_append] at hs
  simp only [parseStmt, hs, hw, hl]
  simp [kwImport]

/-- import lines followed by `Z` (which starts with a line break and parses as `ss`) -/
theorem importsStmtsOk : (ts : List Str) → (∀ t ∈ ts, chNUL ∉ t) →
    ∀ (Z' : Str) (ss : List Stmt) (rest : Str) (n0 : Nat),
      (∀ g, n0 ≤ g → parseStmtsF g Z' = some (ss, rest)) →
      ∀ f, ts.length + n0 + 1 ≤ f →
        parseStmtsF f (emitImportLines ts ++ '\n' :: Z') = some (importStmts ts ++ ss, rest)
  | [], _ => by
    intro Z' ss rest n0 hZ f hf
    obtain ⟨f, rfl⟩ : ∃ g, f = g + 1 := ⟨f - 1, by simp at hf; omega⟩
    simp only [emitImportLines, List.nil_append, parseStmtsF_nl, importStmts]
    exact hZ (f + 1) (by simp at hf; omega)
  | t :: ts, h => by
    intro Z' ss rest n0 hZ f hf
    obtain ⟨f, rfl⟩ : ∃ g, f = g + 1 := ⟨f - 1, by simp at hf; omega⟩
    have ih := importsStmtsOk ts (fun x hx => h x (by simp [hx])) Z' ss rest n0 hZ f (by simp at hf; omega)
    -- the remaining text starts with a line break
    obtain ⟨W, hW⟩ : ∃ W, emitImportLines ts ++ '\n' :: Z' = '\n' :: W := by
      cases ts with
      | nil => exact ⟨Z', rfl⟩
      | cons a as =>
        exact ⟨'\t' :: 'i' :: 'm' :: 'p' :: 'o' :: 'r' :: 't' :: ' ' :: (emitString a ++ (emitImportLines as ++ '\n' :: Z')),
          by simp [emitImportLines]⟩
    have ih2 : parseStmtsF f W = some (importStmts ts ++ ss, rest) := by
      obtain ⟨g, hg⟩ : ∃ g, f = g + 1 := ⟨f - 1, by simp at hf; omega⟩
      rw [hg] at ih ⊢
      rw [hW, parseStmtsF_nl] at ih
      exact ih
    have hst := parseStmt_import t (h t (by simp)) (emitImportLines ts ++ '\n' :: Z')
    have hw : ws true .norm ('\n' :: '\t' :: 'i' :: 'm' :: 'p' :: 'o' :: 'r' :: 't' :: ' ' ::
        (emitString t ++ (emitImportLines ts ++ '\n' :: Z'))) =
        some ('i' :: 'm' :: 'p' :: 'o' :: 'r' :: 't' :: ' ' :: (emitString t ++ (emitImportLines ts ++ '\n' :: Z'))) := by
      rw [ws_true_nl, ws_tab]; exact ws_solid true 'i' _ (by decide)
    have hcb : closeBrace ('i' :: 'm' :: 'p' :: 'o' :: 'r' :: 't' :: ' ' ::
        (emitString t ++ (emitImportLines ts ++ '\n' :: Z'))) = none := closeBrace_none _ _ (by decide)
    have hn : ws false .norm (emitImportLines ts ++ '\n' :: Z') = some ('\n' :: W) := by
      rw [hW]; exact ws_false_nl W
    simp only [emitImportLines, List.cons_append, List.append_assoc, parseStmtsF, hw, hcb, hst, hn, ih2, importStmts]
    simp [isNl]

theorem stmtImports_append (ts : List Str) (attrs : List (Str × Value)) :
    stmtImports (importStmts ts ++ attrStmts attrs) = ts := by
  induction ts with
  | nil =>
    induction attrs with
    | nil => rfl
    | cons kv r ih => obtain ⟨k, v⟩ := kv; simpa [importStmts, attrStmts, stmtImports] using ih
  | cons t ts ih => simp [importStmts, stmtImports, ih]

theorem stmtAssigns_append (ts : List Str) (attrs : List (Str × Value)) :
    stmtAssigns (importStmts ts ++ attrStmts attrs) = pathsOf (round6Ms attrs) := by
  induction ts with
  | nil =>
    induction attrs with
    | nil => rfl
    | cons kv r ih =>
      obtain ⟨k, v⟩ := kv
      simp only [importStmts, List.nil_append] at ih
      simp [importStmts, attrStmts, stmtAssigns, pathsOf, round6Ms, ih]
  | cons t ts ih => simpa [importStmts, stmtAssigns] using ih

/-- the body after `{`: imports, attribute lines, `}` and the final line break -/
theorem bodyOk (imports : List Str) (attrs : List (Str × Value)) (hi : ∀ t ∈ imports, chNUL ∉ t)
    (ha : ∀ kv ∈ attrs, AttrOk kv) (f : Nat) (hf : imports.length + attrs.length + 3 ≤ f) :
    parseStmtsF f (emitImports imports ++ (emitTopMembers attrs ++ ['\n'])) =
      some (importStmts imports ++ attrStmts attrs, ['\n']) := by
  have hZ : ∀ g, attrs.length + 1 ≤ g → parseStmtsF g (topTail attrs ++ ['\n']) = some (attrStmts attrs, ['\n']) :=
    fun g hg => attrsStmtsOk attrs ha g ['\n'] hg (RestOk.cons _ _ (by decide) (by decide) (by decide))
  cases imports with
  | nil =>
    obtain ⟨f, rfl⟩ : ∃ g, f = g + 1 := ⟨f - 1, by omega⟩
    simp only [emitImports, emitTopMembers, List.nil_append, List.cons_append, parseStmtsF_nl, importStmts]
    exact hZ (f + 1) (by simp at hf; omega)
  | cons t ts =>
    have hZ' : ∀ g, attrs.length + 2 ≤ g → parseStmtsF g ('\n' :: (topTail attrs ++ ['\n'])) = some (attrStmts attrs, ['\n']) := by
      intro g hg
      obtain ⟨g, rfl⟩ : ∃ g', g = g' + 1 := ⟨g - 1, by omega⟩
      rw [parseStmtsF_nl]; exact hZ (g + 1) (by omega)
    have := importsStmtsOk (t :: ts) hi ('\n' :: (topTail attrs ++ ['\n'])) (attrStmts attrs) ['\n'] (attrs.length + 2) hZ' f
      (by simp at hf ⊢; omega)
    simpa [emitImports, emitTopMembers] using this

theorem parseIdent_emitIdentifier (ty T rest : Str) (h : emitIdentifier ty false = some T)
    (hr : Stops isIdChar rest) :
    parseIdent (T ++ rest) = some (ty, rest) ∧ ∃ c t, T ++ rest = c :: t ∧ solid c = true := by
  unfold emitIdentifier at h
  split at h
  · rename_i hkw
    cases h
    exact ⟨parseIdent_at ty rest (writerKeywords_ident ty hkw) hr, '@', _, rfl, by decide⟩
  · rename_i hkw
    split at h
    · rename_i hid
      cases h
      have hid' : isIdent ty = true := by simpa [bareMatch] using hid
      refine ⟨parseIdent_bare ty rest hid' hr (not_lexerKeyword hkw), ?_⟩
      obtain ⟨c, t, rfl, hc, _⟩ := isIdent_cons hid'
      exact ⟨c, t ++ rest, rfl, idStart_solid hc⟩
    · simp at h

theorem parseIoeBrace_emit (ioe : Bool) (W : Str) :
    parseIoeBrace ((if ioe then ' ' :: kwIoe else []) ++ (' ' :: '{' :: '\n' :: W)) = some (ioe, '\n' :: W) := by
  cases ioe with
  | false =>
    have hw : ws false .norm (' ' :: '{' :: '\n' :: W) = some ('{' :: '\n' :: W) := by
      rw [ws_space]; exact ws_solid false '{' _ (by decide)
    simp [parseIoeBrace, hw]
  | true =>
    have hw : ws false .norm (' ' :: (kwIoe ++ (' ' :: '{' :: '\n' :: W))) = some (kwIoe ++ (' ' :: '{' :: '\n' :: W)) := by
      rw [ws_space]; exact ws_solid false 'i' _ (by decide)
    have hs : spanIdent (kwIoe ++ (' ' :: '{' :: '\n' :: W)) = some (kwIoe, ' ' :: '{' :: '\n' :: W) :=
      spanIdent_ident kwIoe _ (by decide) (by intro c t e; cases e; decide)
    have hw2 : ws false .norm (' ' :: '{' :: '\n' :: W) = some ('{' :: '\n' :: W) := by
      rw [ws_space]; exact ws_solid false '{' _ (by decide)
    simp only [if_true, List.cons_append] at hw ⊢
    simp only [kwIoe, List.cons_append, List.nil_append] at hw hs ⊢
    simp only [parseIoeBrace, hw, hs, hw2]
    simp [kwIoe]

theorem emitImportLines_length (ts : List Str) : ts.length ≤ (emitImportLines ts).length := by
  induction ts with
  | nil => simp
  | cons t ts ih => simp [emitImportLines]; omega

theorem topTail_length (attrs : List (Str × Value)) : attrs.length + 1 ≤ (topTail attrs).length := by
  induction attrs with
  | nil => simp [topTail]
  | cons kv r ih => obtain ⟨k, v⟩ := kv; simp [topTail]; omega

theorem body_head (imports : List Str) (attrs : List (Str × Value)) :
    ∃ W, emitImports imports ++ (emitTopMembers attrs ++ ['\n']) = '\n' :: W := by
  cases imports with
  | nil => exact ⟨topTail attrs ++ ['\n'], by simp [emitImports, emitTopMembers]⟩
  | cons t ts =>
    exact ⟨'\t' :: 'i' :: 'm' :: 'p' :: 'o' :: 'r' :: 't' :: ' ' ::
      (emitString t ++ (emitImportLines ts ++ ('\n' :: (emitTopMembers attrs ++ ['\n'])))),
      by simp [emitImports, emitImportLines]⟩

theorem body_length (imports : List Str) (attrs : List (Str × Value)) :
    imports.length + attrs.length + 2 ≤ (emitImports imports ++ (emitTopMembers attrs ++ ['\n'])).length := by
  have h1 := emitImportLines_length imports
  have h2 := topTail_length attrs
  cases imports with
  | nil => simp [emitImports, emitTopMembers] at *; omega
  | cons t ts => simp [emitImports, emitTopMembers] at *; omega

/-- The generated text of an object statement parses back to exactly that statement. -/
theorem parseItem_emit (ty name : Str) (ioe : Bool) (imports : List Str) (attrs : List (Str × Value)) (text : Str)
    (hname : chNUL ∉ name) (hi : ∀ t ∈ imports, chNUL ∉ t)
    (ha : ∀ kv ∈ attrs, AttrOk kv)
    (he : emitConfigItem ty name ioe imports attrs = some text) :
    parseItem text = some { ty := ty, name := name, ioe := ioe, imports := imports,
                            assigns := pathsOf (round6Ms attrs) } := by
  unfold emitConfigItem at he
  cases hT : emitIdentifier ty false with
  | none => simp [hT] at he
  | some T =>
    simp only [hT, Option.some.injEq] at he
    subst he
    obtain ⟨W, hW⟩ := body_head imports attrs
    -- the pieces of the text
    let B := emitImports imports ++ (emitTopMembers attrs ++ ['\n'])
    let R3 := (if ioe then ' ' :: kwIoe else []) ++ (' ' :: '{' :: B)
    let R2 := emitString name ++ R3
    let R1 := T ++ (' ' :: R2)
    have htext : kwObject ++ (' ' :: (T ++ (emitItemTail name ioe imports attrs ++ ['\n']))) = kwObject ++ (' ' :: R1) := by
      simp [emitItemTail, R1, R2, R3, B]
    obtain ⟨hpi, c, t, hct, hc⟩ := parseIdent_emitIdentifier ty T (' ' :: R2) hT (by intro c t e; cases e; decide)
    have h0 : ws true .norm (kwObject ++ (' ' :: R1)) = some (kwObject ++ (' ' :: R1)) := ws_solid true 'o' _ (by decide)
    have h1 : spanIdent (kwObject ++ (' ' :: R1)) = some (kwObject, ' ' :: R1) :=
      spanIdent_ident kwObject _ (by decide) (by intro c t e; cases e; decide)
    have h2 : ws false .norm (' ' :: R1) = some R1 := by
      have hR1 : R1 = c :: t := hct
      rw [ws_space, hR1]; exact ws_solid false c t hc
    have h3 : parseIdent R1 = some (ty, ' ' :: R2) := hpi
    have h4 : ws false .norm (' ' :: R2) = some R2 := by
      rw [ws_space]; exact ws_solid false '"' _ (by decide)
    have h5 : lexString R2 = some (name, R3) := lexString_emitString name hname R3
    have h6 : parseIoeBrace R3 = some (ioe, B) := by
      show parseIoeBrace ((if ioe then ' ' :: kwIoe else []) ++ (' ' :: '{' :: B)) = _
      have : B = '\n' :: W := hW
      rw [this]; exact parseIoeBrace_emit ioe W
    have h7 : parseStmtsF (B.length + 1) B = some (importStmts imports ++ attrStmts attrs, ['\n']) :=
      bodyOk imports attrs hi ha _ (by have hb : imports.length + attrs.length + 2 ≤ B.length := body_length imports attrs; omega)
    have h8 : ws true .norm ['\n'] = some [] := by simp [ws]
    rw [htext]
    simp only [parseItem, h0, h1, h2, h3, h4, h5, h6, h7, h8, if_true, stmtImports_append, stmtAssigns_append]

/-! ## friendlier hypotheses -/

theorem splitDots_mem (k : Str) :
    (∀ c ∈ (splitDots k).1, c ∈ k) ∧ (∀ t ∈ (splitDots k).2, ∀ c ∈ t, c ∈ k) := by
  induction k with
  | nil => simp [splitDots]
  | cons a as ih =>
    by_cases ha : a = '.'
    · simp only [splitDots, ha, if_true]
      refine ⟨by simp, ?_⟩
      intro t ht c hc
      simp at ht
      rcases ht with ht | ht
      · subst ht; exact List.mem_cons_of_mem _ (ih.1 c hc)
      · exact List.mem_cons_of_mem _ (ih.2 t ht c hc)
    · simp only [splitDots, ha, if_false]
      refine ⟨?_, ?_⟩
      · intro c hc
        simp at hc
        rcases hc with hc | hc
        · simp [hc]
        · exact List.mem_cons_of_mem _ (ih.1 c hc)
      · intro t ht c hc
        exact List.mem_cons_of_mem _ (ih.2 t ht c hc)

/-- an attribute is covered when its key is NUL-free and its value is safe -/
theorem AttrOk.of (k : Str) (v : Value) (hk : chNUL ∉ k) (hv : VSafe v) : AttrOk (k, v) := by
  refine ⟨fun h => hk ((splitDots_mem k).1 _ h), ?_, hv⟩
  intro t ht h
  exact hk ((splitDots_mem k).2 t ht _ h)

/-! ## faithfulness of the values -/

/-- two decimals denote the same number -/
def Dec.same (a b : Dec) : Prop := a.neg = b.neg ∧ a.mant * 10 ^ b.scale = b.mant * 10 ^ a.scale

mutual
/-- equal up to the spelling of numbers -/
def VEq : Value → Value → Prop
  | .num a, w => ∃ b, w = .num b ∧ Dec.same a b
  | .arr xs, w => ∃ ys, w = .arr ys ∧ VsEq xs ys
  | .dict kvs, w => ∃ lws, w = .dict lws ∧ MsEq kvs lws
  | .empty, w => w = .empty
  | .bool b, w => w = .bool b
  | .str s, w => w = .str s
def VsEq : List Value → List Value → Prop
  | [], ys => ys = []
  | x :: xs, ys => ∃ y ys', ys = y :: ys' ∧ VEq x y ∧ VsEq xs ys'
def MsEq : List (Str × Value) → List (Str × Value) → Prop
  | [], lws => lws = []
  | (k, v) :: r, lws => ∃ w r', lws = (k, w) :: r' ∧ VEq v w ∧ MsEq r r'
end

mutual
/-- every number has at most six fractional decimal digits -/
def VExact : Value → Prop
  | .num d => d.scale ≤ 6
  | .arr xs => VsExact xs
  | .dict kvs => MsExact kvs
  | .empty => True
  | .bool _ => True
  | .str _ => True
def VsExact : List Value → Prop
  | [] => True
  | x :: xs => VExact x ∧ VsExact xs
def MsExact : List (Str × Value) → Prop
  | [] => True
  | (_, v) :: r => VExact v ∧ MsExact r
end

theorem round6_same (d : Dec) (h : d.scale ≤ 6) : Dec.same (round6 d) d := by
  simp only [Dec.same, round6, micro, h, if_true]
  refine ⟨trivial, ?_⟩
  rw [Nat.mul_assoc, ← Nat.pow_add]
  congr 2
  omega

mutual
theorem round6V_faithful : (v : Value) → VExact v → VEq (round6V v) v
  | .empty, _ => by simp [round6V, VEq]
  | .bool b, _ => by simp [round6V, VEq]
  | .str s, _ => by simp [round6V, VEq]
  | .num d, h => by
    simp only [round6V, VEq]
    exact ⟨d, rfl, round6_same d (by simpa [VExact] using h)⟩
  | .arr xs, h => by
    simp only [round6V, VEq]
    exact ⟨xs, rfl, round6Vs_faithful xs (by simpa [VExact] using h)⟩
  | .dict kvs, h => by
    simp only [round6V, VEq]
    exact ⟨kvs, rfl, round6Ms_faithful kvs (by simpa [VExact] using h)⟩
theorem round6Vs_faithful : (xs : List Value) → VsExact xs → VsEq (round6Vs xs) xs
  | [], _ => by simp [round6Vs, VsEq]
  | x :: xs, h => by
    have h' : VExact x ∧ VsExact xs := by simpa [VsExact] using h
    simp only [round6Vs, VsEq]
    exact ⟨x, xs, rfl, round6V_faithful x h'.1, round6Vs_faithful xs h'.2⟩
theorem round6Ms_faithful : (kvs : List (Str × Value)) → MsExact kvs → MsEq (round6Ms kvs) kvs
  | [], _ => by simp [round6Ms, MsEq]
  | (k, v) :: r, h => by
    have h' : VExact v ∧ MsExact r := by simpa [MsExact] using h
    simp only [round6Ms, MsEq]
    exact ⟨v, r, rfl, round6V_faithful v h'.1, round6Ms_faithful r h'.2⟩
end

end Icinga.C17

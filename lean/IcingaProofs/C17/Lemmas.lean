/-
  C17 — helper lemmas: string literal round trip, blanks, digits, identifiers.
-/
import IcingaModel.C17.Model

namespace Icinga.C17

/-! ## string literals -/

theorem lexStr_cons_plain (c : Char) (r : Str) (h1 : c ≠ '"') (h2 : c ≠ '\n') (h3 : c ≠ '\\') (h4 : c ≠ chNUL) :
    lexStr (.plain false) (c :: r) =
      match lexStr (.plain false) r with
      | none => none
      | some (s, t) => some (c :: s, t) := by
  have hp : plainStep false c = .next (.plain false) [c] := by simp [plainStep, h1, h2, h3, h4]
  simp only [lexStr, strStep, hp]
  cases lexStr (.plain false) r with
  | none => rfl
  | some p => rfl

theorem lexStr_esc (e x : Char) (r : Str) (h : escStep e = .next (.plain false) [x]) :
    lexStr (.plain false) ('\\' :: e :: r) =
      match lexStr (.plain false) r with
      | none => none
      | some (s, t) => some (x :: s, t) := by
  have h0 : plainStep false '\\' = .next .esc [] := by decide
  simp only [lexStr, strStep, h0, h]
  cases lexStr (.plain false) r with
  | none => rfl
  | some p => rfl

theorem lexStr_escChar (c : Char) (r : Str) (hc : c ≠ chNUL) :
    lexStr (.plain false) (escChar c ++ r) =
      match lexStr (.plain false) r with
      | none => none
      | some (s, t) => some (c :: s, t) := by
  unfold escChar
  split
  · subst_vars; exact lexStr_esc '\\' '\\' r (by decide)
  split
  · subst_vars; exact lexStr_esc 'n' '\n' r (by decide)
  split
  · subst_vars; exact lexStr_esc 't' '\t' r (by decide)
  split
  · subst_vars; exact lexStr_esc 'r' '\r' r (by decide)
  split
  · subst_vars; exact lexStr_esc 'b' chBS r (by decide)
  split
  · subst_vars; exact lexStr_esc 'f' chFF r (by decide)
  split
  · subst_vars; exact lexStr_esc '"' '"' r (by decide)
  · rename_i h1 h2 h3 h4 h5 h6 h7
    exact lexStr_cons_plain c r h7 h2 h1 hc

theorem lexStr_quote (rest : Str) : lexStr (.plain false) ('"' :: rest) = some ([], rest) := by
  simp [lexStr, strStep, plainStep]

theorem lexStr_escape (s : Str) (hs : chNUL ∉ s) (rest : Str) :
    lexStr (.plain false) (escapeIcingaString s ++ '"' :: rest) = some (s, rest) := by
  induction s with
  | nil => simpa [escapeIcingaString] using lexStr_quote rest
  | cons c cs ih =>
    have hc : c ≠ chNUL := fun h => hs (by simp [h])
    have hcs : chNUL ∉ cs := fun h => hs (by simp [h])
    simp only [escapeIcingaString, List.append_assoc]
    rw [lexStr_escChar c _ hc, ih hcs]

theorem lexString_emitString (s : Str) (hs : chNUL ∉ s) (rest : Str) :
    lexString (emitString s ++ rest) = some (s, rest) := by
  simp only [emitString, List.cons_append, List.append_assoc, lexString, if_true]
  exact lexStr_escape s hs rest

end Icinga.C17

/-
  C17 — helper lemmas for the emit/parse round trip: blanks, digits and numbers, identifiers, keys.
-/
import IcingaProofs.C17.Lemmas

namespace Icinga.C17

/-! ## blanks -/

/-- a character at which blank-skipping stops (in either mode) -/
def solid (c : Char) : Bool :=
  !(c == ' ' || c == '\t' || c == '\n' || c == '\r' || c == '#' || c == '/')

theorem ws_solid (nl : Bool) (c : Char) (r : Str) (h : solid c = true) :
    ws nl .norm (c :: r) = some (c :: r) := by
  simp [solid] at h
  obtain ⟨⟨⟨⟨⟨h1, h2⟩, h3⟩, h4⟩, h5⟩, h6⟩ := h
  simp [ws, h1, h2, h3, h4, h5, h6]

theorem ws_space (nl : Bool) (r : Str) : ws nl .norm (' ' :: r) = ws nl .norm r := by
  simp [ws]

theorem ws_tab (nl : Bool) (r : Str) : ws nl .norm ('\t' :: r) = ws nl .norm r := by
  simp [ws]

theorem ws_true_nl (r : Str) : ws true .norm ('\n' :: r) = ws true .norm r := by
  simp [ws]

theorem ws_false_nl (r : Str) : ws false .norm ('\n' :: r) = some ('\n' :: r) := by
  simp [ws]

theorem ws_tabs (nl : Bool) (n : Nat) (r : Str) : ws nl .norm (tabs n ++ r) = ws nl .norm r := by
  induction n with
  | zero => simp [tabs]
  | succ n ih =>
    have : tabs (n + 1) = '\t' :: tabs n := by simp [tabs, List.replicate_succ]
    rw [this, List.cons_append, ws_tab, ih]

/-! ## digits -/

theorem digitChar_toNat : ∀ k, k < 10 → (digitChar k).toNat = 48 + k := by decide

theorem digitChar_isDigit (k : Nat) (h : k < 10) : isDigit (digitChar k) = true := by
  have := digitChar_toNat k h
  simp [isDigit, this]; omega

theorem digitsVal_snoc (l : Str) (c : Char) : digitsVal (l ++ [c]) = digitsVal l * 10 + (c.toNat - 48) := by
  simp [digitsVal, List.foldl_append]

theorem revDigitsF_val : ∀ (f n : Nat), n < f → digitsVal (revDigitsF f n).reverse = n := by
  intro f
  induction f with
  | zero => intro n h; omega
  | succ f ih =>
    intro n h
    unfold revDigitsF
    split
    · rename_i h10
      simp [digitsVal, digitChar_toNat n h10]
    · rename_i h10
      have hlt : n / 10 < f := by omega
      rw [List.reverse_cons, digitsVal_snoc, ih _ hlt, digitChar_toNat _ (Nat.mod_lt _ (by omega))]
      omega

theorem revDigitsF_digits : ∀ (f n : Nat), ∀ c ∈ revDigitsF f n, isDigit c = true := by
  intro f
  induction f with
  | zero => intro n c h; simp [revDigitsF] at h
  | succ f ih =>
    intro n c h
    unfold revDigitsF at h
    split at h
    · rename_i h10
      simp at h; subst h; exact digitChar_isDigit n h10
    · simp at h
      rcases h with h | h
      · subst h; exact digitChar_isDigit _ (Nat.mod_lt _ (by omega))
      · exact ih _ c h

theorem revDigitsF_ne_nil (f n : Nat) : revDigitsF (f + 1) n ≠ [] := by
  unfold revDigitsF; split <;> simp

theorem natToDec_val (n : Nat) : digitsVal (natToDec n) = n := revDigitsF_val (n + 1) n (by omega)

theorem natToDec_digits (n : Nat) : ∀ c ∈ natToDec n, isDigit c = true := by
  intro c h
  exact revDigitsF_digits (n + 1) n c (by simpa [natToDec] using h)

theorem natToDec_ne_nil (n : Nat) : natToDec n ≠ [] := by
  simp [natToDec, revDigitsF_ne_nil]

theorem pad6_digits (m : Nat) : ∀ c ∈ pad6 m, isDigit c = true := by
  intro c h
  simp [pad6] at h
  rcases h with h | h | h | h | h | h <;> subst h <;> exact digitChar_isDigit _ (Nat.mod_lt _ (by omega))

theorem digitsVal_append_pad6 (a : Str) (m : Nat) (h : m < 1000000) :
    digitsVal (a ++ pad6 m) = digitsVal a * 1000000 + m := by
  simp only [digitsVal, pad6, List.foldl_append, List.foldl_cons, List.foldl_nil]
  rw [digitChar_toNat _ (Nat.mod_lt _ (by omega)), digitChar_toNat _ (Nat.mod_lt _ (by omega)),
    digitChar_toNat _ (Nat.mod_lt _ (by omega)), digitChar_toNat _ (Nat.mod_lt _ (by omega)),
    digitChar_toNat _ (Nat.mod_lt _ (by omega)), digitChar_toNat _ (Nat.mod_lt _ (by omega))]
  omega

/-! ## spans -/

/-- the input after a token: empty, or starting with a character the token's class rejects -/
def Stops (p : Char → Bool) (rest : Str) : Prop := ∀ c t, rest = c :: t → p c = false

theorem span_loop_append_stops (p : Char → Bool) (l rest : Str) (hl : ∀ c ∈ l, p c = true) (hr : Stops p rest) :
    ∀ acc : Str, List.span.loop p (l ++ rest) acc = (acc.reverse ++ l, rest) := by
  induction l with
  | nil =>
    intro acc
    cases rest with
    | nil => simp [List.span.loop]
    | cons c t => simp [List.span.loop, hr c t rfl]
  | cons a l ih =>
    intro acc
    have ha := hl a (by simp)
    simp only [List.cons_append, List.span.loop, ha]
    rw [ih (fun c hc => hl c (by simp [hc]))]
    simp

theorem span_append_stops (p : Char → Bool) (l rest : Str) (hl : ∀ c ∈ l, p c = true) (hr : Stops p rest) :
    (l ++ rest).span p = (l, rest) := by
  simp [List.span, span_loop_append_stops p l rest hl hr]

/-! ## what may follow a value -/

/-- the input after a value: empty, or starting with a character that cannot extend an identifier or
    number token and is not a second closing brace (the writer puts ` `, `,` or a line break there) -/
def RestOk (rest : Str) : Prop := ∀ c t, rest = c :: t → isIdChar c = false ∧ c ≠ '.' ∧ c ≠ '}'

theorem RestOk.cons (c : Char) (t : Str) (h1 : isIdChar c = false) (h2 : c ≠ '.') (h3 : c ≠ '}') :
    RestOk (c :: t) := by
  intro c' t' h; cases h; exact ⟨h1, h2, h3⟩

theorem RestOk.nil : RestOk [] := by intro c t h; cases h

theorem RestOk.stopsId {rest : Str} (h : RestOk rest) : Stops isIdChar rest := fun c t e => (h c t e).1

theorem RestOk.stopsDigit {rest : Str} (h : RestOk rest) : Stops isDigit rest := by
  intro c t e
  have := (h c t e).1
  simp [isIdChar] at this
  exact this.2

theorem RestOk.numEnd {rest : Str} (h : RestOk rest) : numEnd rest = true := by
  cases rest with
  | nil => rfl
  | cons c t =>
    have := h c t rfl
    simp [C17.numEnd, this.1, this.2.1]

theorem ne_of_class {p : Char → Bool} {c x : Char} (hc : p c = true) (hx : p x = false) : c ≠ x := by
  intro h; subst h; simp [hc] at hx

/-! ## numbers -/

theorem parseNumber_fixed (i m : Nat) (hm : m < 1000000) (rest : Str) (hr : RestOk rest) :
    parseNumber (natToDec i ++ ('.' :: (pad6 m ++ rest))) =
      some ({ neg := false, mant := i * 1000000 + m, scale := 6 }, rest) := by
  have h1 : (natToDec i ++ ('.' :: (pad6 m ++ rest))).span isDigit = (natToDec i, '.' :: (pad6 m ++ rest)) :=
    span_append_stops _ _ _ (natToDec_digits i) (by intro c t e; cases e; decide)
  have h2 : (pad6 m ++ rest).span isDigit = (pad6 m, rest) :=
    span_append_stops _ _ _ (pad6_digits m) hr.stopsDigit
  have h3 : digitsVal (natToDec i ++ pad6 m) = i * 1000000 + m := by
    rw [digitsVal_append_pad6 _ _ hm, natToDec_val]
  have h4 : (pad6 m).length = 6 := rfl
  have h5 : pad6 m ≠ [] := by simp [pad6]
  simp [parseNumber, h1, h2, h3, h4, h5, natToDec_ne_nil, hr.numEnd]

theorem micro_split (d : Dec) : micro d / 1000000 * 1000000 + micro d % 1000000 = micro d := by omega

theorem natToDec_head (n : Nat) : ∃ c t, natToDec n = c :: t ∧ isDigit c = true := by
  cases h : natToDec n with
  | nil => exact absurd h (natToDec_ne_nil n)
  | cons c t => exact ⟨c, t, rfl, natToDec_digits n c (by simp [h])⟩

theorem digit_solid {c : Char} (h : isDigit c = true) : solid c = true := by
  have h1 := ne_of_class h (by decide : isDigit ' ' = false)
  have h2 := ne_of_class h (by decide : isDigit '\t' = false)
  have h3 := ne_of_class h (by decide : isDigit '\n' = false)
  have h4 := ne_of_class h (by decide : isDigit '\r' = false)
  have h5 := ne_of_class h (by decide : isDigit '#' = false)
  have h6 := ne_of_class h (by decide : isDigit '/' = false)
  simp [solid, h1, h2, h3, h4, h5, h6]

theorem parseValueF_digitStart (f : Nat) (c : Char) (t : Str) (hc : isDigit c = true) :
    parseValueF (f + 1) (c :: t) =
      match parseNumber (c :: t) with
      | some (d, r) => some (.num d, r)
      | none => none := by
  have h1 := ne_of_class hc (by decide : isDigit '"' = false)
  have h2 := ne_of_class hc (by decide : isDigit '[' = false)
  have h3 := ne_of_class hc (by decide : isDigit '{' = false)
  have h4 := ne_of_class hc (by decide : isDigit '-' = false)
  simp only [parseValueF, h1, h2, h3, h4, hc, if_false, if_true]
  cases parseNumber (c :: t) with
  | none => rfl
  | some p => rfl

theorem parseValueF_emitNumber (d : Dec) (f : Nat) (rest : Str) (hr : RestOk rest) :
    parseValueF (f + 1) (emitNumber d ++ rest) = some (.num (round6 d), rest) := by
  have hm : micro d % 1000000 < 1000000 := Nat.mod_lt _ (by omega)
  have hp := parseNumber_fixed (micro d / 1000000) (micro d % 1000000) hm rest hr
  rw [micro_split] at hp
  obtain ⟨c, t, hct, hc⟩ := natToDec_head (micro d / 1000000)
  cases hneg : d.neg with
  | false =>
    simp only [emitNumber, hneg, Bool.false_eq_true, if_false, List.nil_append, List.append_assoc, List.cons_append]
    rw [hct] at hp ⊢
    rw [List.cons_append] at hp ⊢
    rw [parseValueF_digitStart f c _ hc, hp]
    simp [round6, hneg]
  | true =>
    simp only [emitNumber, hneg, if_true, List.cons_append, List.nil_append, List.append_assoc]
    rw [hct] at hp ⊢
    rw [List.cons_append] at hp ⊢
    have hw := ws_solid false c (t ++ ('.' :: (pad6 (micro d % 1000000) ++ rest))) (digit_solid hc)
    simp only [parseValueF, hw, hc, hp]
    simp [round6, hneg]

/-! ## identifiers and keys -/

theorem isIdent_cons {k : Str} (h : isIdent k = true) :
    ∃ c t, k = c :: t ∧ isIdStart c = true ∧ ∀ x ∈ k, isIdChar x = true := by
  cases k with
  | nil => simp [isIdent] at h
  | cons c t =>
    simp [isIdent] at h
    refine ⟨c, t, rfl, h.1, ?_⟩
    intro x hx
    simp at hx
    rcases hx with hx | hx
    · subst hx; simp [isIdChar, h.1]
    · exact h.2 x hx

theorem spanIdent_ident (k rest : Str) (hk : isIdent k = true) (hr : Stops isIdChar rest) :
    spanIdent (k ++ rest) = some (k, rest) := by
  obtain ⟨c, t, rfl, hc, hall⟩ := isIdent_cons hk
  have := span_append_stops isIdChar (c :: t) rest hall hr
  simp only [List.cons_append] at this ⊢
  simp [spanIdent, hc, this]

theorem idStart_solid {c : Char} (h : isIdStart c = true) : solid c = true := by
  have h1 := ne_of_class h (by decide : isIdStart ' ' = false)
  have h2 := ne_of_class h (by decide : isIdStart '\t' = false)
  have h3 := ne_of_class h (by decide : isIdStart '\n' = false)
  have h4 := ne_of_class h (by decide : isIdStart '\r' = false)
  have h5 := ne_of_class h (by decide : isIdStart '#' = false)
  have h6 := ne_of_class h (by decide : isIdStart '/' = false)
  simp [solid, h1, h2, h3, h4, h5, h6]

theorem writerKeywords_ident : ∀ k ∈ writerKeywords, isIdent k = true := by decide

def kwDebugger : Str := ['d','e','b','u','g','g','e','r']
def kwIn : Str := ['i','n']

/-- a key/name the round trip covers: no U+0000 (F-C17b).  Nothing else: every lexer keyword is in the
    writer's list (3c83e1d added `in` and `debugger`) and is written `@keyword`. -/
def KeyOk (k : Str) : Prop := chNUL ∉ k

theorem lexerKeywords_sub_writer : ∀ k ∈ lexerKeywords, k ∈ writerKeywords := by decide

theorem not_lexerKeyword {k : Str} (h1 : k ∉ writerKeywords) : k ∉ lexerKeywords :=
  fun h => h1 (lexerKeywords_sub_writer k h)

/-- the first character of an emitted key: never blank, `}` … -/
def keyHead (c : Char) : Prop := solid c = true ∧ c ≠ '}'

theorem emitKey_head (k tail : Str) : ∃ c t, emitKey k ++ tail = c :: t ∧ keyHead c := by
  unfold emitKey
  split
  · exact ⟨'@', _, rfl, by decide, by decide⟩
  · split
    · rename_i h
      obtain ⟨c, t, rfl, hc, _⟩ := isIdent_cons h
      exact ⟨c, _, rfl, idStart_solid hc, ne_of_class hc (by decide)⟩
    · exact ⟨'"', _, rfl, by decide, by decide⟩

theorem parseIdent_at (k rest : Str) (hk : isIdent k = true) (hr : Stops isIdChar rest) :
    parseIdent ('@' :: (k ++ rest)) = some (k, rest) := by
  simp [parseIdent, spanIdent_ident k rest hk hr]

theorem parseIdent_bare (k rest : Str) (hk : isIdent k = true) (hr : Stops isIdChar rest)
    (hkw : k ∉ lexerKeywords) : parseIdent (k ++ rest) = some (k, rest) := by
  have hs := spanIdent_ident k rest hk hr
  obtain ⟨c, t, rfl, hc, _⟩ := isIdent_cons hk
  have hne : c ≠ '@' := ne_of_class hc (by decide)
  simp only [List.cons_append] at hs ⊢
  simp [parseIdent, hne, hs, hkw]

theorem parseKey_emitKey (k rest : Str) (hk : KeyOk k) (hr : Stops isIdChar rest) :
    parseKey (emitKey k ++ rest) = some (k, rest) := by
  unfold emitKey
  split
  · rename_i hkw
    have := parseIdent_at k rest (writerKeywords_ident k hkw) hr
    simp only [List.cons_append]
    simpa [parseKey] using this
  · rename_i hkw
    split
    · rename_i hid
      have hb := parseIdent_bare k rest hid hr (not_lexerKeyword hkw)
      obtain ⟨c, t, rfl, hc, _⟩ := isIdent_cons hid
      have hne : c ≠ '"' := ne_of_class hc (by decide)
      simp only [List.cons_append] at hb ⊢
      simp [parseKey, hne, hb]
    · have := lexStr_escape k hk rest
      simp only [emitString, List.cons_append, List.append_assoc]
      simpa [parseKey] using this

end Icinga.C17

/-
  C17 — invariants of the create/delete state machine along every operation sequence: whatever `removeObj` and
  `deactivateObj` preserve, a (cascading, possibly aborted) delete preserves; every registered configuration item
  belongs to a registered object.
-/
import IcingaProofs.C17.DeleteLemmas
namespace Icinga.C17

/-- every registered configuration item belongs to a registered object -/
def ItemsOwned (st : St) : Prop := ∀ k ∈ st.items, st.has k = true

theorem deleteChildren_preserves (P : St → Prop) (rec : St → Obj → St × Bool) (hrec : ∀ s co, P s → P (rec s co).1) :
    ∀ (cs : List Key) (s : St), P s → P (deleteChildren rec cs s).1 := by
  intro cs
  induction cs with
  | nil => intro s h; exact h
  | cons c cs ih =>
    intro s h
    simp only [deleteChildren]
    split
    · split
      · exact ih _ (hrec _ _ h)
      · exact hrec _ _ h
    · exact ih s h

/-- whatever `removeObj` and `deactivateObj` preserve, the whole (cascading, possibly aborted) helper preserves -/
theorem deleteHelper_preserves (P : St → Prop) (hr : ∀ s o, P s → P (removeObj s o))
    (hd : ∀ s o, P s → P (deactivateObj s o)) :
    ∀ (f : Nat) (st : St) (o : Obj) (c : Bool) (busy : List Key) (thr : Option Key),
      P st → P (deleteHelper f st o c busy thr).1 := by
  have hfin : ∀ s o thr, P s → P (finishDelete s o thr).1 := by
    intro s o thr h
    unfold finishDelete
    split
    · exact hd s o h
    · exact hr s o h
  intro f
  induction f with
  | zero =>
    intro st o c busy thr h
    simp only [deleteHelper]
    split
    · exact h
    · exact hfin st o thr h
  | succ f ih =>
    intro st o c busy thr h
    simp only [deleteHelper]
    split
    · exact h
    · split
      · exact h
      · have hch := deleteChildren_preserves P (fun s co => deleteHelper f s co c (o.key :: busy) thr)
          (fun s co hs => ih s co c _ thr hs) (children st o.key) st h
        split
        · exact hfin _ o thr hch
        · exact hch

theorem deleteObject_preserves (P : St → Prop) (hr : ∀ s o, P s → P (removeObj s o))
    (hd : ∀ s o, P s → P (deactivateObj s o)) (st : St) (k : Key) (c : Bool) (thr : Option Key) (h : P st) :
    P (deleteObject st k c thr).1 := by
  unfold deleteObject
  split
  · exact h
  · split
    · exact h
    · exact deleteHelper_preserves P hr hd _ _ _ _ _ _ h

theorem has_true_iff (st : St) (k : Key) : st.has k = true ↔ k ∈ st.keys := by
  simp [St.has, St.keys]

theorem removeObj_itemsOwned (s : St) (o : Obj) (h : ItemsOwned s) : ItemsOwned (removeObj s o) := by
  intro k hk
  simp only [removeObj, List.mem_filter] at hk
  have hne : k ≠ o.key := by simpa using hk.2
  have := (has_true_iff s k).mp (h k hk.1)
  rw [has_true_iff]
  simp only [St.keys, List.mem_map] at this ⊢
  obtain ⟨x, hx, e⟩ := this
  refine ⟨x, ?_, e⟩
  simp only [removeObj, List.mem_filter]
  refine ⟨hx, ?_⟩
  rw [e]; simpa using hne

theorem deactivateObj_itemsOwned (s : St) (o : Obj) (h : ItemsOwned s) : ItemsOwned (deactivateObj s o) := by
  intro k hk
  rw [has_true_iff, deactivateObj_keys, ← has_true_iff]
  exact h k hk

theorem createObject_itemsOwned (st : St) (k : Key) (p : Str) (ps : List Key) (f : Fault) (api : Bool) (g : List Key)
    (h : ItemsOwned st) : ItemsOwned (createObject st k p ps f api g).1 := by
  have hsub : ∀ x ∈ st.items.filter (· ≠ k), st.has x = true := fun x hx => h x (List.mem_filter.mp hx).1
  unfold createObject
  by_cases hk : st.has k = true
  · simpa [hk] using h
  · have hk' : st.has k = false := by simpa using hk
    by_cases hg : genOk st k g = true
    · cases f <;> simp only [hk', hg, Fault.leftInHostMap] <;> (intro x hx; simp [St.has] at hx ⊢; simp [ItemsOwned, St.has] at h; grind)
    · have hg' : genOk st k g = false := by simpa using hg
      cases f <;> simp only [hk', hg', Fault.leftInHostMap] <;> (intro x hx; simp [St.has] at hx ⊢; simp [ItemsOwned, St.has] at h; grind)

theorem step_itemsOwned (st : St) (op : Op) (h : ItemsOwned st) : ItemsOwned (step st op) := by
  cases op with
  | create k p ps f a g => exact createObject_itemsOwned st k p ps f a g h
  | delete k c t =>
    exact deleteObject_preserves ItemsOwned removeObj_itemsOwned deactivateObj_itemsOwned st k c t h

end Icinga.C17

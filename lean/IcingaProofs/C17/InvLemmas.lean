/-
  C17 — invariants of the create/delete state machine along every operation sequence: whatever `removeObj` and
  `deactivateObj` preserve, a (cascading, possibly aborted) delete preserves; every registered configuration item
  belongs to a registered object.
-/
import IcingaProofs.C17.DeleteLemmas
namespace Icinga.C17

/-- every registered configuration item belongs to a registered object -/
def ItemsOwned (st : St) : Prop := ∀ k ∈ st.items, st.has k = true

theorem foldl_preserves (P : St → Prop) (g : St → Key → St) (hg : ∀ s c, P s → P (g s c)) (cs : List Key) :
    ∀ st : St, P st → P (cs.foldl g st) := by
  induction cs with
  | nil => intro st h; exact h
  | cons c cs ih => intro st h; exact ih (g st c) (hg st c h)

/-- whatever `removeObj` and `deactivateObj` preserve, the whole (cascading, possibly aborted) helper preserves -/
theorem deleteHelper_preserves (P : St → Prop) (hr : ∀ s o, P s → P (removeObj s o))
    (hd : ∀ s o, P s → P (deactivateObj s o)) :
    ∀ (f : Nat) (st : St) (o : Obj) (c : Bool) (busy : List Key) (thr : Option Key),
      P st → P (deleteHelper f st o c busy thr).1 := by
  have hfin : ∀ s o thr, P s → P (finishDelete s o thr).1 := by
    intro s o thr h
    unfold finishDelete
    split
    · exact hd s o h
    · exact hr s o h
  intro f
  induction f with
  | zero => intro st o c busy thr h; exact hfin st o thr h
  | succ f ih =>
    intro st o c busy thr h
    simp only [deleteHelper]
    split
    · exact h
    · split
      · exact h
      · apply hfin
        apply foldl_preserves P _ _ _ st h
        intro s k hs
        unfold deleteChild
        split
        · exact ih _ _ _ _ _ hs
        · exact hs

theorem deleteObject_preserves (P : St → Prop) (hr : ∀ s o, P s → P (removeObj s o))
    (hd : ∀ s o, P s → P (deactivateObj s o)) (st : St) (k : Key) (c : Bool) (thr : Option Key) (h : P st) :
    P (deleteObject st k c thr).1 := by
  unfold deleteObject
  split
  · exact h
  · split
    · exact h
    · exact deleteHelper_preserves P hr hd _ _ _ _ _ _ h

theorem has_true_iff (st : St) (k : Key) : st.has k = true ↔ k ∈ st.keys := by
  simp [St.has, St.keys]

theorem removeObj_itemsOwned (s : St) (o : Obj) (h : ItemsOwned s) : ItemsOwned (removeObj s o) := by
  intro k hk
  simp only [removeObj, List.mem_filter] at hk
  have hne : k ≠ o.key := by simpa using hk.2
  have := (has_true_iff s k).mp (h k hk.1)
  rw [has_true_iff]
  simp only [St.keys, List.mem_map] at this ⊢
  obtain ⟨x, hx, e⟩ := this
  refine ⟨x, ?_, e⟩
  simp only [removeObj, List.mem_filter]
  refine ⟨hx, ?_⟩
  rw [e]; simpa using hne

theorem deactivateObj_itemsOwned (s : St) (o : Obj) (h : ItemsOwned s) : ItemsOwned (deactivateObj s o) := by
  intro k hk
  rw [has_true_iff, deactivateObj_keys, ← has_true_iff]
  exact h k hk

theorem createObject_itemsOwned (st : St) (k : Key) (p : Str) (ps : List Key) (f : Fault) (api : Bool) (g : List Key)
    (h : ItemsOwned st) : ItemsOwned (createObject st k p ps f api g).1 := by
  have hsub : ∀ x ∈ st.items.filter (· ≠ k), st.has x = true := fun x hx => h x (List.mem_filter.mp hx).1
  unfold createObject
  by_cases hk : st.has k = true
  · simpa [hk] using h
  · have hk' : st.has k = false := by simpa using hk
    by_cases hg : genOk st k g = true
    · cases f <;> simp only [hk', hg, Fault.leftInHostMap] <;> (intro x hx; simp [St.has] at hx ⊢; simp [ItemsOwned, St.has] at h; grind)
    · have hg' : genOk st k g = false := by simpa using hg
      cases f <;> simp only [hk', hg', Fault.leftInHostMap] <;> (intro x hx; simp [St.has] at hx ⊢; simp [ItemsOwned, St.has] at h; grind)

theorem step_itemsOwned (st : St) (op : Op) (h : ItemsOwned st) : ItemsOwned (step st op) := by
  cases op with
  | create k p ps f a g => exact createObject_itemsOwned st k p ps f a g h
  | delete k c t =>
    exact deleteObject_preserves ItemsOwned removeObj_itemsOwned deactivateObj_itemsOwned st k c t h

end Icinga.C17

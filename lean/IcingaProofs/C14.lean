/-
  C14 — state and modified attributes survive restart; files old-or-new at any crash.
  Property theorems (every `theorem` here is a proof obligation the check audits).
-/
import IcingaProofs.C14.Lemmas
import IcingaProofs.C14.SerialLemmas
import IcingaProofs.C14.FsLemmas
import IcingaProofs.C14.DumpLemmas
import IcingaProofs.C20

namespace Icinga.C14

open Icinga.C20 (JValue NumCodec Bytes jsonEncode jsonDecode nsEncode nsEncodeAll nsReadAll json_roundtrip
  json_roundtrip_int intCodec frames_split_regardless_of_chunking bufLimitExceeded depth jsonMaxNestingDepth)

/-! ## (a) modify / restore

  Full statement (what the property says, **false of the pinned code**):

      theorem modify_restore_identity (o : Obj N) (p : Path) (v : JValue N) (o1 o2 : Obj N)
          (hm : modify o p v = .ok o1) (hr : restore o1 p = .ok o2) :
          o2.fields = o.fields

  It fails (1) when `p` did not exist (`Dictionary::Get` yields Empty, which is recorded and written
  back as an explicit null: F-C14a), (2) when something at or below an already modified path is
  modified (the members of the *intermediate* dictionary are recorded as originals: F-C14b), (3) when
  the old value is an empty dictionary (flattening records nothing, the modification can neither be
  restored nor is it persisted: F-C14d).  Proved instead: the identity for existing paths holding a
  non-dictionary (or any top-level attribute) with nothing recorded at or below the path. -/

/-- **modify_restore_partial.**  For every object, every path `p` that currently holds a value `old`
    (`getPath`), where `old` is not a dictionary or `p` is a top-level attribute, with no original
    entry at or below `p`, and every new value `v`: `ModifyAttribute(p, v)` succeeds, the following
    `RestoreAttribute(p)` succeeds, and the object — attribute tree *and* original attributes — is
    exactly what it was (a null `original_attributes` pointer having become the empty dictionary). -/
theorem modify_restore_partial {N : Type} (o : Obj N) (p : Path) (v old : JValue N)
    (hex : getPath o.fields p = some old)
    (hleaf : p.length = 1 ∨ isDict old = false)
    (hfresh : ∀ e ∈ origOf o, isPrefix p e.1 = false) :
    ∃ o1, modify o p v = .ok o1 ∧ restore o1 p = .ok { fields := o.fields, original := some (origOf o) } := by
  generalize horig : origOf o = orig at hfresh
  cases p with
  | nil => simp [getPath] at hex
  | cons f rest =>
    simp only [getPath] at hex
    cases hf : dGet? f o.fields with
    | none => simp [hf] at hex
    | some cur =>
      simp only [hf] at hex
      have hnot : oHas (f :: rest) orig = false := oHas_false_of_fresh hfresh
      cases rest with
      | nil =>
        simp [getIn] at hex
        subst hex
        refine ⟨{ fields := dSet f v o.fields, original := some (oAdd [f] cur orig) }, ?_, ?_⟩
        · simp [modify, hf, horig]
        · simp [restore, dGet_dSet_self v hf, oAdd, hnot, oGet_oInsert_self [f] cur hnot, dSet_cancel v hf,
            filter_ne_oInsert f cur hfresh]
      | cons k ks =>
        have hleaf' : isDict old = false := by
          rcases hleaf with h | h
          · simp at h
          · exact h
        have hne : isEmptyVal cur = false := isEmptyVal_false_of_getIn hex
        obtain ⟨cur', hset, hres, hne'⟩ := setDeep_restoreDeep (k :: ks) [f] cur old v orig (by simp) hex hleaf'
        refine ⟨{ fields := dSet f cur' o.fields, original := some (oAdd (f :: k :: ks) old orig) }, ?_, ?_⟩
        · have : [f] ++ k :: ks = f :: k :: ks := rfl
          rw [this] at hset
          simp [modify, hf, hne, horig, hset]
        · have hlast : List.drop (ks.length + 1) (f :: k :: ks) = lastTok (k :: ks) := by
            simp [lastTok]
          simp [restore, dGet_dSet_self cur' hf, oAdd, hnot, hne', filter_match_oInsert old hfresh,
            filter_nomatch_oInsert old hfresh, hlast, hres, dSet_cancel cur' hf]

section Examples

private def k (s : String) : Key := s.toList

/-- `vars = { a = "s", d = { k = 1 }, e = {} }`, never modified. -/
def sampleObj : Obj Int :=
  { fields := [(['n', 'o', 't', 'e', 's'], .str ['x']),
               (['v', 'a', 'r', 's'], .obj [(['a'], .str ['s']), (['d'], .obj [(['k'], .num 1)]), (['e'], .obj [])])],
    original := none }

def vars : Key := ['v', 'a', 'r', 's']

-- the hypotheses of `modify_restore_partial` are satisfiable on a nested leaf, and the conclusion is what evaluation gives
example : getPath sampleObj.fields [vars, ['d'], ['k']] = some (.num 1) := by decide
example : (match modify sampleObj [vars, ['d'], ['k']] (.obj [(['z'], .null)]) with
    | .ok o1 => restore o1 [vars, ['d'], ['k']]
    | .error e => .error e) = .ok { sampleObj with original := some [] } := by decide

end Examples

/-- **modify_restore_absent_counterexample** (F-C14a).  Modifying `vars.x`, which does not exist, and
    restoring it leaves `"x": null` behind: the full identity is false. -/
theorem modify_restore_absent_counterexample :
    ∃ (o o1 o2 : Obj Int) (p : Path) (v : JValue Int),
      modify o p v = .ok o1 ∧ restore o1 p = .ok o2 ∧ o2.fields ≠ o.fields ∧
        getPath o.fields p = none ∧ getPath o2.fields p = some .null :=
  ⟨sampleObj,
   { fields := [(['n', 'o', 't', 'e', 's'], .str ['x']),
                (vars, .obj [(['a'], .str ['s']), (['d'], .obj [(['k'], .num 1)]), (['e'], .obj []), (['x'], .num 5)])],
     original := some [([vars, ['x']], .null)] },
   { fields := [(['n', 'o', 't', 'e', 's'], .str ['x']),
                (vars, .obj [(['a'], .str ['s']), (['d'], .obj [(['k'], .num 1)]), (['e'], .obj []), (['x'], .null)])],
     original := some [] },
   [vars, ['x']], .num 5, by decide, by decide, by decide, by decide, by decide⟩

/-- **modify_restore_below_counterexample** (F-C14b).  `vars.a` ("s" → `{k = 1}`), then `vars.a.k`
    (1 → 2), then restore `vars.a`: the attribute comes back as the intermediate dictionary `{k = 1}`
    instead of "s", and no original entry is left to repair it. -/
theorem modify_restore_below_counterexample :
    ∃ (o1 o2 o3 : Obj Int),
      modify sampleObj [vars, ['a']] (.obj [(['k'], .num 1)]) = .ok o1 ∧
      modify o1 [vars, ['a'], ['k']] (.num 2) = .ok o2 ∧
      restore o2 [vars, ['a']] = .ok o3 ∧
      getPath sampleObj.fields [vars, ['a']] = some (.str ['s']) ∧
      getPath o3.fields [vars, ['a']] = some (.obj [(['k'], .num 1)]) ∧ o3.original = some [] :=
  ⟨{ fields := [(['n', 'o', 't', 'e', 's'], .str ['x']),
                (vars, .obj [(['a'], .obj [(['k'], .num 1)]), (['d'], .obj [(['k'], .num 1)]), (['e'], .obj [])])],
     original := some [([vars, ['a']], .str ['s'])] },
   { fields := [(['n', 'o', 't', 'e', 's'], .str ['x']),
                (vars, .obj [(['a'], .obj [(['k'], .num 2)]), (['d'], .obj [(['k'], .num 1)]), (['e'], .obj [])])],
     original := some [([vars, ['a']], .str ['s']), ([vars, ['a'], ['k']], .num 1)] },
   { fields := [(['n', 'o', 't', 'e', 's'], .str ['x']),
                (vars, .obj [(['a'], .obj [(['k'], .num 1)]), (['d'], .obj [(['k'], .num 1)]), (['e'], .obj [])])],
     original := some [] },
   by decide, by decide, by decide, by decide, by decide, by decide⟩

/-- **modify_restore_emptydict_counterexample** (F-C14d).  `vars.e` holds the empty dictionary; after
    `ModifyAttribute("vars.e", 5)` nothing at all is recorded (`IsAttributeModified` is false, nothing
    would be written to modified-attributes.conf) and `RestoreAttribute` changes nothing. -/
theorem modify_restore_emptydict_counterexample :
    ∃ (o1 o2 : Obj Int),
      modify sampleObj [vars, ['e']] (.num 5) = .ok o1 ∧ o1.original = some [] ∧
      isModified o1 [vars, ['e']] = false ∧
      restore o1 [vars, ['e']] = .ok o2 ∧ getPath o2.fields [vars, ['e']] = some (.num 5) ∧
      getPath sampleObj.fields [vars, ['e']] = some (.obj []) :=
  ⟨{ fields := [(['n', 'o', 't', 'e', 's'], .str ['x']),
                (vars, .obj [(['a'], .str ['s']), (['d'], .obj [(['k'], .num 1)]), (['e'], .num 5)])],
     original := some [] },
   { fields := [(['n', 'o', 't', 'e', 's'], .str ['x']),
                (vars, .obj [(['a'], .str ['s']), (['d'], .obj [(['k'], .num 1)]), (['e'], .num 5)])],
     original := some [] },
   by decide, by decide, by decide, by decide, by decide, by decide⟩

/-- **restore_clears_original.**  After a successful `RestoreAttribute(p)` the attribute `p` is no longer
    recorded as modified, and for a nested path nothing at or below `p` is (configobject.cpp:303-304,
    311).  (For a top-level attribute only the exact entry goes: entries below it stay; restoring an
    unmodified top-level attribute is a no-op, configobject.cpp:309-310.) -/
theorem restore_clears_original {N : Type} (o o' : Obj N) (p : Path) (h : restore o p = .ok o') (g : Orig N)
    (hg : o.original = some g) :
    ∃ g', o'.original = some g' ∧ (∀ e ∈ g', e.1 ≠ p) ∧ (1 < p.length → ∀ e ∈ g', isPrefix p e.1 = false) := by
  cases p with
  | nil => simp [restore] at h
  | cons f rest =>
    simp only [restore] at h
    cases hf : dGet? f o.fields with
    | none => simp [hf] at h
    | some cur =>
      simp only [hf, hg] at h
      cases rest with
      | nil =>
        simp only at h
        split at h
        · rename_i hnone
          simp at h
          subst h
          exact ⟨g, hg, ne_of_oGet_none hnone, by intro hl; simp at hl⟩
        · simp at h
          subst h
          refine ⟨_, rfl, ?_, ?_⟩
          · intro e he
            simp at he
            exact he.2
          · intro hl; simp at hl
      | cons k ks =>
        simp only at h
        split at h
        · cases h
        · split at h
          · cases h
          · simp at h
            subst h
            refine ⟨_, rfl, ?_, ?_⟩
            · intro e he heq
              simp at he
              rw [heq, isPrefix_refl] at he
              simp at he
            · intro _ e he
              simp at he
              simpa using he.2

example : restore { sampleObj with original := some [([vars, ['a']], .str ['t']), ([vars, ['a'], ['z']], .num 0)] } [vars, ['a']] =
    .ok { fields := [(['n', 'o', 't', 'e', 's'], .str ['x']),
                     (vars, .obj [(['a'], .obj [(['z'], .num 0)]), (['d'], .obj [(['k'], .num 1)]), (['e'], .obj [])])],
          original := some [] } := by decide

-- regression for F-C14f (fixed in /repo by fff98fc): restoring a top-level attribute that is not modified, on an
-- object that has other modifications, changes nothing (before the fix `vars` became Empty)
example : restore { sampleObj with original := some [([['n', 'o', 't', 'e', 's']], .str ['y'])] } [vars] =
    .ok { sampleObj with original := some [([['n', 'o', 't', 'e', 's']], .str ['y'])] } := by decide

/-- **modify_restore_meets_spec_partial.**  Under the hypotheses of `modify_restore_partial` the model's
    two-step trace `modify p v; restore p` from a never-modified object satisfies the executable
    specification `specM` that the driver evaluates on the implementation's observations. -/
theorem modify_restore_meets_spec_partial {N : Type} [DecidableEq N] (o : Obj N) (p : Path) (v old : JValue N)
    (hnone : o.original = none)
    (hex : getPath o.fields p = some old)
    (hleaf : p.length = 1 ∨ isDict old = false) :
    ∃ o1 o2, modify o p v = .ok o1 ∧ restore o1 p = .ok o2 ∧
      specM {} o.fields [(.modify p v, true, o1.fields), (.restore p, true, o2.fields)] = none := by
  obtain ⟨o1, hm, hr⟩ := modify_restore_partial o p v old hex hleaf (by simp [origOf, hnone])
  refine ⟨o1, _, hm, hr, ?_⟩
  simp [specM, specStepM, gLookup, dormantOf]

-- the specification is not vacuous: the trace the pinned code produces for F-C14a is rejected
example : specM (N := Int) {} sampleObj.fields
    [(.modify [vars, ['x']] (.num 5), true,
        [(['n', 'o', 't', 'e', 's'], .str ['x']),
         (vars, .obj [(['a'], .str ['s']), (['d'], .obj [(['k'], .num 1)]), (['e'], .obj []), (['x'], .num 5)])]),
     (.restore [vars, ['x']], true,
        [(['n', 'o', 't', 'e', 's'], .str ['x']),
         (vars, .obj [(['a'], .str ['s']), (['d'], .obj [(['k'], .num 1)]), (['e'], .obj []), (['x'], .null)])])]
    = some .restoreIdentity := by decide

/-! ### a whole attribute modified and restored while a modification below it is outstanding

  "A modified attribute restored through the API returns exactly to its original value" also after the attribute
  above it was modified as a whole and restored in between: the value `restore [f]` returns to still contains the
  nested modification, which therefore must remain recorded (restorable, written to modified-attributes.conf). -/

/-- **whole_modify_restore_identity.**  For every object with any recorded modifications `orig` that do not include
    the top-level attribute `f` itself — in particular with modifications outstanding *below* `f` — and every value
    `w`: `ModifyAttribute(f, w)` followed by `RestoreAttribute(f)` gives back exactly the same object: the attribute
    tree **and every original entry**, including those of the nested modifications. -/
theorem whole_modify_restore_identity {N : Type} (o : Obj N) (f : Key) (w x : JValue N) (orig : Orig N)
    (hf : dGet? f o.fields = some x) (ho : o.original = some orig) (hnot : oHas [f] orig = false) :
    ∃ o2, modify o [f] w = .ok o2 ∧ o2.fields = dSet f w o.fields ∧ restore o2 [f] = .ok o := by
  refine ⟨{ fields := dSet f w o.fields, original := some (oAdd [f] x orig) }, ?_, rfl, ?_⟩
  · simp [modify, hf, origOf, ho]
  · cases o with
    | mk fields original =>
      simp at ho hf
      subst ho
      simp [restore, dGet_dSet_self w hf, oAdd, hnot, oGet_oInsert_self [f] x hnot, dSet_cancel w hf,
        filter_eq_oInsert f x hnot]

-- the hypotheses are satisfiable with a nested modification outstanding, and the conclusion is what evaluation gives
example : (match modify sampleObj [vars, ['a']] (.num 7) with
    | .ok o1 => (match modify o1 [vars] (.obj [(['z'], .null)]) with
      | .ok o2 => decide (restore o2 [vars] = .ok o1) && decide (isModified o1 [vars, ['a']])
      | .error _ => false)
    | .error _ => false) = true := by decide

/-- **nested_whole_restore_meets_spec** (whole four-step trace).  For every never-modified object, every nested path
    `f.k.…` holding a non-dictionary and all values `v`, `w`: the model's trace
    `modify f.k.… v; modify f w; restore f; restore f.k.…` succeeds step by step, `restore f` returns to exactly the
    object after the first step, the last restore returns to the initial attribute tree, and the trace satisfies the
    executable specification `specM` — whose clause for the last step is live: after `restore f` brought the nested
    modification back it is tracked again (`Track.dormant`), so a `restore f.k.…` that leaves the modified value is
    rejected (example below; that is the trace of a RestoreAttribute which drops the nested records). -/
theorem nested_whole_restore_meets_spec {N : Type} [DecidableEq N] (o : Obj N) (f k : Key) (ks : Path) (v w old : JValue N)
    (hnone : o.original = none)
    (hex : getPath o.fields (f :: k :: ks) = some old)
    (hleaf : isDict old = false) :
    ∃ o1 o2, modify o (f :: k :: ks) v = .ok o1 ∧ modify o1 [f] w = .ok o2 ∧ restore o2 [f] = .ok o1 ∧
      restore o1 (f :: k :: ks) = .ok { fields := o.fields, original := some [] } ∧
      specM {} o.fields [(.modify (f :: k :: ks) v, true, o1.fields), (.modify [f] w, true, o2.fields),
        (.restore [f], true, o1.fields), (.restore (f :: k :: ks), true, o.fields)] = none := by
  obtain ⟨cur, cur', hf, hm, hr⟩ := modify_leaf_shape o f k ks v old hnone hex hleaf
  have hf1 : dGet? f (dSet f cur' o.fields) = some cur' := dGet_dSet_self cur' hf
  obtain ⟨o2, hm2, _, hr2⟩ := whole_modify_restore_identity
    { fields := dSet f cur' o.fields, original := some [(f :: k :: ks, old)] } f w cur' [(f :: k :: ks, old)] hf1 rfl
    (by simp [oHas])
  refine ⟨_, o2, hm, hm2, hr2, hr, ?_⟩
  simp [specM, specStepM, gLookup, strictBelow, isPrefix, dormantOf, getPath, hf1, getIn]

private def varsA7 : Dict Int := [(['n', 'o', 't', 'e', 's'], .str ['x']),
  (vars, .obj [(['a'], .num 7), (['d'], .obj [(['k'], .num 1)]), (['e'], .obj [])])]

-- the clause is live: the same trace with a last step that reports success but leaves `vars.a = 7` is rejected …
example : specM (N := Int) {} sampleObj.fields
    [(.modify [vars, ['a']] (.num 7), true, varsA7),
     (.modify [vars] (.obj [(['z'], .null)]), true, [(['n', 'o', 't', 'e', 's'], .str ['x']), (vars, .obj [(['z'], .null)])]),
     (.restore [vars], true, varsA7),
     (.restore [vars, ['a']], true, varsA7)] = some .restoreIdentity := by decide
-- … and accepted when it returns to the initial tree
example : specM (N := Int) {} sampleObj.fields
    [(.modify [vars, ['a']] (.num 7), true, varsA7),
     (.modify [vars] (.obj [(['z'], .null)]), true, [(['n', 'o', 't', 'e', 's'], .str ['x']), (vars, .obj [(['z'], .null)])]),
     (.restore [vars], true, varsA7),
     (.restore [vars, ['a']], true, sampleObj.fields)] = none := by decide

private def v0 : Key := ['v', 'a', 'r', 's']
private def objJ : Obj Int := { fields := [(v0, .obj [(['a'], .num 0), (['b'], .str ['x'])])], original := none }

/-! ### F-C14j: the other order leaves a stale original behind

  `modify vars W; modify vars.a v; restore vars`: the entry `vars.a ↦ W.a` recorded while `vars` was already modified
  survives `RestoreAttribute("vars")` (configobject.cpp:307-315 removes only the entry `vars`).  The attribute tree is
  back at the configured value, yet `vars.a` still counts as modified (IsAttributeModified, written to
  modified-attributes.conf with the configured value, so after a restart its recorded original is another one), and
  `RestoreAttribute("vars.a")` moves the *unmodified* `vars.a` to `W.a`, a value of the discarded dictionary. -/

/-- **stale_nested_original_counterexample** (F-C14j), by evaluation of the model (diffed against the real code by the
    corpus witness f_c14j_*.ops on every run). -/
theorem stale_nested_original_counterexample :
    ∃ o1 o2 o3 o4 : Obj Int,
      modify objJ [v0] (.obj [(['a'], .num 5), (['c'], .num 1)]) = .ok o1 ∧
      modify o1 [v0, ['a']] (.num 7) = .ok o2 ∧
      restore o2 [v0] = .ok o3 ∧
      o3.fields = objJ.fields ∧ isModified o3 [v0, ['a']] = true ∧
      restore o3 [v0, ['a']] = .ok o4 ∧
      getPath o4.fields [v0, ['a']] = some (.num 5) ∧ getPath objJ.fields [v0, ['a']] = some (.num 0) := by
  refine ⟨_, _, _, _, rfl, rfl, rfl, ?_, ?_, rfl, ?_, ?_⟩ <;> decide

/-! ## (a') runtime modifications across a restart: DumpModifiedAttributes and its replay -/

/-- **modification_survives_restart.**  On a never-modified object, a modification satisfying the
    hypotheses of `modify_restore_partial` (existing path holding a non-dictionary, or a top-level
    attribute) survives the stop/start cycle unchanged: `DumpModifiedAttributes` writes exactly that one
    `modify_attribute(p, v)` and its replay onto the freshly loaded object reproduces the object —
    attribute tree and original attributes. -/
theorem modification_survives_restart {N : Type} (o : Obj N) (p : Path) (v old : JValue N)
    (hnone : o.original = none)
    (hex : getPath o.fields p = some old)
    (hleaf : p.length = 1 ∨ isDict old = false) :
    ∃ o1, modify o p v = .ok o1 ∧ dumpModified o1 = [(p, v)] ∧ replayModified o (dumpModified o1) = o1 := by
  obtain ⟨s', happly, hdump⟩ := dump_after_mods [(p, v)] [] o (by simp [origOf, hnone]) (by simp)
    (by intro e he; simp at he; subst he; exact ⟨old, hex, hleaf⟩) (by simp) (by simp)
  simp only [applyAll] at happly
  cases hm : modify o p v with
  | error e => simp [hm] at happly
  | ok o1 =>
    simp only [hm, Option.some.injEq] at happly
    subst happly
    refine ⟨o1, rfl, by simpa using hdump, ?_⟩
    rw [show dumpModified o1 = [(p, v)] by simpa using hdump]
    simp [replayModified, hm]

/-- **modifications_survive_restart.**  The same for a whole list of modifications of a never-modified
    object: every path exists and holds a non-dictionary (or is a top-level attribute), no two paths are
    prefix-related (distinct outermost paths), and the modifications are made in the order of their
    attribute strings (the order in which `original_attributes` iterates; independence of the order is not
    proved).  Then all of them succeed, `DumpModifiedAttributes` writes exactly the list, and the replay at
    start-up onto the freshly loaded object reproduces the object exactly. -/
theorem modifications_survive_restart {N : Type} (o : Obj N) (ms : List (Path × JValue N))
    (hnone : o.original = none)
    (hex : ∀ e ∈ ms, ∃ old, getPath o.fields e.1 = some old ∧ (e.1.length = 1 ∨ isDict old = false))
    (hpw : ms.Pairwise (fun a b => Unrel a.1 b.1 ∧ keyLt (joinPath b.1) (joinPath a.1) = false)) :
    ∃ o', applyAll o ms = some o' ∧ dumpModified o' = ms ∧ replayModified o (dumpModified o') = o' := by
  obtain ⟨s', happly, hdump⟩ := dump_after_mods ms [] o (by simp [origOf, hnone]) (by simp) hex (by simp) hpw
  have hd : dumpModified s' = ms := by simpa using hdump
  exact ⟨s', happly, hd, by rw [hd]; exact replay_of_applyAll ms o s' happly⟩

-- the hypotheses are satisfiable on two nested leaves and a top-level attribute, and the conclusion is what evaluation gives
example : (applyAll sampleObj [([['n', 'o', 't', 'e', 's']], .str ['y']), ([vars, ['a']], .num 7), ([vars, ['d'], ['k']], .obj [])]).map dumpModified
    = some [([['n', 'o', 't', 'e', 's']], .str ['y']), ([vars, ['a']], .num 7), ([vars, ['d'], ['k']], .obj [])] := by decide
-- regressions for F-C14e / F-C14h (fixed in /repo by 999361f, 1d70162): stale nested entries are not dumped
example : (applyAll sampleObj [([vars, ['a']], .obj [(['x'], .num 1)]), ([vars, ['a']], .num 5)]).map dumpModified
    = some [([vars, ['a']], .num 5)] := by decide
example : (applyAll sampleObj [([vars, ['a']], .obj [(['x'], .num 1)]), ([vars, ['a']], .obj [(['y'], .num 2)])]).map dumpModified
    = some [([vars, ['a']], .obj [(['y'], .num 2)]), ([vars, ['a'], ['y']], .num 2)] := by decide

/-! ## (b) the state file -/

/-- **serialize_id.**  On value trees `Serialize` is the identity (a deep copy). -/
theorem serialize_id {N : Type} (v : JValue N) : serialize v = v := serialize_eq v

/-- **deserialize_id_partial.**  `Deserialize` returns the tree unchanged provided every dictionary with
    a `type` key in it names a registered type (the hypothesis is necessary: `state_roundtrip_counterexample`). -/
theorem deserialize_id_partial {N : Type} (known : Key → Bool) (v : JValue N) (h : onlyKnownTypes known v = true) :
    deserialize known v = v := deserialize_eq known v h

/-- What the round trip needs from an object: distinct, non-empty field names, none of them `type`, and
    only registered types named by `type` keys inside the values. -/
def StateOK {N : Type} (known : Key → Bool) (o : SObj N) : Prop :=
  (o.fields.map Prod.fst).Nodup ∧ ∀ e ∈ o.fields, e.1 ≠ [] ∧ e.1 ≠ typeKey ∧ onlyKnownTypes known e.2 = true

/-- **state_roundtrip_partial.**  Full statement: for all objects.  Proved: for every lawful number
    codec, every list of objects satisfying `StateOK` (frames below 10^9 bytes, nested at most 1000 deep — the
    limit of the real JsonDecode since 24727c0; a frame nested deeper is refused) and **every chunking** of
    the file `DumpObjects` writes, the read loop of `RestoreObjects` yields exactly the frames, in
    order, then EOF, and `RestoreObject` of each frame onto a freshly created object with the same fields
    sets every field to exactly the dumped value — any nesting, any strings and keys, empty values. -/
theorem state_roundtrip_partial {N : Type} (c : NumCodec N) (hc : c.Lawful) (known : Key → Bool)
    (objs : List (SObj N)) (fresh : SObj N → SObj N) (chunks : List Bytes)
    (hok : ∀ o ∈ objs, StateOK known o)
    (hfresh : ∀ o ∈ objs, (fresh o).fields.map Prod.fst = o.fields.map Prod.fst)
    (hlen : ∀ o ∈ objs, (frameBody c o).length < 10 ^ 9)
    (hdepth : ∀ o ∈ objs, depth (persistent o) ≤ jsonMaxNestingDepth)
    (hchunks : chunks.flatten = stateFile c objs) :
    (nsReadAll none chunks).items = objs.map (frameBody c) ∧ (nsReadAll none chunks).final = .eof ∧
      ∀ o ∈ objs, restoreMessage c known (fresh o) (frameBody c o) = some { fresh o with fields := o.fields } := by
  have hps : ∀ p ∈ objs.map (frameBody c), p.length < 10 ^ 9 ∧ bufLimitExceeded none p.length = false := by
    intro p hp
    simp at hp
    obtain ⟨o, ho, rfl⟩ := hp
    exact ⟨hlen o ho, by simp [bufLimitExceeded]⟩
  obtain ⟨hi, hf⟩ := frames_split_regardless_of_chunking none (objs.map (frameBody c)) chunks hps hchunks
  refine ⟨hi, hf, ?_⟩
  intro o ho
  obtain ⟨hnd, hall⟩ := hok o ho
  exact restoreMessage_frameBody c hc known o (fresh o) hnd hall (hfresh o ho) (hdepth o ho)

/-- An object whose `executions` hold `{ disk = { type = "ext4" } }`. -/
def sampleState : SObj Int :=
  { typeName := ['H', 'o', 's', 't'], name := ['h'],
    fields := [(['e', 'x'], .obj [(['d'], .obj [(typeKey, .str ['e', 'x', 't', '4'])])]), (['n'], .num 3)] }

example : StateOK (fun _ => false) { sampleState with fields := [(['e', 'x'], .obj [(['d'], .obj [(['t'], .str ['x'])])]), (['n'], .num 3)] } := by
  refine ⟨by decide, ?_⟩
  intro e he
  simp at he
  rcases he with rfl | rfl <;> decide

/-- **state_roundtrip_counterexample** (F-C14c).  A dictionary with a `type` key inside a state
    attribute does not survive the state file: it comes back as Empty. -/
theorem state_roundtrip_counterexample :
    restoreMessage intCodec (fun _ => false) { sampleState with fields := [(['e', 'x'], .null), (['n'], .null)] }
        (frameBody intCodec sampleState) =
      some { sampleState with fields := [(['e', 'x'], .obj [(['d'], .null)]), (['n'], .num 3)] } := by
  unfold restoreMessage frameBody
  rw [json_roundtrip_int _ (by decide)]
  decide

/-- **restart_meets_spec** (whole restart, state side).  For every lawful number codec, every list of objects
    satisfying `StateOK` and the size/depth bounds of `state_roundtrip_partial`, and **every chunking** of the file
    `DumpObjects` writes: the read loop yields the frames, and for each object the model's restart — `RestoreObject`
    of its frame onto the freshly created object — produces observations on which the specification predicates the
    driver evaluates on the implementation's S lines hold: `specRestartState` (serialised state identical) and
    `specRestartPinned` (every attribute the statement names is in the record and has the identical value).  The
    hypothesis `hinv` — every pinned attribute of the object's type is among the fields `DumpObjects` writes — is what
    the clause `stateInventory` checks against the type reflection of the running binary on every run (I lines). -/
theorem restart_meets_spec {N : Type} [DecidableEq N] (c : NumCodec N) (hc : c.Lawful) (known : Key → Bool)
    (objs : List (SObj N)) (fresh : SObj N → SObj N) (chunks : List Bytes)
    (hok : ∀ o ∈ objs, StateOK known o)
    (hfresh : ∀ o ∈ objs, (fresh o).fields.map Prod.fst = o.fields.map Prod.fst)
    (hlen : ∀ o ∈ objs, (frameBody c o).length < 10 ^ 9)
    (hdepth : ∀ o ∈ objs, depth (persistent o) ≤ jsonMaxNestingDepth)
    (hinv : ∀ o ∈ objs, ∀ a ∈ pinnedState o.typeName, dHas a o.fields = true)
    (hchunks : chunks.flatten = stateFile c objs) :
    (nsReadAll none chunks).items = objs.map (frameBody c) ∧
      ∀ o ∈ objs, ∃ o', restoreMessage c known (fresh o) (frameBody c o) = some o' ∧
        specRestartState (JValue.obj o.fields) (JValue.obj o'.fields) = none ∧
        specRestartPinned o.typeName o.fields o'.fields = none := by
  obtain ⟨hi, _, hr⟩ := state_roundtrip_partial c hc known objs fresh chunks hok hfresh hlen hdepth hchunks
  refine ⟨hi, ?_⟩
  intro o ho
  refine ⟨_, hr o ho, ?_, ?_⟩
  · simp [specRestartState, specRoundtrip]
  · exact specRestartPinned_self o.typeName o.fields (hinv o ho)

/-- A Downtime as the state file sees it (all three pinned attributes among its fields). -/
def sampleDowntime : SObj Int :=
  { typeName := "Downtime".toList, name := ['d'],
    fields := [("legacy_id".toList, .num 3), ("remove_time".toList, .num 0), ("trigger_time".toList, .num 1700000000),
               ("triggers".toList, .arr [.str ['x']])] }

-- the inventory hypothesis is satisfiable, and the inventory clause accepts / rejects
example : ∀ a ∈ pinnedState sampleDowntime.typeName, dHas a sampleDowntime.fields = true := by decide
example : specInventory "Downtime".toList [("trigger_time".toList, 4), ("triggers".toList, 4), ("legacy_id".toList, 4), ("remove_time".toList, 4)] = none := by decide
-- `[state]` dropped from trigger_time (flags 0), or the attribute gone: rejected
example : specInventory "Downtime".toList [("trigger_time".toList, 0), ("triggers".toList, 4), ("remove_time".toList, 4)] = some .stateInventory := by decide
example : specInventory "Downtime".toList [("triggers".toList, 4), ("remove_time".toList, 4)] = some .stateInventory := by decide
example : specInventory "Host".toList [("acknowledgement".toList, 2)] = some .stateInventory := by decide
-- the getter comparison rejects a trigger time that came back as 0, and a record that lacks a pinned attribute
example : specRestartPinned (N := Int) "Downtime".toList sampleDowntime.fields
    [("legacy_id".toList, .num 3), ("remove_time".toList, .num 0), ("trigger_time".toList, .num 0), ("triggers".toList, .arr [.str ['x']])]
    = some .stateRoundtrip := by decide
example : specRestartPinned (N := Int) "Downtime".toList [("remove_time".toList, .num 0), ("triggers".toList, .arr [])]
    [("remove_time".toList, .num 0), ("triggers".toList, .arr [])] = some .stateRoundtrip := by decide
example : specRestartPinned (N := Int) "Downtime".toList sampleDowntime.fields sampleDowntime.fields = none := by decide

/-! ### typed objects nested in state values come back as objects

  "identical values after a stop/start cycle, whatever their content (any nesting of dictionaries/arrays)": a
  `PerfdataValue` inside the `performance_data` array of `last_check_result` must be a `PerfdataValue` again, not a
  dictionary with the same members (`Serialize` shows both alike; `FormatPerfdata`, the perfdata writers and macros do not). -/

/-- **typed_objects_roundtrip.**  For every getter-view tree — typed objects (tagged) and plain dictionaries nested in
    arrays and dictionaries to any depth, every object's type registered — `Deserialize(Serialize(t), safe_mode = false)`
    is `t` again: every object comes back as an object of its type at the same place, every dictionary as a dictionary. -/
theorem typed_objects_roundtrip {N : Type} (known : Key → Bool) (t : JValue N) (h : wellTagged known t = true) :
    deserializeT known false (stripTag t) = t :=
  typed_roundtrip_aux known t h

private def pdvKnown : Key → Bool := fun s => s = "PerfdataValue".toList || s = "CheckResult".toList
/-- `last_check_result` = a CheckResult whose performance_data holds a string and a PerfdataValue. -/
private def sampleCr : JValue Int :=
  .obj [(objectTag, .bool true), ("output".toList, .str ['o', 'k']),
        ("performance_data".toList, .arr [.str ['a', '=', '1'],
           .obj [(objectTag, .bool true), ("label".toList, .str ['l']), (typeKey, .str "PerfdataValue".toList), ("value".toList, .num 7)]]),
        (typeKey, .str "CheckResult".toList),
        ("vars_after".toList, .obj [("attempt".toList, .num 1)])]

-- the hypothesis is satisfiable on a non-trivial tree (object in array in object), and the conclusion is what evaluation gives
example : wellTagged pdvKnown sampleCr = true := by decide
example : deserializeT pdvKnown false (stripTag sampleCr) = sampleCr := by decide

/-- **typed_model_refines_tree_model.**  The typed model and the tree model of `Deserialize` (the one
    `state_roundtrip_partial` and `restart_meets_spec` are about) agree on everything `Serialize` shows: for every value
    without `@object` members — everything read from a state file — serialising the getter view that
    `deserializeT … false` produces gives exactly `deserialize`'s tree.  (The typed model only adds which of the
    dictionaries are objects.) -/
theorem typed_model_refines_tree_model {N : Type} (known : Key → Bool) (v : JValue N) (h : noTagKey v = true) :
    stripTag (deserializeT known false v) = deserialize known v :=
  stripTag_deserializeT_aux known v h

example : noTagKey (stripTag sampleCr) = true := by decide

/-- **restart_getters_meet_spec** (whole restart, getter view).  For every object whose getter record `getters` (the
    attributes read one by one, typed objects tagged) is well-formed and holds every attribute the statement names for its
    type `t`: what the model's restart makes of it — `Serialize` of every attribute (`stripTagM`), the state file, and
    `Deserialize` with `safe_mode = false` onto the fresh object (`deserializeTM`) — satisfies `specRestartPinned`, the
    clause the driver evaluates on the implementation's getter records before and after the restart: every pinned
    attribute is there with the identical value, nested objects being objects of their type again. -/
theorem restart_getters_meet_spec {N : Type} [DecidableEq N] (known : Key → Bool) (t : Key) (getters : Dict N)
    (hwt : wellTaggedM known getters = true) (hno : dHas objectTag getters = false)
    (hinv : ∀ a ∈ pinnedState t, dHas a getters = true) :
    specRestartPinned t getters (deserializeTM known false (stripTagM getters)) = none := by
  rw [typed_roundtrip_auxM known getters hwt hno]
  exact specRestartPinned_self t getters hinv

-- non-vacuity: a User record whose pinned attribute holds the sample CheckResult (objects two levels deep) satisfies the
-- hypotheses; and the clause rejects the record that safe-mode deserialisation would produce
example : wellTaggedM pdvKnown [("last_notification".toList, sampleCr)] = true ∧
    (∀ a ∈ pinnedState "User".toList, dHas a [("last_notification".toList, sampleCr)] = true) := by decide
example : specRestartPinned "User".toList [("last_notification".toList, sampleCr)]
    (deserializeTM pdvKnown true (stripTagM [("last_notification".toList, sampleCr)])) = some .stateRoundtrip := by decide

/-- **typed_objects_safe_mode_counterexample.**  The round trip depends on `safe_mode = false` reaching every level:
    in safe mode the same state comes back with both objects degraded to dictionaries (what a DeserializeArray that
    forces safe mode for its elements does to the PerfdataValue), and that is a different value. -/
theorem typed_objects_safe_mode_counterexample :
    deserializeT pdvKnown true (stripTag sampleCr) ≠ sampleCr ∧
    stripTag (deserializeT pdvKnown true (stripTag sampleCr)) = stripTag sampleCr := by decide

/-! ## (c) atomic replacement -/

/-- **crash_old_or_new.**  Start from a quiescent file system (`past = []`, nothing unsynced) in which
    `path` holds `old` (or does not exist), with the temp name different from `path` and a fresh inode.
    For **every prefix** of the system calls of `AtomicFile` (any content, any split into writes) and
    **every crash view** of the resulting state — the directory as it is or as it was before any of the
    directory operations, files with unsynced writes holding arbitrary bytes — reading `path` yields
    exactly what it yielded before the write began, or exactly the complete new content: never a
    mixture, a truncation, or (when a previous version existed) a missing file. -/
theorem crash_old_or_new (s0 : FS) (path tmp : FName) (ino : Ino) (mode : Nat) (chunks : List Bytes)
    (hq : s0.past = [] ∧ s0.dirty = [])
    (htmp : tmp ≠ path)
    (hino : ∀ i, dirLookup s0.dir path = some i → i ≠ ino)
    (pre : List Sys) (hpre : pre <+: atomicWrite path tmp ino mode chunks)
    (d : Dir) (content : Ino → Option Bytes) (hcv : CrashView (run pre s0) d content) :
    readFile d content path = readNow s0 path ∨ readFile d content path = some chunks.flatten :=
  crash_old_or_new_aux s0 path tmp ino mode chunks hq htmp hino pre hpre d content hcv

/-- **crash_old_or_new_conforming.**  The same for every call sequence the protocol predicate `protocolWord`
    accepts, not only the one `AtomicFile` issues today: any calls on the temp file only (create, chmod or
    fchmod, any number of writes and fsyncs, close, in any order) after which the temp file is clean and holds
    `new`, followed by the rename.  (Hence `fchmod` for `chmod`, split writes, an additional fsync or a different
    temp name are all covered; a rename before the last write is synced is not.) -/
theorem crash_old_or_new_conforming (s0 : FS) (path tmp : FName) (ino : Ino) (bodyOps : List Sys) (new : Bytes)
    (hq : s0.past = [] ∧ s0.dirty = [])
    (htmp : tmp ≠ path)
    (hino : ∀ i, dirLookup s0.dir path = some i → i ≠ ino)
    (hbody : ∀ op ∈ bodyOps, TmpOnly tmp ino op)
    (hstate : dirLookup (run bodyOps s0).dir tmp = some ino ∧ dataLookup (run bodyOps s0).data ino = some new ∧
      ino ∉ (run bodyOps s0).dirty)
    (pre : List Sys) (hpre : pre <+: bodyOps ++ [Sys.rename tmp path])
    (d : Dir) (content : Ino → Option Bytes) (hcv : CrashView (run pre s0) d content) :
    readFile d content path = readNow s0 path ∨ readFile d content path = some new :=
  crash_old_or_new_general s0 path tmp ino bodyOps new hq htmp hino hbody hstate pre hpre d content hcv

/-- **complete_write_reads_new.**  When the sequence ran to the end, the loader finds the new content. -/
theorem complete_write_reads_new (s0 : FS) (path tmp : FName) (ino : Ino) (mode : Nat) (chunks : List Bytes)
    (hq : s0.past = [] ∧ s0.dirty = [])
    (htmp : tmp ≠ path)
    (hino : ∀ i, dirLookup s0.dir path = some i → i ≠ ino) :
    readNow (run (atomicWrite path tmp ino mode chunks) s0) path = some chunks.flatten :=
  complete_write_aux s0 path tmp ino mode chunks hq htmp hino

/-- **crash_leaves_only_tmp.**  Whatever prefix of the sequence ran and whichever directory state the
    crash leaves (the current one or any earlier one), the only name that was not there before — apart
    from the target itself once renamed — is the temp file `path.tmp.XXXXXX`: the loader, which opens
    `path` only, ignores it, and `DumpObjects`/`DumpModifiedAttributes` glob and remove it before the next
    write (configobject.cpp:467, icingaapplication.cpp:172; checked by the harness's `L` lines). -/
theorem crash_leaves_only_tmp (s0 : FS) (path tmp : FName) (ino : Ino) (mode : Nat) (chunks : List Bytes)
    (hq : s0.past = [])
    (pre : List Sys) (hpre : pre <+: atomicWrite path tmp ino mode chunks)
    (d : Dir) (hd : d = (run pre s0).dir ∨ d ∈ (run pre s0).past) (n : FName) (hn : dirLookup d n ≠ none) :
    n = tmp ∨ n = path ∨ dirLookup s0.dir n ≠ none :=
  crash_leaves_only_tmp_aux s0 path tmp ino mode chunks hq pre hpre d hd n hn

/-- What a `K` line of the harness reports, computed on the file-system model: the bytes a reader of `path` finds,
    classified against the new version first (when old and new coincide the write is indistinguishable from its
    absence) and then against what was there before. -/
def classifyRead (old : Option Bytes) (new : Bytes) (r : Option Bytes) : Found :=
  if r = some new then .new else if r = none then .absent else if r = old then .old else .other

/-- **kill_meets_spec** (whole kill-point trace).  For **every prefix** of the system calls of `AtomicFile` (the
    process is killed after them — the view the harness injects: current directory, current contents), what a reader
    of `path` then finds, classified as the harness classifies it, satisfies the specification predicate `specCrash`
    that the driver evaluates on the implementation's K lines — with `completed` true exactly for the full sequence:
    never `other`, never `absent` when a previous version existed, and not `old`/`absent` after a complete write. -/
theorem kill_meets_spec (s0 : FS) (path tmp : FName) (ino : Ino) (mode : Nat) (chunks : List Bytes)
    (hq : s0.past = [] ∧ s0.dirty = [])
    (htmp : tmp ≠ path)
    (hino : ∀ i, dirLookup s0.dir path = some i → i ≠ ino)
    (pre : List Sys) (hpre : pre <+: atomicWrite path tmp ino mode chunks) :
    specCrash (readNow s0 path).isSome (decide (pre = atomicWrite path tmp ino mode chunks))
      (classifyRead (readNow s0 path) chunks.flatten (readNow (run pre s0) path)) = none := by
  have h := crash_old_or_new s0 path tmp ino mode chunks hq htmp hino pre hpre (run pre s0).dir
    (dataLookup (run pre s0).data) ⟨Or.inl rfl, fun _ _ => rfl⟩
  have hfull : pre = atomicWrite path tmp ino mode chunks → readNow (run pre s0) path = some chunks.flatten := by
    intro e
    rw [e]
    exact complete_write_reads_new s0 path tmp ino mode chunks hq htmp hino
  change readNow (run pre s0) path = _ ∨ readNow (run pre s0) path = _ at h
  generalize readNow (run pre s0) path = r at h hfull
  unfold classifyRead
  by_cases hn : r = some chunks.flatten
  · simp [hn, specCrash]
  · have hr : r = readNow s0 path := by
      rcases h with h | h
      · exact h
      · exact absurd h hn
    have hnf : decide (pre = atomicWrite path tmp ino mode chunks) = false := by
      simp only [decide_eq_false_iff_not]
      intro e
      exact hn (hfull e)
    simp only [hn, if_false, hnf]
    cases hro : r with
    | none =>
      rw [← hr, hro]
      simp [specCrash]
    | some b =>
      rw [← hr, hro]
      simp [specCrash]

-- after a kill inside the second write the directory holds the old file and the temp file, nothing else
example : (run ((atomicWrite ['s'] ['t'] 2 384 [[110], [101], [119]]).take 4) { dir := [(['s'], 1)], past := [], data := [(1, [111])], dirty := [] }).dir
    = [(['t'], 2), (['s'], 1)] := by decide

/-- The logged form of a call: everything but the final rename names the temp file. -/
def evOf : Sys → SysEv
  | .mkstemp _ _ => ⟨.mkstemp, false⟩
  | .chmod _ _ => ⟨.chmod, false⟩
  | .write _ _ => ⟨.write, false⟩
  | .fsync _ => ⟨.fsync, false⟩
  | .close _ => ⟨.close, false⟩
  | .rename _ _ => ⟨.rename, true⟩
  | .unlink _ => ⟨.unlink, false⟩

/-- **atomic_write_conforms.**  The sequence the theorems above are about is a word of the protocol
    predicate `protocolWord` that the driver evaluates on the calls the harness intercepted
    (`mkstemp chmod write* fsync close rename`, fsync before rename, rename last, nothing but the rename
    names the target) — for any content and any number of writes. -/
theorem atomic_write_conforms (path tmp : FName) (ino : Ino) (mode : Nat) (chunks : List Bytes) :
    protocolWord ((atomicWrite path tmp ino mode chunks).map evOf) = true := by
  have hmap : (chunks.map (Sys.write ino)).map evOf = List.replicate chunks.length wev := by
    induction chunks with
    | nil => rfl
    | cons c cs ih => simp [evOf, wev, List.replicate_succ, ih]
  have h := protocol_writes chunks.length
  rw [← hmap] at h
  simpa [atomicWrite, evOf] using h

-- the predicate rejects a writer that renames before fsync, or writes to the target
example : protocolWord [⟨.mkstemp, false⟩, ⟨.chmod, false⟩, ⟨.write, false⟩, ⟨.close, false⟩, ⟨.rename, true⟩, ⟨.fsync, false⟩] = false := by decide
example : protocolWord [⟨.mkstemp, false⟩, ⟨.chmod, false⟩, ⟨.write, true⟩, ⟨.fsync, false⟩, ⟨.close, false⟩, ⟨.rename, true⟩] = false := by decide
-- rename before the last write is synced (flush/close moved after the rename)
example : protocolWord [⟨.mkstemp, false⟩, ⟨.chmod, false⟩, ⟨.write, false⟩, ⟨.rename, true⟩, ⟨.write, false⟩, ⟨.fsync, false⟩, ⟨.close, false⟩] = false := by decide
example : protocolWord [⟨.mkstemp, false⟩, ⟨.write, false⟩, ⟨.fsync, false⟩, ⟨.write, false⟩, ⟨.close, false⟩, ⟨.rename, true⟩] = false := by decide
-- harmless variations are accepted: no chmod / fchmod later, split writes with intermediate fsyncs, close before fsync is not
-- required, an fsync after the rename
example : protocolWord [⟨.unlink, false⟩, ⟨.mkstemp, false⟩, ⟨.write, false⟩, ⟨.fsync, false⟩, ⟨.write, false⟩, ⟨.chmod, false⟩,
    ⟨.fsync, false⟩, ⟨.close, false⟩, ⟨.rename, true⟩, ⟨.fsync, false⟩] = true := by decide

section FsExamples

def fs0 : FS := { dir := [(['s'], 1)], past := [], data := [(1, [111, 108, 100])], dirty := [] }

-- killed after the second write: the loader still reads "old"; the temp file is litter
example : readNow (run ((atomicWrite ['s'] ['t'] 2 384 [[110], [101], [119]]).take 4) fs0) ['s'] = some [111, 108, 100] := by decide
example : readNow (run (atomicWrite ['s'] ['t'] 2 384 [[110], [101], [119]]) fs0) ['s'] = some [110, 101, 119] := by decide
-- a writer that truncated the target in place would be caught: after its first call the file is empty
example : readNow (run [Sys.unlink ['s']] fs0) ['s'] = none := by decide
example : specCrash true false .absent = some .crashOldOrNew := by decide
example : specCrash true false .other = some .crashOldOrNew := by decide
example : specCrash true true .old = some .writeLost := by decide
example : specCrash true false .old = none := by decide
-- the classification of the model's kill points: old after 4 calls, new after all 7; a truncated file would be `other`
example : classifyRead (readNow fs0 ['s']) [110, 101, 119] (readNow (run ((atomicWrite ['s'] ['t'] 2 384 [[110], [101], [119]]).take 4) fs0) ['s']) = .old := by decide
example : classifyRead (readNow fs0 ['s']) [110, 101, 119] (readNow (run (atomicWrite ['s'] ['t'] 2 384 [[110], [101], [119]]) fs0) ['s']) = .new := by decide
example : classifyRead (some [111, 108, 100]) [110, 101, 119] (some [110]) = .other := by decide

end FsExamples

end Icinga.C14

/-
  C19 — the generated tables (IcingaProofs/Gen/SandboxGuards.lean, rewritten from /repo on every run)
  turned into the parameters of the model.  Core Lean only: the driver imports this file too, so the
  model it runs is configured by exactly the tables the theorems are about.
-/
import IcingaModel.C19.Model
import IcingaProofs.Gen.SandboxGuards

namespace Icinga.C19
open Icinga.Gen

/-- Guard table as generated: does `X::DoEvaluate` start with the sandbox throw. -/
def genGuard (k : String) : Bool := (lookup k SandboxGuards.nodeGuards).getD false

/-- The generated table with the one missing guard added (what the two-line repair of F-C19 gives). -/
def repairedGuard (k : String) : Bool := genGuard k || k == "SetConstExpression"

/-- Side-effect-free flag of a native as registered in the source (none: no such registration). -/
def genSafe (name : String) : Option Bool := lookup name SandboxGuards.natives

/-- F-C19c (repaired by ac7cac3; the generated flag decides): the instantiable types derived from `Application` (lib/icinga/icingaapplication.ti; `Application` itself is
    abstract).  Dropping an instance runs `Application::~Application()`, which clears the singleton. -/
def appDerivedTypes : List String :=
  if SandboxGuards.appDtorClearsSingleton then ["IcingaApplication"] else []      -- generated from application.cpp on every run

/-- Does the body of this higher-order native test the callback's flag under `Sandboxed` first (generated from
    array-script.cpp on every run; a native the translator did not find there counts as unchecked). -/
def genCbCheck (n : String) : Bool :=
  match SandboxGuards.callbackInvokers.find? (fun r => r.1 == n) with
  | some r => r.2.2
  | none => false

/-- The model configured by the generated tables; native semantics, hidden-field table and templates
    are supplied by the caller. -/
def genCfg (native : String → Option Native) (hidden : String → String → Bool) : Cfg :=
  { guard := genGuard, callCheck := SandboxGuards.callCheck, fieldCheck := SandboxGuards.fieldCheck,
    refGetSandboxed := SandboxGuards.refGetSandboxed, initDictOff := SandboxGuards.initDictOff,
    importSandboxed := SandboxGuards.importReadSandboxed,
    cbCheck := genCbCheck,
    ctorEffect := fun t => appDerivedTypes.contains t,
    native := native, hidden := hidden }

/-- Natives as the driver instantiates them: the flag comes from the GENERATED table; a native flagged
    side-effect free is pure, any other one visibly mutates the protected state when it is invoked — so
    a missing call check shows up as a predicted state change. -/
def driverNative (name : String) : Option Native :=
  (genSafe name).map fun safe =>
    { safe := safe,
      run := fun _ _ p => if safe then (.ok .empty, p)
                          else (.ok .empty, { p with globals := upsert ("MUTATED_BY_" ++ name) (.bool true) p.globals }) }

def driverHidden (t f : String) : Bool := t == "ApiUser" && (f == "password" || f == "password_hash")

/-- The side-effect-free flag of every native the caller supplies is the one registered in the source. -/
def NativeFlagsFromTable (native : String → Option Native) : Prop :=
  ∀ n f, native n = some f → genSafe n = some f.safe

/-- The node kinds the property record lists as carrying a sandbox check
    (properties.jsonl C19 mechanism; expression.cpp:606-610,700-704,855-990). -/
def documentedGuards : List String :=
  ["SetExpression", "WhileExpression", "ImportExpression", "ImportDefaultTemplatesExpression", "ApplyExpression",
   "ObjectExpression", "ForExpression", "LibraryExpression", "IncludeExpression"]

end Icinga.C19

/-
  C19 — helper lemmas for the class of purely COMPUTATIONAL expressions (operators, literals, reads, conditionals,
  try/except, blocks — no assignment node, no call node, no config statement) and for calls whose callee is a
  computed expression (expression.cpp:454-461: `GetReference` fails, the callee is obtained by `Evaluate`).
-/
import IcingaProofs.C19.Lemmas

namespace Icinga.C19

/-- Expressions built only from node kinds that combine the VALUES of their operands: literals, variable and field
    reads, references and dereferences, the unary/binary/logical operators (expression.cpp:193-447), array literals,
    blocks, scopes, conditionals, throw, try/except, return/break/continue.  No `SetExpression`, no
    `FunctionCallExpression`, no loop, no config statement. -/
inductive Computational : Expr → Prop
  | lit (v : Value) : Computational (.lit v)
  | var (n : String) : Computational (.var n)
  | refVar (n : String) : Computational (.ref (.var n))
  | refIndex {a b : Expr} : Computational a → Computational b → Computational (.ref (.index a b))
  | deref {e : Expr} : Computational e → Computational (.deref e)
  | unop (op : UnOp) {e : Expr} : Computational e → Computational (.unop op e)
  | binop (op : BinOp) {a b : Expr} : Computational a → Computational b → Computational (.binop op a b)
  | land {a b : Expr} : Computational a → Computational b → Computational (.land a b)
  | lor {a b : Expr} : Computational a → Computational b → Computational (.lor a b)
  | array {es : List Expr} : (∀ e, e ∈ es → Computational e) → Computational (.array es)
  | dict (i : Bool) {es : List Expr} : (∀ e, e ∈ es → Computational e) → Computational (.dict i es)
  | getScope (s : Scope) : Computational (.getScope s)
  | condNone {c t : Expr} : Computational c → Computational t → Computational (.cond c t none)
  | condSome {c t f : Expr} : Computational c → Computational t → Computational f → Computational (.cond c t (some f))
  | index {a b : Expr} : Computational a → Computational b → Computational (.index a b)
  | throw_ {e : Expr} : Computational e → Computational (.throw_ e)
  | tryExcept {t e : Expr} : Computational t → Computational e → Computational (.tryExcept t e)
  | return_ {e : Expr} : Computational e → Computational (.return_ e)
  | break_ : Computational .break_
  | continue_ : Computational .continue_
  | breakpoint : Computational .breakpoint

variable {R : Rel}

theorem pres_evalList_mem {ev : Expr → M Out} :
    ∀ (es : List Expr) (k : List Value → M Out), (∀ e, e ∈ es → Pres R (ev e)) → (∀ vs, Pres R (k vs)) →
      Pres R (evalList ev es k)
  | [], k, _, hk => by simpa [evalList] using hk []
  | e :: es, k, hev, hk => by
    unfold evalList
    exact pres_chk (hev e (by simp)) fun v =>
      pres_evalList_mem es _ (fun e' he' => hev e' (by simp [he'])) fun vs => hk _

theorem pres_evalSeq_mem {ev : Expr → M Out} :
    ∀ (es : List Expr) (last : Value), (∀ e, e ∈ es → Pres R (ev e)) → Pres R (evalSeq ev es last)
  | [], last, _ => by unfold evalSeq; exact pres_pure _
  | e :: es, _, hev => by
    unfold evalSeq
    exact pres_chk (hev e (by simp)) fun v => pres_evalSeq_mem es v (fun e' he' => hev e' (by simp [he']))

/-- Protected state AND call log are exactly the initial ones. -/
def sameState : Rel where
  r a b := b.prot = a.prot ∧ b.calls = a.calls
  refl _ := ⟨rfl, rfl⟩
  trans _ _ _ h1 h2 := ⟨h2.1.trans h1.1, h2.2.trans h1.2⟩

theorem frameOk_sameState : FrameOk sameState := fun _ hf => ⟨fun s => ⟨(hf s).1, (hf s).2.1⟩⟩
theorem readOk_sameState (cfg : Cfg) (sb : Bool) : ReadOk sameState cfg sb := fun _ _ _ => ⟨fun _ => ⟨rfl, rfl⟩⟩

/-- The induction: a computational expression relates the states before and after by any `R` that tolerates
    frame-private changes — for EVERY configuration (no guard, no call check is needed) and in sandboxed and
    unsandboxed frames alike. -/
theorem eval_pres_computational (cfg : Cfg) (sb : Bool) (hF : FrameOk R) (hRd : ReadOk R cfg sb) (hRr : ReadOk R cfg cfg.refGetSandboxed) :
    ∀ (n : Nat) (e : Expr), Computational e → Pres R (eval cfg sb n e)
  | 0, _, _ => by unfold eval; exact pres_fail _
  | n + 1, e, hc => by
    have ih : ∀ e, Computational e → Pres R (eval cfg sb n e) := eval_pres_computational cfg sb hF hRd hRr n
    unfold eval
    apply pres_bind (pres_guardCheck _ _ _); intro _
    cases hc <;> simp only [evalNode]
    all_goals
      pres_node
    all_goals
      first
      | (exact ih _ (by assumption))
      | (apply pres_evalSeq_mem; intro e' he'; apply ih; apply_assumption; exact he')
      | (apply pres_evalList_mem
         · intro e' he'; apply ih; apply_assumption; exact he'
         · intro vs; pres_node)
      | skip

end Icinga.C19

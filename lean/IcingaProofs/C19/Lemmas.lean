/-
  C19 — helper lemmas: a small preservation calculus for the state-and-error monad `M`.
  `Pres R m` says that running `m` relates the state before and after by `R` (whatever the outcome,
  value or error).  For a reflexive, transitive `R` it is closed under every combinator `eval` is built
  from, so the two relations of interest — "protected state is equal" and "every new entry of the call
  log is a side-effect-free native" — go through the interpreter by the same induction.
-/
import IcingaModel.C19.Model

namespace Icinga.C19

/-- A relation between the state before and after, with the closure properties the calculus needs. -/
structure Rel where
  r : Env → Env → Prop
  refl : ∀ s, r s s
  trans : ∀ a b c, r a b → r b c → r a c

/-- A structure (not a bare `∀`) so that `intro` in the automation never unfolds it. -/
structure Pres (R : Rel) {α : Type} (m : M α) : Prop where
  h : ∀ s, R.r s (m s).2

section calculus
variable {R : Rel} {α β : Type}

theorem pres_pure (a : α) : Pres R (pure a : M α) := ⟨fun s => R.refl s⟩
theorem pres_mpure (a : α) : Pres R (M.pure a : M α) := ⟨fun s => R.refl s⟩
theorem pres_fail (e : Err) : Pres R (M.fail e : M α) := ⟨fun s => R.refl s⟩
theorem pres_get : Pres R M.get := ⟨fun s => R.refl s⟩

theorem pres_bind {m : M α} {f : α → M β} (hm : Pres R m) (hf : ∀ a, Pres R (f a)) : Pres R (m >>= f) := by
  refine ⟨fun s => ?_⟩
  show R.r s (M.bind m f s).2
  unfold M.bind
  have h1 := hm.h s
  cases h : m s with
  | mk r s' =>
    rw [h] at h1
    cases r with
    | ok a => exact R.trans _ _ _ h1 ((hf a).h s')
    | error e => exact h1

theorem pres_catch {m : M α} {h : Err → M α} (hm : Pres R m) (hh : ∀ e, Pres R (h e)) : Pres R (M.catch_ m h) := by
  refine ⟨fun s => ?_⟩
  unfold M.catch_
  have h1 := hm.h s
  cases hms : m s with
  | mk r s' =>
    rw [hms] at h1
    cases r with
    | ok a => exact h1
    | error e => exact R.trans _ _ _ h1 ((hh e).h s')

theorem pres_modify {f : Env → Env} (hf : ∀ s, R.r s (f s)) : Pres R (M.modify f) := ⟨fun s => hf s⟩

theorem pres_liftE (r : Except String α) : Pres R (liftE r) := by
  cases r <;> exact ⟨fun s => R.refl s⟩

theorem pres_guardCheck (cfg : Cfg) (sb : Bool) (k : String) : Pres R (guardCheck cfg sb k) := by
  unfold guardCheck; split
  · exact pres_fail _
  · exact pres_pure _

theorem pres_when {c : Bool} {m : M Unit} (hm : Pres R m) : Pres R (when_ c m) := by
  unfold when_; split
  · exact hm
  · exact pres_pure _

theorem pres_chk {m : M Out} {f : Value → M Out} (hm : Pres R m) (hf : ∀ v, Pres R (f v)) : Pres R (chk m f) := by
  unfold chk
  apply pres_bind hm
  intro r
  split
  · exact pres_pure _
  · exact hf _

theorem pres_evalList {ev : Expr → M Out} (hev : ∀ e, Pres R (ev e)) :
    ∀ (es : List Expr) (k : List Value → M Out), (∀ vs, Pres R (k vs)) → Pres R (evalList ev es k)
  | [], k, hk => by simpa [evalList] using hk []
  | e :: es, k, hk => by
    unfold evalList
    exact pres_chk (hev e) fun v => pres_evalList hev es _ fun vs => hk _

theorem pres_evalSeq {ev : Expr → M Out} (hev : ∀ e, Pres R (ev e)) :
    ∀ (es : List Expr) (last : Value), Pres R (evalSeq ev es last)
  | [], last => by unfold evalSeq; exact pres_pure _
  | e :: es, _ => by
    unfold evalSeq
    exact pres_chk (hev e) fun v => pres_evalSeq hev es v

end calculus

/-- `R` tolerates changes of the frame-private part of the state (locals, script-function table). -/
def FrameOk (R : Rel) : Prop := ∀ f : Env → Env, (∀ s, (f s).prot = s.prot ∧ (f s).calls = s.calls ∧ (f s).reads = s.reads) → Pres R (M.modify f)
/-- `R` tolerates changes of the protected state (true of the call-log relation, false of noninterference). -/
def ProtOk (R : Rel) : Prop := ∀ f : Env → Env, (∀ s, (f s).calls = s.calls ∧ (f s).reads = s.reads) → Pres R (M.modify f)
/-- `R` tolerates the ghost entry of a read that `GetFieldByName` lets through when called with the flag `sb`. -/
def ReadOk (R : Rel) (cfg : Cfg) (sb : Bool) : Prop :=
  ∀ t f, (sb && cfg.fieldCheck && cfg.hidden t f) = false →
    Pres R (M.modify fun e => { e with reads := (t, f) :: e.reads })
/-- `R` tolerates invoking a native that is flagged side-effect free. -/
def InvokeOk (R : Rel) (cfg : Cfg) : Prop :=
  ∀ name f self args, cfg.native name = some f → f.safe = true → Pres R (invokeNative cfg name f self args)

/-- `R` tolerates the log entry of a native flagged side-effect free (the higher-order natives log themselves). -/
def LogOk (R : Rel) (cfg : Cfg) : Prop :=
  ∀ name f, cfg.native name = some f → f.safe = true →
    Pres R (M.modify fun e => { e with calls := .native name :: e.calls })
/-- Every higher-order native tests its callback's flag under `Sandboxed` (array-script.cpp:83-212; generated). -/
def CbChecks (cfg : Cfg) : Prop := ∀ n, n ∈ hofNames → cfg.cbCheck n = true

theorem pres_frame {R : Rel} (h : FrameOk R) {f : Env → Env} (hf : ∀ s, (f s).prot = s.prot ∧ (f s).calls = s.calls ∧ (f s).reads = s.reads) :
    Pres R (M.modify f) := h f hf
theorem pres_prot {R : Rel} (h : ProtOk R) {f : Env → Env} (hf : ∀ s, (f s).calls = s.calls ∧ (f s).reads = s.reads) :
    Pres R (M.modify f) := h f hf

/-- Try every closure rule of the calculus, splitting `if`/`match` on the way. -/
syntax "pres_auto" : tactic
macro_rules
  | `(tactic| pres_auto) => `(tactic|
      repeat' (first
        | assumption
        | exact pres_pure _
        | exact pres_mpure _
        | exact pres_fail _
        | exact pres_get
        | exact pres_liftE _
        | exact pres_guardCheck _ _ _
        | (apply pres_frame (by assumption); intro s; exact ⟨rfl, rfl, rfl⟩)
        | (apply pres_prot (by assumption); intro s; exact ⟨rfl, rfl⟩)
        | apply pres_when
        | apply pres_chk
        | apply pres_bind
        | apply pres_catch
        | intro _
        | split))

variable {R : Rel}

theorem pres_readVar (n : String) : Pres R (readVar n) := by unfold readVar; pres_auto
theorem pres_getField (cfg sb) (hRd : ReadOk R cfg sb) (v f) : Pres R (getField cfg sb v f) := by
  unfold getField; pres_auto
  all_goals (apply hRd; simp_all)
theorem pres_writeLocal (hF : FrameOk R) (n v) : Pres R (writeLocal n v) := by unfold writeLocal; pres_auto
theorem pres_combine (op a b) : Pres R (combine op a b) := by unfold combine; pres_auto
theorem pres_writeGlobal (hP : ProtOk R) (n v) : Pres R (writeGlobal n v) := by unfold writeGlobal; pres_auto
theorem pres_writeAttr (hP : ProtOk R) (o f v) : Pres R (writeAttr o f v) := by unfold writeAttr; pres_auto
theorem pres_refRead (cfg) (hRr : ReadOk R cfg cfg.refGetSandboxed) (r) : Pres R (refRead cfg r) := by
  unfold refRead; split
  · exact pres_getField _ _ hRr _ _
  · exact pres_fail _
theorem pres_refWrite (hF : FrameOk R) (hP : ProtOk R) (r v) : Pres R (refWrite r v) := by
  unfold refWrite; split
  · exact pres_writeAttr hP _ _ _
  · exact pres_writeGlobal hP _ _
  · exact pres_writeLocal hF _ _
  · exact pres_pure _
  · exact pres_fail _



syntax "pres_node" : tactic
macro_rules
  | `(tactic| pres_node) => `(tactic|
      repeat' (first
        | assumption
        | exact pres_pure _
        | exact pres_mpure _
        | exact pres_fail _
        | exact pres_get
        | exact pres_liftE _
        | exact pres_guardCheck _ _ _
        | exact pres_readVar _
        | exact pres_getField _ _ (by assumption) _ _
        | exact pres_combine _ _ _
        | exact pres_refRead _ (by assumption) _
        | exact pres_refWrite (by assumption) (by assumption) _ _
        | exact pres_writeLocal (by assumption) _ _
        | exact pres_writeGlobal (by assumption) _ _
        | exact pres_writeAttr (by assumption) _ _ _
        | (apply pres_frame (by assumption); intro s; exact ⟨rfl, rfl, rfl⟩)
        | (apply pres_prot (by assumption); intro s; exact ⟨rfl, rfl⟩)
        | apply pres_when
        | apply pres_chk
        | apply pres_bind
        | apply pres_catch
        | intro _
        | split))

theorem pres_initDict (cfg : Cfg) (sb : Bool) (hRd : ReadOk R cfg sb) (hF : FrameOk R) (hP : ProtOk R) {ev : Expr → M Out}
    (hev : ∀ e, Pres R (ev e)) (o : Expr) : Pres R (initDict cfg sb ev o) := by
  unfold initDict
  pres_node
  all_goals exact hev _

theorem pres_findImport (cfg : Cfg) (sb : Bool) (hRi : ReadOk R cfg (sb && cfg.importSandboxed)) {ev : Expr → M Out} (hev : ∀ e, Pres R (ev e)) (name : String) :
    ∀ imports, Pres R (findImport cfg sb ev imports name)
  | [] => by unfold findImport; pres_node
  | imp :: rest => by
    have ih := pres_findImport cfg sb hRi hev name rest
    unfold findImport
    pres_node
    all_goals exact hev _

theorem pres_invokeEach {inv : List Value → M Value} (hinv : ∀ a, Pres R (inv a)) :
    ∀ l, Pres R (invokeEach inv l)
  | [] => by unfold invokeEach; exact pres_pure _
  | a :: rest => by
    unfold invokeEach
    exact pres_bind (hinv a) fun _ => pres_invokeEach hinv rest

/-- A higher-order native in a sandboxed frame whose body has the callback test: it either refuses the callback or
    invokes only natives flagged side-effect free. -/
theorem pres_hofInvoke (cfg : Cfg) (hI : InvokeOk R cfg) (hL : LogOk R cfg) {ev : Expr → M Out}
    (name : String) (f : Native) (hn : cfg.native name = some f) (hs : f.safe = true) (hcb : cfg.cbCheck name = true)
    (self : Value) (vs : List Value) : Pres R (hofInvoke cfg true ev name self vs) := by
  unfold hofInvoke
  apply pres_bind (hL name f hn hs); intro _
  cases self <;> simp only [] <;> try exact pres_fail _
  case arr l =>
    cases vs with
    | nil => simp only []; split <;> first | exact pres_pure _ | exact pres_fail _
    | cons v rest =>
      cases v <;> simp only [] <;> try exact pres_fail _
      case fn cb =>
        cases hg : cfg.native cb with
        | none => exact pres_fail _
        | some g =>
          simp only [hcb, Bool.true_and]
          cases hgs : g.safe with
          | false => simp only [Bool.not_false, if_true]; exact pres_fail _
          | true =>
            simp only [Bool.not_true, Bool.false_eq_true, if_false]
            apply pres_bind (pres_invokeEach (fun a => hI cb g .empty a hg hgs) _); intro _
            exact pres_pure _
      case closure id =>
        simp only [hcb, Bool.and_self, if_true]
        exact pres_fail _

theorem pres_callValue (cfg : Cfg) (hcc : cfg.callCheck = true) (hcbs : CbChecks cfg) (hL : LogOk R cfg) (hF : FrameOk R) (hI : InvokeOk R cfg)
    (hct : (∀ t, cfg.ctorEffect t = false) ∨ ProtOk R)
    {ev : Expr → M Out} (hev : ∀ e, Pres R (ev e))
    {evArgs : List Expr → (List Value → M Out) → M Out}
    (hargs : ∀ es k, (∀ vs, Pres R (k vs)) → Pres R (evArgs es k))
    (vf self : Value) (args : List Expr) : Pres R (callValue cfg true ev evArgs vf self args) := by
  cases vf <;> simp only [callValue] <;> try exact pres_fail _
  case fn name =>
    cases hn : cfg.native name with
    | none => exact pres_fail _
    | some f =>
      simp only []
      cases hs : f.safe with
      | false => simp only [hcc, Bool.not_false, Bool.and_self, if_true]; exact pres_fail _
      | true =>
        simp only [Bool.not_true, Bool.false_and, Bool.false_eq_true, if_false]
        apply hargs; intro vs
        split
        · rename_i hh
          exact pres_hofInvoke cfg hI hL name f hn hs (hcbs name (by simpa using hh)) self vs
        · apply pres_bind (hI name f self vs hn hs); intro r; exact pres_pure _
  case closure id =>
    simp only [hcc, Bool.and_self, if_true]
    exact pres_fail _
  case type_ t =>
    apply hargs; intro vs
    rcases hct with hct | hP
    · simp only [hct t, Bool.false_eq_true, if_false]; pres_node
    · pres_node

theorem pres_loopWhile {ev : Expr → M Out} (hev : ∀ e, Pres R (ev e)) (c body : Expr) :
    ∀ n, Pres R (loopWhile ev c body n)
  | 0 => by unfold loopWhile; exact pres_fail _
  | n + 1 => by
    have ih := pres_loopWhile hev c body n
    unfold loopWhile
    pres_node
    all_goals exact hev _

theorem pres_loopFor (hF : FrameOk R) {ev : Expr → M Out} (hev : ∀ e, Pres R (ev e)) (kv vv : String) (body : Expr) :
    ∀ l, Pres R (loopFor ev kv vv body l)
  | [] => by unfold loopFor; exact pres_pure _
  | (k, v) :: rest => by
    have ih := pres_loopFor hF hev kv vv body rest
    unfold loopFor
    pres_node
    all_goals exact hev _



/-- The induction behind both property theorems: in a sandboxed frame with the call check in place,
    evaluation relates the states before and after by `R`, provided `R` tolerates frame-private
    changes and safe natives, and either every mutating node kind is guarded or `R` does not care about
    the protected state. -/
theorem eval_pres (cfg : Cfg) (hcc : cfg.callCheck = true) (hcbs : CbChecks cfg) (hL : LogOk R cfg) (hF : FrameOk R) (hI : InvokeOk R cfg)
    (hRd : ReadOk R cfg true) (hRr : ReadOk R cfg cfg.refGetSandboxed) (hRi : ReadOk R cfg (true && cfg.importSandboxed))
    (hP : ((∀ k, mutating k = true → cfg.guard k = true) ∧ (∀ t, cfg.ctorEffect t = false)) ∨ ProtOk R) :
    ∀ (n : Nat) (e : Expr), Pres R (eval cfg true n e)
  | 0, _ => by unfold eval; exact pres_fail _
  | n + 1, e => by
    have ih : ∀ e, Pres R (eval cfg true n e) := eval_pres cfg hcc hcbs hL hF hI hRd hRr hRi hP n
    unfold eval
    rcases hP with ⟨hg, hct⟩ | hP
    · by_cases hm : mutating e.kind = true
      · -- guarded: the node throws before doing anything
        have : guardCheck cfg true e.kind = M.fail (.sandbox e.kind) := by simp [guardCheck, hg _ hm]
        rw [this]
        exact ⟨fun s => R.refl s⟩
      · apply pres_bind (pres_guardCheck _ _ _); intro _
        cases e <;> simp only [evalNode] <;>
          first
          | (exfalso; exact hm rfl)
          | skip
        all_goals
          pres_node
        all_goals
          first
          | exact ih _
          | exact pres_evalSeq ih _ _
          | (apply pres_evalList ih; intro vs; pres_node)
          | (exact pres_callValue cfg hcc hcbs hL hF hI (Or.inl hct) ih (fun es k hk => pres_evalList ih es k hk) _ _ _)
          | exact pres_loopWhile ih _ _ _
          | exact pres_loopFor hF ih _ _ _ _
          | exact pres_findImport cfg true hRi ih _ _
          | exact pres_initDict cfg true hRd hF (by assumption) ih _
          | skip
    · apply pres_bind (pres_guardCheck _ _ _); intro _
      cases e <;> simp only [evalNode]
      all_goals
        pres_node
      all_goals
        first
        | exact ih _
        | exact pres_evalSeq ih _ _
        | (apply pres_evalList ih; intro vs; pres_node)
        | (exact pres_callValue cfg hcc hcbs hL hF hI (Or.inr hP) ih (fun es k hk => pres_evalList ih es k hk) _ _ _)
        | exact pres_loopWhile ih _ _ _
        | exact pres_loopFor hF ih _ _ _ _
        | exact pres_findImport cfg true hRi ih _ _
        | exact pres_initDict cfg true hRd hF (by assumption) ih _
        | skip

/-! ### The two relations -/

/-- Noninterference: the protected state after equals the protected state before. -/
def protEq : Rel where
  r a b := b.prot = a.prot
  refl _ := rfl
  trans _ _ _ h1 h2 := h2.trans h1

/-- Every entry of the call log is old or a native flagged side-effect free. -/
def callsOk (cfg : Cfg) : Rel where
  r a b := ∀ c ∈ b.calls, c ∈ a.calls ∨ safeCallee cfg c = true
  refl _ c hc := Or.inl hc
  trans a b c h1 h2 x hx := by
    rcases h2 x hx with h | h
    · exact h1 x h
    · exact Or.inr h

/-- "A native flagged side-effect free really is": it leaves the protected state alone. -/
def SafeNativesPure (cfg : Cfg) : Prop :=
  ∀ name f, cfg.native name = some f → f.safe = true → ∀ self args p, (f.run self args p).2 = p

theorem frameOk_protEq : FrameOk protEq := fun f hf => ⟨fun s => (hf s).1⟩
theorem frameOk_callsOk (cfg : Cfg) : FrameOk (callsOk cfg) :=
  fun f hf => ⟨fun s c hc => Or.inl (by have := (hf s).2.1; simp only [M.modify] at hc; rw [this] at hc; exact hc)⟩
theorem protOk_callsOk (cfg : Cfg) : ProtOk (callsOk cfg) :=
  fun f hf => ⟨fun s c hc => Or.inl (by have := (hf s).1; simp only [M.modify] at hc; rw [this] at hc; exact hc)⟩

theorem runOpaque_snd (f : Native) (self : Value) (args : List Value) (s : Env) :
    (runOpaque f self args s).2 = { s with prot := (f.run self args s.prot).2 } := by
  simp only [runOpaque, bind, M.bind, M.modify, M.get]
  cases h : f.run self args s.prot with
  | mk r p' =>
    have h' : f.2 self args s.prot = (r, p') := h
    cases r <;> simp [liftE, M.fail, pure, M.pure, h']

/-- The built-in `Reference#set` writes: it must not be flagged side-effect free. -/
def RefSetUnsafe (cfg : Cfg) : Prop := ∀ f, cfg.native "Reference#set" = some f → f.safe = false

theorem readOk_protEq (cfg : Cfg) (sb : Bool) : ReadOk protEq cfg sb := fun _ _ _ => ⟨fun _ => rfl⟩
theorem readOk_callsOk (cfg : Cfg) (sb : Bool) : ReadOk (callsOk cfg) cfg sb := fun _ _ _ => ⟨fun _ _ hc => Or.inl hc⟩

theorem invokeOk_protEq (cfg : Cfg) (hp : SafeNativesPure cfg) (hset : RefSetUnsafe cfg) : InvokeOk protEq cfg := by
  intro name f self args hn hs
  unfold invokeNative
  apply pres_bind ⟨fun s => rfl⟩; intro _
  split
  · exact pres_refRead _ (readOk_protEq cfg _) _
  · split
    · rename_i h; subst h
      have := hset f hn
      rw [this] at hs; cases hs
    · refine ⟨fun s => ?_⟩
      rw [runOpaque_snd]
      exact hp name f hn hs self args s.prot

theorem invokeOk_callsOk (cfg : Cfg) : InvokeOk (callsOk cfg) cfg := by
  intro name f self args hn hs
  have hF := frameOk_callsOk cfg
  have hP := protOk_callsOk cfg
  unfold invokeNative
  apply pres_bind
  · refine ⟨fun s c hc => ?_⟩
    simp only [M.modify, List.mem_cons] at hc
    rcases hc with rfl | hc
    · right; simp [safeCallee, hn, hs]
    · exact Or.inl hc
  intro _
  split
  · exact pres_refRead _ (readOk_callsOk cfg _) _
  · split
    · apply pres_bind (pres_refWrite hF hP _ _); intro _; exact pres_pure _
    · refine ⟨fun s c hc => ?_⟩
      rw [runOpaque_snd] at hc
      exact Or.inl hc

theorem logOk_protEq (cfg : Cfg) : LogOk protEq cfg := fun _ _ _ _ => ⟨fun _ => rfl⟩
theorem logOk_callsOk (cfg : Cfg) : LogOk (callsOk cfg) cfg := by
  intro name f hn hs
  refine ⟨fun s c hc => ?_⟩
  simp only [M.modify, List.mem_cons] at hc
  rcases hc with rfl | hc
  · right; simp [safeCallee, hn, hs]
  · exact Or.inl hc

/-! ### Confidentiality: the ghost log of attribute reads -/

/-- Every attribute value handed to the script is old or of a field that is not hidden from API users. -/
def readsOk (cfg : Cfg) : Rel where
  r a b := ∀ x ∈ b.reads, x ∈ a.reads ∨ cfg.hidden x.1 x.2 = false
  refl _ x hx := Or.inl hx
  trans a b c h1 h2 x hx := by
    rcases h2 x hx with h | h
    · exact h1 x h
    · exact Or.inr h

theorem frameOk_readsOk (cfg : Cfg) : FrameOk (readsOk cfg) :=
  fun f hf => ⟨fun s x hx => Or.inl (by have := (hf s).2.2; simp only [M.modify] at hx; rw [this] at hx; exact hx)⟩
theorem protOk_readsOk (cfg : Cfg) : ProtOk (readsOk cfg) :=
  fun f hf => ⟨fun s x hx => Or.inl (by have := (hf s).2; simp only [M.modify] at hx; rw [this] at hx; exact hx)⟩
theorem logOk_readsOk (cfg : Cfg) : LogOk (readsOk cfg) cfg := fun _ _ _ _ => ⟨fun _ _ hx => Or.inl hx⟩

/-- With the no_user_view check in place, a read that `GetFieldByName(…, sandboxed = true, …)` lets through is of a visible field. -/
theorem readOk_readsOk (cfg : Cfg) (hf : cfg.fieldCheck = true) : ReadOk (readsOk cfg) cfg true := by
  intro t f h
  refine ⟨fun s x hx => ?_⟩
  simp only [M.modify, List.mem_cons] at hx
  rcases hx with rfl | hx
  · right; simpa [hf] using h
  · exact Or.inl hx

theorem invokeOk_readsOk (cfg : Cfg) (hf : cfg.fieldCheck = true) (hr : cfg.refGetSandboxed = true) : InvokeOk (readsOk cfg) cfg := by
  intro name f self args hn hs
  have hF := frameOk_readsOk cfg
  have hP := protOk_readsOk cfg
  unfold invokeNative
  apply pres_bind (logOk_readsOk cfg name f hn hs); intro _
  split
  · exact pres_refRead _ (by rw [hr]; exact readOk_readsOk cfg hf) _
  · split
    · apply pres_bind (pres_refWrite hF hP _ _); intro _; exact pres_pure _
    · refine ⟨fun s x hx => ?_⟩
      rw [runOpaque_snd] at hx
      exact Or.inl hx

end Icinga.C19

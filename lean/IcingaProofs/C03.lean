/-
  C03 — property theorems.  Every `theorem` in this file is a proof obligation of the check.
  Helper lemmas: IcingaProofs/C03/Lemmas.lean.

  Model: IcingaModel/C03/Model.lean (`beginExec` = Notification::BeginExecuteNotification with
  CheckNotificationUserFilters, `sendStep` = Checkable::SendNotifications, `tickStep` =
  NotificationComponent::NotificationTimerHandler incl. the period-suppressed types).  The property is the
  conjunction of four checkers over the observed trace (IcingaModel/C03/Spec.lean); `traceOf c init ops` is
  the trace the model produces for an arbitrary configuration `c` and an arbitrary finite list of
  operations `ops`, each with an arbitrary environment (states, times, periods, flags, users with
  arbitrary filters) — nothing is bounded.

  F-C03a (DESIGN.md §3 F-C03; repaired in /repo by cec0506): a Recovery discarded by the notification's type
  filter used to return before `notified_problem_users` was cleared, so the list survived into the next
  incident and an Acknowledgement reached users who were not sent that incident's Problem.  The model
  transcribes the code after the repair; the former witness is a passing regression `example` below.

  What "the current incident" means for a notification object: it ends when the object *processes* a
  Recovery — sends it to its users, or discards it by its type filter.  A Recovery that is only withheld
  because the notification period is closed does not end it: the code keeps it (suppressed_notifications)
  and re-sends it when the period reopens, to exactly the users who were sent the incident's Problem —
  which is what the property demands of that Recovery, and which would be impossible had the list been
  forgotten when it was withheld.  If a new Problem neutralises the withheld Recovery, those users were
  never told that the problem ended, and the incident continues for them.  With this reading the second
  sentence holds without any hypothesis (`recovery_ack_recipients`).
-/
import IcingaProofs.C03.Lemmas

namespace Icinga.C03

/-- **delivery_only_if** (first sentence).  In every trace of the model, a notification is delivered to a
    user only if — unless forced — notifications are enabled globally and for the checkable, the
    notification object is not paused, its period is open, its type filter admits the type, for Problem
    its state filter admits the state and the `times` window is open, and the user is enabled, the user's
    period is open, the user's type filter admits the type and (for every type but Recovery) the user's
    state filter admits the state; forced: only the user's enable flag (and the pause). -/
theorem delivery_only_if (c : Cfg) (s : St) (ops : List Op) :
    deliveryTrace c (traceOf c s ops) = none := by
  unfold deliveryTrace
  exact runTrace_ok (deliveryObs c) (fun _ _ => True) (fun _ => True) c
    (fun g s op _ _ => ⟨delivery_op c g s op, trivial⟩) ops () s trivial (fun _ _ => trivial)

/- **recovery_ack_recipients** (second sentence, first half) — the full statement, which the unchanged code (hence the
   model) does NOT satisfy (F-C03b, `recovery_ack_recipients_counterexample` below):

     theorem recovery_ack_recipients (c : Cfg) (ops : List Op) : recipientsTrace (traceOf c init ops) = none

   In every trace, Recovery and Acknowledgement notifications — forced or not — go only to users who were sent a
   Problem for the current incident, or who do not subscribe to Problem.  The incident ends when the notification
   object sends a Recovery or discards it by its type filter, and when the checkable requests a Recovery that
   `Checkable::SendNotifications` drops because notifications are switched off (checkable-notification.cpp:43-49); a
   Recovery merely withheld by the closed notification period does not end it. -/

/-- **recovery_ack_recipients_partial**: the statement above for every trace in which no Recovery request is dropped by
    the enable flags (`recoveryDropped`: an unforced `send recovery` while notifications are disabled globally or for
    the checkable).  That is the exact gap: see the counterexample. -/
theorem recovery_ack_recipients_partial (c : Cfg) (ops : List Op)
    (h : ∀ o ∈ traceOf c init ops, recoveryDropped o = false) :
    recipientsTrace (traceOf c init ops) = none := by
  unfold recipientsTrace
  exact runTrace_ok recipientsObs RecInv (fun o => recoveryDropped o = false) c
    (fun g s op hi hp => recipients_op c g s op hi hp) ops [] init (fun x hx => by simp [init] at hx) h

/-- Without that hypothesis a weaker statement still holds for all traces: a dropped Recovery request changes nothing
    and sends nothing (so the only thing that goes wrong is that the users of the finished incident are remembered). -/
theorem dropped_recovery_request_is_a_noop (c : Cfg) (s : St) (op : Op)
    (h : recoveryDropped (applyOp c s op).2 = true) :
    (applyOp c s op).1.npu = s.npu ∧ (applyOp c s op).2.events = [] := by
  obtain ⟨a, b⟩ := dropped_noop c s op h
  exact ⟨by rw [a], b⟩

/-! The former witness of F-C03a: a notification object whose type filter lacks Recovery (48 = Problem |
    Acknowledgement), two users subscribed to everything.  Problem to both; Recovery (discarded by the type
    filter — since cec0506 the incident's users are forgotten here); next incident: Problem while user 1 is
    disabled (only user 0 is told); the Acknowledgement now reaches user 0 only. -/

def cxCfg : Cfg := { isHost := false, interval := 60, tbegin := none, tend := none, typeFilter := 48, stateFilter := 15 }
def cxUser (i : Nat) (en : Bool) : UEnv := { id := i, enabled := en, periodOpen := true, typeFilter := 511, stateFilter := 15 }
def cxEnv (now : Int) (state : Nat) (u1 : Bool) : Env :=
  { now := now, state := state, hard := true, lhsc := now, volatile := false, reachable := true, inDowntime := false,
    acked := false, flapping := false, ckProblemPending := false, periodOpen := true, globalEnabled := true,
    ckEnabled := true, paused := false, haSkip := false, likelySoon := false, problemApplies := state != 0,
    recoveryApplies := state == 0, force := false, authUpdated := true, users := [cxUser 0 true, cxUser 1 u1] }
def cxOps : List Op :=
  [.send .problem (cxEnv 100 2 true), .send .recovery (cxEnv 200 0 true), .send .problem (cxEnv 300 2 false),
   .send .ack (cxEnv 310 2 true)]

/-- F-C03b, the witness: Problem to users 0 and 1; notifications are switched off for the checkable while it recovers
    (the Recovery request is dropped, `notified_problem_users` survives); next incident: the WARNING Problem reaches
    user 0 only (user 1 is disabled at that moment); the Acknowledgement of that incident goes to user 1 as well,
    who was never told about it. -/
def cxDropOps : List Op :=
  [.send .problem (cxEnv 100 2 true), .send .recovery { cxEnv 200 0 true with ckEnabled := false },
   .send .problem (cxEnv 300 1 false), .send .ack (cxEnv 310 1 true)]
def cxAll : Cfg := { cxCfg with typeFilter := 511 }

theorem recovery_ack_recipients_counterexample :
    recipientsTrace (traceOf cxAll init cxDropOps) = some .recoveryAckRecipients ∧
    (traceOf cxAll init cxDropOps).map (fun o => o.events) =
      [[⟨.problem, false, true, false, [0, 1]⟩], [], [⟨.problem, false, true, false, [0]⟩], [⟨.ack, false, true, false, [0, 1]⟩]] := by
  decide

/-- The same stale bookkeeping has a second effect the property (an "only if") does not cover: the next incident's
    Problem for the *same* state is sent to nobody — `last_notified_state_per_user` survives the dropped request too. -/
example :
    (traceOf cxAll init [.send .problem (cxEnv 100 2 true), .send .recovery { cxEnv 200 0 true with ckEnabled := false },
                         .send .problem (cxEnv 300 2 true)]).map (fun o => o.events) =
      [[⟨.problem, false, true, false, [0, 1]⟩], [], [⟨.problem, false, true, false, []⟩]] := by
  decide

/-- Regression for F-C03a (was `recovery_ack_recipients_counterexample` before the repair). -/
example :
    specTrace cxCfg (traceOf cxCfg init cxOps) = none ∧
    (traceOf cxCfg init cxOps).map (fun o => o.events) =
      [[⟨.problem, false, true, false, [0, 1]⟩], [⟨.recovery, false, false, false, []⟩], [⟨.problem, false, true, false, [0]⟩],
       [⟨.ack, false, true, false, [0]⟩]] := by
  decide

/-- A Recovery withheld by the closed period is released by the timer to exactly the users of its incident
    (both), although user 1 is disabled for Problems in between — and the specification accepts that. -/
example :
    let closed (e : Env) : Env := { e with periodOpen := false }
    let cfg : Cfg := { cxCfg with typeFilter := 511 }
    let ops : List Op := [.send .problem (cxEnv 100 2 true), .send .recovery (closed (cxEnv 200 0 true)),
                          .tick { cxEnv 300 0 true with lhsc := 200 }]
    specTrace cfg (traceOf cfg init ops) = none ∧
    (traceOf cfg init ops).map (fun o => o.events) =
      [[⟨.problem, false, true, false, [0, 1]⟩], [⟨.recovery, false, false, false, []⟩], [⟨.recovery, false, true, false, [0, 1]⟩]] := by
  decide

/-- **no_duplicate_problem** (second sentence, second half).  Unless the object is volatile, no user is
    sent a non-reminder Problem for the state of the Problem that user was sent last, without a Recovery
    having been processed in between. -/
theorem no_duplicate_problem (c : Cfg) (ops : List Op) :
    noDupTrace (traceOf c init ops) = none := by
  unfold noDupTrace
  exact runTrace_ok noDupObs DupInv (fun _ => True) c
    (fun g s op hi _ => noDup_op c g s op hi) ops (fun _ => none) init
    (fun u st h => by simp at h) (fun _ _ => trivial)

/-- **reminder_only_in_hard_unsuppressed_problem** (third sentence, first part).  From any state whatsoever:
    an operation produces a reminder only if it is a timer run, the reminder is a Problem, the checkable is
    in a hard non-OK state, reachable, not in a downtime, not acknowledged and not flapping, and the initial
    Problem is not still held back — neither on the checkable (pending after a suppression) nor, after the
    operation, on the notification object (pending after a closed period). -/
theorem reminder_only_in_hard_unsuppressed_problem (c : Cfg) (s : St) (op : Op) :
    ∀ ev ∈ (applyOp c s op).2.events, ev.reminder = true →
      (applyOp c s op).2.kind = .tick ∧ ev.ty = .problem ∧
      (applyOp c s op).2.env.hard = true ∧ (applyOp c s op).2.env.state ≠ 0 ∧
      (applyOp c s op).2.env.reachable = true ∧ (applyOp c s op).2.env.inDowntime = false ∧
      (applyOp c s op).2.env.acked = false ∧ (applyOp c s op).2.env.flapping = false ∧
      (applyOp c s op).2.env.ckProblemPending = false ∧ (applyOp c s op).2.heldAfter = false := by
  intro ev hm hr
  have h := (reminder_op false c {} s op (fun t1 l hl => by simp at hl) (fun _ _ h => by cases h)).1
  unfold reminderObsOf at h
  obtain ⟨g', hg⟩ := evFold_none_mem _ _ _ h ev hm
  simp only [reminderEv, hr, Bool.not_true, Bool.false_eq_true, if_false] at hg
  cases hk : ((applyOp c s op).2.kind == OpKind.tick && ev.ty == NType.problem)
  · simp [hk] at hg
  · simp only [Bool.and_eq_true, beq_iff_eq] at hk
    cases hc : remCondOk (applyOp c s op).2.env
    · simp [hk.1, hk.2, hc] at hg
    · simp only [remCondOk, Bool.and_eq_true, Bool.not_eq_true', beq_eq_false_iff_ne] at hc
      obtain ⟨⟨⟨⟨⟨a1, a2⟩, a3⟩, a4⟩, a5⟩, a6⟩ := hc
      have hc' : remCondOk (applyOp c s op).2.env = true := by
        simp only [remCondOk, Bool.and_eq_true, Bool.not_eq_true', beq_eq_false_iff_ne]
        exact ⟨⟨⟨⟨⟨a1, a2⟩, a3⟩, a4⟩, a5⟩, a6⟩
      have a7 : (applyOp c s op).2.env.ckProblemPending = false := by
        cases hp : (applyOp c s op).2.env.ckProblemPending
        · rfl
        · simp [hk.1, hk.2, hc', hp] at hg
      have a8 : (applyOp c s op).2.heldAfter = false := by
        have hh := held_op c s op
        simp only [heldObs] at hh
        cases hq : (applyOp c s op).2.heldAfter
        · rfl
        · have : (applyOp c s op).2.events.any (fun ev => ev.reminder) = true := by
            rw [List.any_eq_true]; exact ⟨ev, hm, hr⟩
          simp [hq, this] at hh
      exact ⟨hk.1, hk.2, a1, a2, a3, a4, a5, a6, a7, a8⟩

/- **reminder_spacing** (third sentence, second part) — the full statement, which the unchanged code (hence the model)
   does NOT satisfy for `interval ≤ 0` (F-C03c, `reminder_interval0_counterexample` below):

     theorem reminder_spacing (c : Cfg) (ops : List Op) : reminderTrace c (traceOf c init ops) = none

   In every trace, within a stretch without a hard state change and with a clock that does not run backwards: a reminder
   comes at least `interval` seconds after the last unforced Problem (reminder or not) of the notification object, and
   with `interval ≤ 0` no reminder follows such a Problem until a Recovery has been processed.  (Also: reminders only
   from the timer and only in a hard, unsuppressed, non-flapping problem state.)  The stretch condition is necessary:
   `times.begin` re-arms `next_notification` relative to a new hard state change (notification.cpp:303), Q-C03. -/

/-- No event of the trace re-arms the reminder of an `interval ≤ 0` object: no notification of a type other than
    Problem, Custom and Recovery passes the notification-level filters (always true when `interval > 0`). -/
def NoRearmTrace (c : Cfg) (tr : List Obs) : Prop := ∀ o ∈ tr, ∀ ev ∈ o.events, rearms c ev = false

/-- **reminder_spacing_partial**: the full statement for every trace without a re-arming event — in particular, without
    any hypothesis, for every notification object with `interval > 0` (next theorem). -/
theorem reminder_spacing_partial (c : Cfg) (ops : List Op) (h : NoRearmTrace c (traceOf c init ops)) :
    reminderTrace c (traceOf c init ops) = none := by
  unfold reminderTrace
  exact runTrace_ok (reminderObs c) (RemInv c) (allEv (NoRearm true c)) c
    (fun g s op hi hp => reminder_op true c g s op hi hp) ops {} init
    (fun t1 l hl => by simp at hl) (fun o ho ev hev _ => h o ho ev hev)

/-- **reminder_spacing_positive_interval**: for `interval > 0` the third sentence holds of every trace. -/
theorem reminder_spacing_positive_interval (c : Cfg) (ops : List Op) (hpos : 0 < c.interval) :
    reminderTrace c (traceOf c init ops) = none := by
  apply reminder_spacing_partial
  intro o _ ev _
  have : ¬ c.interval ≤ 0 := by omega
  simp [rearms, this]

/-- **reminder_spacing_rearmed**: for every trace, the third sentence in the weaker reading the code implements — with
    `interval ≤ 0` no reminder follows a Problem until a Recovery *or any other notification type but Custom* has been
    processed; all other clauses of the checker (timer only, hard unsuppressed non-flapping problem, spacing) as stated. -/
theorem reminder_spacing_rearmed (c : Cfg) (ops : List Op) :
    reminderTraceLoose c (traceOf c init ops) = none := by
  unfold reminderTraceLoose
  exact runTrace_ok (reminderObsLoose c) (RemInv c) (fun _ => True) c
    (fun g s op hi _ => reminder_op false c g s op hi (fun _ _ h => by cases h)) ops {} init
    (fun t1 l hl => by simp at hl) (fun _ _ => trivial)

/-- F-C03c, the witness: `interval = 0`; Problem sent; a FlappingEnd notification passes (re-arms:
    no_more_notifications := false, notification.cpp:396-397); the next timer run sends a reminder for the same
    incident. -/
def cx0Cfg : Cfg := { cxAll with interval := 0 }
def cx0Ops : List Op := [.send .problem (cxEnv 100 2 true), .send .flapEnd { cxEnv 160 2 true with lhsc := 100 },
                         .tick { cxEnv 220 2 true with lhsc := 100 }]

theorem reminder_interval0_counterexample :
    reminderTrace cx0Cfg (traceOf cx0Cfg init cx0Ops) = some .reminderInterval0 ∧
    (traceOf cx0Cfg init cx0Ops).map (fun o => o.events) =
      [[⟨.problem, false, true, false, [0, 1]⟩], [⟨.flapEnd, false, true, false, [0, 1]⟩], [⟨.problem, true, true, false, [0, 1]⟩]] := by
  decide

/-- The hypothesis of `reminder_spacing_partial` is satisfiable on a non-trivial `interval = 0` trace: Problem, Custom,
    timer (nothing), Recovery, next incident's Problem. -/
example : NoRearmTrace cx0Cfg (traceOf cx0Cfg init
    [.send .problem (cxEnv 100 2 true), .send .custom { cxEnv 160 2 true with lhsc := 100 }, .tick { cxEnv 220 2 true with lhsc := 100 },
     .send .recovery (cxEnv 300 0 true), .send .problem (cxEnv 400 2 true)]) := by
  unfold NoRearmTrace; decide

/-- **forced_timer_notifications_are_owed** ("forced notifications bypass every filter" — only they).  The timer never
    forces anything of its own: in every trace, a forced event of a timer run has the type of an earlier forced request
    that produced no notification when it arrived (stashed during the cold-start phase or queued behind the stash). -/
theorem forced_timer_notifications_are_owed (c : Cfg) (ops : List Op) : owedTrace (traceOf c init ops) = none := by
  unfold owedTrace
  exact runTrace_ok owedObs OwedInv (fun _ => True) c (fun g s op hi _ => owed_op c g s op hi) ops [] init
    (fun p hp => by simp [init] at hp) (fun _ _ => trivial)

/-- **timer_forced_only_from_stash**: from any state, every forced event of one timer run is the replay of a stashed
    request `(type, force = true)`, and whatever is still stashed afterwards was stashed before. -/
theorem timer_forced_only_from_stash (c : Cfg) (s : St) (e : Env) :
    (∀ p ∈ (tickStep c s e).1.stash, p ∈ s.stash) ∧
    ∀ ev ∈ (tickStep c s e).2, ev.force = true → (ev.ty, true) ∈ s.stash :=
  tick_forced_from_stash c s e

/-- The specification rejects a forced notification out of the timer that no forced request is waiting for … -/
example : specTrace cxAll [⟨.send, cxEnv 100 2 true, [], false, some .problem⟩,
    ⟨.tick, cxEnv 110 2 true, [⟨.problem, false, true, true, [0, 1]⟩], false, none⟩] = some .forceClaim := by decide
/-- … and accepts it after a forced request that went unanswered (cold start). -/
example : specTrace cxAll [⟨.send, { cxEnv 100 2 true with force := true, authUpdated := false }, [], false, some .problem⟩,
    ⟨.tick, cxEnv 110 2 true, [⟨.problem, false, true, true, [0, 1]⟩], false, none⟩] = none := by decide

/-- **forced_bypasses_user_filters** ("forced notifications bypass every filter except the user's enable flag", the positive
    half).  In every trace, a forced notification of a type without per-user incident rules (everything but Problem,
    Recovery, Acknowledgement) that is sent at all reaches every attached user whose enable flag is set, whatever the
    users' periods, type filters and state filters say. -/
theorem forced_bypasses_user_filters (c : Cfg) (s : St) (ops : List Op) : bypassTrace (traceOf c s ops) = true :=
  bypassTrace_ok c ops s

/-- The specification rejects a forced Custom notification that skips an enabled user (whose period is closed). -/
example : specTrace cxAll [⟨.send, { cxEnv 100 2 true with force := true, users := [cxUser 0 true, { cxUser 1 true with periodOpen := false }] },
    [⟨.custom, false, true, true, [0]⟩], false, some .custom⟩] = some .forcedBypass := by decide

/- **model_trace_meets_spec** (the whole property) — full statement, false of the unchanged code because of F-C03b and F-C03c:

     theorem model_trace_meets_spec (c : Cfg) (ops : List Op) : specTrace c (traceOf c init ops) = none -/

/-- **model_trace_meets_spec_partial**.  For every configuration of the notification object and every finite sequence of
    notification requests and timer runs under arbitrary environments in which no Recovery request is dropped by the
    enable flags and (for `interval ≤ 0`) no other notification type re-arms the reminder, the model's trace satisfies
    the whole executable specification (all clauses of all checkers). -/
theorem model_trace_meets_spec_partial (c : Cfg) (ops : List Op)
    (h : ∀ o ∈ traceOf c init ops, recoveryDropped o = false) (h0 : NoRearmTrace c (traceOf c init ops)) :
    specTrace c (traceOf c init ops) = none := by
  unfold specTrace
  rw [delivery_only_if, recovery_ack_recipients_partial c ops h, no_duplicate_problem, reminder_spacing_partial c ops h0,
    heldTrace_ok, forced_timer_notifications_are_owed, forced_bypasses_user_filters]
  rfl

/-- … and `recoveryAckRecipients` and `reminderInterval0` are the only clauses that can fail without the hypotheses:
    every other checker — and the reminder checker in the code's weaker reading of interval 0 — accepts every trace of
    the model. -/
theorem model_trace_other_clauses (c : Cfg) (ops : List Op) :
    deliveryTrace c (traceOf c init ops) = none ∧ noDupTrace (traceOf c init ops) = none ∧
    reminderTraceLoose c (traceOf c init ops) = none ∧ heldTrace (traceOf c init ops) = none ∧
    owedTrace (traceOf c init ops) = none ∧ bypassTrace (traceOf c init ops) = true :=
  ⟨delivery_only_if c init ops, no_duplicate_problem c ops, reminder_spacing_rearmed c ops, heldTrace_ok c ops init,
   forced_timer_notifications_are_owed c ops, forced_bypasses_user_filters c init ops⟩

theorem model_trace_meets_spec_counterexample :
    specTrace cxAll (traceOf cxAll init cxDropOps) = some .recoveryAckRecipients := by
  decide

/-- The hypotheses are satisfiable on a non-trivial trace (the former witness of F-C03a: four requests, seven deliveries). -/
example : (∀ o ∈ traceOf cxCfg init cxOps, recoveryDropped o = false) ∧ NoRearmTrace cxCfg (traceOf cxCfg init cxOps) := by
  unfold NoRearmTrace; decide

/-! ## Non-vacuity -/

def exCfg : Cfg := { isHost := false, interval := 60, tbegin := some 10, tend := none, typeFilter := 511, stateFilter := 15 }
def exEnv (now lhsc : Int) (state : Nat) : Env := { cxEnv now state true with lhsc := lhsc }

/-- Critical since 100, `times.begin` 10: the Problem at 100 is delayed, the timer sends it at 111 as a
    reminder to both users, the next reminder comes at 171 and not at 170; the Recovery goes to both. -/
example : (traceOf exCfg init
      [.send .problem (exEnv 100 100 2), .tick (exEnv 111 100 2), .tick (exEnv 170 100 2), .tick (exEnv 171 100 2),
       .send .recovery (exEnv 200 200 0)]).map (fun o => o.events) =
    [[], [⟨.problem, true, true, false, [0, 1]⟩], [], [⟨.problem, true, true, false, [0, 1]⟩], [⟨.recovery, false, true, false, [0, 1]⟩]] := by
  decide

/-- Cold start: while the object authority is not yet known, requests are stashed (also behind one another once it is
    known); the next timer run replays them in arrival order, each with its own force flag — the forced Custom
    goes out although the period is closed by then, the unforced Acknowledgement is held back by it. -/
example :
    let cold (e : Env) : Env := { e with authUpdated := false }
    let ops : List Op := [.send .problem (cold (exEnv 120 100 2)), .send .custom { cold (exEnv 121 100 2) with force := true },
                          .send .ack (exEnv 122 100 2), .tick { exEnv 130 100 2 with periodOpen := false }]
    specTrace exCfg (traceOf exCfg init ops) = none ∧
    (traceOf exCfg init ops).map (fun o => o.events) = [[], [], [], [⟨.custom, false, true, true, [0, 1]⟩]] := by
  decide

/-- The specification rejects a delivery while the notification period is closed … -/
example : specTrace exCfg [⟨.send, { exEnv 120 100 2 with periodOpen := false }, [⟨.problem, false, true, false, [0]⟩], false, none⟩] =
    some .notifPeriod := by decide

/-- … a delivery to a disabled user, even when forced … -/
example : specTrace exCfg [⟨.send, { exEnv 120 100 2 with force := true, users := [cxUser 0 false] },
    [⟨.problem, false, true, true, [0]⟩], false, none⟩] = some .userFilters := by decide

/-- … a delivery that claims to be forced although force_next_notification was not set … -/
example : specTrace exCfg [⟨.send, { exEnv 120 100 2 with periodOpen := false }, [⟨.problem, false, true, true, [0]⟩], false, none⟩] =
    some .forceClaim := by decide

/-- … a Recovery to a subscriber who was not sent the Problem … -/
example : specTrace exCfg [⟨.send, exEnv 120 100 2, [⟨.problem, false, true, false, [0]⟩], false, none⟩,
    ⟨.send, exEnv 200 200 0, [⟨.recovery, false, true, false, [0, 1]⟩], false, none⟩] = some .recoveryAckRecipients := by decide

/-- … a second non-reminder Problem for the same state … -/
example : specTrace exCfg [⟨.send, exEnv 120 100 2, [⟨.problem, false, true, false, [0]⟩], false, none⟩,
    ⟨.send, exEnv 130 100 2, [⟨.problem, false, true, false, [0]⟩], false, none⟩] = some .duplicateProblem := by decide

/-- … a reminder while acknowledged, a reminder 59 s after the Problem … -/
example : specTrace exCfg [⟨.tick, { exEnv 120 100 2 with acked := true }, [⟨.problem, true, true, false, [0]⟩], false, none⟩] =
    some .reminderCond := by decide
example : specTrace exCfg [⟨.send, exEnv 120 100 2, [⟨.problem, false, true, false, [0]⟩], false, none⟩,
    ⟨.tick, exEnv 179 100 2, [⟨.problem, true, true, false, [0]⟩], false, none⟩] = some .reminderSpacing := by decide

/-- … a reminder while the checkable or the notification object still holds the initial Problem back … -/
example : specTrace exCfg [⟨.tick, { exEnv 120 100 2 with ckProblemPending := true }, [⟨.problem, true, true, false, [0]⟩], false, none⟩] =
    some .reminderBeforeHeld := by decide
example : specTrace exCfg [⟨.tick, exEnv 120 100 2, [⟨.problem, true, true, false, [0]⟩], true, none⟩] =
    some .reminderBeforeHeld := by decide

/-- … and, with interval 0, any reminder after the Problem. -/
example : specTrace { exCfg with interval := 0 } [⟨.send, exEnv 120 100 2, [⟨.problem, false, true, false, [0]⟩], false, none⟩,
    ⟨.tick, exEnv 500 100 2, [⟨.problem, true, true, false, [0]⟩], false, none⟩] = some .reminderInterval0 := by decide

/-! ## The checkable's side: a notification is forced only if ITS request was forced

  Checkable-level sequences: a requester sets force_next_notification (`setForce`), the checkable raises requests (`send`,
  whose `force` is the model's flag, not an input), the timer runs, and the notification object may not (yet) be
  registered with the checkable (`attach`).  The specification derives "this request was forced" from the observed
  sequence (`reqForced`: a `setForce` since the checkable's previous request, seen by the object or not). -/

/-- **force_is_one_shot**.  Every request consumes force_next_notification — also one that reaches no notification
    object (checkable-notification.cpp:39-41 come before the bail-out at :58-63) — and it stays unset until a requester
    sets it again: whatever happens in between (requests, timer runs, objects attached or removed). -/
theorem force_is_one_shot (c : Cfg) (k : CkSt) (s : St) (ty : NType) (e : Env) (mid : List COp)
    (hmid : ∀ op ∈ mid, op ≠ COp.setForce) :
    (crun c k s (.send ty e :: mid)).1.force = false := by
  simp only [crun, cApply]
  cases ha : k.attached
  · simp only [Bool.false_eq_true, if_false]; exact crun_force_false c mid _ _ rfl hmid
  · simp only [if_true]; exact crun_force_false c mid _ _ rfl hmid

/-- **checkable_trace_refines**.  What a notification object sees of a checkable-level sequence, with the specification's
    own force bit on every request, is exactly the trace of the one-object model on the lowered operations — so every
    theorem above transfers. -/
theorem checkable_trace_refines (c : Cfg) (cops : List COp) (k : CkSt) (s : St) :
    reqForced k.force (ctraceOf c k s cops) = traceOf c s (lower k cops) :=
  reqForced_ctraceOf c cops k s

/-- **delivery_only_if_checkable** (first sentence, at the level of the checkable).  For every sequence of setForce /
    attach / request / timer operations: every delivery satisfies the only-if conditions, where "forced" is granted only
    to a request that a `setForce` preceded with no other request of the checkable in between (clause
    forced_only_if_force_next_notification_was_set, evaluated against the specification's own bit). -/
theorem delivery_only_if_checkable (c : Cfg) (cops : List COp) :
    deliveryTrace c (reqForced false (ctraceOf c {} init cops)) = none := by
  have h := checkable_trace_refines c cops {} init
  simp only at h
  rw [h]; exact delivery_only_if c init _

/-- **model_ctrace_meets_spec_partial**: the whole specification on checkable-level sequences, under the two hypotheses of
    `model_trace_meets_spec_partial` (F-C03b, F-C03c). -/
theorem model_ctrace_meets_spec_partial (c : Cfg) (cops : List COp)
    (h : ∀ o ∈ reqForced false (ctraceOf c {} init cops), recoveryDropped o = false)
    (h0 : NoRearmTrace c (reqForced false (ctraceOf c {} init cops))) :
    specTraceC c (ctraceOf c {} init cops) = none := by
  have hr := checkable_trace_refines c cops {} init
  simp only at hr
  unfold specTraceC
  rw [hr] at h h0 ⊢
  exact model_trace_meets_spec_partial c _ h h0

/-- A forced Custom request for a checkable whose notification object is not registered yet; the object appears; an
    ordinary Problem arrives which the type filter (Recovery only) does not admit: the model delivers nothing, and the
    hypotheses of the theorem hold. -/
def stickyCfg : Cfg := { cxCfg with typeFilter := 64 }
def stickyOps : List COp :=
  [.attach false, .setForce, .send .custom (cxEnv 100 0 true), .attach true, .send .problem (cxEnv 200 2 true)]
example : (ctraceOf stickyCfg {} init stickyOps).length = 3 ∧
    (reqForced false (ctraceOf stickyCfg {} init stickyOps)).map (fun o => (o.env.force, o.events)) = [(false, [])] ∧
    specTraceC stickyCfg (ctraceOf stickyCfg {} init stickyOps) = none := by decide

/-- The specification rejects the trace of an implementation whose flag survives the unseen request (the later Problem
    bypasses the type filter as "forced") … -/
example : specTraceC stickyCfg [.setForce, .unseen,
    .op ⟨.send, { cxEnv 200 2 true with force := true }, [⟨.problem, false, true, true, [0, 1]⟩], false, some .problem⟩] =
    some .forceClaim := by decide

/-- … and accepts it when the forced request is the one right after `setForce`. -/
example : specTraceC stickyCfg [.unseen, .setForce,
    .op ⟨.send, { cxEnv 200 2 true with force := true }, [⟨.problem, false, true, true, [0, 1]⟩], false, some .problem⟩] =
    none := by decide

/-- **force_reaches_next_request**.  Once a requester has set force_next_notification it stays set — through timer runs and
    through notification objects coming and going — until the checkable's next request, which is therefore forced. -/
theorem force_reaches_next_request (c : Cfg) (k : CkSt) (s : St) (mid : List COp)
    (hmid : ∀ op ∈ mid, ∀ ty e, op ≠ COp.send ty e) :
    (ckRequest (crun c k s (.setForce :: mid)).1).2 = true := by
  simp only [crun, cApply, ckRequest]
  exact crun_force_true c mid _ _ rfl hmid

/-- **model_trace_meets_spec_positive_interval**: for `interval > 0` the whole specification needs only the F-C03b
    hypothesis. -/
theorem model_trace_meets_spec_positive_interval (c : Cfg) (ops : List Op) (hpos : 0 < c.interval)
    (h : ∀ o ∈ traceOf c init ops, recoveryDropped o = false) :
    specTrace c (traceOf c init ops) = none := by
  apply model_trace_meets_spec_partial c ops h
  intro o _ ev _
  have : ¬ c.interval ≤ 0 := by omega
  simp [rearms, this]

end Icinga.C03

/-
  C11 — cluster routing: complete, duplicate-free, loop-free, never to ineligible zones.

  PART 1 (one relaying node; `relayFuel` transcribes `ApiListener::SyncRelayMessage`): theorems for EVERY topology,
  connectivity, origin, object zone, master, walk fuel and iteration order of the endpoint sets (the `pick`).
  PART 2 (the cluster; `run` = any sequence of deliveries): for every topology and delivery order, by induction over
  deliveries: `net_only_entitled`, `net_no_discard`, `second_hop_no_echo`; for every zone forest with at most two
  endpoints per zone and symmetric static connectivity: `no_duplicate`, `finite`, `finite_and_no_duplicate`
  (history invariant of C11/Compass.lean) and `complete_when_connected` (C11/Complete.lean).  An enumerated finite
  family (`…_partial`) is kept as a cross-check of the executable forms.

  Only property theorems and their non-vacuity examples live here; helpers are in `IcingaProofs/C11/Lemmas.lean`.
-/
import IcingaProofs.C11.Lemmas
import IcingaProofs.C11.Family
import IcingaProofs.C11.Compass
import IcingaProofs.C11.Complete
import IcingaProofs.C11.LogPos
namespace Icinga.C11

/-! ## Part 1 — one node -/

section Node
variable {T : Topo} {self : Ep} {o : Origin} {oz : Option Zone} {log : Bool} {fuel : Nat} {e : Ep}

/-- **reachable_only.**  A message is only handed to a connected endpoint, never to the node itself. -/
theorem reachable_only (h : e ∈ (relayFuel fuel T self o oz log).sent) : e ≠ self ∧ T.conn self e = true :=
  sent_reachable h

/-- **no_echo.**  Never back to the endpoint the message came from, never into the zone it came from. -/
theorem no_echo (hz : ∀ z e, e ∈ T.eps self z → T.zoneOf e = z) (h : e ∈ (relayFuel fuel T self o oz log).sent) :
    o.client ≠ some e ∧ o.fromZone ≠ some (T.zoneOf e) :=
  sent_no_echo hz h

/-- **only_master_crosses.**  A node that is not the zone master hands the message to nobody but the master (so it
    never crosses a zone border: the master is a member of its own zone). -/
theorem only_master_crosses (hm : getMaster T self ≠ some self) (h : e ∈ (relayFuel fuel T self o oz log).sent) :
    getMaster T self = some e :=
  sent_master hm h

/-- **only_entitled.**  Every send goes to an endpoint of the object's zone or one of its ancestors; for an object
    of a global zone: of the node's own zone or a direct child of it. -/
theorem only_entitled (hd : Detached T) (hz : ∀ z e, e ∈ T.eps self z → T.zoneOf e = z)
    (h : e ∈ (relayFuel fuel T self o oz log).sent) : Entitled T self oz (T.zoneOf e) := by
  obtain ⟨_, hcz⟩ := sent_zone_of hd hz h
  unfold Entitled
  by_cases hg : T.isGlobal (targetZone T self oz) = true
  · simp only [hg, if_true] at hcz ⊢
    rcases hcz with h1 | ⟨_, h2⟩
    · exact Or.inl h1
    · exact Or.inr h2
  · simp only [hg] at hcz ⊢
    simp only [Bool.false_eq_true, if_false]
    exact mem_chain_anc T fuel _ _ hcz.1

/-- **single_entry.**  A foreign zone is entered through at most one endpoint. -/
theorem single_entry (hd : Detached T) (hz : ∀ z e, e ∈ T.eps self z → T.zoneOf e = z) {a b : Ep}
    (ha : a ∈ (relayFuel fuel T self o oz log).sent) (hb : b ∈ (relayFuel fuel T self o oz log).sent)
    (hab : T.zoneOf a = T.zoneOf b) (hf : T.zoneOf a ≠ T.zoneOf self) : a = b :=
  sent_single_entry hd hz ha hb hab hf

/-- **logged_not_dropped** (object of an ordinary zone).  `z` is the object's zone or an ancestor (within the walk),
    it is the node's own zone, its parent or a direct child, the node has somebody to send to there and reaches none
    of them: the message is persisted.  Holds for masters and non-masters alike. -/
theorem logged_not_dropped (hd : Detached T) {z : Zone}
    (hg : T.isGlobal (targetZone T self oz) = false)
    (hz : z ∈ targetZone T self oz :: allParents T fuel (targetZone T self oz))
    (hrel : directlyRelated T self z = true) (hun : unreachableB T self z = true) :
    (relayFuel fuel T self o oz true).persist = true := by
  have hrel' : related T self z = true := by
    unfold directlyRelated at hrel; unfold related
    simp only [Bool.or_eq_true] at hrel ⊢
    rcases hrel with (h | h) | h
    · exact Or.inl (Or.inl (Or.inr h))
    · exact Or.inl (Or.inr h)
    · exact Or.inr h
  obtain ⟨z', hz', hr', hcz⟩ := zone_relayed hd (self := self) (oz := oz) (fuel := fuel) (cz := z) (by simp [hg]; exact ⟨by simpa using hz, hrel'⟩)
  obtain ⟨h1, h2⟩ := relayZone_unreachable T self o (getMaster T self) z hun
  rw [relayFuel_persist]
  simp only [Bool.true_and, List.any_eq_true]
  exact ⟨z', hz', by simp [relayOne_not_ok T self o _ hr' hcz h1 h2]⟩

/-- **logged_not_dropped** (object of a global zone): the node's own zone and its registered direct children. -/
theorem logged_not_dropped_global (hd : Detached T) {z : Zone}
    (hg : T.isGlobal (targetZone T self oz) = true)
    (hz : z = T.zoneOf self ∨ (z ∈ T.zones ∧ T.parent z = some (T.zoneOf self)))
    (hun : unreachableB T self z = true) :
    (relayFuel fuel T self o oz true).persist = true := by
  obtain ⟨z', hz', hr', hcz⟩ := zone_relayed hd (self := self) (oz := oz) (fuel := fuel) (cz := z) (by simp [hg]; exact hz)
  obtain ⟨h1, h2⟩ := relayZone_unreachable T self o (getMaster T self) z hun
  rw [relayFuel_persist]
  simp only [Bool.true_and, List.any_eq_true]
  exact ⟨z', hz', by simp [relayOne_not_ok T self o _ hr' hcz h1 h2]⟩

/-- **origin_zone_copied.**  The message carries the origin's zone (what the next hop's `no_echo` reads). -/
theorem origin_zone_copied : (relayFuel fuel T self o oz log).originZone = o.fromZone := rfl

/-- **no_duplicate_send.**  In a well-formed configuration no endpoint gets the message twice from one relay step. -/
theorem no_duplicate_send (wf : WF T self) : (relayFuel fuel T self o oz log).sent.Nodup :=
  sent_nodup wf

/-- **relay_meets_spec.**  For every well-formed configuration, every connectivity, origin, object zone, log flag,
    master and iteration order: what the model of `SyncRelayMessage` does satisfies the executable specification -
    the same predicate the check evaluates on the implementation's observations. -/
theorem relay_meets_spec (c : Case) (wf : WF T c.self) :
    specCase fuel T c ((relayFuel fuel T c.self c.origin c.objZone c.log).obs T c.self) = none := by
  have hd : Detached T := wf.toDetached
  have hz := wf.zone_of_mem
  -- what is queued was handed over
  have hq : ∀ e, e ∈ queued T c.self (relayFuel fuel T c.self c.origin c.objZone c.log) →
      e ∈ (relayFuel fuel T c.self c.origin c.objZone c.log).sent := fun e he => (List.mem_filter.mp he).1
  generalize hQ : queued T c.self (relayFuel fuel T c.self c.origin c.objZone c.log) = Q at hq
  have h1 : Q.all (fun e => e != c.self && T.conn c.self e) = true := by
    rw [List.all_eq_true]
    intro e he
    have := reachable_only (hq e he)
    simp [this.1, this.2]
  have h2 : Q.all (fun e => entitledB fuel T c.self c.objZone (T.zoneOf e)) = true := by
    rw [List.all_eq_true]
    intro e he
    exact only_entitledB hd hz (hq e he)
  have h3 : Q.all (fun e => c.origin.client != some e && c.origin.fromZone != some (T.zoneOf e)) = true := by
    rw [List.all_eq_true]
    intro e he
    have := no_echo hz (hq e he)
    simp [this.1, this.2]
  have h4 : nodupB Q = true := by
    rw [nodupB_iff, ← hQ]
    exact (List.filter_sublist).nodup (no_duplicate_send wf)
  have h5 : Q.all (fun a => Q.all
        (fun b => !(T.zoneOf a == T.zoneOf b && T.zoneOf a != T.zoneOf c.self) || a == b)) = true := by
    rw [List.all_eq_true]
    intro a ha
    rw [List.all_eq_true]
    intro b hb
    by_cases hab : T.zoneOf a = T.zoneOf b ∧ T.zoneOf a ≠ T.zoneOf c.self
    · have := single_entry hd hz (hq a ha) (hq b hb) hab.1 hab.2
      simp [this]
    · have : (T.zoneOf a == T.zoneOf b && T.zoneOf a != T.zoneOf c.self) = false := by
        simp only [Bool.and_eq_false_imp, beq_iff_eq, bne_eq_false_iff_eq]
        intro h
        exact Classical.byContradiction (fun hn => hab ⟨h, hn⟩)
      simp [this]
  have h6 : (notMasterB T c.self && !Q.all (fun e => isZoneMasterB T c.self e)) = false := by
    by_cases hn : notMasterB T c.self = true
    · have hm := notMaster_of_notMasterB hn
      have : Q.all (fun e => isZoneMasterB T c.self e) = true := by
        rw [List.all_eq_true]
        intro e he
        exact isZoneMasterB_of_master hz (only_master_crosses hm (hq e he)) (reachable_only (hq e he)).1
      simp [this]
    · simp [hn]
  have h7 : (c.log && !(relayFuel fuel T c.self c.origin c.objZone c.log).persist &&
      (candidateZones T c.self c.objZone).any (fun z =>
        directlyRelated T c.self z && entitledB fuel T c.self c.objZone z && unreachableB T c.self z)) = false := by
    by_cases hlog : c.log = true
    · by_cases hany : (candidateZones T c.self c.objZone).any (fun z =>
          directlyRelated T c.self z && entitledB fuel T c.self c.objZone z && unreachableB T c.self z) = true
      · have : (relayFuel fuel T c.self c.origin c.objZone c.log).persist = true := by
          rw [hlog]
          rw [List.any_eq_true] at hany
          obtain ⟨z, hzc, hcond⟩ := hany
          simp only [Bool.and_eq_true] at hcond
          obtain ⟨⟨hrel, hent⟩, hun⟩ := hcond
          by_cases hg : T.isGlobal (targetZone T c.self c.objZone) = true
          · apply logged_not_dropped_global hd hg _ hun
            have := candidate_relayed c hzc hrel hent
            simpa [hg] using this
          · have hg' : T.isGlobal (targetZone T c.self c.objZone) = false := by simpa using hg
            apply logged_not_dropped hd hg' _ hrel hun
            unfold entitledB at hent
            simp only [hg', Bool.false_eq_true, if_false] at hent
            exact (isChildOfFuel_iff T fuel _ _).mp hent
        simp [this]
      · simp [hany]
    · simp [hlog]
  have h8 : (match getMaster T c.self with | some m => !masterIsB T c.self m | none => false) = false := by
    cases hm : getMaster T c.self with
    | none => rfl
    | some m => simp [masterIsB_of_getMaster hm]
  have h9 : (entitledB fuel T c.self c.objZone (T.zoneOf c.self) &&
      !(T.eps c.self (T.zoneOf c.self)).all (fun p => !peerDueB T c p || Q.contains p)) = false := by
    by_cases hent : entitledB fuel T c.self c.objZone (T.zoneOf c.self) = true
    · have : (T.eps c.self (T.zoneOf c.self)).all (fun p => !peerDueB T c p || Q.contains p) = true := by
        rw [List.all_eq_true]
        intro p hp
        by_cases hdue : peerDueB T c p = true
        · have := peer_due_sent hd c hent hp hdue
          rw [hQ] at this
          simp [this]
        · simp [hdue]
      rw [this, hent]; rfl
    · simp [hent]
  have h10 : (candidateZones T c.self c.objZone).all (fun z =>
      !(directlyRelated T c.self z && entitledB fuel T c.self c.objZone z && zoneDueB T c z) ||
      Q.any (fun e => (T.eps c.self z).contains e)) = true := by
    rw [List.all_eq_true]
    intro z hzc
    by_cases hcond : (directlyRelated T c.self z && entitledB fuel T c.self c.objZone z && zoneDueB T c z) = true
    · simp only [Bool.and_eq_true] at hcond
      obtain ⟨e, he, hmem⟩ := zone_due_sent hd c hzc hcond.1.1 hcond.1.2 hcond.2
      rw [hQ] at he
      have : Q.any (fun e => (T.eps c.self z).contains e) = true := by
        rw [List.any_eq_true]; exact ⟨e, he, by simpa using hmem⟩
      rw [this, Bool.or_true]
    · have : (directlyRelated T c.self z && entitledB fuel T c.self c.objZone z && zoneDueB T c z) = false := by
        simpa using hcond
      rw [this]; rfl
  unfold specCase Result.obs
  simp only [hQ, h1, h2, h3, h4, h5, h6, h7, h9, h10, Bool.not_true, Bool.false_eq_true, if_false]
  simp [relayFuel] <;> exact h8

/-- **same_master.**  The choice of the zone master depends on names and connectedness only: two nodes of one zone that
    have the same view of its members (in particular two zone peers that see each other) name the same master -
    whatever their `syncing` flags, log positions or anything else say. -/
theorem same_master {a b : Ep} (hmem : ∀ x, x ∈ T.eps a (T.zoneOf a) ↔ x ∈ T.eps b (T.zoneOf b))
    (hview : ∀ x ∈ T.eps a (T.zoneOf a), (T.conn a x || x == a) = (T.conn b x || x == b)) :
    getMaster T a = getMaster T b := same_master_aux hmem hview

end Node

/-! ### non-vacuity: a concrete three-level cluster

    zone 0 (endpoints 0,1) ── zone 1 (2,3) ── zone 2 (4,5);  zone 3 is global.  Everybody is connected. -/

def exT : Topo :=
  { parent := fun z => if z = 1 then some 0 else if z = 2 then some 1 else none,
    isGlobal := fun z => z == 3,
    zones := [0, 1, 2, 3],
    zoneOf := fun e => e / 2,
    eps := fun _ z => if z < 3 then [2 * z, 2 * z + 1] else [],
    conn := fun a b => a != b }

theorem exT_detached : Detached exT := by
  constructor
  · intro g hg
    have : g = 3 := by simpa [exT] using hg
    subst this; rfl
  · intro z p h
    simp only [exT] at h ⊢
    split at h
    · cases h; rfl
    · split at h
      · cases h; rfl
      · cases h

theorem exT_wf (s : Ep) : WF exT s := by
  refine { exT_detached with zone_of_mem := ?_, eps_nodup := ?_, zones_nodup := by decide, acyclic := ⟨fun z => z, ?_⟩ }
  · intro z e h
    simp only [exT] at h ⊢
    split at h
    · simp only [List.mem_cons, List.not_mem_nil, or_false] at h
      rcases h with rfl | rfl <;> eomega
    · cases h
  · intro z
    simp only [exT]
    split
    · simp
    · exact List.nodup_nil
  · intro z p h
    simp only [exT] at h
    split at h
    · cases h; eomega
    · split at h
      · cases h; eomega
      · cases h

/-- the master of the middle zone relays an event about an object of the lowest zone: one endpoint below, its peer,
    one endpoint above; the second endpoints of the foreign zones are skipped -/
example : (relay exT 2 Origin.loc (some 2) true).sent = [4, 3, 0] ∧ (relay exT 2 Origin.loc (some 2) true).skipped = [5, 1] ∧
    (relay exT 2 Origin.loc (some 2) true).persist = false := by decide
/-- its peer (not the master) only talks to the master -/
example : (relay exT 3 Origin.loc (some 2) true).sent = [2] ∧ getMaster exT 3 = some 2 := by decide
/-- second hop: endpoint 0 got the event from endpoint 2 (zone 1) and passes it to its peer only -/
example : (relay exT 0 ⟨some 2, some 1⟩ (some 2) true).sent = [1] ∧ (relay exT 0 ⟨some 2, some 1⟩ (some 2) true).originZone = some 1 := by decide
/-- object of the global zone: own zone and direct children, not the parent -/
example : (relay exT 2 Origin.loc (some 3) true).sent = [3, 4] := by decide
/-- nobody reachable: persisted -/
example : (relay { exT with conn := fun _ _ => false } 2 Origin.loc (some 2) true).sent = [] ∧
    (relay { exT with conn := fun _ _ => false } 2 Origin.loc (some 2) true).persist = true := by decide
/-- the hypotheses of `logged_not_dropped` are satisfiable -/
example : exT.isGlobal (targetZone exT 2 (some 2)) = false ∧ (0 : Zone) ∈ targetZone exT 2 (some 2) :: allParents exT maxDepth (targetZone exT 2 (some 2)) ∧
    directlyRelated exT 2 0 = true ∧ unreachableB { exT with conn := fun _ _ => false } 2 0 = true := by decide
/-- the specification accepts what the model does … -/
example : specCase maxDepth exT ⟨2, Origin.loc, some 2, true⟩ ((relay exT 2 Origin.loc (some 2) true).obs exT 2) = none :=
  relay_meets_spec _ (exT_wf 2)
/-- … and rejects wrong traces: a second endpoint of a foreign zone, an echo, a send by a non-master across the
    border, an unentitled zone, a dropped message, a lost origin zone -/
example : specCase maxDepth exT ⟨2, Origin.loc, some 2, true⟩ { sent := [4, 5, 3, 0], persist := false, originZone := none } = some .single_entry := by decide
example : specCase maxDepth exT ⟨0, ⟨some 2, some 1⟩, some 2, true⟩ { sent := [1, 2], persist := false, originZone := some 1 } = some .no_echo := by decide
example : specCase maxDepth exT ⟨3, Origin.loc, some 2, true⟩ { sent := [2, 0], persist := false, originZone := none } = some .only_master_crosses := by decide
example : specCase maxDepth exT ⟨2, Origin.loc, some 1, true⟩ { sent := [3, 0, 4], persist := false, originZone := none } = some .only_entitled := by decide
example : specCase maxDepth { exT with conn := fun _ _ => false } ⟨2, Origin.loc, some 2, true⟩ { sent := [], persist := false, originZone := none } = some .logged_not_dropped := by decide
example : specCase maxDepth exT ⟨0, ⟨some 2, some 1⟩, some 2, true⟩ { sent := [1], persist := false, originZone := none } = some .origin_zone_copied := by decide
/-- … a second copy on an older connection, a master chosen by anything but names and connectedness, an entitled
    parent zone that is reachable and gets nothing, two peers that see each other and disagree on the master -/
example : specCase maxDepth exT ⟨2, Origin.loc, some 2, true⟩ { sent := [4, 3, 0], persist := false, originZone := none, extraCopies := 1 } = some .one_copy_per_endpoint := by decide
example : specCase maxDepth exT ⟨3, Origin.loc, some 2, true⟩ { sent := [2], persist := false, originZone := none, master := some 3 } = some .master_by_names_and_connectedness := by decide
example : specCase maxDepth exT ⟨2, Origin.loc, some 2, true⟩ { sent := [4, 3], persist := false, originZone := none } = some .forwarded_when_reachable := by decide
example : specMasterPair exT 2 3 (some 2) (some 2) = none ∧ specMasterPair exT 2 3 (some 2) (some 3) = some .master_by_names_and_connectedness := by decide
/-- `syncing` changes what is queued, not who is master and not what is handed over -/
example : queued { exT with syncing := fun _ e => e == 3 } 2 (relay { exT with syncing := fun _ e => e == 3 } 2 Origin.loc (some 2) true) = [4, 0] ∧
    getMaster { exT with syncing := fun _ e => e == 2 } 3 = some 2 := by decide

/-- Beyond the property's quantifier (it speaks of one or two endpoints per zone): with THREE members in the node's own
    zone the test "last examined member connected" (apilistener.cpp:1262-1268, 1313) lets a message for a disconnected
    member be neither sent nor persisted when a connected member is examined after it. -/
def exT3 : Topo :=
  { parent := fun _ => none, isGlobal := fun _ => false, zones := [0], zoneOf := fun _ => 0,
    eps := fun _ z => if z = 0 then [0, 1, 2] else [], conn := fun a b => (a, b) != (0, 1) && (a, b) != (1, 0) && a != b }

theorem logged_not_dropped_three_endpoints_counterexample :
    (1 : Ep) ∈ exT3.eps 0 (exT3.zoneOf 0) ∧ exT3.conn 0 1 = false ∧
    (1 : Ep) ∉ (relay exT3 0 Origin.loc none true).sent ∧ (relay exT3 0 Origin.loc none true).persist = false := by decide


/-! ## Part 2 — the cluster

    `start T orig oz` is the originating endpoint relaying a fresh event about an object of zone `oz`; `run … sched`
    delivers in-flight messages in the order `sched` chooses (any list of indices: every delivery order, including
    ones that leave messages undelivered); a recipient builds the origin as `MessageHandler` does, discards the
    message unless the origin's zone may access the object, otherwise processes the event and relays it again. -/

section Cluster
variable {T : Topo}

/-- **net_only_entitled.**  For every topology, originator, object zone and delivery order: whoever processes the
    event (apart from the originator), whoever a message is in flight to, and whoever discarded one, is an endpoint
    of an entitled zone. -/
theorem net_only_entitled (wf : NetWF T) (orig : Ep) (oz : Zone) (sched : List Nat) :
    (∀ e ∈ (run T oz (start T orig oz) sched).processed, e = orig ∨ NetEntitled T (T.zoneOf orig) oz (T.zoneOf e)) ∧
    (∀ msg ∈ (run T oz (start T orig oz) sched).inflight, NetEntitled T (T.zoneOf orig) oz (T.zoneOf msg.to)) ∧
    (∀ msg ∈ (run T oz (start T orig oz) sched).discarded, NetEntitled T (T.zoneOf orig) oz (T.zoneOf msg.to)) := by
  have := run_induction (EntInv T orig oz) (fun n i h => entInv_step wf orig oz n i h) sched _ (entInv_start wf orig oz)
  exact ⟨this.processed, this.inflight, this.discarded⟩

/-- **second_hop_no_echo.**  The node that receives a relayed message never hands it back to the sender, and never
    into the zone it came from - the sender's zone when that is a foreign zone, the zone named by the `originZone`
    field the sender copied from its own origin when sender and recipient are zone peers. -/
theorem second_hop_no_echo (hz : ∀ s z e, e ∈ T.eps s z → T.zoneOf e = z) {s : Ep} {o : Origin} {oz : Zone} {msg : Msg}
    (hm : msg ∈ emit T s o oz) {fuel : Nat} {log : Bool} {e' : Ep}
    (he' : e' ∈ (relayFuel fuel T msg.to (originOf T msg) (some oz) log).sent) :
    e' ≠ s ∧ (T.zoneOf s ≠ T.zoneOf msg.to → T.zoneOf e' ≠ T.zoneOf s) ∧
      (T.zoneOf s = T.zoneOf msg.to → o.fromZone ≠ some (T.zoneOf e')) := by
  obtain ⟨_, hfrm, hoz⟩ := mem_emit.mp hm
  obtain ⟨h1, h2⟩ := no_echo (hz msg.to) he'
  unfold originOf at h1 h2
  simp only [hfrm, hoz] at h1 h2
  refine ⟨fun h => h1 (by rw [h]), ?_, ?_⟩
  · intro hne heq
    have : (T.zoneOf s != T.zoneOf msg.to) = true := by simpa using hne
    simp only [this, if_true] at h2
    exact h2 (by rw [heq])
  · intro heq
    have : (T.zoneOf s != T.zoneOf msg.to) = false := by simpa using heq
    simpa [this] using h2

/-- **net_no_discard.**  When the originator's zone is itself entitled (the object's zone or an ancestor; any zone
    for an object of a global zone), no message is ever sent to somebody who has to discard it: every recipient
    accepts (`Zone::CanAccessObject` on the origin it computes), for every topology and delivery order. -/
theorem net_no_discard (wf : NetWF T) (orig : Ep) (oz : Zone)
    (horig : T.isGlobal oz = true ∨ isChildOf T oz (T.zoneOf orig) = true) (sched : List Nat) :
    (run T oz (start T orig oz) sched).discarded = [] := by
  by_cases hg : T.isGlobal oz = true
  · -- a global object is accessible to every zone
    apply run_induction (fun n => n.discarded = [])
    · intro n i h
      rcases deliver_cases T oz n i with heq | ⟨msg, _, ⟨_, _, _, hd, _⟩ | ⟨hacc, _, _, _, _⟩⟩
      · rw [heq]; exact h
      · rw [hd]; exact h
      · exfalso
        unfold accept canAccess at hacc
        cases hfz : (originOf T msg).fromZone <;> simp [hfz, hg] at hacc
    · rfl
  · have hg' : T.isGlobal oz = false := by simpa using hg
    have horig' : isChildOf T oz (T.zoneOf orig) = true := by
      rcases horig with h | h
      · exact absurd h hg
      · exact h
    have := run_induction (T := T) (oz := oz) (AccInv T oz) (fun n i h => by
      rcases deliver_cases T oz n i with heq | ⟨msg, hmem, ⟨_, hi, _, hd, _⟩ | ⟨hacc, _, _, _, _⟩⟩
      · rw [heq]; exact h
      · obtain ⟨hto, hrest⟩ := h.inflight msg hmem
        obtain ⟨_, hfz⟩ := accept_of_accInv hrest
        refine ⟨?_, by rw [hd]; exact h.discarded⟩
        intro m' hm'
        rw [hi] at hm'
        rcases List.mem_append.mp hm' with hm' | hm'
        · exact h.inflight m' (List.mem_of_mem_eraseIdx hm')
        · exact emit_accInv wf hg' hto hfz m' hm'
      · exfalso
        obtain ⟨_, hrest⟩ := h.inflight msg hmem
        rw [(accept_of_accInv hrest).1] at hacc
        cases hacc) sched (start T orig oz)
      ⟨emit_accInv wf hg' horig' (by intro z hz; cases hz), rfl⟩
    exact this.discarded

end Cluster

/-- `net_only_entitled` / `net_no_discard` are not vacuous: the example cluster meets `NetWF`, and a run processes
    the event on all six endpoints -/
theorem exT_netwf : NetWF exT :=
  { exT_detached with zone_of_mem := fun s => (exT_wf s).zone_of_mem }
example : (run exT 2 (start exT 4 2) [0, 0, 0, 0, 0]).processed = [4, 5, 2, 3, 0, 1] ∧
    (run exT 2 (start exT 4 2) [0, 0, 0, 0, 0]).inflight = [] := by decide
example : exT.isGlobal 2 = true ∨ isChildOf exT 2 (exT.zoneOf 4) = true := by decide
/-- the cluster-wide specification rejects a history with a duplicate, with an unentitled recipient, with a discard -/
example : specNet exT [0, 1, 2, 3, 4, 5] 4 2 ⟨[], [4, 5, 2, 5], [], [], []⟩ = some .processed_twice := by decide
example : specNet exT [0, 1, 2, 3, 4, 5] 2 1 ⟨[], [2, 3, 4], [], [], []⟩ = some .processed_not_entitled := by decide
example : specNet exT [0, 1, 2, 3, 4, 5] 2 1 ⟨[], [2, 3], [], [], [⟨0, 2, none⟩]⟩ = some .discarded_message := by decide
/-- an originator whose zone is NOT entitled (endpoint 4 of the lowest zone, object of the middle zone): the message
    goes up to an entitled zone and is discarded there (C13's rule) - why `net_no_discard` has its hypothesis -/
example : (run exT 1 (start exT 4 1) [0]).discarded.length = 1 ∧ (run exT 1 (start exT 4 1) [0]).processed = [4] := by decide

/-! ### The general no-duplicate / finiteness theorems (every forest, every delivery order)

    Proved with the history invariant of `IcingaProofs/C11/Compass.lean` (`KInv`): all recipients of messages ever sent
    are pairwise different and differ from the originator; every hop across a zone border leads away from the
    originating zone; a zone is entered at most once. -/

section General
variable {T : Topo}

/-- **no_duplicate** (GENERAL).  For every zone forest with detached global zones, at most two endpoints per zone and
    symmetric static connectivity (`Cluster`), every originating endpoint, every object zone (ordinary or global,
    entitled originator or not), every iteration order of the endpoint sets on every node and every delivery order:
    no endpoint processes the event twice. -/
theorem no_duplicate (cl : Cluster T) {orig : Ep} (hM : Member T orig) (oz : Zone) (sched : List Nat) :
    (run T oz (start T orig oz) sched).processed.Nodup := by
  obtain ⟨hn, ho, hp, _⟩ := history_distinct cl hM oz sched
  rw [hp, List.nodup_cons]
  rw [List.map_append, List.map_append, List.append_assoc] at hn ho
  exact ⟨fun h => ho (List.mem_append_left _ h), (List.nodup_append.mp hn).1⟩

/-- **finite** (GENERAL).  Under the same hypotheses, in every reachable state the messages ever put on the wire
    (processed, discarded, still in flight) together with the originator number at most the endpoints: every
    execution consumes at most `allEps.length - 1` messages, however it is scheduled - the event cannot circulate. -/
theorem finite (cl : Cluster T) {orig : Ep} (hM : Member T orig) (allEps : List Ep)
    (hall : ∀ s z e, e ∈ T.eps s z → e ∈ allEps) (oz : Zone) (sched : List Nat) :
    (run T oz (start T orig oz) sched).processed.length + (run T oz (start T orig oz) sched).discarded.length +
      (run T oz (start T orig oz) sched).inflight.length ≤ allEps.length := by
  obtain ⟨hn, ho, hp, hm⟩ := history_distinct cl hM oz sched
  generalize run T oz (start T orig oz) sched = n at hn ho hp hm ⊢
  have hL : (orig :: (n.accepted ++ n.discarded ++ n.inflight).map (·.to)).Nodup := List.nodup_cons.mpr ⟨ho, hn⟩
  have := length_le_of_nodup_subset _ allEps hL (by
    intro x hx
    rcases List.mem_cons.mp hx with rfl | hx
    · exact hall x _ x (hM x)
    · obtain ⟨m, hmm, rfl⟩ := List.mem_map.mp hx
      exact hall m.to _ m.to (hm m hmm m.to))
  rw [hp]
  simp only [List.length_cons, List.length_map, List.length_append] at this ⊢
  omega

/-- **finite_and_no_duplicate** (GENERAL, supersedes `finite_and_no_duplicate_partial`).  The cluster-wide executable
    specification holds in every reachable state: nobody processes the event twice, apart from the originator only
    endpoints of entitled zones process it, nothing is discarded when the originator's zone is entitled, and the
    messages ever sent number less than the endpoints.  `hdepth` (the zone walk of `Zone::IsChildOf` reaches every
    ancestor: guaranteed for configurations that loaded, which have at most 32 levels) is only used to express
    "below the originating zone" for objects of a global zone with the fuelled executable predicate. -/
theorem finite_and_no_duplicate (cl : Cluster T) {orig : Ep} (hM : Member T orig) (allEps : List Ep)
    (hall : ∀ s z e, e ∈ T.eps s z → e ∈ allEps) (hdepth : ∀ a b, Anc T a b → isChildOf T a b = true)
    (oz : Zone) (sched : List Nat) :
    specNet T allEps orig oz (run T oz (start T orig oz) sched) = none := by
  have h1 := no_duplicate cl hM oz sched
  have h2 := finite cl hM allEps hall oz sched
  have h3 := (net_only_entitled cl.toNetWF orig oz sched).1
  obtain ⟨_, ho, hp, _⟩ := history_distinct cl hM oz sched
  have h4 : netEntitledB T (T.zoneOf orig) oz (T.zoneOf orig) = true →
      (run T oz (start T orig oz) sched).discarded = [] := by
    intro h
    apply net_no_discard cl.toNetWF orig oz _ sched
    unfold netEntitledB at h
    by_cases hg : T.isGlobal oz = true
    · exact Or.inl hg
    · simp only [hg, Bool.false_eq_true, if_false] at h
      exact Or.inr h
  generalize run T oz (start T orig oz) sched = n at h1 h2 h3 h4 ho hp ⊢
  have c1 : nodupB n.processed = true := (nodupB_iff _).mpr h1
  have c2 : (n.processed.drop 1).all (fun e => netEntitledB T (T.zoneOf orig) oz (T.zoneOf e)) = true := by
    rw [List.all_eq_true]
    intro e he
    have he' : e ∈ n.processed := List.mem_of_mem_drop he
    rw [hp] at he
    simp only [List.drop_succ_cons, List.drop_zero] at he
    have hne : e ≠ orig := by
      intro h; apply ho; rw [← h, List.map_append, List.map_append, List.append_assoc]
      exact List.mem_append_left _ he
    rcases h3 e he' with h | h
    · exact absurd h hne
    · unfold NetEntitled at h
      unfold netEntitledB
      by_cases hg : T.isGlobal oz = true
      · simp only [hg, if_true] at h ⊢
        exact hdepth _ _ h
      · simp only [hg, Bool.false_eq_true, if_false] at h ⊢
        exact h
  have c3 : (netEntitledB T (T.zoneOf orig) oz (T.zoneOf orig) && !n.discarded.isEmpty) = false := by
    by_cases h : netEntitledB T (T.zoneOf orig) oz (T.zoneOf orig) = true
    · simp [h4 h]
    · simp [h]
  have c4 : ¬ (n.processed.length + n.discarded.length + n.inflight.length > allEps.length) := by omega
  unfold specNet
  simp only [c1, c2, c3, c4, Bool.not_true, Bool.false_eq_true, if_false]

end General

/-- a bounded rank gives the `hdepth` hypothesis of `finite_and_no_duplicate` (configurations that loaded have at
    most 32 levels, zone.cpp:39-45) -/
theorem hdepth_of_rank {T : Topo} {rank : Zone → Nat} (hr : ∀ z p, T.parent z = some p → rank p < rank z)
    (hb : ∀ z, rank z ≤ maxDepth) : ∀ a b, Anc T a b → isChildOf T a b = true := by
  have key : ∀ a b, Anc T a b → ∀ n, rank a ≤ n → b ∈ a :: allParents T n a := by
    intro a b h
    induction h with
    | refl => intro n _; exact List.mem_cons_self
    | @step a p b hp _ ih =>
      intro n hn
      have hlt := hr _ _ hp
      cases n with
      | zero => omega
      | succ k =>
        apply List.mem_cons_of_mem
        unfold allParents
        rw [hp]
        exact ih k (by omega)
  intro a b h
  unfold isChildOf
  exact (isChildOfFuel_iff T _ _ _).mpr (key a b h maxDepth (hb a))

/-- the hypotheses are satisfiable: the example cluster is a `Cluster`, its endpoints are members, its depth is bounded;
    a run on it serves all six endpoints (see the example after `net_no_discard`) -/
theorem exT_cluster : Cluster exT :=
  { exT_netwf with
    mem_indep := fun _ _ _ _ h => h
    eps_nodup := fun s z => (exT_wf s).eps_nodup z
    two := by intro s z; simp only [exT]; split <;> simp
    zones_nodup := by decide
    conn_symm := by
      intro a b
      show (a != b) = (b != a)
      by_cases h : a = b
      · subst h; rfl
      · have h' : ¬ b = a := fun e => h e.symm
        rw [bne_iff_ne.mpr h, bne_iff_ne.mpr h']
    acyclic := (exT_wf 0).acyclic }
example : ∀ e, e < 6 → Member exT e := by
  intro e he x
  show e ∈ (if e / 2 < 3 then [2 * (e / 2), 2 * (e / 2) + 1] else [])
  have h3 : e / 2 < 3 := by eomega
  simp only [h3, if_true, List.mem_cons, List.not_mem_nil, or_false]
  eomega
example : ∀ a b, Anc exT a b → isChildOf exT a b = true :=
  hdepth_of_rank (rank := fun z => if z = 1 then 1 else if z = 2 then 2 else 0)
    (by intro z p h
        simp only [exT] at h
        split at h
        · cases h; subst_vars; simp
        · split at h
          · cases h; subst_vars; simp
          · cases h)
    (by
      intro z
      simp only [maxDepth]
      split
      · omega
      · split <;> omega)

/-! ### The general completeness theorem -/

/-- **complete_when_connected** (GENERAL, supersedes `complete_when_connected_partial`).  For every zone forest with
    detached global zones, at most two endpoints per zone and symmetric static connectivity (`Cluster`) in which the
    zone masters are connected to their zone peers and to one endpoint of each directly related zone
    (`MastersConnected`) and every entitled zone has at least one endpoint (`hne`; the property speaks of one or two
    endpoints per zone), every originating endpoint of an entitled zone (`horig`), every object zone (ordinary or
    global), every iteration order on every node and every delivery order that leaves nothing in flight: every endpoint
    of every entitled zone has processed the event - and, by `no_duplicate`, exactly once.
    `hdepth`: the zone walk of `Zone::IsChildOf` reaches every ancestor (configurations that loaded have at most 32
    levels; `hdepth_of_rank`).  `hreg`: a zone that has a parent is a registered Zone object (the relay step looks
    for the children of the local zone in the registry). -/
theorem complete_when_connected {T : Topo} (cl : Cluster T) (mc : MastersConnected T) {orig : Ep} (hM : Member T orig)
    (hdepth : ∀ a b, Anc T a b → isChildOf T a b = true) (hreg : ∀ z p, T.parent z = some p → z ∈ T.zones)
    (oz : Zone) (horig : T.isGlobal oz = true ∨ isChildOf T oz (T.zoneOf orig) = true)
    (hne : ∀ Z, NetEntitled T (T.zoneOf orig) oz Z → ∃ x, Member T x ∧ T.zoneOf x = Z)
    (sched : List Nat) (hq : (run T oz (start T orig oz) sched).inflight = []) :
    (∀ e, Member T e → NetEntitled T (T.zoneOf orig) oz (T.zoneOf e) →
      e ∈ (run T oz (start T orig oz) sched).processed) ∧
    (run T oz (start T orig oz) sched).processed.Nodup :=
  ⟨complete_core cl mc hM hdepth hreg oz horig hne sched hq, no_duplicate cl hM oz sched⟩

/-- the hypotheses of `complete_when_connected` are satisfiable: the example cluster (everybody connected) meets all of
    them for originator 4 and an object of the lowest zone, and the theorem then yields what the evaluated run shows -/
theorem exT_masters_connected : MastersConnected exT := by
  obtain ⟨rank, hr⟩ := (exT_wf 0).acyclic
  constructor
  · intro a b _ _ _ hne
    show (a != b) = true
    exact bne_iff_ne.mpr hne
  · intro m Z' _ _ hadj ⟨x, hMx, hzx⟩
    refine ⟨x, hMx, hzx, ?_⟩
    show (m != x) = true
    apply bne_iff_ne.mpr
    intro e
    subst e
    rw [hzx] at hadj
    rcases hadj with h | h <;> exact Nat.lt_irrefl _ (hr _ _ h)

example : ∀ e, e < 6 → e ∈ (run exT 2 (start exT 4 2) [0, 0, 0, 0, 0]).processed := by
  have hmem : ∀ e, e < 6 → Member exT e := by
    intro e he x
    show e ∈ (if e / 2 < 3 then [2 * (e / 2), 2 * (e / 2) + 1] else [])
    have h3 : e / 2 < 3 := by eomega
    simp only [h3, if_true, List.mem_cons, List.not_mem_nil, or_false]
    eomega
  have hrank : ∀ z p, exT.parent z = some p → (fun z => if z = 1 then 1 else if z = 2 then 2 else 0) p <
      (fun z => if z = 1 then 1 else if z = 2 then 2 else 0) z := by
    intro z p h
    simp only [exT] at h
    split at h
    · cases h; subst_vars; simp
    · split at h
      · cases h; subst_vars; simp
      · cases h
  have hdepth := hdepth_of_rank hrank (by
    intro z
    simp only [maxDepth]
    split
    · omega
    · split <;> omega)
  have hreg : ∀ z p, exT.parent z = some p → z ∈ exT.zones := by
    intro z p h
    simp only [exT] at h ⊢
    split at h
    · subst_vars; simp
    · split at h
      · subst_vars; simp
      · cases h
  have hzone : ∀ Z, isChildOf exT 2 Z = true → Z < 3 := by
    intro Z h
    have h1 := anc_of_isChildOf h
    cases h1 with
    | refl => eomega
    | step hp h2 =>
      have : exT.parent 2 = some 1 := rfl
      rw [this] at hp; cases hp
      cases h2 with
      | refl => eomega
      | step hp h3 =>
        have : exT.parent 1 = some 0 := rfl
        rw [this] at hp; cases hp
        cases h3 with
        | refl => eomega
        | step hp _ =>
          have : exT.parent 0 = none := rfl
          rw [this] at hp; cases hp
  have hne : ∀ Z, NetEntitled exT (exT.zoneOf 4) 2 Z → ∃ x, Member exT x ∧ exT.zoneOf x = Z := by
    intro Z h
    have hZ : Z < 3 := hzone Z (by unfold NetEntitled at h; simpa [exT] using h)
    refine ⟨2 * Z, hmem _ (by eomega), ?_⟩
    show 2 * Z / 2 = Z
    eomega
  intro e he
  apply (complete_when_connected exT_cluster exT_masters_connected (hmem 4 (by decide)) hdepth hreg 2
    (Or.inr (by decide)) hne [0, 0, 0, 0, 0] (by decide)).1 e (hmem e he)
  unfold NetEntitled
  have : exT.isGlobal 2 = false := rfl
  simp only [this, Bool.false_eq_true, if_false]
  have h3 : e / 2 < 3 := by eomega
  have : exT.zoneOf e = e / 2 := rfl
  rw [this]
  have h012 : e / 2 = 0 ∨ e / 2 = 1 ∨ e / 2 = 2 := by eomega
  rcases h012 with h | h | h <;> rw [h] <;> decide

/-!
  ### The enumerated family (kept as an independent cross-check)

  `finite_and_no_duplicate` and `complete_when_connected` are PROVED IN GENERAL above.  The two `…_partial` theorems
  below predate the general proofs and are kept, clearly labelled, as an independent cross-check of the same
  statements in their EXECUTABLE form (`specNet`, `mastersConnectedB` / `specComplete` - the predicates the check's
  simulation evaluates) on an explicitly listed FINITE family (`family`, IcingaProofs/C11/Family.lean: the depth-3
  chain with two endpoints per zone and a global zone; all links up and each single directly-related link cut; three
  iteration orders), for every originator, object zone and delivery order, by exhaustive kernel evaluation
  (`exploreAll_sound`).  An enumeration of a finite family is not a proof of an unbounded claim; the general theorems
  are.  `no_duplicate_three_endpoints_counterexample`: the restriction to at most two endpoints per zone is necessary.
-/

/-- **finite_and_no_duplicate_partial** (FINITE FAMILY, exhaustive kernel evaluation - see the comment above).
    For every configuration of `family`, every originator, every object zone (the global one included) and every
    delivery order: no endpoint processes the event twice, only entitled endpoints process it, nothing is discarded
    when the originator is entitled, and the messages ever put on the wire number at most the endpoints. -/
theorem finite_and_no_duplicate_partial {c : Nat × Nat} (hc : c ∈ family) {orig : Ep} (ho : orig ∈ chainEps)
    {oz : Zone} (hz : oz ∈ chainZones) (sched : List Nat) :
    specNet (chainTopo c.1 c.2) chainEps orig oz (run (chainTopo c.1 c.2) oz (start (chainTopo c.1 c.2) orig oz) sched) = none := by
  have := family_run hc ho hz sched
  unfold netOk at this
  simp only [Bool.and_eq_true, Option.isNone_iff_eq_none] at this
  exact this.1

/-- **complete_when_connected_partial** (FINITE FAMILY, exhaustive kernel evaluation).  For every configuration of
    `family` in which the zone masters reach their peers and one endpoint of each directly related zone, every
    originator of an entitled zone, every object zone and every delivery order that leaves nothing in flight: every
    endpoint of every entitled zone has processed the event (exactly once, by the theorem above). -/
theorem complete_when_connected_partial {c : Nat × Nat} (hc : c ∈ family) {orig : Ep} (ho : orig ∈ chainEps)
    {oz : Zone} (hz : oz ∈ chainZones) (sched : List Nat)
    (hconn : mastersConnectedB (chainTopo c.1 c.2) chainEps chainZones = true)
    (hent : netEntitledB (chainTopo c.1 c.2) ((chainTopo c.1 c.2).zoneOf orig) oz ((chainTopo c.1 c.2).zoneOf orig) = true)
    (hq : (run (chainTopo c.1 c.2) oz (start (chainTopo c.1 c.2) orig oz) sched).inflight = []) :
    completeB (chainTopo c.1 c.2) chainEps orig oz (run (chainTopo c.1 c.2) oz (start (chainTopo c.1 c.2) orig oz) sched) = true := by
  have := family_run hc ho hz sched
  unfold netOk specComplete at this
  simp only [Bool.and_eq_true, Bool.or_eq_true, Bool.not_eq_true', Bool.and_eq_false_imp] at this
  rcases this.2 with h | h
  · have := h ⟨by simp [hq], hconn⟩
    rw [hent] at this
    cases this
  · exact h

/-- the hypotheses of `complete_when_connected_partial` are satisfiable: 9 of the 12 connectivity patterns meet the
    connectivity hypothesis, and the run below is quiescent with everybody served although the link 0-2 is cut -/
example : (cutMasks.filter (fun m => mastersConnectedB (chainTopo m 0) chainEps chainZones)).length = 9 := by decide
example : ((2039, 0) : Nat × Nat) ∈ family ∧ mastersConnectedB (chainTopo 2039 0) chainEps chainZones = true ∧
    (run (chainTopo 2039 0) 2 (start (chainTopo 2039 0) 4 2) [0, 0, 0, 0, 0]).inflight = [] ∧
    (run (chainTopo 2039 0) 2 (start (chainTopo 2039 0) 4 2) [0, 0, 0, 0, 0]).processed = [4, 5, 2, 3, 1, 0] := by decide

/-- **no_duplicate_three_endpoints_counterexample.**  With three endpoints in a zone (outside the property's
    quantifier; the code warns about it, zone.cpp:147-152) two members that do not see each other both act as zone
    master and endpoint 3 of the child zone processes the same event twice - so "at most two endpoints per zone" is a
    necessary hypothesis of `finite_and_no_duplicate`. -/
theorem no_duplicate_three_endpoints_counterexample :
    (run threeTopo 1 (start threeTopo 1 1) [0, 0, 0, 0]).processed = [1, 3, 2, 0, 3] ∧
    specNet threeTopo [0, 1, 2, 3] 1 1 (run threeTopo 1 (start threeTopo 1 1) [0, 0, 0, 0]) = some .processed_twice := by
  decide

/-! ## Part 3 — the real cluster event handlers and the replay path

    `handlers` lists the events of lib/icinga/clusterevents.cpp that a node re-relays after processing them;
    `reRelay` is the relay step such a handler triggers; `replaySends` transcribes the visibility test of
    `ApiListener::ReplayLog`. -/

section Handlers
variable {T : Topo}

/-- **handlers_pass_origin.**  Every re-relaying handler hands the origin it received on to `RelayMessage` (the table
    is compared on every run with what a translator extracts from clusterevents.cpp, and every row is driven through
    the real handler by the E lines of the correspondence). -/
theorem handlers_pass_origin : ∀ h ∈ handlers, h.passesOrigin = true := by decide

/-- **handled_no_echo.**  A node that processes an event received from endpoint `msg.frm` through any of the real
    handlers never hands it back to that endpoint, never into the sender's zone when that is a foreign zone, and never
    into the zone the `originZone` field names when the sender is a zone peer - for every topology, connectivity, object
    zone and iteration order. -/
theorem handled_no_echo (h : Handler) (hh : h ∈ handlers) (msg : Msg) (objZone : Option Zone)
    (hz : ∀ z e, e ∈ T.eps msg.to z → T.zoneOf e = z) {e : Ep} (he : e ∈ (reRelay T h msg objZone).sent) :
    e ≠ msg.frm ∧ (T.zoneOf msg.frm ≠ T.zoneOf msg.to → T.zoneOf e ≠ T.zoneOf msg.frm) ∧
      (T.zoneOf msg.frm = T.zoneOf msg.to → msg.originZone ≠ some (T.zoneOf e)) := by
  have hp := handlers_pass_origin h hh
  unfold reRelay Handler.origin relay at he
  by_cases hr : h.relays = true
  case neg => simp [hr] at he
  simp only [hp, hr, ↓reduceIte] at he
  obtain ⟨h1, h2⟩ := no_echo hz he
  unfold originOf at h1 h2
  refine ⟨fun heq => h1 (by rw [heq]), ?_, ?_⟩
  · intro hne heq
    have : (T.zoneOf msg.frm != T.zoneOf msg.to) = true := by simpa using hne
    simp only [this, if_true] at h2
    exact h2 (by rw [heq])
  · intro heq
    have : (T.zoneOf msg.frm != T.zoneOf msg.to) = false := by simpa using heq
    simpa [this] using h2

/-- **handled_meets_spec_partial.**  FULL STATEMENT: the conclusion for every `h ∈ handlers`.  One row of the real code
    violates it (`event::SetNextNotification` is processed and never passed on - counterexample below, F-C11c), so:
    whole-step theorem for the real handlers that reach their relaying signal handler: for every well-formed configuration, every
    message on the wire (sender, `originZone` field), every such handler of the table and every object zone, what the node
    queues when it re-relays the processed event satisfies the executable specification evaluated with the origin
    the wire message defines (`originOf`: the sender's endpoint, the sender's zone if foreign, else the `originZone` field) -
    the same predicate the check evaluates on what the real handler queued. -/
theorem handled_meets_spec_partial (h : Handler) (hh : h ∈ handlers) (hr : h.relays = true) (msg : Msg) (objZone : Option Zone)
    (wf : WF T msg.to) :
    specCase maxDepth T ⟨msg.to, originOf T msg, h.objZone objZone, true⟩ ((reRelay T h msg objZone).obs T msg.to) = none := by
  have hp := handlers_pass_origin h hh
  unfold reRelay Handler.origin relay
  simp only [hp, hr, ↓reduceIte]
  exact relay_meets_spec ⟨msg.to, originOf T msg, h.objZone objZone, true⟩ wf

/-- the hypothesis `relays` of `handled_meets_spec_partial` excludes exactly one row -/
theorem handlers_relay_except_next_notification : ∀ h ∈ handlers, h.relays = true ∨ h.method = "SetNextNotification" := by decide

/-- **handled_next_notification_counterexample** (F-C11c).  `event::SetNextNotification` is applied and not passed on:
    endpoint 2 (master of zone 1) gets it from endpoint 4 (child zone 2) about an object of zone 2 and neither its peer
    nor the parent zone ever hears of it, although both are reachable - the completeness sentence fails. -/
theorem handled_next_notification_counterexample :
    findHandler "SetNextNotification" = some ⟨"SetNextNotification", true, .object, false⟩ ∧
    specCase maxDepth exT ⟨2, originOf exT ⟨2, 4, none⟩, some 2, true⟩
      ((reRelay exT ⟨"SetNextNotification", true, .object, false⟩ ⟨2, 4, none⟩ (some 2)).obs exT 2) = some .forwarded_when_reachable := by
  decide

/-- **handler_dropping_origin_counterexample.**  The column `passesOrigin` matters: a handler that re-relays without the
    received origin (as if the event were local) sends the event straight back to the sender, and the specification
    rejects that as `no_echo` - endpoint 2 (zone 1) got the event from endpoint 0 (parent zone 0). -/
theorem handler_dropping_origin_counterexample :
    (0 : Ep) ∈ (reRelay exT ⟨"SetRemovalInfo", false, .object, true⟩ ⟨2, 0, none⟩ (some 2)).sent ∧
    specCase maxDepth exT ⟨2, originOf exT ⟨2, 0, none⟩, some 2, true⟩
      ((reRelay exT ⟨"SetRemovalInfo", false, .object, true⟩ ⟨2, 0, none⟩ (some 2)).obs exT 2) = some .no_echo := by decide

/-- the theorems' hypotheses are met and their conclusions say something: endpoint 2 gets `event::SetNextCheck` about an
    object of zone 2 from endpoint 0 and passes it to its peer and down, not back up -/
example : findHandler "SetNextCheck" = some ⟨"SetNextCheck", true, .object, true⟩ ∧
    (reRelay exT ⟨"SetNextCheck", true, .object, true⟩ ⟨2, 0, none⟩ (some 2)).sent = [4, 3] ∧
    (reRelay exT ⟨"SetNextCheck", true, .object, true⟩ ⟨2, 0, none⟩ (some 2)).originZone = some 0 := by decide
/-- an event relayed without security object stays in the node's zone (and would go up, where it came from) -/
example : (reRelay exT ⟨"SendNotifications", true, .none, true⟩ ⟨2, 3, none⟩ (some 2)).sent = [0] ∧
    (reRelay exT ⟨"SendNotifications", true, .none, true⟩ ⟨3, 2, none⟩ (some 2)).sent = [] := by decide

end Handlers

section Replay
variable {T : Topo} {self target : Ep}

/-- **replay_only_entitled_partial.**  FULL STATEMENT (what the property demands of the replay path): for every record,
    `replaySends T self ro target = true → Entitled T self (zone the object had) (T.zoneOf target)`.  The code violates it
    for objects of global zones and for records without security object (counterexamples below; F-C11a, F-C11b), so it is
    proved with the hypothesis that the record names an object of an ordinary zone (or without zone attribute): such an
    event is replayed to the connecting endpoint only if that endpoint's zone is the object's zone or one of its
    ancestors - whatever zone forest, and whether or not the node is directly related to it. -/
theorem replay_only_entitled_partial {oz : Option Zone} (hg : T.isGlobal (targetZone T self oz) = false)
    (h : replaySends T self (.present oz) target = true) : Entitled T self oz (T.zoneOf target) := by
  unfold replaySends canAccess at h
  simp only [hg, Bool.false_or] at h
  unfold Entitled
  simp only [hg, Bool.false_eq_true, if_false]
  exact mem_chain_anc T maxDepth _ _ ((isChildOfFuel_iff T maxDepth _ _).mp h)

/-- **replay_deleted_not_sent.**  An event whose object has been deleted meanwhile is replayed to nobody (so, in
    particular, to no endpoint that is not entitled). -/
theorem replay_deleted_not_sent : replaySends T self .deleted target = false := rfl

/-- **replay_meets_spec_partial.**  The executable specification of the replay path holds on the model for every
    topology, node, connecting endpoint and record that names an object (present or deleted) of an ordinary zone. -/
theorem replay_meets_spec_partial {oz : Option Zone} (hg : T.isGlobal (targetZone T self oz) = false) (ro : RecObj)
    (hro : ro = .present oz ∨ ro = .deleted) :
    specReplay maxDepth T self true oz target (replaySends T self ro target) = none := by
  rcases hro with rfl | rfl
  · unfold specReplay
    by_cases hs : replaySends T self (.present oz) target = true
    · have : entitledB maxDepth T self oz (T.zoneOf target) = true := by
        unfold replaySends canAccess at hs
        simp only [hg, Bool.false_or] at hs
        unfold entitledB
        simp only [hg, Bool.false_eq_true, if_false]
        exact hs
      simp [this]
    · simp [hs]
  · simp [specReplay, replaySends]

/-- **replay_global_counterexample** (F-C11a).  An event about an object of a GLOBAL zone, which the live relay hands to
    the node's own zone and its direct children only, is replayed to an endpoint of the PARENT zone: endpoint 2 (zone 1)
    replays it to endpoint 0 (zone 0). -/
theorem replay_global_counterexample :
    (0 : Ep) ∉ (relay exT 2 Origin.loc (some 3) true).sent ∧ replaySends exT 2 (.present (some 3)) 0 = true ∧
    specReplay maxDepth exT 2 true (some 3) 0 (replaySends exT 2 (.present (some 3)) 0) = some .replay_global_own_zone_and_children := by
  decide

/-- **replay_no_object_counterexample** (F-C11b).  An event relayed without security object (own zone and the zones
    above) is replayed to an endpoint of a CHILD zone: endpoint 2 (zone 1) replays it to endpoint 4 (zone 2). -/
theorem replay_no_object_counterexample :
    (4 : Ep) ∉ (relay exT 2 Origin.loc none true).sent ∧ replaySends exT 2 .absent 4 = true ∧
    specReplay maxDepth exT 2 false none 4 (replaySends exT 2 .absent 4) = some .replay_no_object_own_zone_and_above := by
  decide

/-- hypotheses satisfiable, conclusion not trivial: the event about an object of zone 2 is replayed upwards and to the
    peer, not to anybody else; the specification rejects a replay to a sibling / child zone -/
example : exT.isGlobal (targetZone exT 2 (some 1)) = false ∧ replaySends exT 2 (.present (some 1)) 0 = true ∧
    replaySends exT 2 (.present (some 1)) 3 = true ∧ replaySends exT 2 (.present (some 1)) 4 = false := by decide
example : specReplay maxDepth exT 2 true (some 1) 4 true = some .replay_only_entitled ∧
    specReplay maxDepth exT 2 true (some 1) 0 true = none := by decide

end Replay

/-! ## Log positions: live routing, then a replay after a reconnect

    `logRun` composes the three pieces of code that decide whether an event is handed to an endpoint a SECOND time (or not at
    all): the relay step (who is sent to, who is skipped and has its log position advanced, is the event logged),
    `SetLogPositionHandler` (positions the endpoint reports, before and after), and the timestamp / visibility tests of
    `ReplayLog`. -/

section LogPositions
variable {T : Topo}

/-- **skipped_or_sent.**  For every topology, origin, object zone and iteration order: a connected endpoint of an entitled,
    directly related zone is either handed the event or has its log position advanced to the event's timestamp - the relay
    step leaves no reachable endpoint it is responsible for in a state from which the event would be replayed to it. -/
theorem skipped_or_sent (hd : Detached T) (c : Case) {fuel : Nat} {target : Ep} (hcon : concernedB fuel T c target = true)
    (hc : T.conn c.self target = true) :
    target ∈ (relayFuel fuel T c.self c.origin c.objZone c.log).sent ∨
    target ∈ (relayFuel fuel T c.self c.origin c.objZone c.log).skipped := by
  unfold concernedB at hcon
  simp only [Bool.and_eq_true, bne_iff_ne, ne_eq, List.contains_iff_mem] at hcon
  obtain ⟨⟨⟨⟨hne, hmem⟩, hcand⟩, hrel⟩, hent⟩ := hcon
  have hv := candidate_relayed c hcand hrel hent
  rcases relayZone_sent_or_skipped T c.self c.origin (getMaster T c.self) (T.zoneOf target) hmem hne hc with h | h
  · exact Or.inl (relayZone_sub_relayFuel hd hv h)
  · exact Or.inr (relayZone_skipped_sub_relayFuel hd hv h)

/-- **served_not_replayed.**  "No endpoint processes the same event twice" across a reconnect, for every topology, origin,
    object zone, iteration order, record and ALL sequences of positions the endpoint reports before and after the event: an
    endpoint that was reachable when the event was routed and was deliberately sent nothing (it is served by the zone master /
    through the endpoint its zone was entered by / it is where the event came from) is never handed the event by a later
    replay. -/
theorem served_not_replayed (hd : Detached T) (c : Case) {target : Ep} (pre post : List Int) (ts : Int) (ro : RecObj)
    (hcon : concernedB maxDepth T c target = true) (hc : T.conn c.self target = true) (hsync : T.syncing c.self target = false)
    (hns : target ∉ queued T c.self (logRun T c.self c.origin c.objZone c.log target pre post ts ro).result) :
    (logRun T c.self c.origin c.objZone c.log target pre post ts ro).copies = 0 := by
  have hsk : target ∈ (relay T c.self c.origin c.objZone c.log).skipped := by
    rcases skipped_or_sent hd c hcon hc with h | h
    · exfalso; apply hns
      unfold queued logRun
      exact List.mem_filter.mpr ⟨h, by simp [hsync]⟩
    · exact h
  have hge : ts ≤ (logRun T c.self c.origin c.objZone c.log target pre post ts ro).lpos := by
    unfold logRun skipPos
    simp only [List.contains_iff_mem.mpr hsk, if_true]
    exact foldl_reportPos_ge post ts
  unfold logRun replayCopies at hge ⊢
  simp only at hge ⊢
  have : decide ((post.foldl reportPos (skipPos (relay T c.self c.origin c.objZone c.log) ts target (pre.foldl reportPos 0))) < ts) = false := by
    simp only [decide_eq_false_iff_not]; omega
  simp [this]

/-- **missed_is_replayed.**  "Records the event in its replay log instead of dropping it", followed through to the delivery: when
    the whole zone of `target` (its zone peer, for the node's own zone) was unreachable while the event was routed and `target`
    has not confirmed a position at or beyond the event, the replay for `target` hands the event over - exactly once. -/
theorem missed_is_replayed (hd : Detached T) (c : Case) {target : Ep} (pre post : List Int) (ts : Int) (ro : RecObj)
    (hts : 0 < ts) (hro : ro = .present c.objZone ∨ ro = .absent)
    (hcon : concernedB maxDepth T c target = true) (hlog : c.log = true)
    (hun : unreachableB T c.self (T.zoneOf target) = true) (hrep : ∀ p ∈ pre ++ post, p < ts) :
    (logRun T c.self c.origin c.objZone c.log target pre post ts ro).copies = 1 := by
  have hcon' := hcon
  unfold concernedB at hcon
  simp only [Bool.and_eq_true, bne_iff_ne, ne_eq, List.contains_iff_mem] at hcon
  obtain ⟨⟨⟨⟨hne, hmem⟩, hcand⟩, hrel⟩, hent⟩ := hcon
  -- the event is logged
  have hp : (relay T c.self c.origin c.objZone c.log).persist = true := by
    unfold relay
    rw [hlog]
    by_cases hg : T.isGlobal (targetZone T c.self c.objZone) = true
    · apply logged_not_dropped_global hd hg _ hun
      have := candidate_relayed c hcand hrel hent
      simpa [hg] using this
    · have hg' : T.isGlobal (targetZone T c.self c.objZone) = false := by simpa using hg
      apply logged_not_dropped hd hg' _ hrel hun
      unfold entitledB at hent
      simp only [hg', Bool.false_eq_true, if_false] at hent
      exact (isChildOfFuel_iff T maxDepth _ _).mp hent
  -- `target` was not connected, so its position was not advanced
  have hnc : T.conn c.self target = false := by
    unfold unreachableB at hun
    simp only [Bool.and_eq_true, List.all_eq_true, Bool.or_eq_true, beq_iff_eq, Bool.not_eq_true'] at hun
    rcases hun.2 target hmem with h | h
    · exact absurd h hne
    · exact h
  have hnsk : (relay T c.self c.origin c.objZone c.log).skipped.contains target = false := by
    cases h : (relay T c.self c.origin c.objZone c.log).skipped.contains target with
    | false => rfl
    | true =>
      have := (skipped_conn (List.contains_iff_mem.mp h)).2
      rw [hnc] at this; cases this
  have hlt : (logRun T c.self c.origin c.objZone c.log target pre post ts ro).lpos < ts := by
    unfold logRun skipPos
    simp only [hnsk, Bool.false_eq_true, if_false]
    apply foldl_reportPos_lt post ts (fun p hp => hrep p (List.mem_append_right _ hp))
    exact foldl_reportPos_lt pre ts (fun p hp => hrep p (List.mem_append_left _ hp)) 0 hts
  -- the connecting endpoint's zone may access the object
  have hvis : replaySends T c.self ro target = true := by
    rcases hro with rfl | rfl
    · unfold replaySends canAccess
      unfold entitledB at hent
      by_cases hg : T.isGlobal (targetZone T c.self c.objZone) = true
      · simp [hg]
      · simp only [hg, Bool.false_eq_true, if_false] at hent
        simp only [Bool.or_eq_true]
        exact Or.inr hent
    · rfl
  unfold logRun replayCopies at hlt ⊢
  simp only at hlt ⊢
  simp [hp, hvis, hlt]

/-- **log_run_meets_spec.**  The whole scenario - positions reported, event relayed, positions reported, reconnect, replay -
    satisfies the executable specification `specLog` (the predicate the check evaluates on the implementation's own
    observations), for every topology with detached global zones, node, origin, object zone, iteration order, target endpoint,
    all reported positions and every record that names the object (or none). -/
theorem log_run_meets_spec (hd : Detached T) (c : Case) (target : Ep) (pre post : List Int) (ts : Int) (ro : RecObj)
    (hts : 0 < ts) (hro : ro = .present c.objZone ∨ ro = .absent) :
    specLog maxDepth T c target (pre ++ post) ts ((logRun T c.self c.origin c.objZone c.log target pre post ts ro).obs T c.self) = none := by
  have h1 : ((logRun T c.self c.origin c.objZone c.log target pre post ts ro).copies > 1) = False := by
    unfold logRun replayCopies
    simp only [gt_iff_lt, eq_iff_iff, iff_false, Nat.not_lt]
    split <;> omega
  unfold specLog LogRun.obs
  simp only [h1, if_false]
  by_cases hcon : concernedB maxDepth T c target = true
  · -- served and not sent: no copy
    have h2 : (concernedB maxDepth T c target && T.conn c.self target && !T.syncing c.self target &&
        !(queued T c.self (logRun T c.self c.origin c.objZone c.log target pre post ts ro).result).contains target &&
        (logRun T c.self c.origin c.objZone c.log target pre post ts ro).copies != 0) = false := by
      by_cases hall : T.conn c.self target = true ∧ T.syncing c.self target = false ∧
          target ∉ queued T c.self (logRun T c.self c.origin c.objZone c.log target pre post ts ro).result
      · have := served_not_replayed hd c pre post ts ro hcon hall.1 hall.2.1 hall.2.2
        simp [this]
      · by_cases hc : T.conn c.self target = true
        · by_cases hs : T.syncing c.self target = false
          · have hq : target ∈ queued T c.self (logRun T c.self c.origin c.objZone c.log target pre post ts ro).result :=
              Classical.byContradiction (fun hn => hall ⟨hc, hs, hn⟩)
            simp [hq]
          · have hs' : T.syncing c.self target = true := by simpa using hs
            simp [hs']
        · have hc' : T.conn c.self target = false := by simpa using hc
          simp [hc']
    have h3 : (concernedB maxDepth T c target && c.log && unreachableB T c.self (T.zoneOf target) && c.origin.client != some target &&
        c.origin.fromZone != some (T.zoneOf target) && (pre ++ post).all (fun p => decide (p < ts)) &&
        (logRun T c.self c.origin c.objZone c.log target pre post ts ro).copies == 0) = false := by
      by_cases hall : c.log = true ∧ unreachableB T c.self (T.zoneOf target) = true ∧ (pre ++ post).all (fun p => decide (p < ts)) = true
      · have hrep : ∀ p ∈ pre ++ post, p < ts := by
          intro p hp
          have := List.all_eq_true.mp hall.2.2 p hp
          simpa using this
        have := missed_is_replayed hd c pre post ts ro hts hro hcon hall.1 hall.2.1 hrep
        simp [this]
      · by_cases hl : c.log = true
        · by_cases hu : unreachableB T c.self (T.zoneOf target) = true
          · have hr : (pre ++ post).all (fun p => decide (p < ts)) = false := by
              cases h : (pre ++ post).all (fun p => decide (p < ts)) with
              | false => rfl
              | true => exact absurd ⟨hl, hu, h⟩ hall
            simp [hr]
          · have hu' : unreachableB T c.self (T.zoneOf target) = false := by simpa using hu
            simp [hu']
        · have hl' : c.log = false := by simpa using hl
          simp [hl']
    rw [h2, h3]; rfl
  · have hcon' : concernedB maxDepth T c target = false := by simpa using hcon
    simp [hcon']

/-- The reference scenario of the seeded change C11-10 on the non-vacuity cluster, with the parent zone's endpoints unreachable
    from endpoint 3: endpoint 3 (zone 1, NOT the master: 2 is) relays an event about an object of zone 2; the child-zone endpoint
    4 is connected and deliberately skipped, the parent zone 0 is unreachable, so the event is logged.  Endpoint 4 then reports an
    old position and reconnects: nothing is replayed to it; endpoint 0, which was unreachable, gets the event. -/
def exTcut : Topo := { exT with conn := fun a b => a != b && !(a == 3 && b < 2) }

example : (logRun exTcut 3 Origin.loc (some 2) true 4 [940] [940] 1000 (.present (some 2))).result.sent = [2] ∧
    (logRun exTcut 3 Origin.loc (some 2) true 4 [940] [940] 1000 (.present (some 2))).result.skipped = [4, 5] ∧
    (logRun exTcut 3 Origin.loc (some 2) true 4 [940] [940] 1000 (.present (some 2))).result.persist = true ∧
    (logRun exTcut 3 Origin.loc (some 2) true 4 [940] [940] 1000 (.present (some 2))).lpos = 1000 ∧
    (logRun exTcut 3 Origin.loc (some 2) true 4 [940] [940] 1000 (.present (some 2))).copies = 0 ∧
    (logRun exTcut 3 Origin.loc (some 2) true 0 [940] [] 1000 (.present (some 2))).copies = 1 := by decide
/-- the hypotheses of the three theorems are satisfiable -/
example : concernedB maxDepth exTcut ⟨3, Origin.loc, some 2, true⟩ 4 = true ∧ exTcut.conn 3 4 = true ∧
    (4 : Ep) ∉ queued exTcut 3 (logRun exTcut 3 Origin.loc (some 2) true 4 [940] [940] 1000 (.present (some 2))).result ∧
    concernedB maxDepth exTcut ⟨3, Origin.loc, some 2, true⟩ 0 = true ∧ unreachableB exTcut 3 0 = true := by decide
/-- the specification accepts the model's run and rejects wrong traces: a copy for the endpoint that was served on another path
    (what the seeded change makes the code do), no copy for the one that was missed, two copies -/
example : specLog maxDepth exTcut ⟨3, Origin.loc, some 2, true⟩ 4 [940, 940] 1000
    ((logRun exTcut 3 Origin.loc (some 2) true 4 [940] [940] 1000 (.present (some 2))).obs exTcut 3) = none :=
  log_run_meets_spec (T := exTcut) ⟨exT_detached.global_no_parent, exT_detached.parent_not_global⟩ ⟨3, Origin.loc, some 2, true⟩ 4 [940] [940] 1000 _ (by decide) (Or.inl rfl)
example : specLog maxDepth exTcut ⟨3, Origin.loc, some 2, true⟩ 4 [940, 940] 1000 { sent := [2], persist := true, copies := 1 } = some .replay_not_to_served ∧
    specLog maxDepth exTcut ⟨3, Origin.loc, some 2, true⟩ 0 [940] 1000 { sent := [2], persist := true, copies := 0 } = some .replay_reaches_missed ∧
    specLog maxDepth exTcut ⟨3, Origin.loc, some 2, true⟩ 0 [940] 1000 { sent := [2], persist := true, copies := 2 } = some .replay_one_copy ∧
    specLog maxDepth exTcut ⟨3, Origin.loc, some 2, true⟩ 0 [1000] 1000 { sent := [2], persist := true, copies := 0 } = none := by decide

/-- **report_without_guard_counterexample.**  The monotonicity test of `SetLogPositionHandler` is necessary: with a handler that
    stores whatever the endpoint reports, the scenario above ends with the event replayed to endpoint 4, which the specification
    rejects. -/
theorem report_without_guard_counterexample :
    let r := relay exTcut 3 Origin.loc (some 2) true
    let lposUnguarded : Int := [940].foldl (fun _ p => p) (skipPos r 1000 4 0)
    replayCopies exTcut 3 r.persist 1000 lposUnguarded (.present (some 2)) 4 = 1 ∧
    specLog maxDepth exTcut ⟨3, Origin.loc, some 2, true⟩ 4 [940] 1000
      { sent := queued exTcut 3 r, persist := r.persist, copies := replayCopies exTcut 3 r.persist 1000 lposUnguarded (.present (some 2)) 4 }
      = some .replay_not_to_served := by decide

/-- **confirmed_not_replayed.**  Whatever else happens: an endpoint that has reported a position at or beyond the event's
    timestamp after the event was routed is not handed the event by the replay. -/
theorem confirmed_not_replayed (self : Ep) (o : Origin) (oz : Option Zone) (log : Bool) (target : Ep) (pre post : List Int) (ts : Int)
    (ro : RecObj) {p : Int} (hp : p ∈ post) (hge : ts ≤ p) :
    (logRun T self o oz log target pre post ts ro).copies = 0 := by
  have h := foldl_reportPos_ge_mem post (skipPos (relay T self o oz log) ts target (pre.foldl reportPos 0)) hp
  unfold logRun replayCopies
  simp only
  have : decide ((post.foldl reportPos (skipPos (relay T self o oz log) ts target (pre.foldl reportPos 0))) < ts) = false := by
    simp only [decide_eq_false_iff_not]; omega
  simp [this]

/-- **pair_connected_no_replay_partial.**  FULL STATEMENT (what the property demands of the two members `a`, `b` of a zone
    together): `specPair maxDepth T a b oz target ((pairRun T a b oz target ts).obs T a b) = none` - an endpoint of an entitled
    parent / child zone is handed the event at most once by the two of them, live or replayed.  The code violates it when
    `target` was NOT reachable from one of the two while the event was routed: that node logs the event although its peer
    serves (or will serve) the zone, and replays it when `target` connects (`pair_double_replay_counterexample`, F-C11d).
    Proved with the hypothesis that `target` was reachable from both: then neither of the two replays anything to it, for every
    topology, iteration order and object zone - what `target` gets is what the live routing handed it. -/
theorem pair_connected_no_replay_partial (hd : Detached T) (a b : Ep) (oz : Zone) (target : Ep) (ts : Int)
    (hca : concernedB maxDepth T ⟨a, Origin.loc, some oz, true⟩ target = true)
    (hcb : concernedB maxDepth T ⟨b, Origin.loc, some oz, true⟩ target = true)
    (ha : T.conn a target = true) (hb : T.conn b target = true)
    (hsa : T.syncing a target = false) (hsb : T.syncing b target = false) :
    (pairRun T a b oz target ts).a.copies = 0 ∧ ∀ l, (pairRun T a b oz target ts).b = some l → l.copies = 0 := by
  have key : ∀ (s : Ep) (o : Origin), concernedB maxDepth T ⟨s, o, some oz, true⟩ target = true → T.conn s target = true →
      T.syncing s target = false →
      (logRun T s o (some oz) true target [] (confirm T s (relay T s o (some oz) true) target ts) ts (.present (some oz))).copies = 0 := by
    intro s o hc hcn hsy
    by_cases hq : target ∈ queued T s (relay T s o (some oz) true)
    · apply confirmed_not_replayed (p := ts) _ _ _ _ _ _ _ _ _ _ (Int.le_refl _)
      unfold confirm; simp [hq]
    · have hconf : confirm T s (relay T s o (some oz) true) target ts = [] := by unfold confirm; simp [hq]
      rw [hconf]
      exact served_not_replayed hd ⟨s, o, some oz, true⟩ [] [] ts _ hc hcn hsy hq
  have hcb' : ∀ o, concernedB maxDepth T ⟨b, o, some oz, true⟩ target = true := fun o => by
    unfold concernedB at hcb ⊢; exact hcb
  constructor
  · unfold pairRun
    simp only
    split <;> exact key a Origin.loc hca ha hsa
  · intro l hl
    unfold pairRun at hl
    simp only at hl
    split at hl
    · cases hl
      exact key b _ (hcb' _) hb hsb
    · cases hl

/-- **pair_double_replay_counterexample** (F-C11d).  The two members 2, 3 of zone 1 see each other; the child-zone endpoint 4 is
    connected to neither while endpoint 2 (the zone master) relays an event about an object of zone 2.  Endpoint 2 logs it (zone 2 is
    unreachable) and hands it to its peer 3, which - although not the zone master - logs it too.  When endpoint 4 connects to both,
    both replay: it is handed the event twice. -/
def exTpair : Topo := { exT with conn := fun a b => a != b && a != 4 && b != 4 && a != 5 && b != 5 }

theorem pair_double_replay_counterexample :
    (pairRun exTpair 2 3 2 4 1000).a.copies = 1 ∧ ((pairRun exTpair 2 3 2 4 1000).b.map (·.copies)) = some 1 ∧
    getMaster exTpair 3 = some 2 ∧
    specPair maxDepth exTpair 2 3 2 4 ((pairRun exTpair 2 3 2 4 1000).obs exTpair 2 3) = some .pair_one_copy := by decide

/-- hypotheses of `pair_connected_no_replay_partial` satisfiable and the conclusion not trivial: with everybody connected endpoint 4
    gets the event live from the master 2 (and confirms it), nothing is replayed, and the specification accepts the run; it rejects
    a run in which both members send -/
example : concernedB maxDepth exT ⟨2, Origin.loc, some 2, true⟩ 4 = true ∧ concernedB maxDepth exT ⟨3, Origin.loc, some 2, true⟩ 4 = true ∧
    exT.conn 2 4 = true ∧ exT.conn 3 4 = true ∧
    ((pairRun exT 2 3 2 4 1000).obs exT 2 3).copies 4 = 1 ∧
    specPair maxDepth exT 2 3 2 4 ((pairRun exT 2 3 2 4 1000).obs exT 2 3) = none ∧
    specPair maxDepth exT 2 3 2 4 { sentA := [4, 3, 0], replayA := 0, sentB := [4], replayB := 0 } = some .pair_one_copy := by decide

/-- **pair_live_one_sender.**  "Only the current zone master forwards across zone borders", for the two members of a zone
    together: two nodes of one zone that have the same view of it (in particular two peers that see each other) never BOTH hand an
    event to an endpoint of a foreign zone - whatever origins, object zones and iteration orders. -/
theorem pair_live_one_sender {a b target : Ep} {oa ob : Origin} {za zb : Option Zone} {la lb : Bool} {fa fb : Nat}
    (hza : ∀ z e, e ∈ T.eps a z → T.zoneOf e = z) (hzb : ∀ z e, e ∈ T.eps b z → T.zoneOf e = z)
    (hab : a ≠ b) (hfa : T.zoneOf target ≠ T.zoneOf a) (hfb : T.zoneOf target ≠ T.zoneOf b)
    (hmem : ∀ x, x ∈ T.eps a (T.zoneOf a) ↔ x ∈ T.eps b (T.zoneOf b))
    (hview : ∀ x ∈ T.eps a (T.zoneOf a), (T.conn a x || x == a) = (T.conn b x || x == b))
    (ha : target ∈ (relayFuel fa T a oa za la).sent) (hb : target ∈ (relayFuel fb T b ob zb lb).sent) : False := by
  have master_of : ∀ {s : Ep} {o : Origin} {z : Option Zone} {l : Bool} {f : Nat}, (∀ z e, e ∈ T.eps s z → T.zoneOf e = z) →
      T.zoneOf target ≠ T.zoneOf s → target ∈ (relayFuel f T s o z l).sent → getMaster T s = some s := by
    intro s o z l f hz hf h
    apply Classical.byContradiction
    intro hn
    have hm := only_master_crosses hn h
    have := hz _ _ (master_in_own_zone hm)
    exact hf this
  have h1 := master_of hza hfa ha
  have h2 := master_of hzb hfb hb
  have := same_master hmem hview
  rw [h1, h2] at this
  exact hab (Option.some.inj this)

/-- hypotheses satisfiable: on the non-vacuity cluster the members 2, 3 of zone 1 see each other; the master 2 hands the event to
    endpoint 4 of the child zone, its peer 3 (which got the event from 2) does not -/
example : (4 : Ep) ∈ (relay exT 2 Origin.loc (some 2) true).sent ∧ (4 : Ep) ∉ (relay exT 3 (originOf exT ⟨3, 2, none⟩) (some 2) true).sent ∧
    (∀ x ∈ exT.eps 2 (exT.zoneOf 2), (exT.conn 2 x || x == 2) = (exT.conn 3 x || x == 3)) := by decide

end LogPositions

/-! ## `SyncSendMessage`: one copy per endpoint, on the newest connection -/

section SyncSend

/-- **sync_send_one_copy.**  For every set of connections of an endpoint that is not `syncing` whose creation timestamps are
    positive and pairwise different (two connections to one endpoint made at the very same instant of `Utility::GetTime()` are
    the only exception, see the counterexample): the message is queued on exactly ONE connection, and that is the newest - the
    clause `one_copy_per_endpoint` of the specification (`extraCopies = 0`). -/
theorem sync_send_one_copy (stamps : List Nat) (hne : stamps ≠ []) (hpos : ∀ x ∈ stamps, 0 < x) (hnd : stamps.Nodup) :
    syncSend false stamps = [maxStamp stamps] ∧ maxStamp stamps ∈ stamps ∧ ∀ x ∈ stamps, x ≤ maxStamp stamps := by
  have hmem : maxStamp stamps ∈ stamps := by
    unfold maxStamp
    rcases foldl_max_mem stamps 0 with h | h
    · exfalso
      cases stamps with
      | nil => exact hne rfl
      | cons x xs =>
        have h1 := foldl_max_ge_mem (x :: xs) 0 x List.mem_cons_self
        have h2 := hpos x List.mem_cons_self
        omega
    · exact h
  refine ⟨?_, hmem, fun x hx => foldl_max_ge_mem stamps 0 x hx⟩
  unfold syncSend
  simp only [Bool.false_eq_true, if_false]
  exact filter_eq_singleton stamps hnd hmem

/-- **sync_send_syncing_nothing.**  Nothing is queued for an endpoint the node is replaying its log to. -/
theorem sync_send_syncing_nothing (stamps : List Nat) : syncSend true stamps = [] := rfl

/-- **sync_send_equal_stamps_counterexample.**  The hypothesis "pairwise different timestamps" is necessary: the test
    `client->GetTimestamp() != maxTs` lets the message through on every connection that ties for the maximum. -/
theorem sync_send_equal_stamps_counterexample : (syncSend false [7, 7]).length = 2 := by decide

/-- an older and a newer connection, in either order of `GetClients()`: the newer one only -/
example : syncSend false [5, 9] = [9] ∧ syncSend false [9, 5] = [9] ∧ syncSend false [9, 5, 7] = [9] ∧ syncSend true [5, 9] = [] := by decide
example : syncSend false [5, 9] = [maxStamp [5, 9]] := (sync_send_one_copy [5, 9] (by decide) (by decide) (by decide)).1

end SyncSend

end Icinga.C11

/-
  C15 — property theorems.  Generic in the number type (`[Num N]`): no theorem depends on a floating-point fact.
  Kernel-checked examples instantiate `N := Int`.
-/
import IcingaModel.C15.Model
import IcingaModel.C15.Spec
import IcingaProofs.Gen.Precedence

namespace Icinga.C15.Proofs

open Icinga.C15 Icinga.Gen.Precedence

/-! ## 1. Precedence: the grammar of this run = the reference table (doc/17-language-reference.md, "Operators") -/

inductive OpKind | binary | prefix | postfix
  deriving DecidableEq, Repr

abbrev Op := OpKind × String

/-- Operator of a grammar token, or `none` when the token is not an operator of levels 1–13:
    binary tokens through the lexer table (only if the grammar has a binary rule for them), prefix rules through their
    `%prec` token, the three postfix forms by themselves. -/
def opOfToken (t : String) : Option Op :=
  if (binaryRules.map (·.1)).contains t then (lexemes.find? (·.1 == t)).map fun l => (.binary, l.2)
  else match unaryRules.find? (fun r => r.2.1 == t) with
    | some (first, _, _) =>
      match lexemes.find? (·.1 == first) with
      | some l => some (.prefix, l.2)
      | none => if first == "'!'" then some (.prefix, "!") else if first == "'~'" then some (.prefix, "~") else none
    | none => if postfixRules.contains t then some (.postfix, t) else none

def isPrefixLevel (l : Assoc × List Op) : Bool := l.2.all (·.1 == .prefix)

/-- adjacent levels that contain only prefix operators are one level (their relative order cannot be observed). -/
def mergePrefix : Nat → List (Assoc × List Op) → List (Assoc × List Op)
  | 0, l => l
  | n + 1, a :: b :: r =>
    if isPrefixLevel a && isPrefixLevel b then mergePrefix n ((.right, a.2 ++ b.2) :: r) else a :: mergePrefix n (b :: r)
  | _ + 1, l => l

/-- the generated declarations, highest precedence first, reduced to operators. -/
def normalised : List (Assoc × List Op) :=
  mergePrefix grammarLevels.length ((grammarLevels.reverse.map fun l => (l.1, l.2.filterMap opOfToken)).filter (!·.2.isEmpty))

/-- doc/17-language-reference.md, table "Operators", precedence 1–13 (transcribed once; the document has no
    associativity column: binary levels associate to the left, relational and equality operators do not chain,
    prefix operators nest to the right). -/
def reference : List (Assoc × List Op) := [
  (.left, [(.postfix, "'('"), (.postfix, "'['"), (.postfix, "'.'")]),                               -- 1  ()  []  .
  (.right, [(.prefix, "!"), (.prefix, "~"), (.prefix, "+"), (.prefix, "-"), (.prefix, "&"), (.prefix, "*")]),   -- 2
  (.left, [(.binary, "*"), (.binary, "/"), (.binary, "%")]),                                         -- 3
  (.left, [(.binary, "+"), (.binary, "-")]),                                                         -- 4
  (.left, [(.binary, "<<"), (.binary, ">>")]),                                                       -- 5
  (.nonassoc, [(.binary, "<"), (.binary, ">"), (.binary, "<="), (.binary, ">=")]),                   -- 6
  (.left, [(.binary, "in"), (.binary, "!in")]),                                                      -- 7
  (.nonassoc, [(.binary, "=="), (.binary, "!=")]),                                                   -- 8
  (.left, [(.binary, "&")]),                                                                         -- 9
  (.left, [(.binary, "^")]),                                                                         -- 10
  (.left, [(.binary, "|")]),                                                                         -- 11
  (.left, [(.binary, "&&")]),                                                                        -- 12
  (.left, [(.binary, "||")])                                                                         -- 13
]

def sameLevel (a b : Assoc × List Op) : Bool :=
  a.1 == b.1 && a.2.all (b.2.contains ·) && b.2.all (a.2.contains ·)

def sameTable : List (Assoc × List Op) → List (Assoc × List Op) → Bool
  | [], [] => true
  | a :: r, b :: s => sameLevel a b && sameTable r s
  | _, _ => false

theorem precedence_matches_reference : sameTable (normalised.take 13) reference = true := by decide

/-- the comparison is not vacuous: swapping two adjacent levels of the reference is rejected. -/
example : sameTable (normalised.take 13)
    (reference.take 2 ++ [(.left, [(.binary, "+"), (.binary, "-")]), (.left, [(.binary, "*"), (.binary, "/"), (.binary, "%")])] ++ reference.drop 4) = false := by decide

end Icinga.C15.Proofs

/-
  C15 — property theorems.  Generic in the number type (`[Num N]`): no theorem depends on a floating-point fact.
  Kernel-checked examples instantiate `N := Int`.
-/
import IcingaModel.C15.Model
import IcingaModel.C15.Spec
import IcingaProofs.Gen.Precedence
import IcingaProofs.C15.Lemmas
import IcingaProofs.C15.OpTable
import IcingaProofs.C15.WfNatives
import IcingaProofs.C15.Round3
import IcingaProofs.C15.Round4

namespace Icinga.C15.Proofs

open Icinga.C15 Icinga.Gen.Precedence

/-! ## 1. Precedence: the grammar of this run = the reference table (doc/17-language-reference.md, "Operators") -/

inductive OpKind | binary | prefix | postfix
  deriving DecidableEq, Repr

abbrev Op := OpKind × String

/-- Operator of a grammar token, or `none` when the token is not an operator of levels 1–13:
    binary tokens through the lexer table (only if the grammar has a binary rule for them), prefix rules through their
    `%prec` token, the three postfix forms by themselves. -/
def opOfToken (t : String) : Option Op :=
  if (binaryRules.map (·.1)).contains t then (lexemes.find? (·.1 == t)).map fun l => (.binary, l.2)
  else match unaryRules.find? (fun r => r.2.1 == t) with
    | some (first, _, _) =>
      match lexemes.find? (·.1 == first) with
      | some l => some (.prefix, l.2)
      | none => if first == "'!'" then some (.prefix, "!") else if first == "'~'" then some (.prefix, "~") else none
    | none => if postfixRules.contains t then some (.postfix, t) else none

def isPrefixLevel (l : Assoc × List Op) : Bool := l.2.all (·.1 == .prefix)

/-- adjacent levels that contain only prefix operators are one level (their relative order cannot be observed). -/
def mergePrefix : Nat → List (Assoc × List Op) → List (Assoc × List Op)
  | 0, l => l
  | n + 1, a :: b :: r =>
    if isPrefixLevel a && isPrefixLevel b then mergePrefix n ((.right, a.2 ++ b.2) :: r) else a :: mergePrefix n (b :: r)
  | _ + 1, l => l

/-- the generated declarations, highest precedence first, reduced to operators. -/
def normalised : List (Assoc × List Op) :=
  mergePrefix grammarLevels.length ((grammarLevels.reverse.map fun l => (l.1, l.2.filterMap opOfToken)).filter (!·.2.isEmpty))

/-- doc/17-language-reference.md, table "Operators", precedence 1–13 (transcribed once; the document has no
    associativity column: binary levels associate to the left, relational and equality operators do not chain,
    prefix operators nest to the right). -/
def reference : List (Assoc × List Op) := [
  (.left, [(.postfix, "'('"), (.postfix, "'['"), (.postfix, "'.'")]),                               -- 1  ()  []  .
  (.right, [(.prefix, "!"), (.prefix, "~"), (.prefix, "+"), (.prefix, "-"), (.prefix, "&"), (.prefix, "*")]),   -- 2
  (.left, [(.binary, "*"), (.binary, "/"), (.binary, "%")]),                                         -- 3
  (.left, [(.binary, "+"), (.binary, "-")]),                                                         -- 4
  (.left, [(.binary, "<<"), (.binary, ">>")]),                                                       -- 5
  (.nonassoc, [(.binary, "<"), (.binary, ">"), (.binary, "<="), (.binary, ">=")]),                   -- 6
  (.left, [(.binary, "in"), (.binary, "!in")]),                                                      -- 7
  (.nonassoc, [(.binary, "=="), (.binary, "!=")]),                                                   -- 8
  (.left, [(.binary, "&")]),                                                                         -- 9
  (.left, [(.binary, "^")]),                                                                         -- 10
  (.left, [(.binary, "|")]),                                                                         -- 11
  (.left, [(.binary, "&&")]),                                                                        -- 12
  (.left, [(.binary, "||")])                                                                         -- 13
]

def sameLevel (a b : Assoc × List Op) : Bool :=
  a.1 == b.1 && a.2.all (b.2.contains ·) && b.2.all (a.2.contains ·)

def sameTable : List (Assoc × List Op) → List (Assoc × List Op) → Bool
  | [], [] => true
  | a :: r, b :: s => sameLevel a b && sameTable r s
  | _, _ => false

theorem precedence_matches_reference : sameTable (normalised.take 13) reference = true := by decide

/-- the comparison is not vacuous: swapping two adjacent levels of the reference is rejected. -/
example : sameTable (normalised.take 13)
    (reference.take 2 ++ [(.left, [(.binary, "+"), (.binary, "-")]), (.left, [(.binary, "*"), (.binary, "/"), (.binary, "%")])] ++ reference.drop 4) = false := by decide


/-! ### the reference table above IS the table of the document (read from doc/17-language-reference.md on every run) -/

/-- a row (precedence, operator text) of the document as an operator: precedence 1 are the postfix forms `()` `[]` `.`, precedence 2 the
    prefix operators, 3–13 the binary ones (the document's "Examples" column shows the arity; it is not machine-readable). -/
def docOp (r : Nat × String) : Op :=
  if r.1 == 1 then (.postfix, if r.2 == "()" then "'('" else if r.2 == "[]" then "'['" else if r.2 == "." then "'.'" else r.2)
  else if r.1 == 2 then (.prefix, r.2) else (.binary, r.2)

def documentedLevel (n : Nat) : List Op := (documented.filter (·.1 == n)).map docOp

def sameOps (a b : List Op) : Bool := a.all (b.contains ·) && b.all (a.contains ·)

/-- rows in file order never go back to a smaller precedence number ("sorted by descending precedence") -/
def nonDecreasing : List Nat → Bool
  | a :: b :: r => a ≤ b && nonDecreasing (b :: r)
  | _ => true

/-- **The reference table is the document's table**: level `i` of `reference` holds exactly the operators the document lists with
    precedence `i` (for i = 1 … 13), and the document's rows are sorted.  `documented` is regenerated from
    doc/17-language-reference.md at the start of every run, so neither a change of the document nor of the transcription goes unnoticed. -/
theorem reference_matches_document :
    reference.length = 13 ∧ (reference.zipIdx.all fun l => sameOps l.1.2 (documentedLevel (l.2 + 1))) = true ∧
    nonDecreasing (documented.map (·.1)) = true := by decide

/-- not vacuous: the document's level 9 is `&` alone, level 10 `^` alone; a table with the two exchanged is rejected -/
example : documentedLevel 9 = [(.binary, "&")] ∧ documentedLevel 10 = [(.binary, "^")] ∧
    sameOps [(.binary, "^")] (documentedLevel 9) = false := by decide

/-- **Every two binary operators are ordered by the grammar of this build as by the document**: for all 20 × 20 pairs of the binary
    operators of the sub-language (the 16 of `BinOp` and `&&`, `||`, `in`, `!in`), both are documented (precedence 3–13) and declared
    in the grammar with a binary rule, and `a` binds tighter than / as tight as `b` in config_parser.yy exactly when the document says
    so.  (The pairwise form of `precedence_matches_reference`, stated on the operators the MODEL evaluates.) -/
theorem binary_operators_ordered_as_documented :
    (allBinarySyms.all fun a => allBinarySyms.all fun b => orderedAlike a b) = true := by decide

/-- every operator of the model (`BinOp`, value-operators.cpp) has exactly ONE row among the document's binary levels -/
theorem every_operator_documented_once (op : BinOp) :
    (documented.filter (fun r => r.2 == op.sym && 3 ≤ r.1 && r.1 ≤ 13)).length = 1 := by
  cases op <;> decide

/-- non-vacuous: `&` is documented at 9 and `^` at 10, the grammar declares `&` one line later (tighter) than `^`; a pair declared
    the other way round is rejected -/
example : docLevelOf "&" = some 9 ∧ docLevelOf "^" = some 10 ∧ orderedAlike "^" "&" = true ∧ orderedAlike "^" "?" = false := by decide

/-! ## 2. Evaluation -/

section
variable {N : Type} [Num N]

/-- evaluation is a function of (fuel, frame, task, state): same inputs, same outcome and same final state. -/
theorem deterministic (fuel : Nat) (fr : Frame N) (t : Task N) (st : State N) (r1 r2 : Res N)
    (h1 : eval fuel fr t st = r1) (h2 : eval fuel fr t st = r2) : r1 = r2 := by
  rw [← h1, ← h2]

/-- **Every program ends in a value or an error that the language defines** — never in the model's `Err.internal`
    (dangling heap address, heap cell of the wrong kind, call of a non-function): for every program and every fuel the heap
    stays well-formed (every address inside every value, dictionary, array, closure and global points to a cell of the
    matching kind; cells never change kind; the heap only grows) and the outcome is not an internal error.  The interpreter
    is a total function, so "returns" needs no proof; without fuel it says so.  Proof: `eval_wf` (C15/WfSteps.lean, induction
    on fuel over all tasks) with `natives_wf` (C15/WfNatives.lean, all ~45 natives). -/
theorem total_or_error (fuel : Nat) (prog : List (Expr N)) :
    (∀ w, (run fuel prog).1 ≠ Out.err (Err.internal w)) ∧ HeapOk (run fuel prog).2 ∧
    (run 0 prog).1 = Out.err Err.fuel := by
  have h := eval_wf (N := N) natives_wf fuel initFrame (.expr (.block prog)) initState initState_ok initFrame_ok trivial
  refine ⟨?_, h.1, by simp [run, eval]⟩
  intro w hw
  have := h.2.2
  unfold run at hw
  rw [hw] at this
  exact this

/-- the same for every task, frame and state that are well-formed (what `total_or_error` instantiates) -/
theorem no_internal_error (fuel : Nat) (fr : Frame N) (t : Task N) (st : State N)
    (hs : HeapOk st) (hf : FrOk st fr) (ht : TOk st t) :
    ROk st (eval fuel fr t st) :=
  eval_wf natives_wf fuel fr t st hs hf ht

/-- scriptframe.cpp:84-85: an expression entered at frame depth ≥ 300 is not evaluated at all: the outcome is the
    recursion error and the state is untouched — whatever the expression, the frame and the remaining fuel. -/
theorem recursion_error_at_limit (f : Nat) (fr : Frame N) (e : Expr N) (st : State N) (h : fr.depth ≥ depthLimit) :
    eval (f + 1) fr (.expr e) st = (.err stackErr, st) := by
  have : fr.depth + 1 > depthLimit := by omega
  simp [eval, stepExpr, this]

/-- **Frame depth never exceeds 300**: for every task (expression, statement list, loop, call, callback iteration,
    reference), frame, state and fuel — the high-water mark of `ScriptFrame::Depth` over the whole evaluation, including
    every nested function frame and the import lookups, stays ≤ 300 (induction on fuel: `eval_ok` in C15/Lemmas.lean). -/
theorem depth_bounded (fuel : Nat) (fr : Frame N) (t : Task N) (st : State N)
    (hfr : fr.depth ≤ depthLimit) (hst : st.maxDepth ≤ depthLimit) :
    (eval fuel fr t st).2.maxDepth ≤ depthLimit :=
  eval_ok fuel fr t st hfr hst

/-- … in particular for whole programs started in a fresh frame. -/
theorem depth_bounded_program (fuel : Nat) (prog : List (Expr N)) : (run fuel prog).2.maxDepth ≤ 300 :=
  depth_bounded fuel initFrame _ initState (by simp [initFrame, depthLimit]) (by simp [initState, depthLimit])

/-- `a && b`: when `a` is falsy the result is `a` ITSELF and the state is the one after `a` — `b` is not evaluated. -/
theorem and_or_short_circuit (f : Nat) (fr : Frame N) (a b : Expr N) (st st1 : State N) (va : Value N)
    (hd : ¬ (fr.depth + 1 > depthLimit))
    (ha : eval f { fr with depth := fr.depth + 1 } (.expr a) (st.noteDepth (fr.depth + 1)) = (.val .ok va, st1)) :
    (truthy st1 va = false → eval (f + 1) fr (.expr (.and a b)) st = (.val .ok va, st1)) ∧
    (truthy st1 va = true → eval (f + 1) fr (.expr (.or a b)) st = (.val .ok va, st1)) := by
  constructor <;> intro ht <;> simp [eval, stepExpr, stepNode, hd, ha, bindV, ht]

/-- `try { a } except { b }`: a script error of `a` never leaves the construct; `b` runs in the state `a` left. -/
theorem try_catches_script_errors (f : Nat) (fr : Frame N) (a b : Expr N) (st st1 : State N) (k : ErrKind) (m : String)
    (hd : ¬ (fr.depth + 1 > depthLimit))
    (ha : eval f { fr with depth := fr.depth + 1 } (.expr a) (st.noteDepth (fr.depth + 1)) = (.err (.script k m), st1)) :
    eval (f + 1) fr (.expr (.try a b)) st =
      bindV (eval f { fr with depth := fr.depth + 1 } (.expr b) st1) (fun _ st2 => (.val .ok .empty, st2)) := by
  simp [eval, stepExpr, stepNode, hd, ha, catchScript]

/-- `break` leaves the innermost loop with Empty, `return` leaves it carrying its value, `continue`/normal completion
    go on with the next iteration (CHECK_RESULT_LOOP). -/
theorem loop_control (f : Nat) (fr : Frame N) (c body : Expr N) (st st1 st2 : State N) (cv v : Value N)
    (hc : eval f fr (.expr c) st = (.val .ok cv, st1)) (ht : truthy st1 cv = true) :
    (eval f fr (.expr body) st1 = (.val .brk v, st2) → eval (f + 1) fr (.whileL c body) st = (.val .ok .empty, st2)) ∧
    (eval f fr (.expr body) st1 = (.val .ret v, st2) → eval (f + 1) fr (.whileL c body) st = (.val .ret v, st2)) ∧
    (eval f fr (.expr body) st1 = (.val .cont v, st2) → eval (f + 1) fr (.whileL c body) st = eval f fr (.whileL c body) st2) := by
  refine ⟨?_, ?_, ?_⟩ <;> intro hb <;> simp [eval, stepWhile, hc, bindV, ht, hb, loopStep]

/-- **Operator typing, all 16 binary operators** (`+ - * / % ^ & | << >> == != < > <= >=`): for every pair of operands the
    outcome class of the operator — value of which type / type error / division error / handled element-wise on the heap — is
    exactly the entry of `opTable` (C15/OpTable.lean) for the operands' classes (Empty, empty string, string, number, Boolean,
    array, dictionary, other object).  Transcribes the case analysis of lib/base/value-operators.cpp. -/
theorem operator_typing (op : BinOp) (l r : Value N) :
    conforms (binScalar op l r) (opTable op (cls l) (cls r)) :=
  table_all op l r

/-- … and for the entries answered on the heap: `+` gives a new array or dictionary, `-` a new array, the comparisons a
    Boolean; the only failures are a nested type error (`[1] < ["a"]`) or the comparison budget (self-containing arrays). -/
theorem operator_typing_heap (op : BinOp) (l r : Value N) (st : State N) (h : binScalar op l r = .heap) :
    (∀ v, (binop op l r st).1 = .ok v →
        v.ty = (match op with
                | .add => if arrPair l r then Ty.array else Ty.dictionary
                | .sub => Ty.array
                | _ => Ty.boolean)) ∧
    (∀ e, (binop op l r st).1 = .error e →
        (∃ m, e = .unmodelled m) ∨ (∃ m, e = .script .optype m) ∨ (∃ m, e = .internal m)) :=
  table_heap op l r st h

/-- the table distinguishes: `"" + null` is a string but `null + null` a type error; `5 / null` the division error;
    `true + 1` a type error while `true == 1` is a Boolean; `[1] + null` a new array. -/
example : opTable .add .emptyStr .empty = .val .string ∧ opTable .add .empty .empty = .typeErr ∧
    opTable .div .num .empty = .divErr ∧ opTable .add .bool .num = .typeErr ∧ opTable .eq .bool .num = .val .boolean ∧
    opTable .add .arr .empty = .newArray ∧ opTable .lt .arr .arr = .deepCmp ∧ opTable .le .arr .arr = .typeErr := by decide

/-! ### round 3: fresh containers, flow control, call scoping -/

/-- **An array literal yields a NEW array on every evaluation**: whatever the elements, frame, state and fuel, the address
    answered by `[ … ]` was not allocated before the evaluation started. -/
theorem array_literal_creates_new_container (fuel : Nat) (fr : Frame N) (es : List (Expr N)) (st st' : State N) (a : Addr)
    (hs : HeapOk st) (hf : FrOk st fr)
    (h : eval fuel fr (.expr (.array es)) st = (.val .ok (.arr a), st')) : kindAt st a = none ∧ kindAt st' a = some .arr := by
  cases fuel with
  | zero => simp [eval] at h
  | succ f =>
    simp only [eval, stepExpr] at h
    split at h
    · simp at h
    · simp only [stepNode] at h
      have hw := eval_wf (N := N) natives_wf f { fr with depth := fr.depth + 1 } (.exprs es []) (st.noteDepth (fr.depth + 1))
        (heapOk_nd hs _) hf (vsOk_nil _)
      have hno := exprs_not_ok f { fr with depth := fr.depth + 1 } es [] (st.noteDepth (fr.depth + 1)) (.arr a)
      generalize eval f { fr with depth := fr.depth + 1 } (.exprs es []) (st.noteDepth (fr.depth + 1)) = r at h hw hno
      obtain ⟨o, st1⟩ := r
      cases o <;> simp [bindVals, liftE, newArr, State.alloc] at h
      · exact absurd (by rw [h.1.1, h.1.2]) hno
      · obtain ⟨ha, hst⟩ := h
        have hsz := ext_size hw.2.1
        subst ha
        subst hst
        refine ⟨kindAt_ge _ _ (by simpa [State.noteDepth] using hsz), ?_⟩
        simp [kindAt, kindOf]

/-- … and so does a dictionary literal `{ … }`: its address is allocated before the body runs and was free before. -/
theorem dict_literal_creates_new_container (fuel : Nat) (fr : Frame N) (body : List (Expr N)) (st st' : State N) (a : Addr)
    (h : eval fuel fr (.expr (.dict body)) st = (.val .ok (.dict a), st')) : kindAt st a = none := by
  cases fuel with
  | zero => simp [eval] at h
  | succ f =>
    simp only [eval, stepExpr] at h
    split at h
    · simp at h
    · simp only [stepNode] at h
      generalize eval f _ (.block body .empty) _ = r at h
      obtain ⟨o, st1⟩ := r
      cases o with
      | val c w =>
        cases c <;> simp [bindV, State.alloc, State.noteDepth] at h
        · rw [← h.1]; exact kindAt_ge _ _ (Nat.le_refl _)
      | _ => simp [bindV] at h


/-! ### flow control -/

/-- **try/except forwards flow control**: `return`/`break`/`continue` executed in the try body OR in the except handler leave the
    construct with their code and value (CHECK_RESULT on both, expression.cpp:1062-1066) — for every body, handler, frame, state. -/
theorem try_forwards_flow_control (f : Nat) (fr : Frame N) (a b : Expr N) (st st1 st2 : State N) (c : Ctl) (v : Value N)
    (k : ErrKind) (m : String) (hd : ¬ (fr.depth + 1 > depthLimit)) (hc : c ≠ .ok) :
    (eval f { fr with depth := fr.depth + 1 } (.expr a) (st.noteDepth (fr.depth + 1)) = (.val c v, st1) →
      eval (f + 1) fr (.expr (.try a b)) st = (.val c v, st1)) ∧
    (eval f { fr with depth := fr.depth + 1 } (.expr a) (st.noteDepth (fr.depth + 1)) = (.err (.script k m), st1) →
      eval f { fr with depth := fr.depth + 1 } (.expr b) st1 = (.val c v, st2) →
      eval (f + 1) fr (.expr (.try a b)) st = (.val c v, st2)) := by
  constructor
  · intro ha
    cases c <;> simp_all [eval, stepExpr, stepNode, catchScript]
  · intro ha hb
    cases c <;> simp_all [eval, stepExpr, stepNode, catchScript, bindV]

/-- `for (k in array)`: the same three rules as `while` (vmops.hpp:185-189, CHECK_RESULT_LOOP). -/
theorem loop_control_for (f : Nat) (fr : Frame N) (k : String) (a : Addr) (i : Nat) (body : Expr N) (st st2 : State N)
    (xs : List (Value N)) (v : Value N) (ha : st.arr? a = some xs) (hi : i < xs.length) :
    (eval f fr (.expr body) (localsSet st fr k (xs.getD i .empty)) = (.val .brk v, st2) →
      eval (f + 1) fr (.forArr k a i body) st = (.val .ok .empty, st2)) ∧
    (eval f fr (.expr body) (localsSet st fr k (xs.getD i .empty)) = (.val .ret v, st2) →
      eval (f + 1) fr (.forArr k a i body) st = (.val .ret v, st2)) ∧
    (eval f fr (.expr body) (localsSet st fr k (xs.getD i .empty)) = (.val .cont v, st2) →
      eval (f + 1) fr (.forArr k a i body) st = eval f fr (.forArr k a (i + 1) body) st2) := by
  have hi' : ¬ (i ≥ xs.length) := by omega
  refine ⟨?_, ?_, ?_⟩ <;> intro hb <;> simp only [List.getD_eq_getElem?_getD] at hb <;> simp [eval, stepForArr, ha, hi', hb, loopStep]

/-- **`return` ends the enclosing function and nothing more; `break`/`continue` do not cross a function boundary**: whatever
    code the body of a script function ends with, the call answers a plain value (vmops.hpp:112). -/
theorem call_absorbs_flow_control (f : Nat) (fr : Frame N) (a : Addr) (self : Value N) (args : List (Value N)) (st st2 : State N)
    (params : List String) (captured : List (String × Value N)) (body : Expr N) (c : Ctl) (v : Value N)
    (hg : st.get? a = some (.fn params captured body))
    (h : eval (f + 1) fr (.call (.fn a) self args) st = (.val c v, st2)) : c = .ok := by
  simp only [eval, stepCall, hg] at h
  split at h
  · simp at h
  · generalize eval f _ (.expr body) _ = r at h
    obtain ⟨o, s⟩ := r
    cases o <;> simp [bindAny] at h
    exact h.1.1.symm

/-- **A call does not see the caller's scope**: the callee starts from the captured variables and the arguments; two callers
    at the same depth with different locals and `this` get the same answer (vmops.hpp:101-110) — for every function and body. -/
theorem scoping_call_ignores_caller_scope (f : Nat) (fr fr' : Frame N) (hd : fr.depth = fr'.depth) (a : Addr) (self : Value N)
    (args : List (Value N)) (st : State N) :
    eval f fr (.call (.fn a) self args) st = eval f fr' (.call (.fn a) self args) st := by
  cases f with
  | zero => simp [eval]
  | succ f => simp only [eval, stepCall, hd]

/-- **map/filter/any/all iterate over a snapshot**: the elements handed to the callback are those the array holds when the method
    is called; the iteration task carries them as a list, so nothing the callback does to the array (add, remove, clear, set) can
    change which elements are visited (array-script.cpp:133, 176, 195, 214 after 1f98393: `self->ShallowClone()`). -/
theorem callback_iteration_over_snapshot (f : Nat) (fr : Frame N) (name : String) (kind : IterKind) (a : Addr) (cb : Value N)
    (rest : List (Value N)) (xs : List (Value N)) (st : State N)
    (hk : isCallbackNative name = some kind) (hr : kind ≠ .reduce) (hcb : isFunction cb = true) (ha : st.arr? a = some xs) :
    eval (f + 1) fr (.call (.native name) (.arr a) (cb :: rest)) st = eval f fr (.iter kind cb xs []) st := by
  cases kind <;> simp_all [eval, stepCall]

/-! ### round 4: array equality, Array#join -/

/-- **Array `==` / `!=`** (value-operators.cpp:159-175), for every heap: an array equals itself; two DIFFERENT arrays of DIFFERENT
    length are unequal whatever their elements (in particular `[] == [1]` and `[1, 2] == [1, 2, 3]` are false — the comparison never
    reads past the shorter array). -/
theorem array_equality_identity_and_length (a b : Addr) (st : State N) (xs ys : List (Value N))
    (ha : st.arr? a = some xs) (hb : st.arr? b = some ys) :
    binop .eq (.arr a) (.arr a) st = (.ok (.bool true), st) ∧
    binop .ne (.arr a) (.arr a) st = (.ok (.bool false), st) ∧
    (a ≠ b → xs.length ≠ ys.length →
      binop .eq (.arr a) (.arr b) st = (.ok (.bool false), st) ∧ binop .ne (.arr a) (.arr b) st = (.ok (.bool true), st)) := by
  have hs : ∀ c d : Addr, eqScalar (N := N) (.arr c) (.arr d) = none := by
    intro c d; simp [eqScalar, Value.isNumber, Value.isBoolean, Value.isString, Value.isEmpty, Value.isObject]
  refine ⟨?_, ?_, ?_⟩
  · simp [binop, binScalar, hs, valEq]
  · simp [binop, binScalar, hs, valEq]
  · intro hab hl
    have hab' : (a == b) = false := by simpa using hab
    constructor <;> simp [binop, binScalar, hs, valEq, hab', ha, hb, hl]

/-- **Array#join** (array.cpp:300-318 through array-script.cpp): the native hands the array's elements to `Array::Join`; joining the
    EMPTY array answers Empty (no element is read) for every separator and state; joining strings `x₀ … xₙ` answers
    `x₀ ++ sep ++ x₁ ++ … ++ sep ++ xₙ` — for every separator, list and state, and the state is unchanged. -/
theorem array_join_folds_with_separator (a : Addr) (sep : Value N) (rest : List (Value N)) (st : State N) (xs : List (Value N))
    (ha : st.arr? a = some xs) :
    nativePure "Array#join" (.arr a) (sep :: rest) st = some (joinValues sep xs true .empty st) ∧
    joinValues sep [] true .empty st = (.ok .empty, st) ∧
    (∀ (s x : String) (r : List String),
      joinValues (.str s) ((x :: r).map Value.str) true .empty st = (.ok (.str (r.foldl (fun acc y => acc ++ s ++ y) x)), st)) := by
  refine ⟨?_, by simp [joinValues], ?_⟩
  · unfold nativePure
    simp [ha]
  · intro s x r
    simp [joinValues, binop, binScalar, numPairStrict, strPair, Value.isNumber, Value.isString, Value.isEmpty, Value.toStr,
      join_strings_acc]

/-- **`!=` is the negation of `==`** for every pair of operands and every heap (scalars, containers, mixed): whenever `==` answers a
    Boolean `!=` answers its negation in the same state, and whenever `==` does not answer (comparison budget on self-containing
    arrays) neither does `!=`. -/
theorem operator_ne_negates_eq (l r : Value N) (st : State N) :
    binop .ne l r st =
      (match binop .eq l r st with
       | (.ok (.bool b), s) => (.ok (.bool !b), s)
       | e => e) := by
  unfold binop
  simp only [binScalar]
  cases h : eqScalar l r with
  | some b => simp
  | none =>
    simp
    cases h2 : valEq 64 st l r <;> simp

/-- **`a !in b` is the negation of `a in b`** (expression.cpp:385-417) for all operands, frames, states and fuel: same evaluation
    order (right operand first), same errors, same final state, negated Boolean. -/
theorem not_in_negates_in (f : Nat) (fr : Frame N) (a b : Expr N) (st : State N) :
    eval f fr (.expr (.notIn a b)) st =
      (match eval f fr (.expr (.isIn a b)) st with
       | (.val .ok (.bool r), s) => (.val .ok (.bool !r), s)
       | e => e) := by
  cases f with
  | zero => simp [eval]
  | succ f =>
    simp only [eval, stepExpr]
    split
    · rfl
    · simp only [stepNode]
      generalize eval f _ (.expr b) _ = rb
      obtain ⟨ob, s1⟩ := rb
      cases ob with
      | val c vb =>
        cases c <;> simp only [bindV]
        by_cases he : vb.isEmpty = true
        · simp [he]
        · simp only [he]
          cases vb <;> simp
          rename_i ba
          generalize eval f _ (.expr a) s1 = ra
          obtain ⟨oa, s2⟩ := ra
          cases oa with
          | val c2 va =>
            cases c2 <;> simp only
            cases arrContains s2 ((s2.arr? ba).getD []) va <;> simp
          | _ => simp
      | _ => simp [bindV]

/-- **`array - []`** (value-operators.cpp:267-292): subtracting an empty array answers a NEW array holding exactly the left operand's
    elements, for every heap and element list (no element is compared, nothing raises). -/
theorem array_minus_empty_array (a b : Addr) (st : State N) (xs : List (Value N))
    (ha : st.arr? a = some xs) (hb : st.arr? b = some []) :
    binop .sub (.arr a) (.arr b) st = ((.ok (.arr (st.alloc (.arr xs)).1)), (st.alloc (.arr xs)).2) := by
  simp [binop, binScalar, numPairStrict, arrPair, Value.isNumber, Value.isArray, Value.isEmpty, ha, hb, arrContains]
  rw [foldr_keeps_all _ (by intro x acc; rfl)]

/-- **Whole trace**: for EVERY program and fuel, whatever the model answers inside the protocol (a value, a script error, the
    recursion error) — printed as the harness prints the real evaluator's answer, for all five observations of a program (minimal
    text, fully parenthesised text, second compilation, second evaluation of the same expression, text parenthesised per the
    DOCUMENTED table: the model is a function of the AST, so all five are this one answer) — passes every clause of `Spec.checkProgram`: no crash, deterministic, deterministic for
    one expression, parenthesisation-independent (grammar's table and documented table), parses, value-or-script-error.  With `total_or_error` (never an internal error)
    the only outcomes outside the protocol are fuel exhaustion and the explicitly unmodelled cases. -/
theorem model_trace_meets_spec (canon : State N → Value N → String) (fuel : Nat) (prog : List (Expr N)) (r : String)
    (h : renderOut canon (run fuel prog) = some r) : Spec.checkProgram ⟨r, r, r, r, r⟩ = none := by
  generalize run fuel prog = res at h
  obtain ⟨o, st⟩ := res
  cases o with
  | val c v => simp [renderOut] at h; subst h; exact checkProgram_value _
  | err e =>
    cases e with
    | script k m => cases k <;> simp [renderOut] at h <;> subst h <;> decide
    | _ => simp [renderOut] at h
  | _ => simp [renderOut] at h

end

/-! ## 2b. Number and duration literals -/

/-- **The literal grammar `D+(.D+)?(ms|s|m|h|d)?`, every text**: the lexer model splits it into (digits, fraction length, suffix) and
    the specification assigns it exactly digits · 10^-|fraction| · (documented factor of the suffix). -/
theorem literal_grammar (ip fp : List Char) (s : Suffix) (hip : ip ≠ []) (hd : ∀ c ∈ ip, c.isDigit = true)
    (hfd : ∀ c ∈ fp, c.isDigit = true) (hfp : fp ≠ []) :
    splitLiteral (ip ++ suffixChars s) = some (digitsVal ip, 0, s) ∧
    Spec.litExactL (ip ++ suffixChars s) = some (digitsVal ip * (docFactor s).1, (docFactor s).2) ∧
    splitLiteral (ip ++ '.' :: (fp ++ suffixChars s)) = some (digitsVal (ip ++ fp), fp.length, s) ∧
    Spec.litExactL (ip ++ '.' :: (fp ++ suffixChars s)) =
      some (digitsVal (ip ++ fp) * (docFactor s).1, 10 ^ fp.length * (docFactor s).2) := by
  have hne : ip.isEmpty = false := by cases ip <;> simp_all
  have hfne : fp.isEmpty = false := by cases fp <;> simp_all
  have t1 : (ip ++ suffixChars s).takeWhile Char.isDigit = ip := by
    rw [List.takeWhile_append_of_pos hd, suffix_takeWhile]; simp
  have d1 : (ip ++ suffixChars s).dropWhile Char.isDigit = suffixChars s := by
    rw [List.dropWhile_append_of_pos hd, suffix_dropWhile]
  have t2 : (ip ++ '.' :: (fp ++ suffixChars s)).takeWhile Char.isDigit = ip := by
    rw [List.takeWhile_append_of_pos hd]; simp [List.takeWhile]
  have d2 : (ip ++ '.' :: (fp ++ suffixChars s)).dropWhile Char.isDigit = '.' :: (fp ++ suffixChars s) := by
    rw [List.dropWhile_append_of_pos hd]; simp [List.dropWhile]
  have t3 : (fp ++ suffixChars s).takeWhile Char.isDigit = fp := by
    rw [List.takeWhile_append_of_pos hfd, suffix_takeWhile]; simp
  have d3 : (fp ++ suffixChars s).dropWhile Char.isDigit = suffixChars s := by
    rw [List.dropWhile_append_of_pos hfd, suffix_dropWhile]
  refine ⟨?_, ?_, ?_, ?_⟩
  · simp only [splitLiteral, t1, d1, hne]
    cases s <;> simp [suffixChars, suffixOf]
  · simp only [Spec.litExactL, t1, d1, hne]
    cases s <;> simp [suffixChars, Spec.suffixFactor, docFactor, Spec.natOfDigits, digitsVal]
  · simp only [splitLiteral, t2, d2, hne, t3, d3, hfne, suffixOf_chars]
    simp
  · simp only [Spec.litExactL, t2, d2, hne, t3, d3, hfne, specFactor_chars]
    simp [Spec.natOfDigits, digitsVal]

/-- **The lexer's arithmetic is multiplication by the documented factor**: read exactly (number type `Int`), the operation sequence
    of each lexer rule (`/ 1000`, `* 60`, `* 60 * 60`, `* 60 * 60 * 24`) maps `x` to `x · factor` (for `ms`: when 1000 divides `x`). -/
theorem literal_scale_is_documented_factor (s : Suffix) (x : Int) (h : ((docFactor s).2 : Int) ∣ x) :
    scaleSuffix (N := Int) s x * ((docFactor s).2 : Int) = x * ((docFactor s).1 : Int) := by
  cases s <;> simp [scaleSuffix, docFactor, Num.mul, Num.div, Num.ofInt] at *
  · exact Int.tdiv_mul_cancel h
  all_goals omega

/-- the literal clause accepts the documented values (also `0.1h`, whose last bit depends on the order of the multiplications)
    and rejects a millisecond literal read as minutes, an hour literal multiplied once, a truncated fraction -/
example : Spec.checkLiteral "500ms" 0x3fe0000000000000 = none := by decide
example : Spec.checkLiteral "500ms" 0x40dd4c0000000000 = some "literal_value_as_documented" := by decide      -- 30000
example : Spec.checkLiteral "2h" 0x40bc200000000000 = none := by decide                                       -- 7200
example : Spec.checkLiteral "2h" 0x405e000000000000 = some "literal_value_as_documented" := by decide         -- 120
example : Spec.checkLiteral "0.1h" 0x4076800000000000 = none ∧ Spec.checkLiteral "0.1h" 0x4076800000000001 = none := by decide
example : Spec.checkLiteral "1.5" 0x3ff0000000000000 = some "literal_value_as_documented" := by decide        -- atoi
example : Spec.checkLiteral "0" 0 = none ∧ Spec.checkLiteral "7d" 0x4122750000000000 = none := by decide      -- 604800
/-- the lexer model on the exact instance: `2h` = 7200, `3d` = 259200, `4000ms` = 4 -/
example : (litValue "2h" : Option Int) = some 7200 ∧ (litValue "3d" : Option Int) = some 259200 ∧ (litValue "4000ms" : Option Int) = some 4 := by decide


/-! ## 3. Kernel-checked executions (N := Int): scoping, closures, recursion limit — also the non-vacuity witnesses -/

private def var (x : String) (e : Expr Int) : Expr Int := .set (.index (.scope .locals) (.str x)) .lit e

private def outNum (r : Res Int) : Option Int := match r with | (.val _ (.num n), _) => some n | _ => none
private def outErr (r : Res Int) : Option ErrKind := match r with | (.err (.script k _), _) => some k | _ => none

/-! ### the document's own examples (table "Operators", column "Examples (Result)") -/

private def outV (r : Res Int) : Option (Value Int) := match r with | (.val .ok v, _) => some v | _ => none

/-- the examples of the document's operator table whose operands and results are numbers, Booleans or strings, as
    (example, documented result); `5m` is 300.  (The two `in` examples are checked by the compiled model only: deep equality is not
    kernel-reducible.) -/
def docExamples : List (Expr Int × Expr Int) := [
  (.lnot (.str "Hello"), .bool false), (.lnot (.bool false), .bool true), (.bnot (.bool true), .bin .sub (.num 0) (.num 2)),
  (.bin .mul (.num 300) (.num 10), .num 3000), (.bin .div (.num 300) (.num 5), .num 60), (.bin .mod (.num 17) (.num 12), .num 5),
  (.bin .add (.num 1) (.num 3), .num 4), (.bin .add (.str "hello ") (.str "world"), .str "hello world"), (.bin .sub (.num 3) (.num 1), .num 2),
  (.bin .shl (.num 4) (.num 8), .num 1024), (.bin .shr (.num 1024) (.num 4), .num 64),
  (.bin .lt (.num 3) (.num 5), .bool true), (.bin .gt (.num 3) (.num 5), .bool false), (.bin .le (.num 3) (.num 3), .bool true),
  (.bin .ge (.num 3) (.num 3), .bool true), (.bin .eq (.str "hello") (.str "hello"), .bool true), (.bin .eq (.num 3) (.num 5), .bool false),
  (.bin .ne (.str "hello") (.str "world"), .bool true), (.bin .ne (.num 3) (.num 3), .bool false),
  (.bin .band (.num 7) (.num 3), .num 3), (.bin .xor (.num 17) (.num 12), .num 29), (.bin .bor (.num 2) (.num 3), .num 3),
  (.and (.bool true) (.bool false), .bool false), (.and (.num 3) (.num 7), .num 7), (.and (.num 0) (.num 7), .num 0),
  (.or (.bool true) (.bool false), .bool true), (.or (.num 0) (.num 7), .num 7),
  (.cond (.bin .gt (.bin .mul (.num 2) (.num 3)) (.num 5)) (.num 1) (some (.num 0)), .num 1)]

/-- the same scalar (number, Boolean or string): what the harness's canonical form compares -/
def sameScalar : Value Int → Value Int → Bool
  | .num a, .num b => a == b
  | .bool a, .bool b => a == b
  | .str a, .str b => a == b
  | _, _ => false

def exampleHolds (p : Expr Int × Expr Int) : Bool :=
  match outV (run 60 [p.1]), outV (run 60 [p.2]) with
  | some a, some b => sameScalar a b
  | _, _ => false

/-- **Every example of the document's operator table evaluates to its documented result** — 28 examples, evaluated by the kernel on
    the exact instance of the model (the two `in` examples by the compiled model on every run).  `~true (-2)` is among them since
    86ab6e0 (finding F-C15g: the document said `~true (false)`; NegateExpression computes `~(long)1 = -2`, and so does the model). -/
theorem reference_examples_hold_in_model : docExamples.all exampleHolds = true := by decide

/-- not vacuous: the example as the document gave it before 86ab6e0 does not hold -/
example : exampleHolds (.bnot (.bool true), .bool false) = false ∧ docExamples.length = 28 := by decide

/-- the clause accepts an example that yields its documented result and rejects one that yields another value, an error, or no pair -/
example : Spec.checkDocExample "docex4" "v:[#40a7700000000000,#40a7700000000000]" = none := by decide
example : Spec.checkDocExample "docex3" "v:[#c000000000000000,false]" = some "reference_example_as_documented" := by decide
example : Spec.checkDocExample "docex4" "e" = some "reference_example_as_documented" := by decide
example : Spec.checkDocExample "prec4" "v:#1" = none := by decide

/-- `3 && 7 = 7`, `0 || 7 = 7` (reference table, rows 12/13). -/
example : outNum (run 50 [.and (.num 3) (.num 7)]) = some 7 := by decide
example : outNum (run 50 [.or (.num 0) (.num 7)]) = some 7 := by decide

/-- a `var` inside a function body does not leak: `var f = function() { var y = 1 }; f(); y` → undefined variable. -/
theorem scoping_var_does_not_leak :
    outErr (run 200 [var "f" (.func [] [] (.block [var "y" (.num 1)])), .call (.var "f") [], .var "y"]) = some .undefvar := by
  decide

/-- `use(x)` captures the value at definition time: `var x = 5; var f = function() use(x) { x }; x = 6; f()` → 5. -/
theorem scoping_use_captures_at_definition :
    outNum (run 200 [var "x" (.num 5), var "f" (.func [] ["x"] (.block [.var "x"])), .set (.var "x") .lit (.num 6),
                     .call (.var "f") []]) = some 5 := by
  decide

/-- an uncaught `throw` is a script error; inside `try` it is caught and evaluation continues. -/
example : outErr (run 50 [.throw (.str "boom")]) = some .user := by decide
example : outNum (run 50 [.try (.block [.throw (.str "boom")]) (.block []), .num 4]) = some 4 := by decide

/-- **Counterexample to "Array#join joins all elements"** (doc/18; finding F-C15e): the faithful model of Array::Join folds with
    `+`, and `Empty + Boolean` is a type error — `[true, false].join(",")` raises, while `[1, "a"].join(",")` is "1,a". -/
theorem array_join_counterexample :
    outErr (run 60 [.call (.index (.array [.bool true, .bool false]) (.str "join")) [.str ","]]) = some .optype ∧
    (match run 60 [.call (.index (.array [.num (1 : Int), .str "a"]) (.str "join")) [.str ","]] with
     | (.val _ (.str s), _) => s == "1,a" | _ => false) = true := by
  decide

/-- `["a", "b", "c"].join("-")` is "a-b-c" and `[].join(",")` is null (through parser-level AST, method lookup and native call) -/
example : (match run 60 [.call (.index (.array [.str "a", .str "b", .str "c"]) (.str "join")) [.str "-"]] with
     | ((.val _ (.str s), _) : Res Int) => s == "a-b-c" | _ => false) = true ∧
    (match run 60 [.call (.index (.array []) (.str "join")) [.str ","]] with
     | ((.val _ .empty, _) : Res Int) => true | _ => false) = true := by decide

/-- the hypotheses of `array_equality_identity_and_length` hold in a concrete heap: `[1, 2]` at address 0, `[1, 2, 3]` at address 1 —
    `[1, 2] == [1, 2, 3]` is false, `!=` true, and each array equals itself -/
example :
    let st : State Int := { heap := #[.arr [.num 1, .num 2], .arr [.num 1, .num 2, .num 3]], globals := [], maxDepth := 0 }
    binop .eq (.arr 0) (.arr 1) st = (.ok (.bool false), st) ∧ binop .ne (.arr 0) (.arr 1) st = (.ok (.bool true), st) ∧
    binop .eq (.arr 1) (.arr 1) st = (.ok (.bool true), st) := by
  intro st
  have h := array_equality_identity_and_length (N := Int) 0 1 st [.num 1, .num 2] [.num 1, .num 2, .num 3] rfl rfl
  have h' := array_equality_identity_and_length (N := Int) 1 0 st [.num 1, .num 2, .num 3] [.num 1, .num 2] rfl rfl
  exact ⟨(h.2.2 (by decide) (by decide)).1, (h.2.2 (by decide) (by decide)).2, h'.1⟩

/-! **F-C15f (repaired by 1f98393)**: Array#map/filter/any/all walked the std::vector of the array while the callback could
    reallocate it; they now iterate over a snapshot — which is what the model always did (`callback_iteration_over_snapshot` above);
    programs whose callbacks modify the iterated array are in the compared domain (family `cbmut`), the old witnesses are regression
    lines of corpus/C15/fixed_c15f_callback_mutates_iterated_array.ops. -/

/-- the spec predicate rejects a crash, a non-deterministic and a parenthesisation-dependent observation. -/
example : Spec.checkProgram ⟨"crash:sig=8", "crash:sig=8", "crash:sig=8", "", ""⟩ = some "no_crash" := by decide
example : Spec.checkProgram ⟨"v:#1", "v:#1", "v:#2", "v:#1", "v:#1"⟩ = some "deterministic" := by decide
example : Spec.checkProgram ⟨"v:#1", "v:#2", "v:#1", "v:#1", ""⟩ = some "precedence_as_declared" := by decide
example : Spec.checkProgram ⟨"v:#1", "v:#1", "v:#1", "v:#1", "v:#1"⟩ = none := by decide
/-- `6 ^ 3 & 1` written as the document allows (no parentheses: `&` binds tighter) answers 1 where `6 ^ (3 & 1)` answers 7: rejected,
    although the text printed per the grammar's own (changed) table agrees with the parenthesised one -/
example : Spec.checkProgram ⟨"v:#7", "v:#7", "v:#7", "v:#7", "v:#1"⟩ = some "precedence_as_documented" := by decide
example : Spec.checkProgram ⟨"v:#7", "v:#7", "v:#7", "v:#7", "crash:sig=11"⟩ = some "no_crash" := by decide
/-- one compiled expression that answers differently the second time (a literal array built once and mutated) is rejected -/
example : Spec.checkProgram ⟨"v:[#1,#2,#3]", "v:[#1,#2,#3]", "v:[#1,#2,#3]", "v:[#1,#2,#3,#3]", ""⟩ = some "deterministic_same_expression" := by decide
example : Spec.checkProgram ⟨"v:#1", "v:#1", "v:#1", "crash:sig=11", ""⟩ = some "no_crash" := by decide

/-- the clauses stated against the reference's answer: a recursion error although the reference nests only 40 frames, a
    `use()` closure whose calls influence each other, a raising `array - array` are rejected; a recursion error at real
    depth 300 is not. -/
example : Spec.checkAgainstReference "catchloop5" "e:stack" (some "v:#1") 40 = some "depth_error_only_beyond_limit" := by decide
example : Spec.checkAgainstReference "scope3" "v:[#2]" (some "v:[#1]") 10 = some "scoping_use_copies_per_call" := by decide
example : Spec.checkAgainstReference "arrsub9" "e:optype" (some "v:[]") 5 = some "operator_typing_array_minus_total" := by decide
example : Spec.checkAgainstReference "recursion400" "e:stack" (some "e:stack") 300 = none := by decide
example : Spec.checkAgainstReference "elif7" "v:[s6232]" (some "v:[s6230]") 9 = some "conditional_branches_in_source_order" := by decide
example : Spec.checkAgainstReference "selfkeep2" "e" (some "v:[]") 9 = some "scoping_this_restored_after_error" := by decide
example : Spec.checkAgainstReference "emptystr4" "v:[#1]" (some "v:[#0]") 9 = some "prototype_method_on_empty_string" := by decide
example : Spec.checkAgainstReference "joinscalar1" "e" (some "e") 9 = some "array_join_total_on_scalars" := by decide
example : Spec.checkAgainstReference "flow12" "v:[s6130]" (some "v:[s5231]") 9 = some "flow_control_leaves_enclosing_construct" := by decide
example : Spec.checkAgainstReference "freshlit3" "v:[[#1,#1],[#1,#1]]" (some "v:[[#1],[#1]]") 9 = some "literal_creates_new_container" := by decide
example : Spec.checkAgainstReference "literal5" "v:[false]" (some "v:[true]") 9 = some "duration_arithmetic_as_documented" := by decide
example : Spec.checkAgainstReference "flow12" "v:[s5231]" (some "v:[s5231]") 9 = none := by decide
example : Spec.checkAgainstReference "cbmut7" "v:[[#1,#2,#1],#3]" (some "v:[[#1,#2],#4]") 9 = some "callback_iteration_over_snapshot" := by decide

end Icinga.C15.Proofs

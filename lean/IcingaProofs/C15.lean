/-
  C15 — property theorems.  Generic in the number type (`[Num N]`): no theorem depends on a floating-point fact.
  Kernel-checked examples instantiate `N := Int`.
-/
import IcingaModel.C15.Model
import IcingaModel.C15.Spec
import IcingaProofs.Gen.Precedence
import IcingaProofs.C15.Lemmas
import IcingaProofs.C15.OpTable
import IcingaProofs.C15.WfNatives

namespace Icinga.C15.Proofs

open Icinga.C15 Icinga.Gen.Precedence

/-! ## 1. Precedence: the grammar of this run = the reference table (doc/17-language-reference.md, "Operators") -/

inductive OpKind | binary | prefix | postfix
  deriving DecidableEq, Repr

abbrev Op := OpKind × String

/-- Operator of a grammar token, or `none` when the token is not an operator of levels 1–13:
    binary tokens through the lexer table (only if the grammar has a binary rule for them), prefix rules through their
    `%prec` token, the three postfix forms by themselves. -/
def opOfToken (t : String) : Option Op :=
  if (binaryRules.map (·.1)).contains t then (lexemes.find? (·.1 == t)).map fun l => (.binary, l.2)
  else match unaryRules.find? (fun r => r.2.1 == t) with
    | some (first, _, _) =>
      match lexemes.find? (·.1 == first) with
      | some l => some (.prefix, l.2)
      | none => if first == "'!'" then some (.prefix, "!") else if first == "'~'" then some (.prefix, "~") else none
    | none => if postfixRules.contains t then some (.postfix, t) else none

def isPrefixLevel (l : Assoc × List Op) : Bool := l.2.all (·.1 == .prefix)

/-- adjacent levels that contain only prefix operators are one level (their relative order cannot be observed). -/
def mergePrefix : Nat → List (Assoc × List Op) → List (Assoc × List Op)
  | 0, l => l
  | n + 1, a :: b :: r =>
    if isPrefixLevel a && isPrefixLevel b then mergePrefix n ((.right, a.2 ++ b.2) :: r) else a :: mergePrefix n (b :: r)
  | _ + 1, l => l

/-- the generated declarations, highest precedence first, reduced to operators. -/
def normalised : List (Assoc × List Op) :=
  mergePrefix grammarLevels.length ((grammarLevels.reverse.map fun l => (l.1, l.2.filterMap opOfToken)).filter (!·.2.isEmpty))

/-- doc/17-language-reference.md, table "Operators", precedence 1–13 (transcribed once; the document has no
    associativity column: binary levels associate to the left, relational and equality operators do not chain,
    prefix operators nest to the right). -/
def reference : List (Assoc × List Op) := [
  (.left, [(.postfix, "'('"), (.postfix, "'['"), (.postfix, "'.'")]),                               -- 1  ()  []  .
  (.right, [(.prefix, "!"), (.prefix, "~"), (.prefix, "+"), (.prefix, "-"), (.prefix, "&"), (.prefix, "*")]),   -- 2
  (.left, [(.binary, "*"), (.binary, "/"), (.binary, "%")]),                                         -- 3
  (.left, [(.binary, "+"), (.binary, "-")]),                                                         -- 4
  (.left, [(.binary, "<<"), (.binary, ">>")]),                                                       -- 5
  (.nonassoc, [(.binary, "<"), (.binary, ">"), (.binary, "<="), (.binary, ">=")]),                   -- 6
  (.left, [(.binary, "in"), (.binary, "!in")]),                                                      -- 7
  (.nonassoc, [(.binary, "=="), (.binary, "!=")]),                                                   -- 8
  (.left, [(.binary, "&")]),                                                                         -- 9
  (.left, [(.binary, "^")]),                                                                         -- 10
  (.left, [(.binary, "|")]),                                                                         -- 11
  (.left, [(.binary, "&&")]),                                                                        -- 12
  (.left, [(.binary, "||")])                                                                         -- 13
]

def sameLevel (a b : Assoc × List Op) : Bool :=
  a.1 == b.1 && a.2.all (b.2.contains ·) && b.2.all (a.2.contains ·)

def sameTable : List (Assoc × List Op) → List (Assoc × List Op) → Bool
  | [], [] => true
  | a :: r, b :: s => sameLevel a b && sameTable r s
  | _, _ => false

theorem precedence_matches_reference : sameTable (normalised.take 13) reference = true := by decide

/-- the comparison is not vacuous: swapping two adjacent levels of the reference is rejected. -/
example : sameTable (normalised.take 13)
    (reference.take 2 ++ [(.left, [(.binary, "+"), (.binary, "-")]), (.left, [(.binary, "*"), (.binary, "/"), (.binary, "%")])] ++ reference.drop 4) = false := by decide


/-! ## 2. Evaluation -/

section
variable {N : Type} [Num N]

/-- evaluation is a function of (fuel, frame, task, state): same inputs, same outcome and same final state. -/
theorem deterministic (fuel : Nat) (fr : Frame N) (t : Task N) (st : State N) (r1 r2 : Res N)
    (h1 : eval fuel fr t st = r1) (h2 : eval fuel fr t st = r2) : r1 = r2 := by
  rw [← h1, ← h2]

/-- **Every program ends in a value or an error that the language defines** — never in the model's `Err.internal`
    (dangling heap address, heap cell of the wrong kind, call of a non-function): for every program and every fuel the heap
    stays well-formed (every address inside every value, dictionary, array, closure and global points to a cell of the
    matching kind; cells never change kind; the heap only grows) and the outcome is not an internal error.  The interpreter
    is a total function, so "returns" needs no proof; without fuel it says so.  Proof: `eval_wf` (C15/WfSteps.lean, induction
    on fuel over all tasks) with `natives_wf` (C15/WfNatives.lean, all ~45 natives). -/
theorem total_or_error (fuel : Nat) (prog : List (Expr N)) :
    (∀ w, (run fuel prog).1 ≠ Out.err (Err.internal w)) ∧ HeapOk (run fuel prog).2 ∧
    (run 0 prog).1 = Out.err Err.fuel := by
  have h := eval_wf (N := N) natives_wf fuel initFrame (.expr (.block prog)) initState initState_ok initFrame_ok trivial
  refine ⟨?_, h.1, by simp [run, eval]⟩
  intro w hw
  have := h.2.2
  unfold run at hw
  rw [hw] at this
  exact this

/-- the same for every task, frame and state that are well-formed (what `total_or_error` instantiates) -/
theorem no_internal_error (fuel : Nat) (fr : Frame N) (t : Task N) (st : State N)
    (hs : HeapOk st) (hf : FrOk st fr) (ht : TOk st t) :
    ROk st (eval fuel fr t st) :=
  eval_wf natives_wf fuel fr t st hs hf ht

/-- scriptframe.cpp:84-85: an expression entered at frame depth ≥ 300 is not evaluated at all: the outcome is the
    recursion error and the state is untouched — whatever the expression, the frame and the remaining fuel. -/
theorem recursion_error_at_limit (f : Nat) (fr : Frame N) (e : Expr N) (st : State N) (h : fr.depth ≥ depthLimit) :
    eval (f + 1) fr (.expr e) st = (.err stackErr, st) := by
  have : fr.depth + 1 > depthLimit := by omega
  simp [eval, stepExpr, this]

/-- **Frame depth never exceeds 300**: for every task (expression, statement list, loop, call, callback iteration,
    reference), frame, state and fuel — the high-water mark of `ScriptFrame::Depth` over the whole evaluation, including
    every nested function frame and the import lookups, stays ≤ 300 (induction on fuel: `eval_ok` in C15/Lemmas.lean). -/
theorem depth_bounded (fuel : Nat) (fr : Frame N) (t : Task N) (st : State N)
    (hfr : fr.depth ≤ depthLimit) (hst : st.maxDepth ≤ depthLimit) :
    (eval fuel fr t st).2.maxDepth ≤ depthLimit :=
  eval_ok fuel fr t st hfr hst

/-- … in particular for whole programs started in a fresh frame. -/
theorem depth_bounded_program (fuel : Nat) (prog : List (Expr N)) : (run fuel prog).2.maxDepth ≤ 300 :=
  depth_bounded fuel initFrame _ initState (by simp [initFrame, depthLimit]) (by simp [initState, depthLimit])

/-- `a && b`: when `a` is falsy the result is `a` ITSELF and the state is the one after `a` — `b` is not evaluated. -/
theorem and_or_short_circuit (f : Nat) (fr : Frame N) (a b : Expr N) (st st1 : State N) (va : Value N)
    (hd : ¬ (fr.depth + 1 > depthLimit))
    (ha : eval f { fr with depth := fr.depth + 1 } (.expr a) (st.noteDepth (fr.depth + 1)) = (.val .ok va, st1)) :
    (truthy st1 va = false → eval (f + 1) fr (.expr (.and a b)) st = (.val .ok va, st1)) ∧
    (truthy st1 va = true → eval (f + 1) fr (.expr (.or a b)) st = (.val .ok va, st1)) := by
  constructor <;> intro ht <;> simp [eval, stepExpr, stepNode, hd, ha, bindV, ht]

/-- `try { a } except { b }`: a script error of `a` never leaves the construct; `b` runs in the state `a` left. -/
theorem try_catches_script_errors (f : Nat) (fr : Frame N) (a b : Expr N) (st st1 : State N) (k : ErrKind) (m : String)
    (hd : ¬ (fr.depth + 1 > depthLimit))
    (ha : eval f { fr with depth := fr.depth + 1 } (.expr a) (st.noteDepth (fr.depth + 1)) = (.err (.script k m), st1)) :
    eval (f + 1) fr (.expr (.try a b)) st =
      bindV (eval f { fr with depth := fr.depth + 1 } (.expr b) st1) (fun _ st2 => (.val .ok .empty, st2)) := by
  simp [eval, stepExpr, stepNode, hd, ha, catchScript]

/-- `break` leaves the innermost loop with Empty, `return` leaves it carrying its value, `continue`/normal completion
    go on with the next iteration (CHECK_RESULT_LOOP). -/
theorem loop_control (f : Nat) (fr : Frame N) (c body : Expr N) (st st1 st2 : State N) (cv v : Value N)
    (hc : eval f fr (.expr c) st = (.val .ok cv, st1)) (ht : truthy st1 cv = true) :
    (eval f fr (.expr body) st1 = (.val .brk v, st2) → eval (f + 1) fr (.whileL c body) st = (.val .ok .empty, st2)) ∧
    (eval f fr (.expr body) st1 = (.val .ret v, st2) → eval (f + 1) fr (.whileL c body) st = (.val .ret v, st2)) ∧
    (eval f fr (.expr body) st1 = (.val .cont v, st2) → eval (f + 1) fr (.whileL c body) st = eval f fr (.whileL c body) st2) := by
  refine ⟨?_, ?_, ?_⟩ <;> intro hb <;> simp [eval, stepWhile, hc, bindV, ht, hb, loopStep]

/-- **Operator typing, all 16 binary operators** (`+ - * / % ^ & | << >> == != < > <= >=`): for every pair of operands the
    outcome class of the operator — value of which type / type error / division error / handled element-wise on the heap — is
    exactly the entry of `opTable` (C15/OpTable.lean) for the operands' classes (Empty, empty string, string, number, Boolean,
    array, dictionary, other object).  Transcribes the case analysis of lib/base/value-operators.cpp. -/
theorem operator_typing (op : BinOp) (l r : Value N) :
    conforms (binScalar op l r) (opTable op (cls l) (cls r)) :=
  table_all op l r

/-- … and for the entries answered on the heap: `+` gives a new array or dictionary, `-` a new array, the comparisons a
    Boolean; the only failures are a nested type error (`[1] < ["a"]`) or the comparison budget (self-containing arrays). -/
theorem operator_typing_heap (op : BinOp) (l r : Value N) (st : State N) (h : binScalar op l r = .heap) :
    (∀ v, (binop op l r st).1 = .ok v →
        v.ty = (match op with
                | .add => if arrPair l r then Ty.array else Ty.dictionary
                | .sub => Ty.array
                | _ => Ty.boolean)) ∧
    (∀ e, (binop op l r st).1 = .error e →
        (∃ m, e = .unmodelled m) ∨ (∃ m, e = .script .optype m) ∨ (∃ m, e = .internal m)) :=
  table_heap op l r st h

/-- the table distinguishes: `"" + null` is a string but `null + null` a type error; `5 / null` the division error;
    `true + 1` a type error while `true == 1` is a Boolean; `[1] + null` a new array. -/
example : opTable .add .emptyStr .empty = .val .string ∧ opTable .add .empty .empty = .typeErr ∧
    opTable .div .num .empty = .divErr ∧ opTable .add .bool .num = .typeErr ∧ opTable .eq .bool .num = .val .boolean ∧
    opTable .add .arr .empty = .newArray ∧ opTable .lt .arr .arr = .deepCmp ∧ opTable .le .arr .arr = .typeErr := by decide

end

/-! ## 3. Kernel-checked executions (N := Int): scoping, closures, recursion limit — also the non-vacuity witnesses -/

private def var (x : String) (e : Expr Int) : Expr Int := .set (.index (.scope .locals) (.str x)) .lit e

private def outNum (r : Res Int) : Option Int := match r with | (.val _ (.num n), _) => some n | _ => none
private def outErr (r : Res Int) : Option ErrKind := match r with | (.err (.script k _), _) => some k | _ => none

/-- `3 && 7 = 7`, `0 || 7 = 7` (reference table, rows 12/13). -/
example : outNum (run 50 [.and (.num 3) (.num 7)]) = some 7 := by decide
example : outNum (run 50 [.or (.num 0) (.num 7)]) = some 7 := by decide

/-- a `var` inside a function body does not leak: `var f = function() { var y = 1 }; f(); y` → undefined variable. -/
theorem scoping_var_does_not_leak :
    outErr (run 200 [var "f" (.func [] [] (.block [var "y" (.num 1)])), .call (.var "f") [], .var "y"]) = some .undefvar := by
  decide

/-- `use(x)` captures the value at definition time: `var x = 5; var f = function() use(x) { x }; x = 6; f()` → 5. -/
theorem scoping_use_captures_at_definition :
    outNum (run 200 [var "x" (.num 5), var "f" (.func [] ["x"] (.block [.var "x"])), .set (.var "x") .lit (.num 6),
                     .call (.var "f") []]) = some 5 := by
  decide

/-- an uncaught `throw` is a script error; inside `try` it is caught and evaluation continues. -/
example : outErr (run 50 [.throw (.str "boom")]) = some .user := by decide
example : outNum (run 50 [.try (.block [.throw (.str "boom")]) (.block []), .num 4]) = some 4 := by decide

/-- **Counterexample to "Array#join joins all elements"** (doc/18; finding F-C15e): the faithful model of Array::Join folds with
    `+`, and `Empty + Boolean` is a type error — `[true, false].join(",")` raises, while `[1, "a"].join(",")` is "1,a". -/
theorem array_join_counterexample :
    outErr (run 60 [.call (.index (.array [.bool true, .bool false]) (.str "join")) [.str ","]]) = some .optype ∧
    (match run 60 [.call (.index (.array [.num (1 : Int), .str "a"]) (.str "join")) [.str ","]] with
     | (.val _ (.str s), _) => s == "1,a" | _ => false) = true := by
  decide

/-- the spec predicate rejects a crash, a non-deterministic and a parenthesisation-dependent observation. -/
example : Spec.checkProgram ⟨"crash:sig=8", "crash:sig=8", "crash:sig=8"⟩ = some "no_crash" := by decide
example : Spec.checkProgram ⟨"v:#1", "v:#1", "v:#2"⟩ = some "deterministic" := by decide
example : Spec.checkProgram ⟨"v:#1", "v:#2", "v:#1"⟩ = some "precedence_as_declared" := by decide
example : Spec.checkProgram ⟨"v:#1", "v:#1", "v:#1"⟩ = none := by decide

/-- the clauses stated against the reference's answer: a recursion error although the reference nests only 40 frames, a
    `use()` closure whose calls influence each other, a raising `array - array` are rejected; a recursion error at real
    depth 300 is not. -/
example : Spec.checkAgainstReference "catchloop5" "e:stack" (some "v:#1") 40 = some "depth_error_only_beyond_limit" := by decide
example : Spec.checkAgainstReference "scope3" "v:[#2]" (some "v:[#1]") 10 = some "scoping_use_copies_per_call" := by decide
example : Spec.checkAgainstReference "arrsub9" "e:optype" (some "v:[]") 5 = some "operator_typing_array_minus_total" := by decide
example : Spec.checkAgainstReference "recursion400" "e:stack" (some "e:stack") 300 = none := by decide
example : Spec.checkAgainstReference "elif7" "v:[s6232]" (some "v:[s6230]") 9 = some "conditional_branches_in_source_order" := by decide
example : Spec.checkAgainstReference "selfkeep2" "e" (some "v:[]") 9 = some "scoping_this_restored_after_error" := by decide
example : Spec.checkAgainstReference "emptystr4" "v:[#1]" (some "v:[#0]") 9 = some "prototype_method_on_empty_string" := by decide
example : Spec.checkAgainstReference "joinscalar1" "e" (some "e") 9 = some "array_join_total_on_scalars" := by decide

end Icinga.C15.Proofs

/-
  C09 — helper lemmas for array command lines (every element resolved on its own, without escaping).
  Property theorems: IcingaProofs/C09.lean.
-/
import IcingaProofs.C09.Lemmas

namespace Icinga.C09

theorem fillSym_bytes (vo : Bytes → Option Bytes) (b : Bytes) (r : List Sym) :
    fillSym vo (b.map Sym.byte ++ r) = b ++ fillSym vo r := by
  induction b with
  | nil => rfl
  | cons c cs ih => simp [fillSym, ih]

/-- Without an escape function the replace loop yields the template with every macro replaced by its value. -/
theorem concatToks_fillSym (look : Bytes → Lookup) (rec : Bytes → Res) (vo : Bytes → Option Bytes) :
    ∀ toks syms, symLine toks = some syms → ScalarMacros look rec vo toks →
      ∃ m, concatToks look rec false toks = .ok (fillSym vo syms, m) := by
  intro toks
  induction toks with
  | nil => intro syms hs _; simp [symLine] at hs; subst hs; exact ⟨false, rfl⟩
  | cons t ts ih =>
    intro syms hs hsc
    cases t with
    | unclosed => simp [symLine] at hs
    | lit b =>
      simp only [symLine, Option.map_eq_some_iff] at hs
      obtain ⟨r, hr, rfl⟩ := hs
      obtain ⟨m, hm⟩ := ih r hr (fun n hn => hsc n (by simpa [macroNames] using hn))
      refine ⟨m, ?_⟩
      simp [concatToks, hm, fillSym_bytes, bind, Except.bind, pure, Except.pure]
    | mac n =>
      simp only [symLine, Option.map_eq_some_iff] at hs
      obtain ⟨r, hr, rfl⟩ := hs
      obtain ⟨m, hm⟩ := ih r hr (fun k hk => hsc k (by simp [macroNames, hk]))
      obtain ⟨v2, fnd, m1, b, hcore, hsb, hvo⟩ := hsc n (by simp [macroNames])
      refine ⟨(!fnd || m1) || m, ?_⟩
      simp [concatToks, expandMacro, hcore, hm, hsb, fillSym, hvo, bind, Except.bind, pure, Except.pure]

/-- One element: its value has the text `fillSym vo syms` (a String, or — when the element is one macro — the
    macro's own Boolean / Number / Empty value with that text). -/
theorem internalResolve_elem (look : Bytes → Lookup) (fuel : Nat) (vo : Bytes → Option Bytes) (e : Bytes) (syms : List Sym)
    (hs : symLine (tokenize e) = some syms)
    (hsc : ScalarMacros look (fun t => internalResolve look fuel false t) vo (tokenize e)) :
    ∃ v m, internalResolve look (fuel + 1) false e = .ok (v, m) ∧ v.scalarBytes = some (fillSym vo syms) := by
  rw [internalResolve]
  split
  · next n htok =>
    rw [htok] at hs hsc
    simp only [symLine, Option.map_some, List.map_nil, List.nil_append, Option.some.injEq] at hs
    subst hs
    obtain ⟨v2, fnd, m1, b, hcore, hsb, hvo⟩ := hsc n (by simp [macroNames])
    refine ⟨v2, !fnd || m1, ?_, ?_⟩
    · simp [expandMacro, hcore, bind, Except.bind, pure, Except.pure]
    · simp [fillSym, hvo, hsb]
  · obtain ⟨m, hm⟩ := concatToks_fillSym look _ vo _ syms hs hsc
    exact ⟨.str (fillSym vo syms), m, by simp [hm, bind, Except.bind, pure, Except.pure], rfl⟩

theorem specExpectedElem_of (look : Bytes → Lookup) (rec : Bytes → Res) (vo : Bytes → Option Bytes) (e : Bytes) (syms : List Sym)
    (hs : symLine (tokenize e) = some syms) (hsc : ScalarMacros look rec vo (tokenize e)) :
    specExpectedElem vo e = some (fillSym vo syms) := by
  have hall : (macroNames (tokenize e)).all (fun n => (vo n).isSome) = true := by
    simp only [List.all_eq_true]
    intro n hn
    obtain ⟨_, _, _, b, _, _, hb⟩ := hsc n hn
    simp [hb]
  simp [specExpectedElem, hs, hall]

theorem elemBytes_of_scalar (v : Val) : ∀ b : Bytes, v.scalarBytes = some b →
    (match v with
      | .arr l => joinSemi l | .str b => b | .empty => [] | .bool x => boolBytes x | .num n => intBytes n) = b := by
  intro b h
  cases v <;> simp [Val.scalarBytes] at h <;> simp [h]

/-- Elements that can be judged: well-formed (`$` paired) and every macro with a scalar value. -/
def ElemOK (look : Bytes → Lookup) (fuel : Nat) (vo : Bytes → Option Bytes) (e : Bytes) : Prop :=
  ∃ syms, symLine (tokenize e) = some syms ∧ ScalarMacros look (fun t => internalResolve look fuel false t) vo (tokenize e)

/-- The array branch of `ResolveMacros`: exactly one result per element, each the element's text with the
    values verbatim — the list the specification computes. -/
theorem resolveArrayElems_fill (look : Bytes → Lookup) (fuel : Nat) (vo : Bytes → Option Bytes) :
    ∀ elems, (∀ e ∈ elems, ElemOK look fuel vo e) →
      ∃ ws m, resolveArrayElems look (fuel + 1) elems = .ok (ws, m) ∧ elems.mapM (specExpectedElem vo) = some ws ∧
        ws.length = elems.length := by
  intro elems
  induction elems with
  | nil => intro _; exact ⟨[], false, rfl, rfl, rfl⟩
  | cons e es ih =>
    intro h
    obtain ⟨syms, hs, hsc⟩ := h e (by simp)
    obtain ⟨ws, m2, hws, hspec, hlen⟩ := ih (fun x hx => h x (by simp [hx]))
    obtain ⟨v, m1, hv, hsb⟩ := internalResolve_elem look fuel vo e syms hs hsc
    have hb := elemBytes_of_scalar v _ hsb
    refine ⟨fillSym vo syms :: ws, m1 || m2, ?_, ?_, by simp [hlen]⟩
    · simp [resolveArrayElems, hv, hws, bind, Except.bind, pure, Except.pure]
      exact hb
    · simp [List.mapM_cons, specExpectedElem_of look _ vo e syms hs hsc, hspec]

end Icinga.C09

/-
  C09 — helper lemmas for the whole-trace theorem `resolveArguments_meets_layout`:
  the stable insertion sort of the model (`sortArgs`) is the concatenation of the specification's classes of
  equal `order` (`orderClasses`), and the specification's permutation search (`consumeClasses`) accepts the
  concatenation of the blocks in their given sequence.
-/
import IcingaProofs.C09.Lemmas

namespace Icinga.C09

/-- Insert `a` behind every element whose `order` is not larger. -/
def insertLast (a : RArg) : List RArg → List RArg
  | [] => [a]
  | b :: bs => if b.order ≤ a.order then b :: insertLast a bs else a :: b :: bs

theorem insertLast_all_gt (a : RArg) (l : List RArg) (h : ∀ x ∈ l, a.order < x.order) : insertLast a l = a :: l := by
  cases l with
  | nil => rfl
  | cons b bs =>
    have := h b (by simp)
    simp only [insertLast]
    rw [if_neg (by omega)]

theorem insertLast_append_le (a : RArg) (g l : List RArg) (h : ∀ x ∈ g, x.order ≤ a.order) :
    insertLast a (g ++ l) = g ++ insertLast a l := by
  induction g with
  | nil => rfl
  | cons b bs ih =>
    have hb := h b (by simp)
    simp only [List.cons_append, insertLast, if_pos hb]
    rw [ih (fun x hx => h x (by simp [hx]))]

theorem insertArg_insertLast (x a : RArg) (l : List RArg) :
    insertArg x (insertLast a l) = insertLast a (insertArg x l) := by
  induction l with
  | nil =>
    simp only [insertLast, insertArg]
    by_cases h : a.order < x.order
    · rw [if_pos h, if_neg (by omega)]
    · rw [if_neg h, if_pos (by omega)]
  | cons b bs ih =>
    by_cases h1 : b.order ≤ a.order <;> by_cases h2 : b.order < x.order
    · simp only [insertLast, insertArg, if_pos h1, if_pos h2, ih]
    · have h3 : x.order ≤ a.order := by omega
      simp only [insertLast, insertArg, if_pos h1, if_neg h2, if_pos h3]
    · have h3 : a.order < x.order := by omega
      simp only [insertLast, insertArg, if_neg h1, if_pos h2, if_pos h3]
    · simp only [insertLast, insertArg, if_neg h1, if_neg h2]
      by_cases h3 : a.order < x.order
      · rw [if_pos h3, if_neg (by omega : ¬ x.order ≤ a.order)]
      · rw [if_neg h3, if_pos (by omega : x.order ≤ a.order)]

theorem sortArgs_snoc (as : List RArg) (a : RArg) : sortArgs (as ++ [a]) = insertLast a (sortArgs as) := by
  induction as with
  | nil => rfl
  | cons x xs ih => simp only [List.cons_append, sortArgs, ih, insertArg_insertLast]

/-- Classes with their keys: every member has the key as its `order`, keys strictly ascending. -/
def ClsOK : List (Int × List RArg) → Prop
  | [] => True
  | (o, g) :: r => (∀ x ∈ g, x.order = o) ∧ (∀ p ∈ r, o < p.1) ∧ ClsOK r

def flatCls (cls : List (Int × List RArg)) : List RArg := (cls.map (·.2)).flatten

theorem insertClass_keys (a : RArg) (cls : List (Int × List RArg)) :
    ∀ p ∈ insertClass a cls, p.1 = a.order ∨ ∃ q ∈ cls, q.1 = p.1 := by
  induction cls with
  | nil => intro p hp; simp [insertClass] at hp; simp [hp]
  | cons c r ih =>
    obtain ⟨o, g⟩ := c
    intro p hp
    simp only [insertClass] at hp
    split at hp
    · rcases List.mem_cons.mp hp with rfl | hp
      · right; exact ⟨(o, g), by simp, rfl⟩
      · right; exact ⟨p, by simp [hp], rfl⟩
    · split at hp
      · rcases List.mem_cons.mp hp with rfl | hp
        · left; rfl
        · right; exact ⟨p, hp, rfl⟩
      · rcases List.mem_cons.mp hp with rfl | hp
        · right; exact ⟨(o, g), by simp, rfl⟩
        · rcases ih p hp with h | ⟨q, hq, hqe⟩
          · left; exact h
          · right; exact ⟨q, by simp [hq], hqe⟩

theorem flatCls_orders (cls : List (Int × List RArg)) (h : ClsOK cls) (lo : Int) (hlo : ∀ p ∈ cls, lo < p.1) :
    ∀ x ∈ flatCls cls, lo < x.order := by
  induction cls with
  | nil => intro x hx; simp [flatCls] at hx
  | cons c r ih =>
    obtain ⟨o, g⟩ := c
    obtain ⟨hg, hr, hok⟩ := h
    intro x hx
    simp only [flatCls, List.map_cons, List.flatten_cons, List.mem_append] at hx
    rcases hx with hx | hx
    · have := hg x hx
      have := hlo (o, g) (by simp)
      simp only at this
      omega
    · exact ih hok (fun p hp => hlo p (by simp [hp])) x hx

theorem insertClass_ok (a : RArg) (cls : List (Int × List RArg)) (h : ClsOK cls) :
    ClsOK (insertClass a cls) ∧ flatCls (insertClass a cls) = insertLast a (flatCls cls) := by
  induction cls with
  | nil => simp [insertClass, ClsOK, flatCls, insertLast]
  | cons c r ih =>
    obtain ⟨o, g⟩ := c
    obtain ⟨hg, hr, hok⟩ := h
    have hflat : flatCls ((o, g) :: r) = g ++ flatCls r := by simp [flatCls]
    simp only [insertClass]
    split
    · next heq =>
      refine ⟨⟨?_, hr, hok⟩, ?_⟩
      · intro x hx
        rcases List.mem_append.mp hx with hx | hx
        · exact hg x hx
        · simp at hx; rw [hx]; exact heq
      · have h1 : flatCls ((o, g ++ [a]) :: r) = g ++ (a :: flatCls r) := by simp [flatCls]
        rw [h1, hflat, insertLast_append_le a g _ (fun x hx => by have := hg x hx; omega)]
        rw [insertLast_all_gt a _ (fun x hx => by have := flatCls_orders r hok o hr x hx; omega)]
    · next hne =>
      split
      · next hlt =>
        refine ⟨⟨by simp, ?_, hg, hr, hok⟩, ?_⟩
        · intro p hp
          rcases List.mem_cons.mp hp with rfl | hp
          · exact hlt
          · have := hr p hp; omega
        · have h1 : flatCls ((a.order, [a]) :: (o, g) :: r) = a :: (g ++ flatCls r) := by simp [flatCls]
          rw [h1, hflat]
          rw [insertLast_all_gt a _ (fun x hx => by
            rcases List.mem_append.mp hx with hx | hx
            · have := hg x hx; omega
            · have := flatCls_orders r hok o hr x hx; omega)]
      · next hnlt =>
        obtain ⟨ihok, ihflat⟩ := ih hok
        have hgt : o < a.order := by omega
        refine ⟨⟨hg, ?_, ihok⟩, ?_⟩
        · intro p hp
          rcases insertClass_keys a r p hp with h | ⟨q, hq, hqe⟩
          · omega
          · have := hr q hq; omega
        · have h1 : flatCls ((o, g) :: insertClass a r) = g ++ flatCls (insertClass a r) := by simp [flatCls]
          rw [h1, ihflat, hflat, insertLast_append_le a g _ (fun x hx => by have := hg x hx; omega)]

theorem foldl_insertLast_sortArgs (as : List RArg) : ∀ pre : List RArg,
    as.foldl (fun l a => insertLast a l) (sortArgs pre) = sortArgs (pre ++ as) := by
  induction as with
  | nil => intro pre; simp
  | cons a as ih =>
    intro pre
    simp only [List.foldl_cons]
    rw [← sortArgs_snoc, ih (pre ++ [a])]
    simp

theorem foldl_insertClass_flat (as : List RArg) : ∀ acc : List (Int × List RArg), ClsOK acc →
    flatCls (as.foldl (fun acc a => insertClass a acc) acc) = as.foldl (fun l a => insertLast a l) (flatCls acc) := by
  induction as with
  | nil => intro acc _; rfl
  | cons a as ih =>
    intro acc hok
    obtain ⟨h1, h2⟩ := insertClass_ok a acc hok
    simp only [List.foldl_cons]
    rw [ih _ h1, h2]

theorem foldl_insertClass_ok (as : List RArg) :
    flatCls (as.foldl (fun acc a => insertClass a acc) []) = sortArgs as := by
  rw [foldl_insertClass_flat as [] (by simp [ClsOK])]
  have := foldl_insertLast_sortArgs as []
  simpa [sortArgs, flatCls] using this

/-- The model's sort is the concatenation of the specification's classes of equal `order`. -/
theorem sortArgs_eq_flatten_orderClasses (as : List RArg) : sortArgs as = (orderClasses as).flatten := by
  have := foldl_insertClass_ok as
  simpa [orderClasses, flatCls] using this.symm

theorem flatten_flatten_map {α : Type} (L : List (List (List α))) : L.flatten.flatten = (L.map List.flatten).flatten := by
  induction L with
  | nil => rfl
  | cons x xs ih => simp [List.flatten_append, ih]

theorem emitAll_eq (l : List RArg) : emitAll l = (l.map emitArg).flatten := by
  induction l with
  | nil => rfl
  | cons a as ih => simp [emitAll, ih]

/-! ### the specification's search accepts the blocks in their given sequence -/

theorem isPrefixOf_append (a b : List Bytes) : a.isPrefixOf (a ++ b) = true := by
  induction a with
  | nil => simp [List.isPrefixOf]
  | cons x xs ih => simp [ih]

theorem consumePerm_identity (g : List (List Bytes)) : ∀ (fuel : Nat) (rest : List Bytes), g.length < fuel →
    rest ∈ consumePerm fuel g (g.flatten ++ rest) := by
  induction g with
  | nil =>
    intro fuel rest hf
    cases fuel with
    | zero => omega
    | succ f => simp [consumePerm]
  | cons blk g' ih =>
    intro fuel rest hf
    cases fuel with
    | zero => omega
    | succ f =>
      simp only [consumePerm, List.mem_flatMap, List.mem_range]
      refine ⟨0, by simp, ?_⟩
      have hp : blk.isPrefixOf (blk ++ (g'.flatten ++ rest)) = true := isPrefixOf_append _ _
      simp only [List.flatten_cons, List.append_assoc, List.getElem?_cons_zero, hp, if_true, List.eraseIdx_cons_zero,
        List.drop_left]
      exact ih f rest (by simp at hf; omega)

theorem consumeClasses_identity (gs : List (List (List Bytes))) : ∀ (rests : List (List Bytes)) (rest : List Bytes),
    ((gs.map List.flatten).flatten ++ rest) ∈ rests → rest ∈ consumeClasses gs rests := by
  induction gs with
  | nil => intro rests rest h; simpa [consumeClasses] using h
  | cons g gs ih =>
    intro rests rest h
    simp only [consumeClasses]
    apply ih
    simp only [List.mem_flatMap]
    refine ⟨_, h, ?_⟩
    simp only [List.map_cons, List.flatten_cons, List.append_assoc]
    exact consumePerm_identity g (g.length + 1) _ (by omega)

/-- What the model appends for the kept arguments `rs` is accepted by the specification's layout clause. -/
theorem specArgvLayout_model (base : List Bytes) (rs : List RArg) (hblock : ∀ a, emitArg a = specArgBlock a) :
    specArgvLayout base rs (base ++ emitAll (sortArgs rs)) = none := by
  have h1 : base.isPrefixOf (base ++ emitAll (sortArgs rs)) = true := isPrefixOf_append _ _
  have h2 : (base ++ emitAll (sortArgs rs)).drop base.length = emitAll (sortArgs rs) := by simp
  have h3 : emitAll (sortArgs rs) = (((orderClasses rs).map (·.map specArgBlock)).map List.flatten).flatten ++ [] := by
    rw [emitAll_eq, sortArgs_eq_flatten_orderClasses]
    have : emitArg = specArgBlock := funext hblock
    rw [this, List.map_flatten, flatten_flatten_map]
    simp
  have h4 := consumeClasses_identity ((orderClasses rs).map (·.map specArgBlock)) [emitAll (sortArgs rs)] []
    (by rw [← h3]; simp)
  simp only [specArgvLayout, h1, h2, Bool.true_and]
  rw [if_pos]
  exact List.any_eq_true.mpr ⟨[], h4, rfl⟩

end Icinga.C09

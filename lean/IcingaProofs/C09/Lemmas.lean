/-
  C09 — helper lemmas (lexer runs, tokeniser, cutting, folds).  Property theorems: IcingaProofs/C09.lean.
-/
import IcingaModel.C09.Model
import IcingaModel.C09.Spec

namespace Icinga.C09

/-! ### sh lexer -/

theorem shRun_append (s : ShSt) (a b : Bytes) :
    shRun s (a ++ b) = (shRun s a) >>= fun s' => shRun s' b := by
  induction a generalizing s with
  | nil => simp [shRun]
  | cons c cs ih =>
    simp only [List.cons_append, shRun]
    cases h : shStep s c with
    | error e => rfl
    | ok s' => exact ih s'

/-- Inside single quotes, the body of `EscapeShellArg v` appends exactly `v` to the current word and the
    lexer is inside single quotes again afterwards. -/
theorem shRun_escBody (done : List Bytes) (w v : Bytes) :
    shRun { done := done, cur := some w, mode := .sq } (escBody v)
      = .ok { done := done, cur := some (w ++ v), mode := .sq } := by
  induction v generalizing w with
  | nil => simp [escBody, shRun]; rfl
  | cons c cs ih =>
    by_cases hc : c = SQUOTE
    · subst hc
      have : shRun { done := done, cur := some w, mode := .sq } (escBody (SQUOTE :: cs))
          = shRun { done := done, cur := some (w ++ [SQUOTE]), mode := .sq } (escBody cs) := by
        simp [escBody, shRun, shStep, ShSt.push, SQUOTE, BSLASH, LF, bind, Except.bind, pure, Except.pure]
      rw [this, ih]
      simp
    · have : shRun { done := done, cur := some w, mode := .sq } (escBody (c :: cs))
          = shRun { done := done, cur := some (w ++ [c]), mode := .sq } (escBody cs) := by
        simp [escBody, hc, shRun, shStep, ShSt.push, bind, Except.bind, pure, Except.pure]
      rw [this, ih]
      simp

/-! ### tokeniser -/

theorem tok_text_append (acc p rest : Bytes) (hp : DOLLAR ∉ p) :
    tok false acc (p ++ DOLLAR :: rest) = .lit (acc.reverse ++ p) :: tok true [] rest := by
  induction p generalizing acc with
  | nil => simp [tok]
  | cons c cs ih =>
    have hc : c ≠ DOLLAR := fun h => hp (by simp [h])
    have hcs : DOLLAR ∉ cs := fun h => hp (by simp [h])
    simp [tok, hc, ih (c :: acc) hcs]

theorem tok_name_append (acc n rest : Bytes) (hn : DOLLAR ∉ n) :
    tok true acc (n ++ DOLLAR :: rest) = .mac (acc.reverse ++ n) :: tok false [] rest := by
  induction n generalizing acc with
  | nil => simp [tok]
  | cons c cs ih =>
    have hc : c ≠ DOLLAR := fun h => hn (by simp [h])
    have hcs : DOLLAR ∉ cs := fun h => hn (by simp [h])
    simp [tok, hc, ih (c :: acc) hcs]

/-- `p $name$ q` is cut into the literal `p`, the macro `name` and the tokens of `q`. -/
theorem tokenize_macro (p n q : Bytes) (hp : DOLLAR ∉ p) (hn : DOLLAR ∉ n) :
    tokenize (p ++ DOLLAR :: (n ++ DOLLAR :: q)) = .lit p :: .mac n :: tokenize q := by
  simp [tokenize, tok_text_append [] p _ hp, tok_name_append [] n _ hn]

theorem tok_ne_nil (m : Bool) (acc cs : Bytes) : tok m acc cs ≠ [] := by
  induction cs generalizing m acc with
  | nil => cases m <;> simp [tok]
  | cons c cs ih =>
    cases m <;> by_cases hc : c = DOLLAR <;> simp [tok, hc, ih]

theorem tok_single_lit (acc cs : Bytes) (h : tok false acc cs = [.lit []]) : acc = [] ∧ cs = [] := by
  induction cs generalizing acc with
  | nil => simpa [tok] using h
  | cons c cs ih =>
    by_cases hc : c = DOLLAR
    · subst hc
      simp only [tok, if_true] at h
      have h2 : tok true [] cs = [] := by
        have := congrArg List.tail h
        simpa using this
      exact absurd h2 (tok_ne_nil _ _ _)
    · simp only [tok, hc, if_false] at h
      have := ih (c :: acc) h
      exact absurd this.1 (by simp)

theorem tokenize_single_lit (q : Bytes) (h : tokenize q = [.lit []]) : q = [] :=
  (tok_single_lit [] q h).2

/-! ### cutting at a separator -/

theorem cutAt_spec (sep : UInt8) (l : Bytes) :
    (∀ a b, cutAt sep l = (a, some b) → l = a ++ sep :: b ∧ sep ∉ a) ∧
    (∀ a, cutAt sep l = (a, none) → a = l ∧ sep ∉ l) := by
  induction l with
  | nil => simp [cutAt]
  | cons c cs ih =>
    by_cases hc : c = sep
    · subst hc
      simp [cutAt]
    · constructor
      · intro a b h
        simp only [cutAt, hc, if_false] at h
        cases hcut : cutAt sep cs with
        | mk a' b' =>
          rw [hcut] at h
          simp only [Prod.mk.injEq] at h
          obtain ⟨rfl, rfl⟩ := h
          obtain ⟨h1, h2⟩ := ih.1 a' b hcut
          refine ⟨by rw [h1]; rfl, ?_⟩
          simp [h2, Ne.symm hc]
      · intro a h
        simp only [cutAt, hc, if_false] at h
        cases hcut : cutAt sep cs with
        | mk a' b' =>
          rw [hcut] at h
          simp only [Prod.mk.injEq] at h
          obtain ⟨rfl, rfl⟩ := h
          obtain ⟨h1, h2⟩ := ih.2 a' hcut
          refine ⟨by rw [h1], ?_⟩
          simp [h2, Ne.symm hc]

theorem cutAt_of_decomp (sep : UInt8) (pre post : Bytes) (h : sep ∉ pre) :
    cutAt sep (pre ++ sep :: post) = (pre, some post) := by
  induction pre with
  | nil => simp [cutAt]
  | cons c cs ih =>
    have hc : c ≠ sep := fun e => h (by simp [e])
    have hcs : sep ∉ cs := fun e => h (by simp [e])
    simp [cutAt, hc, ih hcs]

/-! ### specification-level formulation of the output split -/

theorem cutAt_eq (sep : UInt8) (l : Bytes) :
    cutAt sep l = (l.takeWhile (· ≠ sep), if l.contains sep then some ((l.dropWhile (· ≠ sep)).drop 1) else none) := by
  induction l with
  | nil => simp [cutAt]
  | cons c cs ih =>
    by_cases hc : c = sep
    · subst hc; simp [cutAt]
    · simp [cutAt, hc, ih, Ne.symm hc]

theorem splitLine_eq (line : Bytes) : splitLine line = (textPart line, perfPart line) := by
  unfold splitLine textPart perfPart
  rw [cutAt_eq]
  by_cases hb : BAR ∈ line
  · by_cases he : EQ ∈ (List.dropWhile (fun x => !decide (x = BAR)) line).tail
    · simp [hb, he]
    · simp [hb, he]
  · simp [hb]

def joinQuirkFrom (sep : UInt8) (acc : Bytes) (parts : List Bytes) : Bytes :=
  parts.foldl (fun acc x => if acc.isEmpty then x else acc ++ sep :: x) acc

theorem foldl_parseStep (L : List Bytes) (t p : Bytes) :
    L.foldl parseStep (t, p) = (joinQuirkFrom LF t (L.map textPart), joinQuirkFrom SPACE p (L.filterMap perfPart)) := by
  induction L generalizing t p with
  | nil => simp [joinQuirkFrom]
  | cons x xs ih =>
    simp only [List.foldl_cons, parseStep, splitLine_eq]
    cases hp : perfPart x with
    | none => simp [ih, joinQuirkFrom, appendSep, hp]
    | some pf => simp [ih, joinQuirkFrom, appendSep, hp]

theorem specState_eq (e : Int) : specState e = exitToState e := by
  unfold specState exitToState
  split <;> simp_all


/-! ### single macros, layout, cache (helpers of the property theorems) -/

theorem expand_dollar (look : Bytes → Lookup) (rec : Bytes → Res) (hempty : look [] = .notFound) :
    expandMacro look rec false [] = .ok (.str [DOLLAR], false) := by
  simp [expandMacro, expandCore, hempty, pure, Except.pure, bind, Except.bind]

theorem expand_plain (look : Bytes → Lookup) (rec : Bytes → Res) (m v : Bytes) (hm : m ≠ [])
    (hv : look m = .found (.str v) false) :
    expandMacro look rec false m = .ok (.str v, false) := by
  simp [expandMacro, expandCore, hv, hm, pure, Except.pure, bind, Except.bind]

theorem fill_elem (key v : Bytes) (sep : Option Bytes) (addKey addValue : Bool) (rest : List Slot) (vs : List Bytes) :
    fill key (sep.getD []) (elemSlots addKey addValue sep.isSome ++ rest) (v :: vs)
      = addArgumentHelper key v addKey addValue sep ++ fill key (sep.getD []) rest vs := by
  cases addKey <;> cases addValue <;> cases sep <;> simp [elemSlots, addArgumentHelper, fill]

theorem emitArr_eq_fill (a : RArg) (first : Bool) (l : List Bytes) :
    emitArr a first l = fill a.key (a.sep.getD []) (arrSlots a.skipKey a.repeatKey a.skipValue a.sep.isSome first l.length) l := by
  induction l generalizing first with
  | nil => simp [emitArr, arrSlots, fill]
  | cons v vs ih =>
    simp only [emitArr, List.length_cons, arrSlots, fill_elem, ih false]

theorem consumers_append (x y : List Slot) : consumers (x ++ y) = consumers x + consumers y := by
  induction x with
  | nil => simp [consumers]
  | cons s r ih => cases s <;> simp [consumers, ih] <;> omega

theorem consumers_arrSlots (sk rk sv hs first : Bool) (n : Nat) : consumers (arrSlots sk rk sv hs first n) = n := by
  induction n generalizing first with
  | zero => simp [arrSlots, consumers]
  | succ n ih =>
    simp only [arrSlots, consumers_append, ih]
    cases first <;> cases sk <;> cases rk <;> cases sv <;> cases hs <;> simp [elemSlots, consumers] <;> omega

theorem expand_plain_esc (look : Bytes → Lookup) (rec : Bytes → Res) (m v : Bytes) (hm : m ≠ [])
    (hv : look m = .found (.str v) false) :
    expandMacro look rec true m = .ok (.str (escapeShellArg v), false) := by
  simp [expandMacro, expandCore, hv, hm, escapeMacroShellArg, pure, Except.pure, bind, Except.bind]


/-- The cache `c` is faithful for the macro `n` resolved under `look` (with `rec` one level deeper): it
    holds the value after recursion iff the macro was found, and no macro nested in that value was missing. -/
def CacheOK (look c : Bytes → Lookup) (rec : Bytes → Res) (n : Bytes) : Prop :=
  if n = [] then look [] = .notFound ∧ (c [] = .notFound ∨ ∃ v, c [] = .found v false)
  else ∃ v found, expandCore look rec n = .ok (v, found, false) ∧ c n = (if found then .found v false else .notFound)

theorem expandCore_cached (look c : Bytes → Lookup) (rec rec' : Bytes → Res) (n : Bytes) (hn : n ≠ []) (v : Val) (found : Bool)
    (h1 : expandCore look rec n = .ok (v, found, false)) (h2 : c n = (if found then .found v false else .notFound)) :
    expandCore c rec' n = .ok (v, found, false) := by
  cases found with
  | true => simp [expandCore, h2, hn, pure, Except.pure, bind, Except.bind]
  | false =>
    have hv : v = .empty := by
      cases hl : look n with
      | notFound => simp [expandCore, hl, hn, pure, Except.pure, bind, Except.bind] at h1; exact h1.symm
      | unsupported => simp [expandCore, hl, throw, throwThe, MonadExceptOf.throw] at h1
      | found v' r =>
        simp only [expandCore, hl, hn, if_false, bind, Except.bind] at h1
        split at h1 <;> simp [pure, Except.pure] at h1
    subst hv
    simp [expandCore, h2, hn, pure, Except.pure, bind, Except.bind]

theorem expandMacro_cached (look c : Bytes → Lookup) (rec rec' : Bytes → Res) (esc : Bool) (n : Bytes)
    (h : CacheOK look c rec n) : expandMacro c rec' esc n = expandMacro look rec esc n := by
  unfold CacheOK at h
  by_cases hn : n = []
  · subst hn
    simp only [if_true] at h
    obtain ⟨hl, hc⟩ := h
    rcases hc with hc | ⟨v, hc⟩ <;>
      simp [expandMacro, expandCore, hl, hc, pure, Except.pure, bind, Except.bind]
  · simp only [hn, if_false] at h
    obtain ⟨v, found, h1, h2⟩ := h
    simp only [expandMacro, h1, expandCore_cached look c rec rec' n hn v found h1 h2]

theorem concatToks_cached (look c : Bytes → Lookup) (rec rec' : Bytes → Res) (esc : Bool) (toks : List Tok)
    (h : ∀ n ∈ macroNames toks, CacheOK look c rec n) :
    concatToks c rec' esc toks = concatToks look rec esc toks := by
  induction toks with
  | nil => rfl
  | cons t ts ih =>
    cases t with
    | lit b => simp only [concatToks, ih (fun n hn => h n (by simpa [macroNames] using hn))]
    | unclosed => rfl
    | mac n =>
      have h1 := expandMacro_cached look c rec rec' esc n (h n (by simp [macroNames]))
      simp only [concatToks, h1, ih (fun m hm => h m (by simp [macroNames, hm]))]


/-! ### monotonicity in the recursion budget -/

/-- `rec2` succeeds with the same result wherever `rec1` succeeds. -/
def Extends (rec1 rec2 : Bytes → Res) : Prop := ∀ t r, rec1 t = .ok r → rec2 t = .ok r

theorem resolveElems_mono (rec1 rec2 : Bytes → Res) (h : Extends rec1 rec2) :
    ∀ l r, resolveElems rec1 l = .ok r → resolveElems rec2 l = .ok r := by
  intro l
  induction l with
  | nil => intro r hr; simpa [resolveElems] using hr
  | cons e es ih =>
    intro r hr
    by_cases he : e = []
    · simp only [resolveElems, he, if_true, bind, Except.bind] at hr ⊢
      cases h1 : resolveElems rec1 es with
      | error x => simp [h1] at hr
      | ok p => rw [h1] at hr; rw [ih p h1]; exact hr
    · simp only [resolveElems, he, if_false, bind, Except.bind] at hr ⊢
      cases h1 : rec1 e with
      | error x => simp [h1] at hr
      | ok p =>
        rw [h1] at hr
        rw [h e p h1]
        simp only at hr ⊢
        cases hs : p.1.scalarBytes with
        | none => simp [hs, throw, throwThe, MonadExceptOf.throw] at hr
        | some b =>
          simp only [hs] at hr ⊢
          cases h2 : resolveElems rec1 es with
          | error x => simp [h2] at hr
          | ok q => rw [h2] at hr; rw [ih q h2]; exact hr

theorem expandCore_mono (look : Bytes → Lookup) (rec1 rec2 : Bytes → Res) (h : Extends rec1 rec2) (n : Bytes) :
    ∀ r, expandCore look rec1 n = .ok r → expandCore look rec2 n = .ok r := by
  intro r hr
  cases hl : look n with
  | unsupported => simp [expandCore, hl, throw, throwThe, MonadExceptOf.throw] at hr
  | notFound => simpa [expandCore, hl] using hr
  | found v isRec =>
    cases isRec with
    | false => simpa [expandCore, hl] using hr
    | true =>
      by_cases hn : n = []
      · subst hn
        simp only [expandCore, hl, if_true, bind, Except.bind] at hr ⊢
        cases h1 : rec1 [DOLLAR] with
        | error x => simp [h1] at hr
        | ok p => rw [h1] at hr; rw [h _ p h1]; exact hr
      · cases v with
        | empty => simpa [expandCore, hl, hn] using hr
        | bool x => simpa [expandCore, hl, hn] using hr
        | num k => simpa [expandCore, hl, hn] using hr
        | str b =>
          simp only [expandCore, hl, hn, if_false, if_true, bind, Except.bind] at hr ⊢
          cases h1 : rec1 b with
          | error x => simp [h1] at hr
          | ok p => rw [h1] at hr; rw [h _ p h1]; exact hr
        | arr l =>
          simp only [expandCore, hl, hn, if_false, if_true, bind, Except.bind] at hr ⊢
          cases h1 : resolveElems rec1 l with
          | error x => simp [h1] at hr
          | ok p => rw [h1] at hr; rw [resolveElems_mono rec1 rec2 h l p h1]; exact hr

theorem expandMacro_mono (look : Bytes → Lookup) (rec1 rec2 : Bytes → Res) (h : Extends rec1 rec2) (esc : Bool) (n : Bytes) :
    ∀ r, expandMacro look rec1 esc n = .ok r → expandMacro look rec2 esc n = .ok r := by
  intro r hr
  simp only [expandMacro, bind, Except.bind] at hr ⊢
  cases h1 : expandCore look rec1 n with
  | error x => simp [h1] at hr
  | ok p => rw [h1] at hr; rw [expandCore_mono look rec1 rec2 h n p h1]; exact hr

theorem concatToks_mono (look : Bytes → Lookup) (rec1 rec2 : Bytes → Res) (h : Extends rec1 rec2) (esc : Bool) :
    ∀ toks r, concatToks look rec1 esc toks = .ok r → concatToks look rec2 esc toks = .ok r := by
  intro toks
  induction toks with
  | nil => intro r hr; simpa [concatToks] using hr
  | cons t ts ih =>
    intro r hr
    cases t with
    | unclosed => simp [concatToks, throw, throwThe, MonadExceptOf.throw] at hr
    | lit b =>
      simp only [concatToks, bind, Except.bind] at hr ⊢
      cases h1 : concatToks look rec1 esc ts with
      | error x => simp [h1] at hr
      | ok p => rw [h1] at hr; rw [ih p h1]; exact hr
    | mac n =>
      simp only [concatToks, bind, Except.bind] at hr ⊢
      cases h1 : expandMacro look rec1 esc n with
      | error x => simp [h1] at hr
      | ok p =>
        rw [h1] at hr
        rw [expandMacro_mono look rec1 rec2 h esc n p h1]
        simp only at hr ⊢
        cases hs : p.1.scalarBytes with
        | none => simp [hs, throw, throwThe, MonadExceptOf.throw] at hr
        | some b =>
          simp only [hs] at hr ⊢
          cases h2 : concatToks look rec1 esc ts with
          | error x => simp [h2] at hr
          | ok q => rw [h2] at hr; rw [ih q h2]; exact hr


/-! ### template lexer against byte lexer (string command lines) -/

theorem shRun_escapeShellArg (s : ShSt) (hmode : s.mode = .unq) (v suffix : Bytes) :
    shRun s (escapeShellArg v ++ suffix)
      = shRun { done := s.done, cur := some (s.cur.getD [] ++ v), mode := .unq } suffix := by
  obtain ⟨done, cur, mode⟩ := s
  simp only at hmode
  subst hmode
  have h1 : shRun { done := done, cur := cur, mode := .unq } (escapeShellArg v ++ suffix)
      = shRun { done := done, cur := some (cur.getD []), mode := .sq } (escBody v ++ SQUOTE :: suffix) := by
    simp [escapeShellArg, shRun, shStep, SQUOTE, bind, Except.bind, pure, Except.pure]
  rw [h1, shRun_append, shRun_escBody]
  simp [shRun, shStep, bind, Except.bind, pure, Except.pure]

theorem fillSym_append (vo : Bytes → Option Bytes) (a b : List Sym) : fillSym vo (a ++ b) = fillSym vo a ++ fillSym vo b := by
  induction a with
  | nil => rfl
  | cons x xs ih => cases x <;> simp [fillSym, ih]

theorem fill_getD (vo : Bytes → Option Bytes) (c : Option (List Sym)) :
    (c.map (fillSym vo)).getD [] = fillSym vo (c.getD []) := by
  cases c <;> simp [fillSym]

theorem step_commutes (vo : Bytes → Option Bytes) (s : SymSt) (c : UInt8) :
    shStep (fillSt vo s) c = (symStep s (.byte c)).map (fillSt vo) := by
  obtain ⟨done, cur, mode⟩ := s
  cases mode
  · -- unq
    simp only [shStep, symStep, fillSt]
    by_cases h1 : c = SQUOTE
    · simp [h1, Except.map, pure, Except.pure, fillSt, fill_getD]
    · by_cases h2 : c = 34
      · subst h2
        simp [SQUOTE, Except.map, pure, Except.pure, fillSt, fill_getD]
      · by_cases h3 : c = BSLASH
        · subst h3
          simp [SQUOTE, BSLASH, Except.map, pure, Except.pure, fillSt, fill_getD]
        · by_cases h4 : (c = SPACE || c = 9) = true
          · cases cur <;> simp [h1, h2, h3, h4, Except.map, pure, Except.pure, fillSt]
          · by_cases h5 : shSpecial c = true
            · simp [h1, h2, h3, h4, h5, Except.map, throw, throwThe, MonadExceptOf.throw]
            · simp [h1, h2, h3, h4, h5, Except.map, pure, Except.pure, fillSt, ShSt.push, SymSt.push, fill_getD, fillSym_append, fillSym]
  · -- sq
    simp only [shStep, symStep, fillSt]
    by_cases h1 : c = SQUOTE
    · simp [h1, Except.map, pure, Except.pure, fillSt]
    · simp [h1, Except.map, pure, Except.pure, fillSt, ShSt.push, SymSt.push, fill_getD, fillSym_append, fillSym]
  · -- bs
    simp only [shStep, symStep, fillSt]
    by_cases h1 : c = LF
    · simp [h1, Except.map, throw, throwThe, MonadExceptOf.throw]
    · simp [h1, Except.map, pure, Except.pure, fillSt, ShSt.push, SymSt.push, fill_getD, fillSym_append, fillSym]
  · -- dq
    simp only [shStep, symStep, fillSt]
    by_cases h1 : c = 34
    · simp [h1, Except.map, pure, Except.pure, fillSt]
    · by_cases h2 : (c = 36 || c = 96 || c = BSLASH) = true
      · simp [h1, h2, Except.map, throw, throwThe, MonadExceptOf.throw]
      · simp [h1, h2, Except.map, pure, Except.pure, fillSt, ShSt.push, SymSt.push, fill_getD, fillSym_append, fillSym]

/-- Simulation: the byte lexer on the code's line and the template lexer on the template move in
    lock step, the byte lexer's words being the template lexer's words with the values filled in. -/
theorem lexer_simulation (vo : Bytes → Option Bytes) (syms : List Sym) :
    ∀ s, UnqAtMacros s syms → shRun (fillSt vo s) (renderEsc vo syms) = (symRun s syms).map (fillSt vo) := by
  induction syms with
  | nil => intro s _; rfl
  | cons x xs ih =>
    intro s h
    cases x with
    | byte c =>
      simp only [renderEsc, shRun, symRun, step_commutes]
      cases hs : symStep s (.byte c) with
      | error e => rfl
      | ok s' => exact ih s' (h s' hs)
    | mac n =>
      obtain ⟨hm, h'⟩ := h
      have hstep : symStep s (.mac n) = .ok (s.push (.mac n)) := by
        obtain ⟨done, cur, mode⟩ := s
        simp only at hm
        subst hm
        rfl
      simp only [renderEsc, symRun, hstep]
      rw [shRun_escapeShellArg (fillSt vo s) (by simpa [fillSt] using hm)]
      have : ({ done := (fillSt vo s).done, cur := some ((fillSt vo s).cur.getD [] ++ (vo n).getD []), mode := .unq } : ShSt)
          = fillSt vo (s.push (.mac n)) := by
        simp [fillSt, SymSt.push, fill_getD, fillSym_append, fillSym, hm]
      rw [this]
      exact ih _ h'

theorem escapeMacro_scalar (v : Val) (b : Bytes) (h : v.scalarBytes = some b) : escapeMacroShellArg v = escapeShellArg b := by
  cases v <;> simp [Val.scalarBytes] at h <;> subst h <;> rfl

/-- Every macro of the token list has a scalar value `valueOf n` under `look` (whatever bytes). -/
def ScalarMacros (look : Bytes → Lookup) (rec : Bytes → Res) (vo : Bytes → Option Bytes) (toks : List Tok) : Prop :=
  ∀ n ∈ macroNames toks, ∃ v2 fnd m b, expandCore look rec n = .ok (v2, fnd, m) ∧ v2.scalarBytes = some b ∧ vo n = some b

/-- The line the model builds for a string command line is the template with every macro replaced by
    `EscapeShellArg(value)`. -/
theorem concatToks_renderEsc (look : Bytes → Lookup) (rec : Bytes → Res) (vo : Bytes → Option Bytes) :
    ∀ toks syms, symLine toks = some syms → ScalarMacros look rec vo toks →
      ∃ m, concatToks look rec true toks = .ok (renderEsc vo syms, m) := by
  intro toks
  induction toks with
  | nil => intro syms hs _; simp [symLine] at hs; subst hs; exact ⟨false, rfl⟩
  | cons t ts ih =>
    intro syms hs hsc
    cases t with
    | unclosed => simp [symLine] at hs
    | lit b =>
      simp only [symLine, Option.map_eq_some_iff] at hs
      obtain ⟨r, hr, rfl⟩ := hs
      obtain ⟨m, hm⟩ := ih r hr (fun n hn => hsc n (by simpa [macroNames] using hn))
      refine ⟨m, ?_⟩
      have hren : ∀ (b : Bytes), renderEsc vo (b.map Sym.byte ++ r) = b ++ renderEsc vo r := by
        intro b; induction b with
        | nil => rfl
        | cons c cs ihb => simp [renderEsc, ihb]
      simp [concatToks, hm, hren, bind, Except.bind, pure, Except.pure]
    | mac n =>
      simp only [symLine, Option.map_eq_some_iff] at hs
      obtain ⟨r, hr, rfl⟩ := hs
      obtain ⟨m, hm⟩ := ih r hr (fun k hk => hsc k (by simp [macroNames, hk]))
      obtain ⟨v2, fnd, m1, b, hcore, hsb, hvo⟩ := hsc n (by simp [macroNames])
      refine ⟨(!fnd || m1) || m, ?_⟩
      simp [concatToks, expandMacro, hcore, hm, escapeMacro_scalar v2 b hsb, Val.scalarBytes, renderEsc, hvo,
        bind, Except.bind, pure, Except.pure]

theorem internalResolve_esc (look : Bytes → Lookup) (fuel : Nat) (s : Bytes) :
    internalResolve look (fuel + 1) true s
      = (concatToks look (fun t => internalResolve look fuel false t) true (tokenize s)).map (fun r => (Val.str r.1, r.2)) := by
  simp only [internalResolve]
  split
  · next n htok =>
    simp only [htok, concatToks, expandMacro, bind, Except.bind]
    cases expandCore look (fun t => internalResolve look fuel false t) n with
    | error e => rfl
    | ok p => simp [Val.scalarBytes, Except.map, pure, Except.pure]
  · cases concatToks look (fun t => internalResolve look fuel false t) true (tokenize s) with
    | error e => rfl
    | ok p => rfl

theorem finish_commutes (vo : Bytes → Option Bytes) (s : SymSt) :
    (fillSt vo s).finish = s.finish.map (fun ws => ws.map (fillSym vo)) := by
  obtain ⟨done, cur, mode⟩ := s
  cases mode <;> cases cur <;>
    simp [fillSt, ShSt.finish, SymSt.finish, Except.map, pure, Except.pure, throw, throwThe, MonadExceptOf.throw, List.map_reverse]

/-- The byte lexer on the model's line = the template lexer on the template, values filled in. -/
theorem shWords_renderEsc (vo : Bytes → Option Bytes) (syms : List Sym) (h : UnqAtMacros {} syms) :
    shWords (renderEsc vo syms) = (symWords syms).map (fun ws => ws.map (fillSym vo)) := by
  have hsim := lexer_simulation vo syms {} h
  have h0 : fillSt vo {} = {} := rfl
  rw [h0] at hsim
  simp only [shWords, symWords, hsim, bind, Except.bind]
  cases symRun {} syms with
  | error e => rfl
  | ok s => simpa [Except.map] using finish_commutes vo s


end Icinga.C09

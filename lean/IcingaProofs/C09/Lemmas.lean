/-
  C09 — helper lemmas (lexer runs, tokeniser, cutting, folds).  Property theorems: IcingaProofs/C09.lean.
-/
import IcingaModel.C09.Model
import IcingaModel.C09.Spec

namespace Icinga.C09

/-! ### sh lexer -/

theorem shRun_append (s : ShSt) (a b : Bytes) :
    shRun s (a ++ b) = (shRun s a) >>= fun s' => shRun s' b := by
  induction a generalizing s with
  | nil => simp [shRun]
  | cons c cs ih =>
    simp only [List.cons_append, shRun]
    cases h : shStep s c with
    | error e => rfl
    | ok s' => exact ih s'

/-- Inside single quotes, the body of `EscapeShellArg v` appends exactly `v` to the current word and the
    lexer is inside single quotes again afterwards. -/
theorem shRun_escBody (done : List Bytes) (w v : Bytes) :
    shRun { done := done, cur := some w, mode := .sq } (escBody v)
      = .ok { done := done, cur := some (w ++ v), mode := .sq } := by
  induction v generalizing w with
  | nil => simp [escBody, shRun]; rfl
  | cons c cs ih =>
    by_cases hc : c = SQUOTE
    · subst hc
      have : shRun { done := done, cur := some w, mode := .sq } (escBody (SQUOTE :: cs))
          = shRun { done := done, cur := some (w ++ [SQUOTE]), mode := .sq } (escBody cs) := by
        simp [escBody, shRun, shStep, ShSt.push, SQUOTE, BSLASH, LF, bind, Except.bind, pure, Except.pure]
      rw [this, ih]
      simp
    · have : shRun { done := done, cur := some w, mode := .sq } (escBody (c :: cs))
          = shRun { done := done, cur := some (w ++ [c]), mode := .sq } (escBody cs) := by
        simp [escBody, hc, shRun, shStep, ShSt.push, bind, Except.bind, pure, Except.pure]
      rw [this, ih]
      simp

/-! ### tokeniser -/

theorem tok_text_append (acc p rest : Bytes) (hp : DOLLAR ∉ p) :
    tok false acc (p ++ DOLLAR :: rest) = .lit (acc.reverse ++ p) :: tok true [] rest := by
  induction p generalizing acc with
  | nil => simp [tok]
  | cons c cs ih =>
    have hc : c ≠ DOLLAR := fun h => hp (by simp [h])
    have hcs : DOLLAR ∉ cs := fun h => hp (by simp [h])
    simp [tok, hc, ih (c :: acc) hcs]

theorem tok_name_append (acc n rest : Bytes) (hn : DOLLAR ∉ n) :
    tok true acc (n ++ DOLLAR :: rest) = .mac (acc.reverse ++ n) :: tok false [] rest := by
  induction n generalizing acc with
  | nil => simp [tok]
  | cons c cs ih =>
    have hc : c ≠ DOLLAR := fun h => hn (by simp [h])
    have hcs : DOLLAR ∉ cs := fun h => hn (by simp [h])
    simp [tok, hc, ih (c :: acc) hcs]

/-- `p $name$ q` is cut into the literal `p`, the macro `name` and the tokens of `q`. -/
theorem tokenize_macro (p n q : Bytes) (hp : DOLLAR ∉ p) (hn : DOLLAR ∉ n) :
    tokenize (p ++ DOLLAR :: (n ++ DOLLAR :: q)) = .lit p :: .mac n :: tokenize q := by
  simp [tokenize, tok_text_append [] p _ hp, tok_name_append [] n _ hn]

theorem tok_ne_nil (m : Bool) (acc cs : Bytes) : tok m acc cs ≠ [] := by
  induction cs generalizing m acc with
  | nil => cases m <;> simp [tok]
  | cons c cs ih =>
    cases m <;> by_cases hc : c = DOLLAR <;> simp [tok, hc, ih]

theorem tok_single_lit (acc cs : Bytes) (h : tok false acc cs = [.lit []]) : acc = [] ∧ cs = [] := by
  induction cs generalizing acc with
  | nil => simpa [tok] using h
  | cons c cs ih =>
    by_cases hc : c = DOLLAR
    · subst hc
      simp only [tok, if_true] at h
      have h2 : tok true [] cs = [] := by
        have := congrArg List.tail h
        simpa using this
      exact absurd h2 (tok_ne_nil _ _ _)
    · simp only [tok, hc, if_false] at h
      have := ih (c :: acc) h
      exact absurd this.1 (by simp)

theorem tokenize_single_lit (q : Bytes) (h : tokenize q = [.lit []]) : q = [] :=
  (tok_single_lit [] q h).2

/-! ### cutting at a separator -/

theorem cutAt_spec (sep : UInt8) (l : Bytes) :
    (∀ a b, cutAt sep l = (a, some b) → l = a ++ sep :: b ∧ sep ∉ a) ∧
    (∀ a, cutAt sep l = (a, none) → a = l ∧ sep ∉ l) := by
  induction l with
  | nil => simp [cutAt]
  | cons c cs ih =>
    by_cases hc : c = sep
    · subst hc
      simp [cutAt]
    · constructor
      · intro a b h
        simp only [cutAt, hc, if_false] at h
        cases hcut : cutAt sep cs with
        | mk a' b' =>
          rw [hcut] at h
          simp only [Prod.mk.injEq] at h
          obtain ⟨rfl, rfl⟩ := h
          obtain ⟨h1, h2⟩ := ih.1 a' b hcut
          refine ⟨by rw [h1]; rfl, ?_⟩
          simp [h2, Ne.symm hc]
      · intro a h
        simp only [cutAt, hc, if_false] at h
        cases hcut : cutAt sep cs with
        | mk a' b' =>
          rw [hcut] at h
          simp only [Prod.mk.injEq] at h
          obtain ⟨rfl, rfl⟩ := h
          obtain ⟨h1, h2⟩ := ih.2 a' hcut
          refine ⟨by rw [h1], ?_⟩
          simp [h2, Ne.symm hc]

theorem cutAt_of_decomp (sep : UInt8) (pre post : Bytes) (h : sep ∉ pre) :
    cutAt sep (pre ++ sep :: post) = (pre, some post) := by
  induction pre with
  | nil => simp [cutAt]
  | cons c cs ih =>
    have hc : c ≠ sep := fun e => h (by simp [e])
    have hcs : sep ∉ cs := fun e => h (by simp [e])
    simp [cutAt, hc, ih hcs]

/-! ### specification-level formulation of the output split -/

theorem cutAt_eq (sep : UInt8) (l : Bytes) :
    cutAt sep l = (l.takeWhile (· ≠ sep), if l.contains sep then some ((l.dropWhile (· ≠ sep)).drop 1) else none) := by
  induction l with
  | nil => simp [cutAt]
  | cons c cs ih =>
    by_cases hc : c = sep
    · subst hc; simp [cutAt]
    · simp [cutAt, hc, ih, Ne.symm hc]

theorem splitLine_eq (line : Bytes) : splitLine line = (textPart line, perfPart line) := by
  unfold splitLine textPart perfPart
  rw [cutAt_eq]
  by_cases hb : BAR ∈ line
  · by_cases he : EQ ∈ (List.dropWhile (fun x => !decide (x = BAR)) line).tail
    · simp [hb, he]
    · simp [hb, he]
  · simp [hb]

def joinQuirkFrom (sep : UInt8) (acc : Bytes) (parts : List Bytes) : Bytes :=
  parts.foldl (fun acc x => if acc.isEmpty then x else acc ++ sep :: x) acc

theorem foldl_parseStep (L : List Bytes) (t p : Bytes) :
    L.foldl parseStep (t, p) = (joinQuirkFrom LF t (L.map textPart), joinQuirkFrom SPACE p (L.filterMap perfPart)) := by
  induction L generalizing t p with
  | nil => simp [joinQuirkFrom]
  | cons x xs ih =>
    simp only [List.foldl_cons, parseStep, splitLine_eq]
    cases hp : perfPart x with
    | none => simp [ih, joinQuirkFrom, appendSep, hp]
    | some pf => simp [ih, joinQuirkFrom, appendSep, hp]

theorem specState_eq (e : Int) : specState e = exitToState e := by
  unfold specState exitToState
  split <;> simp_all


end Icinga.C09

/-
  C09 — helper lemmas about where macro values come from (the resolver loop with the default resolvers).
  Property theorems: IcingaProofs/C09.lean.
-/
import IcingaProofs.C09.Lemmas

namespace Icinga.C09

theorem splitOn_no_sep (sep : UInt8) (acc n : Bytes) (h : sep ∉ n) : splitOn sep acc n = [acc.reverse ++ n] := by
  induction n generalizing acc with
  | nil => simp [splitOn]
  | cons c cs ih =>
    have hc : c ≠ sep := fun e => h (by simp [e])
    have hcs : sep ∉ cs := fun e => h (by simp [e])
    simp [splitOn, hc, ih (c :: acc) hcs]

/-- A level that has neither a custom variable nor an attribute named `n` (and `n` is not `vars`) does not
    answer the short macro `n`. -/
theorem Obj.resolve_short_none (o : Obj) (n : Bytes) (hv : assoc o.vars n = none) (ha : assoc o.attrs n = none)
    (hn : n ≠ sVars) : o.resolve n [] [n] = none := by
  simp [Obj.resolve, hv, Obj.walk, Obj.walkStep, hn, ha]

theorem resolveMacroIn_short_notFound (objs : List Obj) (n : Bytes) (hn : n ≠ sVars)
    (h : ∀ o ∈ objs, assoc o.vars n = none ∧ assoc o.attrs n = none) :
    resolveMacroIn objs n [] [n] = .notFound := by
  induction objs with
  | nil => rfl
  | cons o os ih =>
    obtain ⟨hv, ha⟩ := h o (by simp)
    simp only [resolveMacroIn, Obj.resolve_short_none o n hv ha hn]
    exact ih (fun o' ho' => h o' (by simp [ho']))

theorem undefined_levels (levels : List Obj) (n : Bytes) (h : definedOnSomeLevel levels n = false) :
    n ≠ sVars ∧ ∀ o ∈ levels, assoc o.vars n = none ∧ assoc o.attrs n = none := by
  simp only [definedOnSomeLevel, Bool.or_eq_false_iff, decide_eq_false_iff_not, List.any_eq_false] at h
  refine ⟨h.1, fun o ho => ?_⟩
  have := h.2 o ho
  simp only [Bool.or_eq_true, Option.isSome_iff_ne_none, not_or, ne_eq, Decidable.not_not] at this
  exact this

/-- The resolver loop for a short name: the given levels and the global `Vars`; the environment is not consulted. -/
theorem resolveMacroFull_short (objs : List Obj) (dflt : Defaults) (n : Bytes) (hdot : DOT ∉ n) :
    resolveMacroFull objs dflt n = resolveMacroIn (objs ++ [dflt.icinga]) n [] [n] := by
  have hs : splitOn DOT [] n = [n] := by simpa using splitOn_no_sep DOT [] n hdot
  simp only [resolveMacroFull, hs]
  cases resolveMacroIn (objs ++ [dflt.icinga]) n [] [n] <;> simp [envResolve, sEnv]

/-- A macro that is not found (and is not `$$`) resolves to Empty — escaped when asked — with the missing report. -/
theorem expandMacro_notFound (look : Bytes → Lookup) (rec : Bytes → Res) (esc : Bool) (n : Bytes) (hne : n ≠ [])
    (h : look n = .notFound) :
    expandMacro look rec esc n = .ok (if esc then Val.str (escapeMacroShellArg .empty) else .empty, true) := by
  simp [expandMacro, expandCore, h, hne, bind, Except.bind, pure, Except.pure]

/-- Once a top-level macro of a string is not found, the string — if it resolves — reports a missing macro. -/
theorem concatToks_missing (look : Bytes → Lookup) (rec : Bytes → Res) (esc : Bool) (toks : List Tok)
    (h : ∃ n ∈ macroNames toks, n ≠ [] ∧ look n = .notFound) (b : Bytes) (m : Bool)
    (hr : concatToks look rec esc toks = .ok (b, m)) : m = true := by
  induction toks generalizing b m with
  | nil => simp [macroNames] at h
  | cons t ts ih =>
    cases t with
    | lit x =>
      simp only [macroNames] at h
      simp only [concatToks, bind, Except.bind] at hr
      cases hc : concatToks look rec esc ts with
      | error e => simp [hc] at hr
      | ok p =>
        obtain ⟨b', m'⟩ := p
        simp only [hc, pure, Except.pure, Except.ok.injEq, Prod.mk.injEq] at hr
        exact hr.2 ▸ ih h b' m' hc
    | unclosed => simp [concatToks, throw, throwThe, MonadExceptOf.throw] at hr
    | mac k =>
      simp only [macroNames, List.mem_cons] at h
      obtain ⟨n, hn, hne, hnf⟩ := h
      simp only [concatToks, bind, Except.bind] at hr
      cases he : expandMacro look rec esc k with
      | error e => simp [he] at hr
      | ok p =>
        obtain ⟨v, m1⟩ := p
        simp only [he] at hr
        cases hs : v.scalarBytes with
        | none => simp [hs, throw, throwThe, MonadExceptOf.throw] at hr
        | some vb =>
          simp only [hs] at hr
          cases hc : concatToks look rec esc ts with
          | error e => simp [hc] at hr
          | ok q =>
            obtain ⟨b', m2⟩ := q
            simp only [hc, pure, Except.pure, Except.ok.injEq, Prod.mk.injEq] at hr
            rcases hn with rfl | hn
            · rw [expandMacro_notFound look rec esc n hne hnf] at he
              simp only [Except.ok.injEq, Prod.mk.injEq] at he
              rw [← hr.2, ← he.2]; rfl
            · have := ih ⟨n, hn, hne, hnf⟩ b' m2 hc
              rw [← hr.2, this]; simp

end Icinga.C09

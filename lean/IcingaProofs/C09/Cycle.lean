/-
  C09 — helper lemmas for `cycle_bounded`: a failure of the nested resolution propagates (the loop never
  swallows an error), so a custom variable from which the resolution can only go on into further such
  variables never yields a value.
-/
import IcingaProofs.C09.Lemmas

namespace Icinga.C09

def Fails {α : Type} (r : Except Err α) : Prop := ∃ e, r = .error e

theorem fails_bind {α β : Type} (x : Except Err α) (f : α → Except Err β) (h : Fails x) : Fails (x >>= f) := by
  obtain ⟨e, he⟩ := h
  exact ⟨e, by simp [he, bind, Except.bind]⟩

theorem fails_bind_of_all {α β : Type} (x : Except Err α) (f : α → Except Err β) (h : ∀ a, Fails (f a)) : Fails (x >>= f) := by
  cases x with
  | error e => exact ⟨e, rfl⟩
  | ok a => simpa [bind, Except.bind] using h a

/-- An element that fails makes the array fail (an earlier element may fail first). -/
theorem resolveElems_fails (rec : Bytes → Res) (l : List Bytes) (e : Bytes) (he : e ∈ l) (hne : e ≠ [])
    (hf : Fails (rec e)) : Fails (resolveElems rec l) := by
  induction l with
  | nil => simp at he
  | cons x xs ih =>
    simp only [resolveElems]
    by_cases hx : x = e
    · subst hx
      rw [if_neg hne]
      exact fails_bind _ _ hf
    · have hmem : e ∈ xs := by
        rcases List.mem_cons.mp he with h | h
        · exact absurd h.symm hx
        · exact h
      split
      · exact fails_bind _ _ (ih hmem)
      · apply fails_bind_of_all
        intro p
        obtain ⟨v, m1⟩ := p
        simp only
        split
        · exact ⟨_, rfl⟩
        · exact fails_bind _ _ (ih hmem)

/-- The name `n` is a custom variable whose value mentions a name of `S`: a string with a macro of `S` among
    its macros (whatever else it contains), or an array with such an element. -/
def RefersInto (look : Bytes → Lookup) (S : Bytes → Prop) (n : Bytes) : Prop :=
  n ≠ [] ∧
  ((∃ s, look n = .found (.str s) true ∧ ∃ n' ∈ macroNames (tokenize s), S n') ∨
   (∃ l, look n = .found (.arr l) true ∧ ∃ e ∈ l, e ≠ [] ∧ ∃ n' ∈ macroNames (tokenize e), S n'))

theorem expandMacro_fails (look : Bytes → Lookup) (S : Bytes → Prop) (rec : Bytes → Res)
    (hrec : ∀ s, (∃ n ∈ macroNames (tokenize s), S n) → Fails (rec s))
    (esc : Bool) (n : Bytes) (hn : RefersInto look S n) : Fails (expandMacro look rec esc n) := by
  obtain ⟨hne, h | h⟩ := hn
  · obtain ⟨s, hl, hs⟩ := h
    obtain ⟨e, he⟩ := hrec s hs
    exact ⟨e, by simp [expandMacro, expandCore, hl, hne, he, bind, Except.bind]⟩
  · obtain ⟨l, hl, x, hx, hxne, hs⟩ := h
    obtain ⟨e, he⟩ := resolveElems_fails rec l x hx hxne (hrec x hs)
    exact ⟨e, by simp [expandMacro, expandCore, hl, hne, he, bind, Except.bind]⟩

theorem concatToks_fails (look : Bytes → Lookup) (rec : Bytes → Res) (esc : Bool) (toks : List Tok)
    (h : ∃ n ∈ macroNames toks, Fails (expandMacro look rec esc n)) : Fails (concatToks look rec esc toks) := by
  induction toks with
  | nil => simp [macroNames] at h
  | cons t ts ih =>
    cases t with
    | lit b =>
      simp only [macroNames] at h
      simp only [concatToks]
      exact fails_bind _ _ (ih h)
    | unclosed => exact ⟨.unclosed, rfl⟩
    | mac m =>
      simp only [macroNames, List.mem_cons] at h
      obtain ⟨n, hn, hf⟩ := h
      simp only [concatToks]
      rcases hn with rfl | hn
      · exact fails_bind _ _ hf
      · apply fails_bind_of_all
        intro p
        obtain ⟨v, m1⟩ := p
        simp only
        split
        · exact ⟨_, rfl⟩
        · exact fails_bind _ _ (ih ⟨n, hn, hf⟩)

end Icinga.C09

/-
  C01 — helper definitions and lemmas for IcingaProofs/C01.lean.
-/
import IcingaModel.C01.Model
import IcingaModel.C01.Spec

namespace Icinga.C01

/-! ## The abstraction: "number of consecutive non-OK results since the last OK/Up" -/

/-- `Inv c s n`: concrete state `s` represents a streak of `n` non-OK results after an OK/Up. -/
def Inv (c : Cfg) (s : St) (n : Nat) : Prop :=
  (n = 0 → isOK c.kind s.state = true ∧ s.stype = .hard ∧ s.attempt = 1) ∧
  (0 < n → n < c.max → isOK c.kind s.state = false ∧ s.stype = .soft ∧ s.attempt = n) ∧
  (0 < n → c.max ≤ n → isOK c.kind s.state = false ∧ s.stype = .hard ∧ s.attempt = 1)

/-- Relation between the specification's bookkeeping and the model state. -/
def Rel (c : Cfg) (sp : SpecSt) (s : St) : Prop :=
  (sp.everOk = true → Inv c s sp.streak ∧ s.state = sp.prev) ∧
  (sp.everOk = false →
      1 ≤ s.attempt ∧ (0 < sp.streak → isOK c.kind s.state = false) ∧
      (s.stype = .soft → sp.streak ≤ s.attempt))

theorem rel_init (c : Cfg) (s0 : St) (h : 1 ≤ s0.attempt) : Rel c specInit s0 := by
  constructor
  · intro h'; simp [specInit] at h'
  · intro _; simp [specInit]; exact h

/-- An OK/Up result resets everything, whatever the state before. -/
theorem step_ok (c : Cfg) (s : St) (r : Res) (h : isOK c.kind r.state = true) :
    Inv c (stepCore c s r).1 0 := by
  simp [Inv, stepCore, nextTypeAttempt, h]

/-- A non-OK result moves the streak from `n` to `n+1`. -/
theorem step_nonok (c : Cfg) (s : St) (r : Res) (n : Nat) (hmax : 1 ≤ c.max)
    (hi : Inv c s n) (h : isOK c.kind r.state = false) :
    Inv c (stepCore c s r).1 (n + 1) := by
  obtain ⟨h0, h1, h2⟩ := hi
  rcases Nat.eq_zero_or_pos n with hn | hn
  · obtain ⟨a, b, d⟩ := h0 hn
    subst hn
    refine ⟨by omega, ?_, ?_⟩
    · intro _ hlt
      have : ¬ (1 ≥ c.max) := by omega
      simp [stepCore, nextTypeAttempt, h, a, b, this]
    · intro _ hge
      have : 1 ≥ c.max := by omega
      simp [stepCore, nextTypeAttempt, h, a, b, this]
  · by_cases hlt : n < c.max
    · obtain ⟨a, b, d⟩ := h1 hn hlt
      refine ⟨by omega, ?_, ?_⟩
      · intro _ hlt'
        have : ¬ (n + 1 ≥ c.max) := by omega
        simp [stepCore, nextTypeAttempt, h, a, b, d, this]
      · intro _ hge
        have : n + 1 ≥ c.max := by omega
        simp [stepCore, nextTypeAttempt, h, a, b, d, this]
    · obtain ⟨a, b, d⟩ := h2 hn (by omega)
      refine ⟨by omega, ?_, ?_⟩
      · intro _ hlt'; omega
      · intro _ _
        by_cases h1m : 1 ≥ c.max <;> simp [stepCore, nextTypeAttempt, h, a, b, h1m]


def runCore (c : Cfg) (s : St) (rs : List Res) : St :=
  rs.foldl (fun s r => (stepCore c s r).1) s

theorem run_nonok (c : Cfg) (hmax : 1 ≤ c.max) (tail : List Res) :
    ∀ (s : St) (n : Nat), Inv c s n → (∀ r ∈ tail, isOK c.kind r.state = false) →
      Inv c (runCore c s tail) (n + tail.length) := by
  induction tail with
  | nil => intro s n hi _; simpa [runCore] using hi
  | cons r rs ih =>
    intro s n hi hall
    have hr := hall r (by simp)
    have := ih (stepCore c s r).1 (n + 1) (step_nonok c s r n hmax hi hr)
      (fun r' hr' => hall r' (by simp [hr']))
    simpa [runCore, Nat.add_assoc, Nat.add_comm 1] using this

theorem runCore_append (c : Cfg) (s : St) (a b : List Res) :
    runCore c s (a ++ b) = runCore c (runCore c s a) b := by
  simp [runCore, List.foldl_append]

theorem stateChange_eq_proj (k : Kind) (a b : SState) :
    stateChange k a b = (proj k a != proj k b) := by
  cases k <;> cases a <;> cases b <;> decide

theorem proj_ne_of_ok (k : Kind) (a b : SState) (ha : isOK k a = true) (hb : isOK k b = false) :
    (proj k a != proj k b) = true := by
  cases k <;> cases a <;> cases b <;> simp_all [isOK, hostUp, proj, SState.toNat]

theorem proj_ne_of_ok' (k : Kind) (a b : SState) (ha : isOK k a = false) (hb : isOK k b = true) :
    (proj k a != proj k b) = true := by
  cases k <;> cases a <;> cases b <;> simp_all [isOK, hostUp, proj, SState.toNat]

theorem proj_eq_of_ok (k : Kind) (a b : SState) (ha : isOK k a = true) (hb : isOK k b = true) :
    (proj k a != proj k b) = false := by
  cases k <;> cases a <;> cases b <;> simp_all [isOK, hostUp, proj, SState.toNat]

macro "c01_crunch" : tactic =>
  `(tactic| (simp [specEvent, stepCore, eventOf, hardChangeOf, nextTypeAttempt, stateChange_eq_proj, *] <;>
             (repeat' split) <;> simp_all <;> omega))

/-- Under the abstraction the emitted event is what the property prescribes (or unconstrained). -/
theorem event_under_inv (c : Cfg) (hmax : 1 ≤ c.max) (s : St) (n : Nat) (hi : Inv c s n) (r : Res) :
    specEvent c n (if isOK c.kind r.state then 0 else n + 1) s.state r.state = none ∨
    specEvent c n (if isOK c.kind r.state then 0 else n + 1) s.state r.state = some (stepCore c s r).2 := by
  obtain ⟨h0, h1, h2⟩ := hi
  cases hok : isOK c.kind r.state
  · -- non-OK result
    rcases Nat.eq_zero_or_pos n with hn | hn
    · obtain ⟨a, b, d⟩ := h0 hn
      subst hn
      have hp := proj_ne_of_ok c.kind s.state r.state a hok
      cases hv : c.volatile <;> by_cases hm : c.max = 1 <;> c01_crunch
    · by_cases hlt : n < c.max
      · obtain ⟨a, b, d⟩ := h1 hn hlt
        cases hv : c.volatile <;> by_cases hm : n + 1 = c.max <;> c01_crunch
      · obtain ⟨a, b, d⟩ := h2 hn (by omega)
        cases hv : c.volatile <;> cases hp : (proj c.kind s.state != proj c.kind r.state) <;> c01_crunch
  · -- OK/Up result
    rcases Nat.eq_zero_or_pos n with hn | hn
    · obtain ⟨a, b, d⟩ := h0 hn
      subst hn
      have hp := proj_eq_of_ok c.kind s.state r.state a hok
      cases hv : c.volatile <;> c01_crunch
    · by_cases hlt : n < c.max
      · obtain ⟨a, b, d⟩ := h1 hn hlt
        have hp := proj_ne_of_ok' c.kind s.state r.state a hok
        cases hv : c.volatile <;> c01_crunch
      · obtain ⟨a, b, d⟩ := h2 hn (by omega)
        have hp := proj_ne_of_ok' c.kind s.state r.state a hok
        cases hv : c.volatile <;> c01_crunch


theorem nta_universal (c : Cfg) (hmax : 1 ≤ c.max) (s : St) (new : SState) :
    (isOK c.kind new = true → nextTypeAttempt c s new = (.hard, 1)) ∧
    ((nextTypeAttempt c s new).1 = .hard → (nextTypeAttempt c s new).2 = 1) ∧
    1 ≤ (nextTypeAttempt c s new).2 ∧ (nextTypeAttempt c s new).2 ≤ c.max := by
  unfold nextTypeAttempt
  cases h1 : isOK c.kind new <;> cases h2 : isOK c.kind s.state <;> cases h3 : s.stype <;> simp <;>
    (try split) <;> simp_all <;> omega

/-- Before the first OK/Up: a soft state has counted at least every non-OK result so far. -/
theorem never_ok_step (c : Cfg) (s : St) (r : Res) (k : Nat)
    (_ha : 1 ≤ s.attempt) (hs : 0 < k → isOK c.kind s.state = false) (hso : s.stype = .soft → k ≤ s.attempt)
    (hok : isOK c.kind r.state = false) :
    1 ≤ (stepCore c s r).1.attempt ∧ isOK c.kind (stepCore c s r).1.state = false ∧
    ((stepCore c s r).1.stype = .soft → k + 1 ≤ (stepCore c s r).1.attempt) ∧
    ((stepCore c s r).1.stype = .soft → (stepCore c s r).1.attempt < c.max) := by
  simp only [stepCore, nextTypeAttempt, hok]
  cases h2 : isOK c.kind s.state <;> cases h3 : s.stype <;> simp <;> (try split) <;> simp_all <;> omega

theorem step_universal (c : Cfg) (hmax : 1 ≤ c.max) (s : St) (r : Res) :
    (stepCore c s r).1.state = r.state ∧
    (isOK c.kind r.state = true → (stepCore c s r).1.stype = .hard ∧ (stepCore c s r).1.attempt = 1) ∧
    ((stepCore c s r).1.stype = .hard → (stepCore c s r).1.attempt = 1) ∧
    1 ≤ (stepCore c s r).1.attempt ∧ (stepCore c s r).1.attempt ≤ c.max := by
  have h := nta_universal c hmax s r.state
  refine ⟨rfl, ?_, h.2.1, h.2.2.1, h.2.2.2⟩
  intro hok; have := h.1 hok; simp [stepCore, this]

theorem stype_cases (t : SType) : t = .soft ∨ t = .hard := by cases t <;> simp

theorem spec_step (c : Cfg) (hmax : 1 ≤ c.max) (sp : SpecSt) (s : St) (r : Res) (hr : Rel c sp s) :
    specStep c sp r.state (obsOf c ((stepCore c s r).1, (stepCore c s r).2, true)) = none ∧
    Rel c (specNext c sp r.state) (stepCore c s r).1 := by
  obtain ⟨hT, hF⟩ := hr
  obtain ⟨u0, u1, u2, u3, u4⟩ := step_universal c hmax s r
  cases hok : isOK c.kind r.state
  · -- non-OK result
    cases hev : sp.everOk
    · obtain ⟨ha, hs, hso⟩ := hF hev
      obtain ⟨n1, n2, n3, n4⟩ := never_ok_step c s r sp.streak ha hs hso hok
      constructor
      · rcases stype_cases (stepCore c s r).1.stype with ht | ht
        · have := n3 ht; have := n4 ht
          simp [specStep, specNext, obsOf, hok, hev, u0, ht]
          (repeat' split) <;> first | rfl | omega | simp_all
        · have := u2 ht
          simp [specStep, specNext, obsOf, hok, hev, u0, ht, this]
          omega
      · constructor
        · intro h; simp [specNext, hok, hev] at h
        · intro _; simp only [specNext, hok]; exact ⟨n1, fun _ => n2, n3⟩
    · obtain ⟨hi, hprev⟩ := hT hev
      have hi' := step_nonok c s r sp.streak hmax hi hok
      have hE := event_under_inv c hmax s sp.streak hi r
      simp only [hok] at hE
      obtain ⟨i0, i1, i2⟩ := hi'
      constructor
      · by_cases hlt : sp.streak + 1 < c.max
        · obtain ⟨_, b, d⟩ := i1 (by omega) hlt
          rcases hE with hE | hE <;>
            simp [specStep, specNext, obsOf, hok, hev, u0, b, d, ← hprev, hE] <;>
            (repeat' split) <;> first | rfl | omega | simp_all
        · obtain ⟨_, b, d⟩ := i2 (by omega) (by omega)
          rcases hE with hE | hE <;>
            simp [specStep, specNext, obsOf, hok, hev, u0, b, d, ← hprev, hE] <;>
            (repeat' split) <;> first | rfl | omega | simp_all
      · constructor
        · intro _; simp only [specNext, hok]; exact ⟨⟨i0, i1, i2⟩, rfl⟩
        · intro h; simp [specNext, hok, hev] at h
  · -- OK/Up result
    obtain ⟨b, d⟩ := u1 hok
    have hi' := step_ok c s r hok
    constructor
    · cases hev : sp.everOk
      · simp [specStep, specNext, obsOf, hok, hev, u0, b, d]
        omega
      · obtain ⟨hi, hprev⟩ := hT hev
        have hE := event_under_inv c hmax s sp.streak hi r
        simp only [hok] at hE
        rcases hE with hE | hE <;>
          simp [specStep, specNext, obsOf, hok, hev, u0, b, d, ← hprev, hE] <;>
          (repeat' split) <;> first | rfl | omega | simp_all
    · constructor
      · intro _; simp only [specNext, hok]; exact ⟨hi', rfl⟩
      · intro h; simp [specNext, hok] at h


/-- Accepted results of a trace, as the specification sees them. -/
def acceptedOf : List (Res × Obs) → List (SState × Obs)
  | [] => []
  | (r, o) :: rest => if o.accepted then (r.state, o) :: acceptedOf rest else acceptedOf rest

theorem spec_trace_rel (c : Cfg) (hmax : 1 ≤ c.max) (rs : List Res) :
    ∀ (sp : SpecSt) (s : St), Rel c sp s → specTrace c sp (acceptedOf (trace c s rs)) = none := by
  induction rs with
  | nil => intro sp s _; simp [trace, acceptedOf, specTrace]
  | cons r rs ih =>
    intro sp s hr
    cases hst : stale s r
    · obtain ⟨h1, h2⟩ := spec_step c hmax sp s r hr
      simp only [trace, step, hst, acceptedOf, obsOf, Bool.false_eq_true, if_false, if_true, specTrace]
      simp only [obsOf] at h1
      rw [h1]
      exact ih _ _ h2
    · simp only [trace, step, hst, acceptedOf, obsOf, Bool.false_eq_true, if_false, if_true]
      exact ih _ _ hr

end Icinga.C01

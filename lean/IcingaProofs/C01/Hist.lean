/-
  C01 — lemmas for the hard-state bookkeeping clauses (`histStep`), dropped results (`dropStep`) and the
  whole-trace specification `specFull`.
-/
import IcingaProofs.C01.Lemmas

namespace Icinga.C01

/-- Relation between what a reader of the trace remembers and the model state. -/
def HRel (c : Cfg) (h : HistSt) (s : St) : Prop :=
  s.hist < 10000 ∧ h.lastExec = s.lastExec ∧
  (∀ lo, h.last = some lo → sameState lo (stObs c s) = true ∧
      (c.volatile = true → proj c.kind s.lastHard = proj c.kind s.state)) ∧
  (∀ x, h.hardAt = some x → projN c.kind (s.hist / 100) = some (proj c.kind x) ∧
      proj c.kind s.lastHard = proj c.kind x ∧ (c.volatile = true → proj c.kind x = proj c.kind s.state))

theorem toNat_le (s : SState) : s.toNat ≤ 3 := by cases s <;> decide

theorem ofNat_toNat (s : SState) : SState.ofNat? s.toNat = some s := by cases s <;> rfl

theorem projN_toNat (k : Kind) (s : SState) : projN k s.toNat = some (proj k s) := by
  simp [projN, ofNat_toNat]

theorem shift_mod (h t : Nat) (hh : h < 10000) : (h / 100 + t * 100) % 100 = h / 100 := by omega

theorem shift_div (h t : Nat) (hh : h < 10000) : (h / 100 + t * 100) / 100 = t := by omega

theorem proj_eq_of_ok' (k : Kind) (a b : SState) (ha : isOK k a = true) (hb : isOK k b = true) :
    proj k a = proj k b := by
  cases k <;> cases a <;> cases b <;> simp_all [isOK, hostUp, proj, SState.toNat]

/-- The shape of one step, as far as the bookkeeping clauses need it. -/
theorem stepCore_facts (c : Cfg) (s : St) (r : Res) :
    (stepCore c s r).1.state = r.state ∧ (stepCore c s r).1.lastState = s.state ∧
    (stepCore c s r).1.lastExec = some r.execStart ∧
    (((stepCore c s r).2 = .hard ∧ (stepCore c s r).1.lastHard = r.state ∧
        (stepCore c s r).1.hist = s.hist / 100 + r.state.toNat * 100) ∨
     ((stepCore c s r).2 ≠ .hard ∧ c.volatile = false ∧ (stepCore c s r).1.lastHard = s.lastHard ∧
        (stepCore c s r).1.hist = s.hist) ∨
     ((stepCore c s r).2 ≠ .hard ∧ c.volatile = true ∧ isOK c.kind s.state = true ∧ isOK c.kind r.state = true ∧
        (stepCore c s r).1.lastHard = r.state ∧ (stepCore c s r).1.hist = s.hist / 100 + r.state.toNat * 100)) := by
  refine ⟨rfl, rfl, rfl, ?_⟩
  simp only [stepCore, eventOf]
  cases hv : c.volatile <;>
    cases hc : hardChangeOf c s r.state (nextTypeAttempt c s r.state).1 <;>
    cases ho : isOK c.kind s.state <;> cases hn : isOK c.kind r.state <;> simp <;>
    (try split) <;> simp_all

theorem sameState_refl (o : Obs) : sameState o o = true := by simp [sameState]

theorem sameState_obsOf (c : Cfg) (s : St) (e1 e2 : Ev) (a1 a2 : Bool) :
    sameState (obsOf c (s, e1, a1)) (obsOf c (s, e2, a2)) = true := by simp [sameState, obsOf]

/-- One accepted result: the bookkeeping clauses hold on the model's observation and the relation is
    kept. -/
theorem hist_step (c : Cfg) (h : HistSt) (s : St) (r : Res) (hr : HRel c h s) :
    histStep c h r.state (obsOf c ((stepCore c s r).1, (stepCore c s r).2, true)) = none ∧
    HRel c (histNext h r (obsOf c ((stepCore c s r).1, (stepCore c s r).2, true))) (stepCore c s r).1 := by
  obtain ⟨hh, hle, hlast, hhard⟩ := hr
  obtain ⟨f1, f2, f3, f4⟩ := stepCore_facts c s r
  have ht := toNat_le r.state
  rcases f4 with ⟨fe, fl, fh⟩ | ⟨fe, fv, fl, fh⟩ | ⟨fe, fv, fo, fn, fl, fh⟩
  · -- hard event: both slots shift
    have hm := shift_mod s.hist r.state.toNat hh
    have hd := shift_div s.hist r.state.toNat hh
    constructor
    · simp only [histStep, obsOf, f1, f2, f3, fe, fl, fh, hm]
      cases hx : h.hardAt with
      | none => cases hl : h.last with
        | none => simp
        | some lo =>
          obtain ⟨hs, _⟩ := hlast lo hl
          simp [sameState, stObs, obsOf] at hs
          simp [hs]
      | some x =>
        obtain ⟨hp, _, _⟩ := hhard x hx
        cases hl : h.last with
        | none => simp [hp]
        | some lo =>
          obtain ⟨hs, _⟩ := hlast lo hl
          simp [sameState, stObs, obsOf] at hs
          simp [hp, hs]
    · refine ⟨by rw [fh]; omega, by simp [histNext, f3], ?_, ?_⟩
      · intro lo hlo
        simp only [histNext, Option.some.injEq] at hlo
        subst hlo
        exact ⟨sameState_obsOf c _ _ _ _ _, fun _ => by rw [fl, f1]⟩
      · intro x hx
        simp only [histNext, obsOf, fe, beq_self_eq_true, if_true, Option.some.injEq] at hx
        subst hx
        refine ⟨by rw [fh, hd]; exact projN_toNat _ _, by rw [fl], fun _ => by rw [f1]⟩
  · -- no hard event, non-volatile: nothing moves
    constructor
    · simp only [histStep, obsOf, f1, f2, f3, fl, fh, fv]
      cases hl : h.last with
      | none => simp [fe]
      | some lo =>
        obtain ⟨hs, _⟩ := hlast lo hl
        simp [sameState, stObs, obsOf] at hs
        simp [fe, hs]
    · refine ⟨by rw [fh]; exact hh, by simp [histNext, f3], ?_, ?_⟩
      · intro lo hlo
        simp only [histNext, Option.some.injEq] at hlo
        subst hlo
        exact ⟨sameState_obsOf c _ _ _ _ _, fun hv => by simp [fv] at hv⟩
      · intro x hx
        have hne : ((stepCore c s r).2 == Ev.hard) = false := by simpa using fe
        simp only [histNext, obsOf, hne, Bool.false_eq_true, if_false] at hx
        obtain ⟨a, b, _⟩ := hhard x hx
        exact ⟨by rw [fh]; exact a, by rw [fl]; exact b, fun hv => by simp [fv] at hv⟩
  · -- no hard event, volatile: OK/Up → OK/Up, the slots shift but the projected hard state stays
    have hd := shift_div s.hist r.state.toNat hh
    have hpe := proj_eq_of_ok' c.kind s.state r.state fo fn
    constructor
    · simp only [histStep, obsOf, f1, f2, f3, fl, fh, fv]
      cases hl : h.last with
      | none => simp [fe]
      | some lo =>
        obtain ⟨hs, hvol⟩ := hlast lo hl
        have hvol := hvol fv
        simp [sameState, stObs, obsOf] at hs
        simp [fe, hs, ← hpe, hvol]
    · refine ⟨by rw [fh]; omega, by simp [histNext, f3], ?_, ?_⟩
      · intro lo hlo
        simp only [histNext, Option.some.injEq] at hlo
        subst hlo
        exact ⟨sameState_obsOf c _ _ _ _ _, fun _ => by rw [fl, f1]⟩
      · intro x hx
        have hne : ((stepCore c s r).2 == Ev.hard) = false := by simpa using fe
        simp only [histNext, obsOf, hne, Bool.false_eq_true, if_false] at hx
        obtain ⟨_, _, d⟩ := hhard x hx
        have hxs := d fv
        refine ⟨by rw [fh, hd, projN_toNat, hxs, hpe], by rw [fl, hxs, hpe], fun _ => by rw [f1, hxs, hpe]⟩

/-- A dropped result satisfies `dropStep` on the model's observation. -/
theorem drop_step (c : Cfg) (h : HistSt) (s : St) (r : Res) (hr : HRel c h s) (hst : stale s r = true) :
    dropStep h r (obsOf c (s, .none, false)) = none := by
  obtain ⟨_, hle, hlast, _⟩ := hr
  have hm : mayDrop h.lastExec r.execStart = true := by
    rw [hle]
    unfold stale at hst
    cases hl : s.lastExec with
    | none => simp [hl] at hst
    | some cur =>
      simp only [hl] at hst
      by_cases hc : cur > r.now
      · simp [hc] at hst
      · simp [hc] at hst
        simp [mayDrop, hst]
  simp only [dropStep, hm, obsOf]
  cases hl : h.last with
  | none => simp
  | some lo =>
    obtain ⟨hs, _⟩ := hlast lo hl
    simp [sameState, stObs, obsOf] at hs
    simp [sameState, hs]

/-- Whole traces: from related bookkeeping the model's trace satisfies the whole specification. -/
theorem full_rel (c : Cfg) (hmax : 1 ≤ c.max) (rs : List Res) :
    ∀ (sp : SpecSt) (h : HistSt) (s : St), Rel c sp s → HRel c h s →
      specFull c sp h (trace c s rs) = none := by
  induction rs with
  | nil => intro sp h s _ _; simp [trace, specFull]
  | cons r rs ih =>
    intro sp h s hr hh
    cases hst : stale s r
    · obtain ⟨h1, h2⟩ := spec_step c hmax sp s r hr
      obtain ⟨g1, g2⟩ := hist_step c h s r hh
      have hacc : (obsOf c ((stepCore c s r).1, (stepCore c s r).2, true)).accepted = true := rfl
      simp only [trace, step, hst, Bool.false_eq_true, if_false, specFull, fullStep, hacc, if_true, h1, g1,
        Option.or]
      exact ih _ _ _ h2 g2
    · have d := drop_step c h s r hh hst
      have hacc : (obsOf c (s, Ev.none, false)).accepted = false := rfl
      simp only [trace, step, hst, if_true, specFull, fullStep, hacc, Bool.false_eq_true, if_false, d]
      exact ih _ _ _ hr hh

/-! ## Start states -/

theorem rel_start (c : Cfg) (hmax : 1 ≤ c.max) (s : St) (h : 1 ≤ s.attempt) : Rel c (specStart c s) s := by
  unfold specStart
  split
  · rename_i h1
    simp only [Bool.and_eq_true, beq_iff_eq] at h1
    obtain ⟨⟨a, b⟩, d⟩ := h1
    exact ⟨fun _ => ⟨⟨fun _ => ⟨a, b, d⟩, fun hp => by simp only at hp; omega, fun hp => by simp only at hp; omega⟩, rfl⟩,
           fun hf => by simp at hf⟩
  · split
    · rename_i _ h2
      simp only [Bool.and_eq_true, beq_iff_eq, Bool.not_eq_true', decide_eq_true_eq] at h2
      obtain ⟨⟨⟨a, b⟩, d⟩, e⟩ := h2
      exact ⟨fun _ => ⟨⟨fun hz => by simp only at hz; omega, fun _ _ => ⟨a, b, rfl⟩,
                        fun _ hge => by simp only at hge; omega⟩, rfl⟩,
             fun hf => by simp at hf⟩
    · split
      · rename_i _ _ h3
        simp only [Bool.and_eq_true, beq_iff_eq, Bool.not_eq_true'] at h3
        obtain ⟨⟨a, b⟩, d⟩ := h3
        exact ⟨fun _ => ⟨⟨fun hz => by simp only at hz; omega, fun _ hlt => by simp only at hlt; omega,
                          fun _ _ => ⟨a, b, d⟩⟩, rfl⟩,
               fun hf => by simp at hf⟩
      · exact ⟨fun hf => by simp [specInit] at hf, fun _ => by simp [specInit]; exact h⟩

theorem hrel_init (c : Cfg) (s : St) (hh : s.hist < 10000) (hl : s.lastExec = none) : HRel c histInit s :=
  ⟨hh, by simp [histInit, hl], fun lo hlo => by simp [histInit] at hlo, fun x hx => by simp [histInit] at hx⟩

theorem hrel_start (c : Cfg) (s : St) (hh : s.hist < 10000) : HRel c (histStart c s) s := by
  unfold histStart
  split
  · rename_i hk
    refine ⟨hh, rfl, ?_, ?_⟩
    · intro lo hlo
      simp only [Option.some.injEq] at hlo
      subst hlo
      refine ⟨sameState_refl _, fun hv => ?_⟩
      simpa [startKnown, hv] using hk
    · intro x hx
      simp only at hx
      split at hx
      · rename_i he
        simp only [beq_iff_eq] at he
        simp only [Option.some.injEq] at hx
        subst hx
        refine ⟨by rw [he]; exact projN_toNat _ _, rfl, fun hv => ?_⟩
        simpa [startKnown, hv] using hk
      · simp at hx
  · exact ⟨hh, rfl, fun lo hlo => by simp at hlo, fun x hx => by simp at hx⟩

end Icinga.C01

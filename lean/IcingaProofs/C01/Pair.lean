/-
  C01 — lemmas for two concurrently processed results (`specPair`).
-/
import IcingaProofs.C01.Hist

namespace Icinga.C01

theorem specNext_streak (c : Cfg) (sp : SpecSt) (x : SState) :
    (specNext c sp x).streak = if isOK c.kind x then 0 else sp.streak + 1 := by
  unfold specNext; split <;> simp

theorem specNext_prev (c : Cfg) (sp : SpecSt) (x : SState) : (specNext c sp x).prev = x := by
  unfold specNext; split <;> simp

/-- The hard flag of the model's event never contradicts the event the rule expects. -/
theorem hardBad_model (c : Cfg) (hmax : 1 ≤ c.max) (s : St) (n : Nat) (hi : Inv c s n) (r : Res) :
    hardBad (specEvent c n (if isOK c.kind r.state then 0 else n + 1) s.state r.state)
      (if (stepCore c s r).2 = .hard then 1 else 0) = false := by
  rcases event_under_inv c hmax s n hi r with h | h
  · rw [h]; by_cases he : (stepCore c s r).2 = .hard <;> simp [hardBad, he]
  · rw [h]; cases (stepCore c s r).2 <;> simp [hardBad]

theorem ite_some_none {p : Prop} [Decidable p] {a : Clause} {x : Option Clause} :
    ((if p then some a else x) = none) ↔ (¬p ∧ x = none) := by by_cases h : p <;> simp [h]

theorem ite_none_some {p : Prop} [Decidable p] {a : Clause} {x : Option Clause} :
    ((if p then x else some a) = none) ↔ (p ∧ x = none) := by by_cases h : p <;> simp [h]

/-- `specStep` reads the state, the state type, the attempt and — where the rule fixes the event — the event. -/
theorem specStep_fill (c : Cfg) (sp : SpecSt) (r : SState) (o o' : Obs)
    (h1 : o'.state = o.state) (h2 : o'.stype = o.stype) (h3 : o'.attempt = o.attempt)
    (h4 : o'.ev = (specEvent c sp.streak (specNext c sp r).streak sp.prev r).getD .none)
    (h : specStep c sp r o = none) : specStep c sp r o' = none := by
  unfold specStep at h ⊢
  simp only [h1, h2, h3, h4]
  dsimp only at h
  generalize specEvent c sp.streak (specNext c sp r).streak sp.prev r = e at h ⊢
  cases e with
  | none => simp_all
  | some v =>
    simp only [ite_some_none] at h ⊢
    obtain ⟨a1, a2, a3, a4, a5, a6, a7, _⟩ := h
    exact ⟨a1, a2, a3, a4, a5, a6, a7, by simp⟩

/-- The model's observation of a pair processed as A, then B (what an implementation that serialises
    the two calls shows when A took the object lock first). -/
def pairObsOf (c : Cfg) (s : St) (a b : Res) : PairObs :=
  let p1 := stepCore c s a
  let p2 := stepCore c p1.1 b
  { accA := true, accB := true, state := p2.1.state, stype := p2.1.stype, attempt := p2.1.attempt,
    lastHard := p2.1.lastHard, hardA := if p1.2 = .hard then 1 else 0, hardB := if p2.2 = .hard then 1 else 0 }

theorem pairOrder_model (c : Cfg) (hmax : 1 ≤ c.max) (sp : SpecSt) (s : St) (a b : Res) (hr : Rel c sp s) :
    pairOrder c sp a.state b.state (pairObsOf c s a b) (pairObsOf c s a b).hardA (pairObsOf c s a b).hardB = none := by
  obtain ⟨_, hr1⟩ := spec_step c hmax sp s a hr
  obtain ⟨hs2, _⟩ := spec_step c hmax (specNext c sp a.state) (stepCore c s a).1 b hr1
  -- the first result's hard flag
  have g1 : (sp.everOk && hardBad (specEvent c sp.streak (specNext c sp a.state).streak sp.prev a.state)
      (if (stepCore c s a).2 = .hard then 1 else 0)) = false := by
    cases hev : sp.everOk
    · simp
    · obtain ⟨hi, hp⟩ := hr.1 hev
      rw [specNext_streak, ← hp]
      simp [hardBad_model c hmax s sp.streak hi a]
  -- the second result's hard flag
  have g2 : ((specNext c sp a.state).everOk && hardBad (specEvent c (specNext c sp a.state).streak
      (specNext c (specNext c sp a.state) b.state).streak a.state b.state)
      (if (stepCore c (stepCore c s a).1 b).2 = .hard then 1 else 0)) = false := by
    cases hev : (specNext c sp a.state).everOk
    · simp
    · obtain ⟨hi, _⟩ := hr1.1 hev
      have hm := hardBad_model c hmax (stepCore c s a).1 _ hi b
      rw [specNext_streak c (specNext c sp a.state)]
      simp only [Bool.true_and]
      exact hm
  -- a hard event records the hard state
  have g3 : ((if (stepCore c (stepCore c s a).1 b).2 = .hard then 1 else 0) == 1 &&
      proj c.kind (stepCore c (stepCore c s a).1 b).1.lastHard != proj c.kind b.state) = false := by
    obtain ⟨_, _, _, f4⟩ := stepCore_facts c (stepCore c s a).1 b
    rcases f4 with ⟨fe, fl, _⟩ | ⟨fe, _⟩ | ⟨fe, _⟩
    · simp [fl]
    · simp [fe]
    · simp [fe]
  simp only [pairOrder, pairObsOf, g1, g2, g3]
  simp only [Bool.false_eq_true, if_false]
  refine specStep_fill c _ b.state (obsOf c ((stepCore c (stepCore c s a).fst b).fst, (stepCore c (stepCore c s a).fst b).snd, true)) _ rfl rfl rfl ?_ hs2
  simp [pairFinalObs, specNext_prev]

/-- The model's observation of an `X` operation through the production step (stale filter included), as the
    driver computes it. -/
def pairObsStep (c : Cfg) (s : St) (a b : Res) : PairObs :=
  let p1 := step c s a
  let p2 := step c p1.1 b
  { accA := p1.2.2, accB := p2.2.2, state := p2.1.state, stype := p2.1.stype, attempt := p2.1.attempt,
    lastHard := p2.1.lastHard, hardA := if p1.2.2 && p1.2.1 == .hard then 1 else 0,
    hardB := if p2.2.2 && p2.2.1 == .hard then 1 else 0 }

/-- The reader's streak bookkeeping after a whole trace (it advances with the accepted results). -/
def specAfter (c : Cfg) : SpecSt → List (Res × Obs) → SpecSt
  | sp, [] => sp
  | sp, (r, o) :: rest => specAfter c (if o.accepted then specNext c sp r.state else sp) rest

/-- The relation between reader and model survives every history (accepted and dropped results). -/
theorem rel_after (c : Cfg) (hmax : 1 ≤ c.max) (rs : List Res) :
    ∀ (sp : SpecSt) (s : St), Rel c sp s → Rel c (specAfter c sp (trace c s rs)) (run c s rs) := by
  induction rs with
  | nil => intro sp s hr; simpa [trace, specAfter, run] using hr
  | cons r rs ih =>
    intro sp s hr
    cases hst : stale s r
    · have := ih _ _ (spec_step c hmax sp s r hr).2
      simpa [trace, step, hst, specAfter, obsOf, run, List.foldl] using this
    · have := ih _ _ hr
      simpa [trace, step, hst, specAfter, obsOf, run, List.foldl] using this

end Icinga.C01

/-
  C14 — helper lemmas about `dumpModified` / `replayModified` (DumpModifiedAttributes and its replay):
  what a modification records, what the dump finds at a modified path, and that a modification leaves
  unrelated paths alone.
-/
import IcingaProofs.C14.Lemmas

namespace Icinga.C14

open Icinga.C20 (JValue)

variable {N : Type}

/-! ## dictionaries: lookups after `dSet` -/

theorem dGet_dInsert_self {k : Key} {d : Dict N} (v : JValue N) (h : dHas k d = false) :
    dGet? k (dInsert k v d) = some v := by
  induction d with
  | nil => simp [dInsert, dGet?]
  | cons e r ih =>
    obtain ⟨k', v'⟩ := e
    simp [dHas] at h
    unfold dInsert
    split
    · simp [dGet?]
    · simp [dGet?, h.1, ih h.2]

theorem dGet_dSet_same (k : Key) (v : JValue N) (d : Dict N) : dGet? k (dSet k v d) = some v := by
  unfold dSet
  by_cases h : dHas k d = true
  · simp [h, dGet_dReplace_self v h]
  · simp at h
    simp [h, dGet_dInsert_self v h]

theorem dGet_dReplace_ne {k k' : Key} (v : JValue N) (d : Dict N) (h : k' ≠ k) :
    dGet? k' (dReplace k v d) = dGet? k' d := by
  induction d with
  | nil => rfl
  | cons e r ih =>
    obtain ⟨a, w⟩ := e
    by_cases ha : k = a
    · subst ha
      simp [dReplace, dGet?, h]
    · by_cases hb : k' = a
      · simp [dReplace, dGet?, ha, hb]
      · simp [dReplace, dGet?, ha, hb, ih]

theorem dGet_dInsert_ne {k k' : Key} (v : JValue N) (d : Dict N) (h : k' ≠ k) :
    dGet? k' (dInsert k v d) = dGet? k' d := by
  induction d with
  | nil => simp [dInsert, dGet?, h]
  | cons e r ih =>
    obtain ⟨a, w⟩ := e
    unfold dInsert
    split
    · simp [dGet?, h]
    · by_cases hb : k' = a
      · simp [dGet?, hb]
      · simp [dGet?, hb, ih]

theorem dGet_dSet_ne {k k' : Key} (v : JValue N) (d : Dict N) (h : k' ≠ k) :
    dGet? k' (dSet k v d) = dGet? k' d := by
  unfold dSet
  split
  · exact dGet_dReplace_ne v d h
  · exact dGet_dInsert_ne v d h

/-! ## the dump's walk -/

theorem dumpIn_single (k : Key) (kvs : Dict N) : dumpIn [k] (.obj kvs) = dGet? k kvs := by
  simp [dumpIn, walkDump]

theorem dumpIn_cons_cons (k k2 : Key) (ks : Path) (kvs : Dict N) :
    dumpIn (k :: k2 :: ks) (.obj kvs) =
      match dGet? k kvs with
      | some c => dumpIn (k2 :: ks) c
      | none => dumpIn [(k2 :: ks).getLast (by simp)] (.obj kvs) := by
  cases h : dGet? k kvs with
  | some c => simp [dumpIn, walkDump, h, List.dropLast, List.getLast?_cons_cons]
  | none =>
    simp [dumpIn, walkDump, h, List.dropLast, List.getLast?_cons_cons, List.getLast?_eq_getLast]

/-- What a successful nested modification wrote is what the dump finds at that path. -/
theorem dumpIn_setDeep (toks : Path) :
    ∀ (pre : Path) (cur v cur' : JValue N) (orig orig' : Orig N), toks ≠ [] →
      setDeep pre toks cur v orig = .ok (cur', orig') → dumpIn toks cur' = some v := by
  induction toks with
  | nil => intro _ _ _ _ _ _ h; exact absurd rfl h
  | cons k ks ih =>
    intro pre cur v cur' orig orig' _ hset
    cases ks with
    | nil =>
      cases cur with
      | obj kvs =>
        simp [setDeep] at hset
        rw [← hset.1, dumpIn_single, dGet_dSet_same]
      | null => simp [setDeep] at hset
      | bool _ => simp [setDeep] at hset
      | num _ => simp [setDeep] at hset
      | str _ => simp [setDeep] at hset
      | arr _ => simp [setDeep] at hset
    | cons k2 ks' =>
      cases cur with
      | obj kvs =>
        simp only [setDeep] at hset
        split at hset
        · cases hset
        · rename_i c' o' hrec
          simp at hset
          rw [← hset.1, dumpIn_cons_cons, dGet_dSet_same]
          exact ih _ _ _ _ _ _ (by simp) hrec
      | null => simp [setDeep] at hset
      | bool _ => simp [setDeep] at hset
      | num _ => simp [setDeep] at hset
      | str _ => simp [setDeep] at hset
      | arr _ => simp [setDeep] at hset

/-- `DumpModifiedAttributes` reports, for a path that was just modified successfully, the new value. -/
theorem dumpEntry_modify {o o1 : Obj N} {p : Path} {v : JValue N} (h : modify o p v = .ok o1) :
    dumpEntry o1.fields p = some (p, v) := by
  cases p with
  | nil => simp [modify] at h
  | cons f rest =>
    simp only [modify] at h
    cases hf : dGet? f o.fields with
    | none => simp [hf] at h
    | some old =>
      simp only [hf] at h
      cases rest with
      | nil =>
        simp at h
        subst h
        simp [dumpEntry, dGet_dSet_same]
      | cons k ks =>
        simp only at h
        split at h
        · cases h
        · rename_i nv orig' hset
          simp at h
          subst h
          have := dumpIn_setDeep (k :: ks) _ _ _ _ _ _ (by simp) hset
          simp [dumpEntry, dGet_dSet_same, this]

theorem getIn_setDeep (toks : Path) :
    ∀ (pre : Path) (cur v cur' : JValue N) (orig orig' : Orig N), toks ≠ [] →
      setDeep pre toks cur v orig = .ok (cur', orig') → getIn toks cur' = some v := by
  induction toks with
  | nil => intro _ _ _ _ _ _ h; exact absurd rfl h
  | cons k ks ih =>
    intro pre cur v cur' orig orig' _ hset
    cases ks with
    | nil =>
      cases cur with
      | obj kvs =>
        simp [setDeep] at hset
        rw [← hset.1]
        simp [getIn, dGet_dSet_same]
      | null => simp [setDeep] at hset
      | bool _ => simp [setDeep] at hset
      | num _ => simp [setDeep] at hset
      | str _ => simp [setDeep] at hset
      | arr _ => simp [setDeep] at hset
    | cons k2 ks' =>
      cases cur with
      | obj kvs =>
        simp only [setDeep] at hset
        split at hset
        · cases hset
        · rename_i c' o' hrec
          simp at hset
          rw [← hset.1]
          simp only [getIn, dGet_dSet_same]
          exact ih _ _ _ _ _ _ (by simp) hrec
      | null => simp [setDeep] at hset
      | bool _ => simp [setDeep] at hset
      | num _ => simp [setDeep] at hset
      | str _ => simp [setDeep] at hset
      | arr _ => simp [setDeep] at hset

/-- After a successful modification the path holds the new value. -/
theorem getPath_modify {o o1 : Obj N} {p : Path} {v : JValue N} (h : modify o p v = .ok o1) :
    getPath o1.fields p = some v := by
  cases p with
  | nil => simp [modify] at h
  | cons f rest =>
    simp only [modify] at h
    cases hf : dGet? f o.fields with
    | none => simp [hf] at h
    | some old =>
      simp only [hf] at h
      cases rest with
      | nil =>
        simp at h
        subst h
        simp [getPath, dGet_dSet_same, getIn]
      | cons k ks =>
        simp only at h
        split at h
        · cases h
        · rename_i nv orig' hset
          simp at h
          subst h
          have := getIn_setDeep (k :: ks) _ _ _ _ _ _ (by simp) hset
          simp [getPath, dGet_dSet_same, this]

/-! ## what a modification records -/

/-- Under the hypotheses of `modify_restore_partial` the modification succeeds and records exactly one
    original entry, `p ↦ old`. -/
theorem modify_records (o : Obj N) (p : Path) (v old : JValue N)
    (hex : getPath o.fields p = some old)
    (hleaf : p.length = 1 ∨ isDict old = false) :
    ∃ nf, modify o p v = .ok { fields := nf, original := some (oAdd p old (origOf o)) } := by
  cases p with
  | nil => simp [getPath] at hex
  | cons f rest =>
    simp only [getPath] at hex
    cases hf : dGet? f o.fields with
    | none => simp [hf] at hex
    | some cur =>
      simp only [hf] at hex
      cases rest with
      | nil =>
        simp [getIn] at hex
        subst hex
        exact ⟨dSet f cur o.fields |> fun _ => dSet f v o.fields, by simp [modify, hf]⟩
      | cons k ks =>
        have hleaf' : isDict old = false := by
          rcases hleaf with h | h
          · simp at h
          · exact h
        have hne : isEmptyVal cur = false := isEmptyVal_false_of_getIn hex
        obtain ⟨cur', hset, _, _⟩ := setDeep_restoreDeep (k :: ks) [f] cur old v (origOf o) (by simp) hex hleaf'
        have : [f] ++ k :: ks = f :: k :: ks := rfl
        rw [this] at hset
        exact ⟨dSet f cur' o.fields, by simp [modify, hf, hne, hset]⟩

/-! ## frame: a modification leaves unrelated paths alone -/

/-- Neither path is a (token-wise) prefix of the other. -/
def Unrel (p q : Path) : Prop := isPrefix p q = false ∧ isPrefix q p = false

theorem Unrel.symm {p q : Path} (h : Unrel p q) : Unrel q p := ⟨h.2, h.1⟩

theorem unrel_cons_same {k : Key} {a b : Path} (h : Unrel (k :: a) (k :: b)) : Unrel a b := by
  obtain ⟨h1, h2⟩ := h
  simp [isPrefix] at h1 h2
  exact ⟨h1, h2⟩

theorem getIn_dSet_ne {k k' : Key} (rs : Path) (v : JValue N) (kvs : Dict N) (h : k' ≠ k) :
    getIn (k' :: rs) (.obj (dSet k v kvs)) = getIn (k' :: rs) (.obj kvs) := by
  simp [getIn, dGet_dSet_ne v kvs h]

theorem dumpIn_dSet_ne {k k' : Key} (rs : Path) (v : JValue N) (kvs : Dict N) (h : k' ≠ k)
    (hk : dGet? k' kvs ≠ none) :
    dumpIn (k' :: rs) (.obj (dSet k v kvs)) = dumpIn (k' :: rs) (.obj kvs) := by
  cases rs with
  | nil => simp [dumpIn_single, dGet_dSet_ne v kvs h]
  | cons r2 rs' =>
    rw [dumpIn_cons_cons, dumpIn_cons_cons, dGet_dSet_ne v kvs h]
    cases hc : dGet? k' kvs with
    | none => exact absurd hc hk
    | some c => rfl

/-- The nested walk: a successful `setDeep` along an existing path changes neither the value nor what
    the dump finds at any path unrelated to it that exists. -/
theorem setDeep_frame (toks : Path) :
    ∀ (pre : Path) (cur old v cur' : JValue N) (orig orig' : Orig N), getIn toks cur = some old →
      setDeep pre toks cur v orig = .ok (cur', orig') →
      ∀ (r : Path) (x : JValue N), Unrel toks r → getIn r cur = some x →
        getIn r cur' = some x ∧ dumpIn r cur' = dumpIn r cur := by
  induction toks with
  | nil =>
    intro _ _ _ _ _ _ _ _ _ r _ hu _
    simp [Unrel, isPrefix] at hu
  | cons k ks ih =>
    intro pre cur old v cur' orig orig' hget hset r x hu hx
    cases r with
    | nil => simp [Unrel, isPrefix] at hu
    | cons k' rs =>
      cases cur with
      | obj kvs =>
        have hk'ne : dGet? k' kvs ≠ none := by
          intro hn
          simp [getIn, hn] at hx
        cases ks with
        | nil =>
          have hne : k' ≠ k := by
            intro heq
            subst heq
            simp [Unrel, isPrefix] at hu
          simp [setDeep] at hset
          rw [← hset.1]
          exact ⟨by rw [getIn_dSet_ne rs v kvs hne]; exact hx, dumpIn_dSet_ne rs v kvs hne hk'ne⟩
        | cons k2 ks' =>
          simp only [getIn] at hget
          cases hk : dGet? k kvs with
          | none => simp [hk] at hget
          | some c =>
            simp only [hk] at hget
            simp only [setDeep, hk] at hset
            split at hset
            · cases hset
            · rename_i c' o' hrec
              simp at hset
              rw [← hset.1]
              by_cases hne : k' = k
              · subst hne
                have hu' : Unrel (k2 :: ks') rs := unrel_cons_same hu
                cases rs with
                | nil => simp [Unrel, isPrefix] at hu'
                | cons r2 rs' =>
                  have hx' : getIn (r2 :: rs') c = some x := by simpa [getIn, hk] using hx
                  obtain ⟨h1, h2⟩ := ih _ c old v c' orig o' hget hrec (r2 :: rs') x hu' hx'
                  refine ⟨by simp [getIn, dGet_dSet_same, h1], ?_⟩
                  rw [dumpIn_cons_cons, dumpIn_cons_cons, dGet_dSet_same, hk]
                  exact h2
              · exact ⟨by rw [getIn_dSet_ne rs c' kvs hne]; exact hx, dumpIn_dSet_ne rs c' kvs hne hk'ne⟩
      | null => simp [getIn] at hx
      | bool _ => simp [getIn] at hx
      | num _ => simp [getIn] at hx
      | str _ => simp [getIn] at hx
      | arr _ => simp [getIn] at hx

theorem dumpEntry_congr {f : Key} {rs : Path} {fa fb : Dict N} (hne : rs ≠ [])
    (h : ∀ cv, dGet? f fb = some cv → ∃ cv', dGet? f fa = some cv' ∧ dumpIn rs cv' = dumpIn rs cv)
    (hn : dGet? f fb = none → dGet? f fa = none) :
    dumpEntry fa (f :: rs) = dumpEntry fb (f :: rs) := by
  cases rs with
  | nil => exact absurd rfl hne
  | cons k ks =>
    cases hb : dGet? f fb with
    | none => simp [dumpEntry, hb, hn hb]
    | some cv =>
      obtain ⟨cv', ha, hd⟩ := h cv hb
      simp [dumpEntry, hb, ha, hd]

/-- A successful modification of an existing path leaves every existing unrelated path with its value
    and with what the dump reports for it. -/
theorem modify_frame {o o1 : Obj N} {p : Path} {v old : JValue N} (hex : getPath o.fields p = some old)
    (h : modify o p v = .ok o1) (r : Path) (x : JValue N) (hu : Unrel p r) (hx : getPath o.fields r = some x) :
    getPath o1.fields r = some x ∧ dumpEntry o1.fields r = dumpEntry o.fields r := by
  cases p with
  | nil => simp [getPath] at hex
  | cons f rest =>
    cases r with
    | nil => simp [getPath] at hx
    | cons g rs =>
      simp only [getPath] at hex hx
      simp only [modify] at h
      cases hf : dGet? f o.fields with
      | none => simp [hf] at hex
      | some cur =>
        simp only [hf] at hex h
        cases hg : dGet? g o.fields with
        | none => simp [hg] at hx
        | some gv =>
          simp only [hg] at hx
          by_cases hne : g = f
          · subst hne
            have hgv : gv = cur := by rw [hf] at hg; exact (Option.some.inj hg).symm
            subst hgv
            have hu' : Unrel rest rs := unrel_cons_same hu
            cases rest with
            | nil => simp [Unrel, isPrefix] at hu'
            | cons k ks =>
              cases rs with
              | nil => simp [Unrel, isPrefix] at hu'
              | cons r2 rs' =>
                have hne' : isEmptyVal gv = false := isEmptyVal_false_of_getIn hex
                simp only [hne'] at h
                split at h
                · cases h
                · rename_i nv orig' hset
                  simp at h
                  subst h
                  obtain ⟨h1, h2⟩ := setDeep_frame (k :: ks) [g] gv old v nv _ orig' hex (by simpa using hset) (r2 :: rs') x hu' hx
                  refine ⟨by simp [getPath, dGet_dSet_same, h1], ?_⟩
                  apply dumpEntry_congr (by simp)
                  · intro cv hcv
                    rw [hf] at hcv
                    cases hcv
                    exact ⟨nv, dGet_dSet_same _ _ _, h2⟩
                  · intro hn; rw [hf] at hn; cases hn
          · -- another field: untouched
            have hfields : ∀ nv, dGet? g (dSet f nv o.fields) = some gv := fun nv => by
              rw [dGet_dSet_ne nv o.fields hne]; exact hg
            have key : ∀ nv orig', o1 = { fields := dSet f nv o.fields, original := orig' } →
                getPath o1.fields (g :: rs) = some x ∧ dumpEntry o1.fields (g :: rs) = dumpEntry o.fields (g :: rs) := by
              intro nv orig' ho
              subst ho
              refine ⟨by simp [getPath, hfields nv, hx], ?_⟩
              cases rs with
              | nil => simp [dumpEntry, hfields nv, hg]
              | cons r2 rs' => simp [dumpEntry, hfields nv, hg]
            cases rest with
            | nil =>
              simp at h
              exact key v _ h.symm
            | cons k ks =>
              simp only at h
              split at h
              · cases h
              · rename_i nv orig' hset
                simp at h
                exact key nv _ h.symm

/-! ## original_attributes in key order -/

theorem oInsert_append {p : Path} (v : JValue N) {orig : Orig N}
    (h : ∀ e ∈ orig, keyLt (joinPath p) (joinPath e.1) = false) : oInsert p v orig = orig ++ [(p, v)] := by
  induction orig with
  | nil => rfl
  | cons e r ih =>
    obtain ⟨q, w⟩ := e
    have hq := h (q, w) (by simp)
    simp only at hq
    simp [oInsert, hq, ih (fun e he => h e (by simp [he]))]

/-! ## applying a list of modifications -/

/-- All modifications in order; `none` as soon as one throws. -/
def applyAll : Obj N → List (Path × JValue N) → Option (Obj N)
  | o, [] => some o
  | o, (p, v) :: r =>
    match modify o p v with
    | .ok o' => applyAll o' r
    | .error _ => none

theorem replay_of_applyAll : ∀ (ms : List (Path × JValue N)) (o o' : Obj N),
    applyAll o ms = some o' → replayModified o ms = o' := by
  intro ms
  induction ms with
  | nil => intro o o' h; simpa [applyAll, replayModified] using h
  | cons e r ih =>
    intro o o' h
    obtain ⟨p, v⟩ := e
    simp only [applyAll] at h
    cases hm : modify o p v with
    | error e => simp [hm] at h
    | ok o1 =>
      simp only [hm] at h
      simp [replayModified, hm, ih o1 o' h]

theorem filterMap_dump {fields : Dict N} : ∀ (done : List (Path × JValue N)) (orig : Orig N),
    orig.map Prod.fst = done.map Prod.fst → (∀ e ∈ done, dumpEntry fields e.1 = some e) →
    orig.filterMap (fun e => dumpEntry fields e.1) = done := by
  intro done
  induction done with
  | nil =>
    intro orig h _
    cases orig with
    | nil => rfl
    | cons _ _ => simp at h
  | cons d ds ih =>
    intro orig h hall
    cases orig with
    | nil => simp at h
    | cons a as =>
      simp at h
      have hd := hall d (by simp)
      rw [← h.1] at hd
      simp [List.filterMap_cons, hd, ih as h.2 (fun e he => hall e (by simp [he]))]

/-- The invariant behind `modifications_survive_restart`, over the modifications still to be made. -/
theorem dump_after_mods : ∀ (rest done : List (Path × JValue N)) (s : Obj N),
    (origOf s).map Prod.fst = done.map Prod.fst →
    (∀ e ∈ done, dumpEntry s.fields e.1 = some e ∧ ∃ x, getPath s.fields e.1 = some x) →
    (∀ e ∈ rest, ∃ old, getPath s.fields e.1 = some old ∧ (e.1.length = 1 ∨ isDict old = false)) →
    (∀ e ∈ rest, ∀ d ∈ done, Unrel e.1 d.1 ∧ keyLt (joinPath e.1) (joinPath d.1) = false) →
    rest.Pairwise (fun a b => Unrel a.1 b.1 ∧ keyLt (joinPath b.1) (joinPath a.1) = false) →
    ∃ s', applyAll s rest = some s' ∧ dumpModified s' = done ++ rest := by
  intro rest
  induction rest with
  | nil =>
    intro done s hkeys hdump _ _ _
    refine ⟨s, rfl, ?_⟩
    simp [dumpModified, filterMap_dump done (origOf s) hkeys (fun e he => (hdump e he).1)]
  | cons m rest' ih =>
    intro done s hkeys hdump hex hside hpw
    obtain ⟨q, w⟩ := m
    obtain ⟨old, hq, hleaf⟩ := hex (q, w) (by simp)
    simp only at hq hleaf
    obtain ⟨nf, hmod⟩ := modify_records s q w old hq hleaf
    have hsideq := hside (q, w) (by simp)
    have hnot : oHas q (origOf s) = false := by
      apply oHas_false_of_fresh
      intro e he
      have : e.1 ∈ (origOf s).map Prod.fst := List.mem_map_of_mem he
      rw [hkeys] at this
      obtain ⟨d, hd, hde⟩ := List.mem_map.mp this
      rw [← hde]
      exact (hsideq d hd).1.1
    have happ : oAdd q old (origOf s) = origOf s ++ [(q, old)] := by
      simp only [oAdd, hnot]
      apply oInsert_append
      intro e he
      have : e.1 ∈ (origOf s).map Prod.fst := List.mem_map_of_mem he
      rw [hkeys] at this
      obtain ⟨d, hd, hde⟩ := List.mem_map.mp this
      rw [← hde]
      exact (hsideq d hd).2
    rw [happ] at hmod
    rw [List.pairwise_cons] at hpw
    obtain ⟨hhead, htail⟩ := hpw
    obtain ⟨s', happly, hdumpS⟩ := ih (done ++ [(q, w)]) { fields := nf, original := some (origOf s ++ [(q, old)]) }
      (by
        show (origOf s ++ [(q, old)]).map Prod.fst = (done ++ [(q, w)]).map Prod.fst
        rw [List.map_append, List.map_append, hkeys]
        rfl)
      (by
        intro e he
        simp at he
        rcases he with he | rfl
        · obtain ⟨hd, x, hx⟩ := hdump e he
          obtain ⟨h1, h2⟩ := modify_frame hq hmod e.1 x (hsideq e he).1 hx
          exact ⟨by rw [h2]; exact hd, x, h1⟩
        · exact ⟨dumpEntry_modify hmod, w, getPath_modify hmod⟩)
      (by
        intro e he
        obtain ⟨o', ho', hl'⟩ := hex e (by simp [he])
        obtain ⟨h1, _⟩ := modify_frame hq hmod e.1 o' (hhead e he).1 ho'
        exact ⟨o', h1, hl'⟩)
      (by
        intro e he d hd
        simp at hd
        rcases hd with hd | rfl
        · exact hside e (by simp [he]) d hd
        · exact ⟨(hhead e he).1.symm, (hhead e he).2⟩)
      htail
    refine ⟨s', ?_, ?_⟩
    · simp [applyAll, hmod, happly]
    · simpa using hdumpS

end Icinga.C14

/-
  C14 — helper lemmas for the state-file round trip.
-/
import IcingaModel.C14.Serial
import IcingaModel.C14.Spec
import IcingaProofs.C14.Lemmas
import IcingaProofs.C20

namespace Icinga.C14

open Icinga.C20 (JValue NumCodec Bytes jsonEncode jsonDecode jsonDecodeL json_roundtrip depth jsonMaxNestingDepth)

variable {N : Type}

mutual
theorem serialize_eq : (v : JValue N) → serialize v = v
  | .arr xs => by simp [serialize, serializeL_eq xs]
  | .obj kvs => by simp [serialize, serializeM_eq kvs]
  | .null => rfl
  | .bool _ => rfl
  | .num _ => rfl
  | .str _ => rfl
theorem serializeL_eq : (xs : List (JValue N)) → serializeL xs = xs
  | [] => rfl
  | x :: xs => by simp [serializeL, serialize_eq x, serializeL_eq xs]
theorem serializeM_eq : (kvs : Dict N) → serializeM kvs = kvs
  | [] => rfl
  | (k, v) :: r => by simp [serializeM, serialize_eq v, serializeM_eq r]
end

mutual
theorem deserialize_eq (known : Key → Bool) : (v : JValue N) → onlyKnownTypes known v = true → deserialize known v = v
  | .arr xs, h => by
    simp [onlyKnownTypes] at h
    simp [deserialize, deserializeL_eq known xs h]
  | .obj kvs, h => by
    simp only [onlyKnownTypes, Bool.and_eq_true] at h
    obtain ⟨h1, h2⟩ := h
    have hm := deserializeM_eq known kvs h2
    unfold deserialize
    by_cases ht : dHas typeKey kvs = true
    · simp only [ht, if_true] at h1 ⊢
      split at h1
      · rename_i s hs
        simp [hs, h1, hm]
      · cases h1
    · simp [ht, hm]
  | .null, _ => rfl
  | .bool _, _ => rfl
  | .num _, _ => rfl
  | .str _, _ => rfl
theorem deserializeL_eq (known : Key → Bool) : (xs : List (JValue N)) → onlyKnownTypesL known xs = true → deserializeL known xs = xs
  | [], _ => rfl
  | x :: xs, h => by
    simp [onlyKnownTypesL] at h
    simp [deserializeL, deserialize_eq known x h.1, deserializeL_eq known xs h.2]
theorem deserializeM_eq (known : Key → Bool) : (kvs : Dict N) → onlyKnownTypesM known kvs = true → deserializeM known kvs = kvs
  | [], _ => rfl
  | (k, v) :: r, h => by
    simp [onlyKnownTypesM] at h
    simp [deserializeM, deserialize_eq known v h.1, deserializeM_eq known r h.2]
end

/-! ## DeserializeObject onto a fresh object -/

theorem dHas_append (k : Key) (a b : Dict N) : dHas k (a ++ b) = (dHas k a || dHas k b) := by
  induction a with
  | nil => simp [dHas]
  | cons e r ih =>
    obtain ⟨k', v'⟩ := e
    simp [dHas, ih, Bool.or_assoc]

theorem dReplace_append_of_not_has (k : Key) (v : JValue N) (a b : Dict N) (h : dHas k a = false) :
    dReplace k v (a ++ b) = a ++ dReplace k v b := by
  induction a with
  | nil => rfl
  | cons e r ih =>
    obtain ⟨k', v'⟩ := e
    simp [dHas] at h
    simp [dReplace, h.1, ih h.2]

theorem dHas_eq_false_of_not_mem_keys (k : Key) (d : Dict N) (h : k ∉ d.map Prod.fst) : dHas k d = false := by
  induction d with
  | nil => rfl
  | cons e r ih =>
    obtain ⟨k', v'⟩ := e
    simp at h
    simp [dHas, h.1, ih (by simpa using h.2)]

theorem restoreFields_aux (known : Key → Bool) :
    ∀ (fs fr pre : Dict N), fr.map Prod.fst = fs.map Prod.fst → (fs.map Prod.fst).Nodup →
      (∀ e ∈ fs, e.1 ≠ [] ∧ dHas e.1 pre = false ∧ deserialize known e.2 = e.2) →
      restoreFields known (pre ++ fr) fs = pre ++ fs := by
  intro fs
  induction fs with
  | nil =>
    intro fr pre hk _ _
    cases fr with
    | nil => simp [restoreFields]
    | cons _ _ => simp at hk
  | cons e fs' ih =>
    intro fr pre hk hnd hall
    obtain ⟨k, v⟩ := e
    cases fr with
    | nil => simp at hk
    | cons e' fr' =>
      obtain ⟨k', w⟩ := e'
      simp at hk
      obtain ⟨hkk, hk'⟩ := hk
      subst hkk
      have hkv := hall (k', v) (by simp)
      simp at hnd
      obtain ⟨hnotin, hnd'⟩ := hnd
      have hacc : fieldAccepted k' (pre ++ (k', w) :: fr') = true := by
        simp [fieldAccepted, hkv.1, dHas_append, dHas]
      have hrep : dReplace k' (deserialize known v) (pre ++ (k', w) :: fr') = (pre ++ [(k', v)]) ++ fr' := by
        rw [dReplace_append_of_not_has _ _ _ _ hkv.2.1, hkv.2.2]
        simp [dReplace]
      have := ih fr' (pre ++ [(k', v)]) hk' hnd' (by
        intro e he
        have h0 := hall e (by simp [he])
        refine ⟨h0.1, ?_, h0.2.2⟩
        have hne : e.1 ≠ k' := by
          intro heq
          have hmem : (k', e.2) ∈ fs' := by rw [← heq]; exact he
          exact hnotin e.2 hmem
        simp [dHas_append, h0.2.1, dHas, hne])
      simp only [restoreFields, List.foldl_cons] at this ⊢
      simp only [hacc, if_true, hrep]
      simpa using this

theorem restoreFields_serialized (known : Key → Bool) (o : SObj N) (fr : Dict N)
    (hnd : (o.fields.map Prod.fst).Nodup)
    (hall : ∀ e ∈ o.fields, e.1 ≠ [] ∧ e.1 ≠ typeKey ∧ onlyKnownTypes known e.2 = true)
    (hk : fr.map Prod.fst = o.fields.map Prod.fst) :
    restoreFields known fr (serializeM o.fields ++ [(typeKey, .str o.typeName)]) = o.fields := by
  rw [serializeM_eq]
  have h1 := restoreFields_aux known o.fields fr [] hk hnd (by
    intro e he
    have := hall e he
    exact ⟨this.1, rfl, deserialize_eq known e.2 this.2.2⟩)
  simp only [List.nil_append] at h1
  have hty : dHas typeKey o.fields = false := by
    apply dHas_eq_false_of_not_mem_keys
    intro hmem
    simp at hmem
    obtain ⟨v, hv⟩ := hmem
    exact (hall (typeKey, v) hv).2.1 rfl
  unfold restoreFields at h1 ⊢
  rw [List.foldl_append, h1]
  simp [fieldAccepted, hty]

theorem restoreMessage_frameBody (c : NumCodec N) (hc : c.Lawful) (known : Key → Bool) (o fresh : SObj N)
    (hnd : (o.fields.map Prod.fst).Nodup)
    (hall : ∀ e ∈ o.fields, e.1 ≠ [] ∧ e.1 ≠ typeKey ∧ onlyKnownTypes known e.2 = true)
    (hk : fresh.fields.map Prod.fst = o.fields.map Prod.fst)
    (hd : depth (persistent o) ≤ jsonMaxNestingDepth) :
    restoreMessage c known fresh (frameBody c o) = some { fresh with fields := o.fields } := by
  unfold restoreMessage frameBody
  rw [json_roundtrip c hc _ hd]
  simp only [persistent, serializeObject]
  have hu : dGet? updateKey [(nameKey, JValue.str o.name), (typeKey, JValue.str o.typeName),
        (updateKey, JValue.obj (serializeM o.fields ++ [(typeKey, JValue.str o.typeName)]))]
      = some (JValue.obj (serializeM o.fields ++ [(typeKey, JValue.str o.typeName)])) := by
    simp [dGet?, updateKey, nameKey, typeKey]
  rw [hu]
  simp only []
  rw [restoreFields_serialized known o fresh.fields hnd hall hk]

/-! ## the pinned attributes (Spec.lean) -/

theorem dGet_of_dHas {k : Key} {d : Dict N} (h : dHas k d = true) : ∃ v, dGet? k d = some v := by
  induction d with
  | nil => simp [dHas] at h
  | cons e r ih =>
    obtain ⟨k', v'⟩ := e
    simp only [dHas, Bool.or_eq_true, decide_eq_true_eq] at h
    by_cases hk : k = k'
    · exact ⟨v', by simp [dGet?, hk]⟩
    · rcases h with h | h
      · exact absurd h hk
      · obtain ⟨v, hv⟩ := ih h
        exact ⟨v, by simp [dGet?, hk, hv]⟩

theorem specRestartPinned_self [DecidableEq N] (t : Key) (fields : Dict N)
    (hinv : ∀ a ∈ pinnedState t, dHas a fields = true) : specRestartPinned t fields fields = none := by
  unfold specRestartPinned
  split
  · rfl
  · split
    · rfl
    · rename_i hne
      exfalso
      apply hne
      rw [List.all_eq_true]
      intro a ha
      obtain ⟨v, hv⟩ := dGet_of_dHas (hinv a ha)
      simp [hv]

/-! ## typed objects inside values (getter view) -/

theorem dHas_stripTagM (k : Key) : (r : Dict N) → dHas objectTag r = false → dHas k (stripTagM r) = dHas k r
  | [], _ => rfl
  | (k', v) :: r, h => by
    simp [dHas] at h
    have hne : ¬ k' = objectTag := fun e => h.1 e.symm
    simp [stripTagM, hne, dHas, dHas_stripTagM k r h.2]

theorem dGet_stripTagM (k : Key) : (r : Dict N) → dHas objectTag r = false →
    dGet? k (stripTagM r) = (dGet? k r).map stripTag
  | [], _ => rfl
  | (k', v) :: r, h => by
    simp [dHas] at h
    have hne : ¬ k' = objectTag := fun e => h.1 e.symm
    simp only [stripTagM, hne, if_false, dGet?]
    by_cases hk : k = k'
    · simp [hk]
    · simp [hk, dGet_stripTagM k r h.2]

theorem dHas_of_dGet_some {k : Key} : (d : Dict N) → {v : JValue N} → dGet? k d = some v → dHas k d = true
  | [], _, h => by simp [dGet?] at h
  | (k', v') :: r, v, h => by
    by_cases hk : k = k'
    · simp [dHas, hk]
    · simp [dGet?, hk] at h
      simp [dHas, hk, dHas_of_dGet_some r h]

mutual
theorem typed_roundtrip_aux (known : Key → Bool) : (t : JValue N) → wellTagged known t = true →
    deserializeT known false (stripTag t) = t
  | .arr xs, h => by
    simp only [wellTagged] at h
    simp [stripTag, deserializeT, typed_roundtrip_auxL known xs h]
  | .obj [], _ => by simp [stripTag, stripTagM, deserializeT, deserializeTM, dHas]
  | .obj ((k, v) :: r), h => by
    by_cases hk : k = objectTag
    · simp only [wellTagged, hk, if_true, Bool.and_eq_true, Bool.not_eq_true'] at h
      obtain ⟨⟨⟨hv, hno⟩, hty⟩, hm⟩ := h
      have hvb : v = .bool true := by
        cases v with
        | bool b => cases b <;> simp at hv ⊢
        | _ => simp at hv
      cases hg : dGet? typeKey r with
      | none => simp [hg] at hty
      | some tv =>
        cases tv with
        | str s =>
          simp only [hg] at hty
          have hg' : dGet? typeKey (stripTagM r) = some (.str s) := by
            rw [dGet_stripTagM typeKey r hno, hg]; simp [stripTag]
          have hh : dHas typeKey (stripTagM r) = true := dHas_of_dGet_some _ hg'
          simp [stripTag, stripTagM, hk, deserializeT, hh, hg', hty, typed_roundtrip_auxM known r hm hno, hvb]
        | _ => simp [hg] at hty
    · simp only [wellTagged, hk, if_false, Bool.and_eq_true, Bool.not_eq_true'] at h
      obtain ⟨⟨⟨hno, hnt⟩, hv⟩, hm⟩ := h
      have hnt' : dHas typeKey ((k, stripTag v) :: stripTagM r) = false := by
        simp only [dHas] at hnt ⊢
        rw [dHas_stripTagM typeKey r hno]
        exact hnt
      simp [stripTag, stripTagM, hk, deserializeT, hnt', deserializeTM, typed_roundtrip_aux known v hv,
        typed_roundtrip_auxM known r hm hno]
  | .null, _ => rfl
  | .bool _, _ => rfl
  | .num _, _ => rfl
  | .str _, _ => rfl
theorem typed_roundtrip_auxL (known : Key → Bool) : (xs : List (JValue N)) → wellTaggedL known xs = true →
    deserializeTL known false (stripTagL xs) = xs
  | [], _ => rfl
  | x :: xs, h => by
    simp [wellTaggedL] at h
    simp [stripTagL, deserializeTL, typed_roundtrip_aux known x h.1, typed_roundtrip_auxL known xs h.2]
theorem typed_roundtrip_auxM (known : Key → Bool) : (kvs : Dict N) → wellTaggedM known kvs = true →
    dHas objectTag kvs = false → deserializeTM known false (stripTagM kvs) = kvs
  | [], _, _ => rfl
  | (k, v) :: r, h, hno => by
    simp [wellTaggedM] at h
    simp [dHas] at hno
    have hne : ¬ k = objectTag := fun e => hno.1 e.symm
    simp [stripTagM, hne, deserializeTM, typed_roundtrip_aux known v h.1, typed_roundtrip_auxM known r h.2 hno.2]
end

mutual
theorem stripTag_deserializeT_aux (known : Key → Bool) : (v : JValue N) → noTagKey v = true →
    stripTag (deserializeT known false v) = deserialize known v
  | .arr xs, h => by
    simp only [noTagKey] at h
    simp [deserializeT, deserialize, stripTag, stripTag_deserializeT_auxL known xs h]
  | .obj kvs, h => by
    simp only [noTagKey] at h
    have hm := stripTag_deserializeT_auxM known kvs h
    unfold deserializeT deserialize
    by_cases ht : dHas typeKey kvs = true
    · simp only [ht, Bool.not_true, Bool.or_false, Bool.false_eq_true, if_false, if_true]
      split
      · rename_i s hs
        by_cases hk : known s = true
        · simp [hk, stripTag, stripTagM, hm]
        · simp [hk, stripTag]
      · simp [stripTag]
    · simp [ht, stripTag, hm]
  | .null, _ => rfl
  | .bool _, _ => rfl
  | .num _, _ => rfl
  | .str _, _ => rfl
theorem stripTag_deserializeT_auxL (known : Key → Bool) : (xs : List (JValue N)) → noTagKeyL xs = true →
    stripTagL (deserializeTL known false xs) = deserializeL known xs
  | [], _ => rfl
  | x :: xs, h => by
    simp [noTagKeyL] at h
    simp [deserializeTL, deserializeL, stripTagL, stripTag_deserializeT_aux known x h.1, stripTag_deserializeT_auxL known xs h.2]
theorem stripTag_deserializeT_auxM (known : Key → Bool) : (kvs : Dict N) → noTagKeyM kvs = true →
    stripTagM (deserializeTM known false kvs) = deserializeM known kvs
  | [], _ => rfl
  | (k, v) :: r, h => by
    simp [noTagKeyM] at h
    simp [deserializeTM, deserializeM, stripTagM, h.1.1, stripTag_deserializeT_aux known v h.1.2, stripTag_deserializeT_auxM known r h.2]
end

end Icinga.C14

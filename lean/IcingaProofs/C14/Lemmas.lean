/-
  C14 — helper lemmas: dictionary algebra, original-attribute bookkeeping, the set/restore walk.
-/
import IcingaModel.C14.Model
import IcingaModel.C14.Spec

namespace Icinga.C14

open Icinga.C20 (JValue)

variable {N : Type}

/-! ## dictionaries -/

theorem dHas_of_dGet {k : Key} {d : Dict N} {v : JValue N} (h : dGet? k d = some v) : dHas k d = true := by
  induction d with
  | nil => simp [dGet?] at h
  | cons e r ih =>
    obtain ⟨k', v'⟩ := e
    by_cases hk : k = k'
    · simp [dHas, hk]
    · simp [dGet?, hk] at h
      simp [dHas, hk, ih h]

theorem dGet_dReplace_self {k : Key} {d : Dict N} (v : JValue N) (h : dHas k d = true) :
    dGet? k (dReplace k v d) = some v := by
  induction d with
  | nil => simp [dHas] at h
  | cons e r ih =>
    obtain ⟨k', v'⟩ := e
    by_cases hk : k = k'
    · simp [dReplace, dGet?, hk]
    · simp [dHas, hk] at h
      simp [dReplace, dGet?, hk, ih h]

theorem dReplace_cancel {k : Key} {d : Dict N} {old : JValue N} (v : JValue N) (h : dGet? k d = some old) :
    dReplace k old (dReplace k v d) = d := by
  induction d with
  | nil => simp [dGet?] at h
  | cons e r ih =>
    obtain ⟨k', v'⟩ := e
    by_cases hk : k = k'
    · simp [dGet?, hk] at h
      simp [dReplace, hk, h]
    · simp [dGet?, hk] at h
      simp [dReplace, hk, ih h]

theorem dHas_dReplace {k : Key} {d : Dict N} (v : JValue N) : dHas k (dReplace k v d) = dHas k d := by
  induction d with
  | nil => simp [dReplace]
  | cons e r ih =>
    obtain ⟨k', v'⟩ := e
    by_cases hk : k = k'
    · simp [dReplace, dHas, hk]
    · simp [dReplace, dHas, hk, ih]

theorem dGet_dSet_self {k : Key} {d : Dict N} {old : JValue N} (v : JValue N) (h : dGet? k d = some old) :
    dGet? k (dSet k v d) = some v := by
  simp [dSet, dHas_of_dGet h, dGet_dReplace_self v (dHas_of_dGet h)]

theorem dSet_cancel {k : Key} {d : Dict N} {old : JValue N} (v : JValue N) (h : dGet? k d = some old) :
    dSet k old (dSet k v d) = d := by
  have h1 := dHas_of_dGet h
  simp [dSet, h1, dHas_dReplace, dReplace_cancel v h]

/-! ## paths -/

theorem isPrefix_refl (p : Path) : isPrefix p p = true := by
  induction p with
  | nil => rfl
  | cons a r ih => simp [isPrefix, ih]

/-- The last token of a path, as the list `tokens.drop (tokens.size() - 1)`. -/
def lastTok (p : Path) : Path := p.drop (p.length - 1)

theorem lastTok_cons_cons (a b : Key) (r : Path) : lastTok (a :: b :: r) = lastTok (b :: r) := by
  simp [lastTok]

theorem lastTok_single (a : Key) : lastTok [a] = [a] := by simp [lastTok]

/-! ## original_attributes -/

theorem oHas_false_of_fresh {p : Path} {orig : Orig N} (h : ∀ e ∈ orig, isPrefix p e.1 = false) :
    oHas p orig = false := by
  induction orig with
  | nil => rfl
  | cons e r ih =>
    obtain ⟨q, w⟩ := e
    have hq : isPrefix p q = false := h (q, w) (by simp)
    have hne : p ≠ q := by
      intro heq
      rw [heq, isPrefix_refl] at hq
      cases hq
    have := ih (fun e he => h e (by simp [he]))
    simp [oHas, hne, this]

theorem filter_match_oInsert {p : Path} (v : JValue N) {orig : Orig N} (h : ∀ e ∈ orig, isPrefix p e.1 = false) :
    (oInsert p v orig).filter (fun e => isPrefix p e.1) = [(p, v)] := by
  induction orig with
  | nil => simp [oInsert, isPrefix_refl]
  | cons e r ih =>
    obtain ⟨q, w⟩ := e
    have hq : isPrefix p q = false := h (q, w) (by simp)
    have hr : ∀ e ∈ r, isPrefix p e.1 = false := fun e he => h e (by simp [he])
    have hrf : r.filter (fun e => isPrefix p e.1) = [] := by
      rw [List.filter_eq_nil_iff]
      intro e he
      simp [hr e he]
    unfold oInsert
    split
    · simp [List.filter, isPrefix_refl, hq, hrf]
    · simp [List.filter, hq, ih hr]

theorem filter_nomatch_oInsert {p : Path} (v : JValue N) {orig : Orig N} (h : ∀ e ∈ orig, isPrefix p e.1 = false) :
    (oInsert p v orig).filter (fun e => !(isPrefix p e.1)) = orig := by
  induction orig with
  | nil => simp [oInsert, isPrefix_refl]
  | cons e r ih =>
    obtain ⟨q, w⟩ := e
    have hq : isPrefix p q = false := h (q, w) (by simp)
    have hr : ∀ e ∈ r, isPrefix p e.1 = false := fun e he => h e (by simp [he])
    have hrf : r.filter (fun e => !(isPrefix p e.1)) = r := by
      rw [List.filter_eq_self]
      intro e he
      simp [hr e he]
    unfold oInsert
    split
    · simp [List.filter, isPrefix_refl, hq, hrf]
    · simp [List.filter, hq, ih hr]

theorem filter_ne_oInsert (f : Key) (v : JValue N) {orig : Orig N} (h : ∀ e ∈ orig, isPrefix [f] e.1 = false) :
    (oInsert [f] v orig).filter (fun e => !(e.1 = [f])) = orig := by
  induction orig with
  | nil => simp [oInsert]
  | cons e r ih =>
    obtain ⟨q, w⟩ := e
    have hq : isPrefix [f] q = false := h (q, w) (by simp)
    have hne : q ≠ [f] := by
      intro heq
      rw [heq, isPrefix_refl] at hq
      cases hq
    have hr : ∀ e ∈ r, isPrefix [f] e.1 = false := fun e he => h e (by simp [he])
    have hrf : r.filter (fun e => !(e.1 = [f])) = r := by
      rw [List.filter_eq_self]
      intro e he
      have := hr e he
      have hne' : e.1 ≠ [f] := by
        intro heq
        rw [heq, isPrefix_refl] at this
        cases this
      simp [hne']
    unfold oInsert
    split
    · simp [List.filter, hne, hrf]
    · simp [List.filter, hne, ih hr]

theorem oGet_oInsert_self (p : Path) (v : JValue N) {orig : Orig N} (h : oHas p orig = false) :
    oGet? p (oInsert p v orig) = some v := by
  induction orig with
  | nil => simp [oInsert, oGet?]
  | cons e r ih =>
    obtain ⟨q, w⟩ := e
    simp [oHas] at h
    unfold oInsert
    split
    · simp [oGet?]
    · simp [oGet?, h.1, ih h.2]

theorem ne_of_oGet_none {p : Path} {orig : Orig N} (h : oGet? p orig = none) : ∀ e ∈ orig, e.1 ≠ p := by
  induction orig with
  | nil => intro e he; cases he
  | cons a r ih =>
    obtain ⟨q, w⟩ := a
    by_cases hq : p = q
    · simp [oGet?, hq] at h
    · simp [oGet?, hq] at h
      intro e he
      simp at he
      rcases he with rfl | he
      · exact fun heq => hq heq.symm
      · exact ih h e he

/-! ## the walk: setDeep then restoreDeep with the single recorded entry -/

theorem recordOriginal_leaf (attr : Path) {oldV : JValue N} (v : JValue N) (orig : Orig N) (h : isDict oldV = false) :
    recordOriginal attr oldV v orig = oAdd attr oldV orig := by
  cases oldV <;> simp [recordOriginal, isDict] at h ⊢

theorem setDeep_restoreDeep (toks : Path) :
    ∀ (pre : Path) (cur old v : JValue N) (orig : Orig N), toks ≠ [] → getIn toks cur = some old → isDict old = false →
      ∃ cur', setDeep pre toks cur v orig = .ok (cur', oAdd (pre ++ toks) old orig) ∧
        restoreDeep toks cur' [(lastTok toks, old)] = .ok cur ∧ isEmptyVal cur' = false := by
  induction toks with
  | nil => intro _ _ _ _ _ h; exact absurd rfl h
  | cons k ks ih =>
    intro pre cur old v orig _ hget hleaf
    cases ks with
    | nil =>
      cases cur with
      | obj kvs =>
        simp only [getIn] at hget
        cases hk : dGet? k kvs with
        | none => simp [hk] at hget
        | some c =>
          simp [hk, getIn] at hget
          subst hget
          refine ⟨.obj (dSet k v kvs), ?_, ?_, rfl⟩
          · simp [setDeep, hk, recordOriginal_leaf _ _ _ hleaf]
          · simp [restoreDeep, lastTok_single, setForce, dSet_cancel v hk]
      | null => simp [getIn] at hget
      | bool _ => simp [getIn] at hget
      | num _ => simp [getIn] at hget
      | str _ => simp [getIn] at hget
      | arr _ => simp [getIn] at hget
    | cons k2 ks' =>
      cases cur with
      | obj kvs =>
        simp only [getIn] at hget
        cases hk : dGet? k kvs with
        | none => simp [hk] at hget
        | some c =>
          simp [hk] at hget
          obtain ⟨c', hset, hres, _⟩ := ih (pre ++ [k]) c old v orig (by simp) hget hleaf
          refine ⟨.obj (dSet k c' kvs), ?_, ?_, rfl⟩
          · simp [setDeep, hk, hset]
          · rw [lastTok_cons_cons]
            simp [restoreDeep, dGet_dSet_self c' hk, hres, dSet_cancel c' hk]
      | null => simp [getIn] at hget
      | bool _ => simp [getIn] at hget
      | num _ => simp [getIn] at hget
      | str _ => simp [getIn] at hget
      | arr _ => simp [getIn] at hget

/-- If a value can be walked into, it is a dictionary, hence not `Value::IsEmpty`. -/
theorem isEmptyVal_false_of_getIn {k : Key} {ks : Path} {cur old : JValue N} (h : getIn (k :: ks) cur = some old) :
    isEmptyVal cur = false := by
  cases cur <;> simp [getIn] at h
  rfl

/-! ## a whole attribute modified and restored above outstanding nested modifications -/

theorem filter_ne_self_of_not_oHas (p : Path) {orig : Orig N} (h : oHas p orig = false) :
    orig.filter (fun e => !(e.1 = p)) = orig := by
  induction orig with
  | nil => rfl
  | cons e r ih =>
    obtain ⟨q, w⟩ := e
    simp [oHas] at h
    have hne : q ≠ p := fun heq => h.1 heq.symm
    simp [List.filter, hne]
    simpa using ih h.2

theorem filter_eq_oInsert (f : Key) (v : JValue N) {orig : Orig N} (h : oHas [f] orig = false) :
    (oInsert [f] v orig).filter (fun e => !(e.1 = [f])) = orig := by
  induction orig with
  | nil => simp [oInsert]
  | cons e r ih =>
    obtain ⟨q, w⟩ := e
    have hall := filter_ne_self_of_not_oHas [f] h
    simp [oHas] at h
    have hne : q ≠ [f] := fun heq => h.1 heq.symm
    unfold oInsert
    split
    · simp only [List.filter, decide_true, Bool.not_true]
      exact hall
    · have := ih h.2
      simp [List.filter, hne, this]

/-- The shape of the object after modifying a nested leaf of a never-modified object (the witnesses of
    `modify_restore_partial`, spelled out). -/
theorem modify_leaf_shape (o : Obj N) (f k : Key) (ks : Path) (v old : JValue N)
    (hnone : o.original = none)
    (hex : getPath o.fields (f :: k :: ks) = some old)
    (hleaf : isDict old = false) :
    ∃ cur cur', dGet? f o.fields = some cur ∧
      modify o (f :: k :: ks) v = .ok { fields := dSet f cur' o.fields, original := some [(f :: k :: ks, old)] } ∧
      restore { fields := dSet f cur' o.fields, original := some [(f :: k :: ks, old)] } (f :: k :: ks) =
        .ok { fields := o.fields, original := some [] } := by
  simp only [getPath] at hex
  cases hf : dGet? f o.fields with
  | none => simp [hf] at hex
  | some cur =>
    simp only [hf] at hex
    have hne : isEmptyVal cur = false := isEmptyVal_false_of_getIn hex
    obtain ⟨cur', hset, hres, hne'⟩ := setDeep_restoreDeep (k :: ks) [f] cur old v [] (by simp) hex hleaf
    have : [f] ++ k :: ks = f :: k :: ks := rfl
    rw [this] at hset
    refine ⟨cur, cur', rfl, ?_, ?_⟩
    · simp [modify, hf, hne, origOf, hnone, hset, oAdd, oHas, oInsert]
    · have hlast : List.drop (ks.length + 1) (f :: k :: ks) = lastTok (k :: ks) := by
        simp [lastTok]
      simp [restore, dGet_dSet_self cur' hf, hne', isPrefix_refl, hlast, hres, dSet_cancel cur' hf]

end Icinga.C14

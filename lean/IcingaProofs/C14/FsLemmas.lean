/-
  C14 — helper lemmas for the atomic-replacement model: the "path still reads old" invariant over the
  temp-file phase, the state of the temp file before the rename, and the rename step.
-/
import IcingaModel.C14.AtomicFile

namespace Icinga.C14

open Icinga.C20 (Bytes)

theorem dirLookup_dirRemove_ne {d : Dir} {n m : FName} (h : m ≠ n) : dirLookup (dirRemove d n) m = dirLookup d m := by
  induction d with
  | nil => rfl
  | cons e r ih =>
    obtain ⟨a, i⟩ := e
    unfold dirRemove at ih ⊢
    by_cases ha : a = n
    · subst ha
      simp [List.filter_cons, dirLookup, h, ih]
    · by_cases hm : m = a
      · simp [List.filter_cons, dirLookup, ha, hm]
      · simp [List.filter_cons, dirLookup, ha, hm, ih]

theorem dataLookup_dataAppend_ne {d : List (Ino × Bytes)} {i j : Ino} (bs : Bytes) (h : j ≠ i) :
    dataLookup (dataAppend d i bs) j = dataLookup d j := by
  induction d with
  | nil => rfl
  | cons e r ih =>
    obtain ⟨a, b⟩ := e
    by_cases ha : i = a
    · subst ha
      simp [dataAppend, dataLookup, h]
    · by_cases hj : j = a
      · simp [dataAppend, dataLookup, ha, hj]
      · simp [dataAppend, dataLookup, ha, hj, ih]

theorem dataLookup_dataAppend_self {d : List (Ino × Bytes)} {i : Ino} {w : Bytes} (bs : Bytes)
    (h : dataLookup d i = some w) : dataLookup (dataAppend d i bs) i = some (w ++ bs) := by
  induction d with
  | nil => simp [dataLookup] at h
  | cons e r ih =>
    obtain ⟨a, b⟩ := e
    by_cases ha : i = a
    · subst ha
      simp [dataLookup] at h
      simp [dataAppend, dataLookup, h]
    · simp [dataLookup, ha] at h
      simp [dataAppend, dataLookup, ha, ih h]

theorem run_cons (op : Sys) (ops : List Sys) (s : FS) : run (op :: ops) s = run ops (step s op) := rfl

theorem run_append (a b : List Sys) (s : FS) : run (a ++ b) s = run b (run a s) := by
  simp [run, List.foldl_append]

/-- While only the temp file is touched, `path` reads as before in the current and in every earlier
    directory, and the inode behind it is clean and unchanged. -/
def Inv (s0 s : FS) (path : FName) : Prop :=
  (∀ d, (d = s.dir ∨ d ∈ s.past) → dirLookup d path = dirLookup s0.dir path) ∧
  (∀ i, dirLookup s0.dir path = some i → i ∉ s.dirty ∧ dataLookup s.data i = dataLookup s0.data i)

/-- The calls of the temp-file phase. -/
def TmpOnly (tmp : FName) (ino : Ino) : Sys → Prop
  | .mkstemp t i => t = tmp ∧ i = ino
  | .chmod t _ => t = tmp
  | .write i _ => i = ino
  | .fsync i => i = ino
  | .close i => i = ino
  | .rename _ _ => False
  | .unlink _ => False

theorem inv_step {s0 s : FS} {path tmp : FName} {ino : Ino} {op : Sys} (hinv : Inv s0 s path)
    (hop : TmpOnly tmp ino op) (htmp : tmp ≠ path) (hino : ∀ i, dirLookup s0.dir path = some i → i ≠ ino) :
    Inv s0 (step s op) path := by
  obtain ⟨hd, hi⟩ := hinv
  cases op with
  | mkstemp t i =>
    obtain ⟨rfl, rfl⟩ := hop
    refine ⟨?_, ?_⟩
    · intro d hdd
      simp only [step] at hdd
      rcases hdd with rfl | hmem
      · have hpt : path ≠ t := fun h => htmp h.symm
        simp [dirLookup, hpt, dirLookup_dirRemove_ne hpt, hd s.dir (Or.inl rfl)]
      · simp at hmem
        rcases hmem with rfl | hmem
        · exact hd _ (Or.inl rfl)
        · exact hd _ (Or.inr hmem)
    · intro j hj
      have := hi j hj
      have hne := hino j hj
      simp [step, dataLookup, hne, this]
  | chmod t m => exact ⟨hd, hi⟩
  | write i bs =>
    have : i = ino := hop
    subst this
    refine ⟨hd, ?_⟩
    intro j hj
    have := hi j hj
    have hne := hino j hj
    simp [step, this, hne, dataLookup_dataAppend_ne bs hne]
  | fsync i =>
    refine ⟨hd, ?_⟩
    intro j hj
    have := hi j hj
    simp [step, this]
  | close i => exact ⟨hd, hi⟩
  | rename a b => exact absurd hop (by simp [TmpOnly])
  | unlink a => exact absurd hop (by simp [TmpOnly])

theorem inv_run {s0 : FS} {path tmp : FName} {ino : Ino} (htmp : tmp ≠ path)
    (hino : ∀ i, dirLookup s0.dir path = some i → i ≠ ino) :
    ∀ (ops : List Sys) (s : FS), Inv s0 s path → (∀ op ∈ ops, TmpOnly tmp ino op) → Inv s0 (run ops s) path := by
  intro ops
  induction ops with
  | nil => intro s h _; exact h
  | cons op ops ih =>
    intro s h hall
    rw [run_cons]
    exact ih _ (inv_step h (hall op (by simp)) htmp hino) (fun o ho => hall o (by simp [ho]))

theorem inv_init (s0 : FS) (path : FName) (hq : s0.past = [] ∧ s0.dirty = []) : Inv s0 s0 path := by
  refine ⟨?_, ?_⟩
  · intro d hd
    rcases hd with rfl | hmem
    · rfl
    · simp [hq.1] at hmem
  · intro i _
    simp [hq.2]

theorem crash_reads_old {s0 s : FS} {path : FName} (hinv : Inv s0 s path) {d : Dir} {content : Ino → Option Bytes}
    (hcv : CrashView s d content) : readFile d content path = readNow s0 path := by
  obtain ⟨hd, hi⟩ := hinv
  obtain ⟨hdir, hc⟩ := hcv
  unfold readFile readNow readFile
  rw [hd d hdir]
  cases h : dirLookup s0.dir path with
  | none => rfl
  | some i =>
    have := hi i h
    simp [hc i this.1, this.2]

/-- The temp-file phase: everything before the rename. -/
def body (tmp : FName) (ino : Ino) (mode : Nat) (chunks : List Bytes) : List Sys :=
  [Sys.mkstemp tmp ino, Sys.chmod tmp mode] ++ chunks.map (Sys.write ino) ++ [Sys.fsync ino, Sys.close ino]

theorem atomicWrite_eq (path tmp : FName) (ino : Ino) (mode : Nat) (chunks : List Bytes) :
    atomicWrite path tmp ino mode chunks = body tmp ino mode chunks ++ [Sys.rename tmp path] := by
  simp [atomicWrite, body]

theorem body_tmpOnly (tmp : FName) (ino : Ino) (mode : Nat) (chunks : List Bytes) :
    ∀ op ∈ body tmp ino mode chunks, TmpOnly tmp ino op := by
  intro op hop
  simp [body] at hop
  rcases hop with rfl | rfl | ⟨c, _, rfl⟩ | rfl | rfl <;> simp [TmpOnly]

theorem run_writes (ino : Ino) : ∀ (chunks : List Bytes) (s : FS) (w : Bytes), dataLookup s.data ino = some w →
    (run (chunks.map (Sys.write ino)) s).dir = s.dir ∧
    dataLookup (run (chunks.map (Sys.write ino)) s).data ino = some (w ++ chunks.flatten) := by
  intro chunks
  induction chunks with
  | nil => intro s w h; simp [run, h]
  | cons c cs ih =>
    intro s w h
    simp only [List.map_cons, run_cons]
    have h1 : dataLookup (step s (Sys.write ino c)).data ino = some (w ++ c) := by
      simp [step, dataLookup_dataAppend_self c h]
    obtain ⟨hd, hdat⟩ := ih (step s (Sys.write ino c)) (w ++ c) h1
    refine ⟨by rw [hd]; simp [step], ?_⟩
    rw [hdat]
    simp

/-- Just before the rename the temp name points at the inode, which holds the whole content and is clean. -/
theorem body_state (s0 : FS) (tmp : FName) (ino : Ino) (mode : Nat) (chunks : List Bytes) :
    let s1 := run (body tmp ino mode chunks) s0
    dirLookup s1.dir tmp = some ino ∧ dataLookup s1.data ino = some chunks.flatten ∧ ino ∉ s1.dirty := by
  simp only [body, run_append]
  have hA : dataLookup (run [Sys.mkstemp tmp ino, Sys.chmod tmp mode] s0).data ino = some [] := by
    simp [run, step, dataLookup]
  have hAd : dirLookup (run [Sys.mkstemp tmp ino, Sys.chmod tmp mode] s0).dir tmp = some ino := by
    simp [run, step, dirLookup]
  obtain ⟨hd, hdat⟩ := run_writes ino chunks _ [] hA
  refine ⟨?_, ?_, ?_⟩
  · simp only [run, List.foldl_cons, List.foldl_nil, step] at hd hAd ⊢
    rw [hd]; exact hAd
  · simp only [run, List.foldl_cons, List.foldl_nil, step] at hdat ⊢
    simpa using hdat
  · simp [run, step]

/-- The general form: ANY sequence of calls on the temp file only (create, chmod, any number of writes and
    fsyncs, close, in any order) after which the temp name points at a clean inode holding `new`, followed by
    the rename onto the target. -/
theorem crash_old_or_new_general (s0 : FS) (path tmp : FName) (ino : Ino) (bodyOps : List Sys) (new : Bytes)
    (hq : s0.past = [] ∧ s0.dirty = [])
    (htmp : tmp ≠ path)
    (hino : ∀ i, dirLookup s0.dir path = some i → i ≠ ino)
    (hbody : ∀ op ∈ bodyOps, TmpOnly tmp ino op)
    (hstate : dirLookup (run bodyOps s0).dir tmp = some ino ∧ dataLookup (run bodyOps s0).data ino = some new ∧
      ino ∉ (run bodyOps s0).dirty)
    (pre : List Sys) (hpre : pre <+: bodyOps ++ [Sys.rename tmp path])
    (d : Dir) (content : Ino → Option Bytes) (hcv : CrashView (run pre s0) d content) :
    readFile d content path = readNow s0 path ∨ readFile d content path = some new := by
  rw [List.prefix_concat_iff] at hpre
  have hbodyInv : Inv s0 (run bodyOps s0) path := inv_run htmp hino _ _ (inv_init s0 path hq) hbody
  rcases hpre with rfl | hpre
  · obtain ⟨htd, hdat, hclean⟩ := hstate
    rw [run_append] at hcv
    simp only [run, List.foldl_cons, List.foldl_nil] at hcv hbodyInv htd hdat hclean
    generalize List.foldl step s0 bodyOps = s1 at hcv hbodyInv htd hdat hclean
    simp only [step, htd] at hcv
    obtain ⟨hdir, hc⟩ := hcv
    simp only at hdir hc
    rcases hdir with rfl | hmem
    · right
      simp [readFile, dirLookup, hc ino hclean, hdat]
    · left
      simp at hmem
      exact crash_reads_old hbodyInv ⟨by rcases hmem with rfl | h; exact Or.inl rfl; exact Or.inr h, hc⟩
  · left
    have hall : ∀ op ∈ pre, TmpOnly tmp ino op := fun op hop => hbody op (hpre.subset hop)
    exact crash_reads_old (inv_run htmp hino _ _ (inv_init s0 path hq) hall) hcv

theorem crash_old_or_new_aux (s0 : FS) (path tmp : FName) (ino : Ino) (mode : Nat) (chunks : List Bytes)
    (hq : s0.past = [] ∧ s0.dirty = [])
    (htmp : tmp ≠ path)
    (hino : ∀ i, dirLookup s0.dir path = some i → i ≠ ino)
    (pre : List Sys) (hpre : pre <+: atomicWrite path tmp ino mode chunks)
    (d : Dir) (content : Ino → Option Bytes) (hcv : CrashView (run pre s0) d content) :
    readFile d content path = readNow s0 path ∨ readFile d content path = some chunks.flatten := by
  rw [atomicWrite_eq] at hpre
  exact crash_old_or_new_general s0 path tmp ino (body tmp ino mode chunks) chunks.flatten hq htmp hino
    (body_tmpOnly tmp ino mode chunks) (body_state s0 tmp ino mode chunks) pre hpre d content hcv

theorem complete_write_aux (s0 : FS) (path tmp : FName) (ino : Ino) (mode : Nat) (chunks : List Bytes)
    (hq : s0.past = [] ∧ s0.dirty = [])
    (htmp : tmp ≠ path)
    (hino : ∀ i, dirLookup s0.dir path = some i → i ≠ ino) :
    readNow (run (atomicWrite path tmp ino mode chunks) s0) path = some chunks.flatten := by
  obtain ⟨htd, hdat, _⟩ := body_state s0 tmp ino mode chunks
  rw [atomicWrite_eq, run_append]
  simp only [run, List.foldl_cons, List.foldl_nil] at htd hdat ⊢
  generalize List.foldl step s0 (body tmp ino mode chunks) = s1 at htd hdat
  simp [step, htd, readNow, readFile, dirLookup, hdat]

/-! ## the protocol predicate on the modelled sequence -/

def wev : SysEv := ⟨.write, false⟩

theorem writes_facts (n : Nat) (tail : List SysEv) :
    (List.replicate n wev ++ tail).takeWhile (fun e => !(e.kind == .rename)) = List.replicate n wev ++ tail.takeWhile (fun e => !(e.kind == .rename)) ∧
    (List.replicate n wev ++ tail).dropWhile (fun e => !(e.kind == .rename)) = tail.dropWhile (fun e => !(e.kind == .rename)) := by
  induction n with
  | zero => simp
  | succ n ih =>
    simp only [List.replicate_succ, List.cons_append]
    have : (!(wev.kind == SysKind.rename)) = true := by decide
    simp [List.takeWhile_cons, List.dropWhile_cons, this, ih.1, ih.2]

theorem writes_all (n : Nat) : (List.replicate n wev).all
    (fun e => !e.onTarget && (e.kind == .chmod || e.kind == .write || e.kind == .fsync || e.kind == .close)) = true := by
  induction n with
  | zero => rfl
  | succ n ih => simp [List.replicate_succ, wev]

theorem protocol_writes (n : Nat) :
    protocolWord (⟨.mkstemp, false⟩ :: ⟨.chmod, false⟩ :: (List.replicate n wev ++ [⟨.fsync, false⟩, ⟨.close, false⟩, ⟨.rename, true⟩])) = true := by
  obtain ⟨h1, h2⟩ := writes_facts n [⟨.fsync, false⟩, ⟨.close, false⟩, ⟨.rename, true⟩]
  unfold protocolWord
  simp only [List.dropWhile_cons, show ((SysKind.mkstemp == SysKind.unlink) && !false) = false by decide, Bool.false_eq_true, if_false]
  simp only [List.takeWhile_cons, List.dropWhile_cons, show (!(SysKind.chmod == SysKind.rename)) = true by decide, if_true, h1, h2]
  simp [List.takeWhile, List.dropWhile, syncedAtEnd, List.all_append, writes_all n]


/-! ## litter: the only name a crash can leave behind is the temp file -/

theorem dirLookup_dirRemove_some {d : Dir} {a n : FName} (h : dirLookup (dirRemove d a) n ≠ none) :
    dirLookup d n ≠ none := by
  induction d with
  | nil => simpa [dirRemove, dirLookup] using h
  | cons e r ih =>
    obtain ⟨b, i⟩ := e
    unfold dirRemove at ih h
    by_cases hn : n = b
    · simp [dirLookup, hn]
    · by_cases hb : b = a
      · simp [List.filter_cons, hb] at h
        simpa [dirLookup, hn] using ih h
      · simp [List.filter_cons, hb, dirLookup, hn] at h
        simpa [dirLookup, hn] using ih h

/-- Every name in the current or an earlier directory is the temp name, the target, or was there before. -/
def Names (s0 s : FS) (path tmp : FName) : Prop :=
  ∀ d, (d = s.dir ∨ d ∈ s.past) → ∀ n, dirLookup d n ≠ none → n = tmp ∨ n = path ∨ dirLookup s0.dir n ≠ none

theorem names_past {s0 s : FS} {path tmp : FName} (h : Names s0 s path tmp) (d : Dir) (hd : d ∈ s.dir :: s.past) :
    ∀ n, dirLookup d n ≠ none → n = tmp ∨ n = path ∨ dirLookup s0.dir n ≠ none := by
  simp at hd
  rcases hd with rfl | hd
  · exact h _ (Or.inl rfl)
  · exact h _ (Or.inr hd)

theorem names_step {s0 s : FS} {path tmp : FName} {ino : Ino} {op : Sys} (h : Names s0 s path tmp)
    (hop : TmpOnly tmp ino op ∨ op = Sys.rename tmp path) : Names s0 (step s op) path tmp := by
  rcases hop with hop | rfl
  · cases op with
    | mkstemp t i =>
      obtain ⟨rfl, rfl⟩ := hop
      intro d hd n hn
      simp only [step] at hd
      rcases hd with rfl | hmem
      · by_cases hnt : n = t
        · exact Or.inl hnt
        · simp [dirLookup, hnt] at hn
          exact h _ (Or.inl rfl) n (dirLookup_dirRemove_some (by simpa using hn))
      · exact names_past h d hmem n hn
    | chmod t m => exact h
    | write i bs => exact h
    | fsync i => exact h
    | close i => exact h
    | rename a b => exact absurd hop (by simp [TmpOnly])
    | unlink a => exact absurd hop (by simp [TmpOnly])
  · intro d hd n hn
    simp only [step] at hd
    cases hl : dirLookup s.dir tmp with
    | none =>
      simp only [hl] at hd
      exact h d hd n hn
    | some i =>
      simp only [hl] at hd
      rcases hd with rfl | hmem
      · by_cases hnp : n = path
        · exact Or.inr (Or.inl hnp)
        · simp [dirLookup, hnp] at hn
          exact h _ (Or.inl rfl) n (dirLookup_dirRemove_some (dirLookup_dirRemove_some (by simpa using hn)))
      · exact names_past h d hmem n hn

theorem names_run {s0 : FS} {path tmp : FName} {ino : Ino} :
    ∀ (ops : List Sys) (s : FS), Names s0 s path tmp →
      (∀ op ∈ ops, TmpOnly tmp ino op ∨ op = Sys.rename tmp path) → Names s0 (run ops s) path tmp := by
  intro ops
  induction ops with
  | nil => intro s h _; exact h
  | cons op ops ih =>
    intro s h hall
    rw [run_cons]
    exact ih _ (names_step h (hall op (by simp))) (fun o ho => hall o (by simp [ho]))

theorem crash_leaves_only_tmp_aux (s0 : FS) (path tmp : FName) (ino : Ino) (mode : Nat) (chunks : List Bytes)
    (hq : s0.past = [])
    (pre : List Sys) (hpre : pre <+: atomicWrite path tmp ino mode chunks)
    (d : Dir) (hd : d = (run pre s0).dir ∨ d ∈ (run pre s0).past) (n : FName) (hn : dirLookup d n ≠ none) :
    n = tmp ∨ n = path ∨ dirLookup s0.dir n ≠ none := by
  have h0 : Names s0 s0 path tmp := by
    intro d hd n hn
    rcases hd with rfl | hmem
    · exact Or.inr (Or.inr hn)
    · simp [hq] at hmem
  have hall : ∀ op ∈ pre, TmpOnly tmp ino op ∨ op = Sys.rename tmp path := by
    intro op hop
    have := hpre.subset hop
    rw [atomicWrite_eq] at this
    simp at this
    rcases this with hb | rfl
    · exact Or.inl (body_tmpOnly tmp ino mode chunks op hb)
    · exact Or.inr rfl
  exact names_run pre s0 h0 hall d hd n hn

end Icinga.C14

/-
  C15 — the natives keep the heap well-formed (`NativesWF`): every prototype method / System function of
  IcingaModel/C15/Natives.lean answers a well-formed value in a well-formed heap, or a non-internal error.
-/
import IcingaProofs.C15.WfSteps

namespace Icinga.C15.Proofs

open Icinga.C15

set_option linter.unusedSectionVars false
set_option linter.unusedVariables false
variable {N : Type} [Num N]

def OptOk (st : State N) (o : Option (NRes N)) : Prop := ∀ r, o = some r → EOk st r

theorem optOk_none (st : State N) : OptOk st none := by intro r h; cases h
theorem optOk_some {st : State N} {r : NRes N} (h : EOk st r) : OptOk st (some r) := by intro r' h'; cases h'; exact h

theorem optOk_map_arr {st : State N} {a : Addr} {f : List (Value N) → NRes N}
    (h : ∀ xs, st.arr? a = some xs → EOk st (f xs)) : OptOk st ((st.arr? a).map f) := by
  intro r hr
  cases hx : st.arr? a with
  | none => simp [hx] at hr
  | some xs => simp [hx] at hr; subst hr; exact h xs hx

theorem optOk_map_dict {st : State N} {a : Addr} {f : List (String × Value N) → NRes N}
    (h : ∀ xs, st.dict? a = some xs → EOk st (f xs)) : OptOk st ((st.dict? a).map f) := by
  intro r hr
  cases hx : st.dict? a with
  | none => simp [hx] at hr
  | some xs => simp [hx] at hr; subst hr; exact h xs hx

theorem eok_val {st : State N} (hs : HeapOk st) {v : Value N} (hv : VOk st v) : EOk st (.ok v, st) := ⟨hs, Ext.refl _, hv⟩
theorem eok_err {st : State N} (hs : HeapOk st) {e : Err} (he : NotInternal e) : EOk st (.error e, st) := ⟨hs, Ext.refl _, he⟩

theorem eok_put_arr {st : State N} (hs : HeapOk st) {a : Addr} {xs ys : List (Value N)} (hx : st.arr? a = some xs)
    (hy : VsOk st ys) : EOk st (.ok .empty, st.put a (.arr ys)) :=
  ⟨heapOk_put st a _ hs (by simpa [kindOf] using arr?_kind hx) hy, ext_put st a _ (by simpa [kindOf] using arr?_kind hx), by simp [EResOk, VOk]⟩

theorem eok_put_dict {st : State N} (hs : HeapOk st) {a : Addr} {xs ys : List (String × Value N)} (hx : st.dict? a = some xs)
    (hy : KvsOk st ys) : EOk st (.ok .empty, st.put a (.dict ys)) :=
  ⟨heapOk_put st a _ hs (by simpa [kindOf] using dict?_kind hx) hy, ext_put st a _ (by simpa [kindOf] using dict?_kind hx), by simp [EResOk, VOk]⟩

theorem vsOk_map {α : Type} {st : State N} (f : α → Value N) (hf : ∀ a, VOk st (f a)) (l : List α) : VsOk st (l.map f) := by
  intro v m; obtain ⟨a, _, rfl⟩ := List.mem_map.mp m; exact hf a

theorem vsOk_eraseIdx {st : State N} {xs : List (Value N)} (h : VsOk st xs) (n : Nat) : VsOk st (xs.eraseIdx n) := by
  intro v m; exact h v (List.mem_of_mem_eraseIdx m)

theorem joinValues_ok (sep : Value N) : ∀ (xs : List (Value N)) (first : Bool) (acc : Value N) (st : State N),
    HeapOk st → VOk st acc → EOk st (joinValues sep xs first acc st)
  | [], _, acc, st, hs, ha => by simp only [joinValues]; exact eok_val hs ha
  | x :: r, first, acc, st, hs, ha => by
    simp only [joinValues]
    have h1 : EOk st (if first = true then (Except.ok acc, st) else binop .add acc sep st) := by
      split
      · exact eok_val hs ha
      · exact binop_ok hs _ _ _
    generalize (if first = true then (Except.ok acc, st) else binop .add acc sep st) = s1 at h1
    obtain ⟨r1, st1⟩ := s1
    cases r1 with
    | error e => exact h1
    | ok a1 =>
      simp only []
      have h2 := binop_ok h1.1 .add a1 x
      generalize binop .add a1 x st1 = s2 at h2
      obtain ⟨r2, st2⟩ := s2
      cases r2 with
      | error e => exact ⟨h2.1, h1.2.1.trans h2.2.1, h2.2.2⟩
      | ok a2 =>
        simp only []
        have h3 := joinValues_ok sep r false a2 st2 h2.1 h2.2.2
        exact ⟨h3.1, (h1.2.1.trans h2.2.1).trans h3.2.1, h3.2.2⟩


theorem eok_put_arr' {st : State N} (hs : HeapOk st) {a : Addr} {ys : List (Value N)} (hk : VOk st (.arr a))
    (hy : VsOk st ys) : EOk st (.ok .empty, st.put a (.arr ys)) := by
  obtain ⟨xs, hx⟩ := arr?_of_kind (show kindAt st a = some Kind.arr from hk)
  exact eok_put_arr hs hx hy

theorem eok_put_dict' {st : State N} (hs : HeapOk st) {a : Addr} {ys : List (String × Value N)} (hk : VOk st (.dict a))
    (hy : KvsOk st ys) : EOk st (.ok .empty, st.put a (.dict ys)) := by
  obtain ⟨xs, hx⟩ := dict?_of_kind (show kindAt st a = some Kind.dict from hk)
  exact eok_put_dict hs hx hy

theorem kvsOk_nil (st : State N) : KvsOk st ([] : List (String × Value N)) := by intro kv m; simp at m

theorem kvGetD_ok {st : State N} {kvs : List (String × Value N)} (h : KvsOk st kvs) (k : String) :
    VOk st ((kvGet k kvs).getD .empty) := by
  cases hg : kvGet k kvs with
  | none => simp [VOk]
  | some v => simpa using kvGet_ok h hg

theorem sortValues_ok {st : State N} {xs s : List (Value N)} {u : Bool} (h : sortValues xs u = some s) : VsOk st s := by
  unfold sortValues at h
  split at h
  · injection h with h; subst h; exact vsOk_map _ (by intro a; simp [VOk]) _
  · split at h
    · injection h with h; subst h; exact vsOk_map _ (by intro a; simp [VOk]) _
    · cases h

theorem rangeList_ok {st : State N} (lt : N → N → Bool) (add : N → N → N) (up : Bool) (stop inc : N) :
    ∀ (f : Nat) (i : N) (s : List (Value N)), rangeList lt add up stop inc f i = some s → VsOk st s
  | 0, _, _, h => by simp [rangeList] at h
  | f + 1, i, s, h => by
    simp only [rangeList] at h
    generalize (if up = true then lt i stop else lt stop i) = c at h
    cases c
    · simp at h; subst h; exact vsOk_nil _
    · cases hr : rangeList lt add up stop inc f (add i inc) with
      | none => simp [hr] at h
      | some r =>
        simp [hr] at h; subst h
        exact vsOk_cons (by simp [VOk]) (rangeList_ok lt add up stop inc f _ r hr)

theorem eok_alloc_dict {st : State N} (hs : HeapOk st) {kvs : List (String × Value N)} (h : KvsOk st kvs) :
    EOk st (.ok (.dict (st.alloc (.dict kvs)).1), (st.alloc (.dict kvs)).2) :=
  ⟨heapOk_alloc st _ hs h, ext_alloc st _, by simpa [EResOk, VOk, kindOf] using kindAt_alloc_new st (.dict kvs)⟩

theorem vsOk_values {st : State N} {kvs : List (String × Value N)} (h : KvsOk st kvs) : VsOk st (kvs.map fun kv => kv.2) := by
  intro v m; obtain ⟨kv, mk, rfl⟩ := List.mem_map.mp m; exact h kv mk

attribute [irreducible] OptOk

macro "eok_close" : tactic => `(tactic| first
  | (apply eok_err ‹HeapOk _›; trivial)
  | (apply eok_val ‹HeapOk _›; first
      | (simp [VOk, numOfNat]; done) | exact getD_ok ‹_› _ | exact kvGetD_ok ‹_› _ | assumption)
  | (apply newArr_ok ‹HeapOk _›; first
      | assumption | exact vsOk_reverse ‹_› | exact vsOk_nil _ | exact sortValues_ok ‹_› | exact vsOk_values ‹_›
      | exact rangeList_ok _ _ _ _ _ _ _ _ ‹_›
      | (apply vsOk_map; intro _; simp [VOk]; done))
  | (apply eok_put_arr ‹HeapOk _› ‹_›; first
      | exact vsOk_append ‹_› (vsOk_cons ‹_› (vsOk_nil _)) | exact vsOk_set ‹_› _ ‹_› | exact vsOk_eraseIdx ‹_› _ | exact vsOk_nil _)
  | (apply eok_put_arr' ‹HeapOk _› ‹_›; exact vsOk_nil _)
  | (apply eok_put_dict ‹HeapOk _› ‹_›; first
      | exact kvSet_ok ‹_› _ ‹_› | exact kvRemove_ok ‹_› _ | exact kvsOk_nil _)
  | (apply eok_put_dict' ‹HeapOk _› ‹_›; exact kvsOk_nil _)
  | (apply joinValues_ok _ _ _ _ _ ‹HeapOk _›; simp [VOk]; done)
  | exact eok_alloc_dict ‹HeapOk _› ‹_›)

macro "nat_close" : tactic => `(tactic| first
  | exact optOk_none _
  | (apply optOk_some; eok_close)
  | eok_close)

macro "nat_step" : tactic => `(tactic| first
  | nat_close
  | (apply optOk_map_arr; intro xs hx; have hxs := arr?_ok ‹HeapOk _› hx)
  | (apply optOk_map_dict; intro kvs hk; have hkvs := dict?_ok ‹HeapOk _› hk)
  | split)

set_option maxHeartbeats 1000000 in
theorem natives_opt (name : String) (self : Value N) (args : List (Value N)) (st : State N)
    (hs : HeapOk st) (hself : VOk st self) (hargs : VsOk st args) : OptOk st (nativePure name self args st) := by
  have h0 : VOk st (args.headD .empty) := headD_ok hargs
  have h1 : VOk st (args.tail.headD .empty) := headD_ok (vsOk_tail hargs)
  unfold nativePure
  dsimp only
  repeat (any_goals nat_step)


/-- the hypothesis of `eval_wf`, discharged -/
theorem natives_wf : NativesWF N := by
  intro name self args st r hs hself hargs h
  have := natives_opt name self args st hs hself hargs
  unfold OptOk at this
  exact this r h

end Icinga.C15.Proofs

/-
  C15 — the typing table of the 16 binary operators (doc/17-language-reference.md "Operators" + the case analysis of
  lib/base/value-operators.cpp), stated over operand CLASSES, and the proof that `binScalar` conforms to it.
-/
import IcingaModel.C15.Model

namespace Icinga.C15.Proofs

open Icinga.C15

set_option linter.unusedSectionVars false
variable {N : Type} [Num N]

/-- operand classes: the empty string is its own class because `Value::IsEmpty()` is true for it. -/
inductive Cls | empty | emptyStr | str | num | bool | arr | dict | other
  deriving DecidableEq, Repr

def cls : Value N → Cls
  | .empty => .empty
  | .str s => if s == "" then .emptyStr else .str
  | .num _ => .num
  | .bool _ => .bool
  | .arr _ => .arr
  | .dict _ => .dict
  | _ => .other

/-- what an operator yields for a pair of operand classes -/
inductive RCls
  | val (t : Ty)        -- always a value of this type
  | typeErr             -- always "Operator X cannot be applied to values of type …"
  | divErr              -- always "Right-hand side argument for operator X is Empty."
  | arith (t : Ty)      -- a value of this type, or the division-by-zero error, or a conversion the C++ leaves undefined / rejects
  | newArray            -- a new array (element-wise work on the heap)
  | newDict             -- a new dictionary
  | deepCmp             -- a Boolean computed element-wise over the arrays
  deriving DecidableEq, Repr

def Cls.isE : Cls → Bool | .empty | .emptyStr => true | _ => false
def Cls.numLike : Cls → Bool | .empty | .emptyStr | .num => true | _ => false
def Cls.isS : Cls → Bool | .str | .emptyStr => true | _ => false

def numPairC (l r : Cls) : Bool := (l == .num || l.isE) && (r == .num || r.isE) && !(l.isE && r.isE)
def strictC (l r : Cls) : Bool := (l.isE || l == .num) && !l.isS && (r.isE || r == .num) && !r.isS && !(l.isE && r.isE)
def strC (l r : Cls) : Bool := (l.isS || l.isE || l == .num) && (r.isS || r.isE || r == .num) && (!(l.isE && r.isE) || l.isS || r.isS)
def arrC (l r : Cls) : Bool := (l == .arr || l.isE) && (r == .arr || r.isE) && !(l.isE && r.isE)
def dictC (l r : Cls) : Bool := (l == .dict || l.isE) && (r == .dict || r.isE) && !(l.isE && r.isE)

/-- THE TABLE (rows: operator; the conditions are over the operand classes only).
    `numPairC`: both operands number-or-Empty, not both Empty.  `strictC`: the same, and neither is a string (the empty string
    counts as Empty for `IsEmpty()` but is still a string).  `strC`: string/Empty/number on both sides, and not (both Empty
    unless one of them is the empty string).  `arrC`/`dictC`: array/dictionary or Empty on both sides, not both Empty. -/
def opTable (op : BinOp) (l r : Cls) : RCls :=
  match op with
  | .add => if strictC l r then .val .number else if strC l r then .val .string else if numPairC l r then .val .number
            else if arrC l r then .newArray else if dictC l r then .newDict else .typeErr
  | .sub => if strictC l r then .val .number else if arrC l r then .newArray else .typeErr
  | .mul => if numPairC l r then .val .number else .typeErr
  | .div => if r.isE then .divErr else if (l.isE || l == .num) && r == .num then .arith .number else .typeErr
  | .mod => if r.isE then .divErr else if r == .num then .arith .number else .typeErr
  | .xor | .band | .bor | .shl | .shr => if numPairC l r then .arith .number else .typeErr
  | .eq | .ne => if l == .arr && r == .arr then .deepCmp else .val .boolean
  | .lt | .gt => if l.isS && r.isS then .val .boolean else if numPairC l r then .val .boolean
                 else if l == .arr && r == .arr then .deepCmp else .typeErr
  | .le | .ge => if l.isS && r.isS then .val .boolean else if numPairC l r then .val .boolean else .typeErr

/-- `binScalar`'s answer conforms to a table entry -/
def conforms (o : OpRes N) (c : RCls) : Prop :=
  match c, o with
  | .val t, .val v => v.ty = t
  | .typeErr, .err (.script .optype _) => True
  | .divErr, .err (.script .divzero _) => True
  | .arith t, .val v => v.ty = t
  | .arith _, .err (.script .divzero _) => True
  | .arith _, .err (.script .tonumber _) => True
  | .arith _, .err (.unmodelled _) => True
  | .newArray, .heap => True
  | .newDict, .heap => True
  | .deepCmp, .heap => True
  | _, _ => False

theorem isEmpty_cls (v : Value N) : v.isEmpty = (cls v).isE := by
  cases v with
  | str s => by_cases h : s = "" <;> simp [Value.isEmpty, cls, Cls.isE, h]
  | _ => simp [Value.isEmpty, cls, Cls.isE]
theorem isNumber_cls (v : Value N) : v.isNumber = (cls v == .num) := by
  cases v with
  | str s => by_cases h : s = "" <;> simp [Value.isNumber, cls, h]
  | _ => simp [Value.isNumber, cls]
theorem isString_cls (v : Value N) : v.isString = (cls v).isS := by
  cases v with
  | str s => by_cases h : s = "" <;> simp [Value.isString, cls, Cls.isS, h]
  | _ => simp [Value.isString, cls, Cls.isS]
theorem isArray_cls (v : Value N) : v.isArray = (cls v == .arr) := by
  cases v with
  | str s => by_cases h : s = "" <;> simp [Value.isArray, cls, h]
  | _ => simp [Value.isArray, cls]
theorem isDict_cls (v : Value N) : v.isDict = (cls v == .dict) := by
  cases v with
  | str s => by_cases h : s = "" <;> simp [Value.isDict, cls, h]
  | _ => simp [Value.isDict, cls]

theorem numPair_cls (l r : Value N) : numPair l r = numPairC (cls l) (cls r) := by
  simp only [numPair, numPairC, isEmpty_cls, isNumber_cls]
theorem numPairStrict_cls (l r : Value N) : numPairStrict l r = strictC (cls l) (cls r) := by
  simp only [numPairStrict, strictC, isEmpty_cls, isNumber_cls, isString_cls]
theorem strPair_cls (l r : Value N) : strPair l r = strC (cls l) (cls r) := by
  simp only [strPair, strC, isEmpty_cls, isNumber_cls, isString_cls]
theorem arrPair_cls (l r : Value N) : arrPair l r = arrC (cls l) (cls r) := by
  simp only [arrPair, arrC, isEmpty_cls, isArray_cls]
theorem dictPair_cls (l r : Value N) : dictPair l r = dictC (cls l) (cls r) := by
  simp only [dictPair, dictC, isEmpty_cls, isDict_cls]

theorem table_add (l r : Value N) : conforms (binScalar .add l r) (opTable .add (cls l) (cls r)) := by
  simp only [binScalar, opTable, numPair_cls, numPairStrict_cls, strPair_cls, arrPair_cls, dictPair_cls]
  repeat' split
  all_goals simp_all [conforms, Value.ty, opTypeErr]

theorem table_sub (l r : Value N) : conforms (binScalar .sub l r) (opTable .sub (cls l) (cls r)) := by
  simp only [binScalar, opTable, numPair_cls, numPairStrict_cls, strPair_cls, arrPair_cls, dictPair_cls]
  repeat' split
  all_goals simp_all [conforms, Value.ty, opTypeErr]

theorem table_mul (l r : Value N) : conforms (binScalar .mul l r) (opTable .mul (cls l) (cls r)) := by
  simp only [binScalar, opTable, numPair_cls]
  repeat' split
  all_goals simp_all [conforms, Value.ty, opTypeErr]


theorem table_div (l r : Value N) : conforms (binScalar .div l r) (opTable .div (cls l) (cls r)) := by
  simp only [binScalar, opTable, isEmpty_cls, isNumber_cls]
  repeat' split
  all_goals simp_all [conforms, Value.ty, opTypeErr]

theorem table_mod (l r : Value N) : conforms (binScalar .mod l r) (opTable .mod (cls l) (cls r)) := by
  simp only [binScalar, opTable, isEmpty_cls, isNumber_cls]
  repeat' split
  all_goals simp_all [conforms, Value.ty, opTypeErr]

theorem table_intBin (name : String) (iop : IntOp) (l r : Value N) :
    conforms (intBin name iop l r) (if numPairC (cls l) (cls r) then .arith .number else .typeErr) := by
  simp only [intBin, numPair_cls]
  repeat' split
  all_goals simp_all [conforms, Value.ty, opTypeErr]


theorem eqScalar_none (l r : Value N) : (eqScalar l r).isNone = (l.isArray && r.isArray) := by
  cases l <;> cases r <;>
    simp [eqScalar, Value.isNumber, Value.isBoolean, Value.isString, Value.isEmpty, Value.isObject, Value.isArray] <;>
    (repeat' split) <;> simp_all

theorem table_eq (l r : Value N) : conforms (binScalar .eq l r) (opTable .eq (cls l) (cls r)) := by
  have h := eqScalar_none l r
  simp only [binScalar, opTable, ← isArray_cls]
  cases he : eqScalar l r
  · have : (l.isArray && r.isArray) = true := by rw [← h, he]; rfl
    simp [this, conforms]
  · have : (l.isArray && r.isArray) = false := by rw [← h, he]; rfl
    simp [this, conforms, Value.ty]

theorem table_ne (l r : Value N) : conforms (binScalar .ne l r) (opTable .ne (cls l) (cls r)) := by
  have h := eqScalar_none l r
  simp only [binScalar, opTable, ← isArray_cls]
  cases he : eqScalar l r
  · have : (l.isArray && r.isArray) = true := by rw [← h, he]; rfl
    simp [this, conforms]
  · have : (l.isArray && r.isArray) = false := by rw [← h, he]; rfl
    simp [this, conforms, Value.ty]

theorem both_str (l r : Value N) : (l.isString && r.isString) = true ↔ ∃ a b, l = .str a ∧ r = .str b := by
  cases l <;> cases r <;> simp [Value.isString]

theorem table_rel (op : BinOp) (hop : op = .lt ∨ op = .gt ∨ op = .le ∨ op = .ge) (l r : Value N) :
    conforms (relOp op l r)
      (if (cls l).isS && (cls r).isS then .val .boolean else if numPairC (cls l) (cls r) then .val .boolean
       else if (cls l == .arr && cls r == .arr) && (op == .lt || op == .gt) then .deepCmp else .typeErr) := by
  simp only [← isString_cls, ← numPair_cls, ← isArray_cls]
  by_cases hs : (l.isString && r.isString) = true
  · obtain ⟨a, b, rfl, rfl⟩ := (both_str l r).1 hs
    simp [relOp, conforms, Value.ty, Value.isString]
  · have hn : ∀ a b, l = .str a → r = .str b → False := by
      intro a b h1 h2; exact hs ((both_str l r).2 ⟨a, b, h1, h2⟩)
    unfold relOp
    split
    · exact (hn _ _ rfl rfl).elim
    · simp only [hs]
      repeat' split
      all_goals simp_all [conforms, Value.ty, opTypeErr]


/-- all 16 operators -/
theorem table_all (op : BinOp) (l r : Value N) : conforms (binScalar op l r) (opTable op (cls l) (cls r)) := by
  cases op
  · exact table_add l r
  · exact table_sub l r
  · exact table_mul l r
  · exact table_div l r
  · exact table_mod l r
  · simpa only [binScalar, opTable] using table_intBin "&" .xor l r
  · simpa only [binScalar, opTable] using table_intBin "&" .band l r
  · simpa only [binScalar, opTable] using table_intBin "|" .bor l r
  · simpa only [binScalar, opTable] using table_intBin "<<" .shl l r
  · simpa only [binScalar, opTable] using table_intBin ">>" .shr l r
  · exact table_eq l r
  · exact table_ne l r
  · simpa [binScalar, opTable] using table_rel .lt (by simp) l r
  · simpa [binScalar, opTable] using table_rel .gt (by simp) l r
  · simpa [binScalar, opTable] using table_rel .le (by simp) l r
  · simpa [binScalar, opTable] using table_rel .ge (by simp) l r

/-- the rows answered with the heap: result type of `binop` -/
theorem table_heap (op : BinOp) (l r : Value N) (st : State N) (h : binScalar op l r = .heap) :
    (∀ v, (binop op l r st).1 = .ok v →
        v.ty = (match op with
                | .add => if arrPair l r then Ty.array else Ty.dictionary
                | .sub => Ty.array
                | _ => Ty.boolean)) ∧
    (∀ e, (binop op l r st).1 = .error e →
        (∃ m, e = .unmodelled m) ∨ (∃ m, e = .script .optype m) ∨ (∃ m, e = .internal m)) := by
  constructor
  · intro v hv
    unfold binop at hv
    rw [h] at hv
    simp only [State.alloc] at hv
    cases op <;> simp only [] at hv <;> (repeat' split at hv) <;> simp_all [Value.ty] <;> (subst_vars; simp [Value.ty])
  · intro e he
    unfold binop at he
    rw [h] at he
    simp only [State.alloc] at he
    cases op <;> simp only [] at he <;> (repeat' split at he) <;> first | (subst_vars; simp; done) | (simp_all; done) | (cases he; simp)

end Icinga.C15.Proofs

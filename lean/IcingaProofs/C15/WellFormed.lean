/-
  C15 — heap well-formedness: every address inside a value points to a heap cell of the matching kind.  Preserved by every
  step of the interpreter; consequence: the `Err.internal` outcomes (dangling address / wrong cell kind) are unreachable.
-/
import IcingaModel.C15.Model
import IcingaProofs.C15.Tactics

namespace Icinga.C15.Proofs

open Icinga.C15

set_option linter.unusedSectionVars false
variable {N : Type} [Num N]

inductive Kind | arr | dict | fn
  deriving DecidableEq, Repr

def kindOf : HObj N → Kind
  | .arr _ => .arr
  | .dict _ => .dict
  | .fn _ _ _ => .fn

def kindAt (st : State N) (a : Addr) : Option Kind := (st.heap[a]?).map kindOf

/-- a value is well-formed in a state -/
def VOk (st : State N) : Value N → Prop
  | .arr a => kindAt st a = some .arr
  | .dict a => kindAt st a = some .dict
  | .fn a => kindAt st a = some .fn
  | _ => True

def VsOk (st : State N) (vs : List (Value N)) : Prop := ∀ v ∈ vs, VOk st v
def KvsOk (st : State N) (kvs : List (String × Value N)) : Prop := ∀ kv ∈ kvs, VOk st kv.2

def ObjOk (st : State N) : HObj N → Prop
  | .arr xs => VsOk st xs
  | .dict kvs => KvsOk st kvs
  | .fn _ cap _ => KvsOk st cap

def HeapOk (st : State N) : Prop :=
  (∀ (a : Nat) (o : HObj N), st.heap[a]? = some o → ObjOk st o) ∧ KvsOk st st.globals

/-- the heap only grows and cells keep their kind -/
def Ext (st st' : State N) : Prop := ∀ a k, kindAt st a = some k → kindAt st' a = some k

theorem Ext.refl (st : State N) : Ext st st := fun _ _ h => h
theorem Ext.trans {a b c : State N} (h1 : Ext a b) (h2 : Ext b c) : Ext a c := fun x k h => h2 x k (h1 x k h)

theorem VOk.mono {st st' : State N} (h : Ext st st') {v : Value N} (hv : VOk st v) : VOk st' v := by
  cases v <;> simp only [VOk] at * <;> first | exact h _ _ hv | trivial

theorem VsOk.mono {st st' : State N} (h : Ext st st') {vs : List (Value N)} (hv : VsOk st vs) : VsOk st' vs :=
  fun v m => (hv v m).mono h
theorem KvsOk.mono {st st' : State N} (h : Ext st st') {vs : List (String × Value N)} (hv : KvsOk st vs) : KvsOk st' vs :=
  fun v m => (hv v m).mono h
theorem ObjOk.mono {st st' : State N} (h : Ext st st') {o : HObj N} (ho : ObjOk st o) : ObjOk st' o := by
  cases o <;> simp only [ObjOk] at * <;> first | exact VsOk.mono h ho | exact KvsOk.mono h ho

/-! ### allocation and update -/

theorem kindAt_alloc_new (st : State N) (o : HObj N) : kindAt (st.alloc o).2 (st.alloc o).1 = some (kindOf o) := by
  simp [kindAt, State.alloc]

theorem ext_alloc (st : State N) (o : HObj N) : Ext st (st.alloc o).2 := by
  intro a k h
  simp only [kindAt, State.alloc] at *
  by_cases ha : a < st.heap.size
  · simpa [Array.getElem?_push, Nat.ne_of_lt ha] using h
  · simp [Array.getElem?_eq_none (Nat.le_of_not_lt ha)] at h

theorem heapOk_alloc (st : State N) (o : HObj N) (hs : HeapOk st) (ho : ObjOk st o) : HeapOk (st.alloc o).2 := by
  have he := ext_alloc st o
  refine ⟨?_, KvsOk.mono he hs.2⟩
  intro a o' h
  simp only [State.alloc] at h
  by_cases ha : a = st.heap.size
  · subst ha
    simp at h; subst h
    exact ObjOk.mono he ho
  · rw [Array.getElem?_push] at h
    simp [ha] at h
    exact ObjOk.mono he (hs.1 a o' h)

theorem ext_put (st : State N) (a : Addr) (o : HObj N) (hk : kindAt st a = some (kindOf o)) : Ext st (st.put a o) := by
  intro b k h
  simp only [kindAt, State.put] at *
  by_cases hb : b = a
  · subst hb
    cases hg : st.heap[b]? with
    | none => simp [hg] at hk
    | some x =>
      have hlt : b < st.heap.size := by
        have := Array.getElem?_eq_some_iff.mp hg; exact this.1
      simp [Array.getElem?_setIfInBounds, hlt]
      rw [hg] at hk h; simp at hk h; rw [← h, hk]
  · simpa [Array.getElem?_setIfInBounds, Ne.symm hb] using h

theorem heapOk_put (st : State N) (a : Addr) (o : HObj N) (hs : HeapOk st) (hk : kindAt st a = some (kindOf o))
    (ho : ObjOk st o) : HeapOk (st.put a o) := by
  have he := ext_put st a o hk
  refine ⟨?_, KvsOk.mono he hs.2⟩
  intro b o' h
  simp only [State.put] at h
  by_cases hb : b = a
  · subst hb
    rw [Array.getElem?_setIfInBounds] at h
    simp at h
    obtain ⟨_, rfl⟩ := h
    exact ObjOk.mono he ho
  · rw [Array.getElem?_setIfInBounds] at h
    simp [Ne.symm hb] at h
    exact ObjOk.mono he (hs.1 b o' h)


/-! ### reading the heap -/

theorem arr?_heap {st : State N} {a : Addr} {xs : List (Value N)} (h : st.arr? a = some xs) : st.heap[a]? = some (.arr xs) := by
  unfold State.arr? State.get? at h
  split at h <;> simp_all

theorem dict?_heap {st : State N} {a : Addr} {kvs : List (String × Value N)} (h : st.dict? a = some kvs) :
    st.heap[a]? = some (.dict kvs) := by
  unfold State.dict? State.get? at h
  split at h <;> simp_all

theorem arr?_kind {st : State N} {a : Addr} {xs : List (Value N)} (h : st.arr? a = some xs) : kindAt st a = some .arr := by
  simp [kindAt, arr?_heap h, kindOf]
theorem dict?_kind {st : State N} {a : Addr} {kvs : List (String × Value N)} (h : st.dict? a = some kvs) : kindAt st a = some .dict := by
  simp [kindAt, dict?_heap h, kindOf]

theorem arr?_of_kind {st : State N} {a : Addr} (h : kindAt st a = some .arr) : ∃ xs, st.arr? a = some xs := by
  unfold kindAt at h
  cases hg : st.heap[a]? with
  | none => simp [hg] at h
  | some o =>
    cases o with
    | arr xs => exact ⟨xs, by simp [State.arr?, State.get?, hg]⟩
    | dict _ => simp [hg, kindOf] at h
    | fn _ _ _ => simp [hg, kindOf] at h

theorem dict?_of_kind {st : State N} {a : Addr} (h : kindAt st a = some .dict) : ∃ xs, st.dict? a = some xs := by
  unfold kindAt at h
  cases hg : st.heap[a]? with
  | none => simp [hg] at h
  | some o =>
    cases o with
    | dict xs => exact ⟨xs, by simp [State.dict?, State.get?, hg]⟩
    | arr _ => simp [hg, kindOf] at h
    | fn _ _ _ => simp [hg, kindOf] at h

theorem fn_of_kind {st : State N} {a : Addr} (h : kindAt st a = some .fn) : ∃ p c b, st.get? a = some (.fn p c b) := by
  unfold kindAt at h
  cases hg : st.heap[a]? with
  | none => simp [hg] at h
  | some o =>
    cases o with
    | fn p c b => exact ⟨p, c, b, by simp [State.get?, hg]⟩
    | arr _ => simp [hg, kindOf] at h
    | dict _ => simp [hg, kindOf] at h

theorem arr?_ok {st : State N} (hs : HeapOk st) {a : Addr} {xs : List (Value N)} (h : st.arr? a = some xs) : VsOk st xs :=
  hs.1 a _ (arr?_heap h)
theorem dict?_ok {st : State N} (hs : HeapOk st) {a : Addr} {kvs : List (String × Value N)} (h : st.dict? a = some kvs) : KvsOk st kvs :=
  hs.1 a _ (dict?_heap h)

/-! ### association lists -/

theorem kvGet_ok {st : State N} {l : List (String × Value N)} (hl : KvsOk st l) {k : String} {v : Value N}
    (h : kvGet k l = some v) : VOk st v := by
  induction l with
  | nil => simp [kvGet] at h
  | cons x r ih =>
    obtain ⟨a, w⟩ := x
    simp only [kvGet] at h
    split at h
    · cases h; exact hl (a, v) (by simp)
    · exact ih (fun kv m => hl kv (by simp [m])) h

theorem kvSet_ok {st : State N} {l : List (String × Value N)} (hl : KvsOk st l) (k : String) {v : Value N} (hv : VOk st v) :
    KvsOk st (kvSet k v l) := by
  induction l with
  | nil => intro kv m; simp [kvSet] at m; subst m; exact hv
  | cons x r ih =>
    obtain ⟨a, w⟩ := x
    simp only [kvSet]
    have hr : KvsOk st r := fun kv m => hl kv (by simp [m])
    split
    · intro kv m
      simp at m
      rcases m with rfl | rfl | m
      · exact hv
      · exact hl (a, w) (by simp)
      · exact hr kv m
    · split
      · intro kv m
        simp at m
        rcases m with rfl | m
        · exact hv
        · exact hr kv m
      · intro kv m
        simp at m
        rcases m with rfl | m
        · exact hl (a, w) (by simp)
        · exact ih hr kv m

theorem kvRemove_ok {st : State N} {l : List (String × Value N)} (hl : KvsOk st l) (k : String) : KvsOk st (kvRemove k l) := by
  induction l with
  | nil => simp [kvRemove]; exact hl
  | cons x r ih =>
    obtain ⟨a, w⟩ := x
    have hr : KvsOk st r := fun kv m => hl kv (by simp [m])
    simp only [kvRemove]
    split
    · exact hr
    · intro kv m
      simp at m
      rcases m with rfl | m
      · exact hl (a, w) (by simp)
      · exact ih hr kv m

theorem kvMerge_ok {st : State N} {d s : List (String × Value N)} (hd : KvsOk st d) (hs : KvsOk st s) : KvsOk st (kvMerge d s) := by
  unfold kvMerge
  induction s generalizing d with
  | nil => simpa using hd
  | cons x r ih =>
    simp only [List.foldl_cons]
    exact ih (kvSet_ok hd _ (hs x (by simp))) (fun kv m => hs kv (by simp [m]))


/-! ### results -/

def NotInternal : Err → Prop
  | .internal _ => False
  | _ => True

def OutOk (st : State N) : Out N → Prop
  | .val _ v => VOk st v
  | .vals vs => VsOk st vs
  | .ref p _ => VOk st p
  | .noref => True
  | .err e => NotInternal e

/-- the invariant on an evaluation result, relative to the state it started from -/
def ROk (st : State N) (r : Res N) : Prop := HeapOk r.2 ∧ Ext st r.2 ∧ OutOk r.2 r.1

def EResOk (st : State N) : Except Err (Value N) → Prop
  | .ok v => VOk st v
  | .error e => NotInternal e

/-- the same for the helpers that answer `Except Err Value × State` -/
def EOk (st : State N) (r : Except Err (Value N) × State N) : Prop := HeapOk r.2 ∧ Ext st r.2 ∧ EResOk r.2 r.1

theorem rok_liftE {st : State N} {r : Except Err (Value N) × State N} (h : EOk st r) : ROk st (liftE r) := by
  obtain ⟨h1, h2, h3⟩ := h
  unfold liftE
  split <;> simp_all [ROk, OutOk, EResOk]

theorem ROk.ext {a b : State N} {r : Res N} (h : Ext a b) (hr : ROk b r) : ROk a r := ⟨hr.1, h.trans hr.2.1, hr.2.2⟩

/-! ### field access -/

theorem getD_ok {st : State N} {xs : List (Value N)} (h : VsOk st xs) (n : Nat) : VOk st (xs.getD n .empty) := by
  rw [List.getD_eq_getElem?_getD]
  cases hg : xs[n]? with
  | none => simp [VOk]
  | some v => simp; exact h v (List.mem_of_getElem? hg)

theorem headD_ok {st : State N} {xs : List (Value N)} (h : VsOk st xs) : VOk st (xs.headD .empty) := by
  cases xs with
  | nil => simp [VOk]
  | cons x r => simp; exact h x (by simp)

theorem getField_ok {st : State N} (hs : HeapOk st) {c : Value N} (hc : VOk st c) (f : String) : EResOk st (getField st c f) := by
  unfold getField
  cases c with
  | arr a =>
    obtain ⟨xs, hx⟩ := arr?_of_kind hc
    simp only [hx]
    have hxs := arr?_ok hs hx
    repeat' split
    all_goals first
      | exact getD_ok hxs _
      | simp_all [EResOk, NotInternal, VOk, badField]
  | dict a =>
    obtain ⟨kvs, hx⟩ := dict?_of_kind hc
    simp only [hx]
    have hk := dict?_ok hs hx
    repeat' split
    all_goals first
      | (rename_i v hv; exact kvGet_ok hk hv)
      | simp_all [EResOk, NotInternal, VOk, badField]
  | ns =>
    simp only []
    split
    · rename_i v hv; exact kvGet_ok hs.2 hv
    · simp [EResOk, NotInternal]
  | _ => simp only []; repeat' split
         all_goals simp_all [EResOk, NotInternal, VOk, badField]


theorem vsOk_set {st : State N} {xs : List (Value N)} (h : VsOk st xs) (n : Nat) {v : Value N} (hv : VOk st v) : VsOk st (xs.set n v) := by
  intro x m
  rcases List.mem_or_eq_of_mem_set m with m | rfl
  · exact h x m
  · exact hv

theorem vsOk_append {st : State N} {xs ys : List (Value N)} (h1 : VsOk st xs) (h2 : VsOk st ys) : VsOk st (xs ++ ys) := by
  intro x m; rcases List.mem_append.mp m with m | m
  · exact h1 x m
  · exact h2 x m

theorem vsOk_replicate_empty (st : State N) (n : Nat) : VsOk st (List.replicate n (.empty : Value N)) := by
  intro x m; rw [List.eq_of_mem_replicate m]; simp [VOk]

theorem setField_ok {st st' : State N} (hs : HeapOk st) {c v : Value N} (hc : VOk st c) (hv : VOk st v) (f : String)
    (h : setField st c f v = .ok st') : HeapOk st' ∧ Ext st st' := by
  unfold setField at h
  cases c with
  | arr a =>
    have hk : kindAt st a = some Kind.arr := hc
    obtain ⟨xs, hx⟩ := arr?_of_kind hk
    have hxs := arr?_ok hs hx
    simp only [hx] at h
    repeat' split at h
    all_goals first
      | (cases h; done)
      | skip
    all_goals
      injection h with h
      subst h
      refine ⟨heapOk_put st a _ hs (by simpa [kindOf] using hk) ?_, ext_put st a _ (by simpa [kindOf] using hk)⟩
      simp only [ObjOk]
      apply vsOk_set _ _ hv
      first
        | exact vsOk_append hxs (vsOk_replicate_empty _ _)
        | exact hxs
  | dict a =>
    have hkd : kindAt st a = some Kind.dict := hc
    obtain ⟨kvs, hx⟩ := dict?_of_kind hkd
    have hk := dict?_ok hs hx
    simp only [hx] at h
    injection h with h
    subst h
    exact ⟨heapOk_put st a _ hs (by simpa [kindOf] using hkd) (kvSet_ok hk _ hv), ext_put st a _ (by simpa [kindOf] using hkd)⟩
  | ns =>
    simp only [] at h
    injection h with h
    subst h
    refine ⟨⟨?_, ?_⟩, ?_⟩
    · intro a o h; exact ObjOk.mono (fun _ _ h => h) (hs.1 a o h)
    · exact kvSet_ok (KvsOk.mono (fun _ _ h => h) hs.2) _ hv
    · exact fun _ _ h => h
  | _ => simp at h

theorem setField_err {st : State N} (hs : HeapOk st) {c v : Value N} (hc : VOk st c) (f : String) {e : Err}
    (h : setField st c f v = .error e) : NotInternal e := by
  unfold setField at h
  cases c with
  | arr a =>
    have hk : kindAt st a = some Kind.arr := hc
    obtain ⟨xs, hx⟩ := arr?_of_kind hk
    simp only [hx] at h
    repeat' split at h
    all_goals first
      | (injection h with h; subst h; simp [NotInternal]; done)
      | (cases h; done)
  | dict a =>
    have hkd : kindAt st a = some Kind.dict := hc
    obtain ⟨kvs, hx⟩ := dict?_of_kind hkd
    simp only [hx] at h
    cases h
  | _ => first
      | (simp only [] at h; injection h with h; subst h; simp [NotInternal]; done)
      | (simp at h; done)


/-! ### operators -/

def Scalar (v : Value N) : Prop := match v with | .num _ | .str _ | .bool _ | .empty => True | _ => False

theorem Scalar.ok {st : State N} {v : Value N} (h : Scalar v) : VOk st v := by
  cases v <;> simp_all [Scalar, VOk]

def OpResOk (heapCase : Prop) : OpRes N → Prop
  | .val v => Scalar v
  | .err e => NotInternal e
  | .heap => heapCase

theorem intBin_res (name : String) (iop : IntOp) (l r : Value N) : OpResOk False (intBin name iop l r) := by
  unfold intBin
  repeat' split
  all_goals simp_all [OpResOk, Scalar, NotInternal, opTypeErr]

theorem relOp_res (op : BinOp) (l r : Value N) : OpResOk (op = .lt ∨ op = .gt) (relOp op l r) := by
  unfold relOp
  repeat' split
  all_goals simp_all [OpResOk, Scalar, NotInternal, opTypeErr]

theorem OpResOk.weaken {p q : Prop} (h : p → q) {o : OpRes N} (ho : OpResOk p o) : OpResOk q o := by
  cases o <;> simp_all [OpResOk]

theorem binScalar_res (op : BinOp) (l r : Value N) :
    OpResOk (op = .add ∨ op = .sub ∨ op = .eq ∨ op = .ne ∨ op = .lt ∨ op = .gt) (binScalar op l r) := by
  cases op
  case xor => exact (intBin_res "&" .xor l r).weaken (by simp)
  case band => exact (intBin_res "&" .band l r).weaken (by simp)
  case bor => exact (intBin_res "|" .bor l r).weaken (by simp)
  case shl => exact (intBin_res "<<" .shl l r).weaken (by simp)
  case shr => exact (intBin_res ">>" .shr l r).weaken (by simp)
  case lt => exact (relOp_res .lt l r).weaken (by simp)
  case gt => exact (relOp_res .gt l r).weaken (by simp)
  case le => exact (relOp_res .le l r).weaken (by simp)
  case ge => exact (relOp_res .ge l r).weaken (by simp)
  all_goals
    simp only [binScalar]
    repeat' split
    all_goals simp_all [OpResOk, Scalar, NotInternal, opTypeErr]


theorem keep_ok {st : State N} (f : Value N → Option Bool) :
    ∀ (xs : List (Value N)), VsOk st xs → ∀ ks,
      xs.foldr (fun x (acc : Option (List (Value N))) =>
        match acc, f x with
        | some acc, some true => some acc
        | some acc, some false => some (x :: acc)
        | _, _ => none) (some []) = some ks → VsOk st ks
  | [], _, ks, h => by simp at h; subst h; intro v m; simp at m
  | x :: r, hx, ks, h => by
    simp only [List.foldr_cons] at h
    have hr : VsOk st r := fun v m => hx v (by simp [m])
    split at h
    · injection h with h; subst h; exact keep_ok f r hr _ ‹_›
    · injection h with h; subst h
      intro v m
      simp at m
      rcases m with rfl | m
      · exact hx _ (by simp)
      · exact keep_ok f r hr _ ‹_› v m
    · cases h

theorem arrGetD_ok {st : State N} (hs : HeapOk st) (a : Addr) : VsOk st ((st.arr? a).getD []) := by
  cases hx : st.arr? a with
  | none => intro v m; simp at m
  | some xs => simpa using arr?_ok hs hx

theorem dictGetD_ok {st : State N} (hs : HeapOk st) (a : Addr) : KvsOk st ((st.dict? a).getD []) := by
  cases hx : st.dict? a with
  | none => intro v m; simp at m
  | some xs => simpa using dict?_ok hs hx

theorem arrOf_ok {st : State N} (hs : HeapOk st) (v : Value N) :
    VsOk st (match v with | .arr a => (st.arr? a).getD [] | _ => []) := by
  cases v <;> first | exact arrGetD_ok hs _ | (intro v m; simp at m)

theorem dictOf_ok {st : State N} (hs : HeapOk st) (v : Value N) :
    KvsOk st (match v with | .dict a => (st.dict? a).getD [] | _ => []) := by
  cases v <;> first | exact dictGetD_ok hs _ | (intro v m; simp at m)

theorem binop_ok {st : State N} (hs : HeapOk st) (op : BinOp) (l r : Value N) : EOk st (binop op l r st) := by
  have hres := binScalar_res op l r
  unfold binop
  split
  · rename_i v hv
    rw [hv] at hres
    exact ⟨hs, Ext.refl _, Scalar.ok hres⟩
  · rename_i e he
    rw [he] at hres
    exact ⟨hs, Ext.refl _, hres⟩
  · rename_i hh
    rw [hh] at hres
    rcases hres with rfl | rfl | rfl | rfl | rfl | rfl <;> simp only []
    · -- add
      split
      · exact ⟨heapOk_alloc st _ hs (vsOk_append (arrOf_ok hs l) (arrOf_ok hs r)), ext_alloc st _, kindAt_alloc_new st _⟩
      · exact ⟨heapOk_alloc st _ hs (kvMerge_ok (dictOf_ok hs l) (dictOf_ok hs r)), ext_alloc st _, kindAt_alloc_new st _⟩
    · -- sub
      split
      · rename_i la
        split
        · exact ⟨heapOk_alloc st _ hs (arrGetD_ok hs la), ext_alloc st _, kindAt_alloc_new st _⟩
        · split
          · rename_i ks hk
            exact ⟨heapOk_alloc st _ hs (keep_ok _ _ (arrGetD_ok hs la) ks hk), ext_alloc st _, kindAt_alloc_new st _⟩
          · exact ⟨hs, Ext.refl _, by simp [EResOk, NotInternal]⟩
      · exact ⟨heapOk_alloc st _ hs (by intro v m; simp at m), ext_alloc st _, kindAt_alloc_new st _⟩
    all_goals
      (repeat' split)
      all_goals exact ⟨hs, Ext.refl _, by simp [EResOk, NotInternal, VOk]⟩


/-! ### frames, locals, the pure parts of references and assignments -/

def FrOk (st : State N) (fr : Frame N) : Prop := kindAt st fr.locals = some .dict ∧ VOk st fr.self

theorem FrOk.mono {st st' : State N} (h : Ext st st') {fr : Frame N} (hf : FrOk st fr) : FrOk st' fr :=
  ⟨h _ _ hf.1, hf.2.mono h⟩

theorem localsSet_ok {st : State N} (hs : HeapOk st) {fr : Frame N} (hf : FrOk st fr) (x : String) {v : Value N} (hv : VOk st v) :
    HeapOk (localsSet st fr x v) ∧ Ext st (localsSet st fr x v) := by
  unfold localsSet
  obtain ⟨kvs, hk⟩ := dict?_of_kind hf.1
  simp only [hk]
  exact ⟨heapOk_put st _ _ hs (by simpa [kindOf] using hf.1) (kvSet_ok (dict?_ok hs hk) _ hv),
         ext_put st _ _ (by simpa [kindOf] using hf.1)⟩

theorem localsGet_ok {st : State N} (hs : HeapOk st) {fr : Frame N} {x : String} {v : Value N}
    (h : localsGet st fr x = some v) : VOk st v := by
  unfold localsGet at h
  split at h
  · rename_i kvs hk; exact kvGet_ok (dict?_ok hs hk) h
  · cases h

theorem newArr_ok {st : State N} (hs : HeapOk st) {xs : List (Value N)} (hx : VsOk st xs) : EOk st (newArr st xs) :=
  ⟨heapOk_alloc st _ hs hx, ext_alloc st _, kindAt_alloc_new st _⟩

theorem refInit_ok {st st' : State N} (hs : HeapOk st) {p : Value N} (hp : VOk st p) (i : Bool) (x : String)
    (h : refInit i p x st = .ok st') : HeapOk st' ∧ Ext st st' := by
  unfold refInit at h
  split at h
  · split at h
    · cases h
    · have ha := heapOk_alloc st (.dict []) hs (by intro v m; simp at m)
      have he := ext_alloc st (.dict ([] : List (String × Value N)))
      have hk := kindAt_alloc_new st (.dict ([] : List (String × Value N)))
      obtain ⟨h1, h2⟩ := setField_ok ha (hp.mono he) (v := .dict (st.alloc (.dict [])).1) hk x h
      exact ⟨h1, he.trans h2⟩
    · cases h; exact ⟨hs, Ext.refl _⟩
  · cases h; exact ⟨hs, Ext.refl _⟩

theorem ite_getField_err {st : State N} (hs : HeapOk st) {p : Value N} (hp : VOk st p) (x : String) (c : Bool) {e : Err}
    (h : (if c = true then getField st p x else .ok .empty) = .error e) : NotInternal e := by
  cases c
  · simp at h
  · simp at h
    have := getField_ok hs hp x; rw [h] at this; exact this

theorem refInit_err {st : State N} (hs : HeapOk st) {p : Value N} (hp : VOk st p) (i : Bool) (x : String) {e : Err}
    (h : refInit i p x st = .error e) : NotInternal e := by
  unfold refInit at h
  generalize (if p.isObject = true then hasOwnField st p x else true) = c at h
  split at h
  · split at h
    · rename_i e' he'
      injection h with h; subst h
      exact ite_getField_err hs hp x c he'
    · have ha := heapOk_alloc st (.dict []) hs (by intro v m; simp at m)
      have he := ext_alloc st (.dict ([] : List (String × Value N)))
      exact setField_err ha (hp.mono he) x h
    · cases h
  · cases h

theorem refParent_ok {st : State N} (hs : HeapOk st) {p : Value N} (hp : VOk st p) (i : Bool) (x : String) :
    ROk st (refParent i p x st) := by
  unfold refParent
  split
  · rename_i e he
    exact ⟨hs, Ext.refl _, refInit_err hs hp i x he⟩
  · rename_i st2 h2
    obtain ⟨h1, he⟩ := refInit_ok hs hp i x h2
    exact ROk.ext he (rok_liftE ⟨h1, Ext.refl _, getField_ok h1 (hp.mono he) x⟩)

theorem assignValue_ok {st : State N} (hs : HeapOk st) {p v : Value N} (hp : VOk st p) (hv : VOk st v) (x : String) (op : SetOp) :
    EOk st (assignValue p x op v st) := by
  unfold assignValue
  split
  · exact ⟨hs, Ext.refl _, hv⟩
  · split
    · exact binop_ok hs _ _ _
    · rename_i e he
      have := getField_ok hs hp x; rw [he] at this
      exact ⟨hs, Ext.refl _, this⟩

theorem assign_ok {st : State N} (hs : HeapOk st) {p v : Value N} (hp : VOk st p) (hv : VOk st v) (x : String) (op : SetOp) :
    ROk st (assign p x op v st) := by
  obtain ⟨h1, h2, h3⟩ := assignValue_ok hs hp hv x op
  unfold assign
  split
  · rename_i e he
    rw [he] at h3
    exact ⟨h1, h2, h3⟩
  · rename_i nv hnv
    rw [hnv] at h3
    split
    · rename_i st4 h4
      obtain ⟨h5, h6⟩ := setField_ok h1 (hp.mono h2) h3 x h4
      exact ⟨h5, h2.trans h6, by simp [OutOk, VOk]⟩
    · rename_i e he
      exact ⟨h1, h2, setField_err h1 (hp.mono h2) x he⟩


/-! ### the combinators of `eval` -/

theorem kindAt_mono {st st' : State N} (h : Ext st st') {a : Addr} {k : Kind} (hk : kindAt st a = some k) : kindAt st' a = some k :=
  h a k hk

theorem rok_bindV {st : State N} {r : Res N} {k : Value N → State N → Res N} (h : ROk st r)
    (hk : ∀ v st1, HeapOk st1 → Ext st st1 → VOk st1 v → ROk st1 (k v st1)) : ROk st (bindV r k) := by
  unfold bindV; split
  · exact ROk.ext h.2.1 (hk _ _ h.1 h.2.1 h.2.2)
  · exact h

theorem rok_bindAny {st : State N} {r : Res N} {k : Value N → State N → Res N} (h : ROk st r)
    (hk : ∀ v st1, HeapOk st1 → Ext st st1 → VOk st1 v → ROk st1 (k v st1)) : ROk st (bindAny r k) := by
  unfold bindAny; split
  · exact ROk.ext h.2.1 (hk _ _ h.1 h.2.1 h.2.2)
  · exact h

theorem rok_bindCallee {st : State N} {r : Res N} {k : Value N → State N → Res N} (h : ROk st r)
    (hk : ∀ v st1, HeapOk st1 → Ext st st1 → VOk st1 v → ROk st1 (k v st1)) : ROk st (bindCallee r k) := by
  unfold bindCallee; split
  · exact ROk.ext h.2.1 (hk _ _ h.1 h.2.1 h.2.2)
  · exact ⟨h.1, h.2.1, by simp [OutOk, NotInternal]⟩
  · exact h

theorem rok_bindVals {st : State N} {r : Res N} {k : List (Value N) → State N → Res N} (h : ROk st r)
    (hk : ∀ vs st1, HeapOk st1 → Ext st st1 → VsOk st1 vs → ROk st1 (k vs st1)) : ROk st (bindVals r k) := by
  unfold bindVals; split
  · exact ROk.ext h.2.1 (hk _ _ h.1 h.2.1 h.2.2)
  · exact h

theorem rok_loopStep {st : State N} {r : Res N} {k : State N → Res N} (h : ROk st r)
    (hk : ∀ st1, HeapOk st1 → Ext st st1 → ROk st1 (k st1)) : ROk st (loopStep r k) := by
  unfold loopStep; split
  · exact h
  · exact ⟨h.1, h.2.1, by simp [OutOk, VOk]⟩
  · exact ROk.ext h.2.1 (hk _ h.1 h.2.1)
  · exact h

theorem rok_bindRef {st : State N} {r : Res N} {k1 : Value N → String → State N → Res N} {k2 : State N → Res N} (h : ROk st r)
    (h1 : ∀ p i st1, HeapOk st1 → Ext st st1 → VOk st1 p → ROk st1 (k1 p i st1))
    (h2 : ∀ st1, HeapOk st1 → Ext st st1 → ROk st1 (k2 st1)) : ROk st (bindRef r k1 k2) := by
  unfold bindRef; split
  · exact ROk.ext h.2.1 (h1 _ _ _ h.1 h.2.1 h.2.2)
  · exact ROk.ext h.2.1 (h2 _ h.1 h.2.1)
  · exact h

theorem rok_catchScript {st : State N} {r : Res N} {k : State N → Res N} (h : ROk st r)
    (hk : ∀ st1, HeapOk st1 → Ext st st1 → ROk st1 (k st1)) : ROk st (catchScript r k) := by
  unfold catchScript; split
  · exact ⟨h.1, h.2.1, by simp [OutOk, VOk]⟩
  · exact ROk.ext h.2.1 (hk _ h.1 h.2.1)
  · exact h

/-! ### what a task must satisfy, and the hypothesis on the natives -/

def TOk (st : State N) : Task N → Prop
  | .exprs _ acc => VsOk st acc
  | .block _ last => VOk st last
  | .forArr _ a _ _ => kindAt st a = some .arr
  | .forKeys _ _ d _ _ => kindAt st d = some .dict
  | .call fv self args => VOk st fv ∧ isFunction fv = true ∧ VOk st self ∧ VsOk st args
  | .iter _ cb items acc => VOk st cb ∧ isFunction cb = true ∧ VsOk st items ∧ VsOk st acc
  | _ => True

def EvWF (ev : Frame N → Task N → State N → Res N) : Prop :=
  ∀ fr t st, HeapOk st → FrOk st fr → TOk st t → ROk st (ev fr t st)

/-- the natives keep the heap well-formed and answer well-formed values (or a non-internal error) -/
def NativesWF (N : Type) [Num N] : Prop :=
  ∀ (name : String) (self : Value N) (args : List (Value N)) (st : State N) (r : NRes N),
    HeapOk st → VOk st self → VsOk st args → nativePure name self args st = some r → EOk st r

end Icinga.C15.Proofs

/-
  C15 — heap well-formedness is preserved by every step function of the interpreter.
-/
import IcingaProofs.C15.WellFormed

namespace Icinga.C15.Proofs

open Icinga.C15

set_option linter.unusedSectionVars false
set_option linter.unusedVariables false
variable {N : Type} [Num N]

theorem vsOk_cons {st : State N} {v : Value N} {vs : List (Value N)} (hv : VOk st v) (hvs : VsOk st vs) : VsOk st (v :: vs) := by
  intro x m; simp at m; rcases m with rfl | m
  · exact hv
  · exact hvs x m

theorem vsOk_nil (st : State N) : VsOk st ([] : List (Value N)) := by intro x m; simp at m

theorem vsOk_reverse {st : State N} {vs : List (Value N)} (h : VsOk st vs) : VsOk st vs.reverse := by
  intro x m; exact h x (List.mem_reverse.mp m)

theorem vsOk_tail {st : State N} {vs : List (Value N)} (h : VsOk st vs) : VsOk st vs.tail := by
  intro x m; exact h x (List.mem_of_mem_tail m)

theorem heapOk_nd {st : State N} (h : HeapOk st) (d : Nat) : HeapOk (st.noteDepth d) := h
theorem ext_nd (st : State N) (d : Nat) : Ext st (st.noteDepth d) := fun _ _ h => h

theorem notInternal_ite (c : Prop) [Decidable c] {a b : Err} (ha : NotInternal a) (hb : NotInternal b) :
    NotInternal (if c then a else b) := by
  split <;> assumption

/-- closes a result goal whose state is the current one -/
macro "wf_here" : tactic => `(tactic|
  (refine ⟨‹HeapOk _›, Ext.refl _, ?_⟩ <;> simp only [OutOk, VOk] <;>
    first | trivial | assumption | exact vsOk_reverse ‹_› | exact headD_ok ‹_› | (apply notInternal_ite <;> trivial)))

macro "wf_tok" : tactic => `(tactic|
  (simp only [TOk] <;> first
    | trivial | assumption
    | exact vsOk_cons ‹_› ‹_›
    | exact vsOk_nil _
    | exact ⟨‹_›, ‹_›, ‹_›, ‹_›⟩))

macro "wf_step" : tactic => `(tactic| first
  | assumption
  | (intro_forall; wf_sat)
  | (apply rok_bindV) | (apply rok_bindVals) | (apply rok_bindAny) | (apply rok_bindCallee) | (apply rok_loopStep)
  | (apply rok_bindRef) | (apply rok_catchScript) | (apply rok_liftE)
  | (apply refParent_ok) | (apply assign_ok) | (apply binop_ok) | (apply newArr_ok)
  | (apply ‹EvWF _›)
  | wf_tok
  | wf_here
  | split
  | dsimp only)

macro "wf_auto" : tactic => `(tactic| repeat (any_goals wf_step))

theorem zipLocals_ok {st : State N} :
    ∀ (ps : List String) (as : List (Value N)) (cap : List (String × Value N)), VsOk st as → KvsOk st cap →
      KvsOk st ((ps.zip as).foldl (fun d pa => kvSet pa.1 pa.2 d) cap)
  | [], _, cap, _, hc => by simpa using hc
  | _ :: _, [], cap, _, hc => by simpa using hc
  | p :: ps, a :: as, cap, ha, hc => by
    simp only [List.zip_cons_cons, List.foldl_cons]
    exact zipLocals_ok ps as _ (fun v m => ha v (by simp [m])) (kvSet_ok hc _ (ha a (by simp)))

theorem bitNot_res (st : State N) (v : Value N) : EResOk st (bitNot v) := by
  unfold bitNot
  repeat' split
  all_goals simp [EResOk, VOk, NotInternal]

theorem zip_kvs_ok {st : State N} : ∀ (ns : List String) (vs : List (Value N)), VsOk st vs → KvsOk st (ns.zip vs)
  | [], _, _ => by intro kv m; simp at m
  | _ :: _, [], _ => by intro kv m; simp at m
  | n :: ns, v :: vs, h => by
    intro kv m
    simp only [List.zip_cons_cons, List.mem_cons] at m
    rcases m with rfl | m
    · exact h v (by simp)
    · exact zip_kvs_ok ns vs (fun x mx => h x (by simp [mx])) kv m

section steps
variable (ev : Frame N → Task N → State N → Res N) (ih : EvWF ev) (hn : NativesWF N) {fr : Frame N} {st : State N}
  (hs : HeapOk st) (hf : FrOk st fr)
include ih hn hs hf

theorem wf_stepExprs (es : List (Expr N)) (acc : List (Value N)) (ha : VsOk st acc) : ROk st (stepExprs ev fr es acc st) := by
  unfold stepExprs; wf_auto

theorem wf_stepBlock (es : List (Expr N)) (last : Value N) (hl : VOk st last) : ROk st (stepBlock ev fr es last st) := by
  unfold stepBlock; wf_auto

theorem wf_stepWhile (c body : Expr N) : ROk st (stepWhile ev fr c body st) := by
  unfold stepWhile; wf_auto

theorem wf_stepForArr (k : String) (a : Addr) (i : Nat) (body : Expr N) (ha : kindAt st a = some .arr) :
    ROk st (stepForArr ev fr k a i body st) := by
  unfold stepForArr
  obtain ⟨xs, hx⟩ := arr?_of_kind ha
  simp only [hx]
  split
  · wf_here
  · obtain ⟨h1, h2⟩ := localsSet_ok hs hf k (getD_ok (arr?_ok hs hx) i)
    apply ROk.ext h2
    wf_sat
    wf_auto

theorem wf_stepForKeys (k v : String) (d : Addr) (keys : List String) (body : Expr N) (hd : kindAt st d = some .dict) :
    ROk st (stepForKeys ev fr k v d keys body st) := by
  unfold stepForKeys
  split
  · wf_here
  · rename_i key keys
    have hcur : VOk st (match st.dict? d with | some kvs => (kvGet key kvs).getD .empty | none => .empty) := by
      split
      · rename_i kvs hk
        cases hg : kvGet key kvs with
        | none => simp [VOk]
        | some x => simpa using kvGet_ok (dict?_ok hs hk) hg
      · simp [VOk]
    obtain ⟨h1, h2⟩ := localsSet_ok hs hf k (v := .str key) (by simp [VOk])
    obtain ⟨h3, h4⟩ := localsSet_ok h1 (hf.mono h2) v (hcur.mono h2)
    dsimp only
    apply ROk.ext (h2.trans h4)
    have h5 := h2.trans h4
    wf_sat
    wf_auto

theorem wf_stepIter (kind : IterKind) (cb : Value N) (items acc : List (Value N)) (hcb : VOk st cb) (hfn : isFunction cb = true)
    (hi : VsOk st items) (ha : VsOk st acc) : ROk st (stepIter ev fr kind cb items acc st) := by
  unfold stepIter
  split
  · split <;> first | wf_here | (apply rok_liftE; exact newArr_ok hs (vsOk_reverse ha))
  · rename_i x rest
    have hx : VOk st x := hi x (by simp)
    have hrest : VsOk st rest := fun v m => hi v (by simp [m])
    have hargs : VsOk st (match kind with | .reduce => [acc.headD .empty, x] | _ => [x]) := by
      split
      · exact vsOk_cons (headD_ok ha) (vsOk_cons hx (vsOk_nil _))
      · exact vsOk_cons hx (vsOk_nil _)
    dsimp only
    apply rok_bindV
    · apply ih _ _ _ hs hf
      exact ⟨hcb, hfn, by simp [VOk], hargs⟩
    · intro r st1 hs1 he1 hr1
      wf_sat
      split
      · apply ih _ _ _ hs1 ‹_›; exact ⟨‹_›, hfn, ‹_›, vsOk_cons hr1 ‹_›⟩
      · split
        · apply ih _ _ _ hs1 ‹_›
          refine ⟨‹_›, hfn, ‹_›, ?_⟩
          split
          · exact vsOk_cons ‹_› ‹_›
          · assumption
        · wf_here
      · split
        · split
          · wf_here
          · apply ih _ _ _ hs1 ‹_›; exact ⟨‹_›, hfn, ‹_›, ‹_›⟩
        · wf_here
      · split
        · split
          · wf_here
          · apply ih _ _ _ hs1 ‹_›; exact ⟨‹_›, hfn, ‹_›, ‹_›⟩
        · wf_here
      · apply ih _ _ _ hs1 ‹_›; exact ⟨‹_›, hfn, ‹_›, vsOk_cons hr1 (vsOk_nil _)⟩

theorem wf_stepRef (e : Expr N) (i : Bool) : ROk st (stepRef ev fr e i st) := by
  have hf1 := hf.1
  have hf2 := hf.2
  unfold stepRef
  split
  · -- variable
    repeat' split
    all_goals first
      | wf_here
      | (refine ⟨heapOk_nd hs _, ext_nd _ _, ?_⟩; simp only [OutOk, VOk]; first | trivial | assumption)
  · -- indexer
    dsimp only
    apply rok_bindV
    · apply rok_bindRef
      · apply ih _ _ _ hs hf; trivial
      · intro p x st1 hs1 he1 hp1
        exact refParent_ok hs1 hp1 i x
      · intro st1 hs1 he1
        wf_sat
        apply rok_bindAny
        · apply ih _ _ _ hs1 ‹_›; trivial
        · intro v st2 hs2 he2 hv2; wf_here
    · intro p st3 hs3 he3 hp3
      wf_sat
      apply rok_bindAny
      · apply ih _ _ _ hs3 ‹_›; trivial
      · intro iv st4 hs4 he4 hv4
        wf_sat
        split <;> wf_here
  · wf_here

theorem wf_stepCall (fv self : Value N) (args : List (Value N)) (hfv : VOk st fv) (hfn : isFunction fv = true)
    (hself : VOk st self) (hargs : VsOk st args) : ROk st (stepCall ev fr fv self args st) := by
  unfold stepCall
  split
  · -- closure
    rename_i a
    have hk : kindAt st a = some Kind.fn := hfv
    obtain ⟨ps, cap, body, hg⟩ := fn_of_kind hk
    simp only [hg]
    have hcap : KvsOk st cap := hs.1 a (.fn ps cap body) (by simpa [State.get?] using hg)
    split
    · wf_here
    · have hloc := zipLocals_ok ps args cap hargs hcap
      generalize (List.foldl (fun d pa => kvSet pa.1 pa.2 d) cap (ps.zip args)) = loc at hloc ⊢
      have ha := heapOk_alloc st (.dict loc) hs hloc
      have he := ext_alloc st (.dict loc)
      have hkn := kindAt_alloc_new st (.dict loc)
      apply ROk.ext he
      apply rok_bindAny
      · apply ih _ _ _ ha
        · refine ⟨by simpa [kindOf] using hkn, ?_⟩
          dsimp only
          split
          · simp [VOk]
          · exact hself.mono he
        · trivial
      · intro v st2 hs2 he2 hv2; wf_here
  · -- native
    rename_i name
    split
    · split
      · wf_here
      · cases self with
        | arr a =>
          simp only []
          have hka : kindAt st a = some Kind.arr := hself
          obtain ⟨xs, hx⟩ := arr?_of_kind hka
          have hxs := arr?_ok hs hx
          have hcb : VOk st (args.headD .empty) := headD_ok hargs
          split
          · wf_here
          · rename_i hisfn
            have hisfn' : isFunction (args.headD .empty) = true := by simpa using hisfn
            simp only [hx]
            split
            · wf_here
            · rename_i x r hkind
              apply ih _ _ _ hs hf
              exact ⟨hcb, hisfn', fun v m => hxs v (by simp [m]), vsOk_cons (hxs x (by simp)) (vsOk_nil _)⟩
            · apply ih _ _ _ hs hf
              exact ⟨hcb, hisfn', hxs, vsOk_nil _⟩
        | _ => simp only []; wf_here
    · split
      · rename_i r st' hnp
        obtain ⟨h1, h2, h3⟩ := hn name self args st (r, st') hs hself hargs hnp
        apply rok_liftE
        exact ⟨h1, h2, h3⟩
      · wf_here
  · -- not a function: excluded by the task invariant
    cases fv <;> simp_all [isFunction]

theorem wf_node_null  : ROk st (stepNode ev fr (.null) st) := by
  have hf1 := hf.1
  have hf2 := hf.2
  simp only [stepNode]
  wf_auto

theorem wf_node_num (n : N) : ROk st (stepNode ev fr (.num n) st) := by
  have hf1 := hf.1
  have hf2 := hf.2
  simp only [stepNode]
  wf_auto

theorem wf_node_bool (b : Bool) : ROk st (stepNode ev fr (.bool b) st) := by
  have hf1 := hf.1
  have hf2 := hf.2
  simp only [stepNode]
  wf_auto

theorem wf_node_str (s : String) : ROk st (stepNode ev fr (.str s) st) := by
  have hf1 := hf.1
  have hf2 := hf.2
  simp only [stepNode]
  wf_auto

theorem wf_node_var (x : String) : ROk st (stepNode ev fr (.var x) st) := by
  have hf2 := hf.2
  simp only [stepNode]
  split
  · rename_i v hv
    exact ⟨hs, Ext.refl _, localsGet_ok hs hv⟩
  · split
    · apply rok_liftE
      exact ⟨hs, Ext.refl _, getField_ok hs hf2 x⟩
    · split
      · split
        · wf_here
        · exact ⟨heapOk_nd hs _, ext_nd _ _, by simp [OutOk, VOk]⟩
      · split
        · exact ⟨heapOk_nd hs _, ext_nd _ _, by simp [OutOk, NotInternal, stackErr]⟩
        · split
          · rename_i v hv
            exact ⟨heapOk_nd hs _, ext_nd _ _, kvGet_ok hs.2 hv⟩
          · exact ⟨heapOk_nd hs _, ext_nd _ _, by simp [OutOk, NotInternal]⟩

theorem wf_node_scope (sc : Scope) : ROk st (stepNode ev fr (.scope sc) st) := by
  have hf1 := hf.1
  have hf2 := hf.2
  simp only [stepNode]
  wf_auto

theorem wf_node_bnot (a : Expr N) : ROk st (stepNode ev fr (.bnot a) st) := by
  simp only [stepNode]
  apply rok_bindV
  · apply ih _ _ _ hs hf; trivial
  · intro v st1 hs1 he1 hv1
    apply rok_liftE
    exact ⟨hs1, Ext.refl _, bitNot_res st1 v⟩

theorem wf_node_lnot (a : Expr N) : ROk st (stepNode ev fr (.lnot a) st) := by
  have hf1 := hf.1
  have hf2 := hf.2
  simp only [stepNode]
  wf_auto

theorem wf_node_bin (op : BinOp) (a b : Expr N) : ROk st (stepNode ev fr (.bin op a b) st) := by
  have hf1 := hf.1
  have hf2 := hf.2
  simp only [stepNode]
  wf_auto

theorem wf_node_and (a b : Expr N) : ROk st (stepNode ev fr (.and a b) st) := by
  have hf1 := hf.1
  have hf2 := hf.2
  simp only [stepNode]
  wf_auto

theorem wf_node_or (a b : Expr N) : ROk st (stepNode ev fr (.or a b) st) := by
  have hf1 := hf.1
  have hf2 := hf.2
  simp only [stepNode]
  wf_auto

theorem wf_node_isIn (a b : Expr N) : ROk st (stepNode ev fr (.isIn a b) st) := by
  have hf1 := hf.1
  have hf2 := hf.2
  simp only [stepNode]
  wf_auto

theorem wf_node_notIn (a b : Expr N) : ROk st (stepNode ev fr (.notIn a b) st) := by
  have hf1 := hf.1
  have hf2 := hf.2
  simp only [stepNode]
  wf_auto

theorem wf_node_index (a b : Expr N) : ROk st (stepNode ev fr (.index a b) st) := by
  simp only [stepNode]
  apply rok_bindV
  · apply ih _ _ _ hs hf; trivial
  · intro va st1 hs1 he1 hva
    wf_sat
    apply rok_bindV
    · apply ih _ _ _ hs1 ‹_›; trivial
    · intro vb st2 hs2 he2 hvb
      wf_sat
      split
      · apply rok_liftE
        exact ⟨hs2, Ext.refl _, getField_ok hs2 ‹_› _⟩
      · wf_here

theorem wf_callWith (args : List (Expr N)) (self vf : Value N) (hself : VOk st self) (hvf : VOk st vf) :
    ROk st (callWith ev fr args self vf st) := by
  unfold callWith
  split
  · wf_here
  · apply rok_bindVals
    · apply ih _ _ _ hs hf; exact vsOk_nil _
    · intro vs st2 hs2 he2 hvs
      wf_sat
      apply ih _ _ _ hs2 ‹_›
      exact ⟨‹_›, by simp [isFunction], ‹_›, hvs⟩
  · apply rok_bindVals
    · apply ih _ _ _ hs hf; exact vsOk_nil _
    · intro vs st2 hs2 he2 hvs
      wf_sat
      apply ih _ _ _ hs2 ‹_›
      exact ⟨‹_›, by simp [isFunction], ‹_›, hvs⟩
  · wf_here

theorem wf_node_call (f : Expr N) (args : List (Expr N)) : ROk st (stepNode ev fr (.call f args) st) := by
  simp only [stepNode]
  apply rok_bindRef
  · apply ih _ _ _ hs hf; trivial
  · intro self index st1 hs1 he1 hself
    wf_sat
    have hg := getField_ok hs1 hself index
    split
    · rename_i vf hvf
      rw [hvf] at hg
      exact wf_callWith ev ih hn hs1 ‹_› args self vf hself hg
    · rename_i e he
      rw [he] at hg
      exact ⟨hs1, Ext.refl _, hg⟩
  · intro st1 hs1 he1
    wf_sat
    apply rok_bindCallee
    · apply ih _ _ _ hs1 ‹_›; trivial
    · intro vf st2 hs2 he2 hvf
      wf_sat
      exact wf_callWith ev ih hn hs2 ‹_› args .empty vf (by simp [VOk]) hvf

theorem wf_node_array (es : List (Expr N)) : ROk st (stepNode ev fr (.array es) st) := by
  have hf1 := hf.1
  have hf2 := hf.2
  simp only [stepNode]
  wf_auto

theorem wf_node_dict (body : List (Expr N)) : ROk st (stepNode ev fr (.dict body) st) := by
  simp only [stepNode]
  have ha := heapOk_alloc st (.dict []) hs (by intro v m; simp at m)
  have he := ext_alloc st (.dict ([] : List (String × Value N)))
  have hk := kindAt_alloc_new st (.dict ([] : List (String × Value N)))
  apply ROk.ext he
  apply rok_bindV
  · apply ih _ _ _ ha
    · exact ⟨he _ _ hf.1, by simpa [VOk, kindOf] using hk⟩
    · simp [TOk, VOk]
  · intro _ st2 hs2 he2 _
    refine ⟨hs2, Ext.refl _, ?_⟩
    simp only [OutOk, VOk]
    exact he2 _ _ (by simpa [kindOf] using hk)

theorem wf_node_block (body : List (Expr N)) : ROk st (stepNode ev fr (.block body) st) := by
  have hf1 := hf.1
  have hf2 := hf.2
  simp only [stepNode]
  wf_auto

theorem wf_node_set (lhs : Expr N) (op : SetOp) (rhs : Expr N) : ROk st (stepNode ev fr (.set lhs op rhs) st) := by
  have hf1 := hf.1
  have hf2 := hf.2
  simp only [stepNode]
  wf_auto

theorem wf_node_cond (c t : Expr N) (f : Option (Expr N)) : ROk st (stepNode ev fr (.cond c t f) st) := by
  have hf1 := hf.1
  have hf2 := hf.2
  simp only [stepNode]
  wf_auto

theorem wf_node_while (c body : Expr N) : ROk st (stepNode ev fr (.while c body) st) := by
  have hf1 := hf.1
  have hf2 := hf.2
  simp only [stepNode]
  wf_auto

theorem wf_node_for (k v : String) (e body : Expr N) : ROk st (stepNode ev fr (.for k v e body) st) := by
  simp only [stepNode]
  apply rok_bindV
  · apply ih _ _ _ hs hf; trivial
  · intro cv st1 hs1 he1 hcv
    wf_sat
    split
    · split
      · wf_here
      · apply ih _ _ _ hs1 ‹_›; exact hcv
    · split
      · wf_here
      · apply ih _ _ _ hs1 ‹_›; exact hcv
    · wf_here
    · wf_here
    · wf_here

theorem wf_node_func (ps us : List String) (body : Expr N) : ROk st (stepNode ev fr (.func ps us body) st) := by
  simp only [stepNode]
  apply rok_bindVals
  · apply ih _ _ _ hs hf; exact vsOk_nil _
  · intro vs st1 hs1 he1 hvs
    generalize sortedNames us = names
    have ha := heapOk_alloc st1 (.fn ps (names.zip vs) body) hs1 (zip_kvs_ok names vs hvs)
    have hk := kindAt_alloc_new st1 (.fn ps (names.zip vs) body)
    exact ⟨ha, ext_alloc _ _, by simpa [OutOk, VOk, kindOf] using hk⟩

theorem wf_node_ret (a : Expr N) : ROk st (stepNode ev fr (.ret a) st) := by
  have hf1 := hf.1
  have hf2 := hf.2
  simp only [stepNode]
  wf_auto

theorem wf_node_brk  : ROk st (stepNode ev fr (.brk) st) := by
  have hf1 := hf.1
  have hf2 := hf.2
  simp only [stepNode]
  wf_auto

theorem wf_node_cont  : ROk st (stepNode ev fr (.cont) st) := by
  have hf1 := hf.1
  have hf2 := hf.2
  simp only [stepNode]
  wf_auto

theorem wf_node_throw (a : Expr N) : ROk st (stepNode ev fr (.throw a) st) := by
  have hf1 := hf.1
  have hf2 := hf.2
  simp only [stepNode]
  wf_auto

theorem wf_node_try (a b : Expr N) : ROk st (stepNode ev fr (.try a b) st) := by
  have hf1 := hf.1
  have hf2 := hf.2
  simp only [stepNode]
  wf_auto

theorem wf_stepNode (e : Expr N) : ROk st (stepNode ev fr e st) := by
  cases e
  · exact wf_node_null ev ih hn hs hf
  · exact wf_node_num ev ih hn hs hf _
  · exact wf_node_bool ev ih hn hs hf _
  · exact wf_node_str ev ih hn hs hf _
  · exact wf_node_var ev ih hn hs hf _
  · exact wf_node_scope ev ih hn hs hf _
  · exact wf_node_bnot ev ih hn hs hf _
  · exact wf_node_lnot ev ih hn hs hf _
  · exact wf_node_bin ev ih hn hs hf _ _ _
  · exact wf_node_and ev ih hn hs hf _ _
  · exact wf_node_or ev ih hn hs hf _ _
  · exact wf_node_isIn ev ih hn hs hf _ _
  · exact wf_node_notIn ev ih hn hs hf _ _
  · exact wf_node_index ev ih hn hs hf _ _
  · exact wf_node_call ev ih hn hs hf _ _
  · exact wf_node_array ev ih hn hs hf _
  · exact wf_node_dict ev ih hn hs hf _
  · exact wf_node_block ev ih hn hs hf _
  · exact wf_node_set ev ih hn hs hf _ _ _
  · exact wf_node_cond ev ih hn hs hf _ _ _
  · exact wf_node_while ev ih hn hs hf _ _
  · exact wf_node_for ev ih hn hs hf _ _ _ _
  · exact wf_node_func ev ih hn hs hf _ _ _
  · exact wf_node_ret ev ih hn hs hf _
  · exact wf_node_brk ev ih hn hs hf
  · exact wf_node_cont ev ih hn hs hf
  · exact wf_node_throw ev ih hn hs hf _
  · exact wf_node_try ev ih hn hs hf _ _

theorem wf_stepExpr (e : Expr N) : ROk st (stepExpr ev fr e st) := by
  unfold stepExpr
  split
  · exact ⟨hs, Ext.refl _, by simp [OutOk, NotInternal, stackErr]⟩
  · have hs' : HeapOk (st.noteDepth (fr.depth + 1)) := heapOk_nd hs _
    have hf' : FrOk (st.noteDepth (fr.depth + 1)) { fr with depth := fr.depth + 1 } := ⟨hf.1, hf.2⟩
    exact ROk.ext (ext_nd st _) (wf_stepNode ev ih hn hs' hf' e)

end steps

/-- **Heap well-formedness is an invariant of evaluation** (given the natives keep it): from a well-formed heap, frame and
    task, every evaluation ends in a well-formed heap that extends the initial one, with a well-formed outcome that is never
    an `Err.internal`. -/
theorem eval_wf (hn : NativesWF N) : ∀ (fuel : Nat), EvWF (eval (N := N) fuel)
  | 0 => by
    intro fr t st hs _ _
    simp only [eval]
    exact ⟨hs, Ext.refl _, by simp [OutOk, NotInternal]⟩
  | f + 1 => by
    have ih : EvWF (eval (N := N) f) := eval_wf hn f
    intro fr t st hs hf ht
    cases t <;> simp only [eval]
    · exact wf_stepExpr _ ih hn hs hf _
    · exact wf_stepExprs _ ih hn hs hf _ _ ht
    · exact wf_stepBlock _ ih hn hs hf _ _ ht
    · exact wf_stepRef _ ih hn hs hf _ _
    · exact wf_stepWhile _ ih hn hs hf _ _
    · exact wf_stepForArr _ ih hn hs hf _ _ _ _ ht
    · exact wf_stepForKeys _ ih hn hs hf _ _ _ _ _ ht
    · exact wf_stepCall _ ih hn hs hf _ _ _ ht.1 ht.2.1 ht.2.2.1 ht.2.2.2
    · exact wf_stepIter _ ih hn hs hf _ _ _ _ ht.1 ht.2.1 ht.2.2.1 ht.2.2.2

theorem initState_ok : HeapOk (initState : State N) := by
  refine ⟨?_, ?_⟩
  · intro a o h
    simp only [initState] at h
    cases a with
    | zero => simp at h; subst h; intro kv m; simp at m
    | succ n => simp at h
  · intro kv m; simp [initState] at m

theorem initFrame_ok : FrOk (initState : State N) initFrame := by
  refine ⟨?_, ?_⟩
  · simp [kindAt, initState, initFrame, kindOf]
  · simp [initFrame, VOk]

end Icinga.C15.Proofs

/-
  C15 — heap well-formedness is preserved by every step function of the interpreter.
-/
import IcingaProofs.C15.WellFormed

namespace Icinga.C15.Proofs

open Icinga.C15

set_option linter.unusedSectionVars false
set_option linter.unusedVariables false
variable {N : Type} [Num N]

theorem vsOk_cons {st : State N} {v : Value N} {vs : List (Value N)} (hv : VOk st v) (hvs : VsOk st vs) : VsOk st (v :: vs) := by
  intro x m; simp at m; rcases m with rfl | m
  · exact hv
  · exact hvs x m

theorem vsOk_nil (st : State N) : VsOk st ([] : List (Value N)) := by intro x m; simp at m

theorem vsOk_reverse {st : State N} {vs : List (Value N)} (h : VsOk st vs) : VsOk st vs.reverse := by
  intro x m; exact h x (List.mem_reverse.mp m)

theorem vsOk_tail {st : State N} {vs : List (Value N)} (h : VsOk st vs) : VsOk st vs.tail := by
  intro x m; exact h x (List.mem_of_mem_tail m)

theorem heapOk_nd {st : State N} (h : HeapOk st) (d : Nat) : HeapOk (st.noteDepth d) := h
theorem ext_nd (st : State N) (d : Nat) : Ext st (st.noteDepth d) := fun _ _ h => h

theorem notInternal_ite (c : Prop) [Decidable c] {a b : Err} (ha : NotInternal a) (hb : NotInternal b) :
    NotInternal (if c then a else b) := by
  split <;> assumption

/-- closes a result goal whose state is the current one -/
macro "wf_here" : tactic => `(tactic|
  (refine ⟨‹HeapOk _›, Ext.refl _, ?_⟩ <;> simp only [OutOk, VOk] <;>
    first | trivial | assumption | exact vsOk_reverse ‹_› | exact headD_ok ‹_› | (apply notInternal_ite <;> trivial)))

macro "wf_tok" : tactic => `(tactic|
  (simp only [TOk] <;> first
    | trivial | assumption
    | exact vsOk_cons ‹_› ‹_›
    | exact vsOk_nil _
    | exact ⟨‹_›, ‹_›, ‹_›, ‹_›⟩))

macro "wf_step" : tactic => `(tactic| first
  | assumption
  | (intro_forall; wf_sat)
  | (apply rok_bindV) | (apply rok_bindVals) | (apply rok_bindAny) | (apply rok_bindCallee) | (apply rok_loopStep)
  | (apply rok_bindRef) | (apply rok_catchScript) | (apply rok_liftE)
  | (apply refParent_ok) | (apply assign_ok) | (apply binop_ok) | (apply newArr_ok)
  | (apply ‹EvWF _›)
  | wf_tok
  | wf_here
  | split
  | dsimp only)

macro "wf_auto" : tactic => `(tactic| repeat (any_goals wf_step))

theorem zipLocals_ok {st : State N} :
    ∀ (ps : List String) (as : List (Value N)) (cap : List (String × Value N)), VsOk st as → KvsOk st cap →
      KvsOk st ((ps.zip as).foldl (fun d pa => kvSet pa.1 pa.2 d) cap)
  | [], _, cap, _, hc => by simpa using hc
  | _ :: _, [], cap, _, hc => by simpa using hc
  | p :: ps, a :: as, cap, ha, hc => by
    simp only [List.zip_cons_cons, List.foldl_cons]
    exact zipLocals_ok ps as _ (fun v m => ha v (by simp [m])) (kvSet_ok hc _ (ha a (by simp)))

section steps
variable (ev : Frame N → Task N → State N → Res N) (ih : EvWF ev) (hn : NativesWF N) {fr : Frame N} {st : State N}
  (hs : HeapOk st) (hf : FrOk st fr)
include ih hn hs hf

theorem wf_stepExprs (es : List (Expr N)) (acc : List (Value N)) (ha : VsOk st acc) : ROk st (stepExprs ev fr es acc st) := by
  unfold stepExprs; wf_auto

theorem wf_stepBlock (es : List (Expr N)) (last : Value N) (hl : VOk st last) : ROk st (stepBlock ev fr es last st) := by
  unfold stepBlock; wf_auto

theorem wf_stepWhile (c body : Expr N) : ROk st (stepWhile ev fr c body st) := by
  unfold stepWhile; wf_auto

theorem wf_stepForArr (k : String) (a : Addr) (i : Nat) (body : Expr N) (ha : kindAt st a = some .arr) :
    ROk st (stepForArr ev fr k a i body st) := by
  unfold stepForArr
  obtain ⟨xs, hx⟩ := arr?_of_kind ha
  simp only [hx]
  split
  · wf_here
  · obtain ⟨h1, h2⟩ := localsSet_ok hs hf k (getD_ok (arr?_ok hs hx) i)
    apply ROk.ext h2
    wf_sat
    wf_auto

theorem wf_stepForKeys (k v : String) (d : Addr) (keys : List String) (body : Expr N) (hd : kindAt st d = some .dict) :
    ROk st (stepForKeys ev fr k v d keys body st) := by
  unfold stepForKeys
  split
  · wf_here
  · rename_i key keys
    have hcur : VOk st (match st.dict? d with | some kvs => (kvGet key kvs).getD .empty | none => .empty) := by
      split
      · rename_i kvs hk
        cases hg : kvGet key kvs with
        | none => simp [VOk]
        | some x => simpa using kvGet_ok (dict?_ok hs hk) hg
      · simp [VOk]
    obtain ⟨h1, h2⟩ := localsSet_ok hs hf k (v := .str key) (by simp [VOk])
    obtain ⟨h3, h4⟩ := localsSet_ok h1 (hf.mono h2) v (hcur.mono h2)
    dsimp only
    apply ROk.ext (h2.trans h4)
    have h5 := h2.trans h4
    wf_sat
    wf_auto

theorem wf_stepIter (kind : IterKind) (cb : Value N) (items acc : List (Value N)) (hcb : VOk st cb) (hfn : isFunction cb = true)
    (hi : VsOk st items) (ha : VsOk st acc) : ROk st (stepIter ev fr kind cb items acc st) := by
  unfold stepIter
  split
  · split <;> first | wf_here | (apply rok_liftE; exact newArr_ok hs (vsOk_reverse ha))
  · rename_i x rest
    have hx : VOk st x := hi x (by simp)
    have hrest : VsOk st rest := fun v m => hi v (by simp [m])
    have hargs : VsOk st (match kind with | .reduce => [acc.headD .empty, x] | _ => [x]) := by
      split
      · exact vsOk_cons (headD_ok ha) (vsOk_cons hx (vsOk_nil _))
      · exact vsOk_cons hx (vsOk_nil _)
    dsimp only
    apply rok_bindV
    · apply ih _ _ _ hs hf
      exact ⟨hcb, hfn, by simp [VOk], hargs⟩
    · intro r st1 hs1 he1 hr1
      wf_sat
      split
      · apply ih _ _ _ hs1 ‹_›; exact ⟨‹_›, hfn, ‹_›, vsOk_cons hr1 ‹_›⟩
      · split
        · apply ih _ _ _ hs1 ‹_›
          refine ⟨‹_›, hfn, ‹_›, ?_⟩
          split
          · exact vsOk_cons ‹_› ‹_›
          · assumption
        · wf_here
      · split
        · split
          · wf_here
          · apply ih _ _ _ hs1 ‹_›; exact ⟨‹_›, hfn, ‹_›, ‹_›⟩
        · wf_here
      · split
        · split
          · wf_here
          · apply ih _ _ _ hs1 ‹_›; exact ⟨‹_›, hfn, ‹_›, ‹_›⟩
        · wf_here
      · apply ih _ _ _ hs1 ‹_›; exact ⟨‹_›, hfn, ‹_›, vsOk_cons hr1 (vsOk_nil _)⟩

theorem wf_stepRef (e : Expr N) (i : Bool) : ROk st (stepRef ev fr e i st) := by
  have hf1 := hf.1
  have hf2 := hf.2
  unfold stepRef
  split
  · -- variable
    repeat' split
    all_goals first
      | wf_here
      | (refine ⟨heapOk_nd hs _, ext_nd _ _, ?_⟩; simp only [OutOk, VOk]; first | trivial | assumption)
  · -- indexer
    dsimp only
    apply rok_bindV
    · apply rok_bindRef
      · apply ih _ _ _ hs hf; trivial
      · intro p x st1 hs1 he1 hp1
        exact refParent_ok hs1 hp1 i x
      · intro st1 hs1 he1
        wf_sat
        apply rok_bindAny
        · apply ih _ _ _ hs1 ‹_›; trivial
        · intro v st2 hs2 he2 hv2; wf_here
    · intro p st3 hs3 he3 hp3
      wf_sat
      apply rok_bindAny
      · apply ih _ _ _ hs3 ‹_›; trivial
      · intro iv st4 hs4 he4 hv4
        wf_sat
        split <;> wf_here
  · wf_here

theorem wf_stepCall (fv self : Value N) (args : List (Value N)) (hfv : VOk st fv) (hfn : isFunction fv = true)
    (hself : VOk st self) (hargs : VsOk st args) : ROk st (stepCall ev fr fv self args st) := by
  unfold stepCall
  split
  · -- closure
    rename_i a
    have hk : kindAt st a = some Kind.fn := hfv
    obtain ⟨ps, cap, body, hg⟩ := fn_of_kind hk
    simp only [hg]
    have hcap : KvsOk st cap := hs.1 a (.fn ps cap body) (by simpa [State.get?] using hg)
    split
    · wf_here
    · have hloc := zipLocals_ok ps args cap hargs hcap
      generalize (List.foldl (fun d pa => kvSet pa.1 pa.2 d) cap (ps.zip args)) = loc at hloc ⊢
      have ha := heapOk_alloc st (.dict loc) hs hloc
      have he := ext_alloc st (.dict loc)
      have hkn := kindAt_alloc_new st (.dict loc)
      apply ROk.ext he
      apply rok_bindAny
      · apply ih _ _ _ ha
        · refine ⟨by simpa [kindOf] using hkn, ?_⟩
          dsimp only
          split
          · simp [VOk]
          · exact hself.mono he
        · trivial
      · intro v st2 hs2 he2 hv2; wf_here
  · -- native
    rename_i name
    split
    · split
      · wf_here
      · cases self with
        | arr a =>
          simp only []
          have hka : kindAt st a = some Kind.arr := hself
          obtain ⟨xs, hx⟩ := arr?_of_kind hka
          have hxs := arr?_ok hs hx
          have hcb : VOk st (args.headD .empty) := headD_ok hargs
          split
          · wf_here
          · rename_i hisfn
            have hisfn' : isFunction (args.headD .empty) = true := by simpa using hisfn
            simp only [hx]
            split
            · wf_here
            · rename_i x r hkind
              apply ih _ _ _ hs hf
              exact ⟨hcb, hisfn', fun v m => hxs v (by simp [m]), vsOk_cons (hxs x (by simp)) (vsOk_nil _)⟩
            · apply ih _ _ _ hs hf
              exact ⟨hcb, hisfn', hxs, vsOk_nil _⟩
        | _ => simp only []; wf_here
    · split
      · rename_i r st' hnp
        obtain ⟨h1, h2, h3⟩ := hn name self args st (r, st') hs hself hargs hnp
        apply rok_liftE
        exact ⟨h1, h2, h3⟩
      · wf_here
  · -- not a function: excluded by the task invariant
    cases fv <;> simp_all [isFunction]

theorem wf_node_null  : ROk st (stepNode ev fr (.null) st) := by
  have hf1 := hf.1
  have hf2 := hf.2
  simp only [stepNode]
  wf_auto

theorem wf_node_num (n : N) : ROk st (stepNode ev fr (.num n) st) := by
  have hf1 := hf.1
  have hf2 := hf.2
  simp only [stepNode]
  wf_auto

theorem wf_node_bool (b : Bool) : ROk st (stepNode ev fr (.bool b) st) := by
  have hf1 := hf.1
  have hf2 := hf.2
  simp only [stepNode]
  wf_auto

theorem wf_node_str (s : String) : ROk st (stepNode ev fr (.str s) st) := by
  have hf1 := hf.1
  have hf2 := hf.2
  simp only [stepNode]
  wf_auto

theorem wf_node_var (x : String) : ROk st (stepNode ev fr (.var x) st) := by
  have hf1 := hf.1
  have hf2 := hf.2
  simp only [stepNode]
  wf_auto

theorem wf_node_scope (sc : Scope) : ROk st (stepNode ev fr (.scope sc) st) := by
  have hf1 := hf.1
  have hf2 := hf.2
  simp only [stepNode]
  wf_auto

theorem wf_node_bnot (a : Expr N) : ROk st (stepNode ev fr (.bnot a) st) := by
  have hf1 := hf.1
  have hf2 := hf.2
  simp only [stepNode]
  wf_auto

theorem wf_node_lnot (a : Expr N) : ROk st (stepNode ev fr (.lnot a) st) := by
  have hf1 := hf.1
  have hf2 := hf.2
  simp only [stepNode]
  wf_auto

theorem wf_node_bin (op : BinOp) (a b : Expr N) : ROk st (stepNode ev fr (.bin op a b) st) := by
  have hf1 := hf.1
  have hf2 := hf.2
  simp only [stepNode]
  wf_auto

theorem wf_node_and (a b : Expr N) : ROk st (stepNode ev fr (.and a b) st) := by
  have hf1 := hf.1
  have hf2 := hf.2
  simp only [stepNode]
  wf_auto

theorem wf_node_or (a b : Expr N) : ROk st (stepNode ev fr (.or a b) st) := by
  have hf1 := hf.1
  have hf2 := hf.2
  simp only [stepNode]
  wf_auto

theorem wf_node_isIn (a b : Expr N) : ROk st (stepNode ev fr (.isIn a b) st) := by
  have hf1 := hf.1
  have hf2 := hf.2
  simp only [stepNode]
  wf_auto

theorem wf_node_notIn (a b : Expr N) : ROk st (stepNode ev fr (.notIn a b) st) := by
  have hf1 := hf.1
  have hf2 := hf.2
  simp only [stepNode]
  wf_auto

theorem wf_node_index (a b : Expr N) : ROk st (stepNode ev fr (.index a b) st) := by
  have hf1 := hf.1
  have hf2 := hf.2
  simp only [stepNode]
  wf_auto

theorem wf_node_call (f : Expr N) (args : List (Expr N)) : ROk st (stepNode ev fr (.call f args) st) := by
  have hf1 := hf.1
  have hf2 := hf.2
  simp only [stepNode]
  wf_auto

theorem wf_node_array (es : List (Expr N)) : ROk st (stepNode ev fr (.array es) st) := by
  have hf1 := hf.1
  have hf2 := hf.2
  simp only [stepNode]
  wf_auto

theorem wf_node_dict (body : List (Expr N)) : ROk st (stepNode ev fr (.dict body) st) := by
  have hf1 := hf.1
  have hf2 := hf.2
  simp only [stepNode]
  wf_auto

theorem wf_node_block (body : List (Expr N)) : ROk st (stepNode ev fr (.block body) st) := by
  have hf1 := hf.1
  have hf2 := hf.2
  simp only [stepNode]
  wf_auto

theorem wf_node_set (lhs : Expr N) (op : SetOp) (rhs : Expr N) : ROk st (stepNode ev fr (.set lhs op rhs) st) := by
  have hf1 := hf.1
  have hf2 := hf.2
  simp only [stepNode]
  wf_auto

theorem wf_node_cond (c t : Expr N) (f : Option (Expr N)) : ROk st (stepNode ev fr (.cond c t f) st) := by
  have hf1 := hf.1
  have hf2 := hf.2
  simp only [stepNode]
  wf_auto

theorem wf_node_while (c body : Expr N) : ROk st (stepNode ev fr (.while c body) st) := by
  have hf1 := hf.1
  have hf2 := hf.2
  simp only [stepNode]
  wf_auto

theorem wf_node_for (k v : String) (e body : Expr N) : ROk st (stepNode ev fr (.for k v e body) st) := by
  have hf1 := hf.1
  have hf2 := hf.2
  simp only [stepNode]
  wf_auto

theorem wf_node_func (ps us : List String) (body : Expr N) : ROk st (stepNode ev fr (.func ps us body) st) := by
  have hf1 := hf.1
  have hf2 := hf.2
  simp only [stepNode]
  wf_auto

theorem wf_node_ret (a : Expr N) : ROk st (stepNode ev fr (.ret a) st) := by
  have hf1 := hf.1
  have hf2 := hf.2
  simp only [stepNode]
  wf_auto

theorem wf_node_brk  : ROk st (stepNode ev fr (.brk) st) := by
  have hf1 := hf.1
  have hf2 := hf.2
  simp only [stepNode]
  wf_auto

theorem wf_node_cont  : ROk st (stepNode ev fr (.cont) st) := by
  have hf1 := hf.1
  have hf2 := hf.2
  simp only [stepNode]
  wf_auto

theorem wf_node_throw (a : Expr N) : ROk st (stepNode ev fr (.throw a) st) := by
  have hf1 := hf.1
  have hf2 := hf.2
  simp only [stepNode]
  wf_auto

theorem wf_node_try (a b : Expr N) : ROk st (stepNode ev fr (.try a b) st) := by
  have hf1 := hf.1
  have hf2 := hf.2
  simp only [stepNode]
  wf_auto

end steps

end Icinga.C15.Proofs

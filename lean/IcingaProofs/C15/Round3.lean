/-
  C15 — helper lemmas for the round-3 theorems: heap growth (fresh addresses), argument lists never answer a plain value,
  the literal grammar's suffix tables.
-/
import IcingaModel.C15.Model
import IcingaModel.C15.Spec
import IcingaProofs.C15.WfNatives

set_option linter.unusedSectionVars false

namespace Icinga.C15.Proofs
open Icinga.C15

section
variable {N : Type} [Num N]

/-- heap extension never shrinks the heap -/
theorem ext_size {st st' : State N} (h : Ext st st') : st.heap.size ≤ st'.heap.size := by
  apply Nat.le_of_not_gt
  intro hlt
  have hk : kindAt st st'.heap.size = some (kindOf st.heap[st'.heap.size]) := by
    simp [kindAt, Array.getElem?_eq_getElem hlt]
  have := h _ _ hk
  simp [kindAt] at this

theorem kindAt_size (st : State N) : kindAt st st.heap.size = none := by simp [kindAt]

theorem kindAt_ge (st : State N) (a : Nat) (h : st.heap.size ≤ a) : kindAt st a = none := by
  simp [kindAt, Array.getElem?_eq_none h]

theorem exprs_not_ok : ∀ (f : Nat) (fr : Frame N) (es : List (Expr N)) (acc : List (Value N)) (st : State N) (v : Value N),
    (eval f fr (.exprs es acc) st).1 ≠ .val .ok v
  | 0, _, _, _, _, _ => by simp [eval]
  | f + 1, fr, [], acc, st, v => by simp [eval, stepExprs]
  | f + 1, fr, e :: es, acc, st, v => by
    simp only [eval, stepExprs]
    generalize eval f fr (.expr e) st = r
    obtain ⟨o, s1⟩ := r
    cases o with
    | val c w => cases c <;> simp [bindV]; exact exprs_not_ok f fr es (w :: acc) s1 v
    | _ => simp [bindV]

/-- what the harness prints for an outcome of the evaluator (the canonical text of a value is a parameter): `none` for the
    model-only outcomes (fuel, unmodelled, internal) -/
def renderOut (canon : State N → Value N → String) : Res N → Option String
  | (.val _ v, st) => some ("v:" ++ canon st v)
  | (.err (.script .stack _), _) => some "e:stack"
  | (.err (.script _ _), _) => some "e"
  | _ => none

theorem checkProgram_value (s : String) : Spec.checkProgram ⟨"v:" ++ s, "v:" ++ s, "v:" ++ s, "v:" ++ s, "v:" ++ s⟩ = none := by
  have hne : ("v:" ++ s) ≠ "timeout" := by
    intro h
    have := congrArg String.toList h
    simp [String.toList_append] at this
  have l1 : "crash".length = 5 := by decide
  have l2 : "syntaxcap@".length = 10 := by decide
  have l3 : "err:syntaxcap@".length = 14 := by decide
  have l4 : "syntax".length = 6 := by decide
  have l5 : "v:".length = 2 := by decide
  have l6 : "e".length = 1 := by decide
  simp [Spec.checkProgram, Spec.isCrash, Spec.isTimeout, Spec.isParserCapacity, Spec.pre, String.toList_append, hne,
    l1, l2, l3, l4, l5, l6, List.take]

end

def suffixChars : Suffix → List Char
  | .none => [] | .ms => ['m', 's'] | .s => ['s'] | .m => ['m'] | .h => ['h'] | .d => ['d']

/-- doc/17 "Duration literals": the factor of each suffix, in seconds, as numerator/denominator -/
def docFactor : Suffix → Nat × Nat
  | .none => (1, 1) | .ms => (1, 1000) | .s => (1, 1) | .m => (60, 1) | .h => (3600, 1) | .d => (86400, 1)

theorem suffix_takeWhile (s : Suffix) : (suffixChars s).takeWhile Char.isDigit = [] := by cases s <;> decide
theorem suffix_dropWhile (s : Suffix) : (suffixChars s).dropWhile Char.isDigit = suffixChars s := by cases s <;> decide
theorem suffixOf_chars (s : Suffix) : suffixOf (suffixChars s) = some s := by cases s <;> rfl
theorem specFactor_chars (s : Suffix) : Spec.suffixFactor (suffixChars s) = some (docFactor s) := by cases s <;> decide

end Icinga.C15.Proofs

/-
  C15 — helper lemmas: the frame-depth high-water mark (`State.maxDepth`) never exceeds the limit, for every task,
  frame, state and fuel (induction on fuel; one lemma per combinator of `eval`).
-/
import IcingaModel.C15.Model

namespace Icinga.C15.Proofs

open Icinga.C15

set_option linter.unusedSectionVars false
variable {N : Type} [Num N]

/-- the invariant on results -/
def Ok (r : Res N) : Prop := r.2.maxDepth ≤ depthLimit

theorem ok_bindV (r : Res N) (k : Value N → State N → Res N) (h : Ok r)
    (hk : ∀ v st, st.maxDepth ≤ depthLimit → Ok (k v st)) : Ok (bindV r k) := by
  unfold bindV; split
  · exact hk _ _ h
  · exact h

theorem ok_bindVals (r : Res N) (k : List (Value N) → State N → Res N) (h : Ok r)
    (hk : ∀ v st, st.maxDepth ≤ depthLimit → Ok (k v st)) : Ok (bindVals r k) := by
  unfold bindVals; split
  · exact hk _ _ h
  · exact h

theorem ok_bindAny (r : Res N) (k : Value N → State N → Res N) (h : Ok r)
    (hk : ∀ v st, st.maxDepth ≤ depthLimit → Ok (k v st)) : Ok (bindAny r k) := by
  unfold bindAny; split
  · exact hk _ _ h
  · exact h

theorem ok_bindCallee (r : Res N) (k : Value N → State N → Res N) (h : Ok r)
    (hk : ∀ v st, st.maxDepth ≤ depthLimit → Ok (k v st)) : Ok (bindCallee r k) := by
  unfold bindCallee; split
  · exact hk _ _ h
  · exact h
  · exact h

theorem ok_loopStep (r : Res N) (k : State N → Res N) (h : Ok r)
    (hk : ∀ st, st.maxDepth ≤ depthLimit → Ok (k st)) : Ok (loopStep r k) := by
  unfold loopStep; split
  · exact h
  · exact h
  · exact hk _ h
  · exact h

theorem ok_bindRef (r : Res N) (k1 : Value N → String → State N → Res N) (k2 : State N → Res N) (h : Ok r)
    (h1 : ∀ p i st, st.maxDepth ≤ depthLimit → Ok (k1 p i st)) (h2 : ∀ st, st.maxDepth ≤ depthLimit → Ok (k2 st)) :
    Ok (bindRef r k1 k2) := by
  unfold bindRef; split
  · exact h1 _ _ _ h
  · exact h2 _ h
  · exact h

theorem ok_catchScript (r : Res N) (k : State N → Res N) (h : Ok r)
    (hk : ∀ st, st.maxDepth ≤ depthLimit → Ok (k st)) : Ok (catchScript r k) := by
  unfold catchScript; split
  · exact h
  · exact hk _ h
  · exact h

@[simp] theorem alloc_md (st : State N) (o : HObj N) : (st.alloc o).2.maxDepth = st.maxDepth := rfl
@[simp] theorem put_md (st : State N) (a : Addr) (o : HObj N) : (st.put a o).maxDepth = st.maxDepth := rfl
@[simp] theorem localsSet_md (st : State N) (fr : Frame N) (x : String) (v : Value N) :
    (localsSet st fr x v).maxDepth = st.maxDepth := by
  unfold localsSet; split <;> rfl
@[simp] theorem newArr_md (st : State N) (xs : List (Value N)) : (newArr st xs).2.maxDepth = st.maxDepth := rfl

theorem binop_md (op : BinOp) (l r : Value N) (st : State N) : (binop op l r st).2.maxDepth = st.maxDepth := by
  unfold binop
  simp only [State.alloc]
  repeat' split
  all_goals first | rfl | simp

theorem setField_md (st st' : State N) (c : Value N) (f : String) (v : Value N) (h : setField st c f v = .ok st') :
    st'.maxDepth = st.maxDepth := by
  unfold setField at h
  repeat' split at h
  all_goals first | (injection h with h; subst h; rfl) | (cases h; done) | skip

theorem ok_liftE (r : Except Err (Value N) × State N) (h : r.2.maxDepth ≤ depthLimit) : Ok (liftE r) := by
  unfold liftE; split <;> exact h

theorem refInit_md (i : Bool) (p : Value N) (x : String) (st st' : State N) (h : refInit i p x st = .ok st') :
    st'.maxDepth = st.maxDepth := by
  unfold refInit at h
  split at h
  · split at h
    · cases h
    · have := setField_md _ _ _ _ _ h; simpa using this
    · cases h; rfl
  · cases h; rfl

theorem ok_refParent (i : Bool) (p : Value N) (x : String) (st : State N) (h : st.maxDepth ≤ depthLimit) :
    Ok (refParent i p x st) := by
  unfold refParent
  split
  · exact h
  · rename_i st2 hh
    apply ok_liftE
    have := refInit_md _ _ _ _ _ hh
    simp; omega

theorem assignValue_md (p : Value N) (x : String) (op : SetOp) (v : Value N) (st : State N) :
    (assignValue p x op v st).2.maxDepth = st.maxDepth := by
  unfold assignValue
  split
  · rfl
  · split
    · exact binop_md _ _ _ _
    · rfl

theorem ok_assign (p : Value N) (x : String) (op : SetOp) (v : Value N) (st : State N) (h : st.maxDepth ≤ depthLimit) :
    Ok (assign p x op v st) := by
  have hv := assignValue_md p x op v st
  unfold assign Ok
  split
  · simp; omega
  · split
    · rename_i st4 hh
      have := setField_md _ _ _ _ _ hh
      simp; omega
    · simp; omega


macro "ok_close" : tactic => `(tactic| first
  | assumption
  | (simp [Ok, binop_md, State.noteDepth, Nat.max_le] at *; done)
  | (simp [Ok, binop_md, State.noteDepth, Nat.max_le] at *; omega)
  | (simp [Ok, binop_md, State.noteDepth, Nat.max_le, depthLimit] at *; omega))

macro "ok_step" : tactic => `(tactic| first
  | assumption
  | (intro _)
  | (apply ok_bindV) | (apply ok_bindVals) | (apply ok_bindAny) | (apply ok_bindCallee) | (apply ok_loopStep)
  | (apply ok_bindRef) | (apply ok_catchScript) | (apply ok_refParent) | (apply ok_assign) | (apply ok_liftE)
  | split
  | dsimp only)

/-- what the step functions need from the evaluator of nested evaluations -/
def EvOk (ev : Frame N → Task N → State N → Res N) : Prop :=
  ∀ fr t st, fr.depth ≤ depthLimit → st.maxDepth ≤ depthLimit → Ok (ev fr t st)

macro "ok_auto" : tactic => `(tactic| repeat (any_goals (first | ok_step | (apply ‹EvOk _› <;> ok_close) | ok_close)))

theorem ok_callWith (ev : Frame N → Task N → State N → Res N) (ih : EvOk ev) (fr : Frame N) (args : List (Expr N))
    (self vf : Value N) (st : State N) (hfr : fr.depth ≤ depthLimit) (hst : st.maxDepth ≤ depthLimit) :
    Ok (callWith ev fr args self vf st) := by
  unfold callWith; ok_auto

section steps
variable (ev : Frame N → Task N → State N → Res N) (ih : EvOk ev) (fr : Frame N) (st : State N)
  (hfr : fr.depth ≤ depthLimit) (hst : st.maxDepth ≤ depthLimit)
include ih hfr hst

theorem ok_stepExprs (es : List (Expr N)) (acc : List (Value N)) : Ok (stepExprs ev fr es acc st) := by
  unfold stepExprs; ok_auto
theorem ok_stepBlock (es : List (Expr N)) (last : Value N) : Ok (stepBlock ev fr es last st) := by
  unfold stepBlock; ok_auto
theorem ok_stepWhile (c body : Expr N) : Ok (stepWhile ev fr c body st) := by
  unfold stepWhile; ok_auto
theorem ok_stepForArr (k : String) (a : Addr) (i : Nat) (body : Expr N) : Ok (stepForArr ev fr k a i body st) := by
  unfold stepForArr; ok_auto
theorem ok_stepForKeys (k v : String) (d : Addr) (keys : List String) (body : Expr N) : Ok (stepForKeys ev fr k v d keys body st) := by
  unfold stepForKeys; ok_auto
theorem ok_stepCall (fv self : Value N) (args : List (Value N)) : Ok (stepCall ev fr fv self args st) := by
  unfold stepCall; ok_auto
theorem ok_stepIter (kind : IterKind) (cb : Value N) (items acc : List (Value N)) : Ok (stepIter ev fr kind cb items acc st) := by
  unfold stepIter; ok_auto
theorem ok_stepRef (e : Expr N) (i : Bool) : Ok (stepRef ev fr e i st) := by
  unfold stepRef; ok_auto
theorem ok_stepNode (e : Expr N) : Ok (stepNode ev fr e st) := by
  unfold stepNode
  repeat (any_goals (first | ok_step | (apply ‹EvOk _› <;> ok_close) | (apply ok_callWith _ ‹EvOk _› <;> ok_close) | ok_close))

end steps

theorem ok_stepExpr (ev : Frame N → Task N → State N → Res N) (ih : EvOk ev) (fr : Frame N) (st : State N)
    (hfr : fr.depth ≤ depthLimit) (hst : st.maxDepth ≤ depthLimit) (e : Expr N) : Ok (stepExpr ev fr e st) := by
  unfold stepExpr
  split
  · exact hst
  · apply ok_stepNode ev ih
    · simp; omega
    · simp [State.noteDepth, Nat.max_le]; omega

/-- **The depth invariant**: whatever is evaluated, from a frame at depth ≤ 300 in a state whose high-water mark is ≤ 300,
    the high-water mark of the final state is ≤ 300 — no frame depth beyond the limit is ever entered. -/
theorem eval_ok : ∀ (fuel : Nat), EvOk (eval (N := N) fuel)
  | 0 => by intro fr t st _ hst; simp [eval, Ok]; exact hst
  | f + 1 => by
    have ih : EvOk (eval (N := N) f) := eval_ok f
    intro fr t st hfr hst
    cases t <;> simp only [eval]
    · exact ok_stepExpr _ ih _ _ hfr hst _
    · exact ok_stepExprs _ ih _ _ hfr hst _ _
    · exact ok_stepBlock _ ih _ _ hfr hst _ _
    · exact ok_stepRef _ ih _ _ hfr hst _ _
    · exact ok_stepWhile _ ih _ _ hfr hst _ _
    · exact ok_stepForArr _ ih _ _ hfr hst _ _ _ _
    · exact ok_stepForKeys _ ih _ _ hfr hst _ _ _ _ _
    · exact ok_stepCall _ ih _ _ hfr hst _ _ _
    · exact ok_stepIter _ ih _ _ hfr hst _ _ _ _

end Icinga.C15.Proofs

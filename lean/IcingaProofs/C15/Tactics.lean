/-
  C15 — a small saturation tactic for the well-formedness proofs: `wf_sat` transports every fact about a state along the
  most recent `Ext st st'` hypothesis (values, frames, lists, cell kinds stay well-formed when the heap grows).
-/
import Lean.Elab.Tactic

open Lean Elab Tactic Meta

elab "wf_sat" : tactic => withMainContext do
  let lctx ← getLCtx
  let mut last : Option LocalDecl := none
  for d in lctx do
    if d.isImplementationDetail then continue
    let t ← instantiateMVars d.type
    if t.isAppOf `Icinga.C15.Proofs.Ext then last := some d
  match last with
  | none => pure ()
  | some e =>
    for d in lctx do
      if d.isImplementationDetail then continue
      for lem in [`Icinga.C15.Proofs.VOk.mono, `Icinga.C15.Proofs.FrOk.mono, `Icinga.C15.Proofs.VsOk.mono,
                  `Icinga.C15.Proofs.KvsOk.mono, `Icinga.C15.Proofs.kindAt_mono] do
        try
          let pf ← mkAppM lem #[e.toExpr, d.toExpr]
          let ty ← inferType pf
          liftMetaTactic fun g => do
            let g' ← g.assert (← mkFreshUserName `tr) ty pf
            let (_, g'') ← g'.intro1P
            return [g'']
        catch _ => pure ()

/-- `intros` only when the goal is syntactically a `∀`/`→` (never unfolds a definition to find a binder) -/
elab "intro_forall" : tactic => withMainContext do
  let t ← instantiateMVars (← getMainTarget)
  if t.consumeMData.isForall then
    evalTactic (← `(tactic| intros))
  else
    throwError "goal is not syntactically a forall"

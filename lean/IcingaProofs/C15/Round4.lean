/-
  C15 — helper definitions and lemmas of round 4: the operators of the model against the DOCUMENT's table and the grammar's
  declarations (pairwise), Array::Join as a left fold.
-/
import IcingaModel.C15.Model
import IcingaProofs.Gen.Precedence

namespace Icinga.C15.Proofs

open Icinga.C15 Icinga.Gen.Precedence

/-- the 20 binary operators of the sub-language: the 16 of value-operators.cpp (`BinOp.sym`) and `&&`, `||`, `in`, `!in` -/
def allBinarySyms : List String :=
  ([BinOp.add, .sub, .mul, .div, .mod, .xor, .band, .bor, .shl, .shr, .eq, .ne, .lt, .gt, .le, .ge].map BinOp.sym) ++ ["&&", "||", "in", "!in"]

/-- documented precedence of a binary operator (rows with precedence 3–13 of the document's table; 1 binds tightest) -/
def docLevelOf (s : String) : Option Nat := (documented.find? (fun r => r.2 == s && 3 ≤ r.1 && r.1 ≤ 13)).map (·.1)

def findIdxOpt {α : Type} (p : α → Bool) : List α → Nat → Option Nat
  | [], _ => none
  | x :: r, i => if p x then some i else findIdxOpt p r (i + 1)

/-- position (file order: a LATER line binds tighter) of the `%left/%nonassoc` line declaring the token the lexer makes of `s`,
    provided the grammar has a binary rule `rterm TOKEN rterm` for that token -/
def grammarIndexOf (s : String) : Option Nat :=
  match lexemes.find? (fun l => l.2 == s && (binaryRules.map (·.1)).contains l.1) with
  | some l => findIdxOpt (fun lv => lv.2.contains l.1) grammarLevels 0
  | none => none

/-- both operators are documented and declared, and the grammar orders them as the document does (tighter / same level / looser) -/
def orderedAlike (a b : String) : Bool :=
  match docLevelOf a, docLevelOf b, grammarIndexOf a, grammarIndexOf b with
  | some da, some db, some ga, some gb => (decide (da < db) == decide (gb < ga)) && (decide (da = db) == decide (ga = gb))
  | _, _, _, _ => false

/-- a fold that conses every element onto a `some` accumulator keeps the whole list -/
theorem foldr_keeps_all {α : Type} (F : α → Option (List α) → Option (List α)) (hF : ∀ x acc, F x (some acc) = some (x :: acc))
    (xs : List α) : xs.foldr F (some []) = some xs := by
  induction xs with
  | nil => rfl
  | cons x r ih => simp only [List.foldr, ih, hF]

section
variable {N : Type} [Num N]

/-- Array::Join after the first element, on strings: every further element is appended behind the separator -/
theorem join_strings_acc (sep : String) (ys : List String) (acc : String) (st : State N) :
    joinValues (.str sep) (ys.map Value.str) false (.str acc) st =
      (.ok (.str (ys.foldl (fun s y => s ++ sep ++ y) acc)), st) := by
  induction ys generalizing acc with
  | nil => simp [joinValues]
  | cons y r ih =>
    simp [joinValues, binop, binScalar, numPairStrict, strPair, Value.isNumber, Value.isString, Value.isEmpty, Value.toStr, ih]

end

end Icinga.C15.Proofs
